(* C04_request.v — the Request-level glue around _body_read (model/ReqBody.v):
   first materialisation is exact, the buffered body is stable under every later
   operation on the family (further accesses, partial reads, copies, header
   rewrites), and the server stream is not touched again. *)
From Verif Require Import lib.Base lib.ListX gen.Gen model.Stream model.Body model.ReqBody proofs.C04_proofs.

(* ---- list helpers ---- *)
Lemma nth_error_set_nth_eq {A} (l : list A) i x :
  i < length l -> nth_error (set_nth i x l) i = Some x.
Proof.
  revert i; induction l as [|h t IH]; intros [|i] H; simpl in *; try lia; auto.
  apply IH; lia.
Qed.

Lemma nth_error_set_nth_neq {A} (l : list A) i j x :
  i <> j -> nth_error (set_nth i x l) j = nth_error l j.
Proof.
  revert i j; induction l as [|h t IH]; intros [|i] [|j] H; simpl; auto; try congruence.
Qed.

Lemma set_nth_length {A} (l : list A) i x : length (set_nth i x l) = length l.
Proof. revert i; induction l as [|h t IH]; intros [|i]; simpl; auto. Qed.

Lemma nth_set_nth_eq {A} (l : list A) i x d : i < length l -> nth i (set_nth i x l) d = x.
Proof.
  revert i; induction l as [|h t IH]; intros [|i] H; simpl in *; try lia; auto.
  apply IH; lia.
Qed.

Lemma nth_set_nth_neq {A} (l : list A) i j x d : i <> j -> nth j (set_nth i x l) d = nth j l d.
Proof.
  revert i j; induction l as [|h t IH]; intros [|i] [|j] H; simpl; auto; try congruence.
Qed.

Lemma nth_error_Some_lt {A} (l : list A) i x : nth_error l i = Some x -> i < length l.
Proof. intros H. apply nth_error_Some. congruence. Qed.

(* ---- generalisation of the C04 core to a stream at any position ---- *)
Lemma body_read_cl_any s buf cl :
  0 < buf ->
  exists s',
    body_read_cl s buf None cl
      = BDone (firstn (Z.to_nat cl) (rest s))
              (Nat.ltb buf (Nat.min (Z.to_nat cl) (length (rest s)))) s'
    /\ rest s' = skipn (Z.to_nat cl) (rest s)
    /\ pos s' = pos s + Nat.min (Z.to_nat cl) (length (rest s))
    /\ (forall cl0, pos s + Z.to_nat cl <= cl0 -> reqs_ok buf cl0 (reqs s) -> reqs_ok buf cl0 (reqs s')).
Proof.
  intros Hbuf. unfold body_read_cl.
  destruct (cl_loop_spec (S (length (rest s))) s buf (Z.to_nat cl) [] false Hbuf)
    as (s' & Heq & Hrest & Hpos & Hreq).
  - lia.
  - simpl. destruct buf; [lia|reflexivity].
  - exists s'. cbn [app] in Heq. rewrite Heq, firstn_length. repeat split; auto.
Qed.

Section Req.
Variable buf : nat.
Variable maxb : option nat.        (* any size limit, or none *)

(* ---- 1. a settled outcome is stable ----
   A request object is SETTLED when it either presents a buffered body c or carries the error of a failed
   read (F43: environ['ombott.request.body_error']).  Either way later accesses do not touch any stream. *)

(* does the operation replace the input of request r ? *)
Definition sets_input (r : nat) (o : op) : bool :=
  match o with OSetInput r' _ _ => Nat.eqb r r' | _ => false end.

Definition settled (w : world) (r : nat) (res : option (list N)) : Prop :=
  exists rq, nth_error (w_reqs w) r = Some rq /\
             match res with
             | Some c => r_failed rq = false /\ r_cache rq = Some c
             | None => r_failed rq = true
             end.

Definition cached (w : world) (r : nat) (c : list N) : Prop := settled w r (Some c).
Definition failed (w : world) (r : nat) : Prop := settled w r None.

Definition outcome (res : option (list N)) (k : option nat) : out :=
  match res with Some c => OutBytes (take_opt k c) | None => OutErr end.

Lemma settled_untouched w w' r res :
  (forall rq, nth_error (w_reqs w) r = Some rq -> nth_error (w_reqs w') r = Some rq) ->
  settled w r res -> settled w' r res.
Proof. intros H (rq & Hr & Hres). exists rq. split; [apply H; exact Hr | exact Hres]. Qed.

Lemma step_keeps_settled w o r res :
  settled w r res -> sets_input r o = false -> settled (fst (step buf maxb w o)) r res.
Proof.
  intros Hs Hset. pose proof Hs as (rq & Hr & Hres).
  destruct o as [r' k|r'|r' v|r'|r' d sc|r' k]; cbn [step].
  - (* OBody *)
    destruct (nth_error (w_reqs w) r') as [rq'|] eqn:Hr'; [|exact Hs].
    destruct (r_failed rq') eqn:Hf'; [exact Hs|].
    destruct (r_cache rq') as [c'|] eqn:Hc'; [exact Hs|].
    assert (Hne : r' <> r).
    { intros ->. rewrite Hr in Hr'. injection Hr' as <-.
      destruct res as [c|]; [destruct Hres as [_ Hc]; congruence | congruence]. }
    destruct (body_read_cl (nth (r_input rq') (w_streams w) dummy_stream) buf maxb (r_cl rq'))
      as [body sp s'|s'|s'|]; cbn [fst]; try exact Hs;
      (eapply settled_untouched; [|exact Hs]; intros rq0 H0; cbn [w_reqs];
       rewrite nth_error_set_nth_neq by exact Hne; exact H0).
  - (* OCopy *)
    destruct (nth_error (w_reqs w) r') as [rq'|] eqn:Hr'; [|exact Hs].
    cbn [fst]. eapply settled_untouched; [|exact Hs]. intros rq0 H0. cbn [w_reqs].
    rewrite nth_error_app1; [exact H0 | eapply nth_error_Some_lt; exact H0].
  - (* OSetCL *)
    destruct (nth_error (w_reqs w) r') as [rq'|] eqn:Hr'; [|exact Hs].
    cbn [fst].
    destruct (Nat.eq_dec r' r) as [->|Hne].
    + rewrite Hr in Hr'. injection Hr' as <-.
      eexists. split; [cbn [w_reqs]; apply nth_error_set_nth_eq; eapply nth_error_Some_lt; exact Hr|].
      destruct res; cbn [r_failed r_cache]; exact Hres.
    + eapply settled_untouched; [|exact Hs]. intros rq0 H0. cbn [w_reqs].
      rewrite nth_error_set_nth_neq by exact Hne. exact H0.
  - (* OSetOther *)
    destruct (nth_error (w_reqs w) r'); exact Hs.
  - (* OSetInput *)
    cbn [sets_input] in Hset. apply Nat.eqb_neq in Hset.
    destruct (nth_error (w_reqs w) r') as [rq'|] eqn:Hr'; [|exact Hs].
    cbn [fst]. eapply settled_untouched; [|exact Hs]. intros rq0 H0. cbn [w_reqs].
    rewrite nth_error_set_nth_neq by congruence. exact H0.
  - (* OHandOn: only appends a stream and a request object *)
    destruct (nth_error (w_reqs w) r') as [rq'|] eqn:Hr'; [|exact Hs].
    destruct (r_failed rq'); [exact Hs|].
    destruct (r_cache rq') as [c'|]; [|exact Hs].
    destruct (body_read_cl (stream_init c' []) buf maxb (r_cl rq')) as [body sp s'|s'|s'|]; cbn [fst]; try exact Hs;
      (eapply settled_untouched; [|exact Hs]; intros rq0 H0; cbn [w_reqs];
       rewrite nth_error_app1; [exact H0 | eapply nth_error_Some_lt; exact H0]).
Qed.

Lemma run_keeps_settled ops : forall w r res,
  settled w r res -> forallb (fun o => negb (sets_input r o)) ops = true ->
  settled (fst (run buf maxb w ops)) r res.
Proof.
  induction ops as [|o ops IH]; intros w r res Hc Hops; [exact Hc|].
  cbn [forallb] in Hops. apply andb_true_iff in Hops. destruct Hops as [Ho Hops].
  apply negb_true_iff in Ho. cbn [run].
  pose proof (step_keeps_settled w o r res Hc Ho) as H1.
  destruct (step buf maxb w o) as [w1 x]. cbn [fst] in H1.
  specialize (IH w1 r res H1 Hops).
  destruct (run buf maxb w1 ops) as [w2 xs]. exact IH.
Qed.

(* an access to a settled request returns its outcome and changes nothing (no stream is read) *)
Lemma settled_access w r res k :
  settled w r res -> step buf maxb w (OBody r k) = (w, outcome res k).
Proof.
  intros (rq & Hr & Hres). cbn [step]. rewrite Hr.
  destruct res as [c|]; [destruct Hres as [Hf Hc]; now rewrite Hf, Hc | now rewrite Hres].
Qed.

(* a copy of a settled request is settled the same way *)
Lemma settled_copy w r res :
  settled w r res ->
  exists w', step buf maxb w (OCopy r) = (w', OutNew (length (w_reqs w)))
             /\ settled w' (length (w_reqs w)) res /\ w_streams w' = w_streams w.
Proof.
  intros (rq & Hr & Hres). cbn [step]. rewrite Hr. eexists. split; [reflexivity|].
  split; [|reflexivity]. exists rq. split; [|exact Hres].
  cbn [w_reqs]. rewrite nth_error_app2 by lia. now rewrite Nat.sub_diag.
Qed.

(* once request r is settled, it answers the same way after any further operations on the whole
   family that do not assign a new wsgi.input to r itself *)
Lemma settled_stable w r res ops k :
  settled w r res ->
  forallb (fun o => negb (sets_input r o)) ops = true ->
  let w' := fst (run buf maxb w ops) in
  step buf maxb w' (OBody r k) = (w', outcome res k).
Proof. intros Hc Hops w'. apply settled_access. apply run_keeps_settled; assumption. Qed.

Lemma stable_lemma w r c ops k :
  cached w r c ->
  forallb (fun o => negb (sets_input r o)) ops = true ->
  let w' := fst (run buf maxb w ops) in
  step buf maxb w' (OBody r k) = (w', OutBytes (take_opt k c)).
Proof. exact (settled_stable w r (Some c) ops k). Qed.

Lemma failed_final_lemma w r ops k :
  failed w r ->
  forallb (fun o => negb (sets_input r o)) ops = true ->
  let w' := fst (run buf maxb w ops) in
  step buf maxb w' (OBody r k) = (w', OutErr).
Proof. exact (settled_stable w r None ops k). Qed.

Lemma cached_copy w r c :
  cached w r c ->
  exists w', step buf maxb w (OCopy r) = (w', OutNew (length (w_reqs w))) /\ cached w' (length (w_reqs w)) c
             /\ w_streams w' = w_streams w.
Proof. exact (settled_copy w r (Some c)). Qed.

(* a refused read marks the request: the access that reports the refusal leaves it failed *)
Lemma refusal_marks w r k w' :
  step buf maxb w (OBody r k) = (w', OutErr) -> failed w' r.
Proof.
  cbn [step]. destruct (nth_error (w_reqs w) r) as [rq|] eqn:Hr; [|discriminate].
  destruct (r_failed rq) eqn:Hf.
  - intros H. injection H as <-. exists rq. split; assumption.
  - destruct (r_cache rq); [discriminate|].
    destruct (body_read_cl _ _ _ _) as [body sp s'|s'|s'|]; try discriminate.
    intros H. injection H as <-. eexists. split; [cbn [w_reqs]; apply nth_error_set_nth_eq;
      eapply nth_error_Some_lt; exact Hr | reflexivity].
Qed.

End Req.

Section First.
Variable buf : nat.
Hypothesis Hbuf : 0 < buf.

(* ---- 2. the first access materialises exactly the Content-Length bytes (no size limit configured) ---- *)

(* operations that neither read a body nor install a stream *)
Definition passive (o : op) : bool :=
  match o with OBody _ _ | OSetInput _ _ _ | OHandOn _ _ => false | _ => true end.

(* invariant of passive histories from world_init: one untouched stream, nothing settled anywhere *)
Definition fresh (data : list N) (sc : list nat) (w : world) : Prop :=
  w_streams w = [stream_init data sc] /\
  Forall (fun rq => r_input rq = 0 /\ r_cache rq = None /\ r_failed rq = false) (w_reqs w).

Lemma Forall_set_nth {A} (P : A -> Prop) l i x : Forall P l -> P x -> Forall P (set_nth i x l).
Proof.
  intros H; revert i; induction H as [|h t Hh Ht IH]; intros [|i] Hx; simpl; auto.
Qed.

Lemma Forall_nth_error {A} (P : A -> Prop) l i x : Forall P l -> nth_error l i = Some x -> P x.
Proof. intros H E. rewrite Forall_forall in H. apply H. eapply nth_error_In; exact E. Qed.

Lemma step_fresh data sc mb w o :
  fresh data sc w -> passive o = true -> fresh data sc (fst (step buf mb w o)).
Proof.
  intros [Hs Hr] Hp. destruct o as [r k|r|r v|r|r d s|r k]; try discriminate; cbn [step];
    destruct (nth_error (w_reqs w) r) as [rq|] eqn:E; cbn [fst]; try (split; assumption).
  - (* OCopy *)
    destruct (Forall_nth_error _ _ _ _ Hr E) as (Hi & Hc & Hf).
    split; [exact Hs|]. cbn [w_reqs]. apply Forall_app. split; [exact Hr|].
    constructor; [repeat split; assumption|constructor].
  - (* OSetCL *)
    destruct (Forall_nth_error _ _ _ _ Hr E) as (Hi & Hc & Hf).
    split; [exact Hs|]. cbn [w_reqs]. apply Forall_set_nth; [exact Hr|]. cbn [r_input r_cache r_failed].
    repeat split; assumption.
Qed.

Lemma run_fresh data sc mb ops : forall w,
  fresh data sc w -> forallb passive ops = true -> fresh data sc (fst (run buf mb w ops)).
Proof.
  induction ops as [|o ops IH]; intros w Hf Hops; [exact Hf|].
  cbn [forallb] in Hops. apply andb_true_iff in Hops. destruct Hops as [Ho Hops]. cbn [run].
  pose proof (step_fresh data sc mb w o Hf Ho) as H1.
  destruct (step buf mb w o) as [w1 x]. cbn [fst] in H1.
  specialize (IH w1 H1 Hops). destruct (run buf mb w1 ops) as [w2 xs]. exact IH.
Qed.

Lemma world_init_fresh data sc cl : fresh data sc (world_init data sc cl).
Proof. split; [reflexivity|]. constructor; [repeat split; reflexivity | constructor]. Qed.

(* After any passive history (copies, header rewrites), the first body access on
   any request object of the family — with whatever Content-Length that object
   then carries — returns exactly the first Content-Length bytes of the server
   stream, leaves the stream exactly behind them, never asked for a byte beyond
   them, and caches that body on the object. *)
Lemma first_access_lemma data sc cl0 pre r rq k :
  forallb passive pre = true ->
  let w := fst (run buf None (world_init data sc cl0) pre) in
  nth_error (w_reqs w) r = Some rq ->
  exists w',
    step buf None w (OBody r k) = (w', OutBytes (take_opt k (firstn (Z.to_nat (r_cl rq)) data)))
    /\ cached w' r (firstn (Z.to_nat (r_cl rq)) data)
    /\ exists s', w_streams w' = [s']
         /\ rest s' = skipn (Z.to_nat (r_cl rq)) data
         /\ pos s' = Nat.min (Z.to_nat (r_cl rq)) (length data)
         /\ reqs_ok buf (Z.to_nat (r_cl rq)) (reqs s').
Proof.
  intros Hpre w Hr.
  destruct (run_fresh data sc None pre _ (world_init_fresh data sc cl0) Hpre) as [Hs Hq].
  fold w in Hs, Hq.
  destruct (Forall_nth_error _ _ _ _ Hq Hr) as (Hin & Hca & Hfa).
  cbn [step]. rewrite Hr, Hfa, Hca, Hin, Hs. cbn [nth].
  destruct (C04_exact_lemma data sc buf (r_cl rq) Hbuf) as (s' & Heq & Hrest & Hpos & Hreq).
  rewrite Heq. eexists. split; [reflexivity|]. split.
  - eexists. split; [cbn [w_reqs]; apply nth_error_set_nth_eq; eapply nth_error_Some_lt; exact Hr|].
    split; reflexivity.
  - exists s'. cbn [w_streams set_nth]. auto.
Qed.

(* The next consumer of the environ.  A request object that presents the buffered body c hands its environ on (OHandOn):
   the consumer is presented exactly the first Content-Length bytes of c — c itself when Content-Length is the one c
   was buffered under —, keeps them as its own buffered body; the original goes on presenting c; no stream that existed
   before is touched, and the only stream read is the buffered copy, never past its byte Content-Length. *)
Lemma hand_on_lemma w r rq c k :
  nth_error (w_reqs w) r = Some rq -> r_failed rq = false -> r_cache rq = Some c ->
  let body := firstn (Z.to_nat (r_cl rq)) c in
  exists w' s',
    step buf None w (OHandOn r k) = (w', OutBytes (take_opt k body))
    /\ cached w' (length (w_reqs w)) body
    /\ cached w' r c
    /\ w_streams w' = w_streams w ++ [s']
    /\ pos s' = Nat.min (Z.to_nat (r_cl rq)) (length c)
    /\ reqs_ok buf (Z.to_nat (r_cl rq)) (reqs s').
Proof.
  intros Hr Hf Hc body. cbn [step]. rewrite Hr, Hf, Hc.
  destruct (C04_exact_lemma c [] buf (r_cl rq) Hbuf) as (s' & Heq & _ & Hpos & Hreq).
  rewrite Heq. eexists; exists s'. split; [reflexivity|].
  split; [|split; [|split; [reflexivity|split; assumption]]].
  - eexists. split; [cbn [w_reqs]; rewrite nth_error_app2 by lia; rewrite Nat.sub_diag; reflexivity|].
    split; reflexivity.
  - exists rq. split; [cbn [w_reqs]; rewrite nth_error_app1; [exact Hr | eapply nth_error_Some_lt; exact Hr]|].
    split; assumption.
Qed.

(* ... and when the body was buffered by the first access of a passive history, under a Content-Length that was not
   rewritten since, the next consumer is presented that very body: the first Content-Length bytes of the server stream *)
Lemma hand_on_after_first_access data sc cl0 pre r rq k k' :
  forallb passive pre = true ->
  let w := fst (run buf None (world_init data sc cl0) pre) in
  nth_error (w_reqs w) r = Some rq ->
  let body := firstn (Z.to_nat (r_cl rq)) data in
  snd (run buf None w [OBody r k; OHandOn r k']) = [OutBytes (take_opt k body); OutBytes (take_opt k' body)].
Proof.
  intros Hpre w Hr body.
  destruct (first_access_lemma data sc cl0 pre r rq k Hpre Hr) as (w1 & Hstep & (rq1 & Hr1 & Hf1 & Hc1) & _).
  fold w in Hstep. fold body in Hstep, Hc1.
  assert (Hcl : r_cl rq1 = r_cl rq).
  { revert Hstep Hr1. cbn [step]. rewrite Hr.
    destruct (r_failed rq); [intros H; injection H as <- _; rewrite Hr; congruence|].
    destruct (r_cache rq) as [c0|]; [intros H; injection H as <- _; rewrite Hr; congruence|].
    destruct (body_read_cl _ _ _ _) as [b sp s'|s'|s'|]; intros H; injection H as <- _; cbn [w_reqs];
      try (rewrite Hr; congruence);
      rewrite nth_error_set_nth_eq by (eapply nth_error_Some_lt; exact Hr); intros E; injection E as <-; reflexivity. }
  destruct (hand_on_lemma w1 r rq1 body k' Hr1 Hf1 Hc1) as (w2 & s2 & Hstep2 & _).
  cbn [run]. rewrite Hstep, Hstep2. cbn [snd]. rewrite Hcl. unfold body. rewrite firstn_firstn, Nat.min_id. reflexivity.
Qed.

Lemma forallb_andb_split {A} (f g : A -> bool) l :
  forallb (fun x => f x && g x) l = true -> forallb f l = true /\ forallb g l = true.
Proof.
  induction l as [|x l IH]; cbn [forallb]; [auto|].
  intros H. apply andb_true_iff in H. destruct H as [Hx Hl]. apply andb_true_iff in Hx. destruct Hx as [Hf Hg].
  destruct (IH Hl) as [H1 H2]. rewrite Hf, Hg, H1, H2. auto.
Qed.

(* ... and both stay that way: after the hand-on, whatever further operations are applied to the family (accesses, copies,
   header rewrites, more hand-ons, new inputs on OTHER objects), the original keeps presenting c and the consumer keeps
   presenting what it was given, and neither access touches a stream. *)
Lemma hand_on_then_stable w r rq c k ops k1 k2 :
  nth_error (w_reqs w) r = Some rq -> r_failed rq = false -> r_cache rq = Some c ->
  let n := length (w_reqs w) in
  forallb (fun o => negb (sets_input r o) && negb (sets_input n o)) ops = true ->
  let w2 := fst (run buf None (fst (step buf None w (OHandOn r k))) ops) in
  step buf None w2 (OBody r k1) = (w2, OutBytes (take_opt k1 c))
  /\ step buf None w2 (OBody n k2) = (w2, OutBytes (take_opt k2 (firstn (Z.to_nat (r_cl rq)) c))).
Proof.
  intros Hr Hf Hc n Hops w2.
  destruct (hand_on_lemma w r rq c k Hr Hf Hc) as (w1 & s1 & Hstep & Hnew & Hold & _).
  unfold w2. rewrite Hstep. cbn [fst].
  destruct (forallb_andb_split _ _ _ Hops) as [Hops_r Hops_n].
  split.
  - exact (stable_lemma buf None w1 r c ops k1 Hold Hops_r).
  - exact (stable_lemma buf None w1 n _ ops k2 Hnew Hops_n).
Qed.

End First.

(* ---- record: a copy taken BEFORE the first access shares the unread server
   stream with the original; whichever reads second is presented the bytes
   that FOLLOW the body (documented behaviour of copy(): "a shallow environ
   copy"; DESIGN 0.6). *)
Lemma copy_before_first_access_shares_stream :
  exists data sc cl buf,
    0 < buf /\
    snd (run buf None (world_init data sc cl) [OCopy 0; OBody 0 None; OBody 1 None])
    = [OutNew 1; OutBytes (firstn (Z.to_nat cl) data);
       OutBytes (firstn (Z.to_nat cl) (skipn (Z.to_nat cl) data))]
    /\ firstn (Z.to_nat cl) (skipn (Z.to_nat cl) data) <> firstn (Z.to_nat cl) data.
Proof.
  exists [1;2;3;4;5;6]%N, [], 2%Z, 4. split; [lia|]. vm_compute. split; [reflexivity|discriminate].
Qed.

(* non-vacuity of the stability statement: a history with partial reads, a copy,
   header rewrites on both, and a replaced input on the copy only *)
Example stable_nonvacuous :
  snd (run 3 None (world_init [1;2;3;4;5;6;7]%N [0;1] 5)
           [OBody 0 (Some 2); OCopy 0; OSetCL 0 2; OSetOther 1; OBody 1 None;
            OSetInput 1 [9;9]%N []; OBody 1 None; OBody 0 None])
  = [OutBytes [1;2]%N; OutNew 1; OutUnit; OutUnit; OutBytes [1;2;3;4;5]%N; OutUnit;
     OutBytes [9;9]%N; OutBytes [1;2;3;4;5]%N].
Proof. vm_compute. reflexivity. Qed.

(* non-vacuity of the failure statement (the F43 witness): limit 3, Content-Length 4 — the first access is
   refused after the whole body was read, the second (and one on a copy) is refused without any further read *)
Example failed_nonvacuous :
  let '(w, outs) := run 2 (Some 3) (world_init [97;98;99;100;71;69;84]%N [] 4)
                        [OBody 0 None; OBody 0 None; OCopy 0; OBody 1 (Some 1)] in
  outs = [OutErr; OutErr; OutNew 1; OutErr] /\ map pos (w_streams w) = [4].
Proof. vm_compute. split; reflexivity. Qed.

(* ---- the model's header-rewrite steps are justified by the code's own table ----
   OSetCL / OSetOther keep the buffered body: in the invalidation table extracted
   from BaseRequest._on_env_changed the only key whose assignment drops the view
   'body' is 'wsgi.input' (which the model handles as OSetInput), and the view
   name is the one BodyMixin._body is cached under. *)
Lemma views_dropped_In table key v :
  In v (views_dropped table key) ->
  exists e, In e table /\ entry_matches e key = true /\ In v (snd e).
Proof.
  induction table as [|e t IH]; cbn [views_dropped]; [intros []|].
  destruct (entry_matches e key) eqn:E; intros H.
  - exists e. split; [now left|]. split; assumption.
  - destruct (IH H) as (e' & Hin & Hm & Hv). exists e'. split; [now right|]. split; assumption.
Qed.

Definition only_input_drops_body_b (table : list ((str * bool) * list str)) : bool :=
  forallb (fun e => implb (existsb (str_eqb s_body_view) (snd e))
                          (str_eqb (fst (fst e)) s_wsgi_input && negb (snd (fst e)))) table.

Lemma only_new_input_drops_body_lemma :
  forall key, drops_body Gen.env_changed_table key = true -> key = s_wsgi_input.
Proof.
  intros key H. unfold drops_body in H. apply existsb_exists in H.
  destruct H as (v & Hv & Hb). apply str_eqb_eq in Hb. subst v.
  destruct (views_dropped_In _ _ _ Hv) as (e & Hin & Hm & Hbody).
  assert (Hall : only_input_drops_body_b Gen.env_changed_table = true) by (vm_compute; reflexivity).
  unfold only_input_drops_body_b in Hall. rewrite forallb_forall in Hall. specialize (Hall e Hin).
  assert (Hex : existsb (str_eqb s_body_view) (snd e) = true).
  { apply existsb_exists. exists s_body_view. split; [exact Hbody | apply str_eqb_refl]. }
  rewrite Hex in Hall. cbn [implb] in Hall. apply andb_true_iff in Hall. destruct Hall as [Hk Hp].
  apply str_eqb_eq in Hk. apply negb_true_iff in Hp.
  destruct e as [[k p] vs]. cbn [fst snd] in *. subst k p.
  cbn [entry_matches] in Hm. now apply str_eqb_eq in Hm.
Qed.

Lemma body_view_is_cache_key :
  Gen.body_cache_key = Gen.env_cache_prefix ++ s_body_view /\ Gen.body_property_rewinds_cached = true.
Proof. split; reflexivity. Qed.

(* The buffered copy that _body leaves under environ['wsgi.input'] (rewound by the body property) is itself a stream
   from which the next consumer of the environ — a WSGI application mounted behind, a second Request over the same
   environ without the cache keys — is presented the same body under the same Content-Length, whatever its own buffer
   size and however the copy fragments its reads; and it cannot be read past its end, which is byte Content-Length of
   the server's stream. *)
Lemma buffered_copy_rereads_same_body :
  forall (data : list N) (sc sc' : list nat) (buf buf' : nat) (cl : Z),
    0 < buf -> 0 < buf' ->
    forall body sp s1,
      body_read_cl (stream_init data sc) buf None cl = BDone body sp s1 ->
      exists sp' s2,
        body_read_cl (stream_init body sc') buf' None cl = BDone body sp' s2
        /\ pos s2 = length body /\ rest s2 = [].
Proof.
  intros data sc sc' buf buf' cl Hb Hb' body sp s1 H1.
  destruct (C04_exact_lemma data sc buf cl Hb) as (s' & E1 & _).
  rewrite E1 in H1. injection H1 as Hbody _ _. subst body.
  destruct (C04_exact_lemma (firstn (Z.to_nat cl) data) sc' buf' cl Hb') as (s2 & E2 & Hrest & Hpos & _).
  rewrite firstn_firstn, Nat.min_id in E2.
  eexists; exists s2. split; [exact E2|]. split.
  - rewrite Hpos, firstn_length. lia.
  - rewrite Hrest. apply skipn_all2. rewrite firstn_length. lia.
Qed.
