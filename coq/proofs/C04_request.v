(* C04_request.v — the Request-level glue around _body_read (model/ReqBody.v):
   first materialisation is exact, the buffered body is stable under every later
   operation on the family (further accesses, partial reads, copies, header
   rewrites), and the server stream is not touched again. *)
From Verif Require Import lib.Base lib.ListX gen.Gen model.Stream model.Body model.ReqBody proofs.C04_proofs.

(* ---- list helpers ---- *)
Lemma nth_error_set_nth_eq {A} (l : list A) i x :
  i < length l -> nth_error (set_nth i x l) i = Some x.
Proof.
  revert i; induction l as [|h t IH]; intros [|i] H; simpl in *; try lia; auto.
  apply IH; lia.
Qed.

Lemma nth_error_set_nth_neq {A} (l : list A) i j x :
  i <> j -> nth_error (set_nth i x l) j = nth_error l j.
Proof.
  revert i j; induction l as [|h t IH]; intros [|i] [|j] H; simpl; auto; try congruence.
Qed.

Lemma set_nth_length {A} (l : list A) i x : length (set_nth i x l) = length l.
Proof. revert i; induction l as [|h t IH]; intros [|i]; simpl; auto. Qed.

Lemma nth_set_nth_eq {A} (l : list A) i x d : i < length l -> nth i (set_nth i x l) d = x.
Proof.
  revert i; induction l as [|h t IH]; intros [|i] H; simpl in *; try lia; auto.
  apply IH; lia.
Qed.

Lemma nth_set_nth_neq {A} (l : list A) i j x d : i <> j -> nth j (set_nth i x l) d = nth j l d.
Proof.
  revert i j; induction l as [|h t IH]; intros [|i] [|j] H; simpl; auto; try congruence.
Qed.

Lemma nth_error_Some_lt {A} (l : list A) i x : nth_error l i = Some x -> i < length l.
Proof. intros H. apply nth_error_Some. congruence. Qed.

(* ---- generalisation of the C04 core to a stream at any position ---- *)
Lemma body_read_cl_any s buf cl :
  0 < buf ->
  exists s',
    body_read_cl s buf None cl
      = BDone (firstn (Z.to_nat cl) (rest s))
              (Nat.ltb buf (Nat.min (Z.to_nat cl) (length (rest s)))) s'
    /\ rest s' = skipn (Z.to_nat cl) (rest s)
    /\ pos s' = pos s + Nat.min (Z.to_nat cl) (length (rest s))
    /\ (forall cl0, pos s + Z.to_nat cl <= cl0 -> reqs_ok buf cl0 (reqs s) -> reqs_ok buf cl0 (reqs s')).
Proof.
  intros Hbuf. unfold body_read_cl.
  destruct (cl_loop_spec (S (length (rest s))) s buf (Z.to_nat cl) [] false Hbuf)
    as (s' & Heq & Hrest & Hpos & Hreq).
  - lia.
  - simpl. destruct buf; [lia|reflexivity].
  - exists s'. cbn [app] in Heq. rewrite Heq, firstn_length. repeat split; auto.
Qed.

Section Req.
Variable buf : nat.
Hypothesis Hbuf : 0 < buf.

(* ---- 1. a cached body is stable ---- *)

(* does the operation replace the input of request r ? *)
Definition sets_input (r : nat) (o : op) : bool :=
  match o with OSetInput r' _ _ => Nat.eqb r r' | _ => false end.

Definition cached (w : world) (r : nat) (c : list N) : Prop :=
  exists rq, nth_error (w_reqs w) r = Some rq /\ r_cache rq = Some c.

Lemma step_keeps_cache w o r c :
  cached w r c -> sets_input r o = false -> cached (fst (step buf w o)) r c.
Proof.
  intros (rq & Hr & Hc) Hset. unfold cached.
  destruct o as [r' k|r'|r' v|r'|r' d sc]; cbn [step].
  - (* OBody *)
    destruct (nth_error (w_reqs w) r') as [rq'|] eqn:Hr'; [|now exists rq].
    destruct (r_cache rq') as [c'|] eqn:Hc'; [now exists rq|].
    destruct (body_read_cl_any (nth (r_input rq') (w_streams w) dummy_stream) buf (r_cl rq') Hbuf)
      as (s' & Heq & _). rewrite Heq. cbn [fst w_reqs].
    destruct (Nat.eq_dec r' r) as [->|Hne].
    + rewrite Hr in Hr'. injection Hr' as <-. congruence.
    + rewrite nth_error_set_nth_neq by exact Hne. now exists rq.
  - (* OCopy *)
    destruct (nth_error (w_reqs w) r') as [rq'|] eqn:Hr'; [|now exists rq].
    cbn [fst w_reqs]. exists rq. split; [|exact Hc].
    rewrite nth_error_app1; [exact Hr | eapply nth_error_Some_lt; exact Hr].
  - (* OSetCL *)
    destruct (nth_error (w_reqs w) r') as [rq'|] eqn:Hr'; [|now exists rq].
    cbn [fst w_reqs].
    destruct (Nat.eq_dec r' r) as [->|Hne].
    + rewrite Hr in Hr'. injection Hr' as <-.
      eexists. split; [apply nth_error_set_nth_eq; eapply nth_error_Some_lt; exact Hr|]. exact Hc.
    + rewrite nth_error_set_nth_neq by exact Hne. now exists rq.
  - (* OSetOther *)
    destruct (nth_error (w_reqs w) r'); now exists rq.
  - (* OSetInput *)
    cbn [sets_input] in Hset. apply Nat.eqb_neq in Hset.
    destruct (nth_error (w_reqs w) r') as [rq'|] eqn:Hr'; [|now exists rq].
    cbn [fst w_reqs]. rewrite nth_error_set_nth_neq by congruence. now exists rq.
Qed.

Lemma run_keeps_cache ops : forall w r c,
  cached w r c -> forallb (fun o => negb (sets_input r o)) ops = true ->
  cached (fst (run buf w ops)) r c.
Proof.
  induction ops as [|o ops IH]; intros w r c Hc Hops; [exact Hc|].
  cbn [forallb] in Hops. apply andb_true_iff in Hops. destruct Hops as [Ho Hops].
  apply negb_true_iff in Ho. cbn [run].
  pose proof (step_keeps_cache w o r c Hc Ho) as H1.
  destruct (step buf w o) as [w1 x]. cbn [fst] in H1.
  specialize (IH w1 r c H1 Hops).
  destruct (run buf w1 ops) as [w2 xs]. exact IH.
Qed.

(* an access to a cached body returns (a prefix of) it and changes nothing *)
Lemma cached_access w r c k :
  cached w r c -> step buf w (OBody r k) = (w, OutBytes (take_opt k c)).
Proof. intros (rq & Hr & Hc). cbn [step]. now rewrite Hr, Hc. Qed.

(* a copy of a request with a cached body presents the same body *)
Lemma cached_copy w r c :
  cached w r c ->
  exists w', step buf w (OCopy r) = (w', OutNew (length (w_reqs w))) /\ cached w' (length (w_reqs w)) c
             /\ w_streams w' = w_streams w.
Proof.
  intros (rq & Hr & Hc). cbn [step]. rewrite Hr. eexists. split; [reflexivity|].
  split; [|reflexivity]. exists rq. split; [|exact Hc].
  cbn [w_reqs]. rewrite nth_error_app2 by lia. now rewrite Nat.sub_diag.
Qed.

(* the main stability statement: once request r presents body c, it presents c
   after any further operations on the whole family that do not assign a new
   wsgi.input to r itself *)
Lemma stable_lemma w r c ops k :
  cached w r c ->
  forallb (fun o => negb (sets_input r o)) ops = true ->
  let w' := fst (run buf w ops) in
  step buf w' (OBody r k) = (w', OutBytes (take_opt k c)).
Proof.
  intros Hc Hops w'. apply cached_access. apply run_keeps_cache; assumption.
Qed.

(* ---- 2. the first access materialises exactly the Content-Length bytes ---- *)

(* operations that neither read a body nor install a stream *)
Definition passive (o : op) : bool :=
  match o with OBody _ _ | OSetInput _ _ _ => false | _ => true end.

(* invariant of passive histories from world_init: one untouched stream, no cache anywhere *)
Definition fresh (data : list N) (sc : list nat) (w : world) : Prop :=
  w_streams w = [stream_init data sc] /\
  Forall (fun rq => r_input rq = 0 /\ r_cache rq = None) (w_reqs w).

Lemma Forall_set_nth {A} (P : A -> Prop) l i x : Forall P l -> P x -> Forall P (set_nth i x l).
Proof.
  intros H; revert i; induction H as [|h t Hh Ht IH]; intros [|i] Hx; simpl; auto.
Qed.

Lemma Forall_nth_error {A} (P : A -> Prop) l i x : Forall P l -> nth_error l i = Some x -> P x.
Proof. intros H E. rewrite Forall_forall in H. apply H. eapply nth_error_In; exact E. Qed.

Lemma step_fresh data sc w o :
  fresh data sc w -> passive o = true -> fresh data sc (fst (step buf w o)).
Proof.
  intros [Hs Hr] Hp. destruct o as [r k|r|r v|r|r d s]; try discriminate; cbn [step];
    destruct (nth_error (w_reqs w) r) as [rq|] eqn:E; cbn [fst]; try (split; assumption).
  - (* OCopy *)
    destruct (Forall_nth_error _ _ _ _ Hr E) as [Hi Hc].
    split; [exact Hs|]. cbn [w_reqs]. apply Forall_app. split; [exact Hr|].
    constructor; [split; assumption|constructor].
  - (* OSetCL *)
    destruct (Forall_nth_error _ _ _ _ Hr E) as [Hi Hc].
    split; [exact Hs|]. cbn [w_reqs]. apply Forall_set_nth; [exact Hr|]. cbn [r_input r_cache].
    split; assumption.
Qed.

Lemma run_fresh data sc ops : forall w,
  fresh data sc w -> forallb passive ops = true -> fresh data sc (fst (run buf w ops)).
Proof.
  induction ops as [|o ops IH]; intros w Hf Hops; [exact Hf|].
  cbn [forallb] in Hops. apply andb_true_iff in Hops. destruct Hops as [Ho Hops]. cbn [run].
  pose proof (step_fresh data sc w o Hf Ho) as H1.
  destruct (step buf w o) as [w1 x]. cbn [fst] in H1.
  specialize (IH w1 H1 Hops). destruct (run buf w1 ops) as [w2 xs]. exact IH.
Qed.

Lemma world_init_fresh data sc cl : fresh data sc (world_init data sc cl).
Proof. split; [reflexivity|]. constructor; [split; reflexivity | constructor]. Qed.

(* After any passive history (copies, header rewrites), the first body access on
   any request object of the family — with whatever Content-Length that object
   then carries — returns exactly the first Content-Length bytes of the server
   stream, leaves the stream exactly behind them, never asked for a byte beyond
   them, and caches that body on the object. *)
Lemma first_access_lemma data sc cl0 pre r rq k :
  forallb passive pre = true ->
  let w := fst (run buf (world_init data sc cl0) pre) in
  nth_error (w_reqs w) r = Some rq ->
  exists w',
    step buf w (OBody r k) = (w', OutBytes (take_opt k (firstn (Z.to_nat (r_cl rq)) data)))
    /\ cached w' r (firstn (Z.to_nat (r_cl rq)) data)
    /\ exists s', w_streams w' = [s']
         /\ rest s' = skipn (Z.to_nat (r_cl rq)) data
         /\ pos s' = Nat.min (Z.to_nat (r_cl rq)) (length data)
         /\ reqs_ok buf (Z.to_nat (r_cl rq)) (reqs s').
Proof.
  intros Hpre w Hr.
  destruct (run_fresh data sc pre _ (world_init_fresh data sc cl0) Hpre) as [Hs Hq].
  fold w in Hs, Hq.
  destruct (Forall_nth_error _ _ _ _ Hq Hr) as [Hin Hca].
  cbn [step]. rewrite Hr, Hca, Hin, Hs. cbn [nth].
  destruct (C04_exact_lemma data sc buf (r_cl rq) Hbuf) as (s' & Heq & Hrest & Hpos & Hreq).
  rewrite Heq. eexists. split; [reflexivity|]. split.
  - eexists. split; [cbn [w_reqs]; apply nth_error_set_nth_eq; eapply nth_error_Some_lt; exact Hr|].
    reflexivity.
  - exists s'. cbn [w_streams set_nth]. auto.
Qed.

(* ---- 3. once buffered, the family never touches a stream through r again ---- *)
Lemma cached_access_no_read w r c k :
  cached w r c -> w_streams (fst (step buf w (OBody r k))) = w_streams w.
Proof. intros H. now rewrite (cached_access w r c k H). Qed.

End Req.

(* ---- record: a copy taken BEFORE the first access shares the unread server
   stream with the original; whichever reads second is presented the bytes
   that FOLLOW the body (documented behaviour of copy(): "a shallow environ
   copy"; DESIGN 0.6). *)
Lemma copy_before_first_access_shares_stream :
  exists data sc cl buf,
    0 < buf /\
    snd (run buf (world_init data sc cl) [OCopy 0; OBody 0 None; OBody 1 None])
    = [OutNew 1; OutBytes (firstn (Z.to_nat cl) data);
       OutBytes (firstn (Z.to_nat cl) (skipn (Z.to_nat cl) data))]
    /\ firstn (Z.to_nat cl) (skipn (Z.to_nat cl) data) <> firstn (Z.to_nat cl) data.
Proof.
  exists [1;2;3;4;5;6]%N, [], 2%Z, 4. split; [lia|]. vm_compute. split; [reflexivity|discriminate].
Qed.

(* non-vacuity of the stability statement: a history with partial reads, a copy,
   header rewrites on both, and a replaced input on the copy only *)
Example stable_nonvacuous :
  snd (run 3 (world_init [1;2;3;4;5;6;7]%N [0;1] 5)
           [OBody 0 (Some 2); OCopy 0; OSetCL 0 2; OSetOther 1; OBody 1 None;
            OSetInput 1 [9;9]%N []; OBody 1 None; OBody 0 None])
  = [OutBytes [1;2]%N; OutNew 1; OutUnit; OutUnit; OutBytes [1;2;3;4;5]%N; OutUnit;
     OutBytes [9;9]%N; OutBytes [1;2;3;4;5]%N].
Proof. vm_compute. reflexivity. Qed.

(* ---- the model's header-rewrite steps are justified by the code's own table ----
   OSetCL / OSetOther keep the buffered body: in the invalidation table extracted
   from BaseRequest._on_env_changed the only key whose assignment drops the view
   'body' is 'wsgi.input' (which the model handles as OSetInput), and the view
   name is the one BodyMixin._body is cached under. *)
Lemma views_dropped_In table key v :
  In v (views_dropped table key) ->
  exists e, In e table /\ entry_matches e key = true /\ In v (snd e).
Proof.
  induction table as [|e t IH]; cbn [views_dropped]; [intros []|].
  destruct (entry_matches e key) eqn:E; intros H.
  - exists e. split; [now left|]. split; assumption.
  - destruct (IH H) as (e' & Hin & Hm & Hv). exists e'. split; [now right|]. split; assumption.
Qed.

Definition only_input_drops_body_b (table : list ((str * bool) * list str)) : bool :=
  forallb (fun e => implb (existsb (str_eqb s_body_view) (snd e))
                          (str_eqb (fst (fst e)) s_wsgi_input && negb (snd (fst e)))) table.

Lemma only_new_input_drops_body_lemma :
  forall key, drops_body Gen.env_changed_table key = true -> key = s_wsgi_input.
Proof.
  intros key H. unfold drops_body in H. apply existsb_exists in H.
  destruct H as (v & Hv & Hb). apply str_eqb_eq in Hb. subst v.
  destruct (views_dropped_In _ _ _ Hv) as (e & Hin & Hm & Hbody).
  assert (Hall : only_input_drops_body_b Gen.env_changed_table = true) by (vm_compute; reflexivity).
  unfold only_input_drops_body_b in Hall. rewrite forallb_forall in Hall. specialize (Hall e Hin).
  assert (Hex : existsb (str_eqb s_body_view) (snd e) = true).
  { apply existsb_exists. exists s_body_view. split; [exact Hbody | apply str_eqb_refl]. }
  rewrite Hex in Hall. cbn [implb] in Hall. apply andb_true_iff in Hall. destruct Hall as [Hk Hp].
  apply str_eqb_eq in Hk. apply negb_true_iff in Hp.
  destruct e as [[k p] vs]. cbn [fst snd] in *. subst k p.
  cbn [entry_matches] in Hm. now apply str_eqb_eq in Hm.
Qed.

Lemma body_view_is_cache_key :
  Gen.body_cache_key = Gen.env_cache_prefix ++ s_body_view /\ Gen.body_property_rewinds_cached = true.
Proof. split; reflexivity. Qed.
