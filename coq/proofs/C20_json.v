(* C20_json.v -- the JSON error body of model/ErrPage.v is accepted by the JSON
   reader of the same file (spec side), for ALL strings, and reads back to the
   same strings whenever they consist of Unicode scalar values. *)
From Verif Require Import lib.Base lib.Str lib.Html lib.PyRepr model.ErrPage proofs.C20_html.
From Coq Require Import Lia ZifyBool ZifyN.

Ltac Zify.zify_post_hook ::= Z.to_euclidean_division_equations.

(* ---------------- hexadecimal digits ---------------- *)

Lemma unhex_hex_digit d : (d < 16)%N -> unhex (hex_digit d) = Some d.
Proof.
  intros H. unfold hex_digit, unhex. destruct (N.ltb_spec d 10) as [L|L].
  - assert (E1 : (48 <=? 48 + d)%N = true) by (apply N.leb_le; lia).
    assert (E2 : (48 + d <=? 57)%N = true) by (apply N.leb_le; lia).
    rewrite E1, E2. cbn [andb]. f_equal. lia.
  - assert (E1 : (48 <=? 87 + d)%N && (87 + d <=? 57)%N = false).
    { apply andb_false_iff. right. apply N.leb_gt. lia. }
    assert (E2 : (97 <=? 87 + d)%N = true) by (apply N.leb_le; lia).
    assert (E3 : (87 + d <=? 102)%N = true) by (apply N.leb_le; lia).
    rewrite E1, E2, E3. cbn [andb]. f_equal. lia.
Qed.

Lemma hex4_shape n :
  hex_fixed 4 n = [hex_digit (n / 16 / 16 / 16 mod 16); hex_digit (n / 16 / 16 mod 16);
                   hex_digit (n / 16 mod 16); hex_digit (n mod 16)]%N.
Proof. reflexivity. Qed.

Lemma unhex4_hex4 n :
  unhex4 (hex_digit (n / 16 / 16 / 16 mod 16)) (hex_digit (n / 16 / 16 mod 16))
         (hex_digit (n / 16 mod 16)) (hex_digit (n mod 16)) = Some (n mod 65536)%N.
Proof.
  unfold unhex4.
  rewrite !unhex_hex_digit by (apply N.mod_lt; discriminate).
  f_equal. lia.
Qed.

(* ---------------- one character, as the reader sees it ---------------- *)

Definition items_of_char (c : N) : list jitem :=
  if N.eqb c 34 then [JLit 34%N]
  else if N.eqb c 92 then [JLit 92%N]
  else if N.eqb c 10 then [JLit 10%N]
  else if N.eqb c 13 then [JLit 13%N]
  else if N.eqb c 9 then [JLit 9%N]
  else if N.eqb c 8 then [JLit 8%N]
  else if N.eqb c 12 then [JLit 12%N]
  else if (c <? 32)%N || (126 <? c)%N then
    if (c <=? 65535)%N then [JEsc (c mod 65536)%N]
    else let v := (c - 65536)%N in [JEsc ((55296 + v / 1024) mod 65536)%N; JEsc ((56320 + v mod 1024) mod 65536)%N]
  else [JLit c].

(* what the reader makes of the string the encoder wrote *)
Definition jdec (s : str) : str := join_items (flat_map items_of_char s).
Definition jv (o : option str) : option str := option_map jdec o.

Lemma scan_json_u n X :
  scan_string (json_u n ++ X) = cons_item (JEsc (n mod 65536)%N) (scan_string X).
Proof.
  unfold json_u. rewrite hex4_shape. cbn [app scan_string].
  change (N.eqb 92 34) with false. change (N.eqb 92 92) with true. change (N.eqb 117 117) with true.
  cbv iota. now rewrite unhex4_hex4.
Qed.

Lemma scan_char c X items rest :
  scan_string X = Some (items, rest) ->
  scan_string (json_char c ++ X) = Some (items_of_char c ++ items, rest).
Proof.
  intros IH. unfold json_char, items_of_char.
  destruct (N.eqb c 34) eqn:E34. { cbn [app scan_string simple_escape N.eqb Pos.eqb]. now rewrite IH. }
  destruct (N.eqb c 92) eqn:E92. { cbn [app scan_string simple_escape N.eqb Pos.eqb]. now rewrite IH. }
  destruct (N.eqb c 10) eqn:E10. { cbn [app scan_string simple_escape N.eqb Pos.eqb]. now rewrite IH. }
  destruct (N.eqb c 13) eqn:E13. { cbn [app scan_string simple_escape N.eqb Pos.eqb]. now rewrite IH. }
  destruct (N.eqb c 9) eqn:E9. { cbn [app scan_string simple_escape N.eqb Pos.eqb]. now rewrite IH. }
  destruct (N.eqb c 8) eqn:E8. { cbn [app scan_string simple_escape N.eqb Pos.eqb]. now rewrite IH. }
  destruct (N.eqb c 12) eqn:E12. { cbn [app scan_string simple_escape N.eqb Pos.eqb]. now rewrite IH. }
  destruct ((c <? 32)%N || (126 <? c)%N) eqn:Er.
  - destruct (c <=? 65535)%N.
    + rewrite scan_json_u, IH. reflexivity.
    + cbv zeta. rewrite <- app_assoc, !scan_json_u, IH. reflexivity.
  - apply orb_false_iff in Er. destruct Er as [E32 _].
    cbn [app scan_string]. rewrite E34, E92, E32, IH. reflexivity.
Qed.

Lemma scan_encoded s rest :
  scan_string (flat_map json_char s ++ 34%N :: rest) = Some (flat_map items_of_char s, rest).
Proof.
  induction s as [|c s IH]; [reflexivity|].
  cbn [flat_map]. rewrite <- app_assoc. now apply scan_char.
Qed.

(* ---------------- reading back: scalar values round-trip ---------------- *)

(* a Unicode scalar value: below 0x110000 and not a surrogate *)
Definition is_scalar (c : N) : bool := ((c <? 55296)%N || (57343 <? c)%N) && (c <? 1114112)%N.

Lemma join_char c items :
  is_scalar c = true -> join_items (items_of_char c ++ items) = c :: join_items items.
Proof.
  intros Hc. unfold items_of_char.
  destruct (N.eqb_spec c 34) as [->|_]; [reflexivity|].
  destruct (N.eqb_spec c 92) as [->|_]; [reflexivity|].
  destruct (N.eqb_spec c 10) as [->|_]; [reflexivity|].
  destruct (N.eqb_spec c 13) as [->|_]; [reflexivity|].
  destruct (N.eqb_spec c 9) as [->|_]; [reflexivity|].
  destruct (N.eqb_spec c 8) as [->|_]; [reflexivity|].
  destruct (N.eqb_spec c 12) as [->|_]; [reflexivity|].
  unfold is_scalar in Hc.
  destruct ((c <? 32)%N || (126 <? c)%N); [|reflexivity].
  destruct (N.leb_spec c 65535) as [L|L].
  - rewrite N.mod_small by lia. cbn [app join_items].
    assert (Eh : is_high c = false) by (unfold is_high; lia).
    now rewrite Eh.
  - cbv zeta. cbn [app join_items].
    set (v := (c - 65536)%N).
    assert (Hv : (v < 1048576)%N) by (unfold v; lia).
    rewrite (N.mod_small (55296 + v / 1024)%N) by lia.
    rewrite (N.mod_small (56320 + v mod 1024)%N) by lia.
    assert (Eh : is_high (55296 + v / 1024) = true) by (unfold is_high; lia).
    assert (El : is_low (56320 + v mod 1024) = true) by (unfold is_low; lia).
    rewrite Eh, El. f_equal. unfold v. lia.
Qed.

Lemma join_scalar s : forallb is_scalar s = true -> jdec s = s.
Proof.
  unfold jdec. induction s as [|c s IH]; [reflexivity|].
  cbn [forallb flat_map]. intros H. apply andb_true_iff in H. destruct H as [Hc Hs].
  rewrite join_char by exact Hc. now rewrite IH.
Qed.

(* ---------------- strings, values, members ---------------- *)

Lemma skip_ws_space X : skip_ws (32%N :: X) = skip_ws X.
Proof. reflexivity. Qed.

Lemma json_str_shape s rest :
  json_str s ++ rest = 34%N :: (flat_map json_char s ++ 34%N :: rest).
Proof. unfold json_str. cbn [app]. now rewrite <- app_assoc. Qed.

Lemma read_string_json s rest : read_string (json_str s ++ rest) = Some (jdec s, rest).
Proof.
  rewrite json_str_shape. unfold read_string, skip_ws. cbn [lstrip_set].
  change (is_ws 34) with false. cbv iota. change (N.eqb 34 34) with true. cbv iota.
  now rewrite scan_encoded.
Qed.

Lemma read_string_space X : read_string (32%N :: X) = read_string X.
Proof. reflexivity. Qed.

Lemma read_value_space X : read_value (32%N :: X) = read_value X.
Proof. reflexivity. Qed.

Lemma read_value_json o rest : read_value (json_opt_str o ++ rest) = Some (jv o, rest).
Proof.
  destruct o as [s|]; cbn [json_opt_str jv option_map].
  - rewrite json_str_shape. unfold read_value, skip_ws. cbn [lstrip_set].
    change (is_ws 34) with false. cbv iota. change (N.eqb 34 34) with true. cbv iota.
    now rewrite scan_encoded.
  - reflexivity.
Qed.

Lemma read_members_space f X acc : read_members f (32%N :: X) acc = read_members f X acc.
Proof. destruct f; reflexivity. Qed.

Lemma members_more f k v more acc :
  read_members (S f) (json_str k ++ [58; 32]%N ++ json_opt_str v ++ [44; 32]%N ++ more) acc
  = read_members f more (acc ++ [(jdec k, jv v)]).
Proof.
  cbn [read_members]. rewrite read_string_json.
  cbn [app]. unfold skip_ws at 1. cbn [lstrip_set]. change (is_ws 58) with false. cbv iota.
  change (N.eqb 58 58) with true. cbv iota.
  rewrite read_value_space, read_value_json.
  unfold skip_ws at 1. cbn [lstrip_set]. change (is_ws 44) with false. cbv iota.
  change (N.eqb 44 44) with true. cbv iota.
  apply read_members_space.
Qed.

Lemma members_last f k v acc :
  read_members (S f) (json_str k ++ [58; 32]%N ++ json_opt_str v ++ [125%N]) acc
  = JOk (acc ++ [(jdec k, jv v)]).
Proof.
  cbn [read_members]. rewrite read_string_json.
  cbn [app]. unfold skip_ws at 1. cbn [lstrip_set]. change (is_ws 58) with false. cbv iota.
  change (N.eqb 58 58) with true. cbv iota.
  rewrite read_value_space, read_value_json. reflexivity.
Qed.

(* ---------------- the object with three members ---------------- *)

Definition obj_text3 (k1 : str) (v1 : option str) (k2 : str) (v2 : option str) (k3 : str) (v3 : option str) : str :=
  123%N :: json_str k1 ++ [58; 32]%N ++ json_opt_str v1 ++ [44; 32]%N
        ++ json_str k2 ++ [58; 32]%N ++ json_opt_str v2 ++ [44; 32]%N
        ++ json_str k3 ++ [58; 32]%N ++ json_opt_str v3 ++ [125%N].

Lemma parse_obj_members X :
  parse_json_obj (123%N :: 34%N :: X) = read_members (S (S (S (length X)))) (34%N :: X) [].
Proof. reflexivity. Qed.

Lemma parse_obj3 k1 v1 k2 v2 k3 v3 :
  parse_json_obj (obj_text3 k1 v1 k2 v2 k3 v3)
  = JOk [(jdec k1, jv v1); (jdec k2, jv v2); (jdec k3, jv v3)].
Proof.
  unfold obj_text3.
  set (r := json_str k1 ++ _).
  assert (Hr : exists X, r = 34%N :: X).
  { unfold r. rewrite json_str_shape. eexists. reflexivity. }
  destruct Hr as [X HX].
  rewrite HX, parse_obj_members, <- HX.
  unfold r. rewrite members_more, members_more, members_last. reflexivity.
Qed.

Section Table.
Variable isp : N -> bool.

Lemma error_json_shape e :
  error_json isp e
  = obj_text3 k_body (Some (e_body e)) f_exception (Some (repr_exc isp (e_exc e))) f_traceback (e_tb e).
Proof.
  unfold error_json, json_obj, obj_text3. cbn [map join fst snd json_opt_str].
  cbn [app]. repeat (rewrite <- app_assoc || rewrite <- app_comm_cons). reflexivity.
Qed.

Lemma keys_read_back : jdec k_body = k_body /\ jdec f_exception = f_exception /\ jdec f_traceback = f_traceback.
Proof. repeat split; vm_compute; reflexivity. Qed.

(* for ALL strings: the body is accepted and has exactly the three members *)
Lemma error_json_valid e :
  parse_json_obj (error_json isp e)
  = JOk [(k_body, Some (jdec (e_body e)));
         (f_exception, Some (jdec (repr_exc isp (e_exc e))));
         (f_traceback, option_map jdec (e_tb e))].
Proof.
  rewrite error_json_shape, parse_obj3.
  destruct keys_read_back as (K1 & K2 & K3). rewrite K1, K2, K3. reflexivity.
Qed.

End Table.

(* ---------------- the response as a whole ---------------- *)


Lemma error_response_shape (isp : N -> bool) k x tb url accept e :
  err_of_kind k x tb = Some e ->
  respond_error isp k x tb url accept false
  = if is_json_requested accept
    then Resp (e_status e) ctype_json (error_json isp e)
    else Resp (e_status e) Gen.default_content_type (html_pre e ++ url_text isp url ++ html_post e).
Proof.
  intros He. unfold respond_error, default_error_handler. rewrite He.
  destruct (is_json_requested accept); [reflexivity|].
  rewrite render_nodebug. reflexivity.
Qed.

(* the JSON branch has no debug switch: exception and traceback are part of the body even with debug off *)
Lemma json_branch_exposes_exception :
  exists (e : err) (x : exc) (tb : option str),
    default_error_handler (fun _ => true) (mkErr (e_status e) (e_body e) x tb) [] (Some accept_json) false
    <> default_error_handler (fun _ => true) e [] (Some accept_json) false.
Proof.
  exists (mkErr [53; 48; 48]%N [120]%N ExcNone None), ExcNone, (Some [84]%N).
  vm_compute. discriminate.
Qed.

(* ---------------- several requests on one application ---------------- *)

Lemma response_function_of_request (isp : N -> bool) (before after : list request) (q : request) :
  length (respond_seq isp (before ++ q :: after)) = length (before ++ q :: after)
  /\ nth_error (respond_seq isp (before ++ q :: after)) (length before) = Some (respond_req isp q).
Proof.
  unfold respond_seq. split; [apply map_length|].
  rewrite map_app. cbn [map]. rewrite nth_error_app2; rewrite map_length; [|lia].
  now rewrite Nat.sub_diag.
Qed.

(* ---------------- HEAD ---------------- *)

Definition with_head (q : request) (h : bool) : request :=
  mkReq (q_kind q) (q_exc q) (q_tb q) (q_url q) (q_accept q) (q_debug q) h.

(* a HEAD request is answered with the status line and Content-Type of the
   corresponding GET and an empty body *)
Lemma head_response (isp : N -> bool) (q : request) :
  match respond_req isp (with_head q false), respond_req isp (with_head q true) with
  | Resp st ct _, Resp st' ct' b' => st' = st /\ ct' = ct /\ b' = []
  | KeyErr, KeyErr => True
  | _, _ => False
  end.
Proof.
  unfold respond_req, with_head. cbn [q_kind q_exc q_tb q_url q_accept q_debug q_head].
  destruct (respond_error isp (q_kind q) (q_exc q) (q_tb q) (q_url q) (q_accept q) (q_debug q)); cbn; auto.
Qed.
