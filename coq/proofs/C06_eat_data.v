(* C06_eat_data.v — the block-wise delimiter search of BodyMarkuper._eat_data
   (model: Multipart.eat_loop / tail_part / match_tail) finds exactly the first
   occurrence of the delimiter in  carried-prefix ++ chunk[base:]  and otherwise
   carries the longest partial match.  Holds for every delimiter in which its
   first byte does not occur again (CRLF--B with CR not in B). *)
From Verif Require Import lib.Base lib.ListX lib.Str model.MultipartRef model.Multipart proofs.C06_pattern proofs.C06_dres.
Require Import Lia Sorted.

Section Tok.
Variable tok : bytes.
Variable c0 : N.
Variable tl0 : bytes.
Hypothesis Htok : tok = c0 :: tl0.
Hypothesis Hc0 : ~ In c0 tl0.
Let n := length tok.

Lemma n_pos : 0 < n.
Proof. unfold n. rewrite Htok. simpl. lia. Qed.

Lemma tok_nth_ne d : 0 < d -> nth_error tok d <> Some c0.
Proof.
  intros Hd E. rewrite Htok in E. destruct d; [lia|]. simpl in E.
  apply nth_error_In in E. contradiction.
Qed.

Lemma compat_hd x b : compat tok (b :: x) = true -> b = c0.
Proof.
  rewrite Htok. simpl. intros H. apply andb_true_iff in H. destruct H as [E _].
  apply N.eqb_eq in E. congruence.
Qed.

(* two compatible positions closer than n cannot coexist *)
Lemma compat_unique w j j' :
  compat tok (skipn j w) = true -> compat tok (skipn j' w) = true ->
  j < j' -> j' < length w -> j' - j < n -> False.
Proof.
  intros H1 H2 L Lw Ln.
  assert (E2 : nth_error w j' = Some c0).
  { destruct (skipn j' w) as [|b x] eqn:Es.
    - assert (length (skipn j' w) = 0) by now rewrite Es. rewrite skipn_length in H. lia.
    - apply compat_hd in H2. subst b.
      pose proof (nth_error_skipn w j' 0) as Hn. rewrite Es in Hn. simpl in Hn.
      rewrite Nat.add_0_r in Hn. now symmetry. }
  pose proof (compat_nth _ _ (j' - j) H1 Ln ltac:(rewrite skipn_length; lia)) as Hn.
  rewrite nth_error_skipn in Hn. replace (j + (j' - j)) with j' in Hn by lia.
  rewrite E2 in Hn. symmetry in Hn. apply tok_nth_ne in Hn; [exact Hn | lia].
Qed.

Lemma Hres_tok : forall d k c, 0 < d -> d < k -> k < length tok ->
  compat tok (skipn d (firstn k tok) ++ c) = true -> compat (skipn k tok) c = true.
Proof.
  intros d k c Hd Hk Hn H. exfalso.
  destruct (skipn d (firstn k tok)) as [|b x] eqn:Es.
  - assert (length (skipn d (firstn k tok)) = 0) by now rewrite Es.
    rewrite skipn_length, firstn_length in H0. lia.
  - simpl in H. apply compat_hd in H. subst b.
    pose proof (nth_error_skipn (firstn k tok) d 0) as Hx. rewrite Es in Hx. simpl in Hx.
    rewrite Nat.add_0_r in Hx. rewrite nth_error_firstn in Hx.
    destruct (Nat.ltb_spec d k); [|lia]. symmetry in Hx. apply tok_nth_ne in Hx; [exact Hx | lia].
Qed.

Definition fcp_app_tok := fcp_app tok Hres_tok.

(* ---------------------------------------------------------------- match_tail *)

Lemma idxs_from_ge c t i0 : Forall (fun i => i0 <= i) (idxs_from c t i0).
Proof.
  revert i0; induction t as [|x t IH]; intros i0; simpl; [constructor|].
  apply Forall_app. split.
  - destruct (N.eqb x c); constructor; [lia | constructor].
  - eapply Forall_impl; [|apply IH]. simpl. intros; lia.
Qed.

Lemma idxs_from_sorted c t i0 : StronglySorted lt (idxs_from c t i0).
Proof.
  revert i0; induction t as [|x t IH]; intros i0; simpl; [constructor|].
  destruct (N.eqb x c); simpl; [|apply IH].
  constructor; [apply IH|].
  eapply Forall_impl; [|apply idxs_from_ge]. simpl. intros; lia.
Qed.

Lemma idxs_from_in c t i0 i :
  i0 <= i -> nth_error t (i - i0) = Some c -> In i (idxs_from c t i0).
Proof.
  revert i0; induction t as [|x t IH]; intros i0 Hi Hn; simpl.
  - destruct (i - i0); discriminate.
  - apply in_or_app. destruct (Nat.eq_dec i i0) as [->|Hne].
    + left. rewrite Nat.sub_diag in Hn. simpl in Hn. injection Hn as ->.
      rewrite N.eqb_refl. now left.
    + right. apply IH; [lia|]. replace (i - i0) with (S (i - S i0)) in Hn by lia. exact Hn.
Qed.

Lemma idxs_from_le c t i0 : Forall (fun i => i < i0 + length t) (idxs_from c t i0).
Proof.
  revert i0; induction t as [|x t IH]; intros i0; simpl; [constructor|].
  apply Forall_app. split.
  - destruct (N.eqb x c); constructor; [lia | constructor].
  - eapply Forall_impl; [|apply IH]. simpl. intros; lia.
Qed.

Section MT.
Variables (s : bytes) (start end_ : nat).
Let slen := end_ - start.
Let P i := str_eqb (slice s (start + (slen - i)) end_) (firstn i tok).

Lemma mt_loop_some l i : mt_loop tok s start end_ l = Some i -> In i l /\ i <= slen /\ P i = true.
Proof.
  induction l as [|a l IH]; simpl; [discriminate|].
  fold slen. destruct (Nat.ltb_spec slen a); [discriminate|].
  fold (P a). destruct (P a) eqn:Ea.
  - intros [= <-]. auto.
  - intros H'. destruct (IH H') as (H1 & H2 & H3). auto.
Qed.

Lemma mt_loop_none l :
  StronglySorted lt l -> mt_loop tok s start end_ l = None ->
  forall i, In i l -> i <= slen -> P i = false.
Proof.
  induction l as [|a l IH]; intros Hs; simpl; [intros _ i []|].
  fold slen. inversion Hs as [|? ? Hs' Hall]; subst.
  destruct (Nat.ltb_spec slen a) as [L|L].
  - intros _ i [<-|Hi] Hle; [lia|]. rewrite Forall_forall in Hall. specialize (Hall _ Hi). lia.
  - fold (P a). destruct (P a) eqn:Ea; [discriminate|].
    intros H' i [<-|Hi] Hle; [exact Ea | now apply IH].
Qed.
End MT.

(* the window s[start:end] (non-empty, not longer than the token) *)
Lemma match_tail_spec s start end_ :
  start < end_ -> end_ <= length s -> end_ - start <= n ->
  let w := slice s start end_ in
  match_tail tok s start end_ = option_map (fun p => length w - p) (fcp tok w).
Proof.
  intros Hse Hel Hn w.
  assert (Lw : length w = end_ - start).
  { unfold w, slice. rewrite firstn_length, skipn_length. lia. }
  (* suffix of the window = slice of s *)
  assert (Hsl : forall i, i <= end_ - start ->
            slice s (start + (end_ - start - i)) end_ = skipn (length w - i) w).
  { intros i Hi. rewrite Lw. unfold w. now apply slice_suffix. }
  unfold match_tail.
  destruct (nth_error s (end_ - 1)) as [c|] eqn:Ec.
  2:{ apply nth_error_None in Ec. lia. }
  assert (Hlast : nth_error w (length w - 1) = Some c).
  { rewrite Lw. unfold w, slice. rewrite nth_error_firstn.
    destruct (Nat.ltb_spec (end_ - start - 1) (end_ - start)); [|lia].
    rewrite nth_error_skipn. replace (start + (end_ - start - 1)) with (end_ - 1) by lia. exact Ec. }
  assert (Hsome : forall i, In i (idxs tok c) -> i <= end_ - start ->
            str_eqb (slice s (start + (end_ - start - i)) end_) (firstn i tok) = true ->
            fcp tok w = Some (length w - i)).
  { intros i Hin Hi HP. rewrite Hsl in HP by exact Hi. apply str_eqb_eq in HP.
    assert (i1 : 1 <= i).
    { pose proof (idxs_from_ge c tok 1) as F. rewrite Forall_forall in F. apply F. exact Hin. }
    assert (Hc : compat tok (skipn (length w - i) w) = true) by (rewrite HP; apply compat_firstn).
    apply fcp_intro; [lia | exact Hc |].
    intros j Hj. destruct (compat tok (skipn j w)) eqn:Ej; [|reflexivity].
    exfalso. apply (compat_unique w j (length w - i) Ej Hc); lia. }
  assert (Hmt : mt_loop tok s start end_ (idxs tok c) = option_map (fun p => length w - p) (fcp tok w)).
  { destruct (mt_loop tok s start end_ (idxs tok c)) as [i|] eqn:Em.
    - destruct (mt_loop_some _ _ _ _ _ Em) as (H1 & H2 & H3).
      rewrite (Hsome i H1 H2 H3). simpl. f_equal.
      assert (1 <= i).
      { pose proof (idxs_from_ge c tok 1) as F. rewrite Forall_forall in F. apply F. exact H1. }
      lia.
    - destruct (fcp tok w) as [p|] eqn:Ep; [|reflexivity]. exfalso.
      destruct (fcp_some _ _ _ Ep) as (P1 & P2 & _).
      set (i := length w - p).
      assert (Hw : skipn p w = firstn i tok).
      { pose proof (compat_is_firstn _ _ P2) as Hf. rewrite skipn_length in Hf.
        apply Hf. fold n. lia. }
      assert (Hin : In i (idxs tok c)).
      { apply idxs_from_in; [unfold i; lia|].
        assert (nth_error (skipn p w) (i - 1) = Some c).
        { rewrite nth_error_skipn. replace (p + (i - 1)) with (length w - 1) by (unfold i; lia). exact Hlast. }
        rewrite Hw in H. rewrite nth_error_firstn in H.
        destruct (Nat.ltb_spec (i - 1) i); [exact H | unfold i in *; lia]. }
      pose proof (mt_loop_none s start end_ _ (idxs_from_sorted c tok 1) Em i Hin ltac:(unfold i; lia)) as HP.
      cbv beta zeta in HP. rewrite Hsl in HP by (unfold i; lia).
      replace (length w - i) with p in HP by (unfold i; lia).
      rewrite Hw, str_eqb_refl in HP. discriminate. }
  rewrite <- Hmt. destruct (idxs tok c) eqn:Ei; [reflexivity | reflexivity].
Qed.

(* ---------------------------------------------------------------- instances of C06_dres for tok *)
Local Notation dres := (C06_dres.dres tok).
Local Notation tr_of := (C06_dres.tr_of tok).
Local Notation dspec := (C06_dres.dspec tok).

Lemma dres_hit off m c :
  0 < m -> m < n -> compat (skipn m tok) c = true ->
  dres off (firstn m tok ++ c) =
  if n <=? m + length c then (EFound off, None) else (ENone, Some (skipn (m + length c) tok)).
Proof. exact (C06_dres.dres_hit tok Hres_tok n_pos off m c). Qed.

Lemma dres_broken off m c :
  0 < m -> m < n -> compat (skipn m tok) c = false ->
  dres off (firstn m tok ++ c) = dres (off + Z.of_nat m) c.
Proof. exact (C06_dres.dres_broken tok Hres_tok n_pos off m c). Qed.

Lemma dres_carry off X c p :
  fcp tok X = Some p -> length X < p + n ->
  dres off (X ++ c) = dres (off + Z.of_nat p) (firstn (length X - p) tok ++ c).
Proof. exact (C06_dres.dres_carry tok Hres_tok n_pos off X c p). Qed.

Lemma dres_nocarry off X c :
  fcp tok X = None -> dres off (X ++ c) = dres (off + Z.of_nat (length X)) c.
Proof. exact (C06_dres.dres_nocarry tok Hres_tok n_pos off X c). Qed.

Lemma dres_found off X c :
  fcp tok X = Some 0 -> n <= length X -> dres off (X ++ c) = (EFound off, None).
Proof. exact (C06_dres.dres_found tok Hres_tok n_pos off X c). Qed.

Lemma fcp_firstn_tok m : 0 < m -> fcp tok (firstn m tok) = Some 0.
Proof. exact (C06_dres.fcp_firstn_t tok n_pos m). Qed.

(* ---------------------------------------------------------------- tail_part *)

Lemma match_tail_whole part :
  part <> [] -> length part <= n ->
  match_tail tok part 0 (length part) = option_map (fun p => length part - p) (fcp tok part).
Proof.
  intros Hne Hl.
  assert (0 < length part) by (destruct part; [congruence | simpl; lia]).
  pose proof (match_tail_spec part 0 (length part) H (le_n _) ltac:(lia)) as Hm.
  cbv zeta in Hm. rewrite slice_0, firstn_all in Hm. exact Hm.
Qed.

(* no carried prefix: only the tail/head match of the short tail *)
Lemma tail_nocarry (part : bytes) (start : nat) :
  part <> [] -> length part < n ->
  match match_tail tok part 0 (length part) with
  | Some m => (ENone, Some (skipn m tok))
  | None => (ENone, @None bytes)
  end = dres (Z.of_nat start) part.
Proof.
  intros Hne Hl. rewrite match_tail_whole by (try exact Hne; lia).
  unfold C06_dres.dres. fold n. destruct (fcp tok part) as [p|] eqn:Ep; simpl; [|reflexivity].
  destruct (Nat.leb_spec (p + n) (length part)); [lia | reflexivity].
Qed.

Lemma tail_part_spec chunk start m :
  m < n -> length chunk < start + n ->
  tail_part tok chunk start (tr_of m) = dspec start m (skipn start chunk).
Proof.
  intros Hm Hl. unfold tail_part, C06_dres.dspec. fold n.
  set (part := skipn start chunk).
  assert (Lp : length part < n) by (unfold part; rewrite skipn_length; lia).
  destruct part as [|b part'] eqn:Epart.
  - (* empty tail *)
    rewrite app_nil_r. unfold C06_dres.tr_of, C06_dres.dres. fold n. destruct (Nat.eqb_spec m 0) as [->|Hm0].
    + reflexivity.
    + rewrite fcp_firstn_tok by lia. rewrite firstn_length. fold n. rewrite Nat.min_l by lia.
      destruct (Nat.leb_spec (0 + n) m); [lia|]. now rewrite Nat.sub_0_r.
  - rewrite <- Epart in *. assert (Hne : part <> []) by (rewrite Epart; discriminate).
    clear Epart b part'.
    unfold C06_dres.tr_of. destruct (Nat.eqb_spec m 0) as [->|Hm0].
    + (* trest None *)
      simpl firstn. simpl app. etransitivity; [exact (tail_nocarry part start Hne Lp) | f_equal; lia].
    + assert (Lr : length (skipn m tok) = n - m) by (rewrite skipn_length; reflexivity).
      rewrite Lr.
      destruct (Nat.ltb_spec (length part) (n - m)) as [Ls|Ls].
      * (* shorter than trest *)
        rewrite <- compat_short by lia.
        destruct (compat (skipn m tok) part) eqn:Ec.
        -- rewrite dres_hit by (try exact Ec; lia).
           destruct (Nat.leb_spec n (m + length part)); [lia|].
           now rewrite skipn_skipn.
        -- rewrite dres_broken by (try exact Ec; lia).
           etransitivity; [exact (tail_nocarry part start Hne Lp) | f_equal; lia].
      * rewrite <- compat_long by lia.
        destruct (compat (skipn m tok) part) eqn:Ec.
        -- rewrite dres_hit by (try exact Ec; lia).
           destruct (Nat.leb_spec n (m + length part)); [|lia].
           f_equal. f_equal. lia.
        -- rewrite dres_broken by (try exact Ec; lia).
           etransitivity; [exact (tail_nocarry part start Hne Lp) | f_equal; lia].
Qed.

(* ---------------------------------------------------------------- the block loop *)

Lemma eat_loop_spec fuel : forall chunk start m,
  m < n -> length chunk - start < fuel ->
  eat_loop fuel tok chunk start (tr_of m) = dspec start m (skipn start chunk).
Proof.
  induction fuel as [|f IH]; intros chunk start m Hm Hf; [lia|].
  cbn [eat_loop]. fold n.
  destruct (Nat.ltb_spec (length chunk) (start + n)) as [Lt|Lb].
  - now apply tail_part_spec.
  - set (rest := skipn start chunk).
    assert (Lr : n <= length rest) by (unfold rest; rewrite skipn_length; lia).
    set (w := slice chunk start (start + n)).
    assert (Hw : w = firstn n rest).
    { unfold w, rest, slice. f_equal. lia. }
    assert (Lw : length w = n) by (rewrite Hw, firstn_length; lia).
    set (rest' := skipn (start + n) chunk).
    assert (Hrest : rest = w ++ rest').
    { rewrite Hw. unfold rest', rest. rewrite <- (firstn_skipn n (skipn start chunk)) at 1.
      f_equal. now rewrite skipn_skipn. }
    (* after the trest test: continue as if nothing was carried *)
    assert (Hblock :
      match match_tail tok chunk start (start + n) with
      | Some m0 => if m0 =? n then (EFound (Z.of_nat start), None)
                   else eat_loop f tok chunk (start + n) (Some (skipn m0 tok))
      | None => eat_loop f tok chunk (start + n) None
      end = dres (Z.of_nat start) rest).
    { pose proof n_pos as Hn0.
      rewrite (match_tail_spec chunk start (start + n) ltac:(lia) Lb ltac:(lia)).
      cbv zeta. fold w. rewrite Lw.
      destruct (fcp tok w) as [p|] eqn:Ep; cbn [option_map].
      - destruct (fcp_some _ _ _ Ep) as (P1 & _ & _). rewrite Lw in P1.
        destruct (Nat.eqb_spec (n - p) n) as [E0|E0].
        + assert (p = 0) by lia. subst p.
          rewrite Hrest. now rewrite dres_found by (try exact Ep; lia).
        + assert (Htr : Some (skipn (n - p) tok) = tr_of (n - p)).
          { unfold C06_dres.tr_of. destruct (Nat.eqb_spec (n - p) 0); [lia | reflexivity]. }
          rewrite Htr, IH by lia.
          rewrite Hrest, (dres_carry _ w rest' p Ep) by lia.
          unfold C06_dres.dspec. fold rest'. rewrite Lw. f_equal. lia.
      - change (@None bytes) with (tr_of 0). rewrite IH by lia.
        rewrite Hrest, (dres_nocarry _ w rest' Ep). unfold C06_dres.dspec. fold rest'. simpl. rewrite Lw.
        f_equal. lia. }
    unfold C06_dres.tr_of at 1 2. destruct (Nat.eqb_spec m 0) as [->|Hm0].
    + (* no trest *)
      cbv iota. unfold C06_dres.dspec. simpl. rewrite Z.sub_0_r. exact Hblock.
    + assert (Lsk : length (skipn m tok) = n - m) by (rewrite skipn_length; reflexivity).
      rewrite Lsk.
      assert (Hhit : str_eqb (slice chunk start (start + (n - m))) (skipn m tok) = compat (skipn m tok) rest).
      { unfold slice. replace (start + (n - m) - start) with (length (skipn m tok)) by lia.
        fold rest. rewrite str_eqb_prefixb_firstn by lia. symmetry. apply compat_long. lia. }
      rewrite Hhit. unfold C06_dres.dspec. fold rest.
      destruct (compat (skipn m tok) rest) eqn:Ec.
      * rewrite dres_hit by (try exact Ec; lia).
        destruct (Nat.leb_spec n (m + length rest)); [|lia]. f_equal. f_equal. lia.
      * rewrite dres_broken by (try exact Ec; lia).
        rewrite Hblock. f_equal. lia.
Qed.

Lemma eat_data_dspec chunk base m :
  m < n -> eat_data tok chunk base (tr_of m) = dspec base m (skipn base chunk).
Proof. intros Hm. unfold eat_data. apply eat_loop_spec; [exact Hm | lia]. Qed.

End Tok.
