(* C07_spec.v — the specification side of C07: form fields, the browser's
   encoder, the guards, and what a handler must see.  Definitions only. *)
From Verif Require Import lib.Base lib.Str lib.Utf8 model.MultipartRef model.Fields.
From Verif Require Import proofs.C07_fields.
Local Open Scope N_scope.

(* a submitted form field: text, or upload *)
Inductive fld :=
| FText (name value : str)
| FFile (name filename ctype : str) (content : bytes).

Definition fld_name (f : fld) : str := match f with FText n _ | FFile n _ _ _ => n end.

(* the header block of a part, as text:
     Content-Disposition: form-data; name=QnQ                    (text field)
     Content-Disposition: form-data; name=QnQ; filename=QfQ CRLF Content-Type: ct   (upload) *)
Definition hdr_text (f : fld) : str :=
  match f with
  | FText n _ => cd_line n
  | FFile n fn ct _ => cd_line_file n fn ++ [13; 10] ++ ct_line ct
  end.

Definition hdr_bytes (f : fld) : bytes := utf8_enc_str (hdr_text f).

Definition data_bytes (f : fld) : bytes :=
  match f with
  | FText _ v => utf8_enc_str v
  | FFile _ _ _ c => c
  end.

(* multipart/form-data as a browser produces it (RFC 7578) *)
Definition enc_part (B : bytes) (f : fld) : bytes :=
  dash_boundary B ++ CRLF ++ hdr_bytes f ++ H4 ++ data_bytes f ++ CRLF.

Definition enc_form (B : bytes) (fs : list fld) : bytes :=
  flat_map (enc_part B) fs ++ dash_boundary B ++ [HY; HY] ++ CRLF.

(* ---- guards ---- *)
Definition scalars (s : str) : Prop := Forall scalar s.

(* names_ok: no double quote, no character of the str.splitlines set, encodable *)
Definition name_ok (s : str) : Prop := lacks QUOTE s /\ no_linebreak s /\ scalars s.

Definition fld_ok (f : fld) : Prop :=
  match f with
  | FText n v => name_ok n /\ scalars v
  | FFile n fn ct _ => name_ok n /\ name_ok fn /\ fn <> [] /\ ctype_ok ct /\ no_linebreak ct /\ scalars ct
  end.

(* the delimiter CRLF--B does not occur in the data: its first occurrence in
   data ++ delimiter is the appended one *)
Definition no_delim_in_data (B : bytes) (f : fld) : Prop :=
  findb (token B) (data_bytes f ++ token B) = Some (length (data_bytes f)).

(* bytes the framework reads into memory for one field: its header block, and
   its value when it is a text field (FieldStorage.read's has_read) *)
Definition cost (f : fld) : Z :=
  match f with
  | FText _ _ => Z.of_nat (length (hdr_bytes f)) + Z.of_nat (length (data_bytes f))
  | FFile _ _ _ _ => Z.of_nat (length (hdr_bytes f))
  end%Z.

Definition total_cost (fs : list fld) : Z := fold_right (fun f a => (cost f + a)%Z) 0%Z fs.

(* ---- what the handler must see ---- *)
Inductive vitem :=
| VText (v : str)
| VFile (filename ctype : str) (content : bytes).

Inductive vval := VSingle (x : vitem) | VMulti (xs : list vitem).

Definition vitem_of (f : fld) : vitem :=
  match f with
  | FText _ v => VText v
  | FFile _ fn ct c => VFile fn ct c
  end.

(* names in order of first appearance; one value, or the list of all values
   of that name in submission order *)
Fixpoint values_of (k : str) (l : list (str * vitem)) : list vitem :=
  match l with
  | [] => []
  | (k', v) :: r => if str_eqb k' k then v :: values_of k r else values_of k r
  end.

(* the distinct names, in order of first appearance *)
Definition remove_key (k : str) (ks : list str) : list str := filter (fun x => negb (str_eqb x k)) ks.

Fixpoint first_keys (l : list (str * vitem)) : list str :=
  match l with
  | [] => []
  | (k, _) :: r => k :: remove_key k (first_keys r)
  end.

Definition mkv (vs : list vitem) : vval :=
  match vs with
  | [x] => VSingle x
  | _ => VMulti vs
  end.

(* a dictionary: every distinct name once, in order of first appearance, bound
   to its only value or to the list of all its values in submission order *)
Definition grouped (l : list (str * vitem)) : list (str * vval) :=
  map (fun k => (k, mkv (values_of k l))) (first_keys l).

Definition is_text (f : fld) : bool := match f with FText _ _ => true | _ => false end.

Definition pairs (fs : list fld) : list (str * vitem) := map (fun f => (fld_name f, vitem_of f)) fs.

Record vdicts := mkV { v_post : list (str * vval); v_forms : list (str * vval); v_files : list (str * vval) }.

Definition expected (fs : list fld) : vdicts :=
  mkV (grouped (pairs fs))
      (grouped (pairs (filter is_text fs)))
      (grouped (pairs (filter (fun f => negb (is_text f)) fs))).

(* ---- the handler's view of the model's dictionaries: an upload is observed
   through raw_filename, content_type.value and file.read() ---- *)
Definition view_item (body : bytes) (it : item) : option vitem :=
  match it with
  | IText (Some v) => Some (VText v)
  | IText None => None
  | IFile _ fn (Some ct) w => Some (VFile fn ct (fst (proxy_read body (proxy_open w) None)))
  | IFile _ _ None _ => None
  end.

Fixpoint view_items (body : bytes) (l : list item) : option (list vitem) :=
  match l with
  | [] => Some []
  | x :: r => match view_item body x, view_items body r with
              | Some a, Some b => Some (a :: b)
              | _, _ => None
              end
  end.

Definition view_val (body : bytes) (v : dval) : option vval :=
  match v with
  | Single x => option_map VSingle (view_item body x)
  | Multi xs => option_map VMulti (view_items body xs)
  end.

Fixpoint view_dict (body : bytes) (d : fdict) : option (list (str * vval)) :=
  match d with
  | [] => Some []
  | (k, v) :: r => match view_val body v, view_dict body r with
                   | Some a, Some b => Some ((k, a) :: b)
                   | _, _ => None
                   end
  end.

Definition view (body : bytes) (d : post_dicts) : option vdicts :=
  match view_dict body (d_post d), view_dict body (d_forms d), view_dict body (d_files d) with
  | Some a, Some b, Some c => Some (mkV a b c)
  | _, _, _ => None
  end.
