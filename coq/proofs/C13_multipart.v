(* C13_multipart.v — the multipart in-memory budget on the REAL field layer:
   (1) refinement: Fields.iter_items / iter_pairs (model of FieldStorage.read /
       iter_items, cluster mpB2) refuse exactly where BodyLimits.mp_budget does
       on the triples computed from the sections (BodyLimits.triples_of);
   (2) for the bodies a browser sends (C07_spec.enc_form) the triples are the
       header-block and data sizes of the submitted fields, their need is
       C07's total_cost, and through BodyPipeline.process the answer is 413
       exactly when headers + text values exceed max_memfile_size, whatever the
       sizes of the file parts (under both framings).
   Owned by cluster bodyA; imports mpB1/mpB2 files read-only. *)
From Verif Require Import lib.Base lib.ListX lib.Str lib.Utf8 lib.PyIntHex gen.Gen.
From Verif Require Import model.Stream model.Body model.Chunked model.MultipartRef model.Multipart model.Fields.
From Verif Require Import model.BodyLimits.
From Verif Require model.BodyPipeline.
From Verif Require Import proofs.C04_proofs proofs.C05_scan proofs.C05_proofs proofs.C13_proofs.
From Verif Require Import proofs.C07_fields proofs.C07_spec proofs.C07_ref proofs.C07_roundtrip proofs.C07_streaming
     proofs.C07_pipeline proofs.C06_global.
From Coq Require Import ZifyBool.

(* ---- one step of the budget ---- *)

(* None: BodySizeError ; Some r: has_read of the part *)
Definition step_budget (it : mp_item) (mr : Z) : option Z :=
  let '(h, d, f) := it in
  if (h >? mr)%Z then None
  else if f then Some h
  else if (d =? 0)%Z then Some h
  else if (h + d >? mr)%Z then None
  else Some (h + d)%Z.

Lemma mp_budget_step it items mr i :
  mp_budget (it :: items) mr i =
  match step_budget it mr with
  | None => BudgetExceeded i
  | Some r => mp_budget items (mr - r)%Z (S i)
  end.
Proof.
  destruct it as [[h d] f]. cbn [mp_budget step_budget].
  destruct (h >? mr)%Z; [reflexivity|]. destruct f; [reflexivity|].
  destruct (d =? 0)%Z; [reflexivity|]. destruct (h + d >? mr)%Z; reflexivity.
Qed.

(* FieldStorage.read on a part that has a view: its outcome is the budget step *)
Lemma field_read_view body hs he ds de mr it :
  part_view body (hs, he) (ds, de) = Some it ->
  match field_read body (hs, he) (ds, de) mr with
  | inl (_, r) => step_budget it mr = Some r
  | inr e => e = ESize /\ step_budget it mr = None
  end.
Proof.
  unfold part_view, field_read. intros H.
  destruct (hs <? 0)%Z; [discriminate|].
  destruct (utf8_dec (read_at body hs (he - hs))) as [raw|]; [|discriminate].
  destruct (read_headers (splitlines raw) None None None []) as [[[[name fn] ct] hdrs]|]; [|discriminate].
  destruct name as [name|]; [|discriminate].
  destruct fn as [fn|].
  - injection H as <-. cbn [step_budget]. rewrite Z.gtb_ltb.
    destruct (mr <? he - hs)%Z; [split; reflexivity | reflexivity].
  - destruct (de - ds =? 0)%Z eqn:Ed.
    + injection H as <-. cbn [step_budget]. rewrite Z.gtb_ltb, Ed.
      destruct (mr <? he - hs)%Z; [split; reflexivity | reflexivity].
    + destruct (ds <? 0)%Z; [discriminate|].
      destruct (utf8_dec (read_at body ds (de - ds))) as [v|]; [|discriminate].
      injection H as <-. cbn [step_budget]. rewrite !Z.gtb_ltb, Ed.
      destruct (mr <? he - hs)%Z; [split; reflexivity|].
      destruct (mr <? he - hs + (de - ds))%Z; [split; reflexivity | reflexivity].
Qed.

(* ---- (1) the refinement ---- *)

Lemma iter_pairs_budget body : forall items m mr acc i0,
  triples_of body m = Some items ->
  match mp_budget items mr i0 with
  | BudgetOk _ =>
    exists fs, iter_pairs body m mr acc = IOk (rev acc ++ fs) /\ length fs = length items
  | BudgetExceeded i =>
    iter_pairs body m mr acc = IErr ESize
    /\ i0 <= i < i0 + length items
    /\ exists fs, iter_pairs body (firstn (2 * (i - i0)) m) mr acc = IOk (rev acc ++ fs)
                  /\ length fs = i - i0
  end.
Proof.
  induction items as [|it items IH]; intros m mr acc i0 Ht.
  - (* no part left *)
    destruct m as [|[[hk hs] he] m'].
    + cbn [mp_budget iter_pairs]. exists []. now rewrite app_nil_r.
    + exfalso. cbn [triples_of] in Ht. destruct hk; [|discriminate].
      destruct m' as [|[[dk ds] de] m'']; [discriminate|]. destruct dk; [discriminate|].
      destruct (part_view body (hs, he) (ds, de)); [|discriminate].
      destruct (triples_of body m''); discriminate.
  - destruct m as [|[[hk hs] he] m']; [discriminate|].
    cbn [triples_of] in Ht. destruct hk; [|discriminate].
    destruct m' as [|[[dk ds] de] m'']; [discriminate|]. destruct dk; [discriminate|].
    destruct (part_view body (hs, he) (ds, de)) as [it'|] eqn:Ev; [|discriminate].
    destruct (triples_of body m'') as [r|] eqn:Er; [|discriminate].
    injection Ht as -> ->.
    rewrite mp_budget_step. cbn [iter_pairs].
    pose proof (field_read_view body hs he ds de mr it Ev) as Hf.
    destruct (field_read body (hs, he) (ds, de) mr) as [[f r]|e] eqn:Efr.
    + rewrite Hf. specialize (IH m'' (mr - r)%Z (f :: acc) (S i0) Er).
      destruct (mp_budget items (mr - r) (S i0)) as [l|i].
      * destruct IH as (fs & -> & Hl). exists (f :: fs). cbn [rev length].
        rewrite <- app_assoc. split; [reflexivity | now rewrite Hl].
      * destruct IH as (-> & Hi & fs & Hfs & Hl). split; [reflexivity|].
        split; [cbn [length]; lia|].
        exists (f :: fs). replace (2 * (i - i0)) with (S (S (2 * (i - S i0)))) by lia.
        cbn [firstn iter_pairs]. rewrite Efr, Hfs. cbn [rev length].
        rewrite <- app_assoc. split; [reflexivity | lia].
    + destruct Hf as [-> Hn]. rewrite Hn. split; [reflexivity|].
      split; [cbn [length]; lia|].
      exists []. rewrite Nat.sub_diag. cbn [Nat.mul firstn iter_pairs]. now rewrite app_nil_r.
Qed.

Lemma C13_budget_is_iter_items_lemma :
  forall (body : bytes) (s0 e0 : Z) (m : list section) (max_read : Z) (items : list mp_item),
    (e0 <= 0)%Z ->
    triples_of body m = Some items ->
    match mp_budget items max_read 0 with
    | BudgetOk _ =>
      exists fs, iter_items body ((Data, s0, e0) :: m) max_read = IOk fs /\ length fs = length items
    | BudgetExceeded i =>
      iter_items body ((Data, s0, e0) :: m) max_read = IErr ESize
      /\ i < length items
      /\ exists fs, iter_items body ((Data, s0, e0) :: firstn (2 * i) m) max_read = IOk fs /\ length fs = i
    end.
Proof.
  intros body s0 e0 m mr items He Ht. cbn [iter_items].
  replace (0 <? e0)%Z with false by lia.
  pose proof (iter_pairs_budget body items m mr [] 0 Ht) as H.
  destruct (mp_budget items mr 0) as [l|i].
  - exact H.
  - destruct H as (H1 & H2 & fs & H3 & H4). rewrite Nat.sub_0_r in H3, H4.
    split; [exact H1|]. split; [lia|]. exists fs. auto.
Qed.

(* ---- (2) the bodies a browser sends ---- *)

Definition item_of (f : fld) : mp_item :=
  (Z.of_nat (length (hdr_bytes f)), Z.of_nat (length (data_bytes f)), negb (is_text f)).

Lemma need_items fs : need (map item_of fs) = total_cost fs.
Proof.
  induction fs as [|f fs IH]; [reflexivity|].
  cbn [map]. change (need (item_of f :: map item_of fs)) with (item_need (item_of f) + need (map item_of fs))%Z.
  rewrite IH, total_cost_cons. f_equal. destruct f; reflexivity.
Qed.

Lemma items_nonneg fs : Forall item_nonneg (map item_of fs).
Proof. induction fs as [|f fs IH]; constructor; [unfold item_of, item_nonneg; lia | exact IH]. Qed.

(* a successful FieldStorage.read shows the view of the part *)
Lemma field_read_inl_view body hs he ds de mr fl r :
  field_read body (hs, he) (ds, de) mr = inl (fl, r) ->
  part_view body (hs, he) (ds, de)
  = Some ((he - hs)%Z, (de - ds)%Z, match f_filename fl with Some _ => true | None => false end).
Proof.
  unfold part_view, field_read.
  destruct (mr <? he - hs)%Z; [discriminate|].
  destruct (hs <? 0)%Z; [discriminate|].
  destruct (utf8_dec (read_at body hs (he - hs))) as [raw|]; [|discriminate].
  destruct (read_headers (splitlines raw) None None None []) as [[[[name fn] ct] hdrs]|]; [|discriminate].
  destruct name as [name|]; [|discriminate].
  destruct fn as [fn|].
  - intros [= <- _]. reflexivity.
  - destruct (de - ds =? 0)%Z; [intros [= <- _]; reflexivity|].
    destruct (mr <? he - hs + (de - ds))%Z; [discriminate|].
    destruct (ds <? 0)%Z; [discriminate|].
    destruct (utf8_dec (read_at body ds (de - ds))) as [v|]; [|discriminate].
    intros [= <- _]. reflexivity.
Qed.

Lemma triples_enc B fs :
  Forall fld_ok fs ->
  forall pre, triples_of (pre ++ enc_rest B fs) (secs_from B (length pre) fs) = Some (map item_of fs).
Proof.
  induction fs as [|f fs IH]; intros Hok pre; [reflexivity|].
  inversion Hok as [|f' fs' Hf Hrest]; subst.
  cbn [secs_from enc_rest map]. unfold sec. cbn [triples_of].
  pose proof (field_read_part f pre (token B ++ enc_rest B fs) (cost f) Hf ltac:(lia)) as Hr.
  cbv zeta in Hr. apply field_read_inl_view in Hr. rewrite Hr.
  set (pre' := pre ++ CRLF ++ hdr_bytes f ++ H4 ++ data_bytes f ++ token B).
  assert (Lp : length pre' = (length pre + 2 + length (hdr_bytes f) + 4 + length (data_bytes f)
                              + length (token B))%nat).
  { unfold pre'. rewrite !app_length. simpl length. lia. }
  assert (Eb : pre ++ CRLF ++ hdr_bytes f ++ H4 ++ data_bytes f ++ token B ++ enc_rest B fs
               = pre' ++ enc_rest B fs).
  { unfold pre'. repeat rewrite <- app_assoc. reflexivity. }
  rewrite Eb, <- Lp, (IH Hrest pre'). f_equal. f_equal. unfold item_of.
  destruct f as [n v | n fn ct c]; cbn [field_of f_filename is_text negb]; f_equal; f_equal; lia.
Qed.

(* the over-budget side on the encoded form, one-piece markup *)
Lemma iter_items_enc_over B fs mem :
  parts_ok B fs -> (0 <= mem)%Z -> (total_cost fs > mem)%Z ->
  iter_items (enc_form B fs) (fst (ref_obs B (enc_form B fs))) mem = IErr ESize
  /\ snd (ref_obs B (enc_form B fs)) = None.
Proof.
  intros Hok Hmem Hc. unfold ref_obs. rewrite (ref_enc_form B fs Hok). cbn [fst snd final_error].
  split; [|reflexivity]. unfold sec.
  assert (Ht : triples_of (enc_form B fs) (secs_from B (length (dash_boundary B)) fs) = Some (map item_of fs)).
  { rewrite enc_form_rest. apply triples_enc. now apply (parts_ok_fld_ok B). }
  pose proof (C13_budget_is_iter_items_lemma (enc_form B fs) (Z.of_nat 0) (Z.of_nat 0)
                (secs_from B (length (dash_boundary B)) fs) mem (map item_of fs) ltac:(lia) Ht) as H.
  destruct (C13_multipart_budget_lemma (map item_of fs) mem (items_nonneg fs) Hmem) as [_ Hover].
  rewrite need_items in Hover. destruct (Hover Hc) as (i & Hi & _). rewrite Hi in H.
  destruct H as (H & _). exact H.
Qed.

Lemma encoded_form_triples B fs :
  parts_ok B fs ->
  triples_of (enc_form B fs) (tl (fst (ref_obs B (enc_form B fs)))) = Some (map item_of fs)
  /\ need (map item_of fs) = total_cost fs.
Proof.
  intros Hok. split; [|apply need_items].
  unfold ref_obs. rewrite (ref_enc_form B fs Hok). cbn [fst tl].
  rewrite enc_form_rest. apply triples_enc. now apply (parts_ok_fld_ok B).
Qed.

Import BodyPipeline.

(* through the pipeline, for any framing that delivers the encoded form as [parts] *)
Lemma capped_pipeline_gen jk cfg b fs fr s cl parts a :
  form_access a ->
  b <> [] -> lacks SEMI b -> lacks 10 b -> lacks 13 b -> scalars b ->
  parts_ok (utf8_enc_str b) fs ->
  content_length fr = Some cl ->
  read_parts cfg cl (fr_te fr) s = RDone parts ->
  concat parts = enc_form (utf8_enc_str b) fs ->
  (total_cost fs > Z.of_nat (c_memfile cfg))%Z ->
  process jk cfg (mp_ctype b) fr s a = Client 413.
Proof.
  intros Ha Hne Hs Hl Hcr Hsc Hok Hcl Hread Hcat Hcost.
  set (B := utf8_enc_str b) in *. set (body := enc_form B fs) in *.
  assert (HB : lacks 13 B) by (apply utf8_lacks_low; [reflexivity | exact Hcr]).
  assert (Hstage : body_stage cfg (mp_ctype b) fr s = inl (body, Some (markup_chunks B parts))).
  { unfold body_stage. rewrite (boundary_match_mp b Hne Hs Hl).
    rewrite (utf8_encode_some b Hsc). fold B. rewrite (lacks_contains CR B HB).
    rewrite Hcl, Hread, Hcat. reflexivity. }
  assert (Hp : post_prop jk cfg (mp_ctype b) fr s = Client 413).
  { unfold post_prop.
    assert (Hct : prefixb s_multipart_slash (content_type (mp_ctype b)) = true).
    { unfold content_type, mp_ctype, lower. rewrite map_app. reflexivity. }
    rewrite Hct. cbn [negb]. rewrite Hstage.
    rewrite (stream_eq_ref B parts) by (rewrite Hcat; now apply enc_form_wf).
    rewrite Hcat. fold body.
    destruct (iter_items_enc_over B fs (Z.of_nat (c_memfile cfg)) Hok ltac:(lia) Hcost) as [H1 H2].
    fold body in H1, H2. rewrite H2, H1. reflexivity. }
  destruct a; cbn [process form_access] in *; try exact Hp; contradiction.
Qed.

(* the framings deliver the whole body when it is within max_body_size *)
Lemma read_parts_cl_within cfg te body sc :
  te_chunked te = false -> (0 < c_memfile cfg)%nat ->
  (forall m, c_maxbody cfg = Some m -> (length body <= m)%nat) ->
  exists parts, read_parts cfg (Z.of_nat (length body)) te (stream_init body sc) = RDone parts
                /\ concat parts = body.
Proof.
  intros Hte Hb Hm.
  destruct (c_maxbody cfg) as [m|] eqn:Emax.
  - pose proof (C13_cl_lemma body sc (c_memfile cfg) m (Z.of_nat (length body)) Hb) as H. cbv zeta in H.
    rewrite Nat2Z.id, Nat.min_id in H. specialize (Hm m eq_refl).
    replace (Nat.ltb m (length body)) with false in H by lia.
    destruct H as (s' & Heq & _). rewrite firstn_all in Heq.
    eapply (read_parts_of_env cfg _ te _ body).
    unfold body_read_env. rewrite Hte, Emax. exact Heq.
  - destruct (C04_exact_lemma body sc (c_memfile cfg) (Z.of_nat (length body)) Hb) as (s' & Heq & _).
    rewrite Nat2Z.id, firstn_all in Heq.
    eapply (read_parts_of_env cfg _ te _ body).
    unfold body_read_env. rewrite Hte, Emax. exact Heq.
Qed.

Lemma read_parts_chunked_within cfg cl te cs last tail sc :
  te_chunked te = true ->
  (forall m, c_maxbody cfg = Some m -> (length (payload_of cs) <= m)%nat) ->
  Forall chunk_ok cs -> last_ok last ->
  Forall (fun c => (line_len c <= c_memfile cfg)%nat) cs -> (line_len last <= c_memfile cfg)%nat ->
  exists parts, read_parts cfg cl te (stream_init (enc_chunked cs last tail) sc) = RDone parts
                /\ concat parts = payload_of cs.
Proof.
  intros Hte Hm Hcs Hl Hfit Hlfit.
  destruct (c_maxbody cfg) as [m|] eqn:Emax.
  - pose proof (C13_chunked_lemma cs last tail (c_memfile cfg) m sc Hcs Hl Hfit Hlfit) as H. cbv zeta in H.
    specialize (Hm m eq_refl).
    replace (Nat.ltb m (length (payload_of cs))) with false in H by lia.
    destruct H as (s' & Heq & _).
    eapply (read_parts_of_env cfg cl te).
    unfold body_read_env. rewrite Hte, Emax. exact Heq.
  - destruct (C05_exact_lemma cs last tail (c_memfile cfg) sc Hcs Hl Hfit Hlfit) as (s' & Heq & _).
    eapply (read_parts_of_env cfg cl te).
    unfold body_read_env. rewrite Hte, Emax. exact Heq.
Qed.

(* Content-Length framing *)
Lemma C13_capped_multipart_lemma :
  forall (jk : bytes -> option jkind) (cfg : config) (b : str) (fs : list fld) (sc : list nat) (a : access)
         (clraw : option str) (te : str),
    form_access a ->
    b <> [] -> lacks SEMI b -> lacks 10 b -> lacks 13 b -> scalars b ->
    parts_ok (utf8_enc_str b) fs ->
    (0 < c_memfile cfg)%nat ->
    let body := enc_form (utf8_enc_str b) fs in
    (forall m, c_maxbody cfg = Some m -> (length body <= m)%nat) ->
    te_chunked te = false ->
    content_length (mkFraming clraw te) = Some (Z.of_nat (length body)) ->
    let out := process jk cfg (mp_ctype b) (mkFraming clraw te) (stream_init body sc) a in
    ((total_cost fs > Z.of_nat (c_memfile cfg))%Z -> out = Client 413)
    /\ ((total_cost fs <= Z.of_nat (c_memfile cfg))%Z ->
        exists d, out = Ok (VMultipart d) /\ view body d = Some (expected fs)).
Proof.
  intros jk cfg b fs sc a clraw te Ha Hne Hs Hl Hcr Hsc Hok Hmem body Hmax Hte Hcl out.
  destruct (read_parts_cl_within cfg te body sc Hte Hmem Hmax) as (parts & Hread & Hcat).
  split; intros Hc.
  - now apply (capped_pipeline_gen jk cfg b fs (mkFraming clraw te) _ (Z.of_nat (length body)) parts a).
  - now apply (roundtrip_pipeline_gen jk cfg b fs (mkFraming clraw te) _ (Z.of_nat (length body)) parts a).
Qed.

(* chunked framing *)
Lemma C13_capped_multipart_chunked_lemma :
  forall (jk : bytes -> option jkind) (cfg : config) (b : str) (fs : list fld)
         (cs : list chunk) (last : chunk) (tail : list N) (sc : list nat) (a : access)
         (clraw : option str) (te : str),
    form_access a ->
    b <> [] -> lacks SEMI b -> lacks 10 b -> lacks 13 b -> scalars b ->
    parts_ok (utf8_enc_str b) fs ->
    let body := enc_form (utf8_enc_str b) fs in
    (forall m, c_maxbody cfg = Some m -> (length body <= m)%nat) ->
    te_chunked te = true ->
    content_length (mkFraming clraw te) <> None ->
    Forall chunk_ok cs -> last_ok last -> payload_of cs = body ->
    Forall (fun c => (line_len c <= c_memfile cfg)%nat) cs -> (line_len last <= c_memfile cfg)%nat ->
    let out := process jk cfg (mp_ctype b) (mkFraming clraw te) (stream_init (enc_chunked cs last tail) sc) a in
    ((total_cost fs > Z.of_nat (c_memfile cfg))%Z -> out = Client 413)
    /\ ((total_cost fs <= Z.of_nat (c_memfile cfg))%Z ->
        exists d, out = Ok (VMultipart d) /\ view body d = Some (expected fs)).
Proof.
  intros jk cfg b fs cs last tail sc a clraw te Ha Hne Hs Hl Hcr Hsc Hok body Hmax Hte Hcl Hcs Hlast Hpay
         Hfit Hlfit out.
  destruct (content_length (mkFraming clraw te)) as [cl|] eqn:Ecl; [|congruence].
  rewrite <- Hpay in Hmax.
  destruct (read_parts_chunked_within cfg cl te cs last tail sc Hte Hmax Hcs Hlast Hfit Hlfit)
    as (parts & Hread & Hcat).
  rewrite Hpay in Hcat.
  split; intros Hc.
  - now apply (capped_pipeline_gen jk cfg b fs (mkFraming clraw te) _ cl parts a).
  - now apply (roundtrip_pipeline_gen jk cfg b fs (mkFraming clraw te) _ cl parts a).
Qed.
