(* C06_feed.v — the parts that _body_read feeds to the multipart parser under any
   read fragmentation and any buffer size concatenate to the first
   Content-Length bytes of the stream; hence the parse result is a function of
   those bytes alone. *)
From Verif Require Import lib.Base lib.ListX lib.Str model.Stream model.MultipartRef model.Multipart
  model.MultipartFeed proofs.C06_global.
Require Import Lia.

Lemma parts_loop_concat buf : 0 < buf -> forall fuel s rest_len,
  length (rest s) < fuel ->
  exists parts, parts_loop fuel s buf rest_len = Some parts /\
                concat parts = firstn rest_len (rest s) /\ Forall (fun p => p <> []) parts.
Proof.
  intros Hbuf. induction fuel as [|f IH]; intros s rest_len Hf; [lia|].
  cbn [parts_loop]. destruct (Nat.eqb_spec rest_len 0) as [->|Hr].
  - exists []. repeat split; constructor.
  - unfold read. set (k := read_len s (Nat.min rest_len buf)).
    assert (Hk : 1 <= k /\ k <= rest_len).
    { unfold k, read_len. destruct (sched s); lia. }
    destruct (firstn k (rest s)) as [|x part'] eqn:Ep.
    + exists []. repeat split; [|constructor]. cbn [concat].
      destruct (rest s) as [|y r]; [now rewrite firstn_nil|].
      destruct k; [lia | discriminate].
    + rewrite <- Ep.
      assert (Ls : length (skipn k (rest s)) < f).
      { rewrite skipn_length. assert (length (firstn k (rest s)) >= 1) by (rewrite Ep; simpl; lia).
        rewrite firstn_length in H. lia. }
      destruct (IH (mkStream (skipn k (rest s)) (tl (sched s)) (pos s + length (firstn k (rest s)))
                             ((Nat.min rest_len buf, pos s) :: reqs s))
                   (rest_len - length (firstn k (rest s))) Ls) as (parts & E & Hc & Hne).
      rewrite E. exists (firstn k (rest s) :: parts). cbn [option_map concat rest] in *.
      repeat split; [| constructor; [rewrite Ep; discriminate | exact Hne]].
      rewrite Hc. rewrite firstn_length.
      destruct (Nat.le_gt_cases k (length (rest s))) as [L|L].
      * rewrite Nat.min_l by exact L. apply firstn_firstn_skipn. lia.
      * rewrite Nat.min_r by lia. rewrite (skipn_all2 (rest s)) by lia. rewrite firstn_nil, app_nil_r.
        rewrite !firstn_all2 by lia. reflexivity.
Qed.

Lemma body_parts_concat data sc buf cl :
  0 < buf ->
  exists parts, body_parts data sc buf cl = Some parts /\
                concat parts = firstn (Z.to_nat cl) data /\ Forall (fun p => p <> []) parts.
Proof.
  intros Hbuf. unfold body_parts.
  apply (parts_loop_concat buf Hbuf (S (length data)) (stream_init data sc) (Z.to_nat cl)).
  cbn [stream_init rest]. lia.
Qed.

(* whatever the fragmentation schedule and the buffer size *)
Theorem reads_independent B data sc buf cl :
  0 < buf ->
  wf_prefix B (firstn (Z.to_nat cl) data) ->
  markup_stream B data sc buf cl = Some (ref_obs B (firstn (Z.to_nat cl) data)).
Proof.
  intros Hbuf Hwf. unfold markup_stream.
  destruct (body_parts_concat data sc buf cl Hbuf) as (parts & E & Hc & _).
  rewrite E. cbn [option_map]. f_equal. rewrite <- Hc in Hwf |- *. now apply stream_eq_ref.
Qed.
