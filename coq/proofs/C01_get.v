(* C01_get.v — stage 1 of C01: on a well-formed tree, the depth-first lookup
   RadiDict.get (model: Router.get_at) selects exactly the pattern stored in the
   tree that the rule-by-rule matcher selects.  The result depends only on the
   set of (pattern, data) pairs the tree holds ([paths]), not on its shape. *)
From Verif Require Import lib.Base lib.Str gen.Gen model.RouteSpec model.Dispatch model.Router.

(* ------------------------------------------------------------------ *)
(* a generic induction principle for the nested type                    *)
(* ------------------------------------------------------------------ *)
Lemma node_ind' (P : node -> Prop) :
  (forall key d nm f h ks, Forall P ks -> P (Node key d nm f h ks)) -> forall n, P n.
Proof.
  intros H. fix IH 1. intros [key d nm f h ks]. apply H.
  induction ks as [|k ks IHks]; constructor; [apply IH | exact IHks].
Qed.

(* ------------------------------------------------------------------ *)
(* patterns character by character                                      *)
(* ------------------------------------------------------------------ *)
Section Matchf.
Variable filt : fid -> str -> option (value * nat).

Fixpoint matchf (p : list pc) (path : str) : option (list value) :=
  match p with
  | [] => match path with [] => Some [] | _ :: _ => None end
  | PC c :: p' =>
    match path with
    | x :: r => if N.eqb x c then matchf p' r else None
    | [] => None
    end
  | PW f :: p' =>
    match wild_step filt f path with
    | None => None
    | Some (v, rest) =>
      match matchf p' rest with
      | None => None
      | Some vs => Some (v :: vs)
      end
    end
  end.

Lemma matchf_lit s : forall p path,
  matchf (map PC s ++ p) path = if prefixb s path then matchf p (skipn (length s) path) else None.
Proof.
  unfold prefixb. induction s as [|c s IH]; intros p path; simpl; [reflexivity|].
  destruct path as [|x r]; [reflexivity|]. simpl.
  rewrite (N.eqb_sym c x). destruct (N.eqb x c); simpl; [apply IH | reflexivity].
Qed.

Lemma matchf_flat p : forall path, matchf (flat p) path = match1 filt p path.
Proof.
  induction p as [|s p IH]; intros path; simpl; [reflexivity|].
  destruct s as [t|f]; simpl.
  - rewrite matchf_lit. destruct (prefixb t path); [apply IH | reflexivity].
  - destruct (wild_step filt f path) as [[v rest]|]; [|reflexivity]. now rewrite IH.
Qed.

End Matchf.

(* ------------------------------------------------------------------ *)
(* what a tree holds                                                    *)
(* ------------------------------------------------------------------ *)

Definition khead (k : node) : N := hd 0%N (nkey k).

Definition key_pcs (k : node) : list pc :=
  if str_eqb (nkey k) tok then [PW (nflt k)] else map PC (nkey k).

Definition entry : Type := (list pc * (rid * list str))%type.

Definition pre (a : list pc) (e : entry) : entry := (a ++ fst e, snd e).

(* every (pattern below this node, data + names) *)
Fixpoint paths (n : node) : list entry :=
  match n with
  | Node _ d nm _ _ ks =>
    match d with Some x => [([], (x, nm))] | None => [] end
    ++ flat_map (fun k => map (pre (key_pcs k)) (paths k)) ks
  end.

(* a key is non-empty and is either the token alone or token-free text *)
Definition key_ok (k : str) : Prop := k <> [] /\ (k = tok \/ ~ In TOKEN k).

Fixpoint tok_last (ks : list node) : Prop :=
  match ks with
  | [] => True
  | k :: ks' => match ks' with
                | [] => True
                | _ :: _ => khead k <> TOKEN /\ tok_last ks'
                end
  end.

Inductive wf : node -> Prop :=
| wf_node key d nm f h ks :
    Forall wf ks -> Forall (fun k => key_ok (nkey k)) ks ->
    NoDup (map khead ks) -> tok_last ks ->
    wf (Node key d nm f h ks).

(* ---- facts that do not depend on the filters ---- *)
Lemma pc_eqb_refl x : pc_eqb x x = true.
Proof. destruct x as [c|[f|]]; simpl; auto using N.eqb_refl, Nat.eqb_refl. Qed.

Lemma betterb_app a : forall x y, betterb (a ++ x) (a ++ y) = betterb x y.
Proof.
  induction a as [|c a IH]; intros x y; simpl; [reflexivity|].
  rewrite pc_eqb_refl, IH. simpl. destruct c; reflexivity.
Qed.


(* patterns contributed by one child *)
Definition kid_entries (k : node) : list entry := map (pre (key_pcs k)) (paths k).

Lemma in_kid_entries k p e :
  In (p, e) (kid_entries k) <-> exists p0, p = key_pcs k ++ p0 /\ In (p0, e) (paths k).
Proof.
  unfold kid_entries. rewrite in_map_iff. split.
  - intros [[p0 e0] [H Hin]]. unfold pre in H. simpl in H. injection H as <- <-. eauto.
  - intros [p0 [-> Hin]]. exists (p0, e). auto.
Qed.


Lemma head_is_khead k c : nkey k <> [] -> (head_is k c = true <-> khead k = c).
Proof.
  unfold head_is, khead. destruct (nkey k) as [|x s]; [contradiction|]. intros _. simpl.
  apply N.eqb_eq.
Qed.

Lemma key_ok_tok_head k : key_ok (nkey k) -> (khead k = TOKEN <-> nkey k = tok).
Proof.
  intros [Hne [Ht|Hnt]]; unfold khead.
  - rewrite Ht. simpl. tauto.
  - destruct (nkey k) as [|x s]; [contradiction|]. simpl. split.
    + intros ->. exfalso. apply Hnt. now left.
    + intros E. unfold tok in E. now injection E.
Qed.

(* first pattern character of an entry of a child *)
Lemma kid_entry_first k p e :
  key_ok (nkey k) -> In (p, e) (kid_entries k) ->
  (nkey k = tok /\ exists p0, p = PW (nflt k) :: p0) \/
  (nkey k <> tok /\ exists p0, p = PC (khead k) :: p0).
Proof.
  intros [Hne Hk] Hin. apply in_kid_entries in Hin. destruct Hin as (p0 & -> & _).
  unfold key_pcs. destruct (str_eqb_spec (nkey k) tok) as [E|E].
  - left. split; [exact E|]. simpl. eauto.
  - right. split; [exact E|]. unfold khead. destruct (nkey k) as [|x s]; [contradiction|].
    simpl. eauto.
Qed.


Definition kids_entries (ks : list node) : list entry := flat_map kid_entries ks.

Lemma in_kids_entries ks p e :
  In (p, e) (kids_entries ks) <-> exists k, In k ks /\ In (p, e) (kid_entries k).
Proof. unfold kids_entries. rewrite in_flat_map. tauto. Qed.


(* ------------------------------------------------------------------ *)
(* the two local loops of get_at as top-level functions                 *)
(* ------------------------------------------------------------------ *)
Section GetSpec.
Variable filt : fid -> str -> option (value * nat).
Let get_at := get_at filt true.

Local Notation wild_res := (Router.wild_res filt get_at).
Local Notation wild_of := (Router.wild_of filt get_at).
Local Notation lit_res := (Router.lit_res get_at).
Local Notation lit_of := (Router.lit_of true get_at).

Lemma get_at_eq n path i :
  get_at n path i =
  match n with
  | Node _ data nm _ _ kids =>
    match path with
    | [] => match data with Some d => GFound d nm [] [] | None => GFail [] [] i end
    | c0 :: _ => lit_of c0 path i (fun _ => wild_of path i kids) kids
    end
  end.
Proof. destruct n as [key d nm f h kids]. destruct path; reflexivity. Qed.

(* ------------------------------------------------------------------ *)
(* projections                                                          *)
(* ------------------------------------------------------------------ *)
Definition found_of (r : gres) : option (rid * list str * list value) :=
  match r with
  | GFound d nm vs _ => Some (d, nm, vs)
  | GFail _ _ _ => None
  end.

Lemma found_g_hook h i r : found_of (g_hook h i r) = found_of r.
Proof. destruct h; destruct r; reflexivity. Qed.

Lemma found_g_val v r :
  found_of (g_val v r) = match found_of r with Some (d, nm, vs) => Some (d, nm, v :: vs) | None => None end.
Proof. destruct r; reflexivity. Qed.

(* ------------------------------------------------------------------ *)
(* the statement for one node                                           *)
(* ------------------------------------------------------------------ *)
Definition optimal (es : list entry) (path : str) (p : list pc) : Prop :=
  forall p' e', In (p', e') es -> matchf filt p' path <> None -> p' = p \/ betterb p p' = true.

Definition sel_ok (es : list entry) (path : str) (r : gres) : Prop :=
  match found_of r with
  | Some (d, nm, vs) =>
    exists p, In (p, (d, nm)) es /\ matchf filt p path = Some vs /\ optimal es path p
  | None => forall p' e', In (p', e') es -> matchf filt p' path = None
  end.

Lemma wild_step_take f path :
  wild_step filt f path =
  match path with
  | [] => None
  | _ :: _ => match wild_take filt f path with
              | Some (v, m) => Some (v, skipn m path)
              | None => None
              end
  end.
Proof.
  destruct path as [|c r]; [reflexivity|]. unfold wild_step, wild_take.
  destruct f as [k|]; [|reflexivity]. now destruct (filt k (c :: r)) as [[v n]|].
Qed.

(* a literal child: its entries on a path *)
Lemma lit_kid_sel k path i :
  key_ok (nkey k) -> nkey k <> tok ->
  sel_ok (paths k) (skipn (length (nkey k)) path) (get_at k (skipn (length (nkey k)) path) (i + length (nkey k))) ->
  sel_ok (kid_entries k) path (lit_res k path i).
Proof.
  intros Hk Hnt IH. unfold Router.lit_res.
  assert (Hpcs : key_pcs k = map PC (nkey k)).
  { unfold key_pcs. destruct (str_eqb_spec (nkey k) tok); [contradiction | reflexivity]. }
  destruct (prefixb (nkey k) path) eqn:Epre.
  - unfold sel_ok in *. rewrite found_g_hook.
    destruct (found_of (get_at k _ _)) as [[[d nm] vs]|].
    + destruct IH as (p0 & Hin & Hm & Hopt). exists (key_pcs k ++ p0). split; [|split].
      * apply in_kid_entries. eauto.
      * rewrite Hpcs, matchf_lit, Epre. exact Hm.
      * intros p' e' Hin' Hm'. apply in_kid_entries in Hin'. destruct Hin' as (p1 & -> & Hin1).
        rewrite Hpcs, matchf_lit, Epre in Hm'.
        destruct (Hopt p1 e' Hin1 Hm') as [->|Hb]; [now left | right].
        now rewrite betterb_app.
    + intros p' e' Hin'. apply in_kid_entries in Hin'. destruct Hin' as (p1 & -> & Hin1).
      rewrite Hpcs, matchf_lit, Epre. eauto.
  - unfold sel_ok. simpl. intros p' e' Hin'. apply in_kid_entries in Hin'.
    destruct Hin' as (p1 & -> & Hin1). now rewrite Hpcs, matchf_lit, Epre.
Qed.

(* the wildcard child *)
Lemma wild_kid_sel k c0 r i :
  nkey k = tok ->
  (forall m, sel_ok (paths k) (skipn m (c0 :: r)) (get_at k (skipn m (c0 :: r)) (i + m))) ->
  sel_ok (kid_entries k) (c0 :: r) (wild_res k (c0 :: r) i).
Proof.
  intros Hk IH. unfold Router.wild_res.
  assert (Hpcs : key_pcs k = [PW (nflt k)]).
  { unfold key_pcs. rewrite Hk. now rewrite str_eqb_refl. }
  assert (Hm : forall p0, matchf filt (key_pcs k ++ p0) (c0 :: r) =
               match wild_take filt (nflt k) (c0 :: r) with
               | Some (v, m) => match matchf filt p0 (skipn m (c0 :: r)) with
                                | Some vs => Some (v :: vs)
                                | None => None
                                end
               | None => None
               end).
  { intros p0. rewrite Hpcs. simpl app. cbn [matchf]. rewrite wild_step_take.
    now destruct (wild_take filt (nflt k) (c0 :: r)) as [[v m]|]. }
  destruct (wild_take filt (nflt k) (c0 :: r)) as [[v m]|] eqn:Ew.
  - specialize (IH m). unfold sel_ok in *. rewrite found_g_val, found_g_hook.
    destruct (found_of (get_at k _ _)) as [[[d nm] vs]|].
    + destruct IH as (p0 & Hin & Hm0 & Hopt). exists (key_pcs k ++ p0). split; [|split].
      * apply in_kid_entries. eauto.
      * rewrite Hm, Hm0. reflexivity.
      * intros p' e' Hin' Hm'. apply in_kid_entries in Hin'. destruct Hin' as (p1 & -> & Hin1).
        rewrite Hm in Hm'.
        assert (Hm1 : matchf filt p1 (skipn m (c0 :: r)) <> None).
        { intros E. now rewrite E in Hm'. }
        destruct (Hopt p1 e' Hin1 Hm1) as [->|Hb]; [now left | right]. now rewrite betterb_app.
    + intros p' e' Hin'. apply in_kid_entries in Hin'. destruct Hin' as (p1 & -> & Hin1).
      rewrite Hm. now rewrite (IH p1 e' Hin1).
  - unfold sel_ok. simpl. intros p' e' Hin'. apply in_kid_entries in Hin'.
    destruct Hin' as (p1 & -> & Hin1). now rewrite Hm.
Qed.

(* entries of a child whose first pattern character cannot match c0 *)
Lemma lit_kid_nomatch k c0 r p e :
  key_ok (nkey k) -> nkey k <> tok -> khead k <> c0 ->
  In (p, e) (kid_entries k) -> matchf filt p (c0 :: r) = None.
Proof.
  intros [Hne _] Hnt Hh Hin. apply in_kid_entries in Hin. destruct Hin as (p0 & -> & _).
  unfold key_pcs. destruct (str_eqb_spec (nkey k) tok); [contradiction|].
  unfold khead in Hh. destruct (nkey k) as [|x s]; [contradiction|]. simpl in *.
  destruct (N.eqb_spec c0 x); [congruence | reflexivity].
Qed.

(* ------------------------------------------------------------------ *)
(* the children loop                                                    *)
(* ------------------------------------------------------------------ *)

(* the wildcard child is the last one *)
Lemma wild_of_spec path i ks :
  Forall (fun k => key_ok (nkey k)) ks -> tok_last ks ->
  match wild_of path i ks with
  | Some r => exists k, In k ks /\ nkey k = tok /\ r = wild_res k path i
  | None => forall k, In k ks -> nkey k <> tok
  end.
Proof.
  induction ks as [|k ks IH]; intros Hok Hl; simpl.
  - intros k [].
  - inversion Hok as [|? ? Hk Hks]; subst. destruct ks as [|k' ks'].
    + destruct (head_is k TOKEN) eqn:E.
      * exists k. split; [now left|]. split; [|reflexivity].
        apply key_ok_tok_head; [exact Hk|]. apply head_is_khead; [apply Hk | exact E].
      * intros k0 [<-|[]] Ht. apply key_ok_tok_head in Ht; [|exact Hk].
        apply head_is_khead in Ht; [congruence | apply Hk].
    + destruct Hl as [Hh Hl]. specialize (IH Hks Hl).
      destruct (wild_of path i (k' :: ks')) as [r|].
      * destruct IH as (k0 & Hin & Ht & ->). exists k0. split; [now right | auto].
      * intros k0 [<-|Hin]; [|now apply IH].
        intros Ht. apply Hh. now apply key_ok_tok_head.
Qed.

Lemma betterb_pc_pw c a f b : betterb (PC c :: a) (PW f :: b) = true.
Proof. reflexivity. Qed.

Lemma node_sel key d nm f h kids :
  Forall (fun k => forall path i, sel_ok (paths k) path (get_at k path i)) kids ->
  Forall (fun k => key_ok (nkey k)) kids -> NoDup (map khead kids) -> tok_last kids ->
  forall path i, sel_ok (paths (Node key d nm f h kids)) path (get_at (Node key d nm f h kids) path i).
Proof.
  intros IH Hok Hnd Hl path i. rewrite get_at_eq.
  change (paths (Node key d nm f h kids))
    with (match d with Some x => [([], (x, nm))] | None => [] end ++ kids_entries kids).
  assert (Hkid_nonempty : forall p e, In (p, e) (kids_entries kids) -> matchf filt p [] = None).
  { intros p e Hin. apply in_kids_entries in Hin. destruct Hin as (k & Hk & Hin).
    rewrite Forall_forall in Hok. destruct (kid_entry_first k p e (Hok k Hk) Hin) as [[_ [p0 ->]]|[_ [p0 ->]]];
      reflexivity. }
  destruct path as [|c0 r].
  - (* end of path *)
    unfold sel_ok. destruct d as [x|]; simpl.
    + exists []. split; [now left|]. split; [reflexivity|].
      intros p' e' [H|H] Hm; [injection H as <- _; now left|].
      exfalso. apply Hm. eapply Hkid_nonempty; eauto.
    + intros p' e' H. eapply Hkid_nonempty; eauto.
  - (* a character c0: only the children can match *)
    assert (Hown : forall r0, sel_ok (kids_entries kids) (c0 :: r) r0 ->
                              sel_ok (match d with Some x => [([], (x, nm))] | None => [] end ++ kids_entries kids)
                                     (c0 :: r) r0).
    { intros r0 H. unfold sel_ok in *. destruct (found_of r0) as [[[d0 nm0] vs]|].
      - destruct H as (p & Hin & Hm & Hopt). exists p. split; [apply in_or_app; now right|].
        split; [exact Hm|]. intros p' e' Hin' Hm'. apply in_app_or in Hin'. destruct Hin' as [Hin'|Hin'].
        + destruct d; [|destruct Hin']. destruct Hin' as [Hin'|[]]. injection Hin' as <- _.
          exfalso. now apply Hm'.
        + eauto.
      - intros p' e' Hin'. apply in_app_or in Hin'. destruct Hin' as [Hin'|Hin']; [|eauto].
        destruct d; [|destruct Hin']. destruct Hin' as [Hin'|[]]. now injection Hin' as <- _. }
    apply Hown. clear Hown Hkid_nonempty.
    pose proof (wild_of_spec (c0 :: r) i kids Hok Hl) as Hw.
    (* what the wildcard child contributes *)
    assert (Hwild : match wild_of (c0 :: r) i kids with
                    | Some rw => exists kw, In kw kids /\ nkey kw = tok /\
                                            sel_ok (kid_entries kw) (c0 :: r) rw
                    | None => forall k, In k kids -> nkey k <> tok
                    end).
    { destruct (wild_of (c0 :: r) i kids) as [rw|]; [|exact Hw].
      destruct Hw as (kw & Hin & Ht & ->). exists kw. split; [exact Hin|]. split; [exact Ht|].
      apply wild_kid_sel; [exact Ht|]. intros m. rewrite Forall_forall in IH. now apply IH. }
    clear Hw.
    (* generalise the scan over a suffix of the children *)
    assert (Hscan : forall pre ks, kids = pre ++ ks ->
              (forall k, In k pre -> ~ (khead k = c0 /\ c0 <> TOKEN)) ->
              sel_ok (kids_entries kids) (c0 :: r) (lit_of c0 (c0 :: r) i (fun _ => wild_of (c0 :: r) i kids) ks)).
    { intros pre0 ks. revert pre0. induction ks as [|k ks IHks]; intros pre0 Hsplit Hpre.
      - (* no literal child under c0 *)
        rewrite app_nil_r in Hsplit. subst pre0. cbn [Router.lit_of].
        assert (Hlit_no : forall k p e, In k kids -> nkey k <> tok -> In (p, e) (kid_entries k) ->
                                        matchf filt p (c0 :: r) = None).
        { intros k p e Hk Hnt Hin. rewrite Forall_forall in Hok.
          apply (lit_kid_nomatch k c0 r p e (Hok k Hk) Hnt); [|exact Hin].
          intros Hh. apply (Hpre k Hk). split; [exact Hh|].
          intros ->. apply Hnt. apply key_ok_tok_head; auto. }
        destruct (wild_of (c0 :: r) i kids) as [rw|].
        + destruct Hwild as (kw & Hkw & Ht & Hsel). unfold sel_ok in *.
          destruct (found_of rw) as [[[d0 nm0] vs]|].
          * destruct Hsel as (p & Hin & Hm & Hopt). exists p. split; [apply in_kids_entries; eauto|].
            split; [exact Hm|]. intros p' e' Hin' Hm'. apply in_kids_entries in Hin'.
            destruct Hin' as (k & Hk & Hin').
            destruct (str_eqb_spec (nkey k) tok) as [Ek|Ek].
            -- (* the same wildcard child: heads are distinct *)
               assert (k = kw).
               { clear - Hnd Hk Hkw Ek Ht. assert (Hh : khead k = khead kw) by (unfold khead; now rewrite Ek, Ht).
                 induction kids as [|x xs IHx]; [destruct Hk|]. simpl in Hnd. inversion Hnd as [|? ? Hn Hd]; subst.
                 destruct Hk as [<-|Hk], Hkw as [<-|Hkw]; auto.
                 - exfalso. apply Hn. rewrite Hh. now apply in_map.
                 - exfalso. apply Hn. rewrite <- Hh. now apply in_map. }
               subst k. eauto.
            -- exfalso. apply Hm'. eapply Hlit_no; eauto.
          * intros p' e' Hin'. apply in_kids_entries in Hin'. destruct Hin' as (k & Hk & Hin').
            destruct (str_eqb_spec (nkey k) tok) as [Ek|Ek]; [|eapply Hlit_no; eauto].
            assert (k = kw).
            { clear - Hnd Hk Hkw Ek Ht. assert (Hh : khead k = khead kw) by (unfold khead; now rewrite Ek, Ht).
              induction kids as [|x xs IHx]; [destruct Hk|]. simpl in Hnd. inversion Hnd as [|? ? Hn Hd]; subst.
              destruct Hk as [<-|Hk], Hkw as [<-|Hkw]; auto.
              - exfalso. apply Hn. rewrite Hh. now apply in_map.
              - exfalso. apply Hn. rewrite <- Hh. now apply in_map. }
            subst k. eauto.
        + unfold sel_ok. simpl. intros p' e' Hin'. apply in_kids_entries in Hin'.
          destruct Hin' as (k & Hk & Hin'). eapply Hlit_no; eauto.
      - cbn [Router.lit_of].
        assert (Hkin : In k kids) by (rewrite Hsplit; apply in_or_app; right; now left).
        assert (Hkok : key_ok (nkey k)) by (rewrite Forall_forall in Hok; now apply Hok).
        destruct (head_is k c0 && (negb true || negb (N.eqb c0 TOKEN))) eqn:Ehit.
        + (* the literal child under c0 *)
          apply andb_true_iff in Ehit. destruct Ehit as [Eh Eg]. simpl in Eg.
          apply negb_true_iff in Eg. apply N.eqb_neq in Eg.
          apply head_is_khead in Eh; [|apply Hkok].
          assert (Hnt : nkey k <> tok).
          { intros Ht. apply Eg. rewrite <- Eh. now apply key_ok_tok_head. }
          assert (Hsel : sel_ok (kid_entries k) (c0 :: r) (lit_res k (c0 :: r) i)).
          { apply lit_kid_sel; auto. rewrite Forall_forall in IH. now apply IH. }
          (* other children: literal ones cannot match, the wildcard one is worse *)
          assert (Hother : forall k' p e, In k' kids -> k' <> k -> nkey k' <> tok ->
                                          In (p, e) (kid_entries k') -> matchf filt p (c0 :: r) = None).
          { intros k' p e Hk' Hne Hnt' Hin. rewrite Forall_forall in Hok.
            apply (lit_kid_nomatch k' c0 r p e (Hok k' Hk') Hnt'); [|exact Hin].
            intros Hh. apply Hne.
            clear - Hnd Hk' Hkin Hh Eh. assert (Hh2 : khead k' = khead k) by congruence.
            induction kids as [|x xs IHx]; [destruct Hkin|]. simpl in Hnd. inversion Hnd as [|? ? Hn Hd]; subst.
            destruct Hk' as [<-|Hk'], Hkin as [<-|Hkin]; auto.
            - exfalso. apply Hn. rewrite Hh2. now apply in_map.
            - exfalso. apply Hn. rewrite <- Hh2. now apply in_map. }
          unfold sel_ok in Hsel.
          destruct (lit_res k (c0 :: r) i) as [d0 nm0 vs hs|vs hs j] eqn:Er; simpl in Hsel.
          * (* found below the literal child *)
            unfold sel_ok. simpl. destruct Hsel as (p & Hin & Hm & Hopt).
            exists p. split; [apply in_kids_entries; eauto|]. split; [exact Hm|].
            intros p' e' Hin' Hm'. apply in_kids_entries in Hin'. destruct Hin' as (k' & Hk' & Hin').
            destruct (str_eqb_spec (nkey k') tok) as [Ek|Ek].
            -- right. rewrite Forall_forall in Hok.
               destruct (kid_entry_first k' p' e' (Hok k' Hk') Hin') as [[_ [p0 ->]]|[Hc _]]; [|contradiction].
               destruct (kid_entry_first k p _ Hkok Hin) as [[Hc _]|[_ [p1 ->]]]; [contradiction|].
               reflexivity.
            -- assert (Hdec : k' = k \/ k' <> k).
               { destruct (N.eq_dec (khead k') (khead k)) as [E|E].
                 - left. clear - Hnd Hk' Hkin E.
                   induction kids as [|x xs IHx]; [destruct Hkin|]. simpl in Hnd. inversion Hnd as [|? ? Hn Hd]; subst.
                   destruct Hk' as [<-|Hk'], Hkin as [<-|Hkin]; auto.
                   + exfalso. apply Hn. rewrite E. now apply in_map.
                   + exfalso. apply Hn. rewrite <- E. now apply in_map.
                 - right. congruence. }
               destruct Hdec as [->|Hne]; [eauto|].
               exfalso. apply Hm'. eapply Hother; eauto.
          * (* nothing below the literal child: the wildcard child, if any *)
            destruct (wild_of (c0 :: r) i kids) as [rw|].
            -- destruct Hwild as (kw & Hkw & Ht & Hselw). unfold sel_ok in *.
               destruct (found_of rw) as [[[d0 nm0] vs0]|].
               ++ destruct Hselw as (p & Hin & Hm & Hopt). exists p. split; [apply in_kids_entries; eauto|].
                  split; [exact Hm|]. intros p' e' Hin' Hm'. apply in_kids_entries in Hin'.
                  destruct Hin' as (k' & Hk' & Hin').
                  destruct (str_eqb_spec (nkey k') tok) as [Ek|Ek].
                  ** assert (k' = kw).
                     { clear - Hnd Hk' Hkw Ek Ht.
                       assert (Hh : khead k' = khead kw) by (unfold khead; now rewrite Ek, Ht).
                       induction kids as [|x xs IHx]; [destruct Hk'|]. simpl in Hnd.
                       inversion Hnd as [|? ? Hn Hd]; subst.
                       destruct Hk' as [<-|Hk'], Hkw as [<-|Hkw]; auto.
                       - exfalso. apply Hn. rewrite Hh. now apply in_map.
                       - exfalso. apply Hn. rewrite <- Hh. now apply in_map. }
                     subst k'. eauto.
                  ** exfalso. apply Hm'.
                     assert (Hdec : k' = k \/ k' <> k).
                     { destruct (N.eq_dec (khead k') (khead k)) as [E|E].
                       - left. clear - Hnd Hk' Hkin E.
                         induction kids as [|x xs IHx]; [destruct Hkin|]. simpl in Hnd.
                         inversion Hnd as [|? ? Hn Hd]; subst.
                         destruct Hk' as [<-|Hk'], Hkin as [<-|Hkin]; auto.
                         + exfalso. apply Hn. rewrite E. now apply in_map.
                         + exfalso. apply Hn. rewrite <- E. now apply in_map.
                       - right. congruence. }
                     destruct Hdec as [->|Hne]; [eauto | eapply Hother; eauto].
               ++ intros p' e' Hin'. apply in_kids_entries in Hin'. destruct Hin' as (k' & Hk' & Hin').
                  destruct (str_eqb_spec (nkey k') tok) as [Ek|Ek].
                  ** assert (k' = kw).
                     { clear - Hnd Hk' Hkw Ek Ht.
                       assert (Hh : khead k' = khead kw) by (unfold khead; now rewrite Ek, Ht).
                       induction kids as [|x xs IHx]; [destruct Hk'|]. simpl in Hnd.
                       inversion Hnd as [|? ? Hn Hd]; subst.
                       destruct Hk' as [<-|Hk'], Hkw as [<-|Hkw]; auto.
                       - exfalso. apply Hn. rewrite Hh. now apply in_map.
                       - exfalso. apply Hn. rewrite <- Hh. now apply in_map. }
                     subst k'. eauto.
                  ** assert (Hdec : k' = k \/ k' <> k).
                     { destruct (N.eq_dec (khead k') (khead k)) as [E|E].
                       - left. clear - Hnd Hk' Hkin E.
                         induction kids as [|x xs IHx]; [destruct Hkin|]. simpl in Hnd.
                         inversion Hnd as [|? ? Hn Hd]; subst.
                         destruct Hk' as [<-|Hk'], Hkin as [<-|Hkin]; auto.
                         + exfalso. apply Hn. rewrite E. now apply in_map.
                         + exfalso. apply Hn. rewrite <- E. now apply in_map.
                       - right. congruence. }
                     destruct Hdec as [->|Hne]; [eauto | eapply Hother; eauto].
            -- unfold sel_ok. simpl. intros p' e' Hin'. apply in_kids_entries in Hin'.
               destruct Hin' as (k' & Hk' & Hin').
               assert (Hnt' : nkey k' <> tok) by (now apply Hwild).
               assert (Hdec : k' = k \/ k' <> k).
               { destruct (N.eq_dec (khead k') (khead k)) as [E|E].
                 - left. clear - Hnd Hk' Hkin E.
                   induction kids as [|x xs IHx]; [destruct Hkin|]. simpl in Hnd.
                   inversion Hnd as [|? ? Hn Hd]; subst.
                   destruct Hk' as [<-|Hk'], Hkin as [<-|Hkin]; auto.
                   + exfalso. apply Hn. rewrite E. now apply in_map.
                   + exfalso. apply Hn. rewrite <- E. now apply in_map.
                 - right. congruence. }
               destruct Hdec as [->|Hne]; [eauto | eapply Hother; eauto].
        + (* not this child: continue the scan *)
          apply (IHks (pre0 ++ [k])).
          * rewrite <- app_assoc. exact Hsplit.
          * intros k0 Hin0. apply in_app_or in Hin0. destruct Hin0 as [Hin0|[<-|[]]]; [now apply Hpre|].
            intros [Hh Hc]. apply andb_false_iff in Ehit. destruct Ehit as [E|E].
            -- apply head_is_khead in Hh; [congruence | apply Hkok].
            -- simpl in E. apply negb_false_iff in E. apply N.eqb_eq in E. contradiction. }
    apply (Hscan [] kids eq_refl). intros k [].
Qed.

Lemma get_at_sel : forall n, wf n -> forall path i, sel_ok (paths n) path (get_at n path i).
Proof.
  induction n as [key d nm f h ks IH] using node_ind'. intros Hwf.
  inversion Hwf as [? ? ? ? ? ? Hkids Hok Hnd Hl]; subst.
  apply node_sel; auto.
  rewrite Forall_forall in *. intros k Hk. apply IH; auto.
Qed.

End GetSpec.
