(* C03a_proofs.v — the router (routerC: C01/C02) composed with the WSGI layer (C03):
   lemmas behind props/C03a.v.  routerC's results are imported, not re-proved. *)
From Coq Require Import String Ascii Lia ZifyBool.
From Verif Require Import lib.Base lib.Str lib.Utf8 lib.Html lib.PyIntParse model.RouteSpec model.Dispatch.
From Verif Require model.Router model.Wsgi.
From Verif Require Import model.App proofs.C03_proofs proofs.C03_wf.
From Verif Require proofs.C01_router proofs.C02_proofs.
From Verif Require gen.Gen.
Import Wsgi.

(* ------------------------------------------------------------------ *)
(* hooks that all return                                               *)
(* ------------------------------------------------------------------ *)

Lemma run_hooks_all_ret tag l st :
  all_ret (map snd l) = true -> exists ev st', run_hooks tag l st = (ev, st', None).
Proof.
  intros H. destruct (run_hooks tag l st) as [[ev st'] x] eqn:E.
  destruct (run_hooks_trace_gen tag l st ev st' x E) as [_ [_ Hx]]. rewrite (Hx H). eauto.
Qed.

Lemma map_snd_indexed {A} (l : list A) : map snd (indexed l) = l.
Proof. unfold indexed. apply map_snd_combine'. now rewrite seq_length. Qed.

Lemma all_ret_Forall hs : all_ret hs = true <-> Forall (fun h => fails_h h = false) hs.
Proof.
  unfold all_ret. rewrite forallb_forall, Forall_forall. split; intros H x Hx; specialize (H x Hx).
  - now apply negb_true_iff.
  - now apply negb_true_iff.
Qed.

Lemma after_call_list_all_ret p : all_ret (p_after p) = true -> all_ret (map snd (after_call_list p)) = true.
Proof.
  intros H. apply all_ret_Forall. apply all_ret_Forall in H.
  assert (G : Forall (fun ih : nat * hprog => fails_h (snd ih) = false) (after_call_list p)).
  { unfold after_call_list.
    assert (H0 : Forall (fun ih : nat * hprog => fails_h (snd ih) = false) (rev (indexed (p_after p)))).
    { apply Forall_forall. intros [i h] Hin. apply in_rev in Hin. unfold indexed in Hin.
      apply in_combine_r in Hin. rewrite Forall_forall in H. now apply H. }
    revert H0. generalize (rev (indexed (p_after p))).
    generalize (edits_of (ran_prefix (p_before p)
                          ++ (if all_ret (p_before p) then routing_progs (p_routing p) else []))).
    intros es. induction es as [|e t IH]; intros l Hl; simpl; [exact Hl|].
    apply IH. destruct e as [[|] j|[|] j]; simpl; try exact Hl.
    - clear IH. induction l as [|[i h] l IHl]; simpl; [constructor|].
      inversion Hl; subst. destruct (Nat.eqb i j); [assumption|]. constructor; auto.
    - constructor; [reflexivity|exact Hl]. }
  apply Forall_forall. intros h Hh. apply in_map_iff in Hh. destruct Hh as [[i h'] [<- Hin]].
  rewrite Forall_forall in G. exact (G _ Hin).
Qed.

(* with well-behaved hooks, what _handle returns is what routing + the handler produced *)
Lemma handle_hooks_ok p :
  all_ret (p_before p) = true -> all_ret (p_after p) = true ->
  exists evB stB evA,
    forall evM st2 res,
      route_and_call (p_routing p) stB = (evM, st2, res) ->
      exists st3,
        handle p = (evB ++ evM ++ evA, st3,
                    match res with
                    | inl o => o
                    | inr (XHttp e r) => OHttp e r
                    | inr (XExc j) => OHttp true (err_handle500 j)
                    | inr (XEsc b) => OEscape b
                    end)
        /\ count mid_event evB = 0 /\ count mid_event evA = 0.
Proof.
  intros Hb Ha. unfold handle, handle_from.
  assert (Hb' : all_ret (map snd (indexed (p_before p))) = true) by now rewrite map_snd_indexed.
  destruct (run_hooks_all_ret EvHookB (indexed (p_before p)) st_init Hb') as [evB [stB EB]].
  rewrite EB. exists evB, stB.
  destruct (run_hooks_events _ _ _ _ _ _ EB) as [ib ->].
  (* the after list does not depend on the state *)
  pose proof (after_call_list_all_ret p Ha) as Ha'.
  eexists. intros evM st2 res HM. rewrite HM.
  destruct (run_hooks_all_ret EvHookA (after_call_list p) st2 Ha') as [evA [st3 EA]].
  rewrite EA. destruct (run_hooks_events _ _ _ _ _ _ EA) as [ia ->].
  exists st3. split; [|split].
  - f_equal. f_equal. f_equal. f_equal.
    (* evA is determined by the list alone *)
    instantiate (1 := map EvHookA (map fst (firstn (ran (map snd (after_call_list p))) (after_call_list p)))).
    destruct (run_hooks_trace_gen EvHookA _ _ _ _ _ EA) as [E _]. exact E.
  - apply count_zero. intros e He. apply in_map_iff in He. destruct He as [i [<- _]]. reflexivity.
  - apply count_zero. intros e He. apply in_map_iff in He. destruct He as [i [<- _]]. reflexivity.
Qed.

(* ------------------------------------------------------------------ *)
(* an HTTPError without custom handler, through the casting loop       *)
(* ------------------------------------------------------------------ *)

Section CastErr.
Variable env : cenv.
Variable eh : Z -> option (resp -> ehres).

Lemma default_eh_shape r st pg st' :
  default_eh env r st = Some (pg, st') ->
  s_code st' = s_code st /\ s_line st' = s_line st /\ s_cs st' = s_cs st
  /\ (s_hs st' = s_hs st \/ s_hs st' = h_set n_content_type v_app_json (s_hs st)).
Proof.
  unfold default_eh. destruct (e_json env).
  - destruct (r_bjson r); [|discriminate]. intros H; inversion H; subst. simpl. auto.
  - destruct (html_page r (e_url env)); [|discriminate]. intros H; inversion H; subst. auto.
Qed.

Lemma step_body_str_shape s st :
  match step_body env eh (OStr s) st with
  | SDone _ st' _ => s_code st' = s_code st /\ s_line st' = s_line st /\ s_cs st' = s_cs st
                     /\ exists d, s_hs st' = h_setdefault n_content_length d (s_hs st)
  | SCont _ _ => False
  | SRaise => True
  end.
Proof.
  unfold step_body. destruct (falsy (OStr s)).
  - simpl. repeat split. eauto.
  - destruct (encode st s); [|exact I]. unfold done_bytes. simpl. repeat split. eauto.
Qed.

Lemma cast_err_no_handler fuel cnt r st :
  S cnt <= 1000 -> eh (r_code r) = None ->
  match cast env eh fuel cnt (OHttp true r) st with
  | CDone _ st' _ =>
      s_code st' = r_code r /\ s_line st' = r_line r /\ s_cs st' = s_cs (apply r st)
      /\ exists hs0 d, (hs0 = r_hs r \/ hs0 = h_set n_content_type v_app_json (r_hs r))
                       /\ s_hs st' = h_setdefault n_content_length d hs0
  | _ => True
  end.
Proof.
  intros Hc He. destruct fuel as [|f]; cbn [cast]; [exact I|].
  unfold step. destruct (Nat.ltb_spec 1000 cnt) as [?|_]; [lia|].
  unfold step_body. cbn [falsy]. rewrite He.
  destruct (default_eh env r (apply r st)) as [[pg st2]|] eqn:Hd; [|exact I].
  destruct (default_eh_shape _ _ _ _ Hd) as [A [B [C D]]].
  destruct f as [|f']; cbn [cast]; [exact I|].
  unfold step. destruct (Nat.ltb_spec 1000 (S cnt)) as [?|_]; [lia|].
  pose proof (step_body_str_shape pg st2) as G.
  destruct (step_body env eh (OStr pg) st2) as [o' st'|w st' b|]; [contradiction| |exact I].
  destruct G as [G1 [G2 [G3 [d G4]]]].
  rewrite G1, G2, G3, A, B, C. destruct r; simpl. repeat split.
  exists (s_hs st2), d. split; [|exact G4]. simpl in D. exact D.
Qed.
End CastErr.

(* ------------------------------------------------------------------ *)
(* the header list of such a response                                  *)
(* ------------------------------------------------------------------ *)

Lemma flatten_cons1 k a t l :
  flatten_headers ((k, [a]) :: t) = Some l ->
  exists v r, transcode a = Some v /\ flatten_headers t = Some r /\ l = (k, v) :: r.
Proof.
  cbn [flatten_headers flatten_vals]. destruct (transcode a) as [v|]; [|discriminate].
  destruct (flatten_headers t) as [r|]; [|discriminate]. intros H; inversion H; subst. eauto.
Qed.

Definition n_allow : str := Eval compute in lit "Allow".
Definition l405 : str := Eval compute in lit "405 Method Not Allowed".
Definition l404 : str := Eval compute in lit "404 Not Found".

Lemma headerlist_allow st hl a d hs0 :
  s_code st = 405%Z ->
  (hs0 = [(n_allow, [a])] \/ hs0 = h_set n_content_type v_app_json [(n_allow, [a])]) ->
  s_hs st = h_setdefault n_content_length d hs0 ->
  headerlist st = Some hl ->
  exists v, transcode a = Some v /\ forall v', In (n_allow, v') hl <-> v' = v.
Proof.
  intros Hc Hh Hs Hl. unfold headerlist in Hl. rewrite Hc in Hl.
  change (bad_headers_for 405) with (@None (list str)) in Hl. cbv beta iota in Hl.
  rewrite Hs in Hl.
  destruct (flatten_headers (h_setdefault n_content_length d hs0)) as [fl|] eqn:Ef; [|discriminate].
  destruct (cookie_headers (s_cs st)) as [ck|] eqn:Ec; [|discriminate].
  inversion Hl; subst hl. clear Hl.
  assert (Hfl : exists v r, transcode a = Some v /\ fl = (n_allow, v) :: r
                            /\ forall v', ~ In (n_allow, v') r).
  { destruct Hh as [-> | ->].
    - change (h_setdefault n_content_length d [(n_allow, [a])])
        with [(n_allow, [a]); (n_content_length, [d])] in Ef.
      destruct (flatten_cons1 _ _ _ _ Ef) as [v [r [Hv [Hr ->]]]]. exists v, r. repeat split; try assumption.
      intros v' Hin. destruct (flatten_headers_in _ _ _ _ Hr Hin) as [vs [v0 [A _]]].
      destruct A as [A|[]]. inversion A.
    - change (h_setdefault n_content_length d (h_set n_content_type v_app_json [(n_allow, [a])]))
        with [(n_allow, [a]); (n_content_type, [v_app_json]); (n_content_length, [d])] in Ef.
      destruct (flatten_cons1 _ _ _ _ Ef) as [v [r [Hv [Hr ->]]]]. exists v, r. repeat split; try assumption.
      intros v' Hin. destruct (flatten_headers_in _ _ _ _ Hr Hin) as [vs [v0 [A _]]].
      destruct A as [A|[A|[]]]; inversion A. }
  destruct Hfl as [v [r [Hv [-> Hr]]]]. exists v. split; [exact Hv|].
  intros v'. split.
  - intros Hin. apply in_app_or in Hin. destruct Hin as [[Heq|Hin]|Hin].
    + now inversion Heq.
    + exfalso. exact (Hr _ Hin).
    + apply in_app_or in Hin. destruct Hin as [Hin|Hin].
      * destruct (negb (h_mem n_content_type (h_setdefault n_content_length d hs0))); [|contradiction].
        destruct Hin as [Heq|[]]. inversion Heq.
      * pose proof (cookie_headers_in _ _ _ _ Ec Hin) as Hk. discriminate Hk.
  - intros ->. apply in_or_app. left. now left.
Qed.

(* the texts of the framework's 404 / 405 are the ones in the source (gen/Gen.v) *)
Lemma err404_text_from_source : In (lit "resolve", (404%Z, r_btext err404)) Gen.framework_errors.
Proof. vm_compute. tauto. Qed.
Lemma err405_text_from_source a : In (lit "resolve", (405%Z, r_btext (err405 a))) Gen.framework_errors.
Proof. vm_compute. tauto. Qed.

(* ------------------------------------------------------------------ *)
(* the application                                                     *)
(* ------------------------------------------------------------------ *)

Section AppThms.
Variable filt : fid -> str -> option (value * nat).

Lemma serve_app_is_wsgi A e :
  serve_app filt A e = wsgi (cenv_of e) (ap_eh A) (program_of filt A e).
Proof. reflexivity. Qed.

(* an HTTPError raised by Ombott.handler, no custom handler for its code, hooks that return *)
Lemma framework_error_on_the_wire A e r :
  all_ret (ap_before A) = true -> all_ret (ap_after A) = true ->
  ap_eh A (r_code r) = None ->
  (forall st, route_and_call (p_routing (program_of filt A e)) st = ([EvRouted], st, inr (XHttp true r))) ->
  (exists evH st, handle (program_of filt A e) = (evH, st, OHttp true r) /\ count mid_event evH = 0)
  /\ forall line hl x, In (EvStart line hl x) (all_events (serve_app filt A e)) ->
       (x = true /\ line = l_catchall)
       \/ (x = false /\ line = r_line r
           /\ exists st' hs0 d, headerlist st' = Some hl /\ s_code st' = r_code r
                /\ (hs0 = r_hs r \/ hs0 = h_set n_content_type v_app_json (r_hs r))
                /\ s_hs st' = h_setdefault n_content_length d hs0).
Proof.
  intros Hb Ha He Hr.
  destruct (handle_hooks_ok (program_of filt A e) Hb Ha) as [evB [stB [evA Hh]]].
  destruct (Hh _ _ _ (Hr stB)) as [st3 [Hhandle [HB HA]]].
  split.
  - eexists _, _. split; [exact Hhandle|]. rewrite !count_app, HB, HA. reflexivity.
  - intros line hl x Hin. unfold serve_app in Hin.
    destruct (start_origin _ _ _ line hl x Hin)
      as [[-> [-> _]]|[-> [evH [st0 [o [w0 [st [wrote [Hh' [Hc [Hl [-> _]]]]]]]]]]]].
    + left. split; reflexivity.
    + right. rewrite Hhandle in Hh'. inversion Hh'; subst evH st0 o.
      pose proof (cast_err_no_handler (cenv_of e) (ap_eh A) cast_fuel 1 r st3 ltac:(lia) He) as G.
      rewrite Hc in G. destruct G as [G1 [G2 [_ [hs0 [d [G4 G5]]]]]].
      split; [reflexivity|]. split; [exact G2|]. exists st, hs0, d. auto.
Qed.

(* 405: C02's Allow, on the wire *)
Lemma app_405 A e a :
  Router.to_route filt (ap_router A) (Router.req_path (en_path e)) (en_method e) = Router.R405 a ->
  all_ret (ap_before A) = true -> all_ret (ap_after A) = true -> ap_eh A 405%Z = None ->
  (exists d nm vs hs rt,
      Router.get filt true (Router.tree (ap_router A)) (Router.strip_sep (Router.req_path (en_path e)))
        = Router.GFound d nm vs hs
      /\ nth_error (Router.heap (ap_router A)) d = Some rt
      /\ a = allow (Router.r_methods rt)
      /\ forall c, In c (cands (upper (en_method e))) -> mt_get (Router.r_methods rt) c = None)
  /\ (exists evH st, handle (program_of filt A e) = (evH, st, OHttp true (err405 a)) /\ count mid_event evH = 0)
  /\ forall line hl x, In (EvStart line hl x) (all_events (serve_app filt A e)) ->
       (x = true /\ line = l_catchall)
       \/ (x = false /\ line = l405
           /\ exists v, transcode a = Some v /\ forall v', In (n_allow, v') hl <-> v' = v).
Proof.
  intros Hr Hb Ha He. split.
  - exact (C02_proofs.resolve_405_lemma filt _ _ _ a Hr).
  - assert (Hp : forall st, route_and_call (p_routing (program_of filt A e)) st
                            = ([EvRouted], st, inr (XHttp true (err405 a)))).
    { intros st. unfold program_of, route_request. cbn [p_routing]. rewrite Hr. reflexivity. }
    destruct (framework_error_on_the_wire A e (err405 a) Hb Ha He Hp) as [H1 H2].
    split; [exact H1|]. intros line hl x Hin.
    destruct (H2 line hl x Hin) as [Hc|[-> [-> [st' [hs0 [d [Hl [Hcode [Hhs0 Hhs]]]]]]]]]; [left; exact Hc|].
    right. split; [reflexivity|]. split; [reflexivity|].
    eapply (headerlist_allow st' hl a d hs0); eassumption.
Qed.

(* no route hooks fire and no handler runs only if routing found no route (or the verb is not allowed) *)
Lemma run_hooks_some_nonempty tag l st ev st' x :
  run_hooks tag l st = (ev, st', Some x) -> ev <> [].
Proof.
  revert st ev st'. induction l as [|[i h] t IH]; intros st ev st' H; simpl in H; [discriminate|].
  destruct (run_prog h st) as [st1 [o|e]].
  - destruct (run_hooks tag t st1) as [[ev2 st2] x2]. inversion H; subst. discriminate.
  - inversion H; subst. discriminate.
Qed.

Lemma route_ok_has_mid rh h st ev st' r :
  route_and_call (ROk rh h) st = (ev, st', r) -> 1 <= count mid_event ev.
Proof.
  unfold route_and_call.
  destruct (run_hooks EvRouteHook (indexed rh) st) as [[ev1 st1] [x|]] eqn:Hr.
  - intros H; inversion H; subst. pose proof (run_hooks_some_nonempty _ _ _ _ _ _ Hr) as Hne.
    destruct (run_hooks_events _ _ _ _ _ _ Hr) as [idx ->]. destruct idx as [|i idx]; [exfalso; apply Hne; reflexivity|].
    unfold count. simpl. lia.
  - destruct (run_prog h st1) as [st2 r2]. intros H; inversion H; subst.
    change (EvRouted :: ev1 ++ [EvHandler]) with ([EvRouted] ++ ev1 ++ [EvHandler]).
    rewrite !count_app. unfold count at 3. simpl. lia.
Qed.

(* routing agrees with the rule-by-rule spec (C01), and the handler gets the spec's kwargs *)
Lemma app_spec_kwargs cs A e :
  Forall C01_router.add_cmd cs -> ap_router A = Router.exec_cmds Router.router0 cs ->
  let rp := Router.req_path (en_path e) in
  match spec filt (C01_router.rules_of (ap_router A)) (Router.strip_sep rp) with
  | None => exists vs hs i, route_request filt A e = Router.R404 vs hs i
  | Some (q, d, vs) =>
      exists rt hs,
        nth_error (Router.heap (ap_router A)) d = Some rt
        /\ q = pat_of (Router.r_pattern rt) (Router.r_filters rt)
        /\ match dispatch_verb (Router.r_methods rt) (en_method e) with
           | DCall m (h, mn) =>
               let kw := Router.make_params (match mn with [] => Router.r_names rt | _ :: _ => mn end) vs in
               route_request filt A e = Router.ROk d m h kw hs
               /\ program_of filt A e
                  = mkProg (ap_before A) (ap_after A)
                           (ROk (map (fun ph => ap_hook A (snd ph) (fst ph)) (Router.fired_simple rp hs))
                                (ap_handler A h kw))
           | D405 a =>
               route_request filt A e = Router.R405 a /\ a = allow (Router.r_methods rt)
               /\ program_of filt A e = mkProg (ap_before A) (ap_after A) (R405 a)
           end
  end.
Proof.
  intros Hcs HR rp.
  pose proof (C01_router.resolve_eq_spec_script_lemma filt cs rp (cands (upper (en_method e))) Hcs) as H.
  cbv zeta in H. rewrite <- HR in H.
  destruct (spec filt (C01_router.rules_of (ap_router A)) (Router.strip_sep rp)) as [[[q d] vs]|].
  - destruct H as [rt [hs [H1 [_ [H2 H3]]]]]. exists rt, hs. split; [exact H1|]. split; [exact H2|].
    unfold dispatch_verb.
    assert (Hrr : route_request filt A e
                  = Router.resolve filt (ap_router A) rp (cands (upper (en_method e)))) by reflexivity.
    destruct (dispatch_on (Router.r_methods rt) (cands (upper (en_method e)))) as [m [h mn]|a] eqn:Ed.
    + cbv zeta. split; [rewrite Hrr; exact H3|].
      unfold program_of. fold rp. rewrite Hrr, H3. reflexivity.
    + split; [rewrite Hrr; exact H3|]. split.
      * unfold dispatch_on in Ed. destruct (first_cand (Router.r_methods rt) (cands (upper (en_method e)))) as [[m en]|];
          inversion Ed. reflexivity.
      * unfold program_of. fold rp. rewrite Hrr, H3. reflexivity.
  - exact H.
Qed.

Lemma l405_neq_l404 : l405 <> l404.
Proof. discriminate. Qed.

(* 404 on the wire (framework's own: no route hook, no handler ran) <=> no rule matches *)
Lemma app_404 cs A e :
  Forall C01_router.add_cmd cs -> ap_router A = Router.exec_cmds Router.router0 cs ->
  all_ret (ap_before A) = true -> all_ret (ap_after A) = true ->
  ap_eh A 404%Z = None -> ap_eh A 405%Z = None ->
  (forall vs hs i, route_request filt A e = Router.R404 vs hs i ->
                   Router.fired_partial (Router.req_path (en_path e)) hs = None) ->
  let sp := spec filt (C01_router.rules_of (ap_router A)) (Router.strip_sep (Router.req_path (en_path e))) in
  (sp = None ->
     (exists evH st, handle (program_of filt A e) = (evH, st, OHttp true err404) /\ count mid_event evH = 0)
     /\ forall line hl x, In (EvStart line hl x) (all_events (serve_app filt A e)) ->
          (x = true /\ line = l_catchall) \/ (x = false /\ line = l404))
  /\ (forall hl, In (EvStart l404 hl false) (all_events (serve_app filt A e)) ->
                 count mid_event (fst (fst (handle (program_of filt A e)))) = 0 -> sp = None).
Proof.
  intros Hcs HR Hb Ha E4 E5 Hnp sp.
  pose proof (app_spec_kwargs cs A e Hcs HR) as K. cbv zeta in K. fold sp in K.
  split.
  - intros Hs. rewrite Hs in K. destruct K as [vs [hs [i Hr]]].
    assert (Hp : forall st, route_and_call (p_routing (program_of filt A e)) st
                            = ([EvRouted], st, inr (XHttp true err404))).
    { intros st. unfold program_of. cbn [p_routing]. rewrite Hr. cbn [routing_of].
      rewrite (Hnp _ _ _ Hr). reflexivity. }
    destruct (framework_error_on_the_wire A e err404 Hb Ha E4 Hp) as [H1 H2].
    split; [exact H1|]. intros line hl x Hin.
    destruct (H2 line hl x Hin) as [Hc|[-> [-> _]]]; [left; exact Hc|right; split; reflexivity].
  - intros hl Hin Hmid. destruct sp as [[[q d] vs]|] eqn:Es; [exfalso|reflexivity].
    destruct K as [rt [hs [_ [_ K]]]].
    destruct (dispatch_verb (Router.r_methods rt) (en_method e)) as [m [h mn]|a].
    + destruct K as [_ Kp]. cbv zeta in Kp.
      destruct (handle_hooks_ok (program_of filt A e) Hb Ha) as [evB [stB [evA Hh]]].
      rewrite Kp in Hh. cbn [p_routing] in Hh.
      destruct (route_and_call
                  (ROk (map (fun ph => ap_hook A (snd ph) (fst ph))
                            (Router.fired_simple (Router.req_path (en_path e)) hs))
                       (ap_handler A h (Router.make_params
                                          (match mn with [] => Router.r_names rt | _ :: _ => mn end) vs))) stB)
        as [[evM st2] res] eqn:Er.
      destruct (Hh _ _ _ eq_refl) as [st3 [Hhandle _]].
      rewrite Kp in Hmid. rewrite Hhandle in Hmid. cbn [fst] in Hmid.
      pose proof (route_ok_has_mid _ _ _ _ _ _ Er) as G.
      rewrite !count_app in Hmid. lia.
    + destruct K as [Kr [_ _]].
      destruct (app_405 A e a Kr Hb Ha E5) as [_ [_ H3]].
      destruct (H3 l404 hl false Hin) as [[Hx _]|[_ [Hl _]]]; [discriminate|].
      exact (l405_neq_l404 (eq_sym Hl)).
Qed.

End AppThms.
