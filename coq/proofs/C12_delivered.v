(* C12_delivered.v — a delivered field is always the complete content of a data
   section that the multipart parser reported (never a truncated one). *)
From Verif Require Import lib.Base lib.Str lib.Utf8 gen.Gen.
From Verif Require Import model.Stream model.Body model.MultipartRef model.Multipart model.Fields model.BodyPipeline.
Local Open Scope Z_scope.

(* what a FieldStorage holds, relative to its data section [ds, de) *)
Definition field_deliv (body : bytes) (ds de : Z) (f : field) : Prop :=
  match f_filename f with
  | Some _ => f_file f = Some (ds, de) /\ f_value f = None
  | None =>
    f_file f = None /\
    exists v, f_value f = Some v /\
              (if de - ds =? 0 then v = [] else utf8_dec (read_at body ds (de - ds)) = Some v)
  end.

Lemma field_read_deliv body hs he ds de mr f hr :
  field_read body (hs, he) (ds, de) mr = inl (f, hr) -> field_deliv body ds de f.
Proof.
  unfold field_read.
  destruct (mr <? he - hs); [discriminate|].
  destruct (hs <? 0); [discriminate|].
  destruct (utf8_dec _) as [hraw|]; [|discriminate].
  destruct (read_headers _ _ _ _ _) as [[[[[n|] fn] ct] hd]|]; try discriminate.
  destruct fn as [fn|].
  - intros [= <- _]. unfold field_deliv. cbn [f_filename f_file f_value]. split; reflexivity.
  - destruct (de - ds =? 0) eqn:E0.
    + intros [= <- _]. unfold field_deliv. cbn [f_filename f_file f_value]. split; [reflexivity|].
      exists []. rewrite E0. split; reflexivity.
    + destruct (mr <? _); [discriminate|]. destruct (ds <? 0); [discriminate|].
      destruct (utf8_dec (read_at body ds (de - ds))) as [v|] eqn:Ev; [|discriminate].
      intros [= <- _]. unfold field_deliv. cbn [f_filename f_file f_value]. split; [reflexivity|].
      exists v. rewrite E0. split; [reflexivity | exact Ev].
Qed.

Lemma iter_pairs_deliv body :
  forall n m mr acc fl, (length m <= n)%nat ->
    iter_pairs body m mr acc = IOk fl ->
    forall f, In f fl -> In f acc \/ exists ds de, In (Data, ds, de) m /\ field_deliv body ds de f.
Proof.
  induction n as [|n IH]; intros m mr acc fl Hn.
  - destruct m; [|simpl in Hn; lia]. cbn [iter_pairs]. intros [= <-] f Hf. left. now apply in_rev.
  - destruct m as [|[[hk hs] he] m]; [cbn [iter_pairs]; intros [= <-] f Hf; left; now apply in_rev|].
    cbn [iter_pairs]. destruct hk; [|discriminate].
    destruct m as [|[[dk ds] de] m]; [discriminate|].
    destruct dk; [discriminate|].
    destruct (field_read body (hs, he) (ds, de) mr) as [[f0 hr]|e] eqn:E; [|discriminate].
    intros H f Hf.
    destruct (IH m (mr - hr) (f0 :: acc) fl ltac:(simpl in Hn; lia) H f Hf) as [[<-|Hin]|(ds' & de' & Hin & Hd)].
    + right. exists ds, de. split; [right; left; reflexivity | now apply (field_read_deliv _ _ _ _ _ _ _ _ E)].
    + now left.
    + right. exists ds', de'. split; [right; right; exact Hin | exact Hd].
Qed.

(* the preamble section is never delivered: fields come from tl of the list *)
Lemma iter_items_deliv body m mr fl :
  iter_items body m mr = IOk fl ->
  forall f, In f fl -> exists ds de, In (Data, ds, de) (tl m) /\ field_deliv body ds de f.
Proof.
  unfold iter_items. destruct m as [|[[k a] b] m]; [intros [= <-] f []|].
  destruct k; [discriminate|]. destruct (0 <? b); [discriminate|].
  intros H f Hf. destruct (iter_pairs_deliv body (length m) m mr [] fl (le_n _) H f Hf) as [[]|H']. exact H'.
Qed.

(* ---- items of the dictionaries ---- *)
Definition dval_items (v : dval) : list item := match v with Single x => [x] | Multi xs => xs end.
Definition dict_items (d : fdict) : list item := flat_map (fun kv => dval_items (snd kv)) d.

Lemma dict_add_items d k it x :
  In x (dict_items (dict_add d k it)) -> In x (dict_items d) \/ x = it.
Proof.
  induction d as [|[k0 v] d IH]; cbn [dict_add dict_items flat_map].
  - cbn [snd dval_items app]. intros [ <- | [] ]. now right.
  - destruct (str_eqb k0 k).
    + cbn [flat_map snd]. rewrite !in_app_iff. intros [H|H]; [|left; now right].
      destruct v as [y|ys]; cbn [dval_items] in *.
      * destruct H as [ <- | [ <- | [] ] ]; [left; left; now left | now right].
      * apply in_app_iff in H. destruct H as [ H | [ <- | [] ] ]; [left; now left | now right].
    + cbn [flat_map snd]. rewrite !in_app_iff. intros [H|H]; [left; now left|].
      destruct (IH H) as [H'|H']; [left; now right | now right].
Qed.

Definition add1 (d : fdict) (kv : str * item) := dict_add d (fst kv) (snd kv).

Lemma fold_add_items l : forall d x,
  In x (dict_items (fold_left add1 l d)) -> In x (dict_items d) \/ In x (map snd l).
Proof.
  induction l as [|kv l IH]; intros d x H; [now left|].
  cbn [fold_left] in H. destruct (IH _ _ H) as [H'|H'].
  - unfold add1 in H'. destruct (dict_add_items _ _ _ _ H') as [H2| ->]; [now left | right; now left].
  - right. now right.
Qed.

Definition item_of_field (f : field) : item :=
  if is_nonempty (f_filename f)
  then IFile (f_name f) (match f_filename f with Some x => x | None => [] end) (f_ctype f)
             (match f_file f with Some w => w | None => (0, 0) end)
  else IText (f_value f).

Definition all_items (d : post_dicts) : list item :=
  dict_items (d_post d) ++ dict_items (d_forms d) ++ dict_items (d_files d).

Lemma collect_items fl : forall acc x,
  In x (all_items (fold_left collect_one fl acc)) ->
  In x (all_items acc) \/ exists f, In f fl /\ x = item_of_field f.
Proof.
  induction fl as [|f fl IH]; intros acc x H; [now left|].
  cbn [fold_left] in H. destruct (IH _ _ H) as [H'|(f' & Hf & ->)].
  - unfold collect_one in H'. fold (item_of_field f) in H'.
    unfold all_items in *. rewrite !in_app_iff in *.
    assert (St : forall d, In x (dict_items (dict_add d (f_name f) (item_of_field f))) ->
                           In x (dict_items d) \/ x = item_of_field f) by (intros d; apply dict_add_items).
    unfold item_of_field in H', St.
    destruct (is_nonempty (f_filename f)); cbn [d_post d_forms d_files] in H';
      destruct H' as [H'|[H'|H']];
      try (apply St in H'; destruct H' as [H'| ->]; [|right; exists f; split; [now left | unfold item_of_field]]);
      try (left; tauto).
    all: try (destruct (is_nonempty (f_filename f)) eqn:E; try reflexivity).
    all: try (left; tauto).
  - right. exists f'. split; [now right | reflexivity].
Qed.
