(* C12_delivered.v — a delivered field is always the complete content of a data
   section that the multipart parser reported (never a truncated one). *)
From Verif Require Import lib.Base lib.Str lib.Utf8 gen.Gen.
From Verif Require Import model.Stream model.Body model.MultipartRef model.Multipart model.Fields model.BodyPipeline.
Local Open Scope Z_scope.

(* what a FieldStorage holds, relative to its data section [ds, de) *)
Definition field_deliv (body : bytes) (ds de : Z) (f : field) : Prop :=
  match f_filename f with
  | Some _ => f_file f = Some (ds, de) /\ f_value f = None
  | None =>
    f_file f = None /\
    exists v, f_value f = Some v /\
              (if de - ds =? 0 then v = [] else utf8_dec (read_at body ds (de - ds)) = Some v)
  end.

Lemma field_read_deliv body hs he ds de mr f hr :
  field_read body (hs, he) (ds, de) mr = inl (f, hr) -> field_deliv body ds de f.
Proof.
  unfold field_read.
  destruct (mr <? he - hs); [discriminate|].
  destruct (hs <? 0); [discriminate|].
  destruct (utf8_dec _) as [hraw|]; [|discriminate].
  destruct (read_headers _ _ _ _ _) as [[[[[n|] fn] ct] hd]|]; try discriminate.
  destruct fn as [fn|].
  - intros [= <- _]. unfold field_deliv. cbn [f_filename f_file f_value]. split; reflexivity.
  - destruct (de - ds =? 0) eqn:E0.
    + intros [= <- _]. unfold field_deliv. cbn [f_filename f_file f_value]. split; [reflexivity|].
      exists []. rewrite E0. split; reflexivity.
    + destruct (mr <? _); [discriminate|]. destruct (ds <? 0); [discriminate|].
      destruct (utf8_dec (read_at body ds (de - ds))) as [v|] eqn:Ev; [|discriminate].
      intros [= <- _]. unfold field_deliv. cbn [f_filename f_file f_value]. split; [reflexivity|].
      exists v. rewrite E0. split; [reflexivity | exact Ev].
Qed.

Lemma iter_pairs_deliv body :
  forall n m mr acc fl, (length m <= n)%nat ->
    iter_pairs body m mr acc = IOk fl ->
    forall f, In f fl -> In f acc \/ exists ds de, In (Data, ds, de) m /\ field_deliv body ds de f.
Proof.
  induction n as [|n IH]; intros m mr acc fl Hn.
  - destruct m; [|simpl in Hn; lia]. cbn [iter_pairs]. intros [= <-] f Hf. left. now apply in_rev.
  - destruct m as [|[[hk hs] he] m]; [cbn [iter_pairs]; intros [= <-] f Hf; left; now apply in_rev|].
    cbn [iter_pairs]. destruct hk; [|discriminate].
    destruct m as [|[[dk ds] de] m]; [discriminate|].
    destruct dk; [discriminate|].
    destruct (field_read body (hs, he) (ds, de) mr) as [[f0 hr]|e] eqn:E; [|discriminate].
    intros H f Hf.
    destruct (IH m (mr - hr) (f0 :: acc) fl ltac:(simpl in Hn; lia) H f Hf) as [[<-|Hin]|(ds' & de' & Hin & Hd)].
    + right. exists ds, de. split; [right; left; reflexivity | now apply (field_read_deliv _ _ _ _ _ _ _ _ E)].
    + now left.
    + right. exists ds', de'. split; [right; right; exact Hin | exact Hd].
Qed.

(* the preamble section is never delivered: fields come from tl of the list *)
Lemma iter_items_deliv body m mr fl :
  iter_items body m mr = IOk fl ->
  forall f, In f fl -> exists ds de, In (Data, ds, de) (tl m) /\ field_deliv body ds de f.
Proof.
  unfold iter_items. destruct m as [|[[k a] b] m]; [intros [= <-] f []|].
  destruct k; [discriminate|]. destruct (0 <? b); [discriminate|].
  intros H f Hf. destruct (iter_pairs_deliv body (length m) m mr [] fl (le_n _) H f Hf) as [[]|H']. exact H'.
Qed.

(* ---- items of the dictionaries ---- *)
Definition dval_items (v : dval) : list item := match v with Single x => [x] | Multi xs => xs end.
Definition dict_items (d : fdict) : list item := flat_map (fun kv => dval_items (snd kv)) d.

Lemma dict_add_items d k it x :
  In x (dict_items (dict_add d k it)) -> In x (dict_items d) \/ x = it.
Proof.
  induction d as [|[k0 v] d IH]; cbn [dict_add dict_items flat_map].
  - cbn [snd dval_items app]. intros [ <- | [] ]. now right.
  - destruct (str_eqb k0 k).
    + cbn [flat_map snd]. rewrite !in_app_iff. intros [H|H]; [|left; now right].
      destruct v as [y|ys]; cbn [dval_items] in *.
      * destruct H as [ <- | [ <- | [] ] ]; [left; left; now left | now right].
      * apply in_app_iff in H. destruct H as [ H | [ <- | [] ] ]; [left; now left | now right].
    + cbn [flat_map snd]. rewrite !in_app_iff. intros [H|H]; [left; now left|].
      destruct (IH H) as [H'|H']; [left; now right | now right].
Qed.

Definition add1 (d : fdict) (kv : str * item) := dict_add d (fst kv) (snd kv).

Lemma fold_add_items l : forall d x,
  In x (dict_items (fold_left add1 l d)) -> In x (dict_items d) \/ In x (map snd l).
Proof.
  induction l as [|kv l IH]; intros d x H; [now left|].
  cbn [fold_left] in H. destruct (IH _ _ H) as [H'|H'].
  - unfold add1 in H'. destruct (dict_add_items _ _ _ _ H') as [H2| ->]; [now left | right; now left].
  - right. now right.
Qed.

Definition item_of_field (f : field) : item :=
  if is_nonempty (f_filename f)
  then IFile (f_name f) (match f_filename f with Some x => x | None => [] end) (f_ctype f)
             (match f_file f with Some w => w | None => (0, 0) end)
  else IText (f_value f).

Definition all_items (d : post_dicts) : list item :=
  dict_items (d_post d) ++ dict_items (d_forms d) ++ dict_items (d_files d).

Lemma collect_one_items acc f x :
  In x (all_items (collect_one acc f)) -> In x (all_items acc) \/ x = item_of_field f.
Proof.
  unfold collect_one, all_items, item_of_field.
  destruct (is_nonempty (f_filename f)); cbn [d_post d_forms d_files]; rewrite !in_app_iff;
    intros [H|[H|H]]; try (apply dict_add_items in H; destruct H as [H| ->]);
    (left; tauto) || (right; reflexivity).
Qed.

Lemma collect_items fl : forall acc x,
  In x (all_items (fold_left collect_one fl acc)) ->
  In x (all_items acc) \/ exists f, In f fl /\ x = item_of_field f.
Proof.
  induction fl as [|f fl IH]; intros acc x H; [now left|].
  cbn [fold_left] in H. destruct (IH _ _ H) as [H'|(f' & Hf & ->)].
  - destruct (collect_one_items acc f x H') as [H2| ->]; [now left|].
    right. exists f. split; [now left | reflexivity].
  - right. exists f'. split; [now right | reflexivity].
Qed.

(* ------------------------------------------------------------------ *)
Definition delivered_ok (body : bytes) (secs : list section) (it : item) : Prop :=
  match it with
  | IText (Some v) =>
    exists ds de, In (Data, ds, de) (tl secs) /\
                  (if de - ds =? 0 then v = [] else utf8_dec (read_at body ds (de - ds)) = Some v)
  | IText None => True                         (* empty file name (F10): no value is delivered *)
  | IFile _ _ _ w => In (Data, fst w, snd w) (tl secs)
  end.

Lemma field_deliv_item body secs ds de f :
  In (Data, ds, de) (tl secs) -> field_deliv body ds de f -> delivered_ok body secs (item_of_field f).
Proof.
  intros Hin Hd. unfold field_deliv in Hd. unfold item_of_field.
  destruct (f_filename f) as [fn|].
  - destruct Hd as [Hf Hv]. destruct fn as [|c fn]; cbn [is_nonempty].
    + rewrite Hv. exact I.
    + rewrite Hf. exact Hin.
  - cbn [is_nonempty]. destruct Hd as [_ (v & -> & Hv)]. cbn [delivered_ok]. now exists ds, de.
Qed.

Lemma raise_not_ok cls v : raise_ cls <> Ok v.
Proof.
  unfold raise_, raise_in. destruct (emap_get _ cls); [discriminate|].
  destruct (emap_get _ n_RequestError); discriminate.
Qed.

Section Delivered.
Variable jk : bytes -> option jkind.
Variable cfg : config.
Variable ctype : str.
Variable fr : framing.
Variable s : stream.

Lemma body_stage_inr o v : body_stage cfg ctype fr s = inr o -> o <> Ok v.
Proof.
  unfold body_stage.
  destruct (boundary_match ctype) as [b|].
  - destruct (utf8_encode b) as [B|]; [|intros [= <-]; discriminate].
    destruct (contains_char N.eqb CR B); [intros [= <-]; apply raise_not_ok|].
    destruct (content_length fr) as [cl|]; [|intros [= <-]; discriminate].
    destruct (read_parts cfg cl (fr_te fr) s); intros [= <-]; (apply raise_not_ok || discriminate).
  - destruct (content_length fr) as [cl|]; [|intros [= <-]; discriminate].
    destruct (read_parts cfg cl (fr_te fr) s); intros [= <-]; (apply raise_not_ok || discriminate).
Qed.

Lemma body_stage_inl body m :
  body_stage cfg ctype fr s = inl (body, Some m) ->
  exists b B cl parts, boundary_match ctype = Some b /\ utf8_encode b = Some B /\
                    contains_char N.eqb CR B = false /\ content_length fr = Some cl /\
                    read_parts cfg cl (fr_te fr) s = RDone parts /\ body = concat parts /\ m = markup_chunks B parts.
Proof.
  unfold body_stage.
  destruct (boundary_match ctype) as [b|] eqn:Eb.
  - destruct (utf8_encode b) as [B|] eqn:EB; [|discriminate].
    destruct (contains_char N.eqb CR B) eqn:ECR; [discriminate|].
    destruct (content_length fr) as [cl|] eqn:Ecl; [|discriminate].
    destruct (read_parts cfg cl (fr_te fr) s) as [parts| | |] eqn:E; try discriminate.
    intros [= <- <-]. exists b, B, cl, parts. repeat split; assumption || reflexivity.
  - destruct (content_length fr) as [cl|]; [|discriminate].
    destruct (read_parts cfg cl (fr_te fr) s); discriminate.
Qed.

Lemma get_body_string_inr o v : get_body_string cfg ctype fr s = inr o -> o <> Ok v.
Proof.
  unfold get_body_string. destruct (body_stage cfg ctype fr s) as [[body m]|o'] eqn:E.
  - destruct (content_length fr) as [cl|]; [|intros [= <-]; discriminate].
    cbv zeta. destruct (_ <? _); [intros [= <-]; apply raise_not_ok|].
    destruct (_ <? _); [intros [= <-]; apply raise_not_ok | discriminate].
  - intros [= <-]. now apply (body_stage_inr o').
Qed.

Lemma json_prop_not_mp d : json_prop jk cfg ctype fr s <> Ok (VMultipart d).
Proof.
  unfold json_prop. destruct (str_eqb _ s_app_json); [|discriminate].
  destruct (get_body_string cfg ctype fr s) as [b|o] eqn:E.
  - destruct b; [discriminate|]. destruct (jk _); [discriminate | apply raise_not_ok].
  - now apply (get_body_string_inr o).
Qed.

Theorem delivered_fields_complete a d :
  process jk cfg ctype fr s a = Ok (VMultipart d) ->
  exists b B cl parts,
    boundary_match ctype = Some b /\ utf8_encode b = Some B /\ contains_char N.eqb CR B = false /\
    content_length fr = Some cl /\ read_parts cfg cl (fr_te fr) s = RDone parts /\
    forall it, In it (all_items d) ->
               delivered_ok (concat parts) (fst (markup_chunks B parts)) it.
Proof.
  assert (Post : post_prop jk cfg ctype fr s = Ok (VMultipart d) ->
                 exists b B cl parts,
                   boundary_match ctype = Some b /\ utf8_encode b = Some B /\ contains_char N.eqb CR B = false /\
                   content_length fr = Some cl /\ read_parts cfg cl (fr_te fr) s = RDone parts /\
                   forall it, In it (all_items d) -> delivered_ok (concat parts) (fst (markup_chunks B parts)) it).
  { unfold post_prop. destruct (negb _).
    - destruct (prefixb s_app_json _).
      + pose proof (json_prop_not_mp d) as Hj.
        destruct (json_prop jk cfg ctype fr s) as [v|c|w]; try discriminate.
        destruct v as [x|[[| |]|]| |k|d']; try discriminate; try (intros H; now apply raise_not_ok in H).
        intros [= ->]. now elim Hj.
      + destruct (get_body_string cfg ctype fr s) as [x|o] eqn:E; [discriminate|].
        intros H. now apply (get_body_string_inr o _ E) in H.
    - destruct (body_stage cfg ctype fr s) as [[body [m|]]|o] eqn:E.
      + destruct (snd m) as [e|] eqn:Em; [intros H; now apply raise_not_ok in H|].
        destruct (iter_items body (fst m) (Z.of_nat (c_memfile cfg))) as [fs|[| |]|] eqn:Ei;
          try discriminate; try (intros H; now apply raise_not_ok in H).
        intros [= <-].
        destruct (body_stage_inl body m E) as (b & B & cl & parts & Hb & HB & HCR & Hcl & Hr & -> & ->).
        exists b, B, cl, parts. repeat split; try assumption.
        intros it Hit. unfold collect_fields in Hit.
        destruct (collect_items fs _ it Hit) as [H0|(f & Hf & ->)].
        * unfold all_items in H0. cbn in H0. tauto.
        * destruct (iter_items_deliv _ _ _ _ Ei f Hf) as (ds & de & Hin & Hd).
          now apply (field_deliv_item _ _ ds de).
      + intros H. now apply raise_not_ok in H.
      + intros H. now apply (body_stage_inr o _ E) in H. }
  destruct a; cbn [process]; try exact Post.
  - intros H. now apply json_prop_not_mp in H.
  - unfold body_prop. destruct (body_stage cfg ctype fr s) as [[body m]|o] eqn:E; [discriminate|].
    intros H. now apply (body_stage_inr o _ E) in H.
Qed.

End Delivered.

(* ------------------------------------------------------------------ *)
(* in the one-piece scanner, every data section after the preamble ends exactly
   where a delimiter CRLF--B starts: a truncated part is never reported *)
Lemma scan_delim_closed tok body :
  forall fuel a k ds de,
    In (k, ds, de) (fst (scan_delim fuel tok body a)) -> k = Data ->
    exists q, de = Z.of_nat q /\ prefixb tok (skipn q body) = true.
Proof.
  induction fuel as [|f IH]; intros a k ds de; cbn [scan_delim]; [intros []|].
  destruct (skipn a body) as [|c1 [|c2 r]]; try (intros []).
  - destruct (_ || _)%bool; intros [].
  - destruct (_ && _)%bool.
    + destruct (findb H4 (skipn (a + 2) body)) as [e|]; [|intros []].
      destruct (findb tok (skipn (a + 2 + e + 4) body)) as [q|] eqn:Eq.
      * unfold cons_secs. cbn [fst app]. intros [H|[H|H]] Hk.
        -- injection H as <- _ _. discriminate.
        -- injection H as _ _ <-. exists (a + 2 + e + 4 + q)%nat. split; [reflexivity|].
           apply findb_some in Eq. destruct Eq as [Hp _]. rewrite ListX.skipn_skipn in Hp. exact Hp.
        -- now apply (IH _ k ds de H).
      * cbn [fst]. intros [H|[]] Hk. injection H as <- _ _. discriminate.
    + destruct (_ && _)%bool; intros [].
Qed.

Theorem ref_data_closed B body k ds de :
  In (k, ds, de) (tl (fst (ref B body))) -> k = Data ->
  exists q, de = Z.of_nat q /\ prefixb (token B) (skipn q body) = true.
Proof.
  unfold ref. destruct body as [|c body']; [intros []|].
  destruct (_ || _)%bool; [|intros []].
  destruct (findb (token B) _) as [q|]; [|intros []].
  unfold cons_secs. cbn [fst app tl]. apply scan_delim_closed.
Qed.
