(* C06_model_pins.v — ties of model/Multipart.v to the current source text.
   The header-end regular expression is re-implemented by hand as
   [Multipart.hsearch]/[Multipart.alt2]; if its source text in
   ombott/request_pkg/multipart.py changes, the regenerated gen/Gen.v makes
   this file fail to compile. *)
From Verif Require Import lib.Base gen.Gen model.MultipartRef model.Multipart.

(* (\r\n\r\n)|(\r(\n\r?)?)$ *)
Lemma end_headers_patt_pinned :
  Gen.end_headers_patt_src =
  [40; 92; 114; 92; 110; 92; 114; 92; 110; 41; 124;
   40; 92; 114; 40; 92; 110; 92; 114; 63; 41; 63; 41; 36]%N.
Proof. reflexivity. Qed.
