(* C05_proofs.v — chunked decoding: closed form of the payload loop for every
   read schedule (with or without a size limit), totality, one-chunk step,
   exactness, truncation, missing terminator.  Owned by cluster bodyA. *)
From Verif Require Import lib.Base lib.ListX lib.Str lib.PyIntHex model.Stream model.Body model.Chunked
     proofs.C05_scan.
From Coq Require Import ZifyBool.

Lemma over_mono maxb a b : a <= b -> over maxb b = false -> over maxb a = false.
Proof. destruct maxb as [m|]; simpl; [lia | reflexivity]. Qed.

Lemma over_none n : over None n = false.
Proof. reflexivity. Qed.

(* ---- the payload loop, closed form, all schedules ---- *)

Lemma ch_payload_gen : forall fuel s buf maxb c acc sp,
  0 < buf -> length (rest s) < fuel ->
  sp = Nat.ltb buf (length acc) -> over maxb (length acc) = false ->
  if over maxb (length acc + Nat.min (Z.to_nat c) (length (rest s))) then
    exists s', ch_payload fuel s buf maxb c acc sp = PStop (BTooLarge s')
               /\ pos s <= pos s' <= pos s + Nat.min (Z.to_nat c) (length (rest s))
               /\ forall m, maxb = Some m -> length acc + (pos s' - pos s) <= m + buf
  else if Nat.leb (Z.to_nat c) (length (rest s)) then
    exists s', ch_payload fuel s buf maxb c acc sp
               = PCont s' (acc ++ firstn (Z.to_nat c) (rest s))
                       (Nat.ltb buf (length (acc ++ firstn (Z.to_nat c) (rest s))))
               /\ rest s' = skipn (Z.to_nat c) (rest s) /\ pos s' = pos s + Z.to_nat c
  else exists s', ch_payload fuel s buf maxb c acc sp = PStop (BParseErr s').
Proof.
  induction fuel as [|f IH]; intros s buf maxb c acc sp Hbuf Hfuel Hsp Hov; [lia|].
  cbn [ch_payload].
  destruct (Z.leb_spec c 0) as [Hc|Hc].
  - replace (Z.to_nat c) with 0 by lia. cbn [Nat.min Nat.leb]. rewrite Nat.add_0_r, Hov.
    exists s. rewrite firstn_O, app_nil_r, <- Hsp. cbn [skipn]. repeat split. lia.
  - set (n := Z.to_nat (Z.min c (Z.of_nat buf))).
    assert (Hn : 0 < n <= buf /\ n <= Z.to_nat c) by (unfold n; lia).
    destruct (read_spec s n) as (j & Hj1 & Hj2 & Hj3 & Hf & Hrest & Hpos & _).
    destruct (read s n) as [part s1]. cbn [fst snd] in *. subst part.
    destruct (firstn j (rest s)) as [|x part] eqn:Hpart.
    + (* end of stream *)
      assert (Hnil : rest s = []).
      { destruct (rest s) as [|y r] eqn:E; [reflexivity|].
        assert (0 < j) by (apply Hj3; [lia | discriminate]).
        destruct j; [lia | discriminate]. }
      rewrite Hnil. cbn [length]. rewrite Nat.min_0_r, Nat.add_0_r, Hov.
      replace (Z.to_nat c <=? 0) with false by lia. now exists s1.
    + rewrite <- Hpart.
      assert (Hlen : length (firstn j (rest s)) = j) by (rewrite firstn_length; lia).
      assert (Hj0 : 0 < j) by (rewrite <- Hlen, Hpart; simpl; lia).
      rewrite app_length, Hlen.
      assert (Hmin : Nat.min (Z.to_nat c) (length (rest s))
                     = j + Nat.min (Z.to_nat (c - Z.of_nat j)) (length (rest s1))).
      { rewrite Hrest, skipn_length. lia. }
      destruct (over maxb (length acc + j)) eqn:Hov1.
      * (* the consumer raises BodySizeError *)
        replace (over maxb (length acc + Nat.min (Z.to_nat c) (length (rest s)))) with true.
        2:{ symmetry. destruct maxb as [m|]; simpl in *; [lia | discriminate]. }
        exists s1. split; [reflexivity|]. split; [lia|].
        intros m ->. simpl in Hov. lia.
      * specialize (IH s1 buf maxb (c - Z.of_nat j)%Z (acc ++ firstn j (rest s))
                       (sp || Nat.ltb buf (length acc + j)) Hbuf).
        rewrite app_length, Hlen in IH.
        specialize (IH ltac:(rewrite Hrest, skipn_length; lia) ltac:(lia) Hov1).
        rewrite Hmin, Nat.add_assoc.
        destruct (over maxb (length acc + j + Nat.min (Z.to_nat (c - Z.of_nat j)) (length (rest s1)))).
        -- destruct IH as (s' & -> & Hp & Hb). exists s'. split; [reflexivity|].
           split; [lia|]. intros m Hm. specialize (Hb m Hm). lia.
        -- replace (Z.to_nat c <=? length (rest s))
             with (Z.to_nat (c - Z.of_nat j) <=? length (rest s1))
             by (rewrite Hrest, skipn_length; lia).
           destruct (Z.to_nat (c - Z.of_nat j) <=? length (rest s1)) eqn:Hle.
           ++ destruct IH as (s' & -> & Hr' & Hp'). exists s'.
              assert (Hbody : (acc ++ firstn j (rest s)) ++ firstn (Z.to_nat (c - Z.of_nat j)) (rest s1)
                              = acc ++ firstn (Z.to_nat c) (rest s)).
              { rewrite <- app_assoc. f_equal. rewrite Hrest.
                replace (Z.to_nat (c - Z.of_nat j)) with (Z.to_nat c - j) by lia.
                apply firstn_firstn_skipn. lia. }
              rewrite Hbody. split; [reflexivity|]. split.
              ** rewrite Hr', Hrest. replace (Z.to_nat (c - Z.of_nat j)) with (Z.to_nat c - j) by lia.
                 apply skipn_sub_skipn. lia.
              ** lia.
           ++ destruct IH as (s' & ->). now exists s'.
Qed.

(* ---- totality: the loops never run out of fuel ---- *)

Lemma ch_payload_total : forall fuel s buf maxb c acc sp,
  length (rest s) < fuel ->
  match ch_payload fuel s buf maxb c acc sp with
  | PCont s' _ _ => length (rest s') <= length (rest s)
  | PStop (BParseErr _) => True
  | PStop (BTooLarge _) => maxb <> None
  | PStop _ => False
  end.
Proof.
  induction fuel as [|f IH]; intros s buf maxb c acc sp Hfuel; [lia|].
  cbn [ch_payload]. destruct (c <=? 0)%Z; [lia|].
  set (n := Z.to_nat (Z.min c (Z.of_nat buf))).
  destruct (read_spec s n) as (j & Hj1 & Hj2 & Hj3 & Hf & Hrest & Hpos & _).
  destruct (read s n) as [part s1]. cbn [fst snd] in *. subst part.
  destruct (firstn j (rest s)) as [|x part] eqn:Hpart; [exact I|].
  rewrite <- Hpart.
  assert (0 < j) by (destruct j; [discriminate | lia]).
  destruct (over maxb (length (acc ++ firstn j (rest s)))) eqn:Hov.
  - destruct maxb; [discriminate | discriminate].
  - match goal with |- context [ch_payload f s1 buf maxb ?c1 ?a1 ?sp1] =>
      specialize (IH s1 buf maxb c1 a1 sp1 ltac:(rewrite Hrest, skipn_length; lia));
      destruct (ch_payload f s1 buf maxb c1 a1 sp1) as [s' a' sp'|[]] end; try exact IH.
    rewrite Hrest, skipn_length in IH. lia.
Qed.

Lemma ch_loop_total : forall fuel s buf maxb acc sp,
  length (rest s) < fuel ->
  match ch_loop fuel s buf maxb acc sp with
  | BDone _ _ _ => True
  | BParseErr _ => True
  | BTooLarge _ => maxb <> None
  | BOutOfFuel => False
  end.
Proof.
  induction fuel as [|f IH]; intros s buf maxb acc sp Hfuel; [lia|].
  cbn [ch_loop].
  pose proof (scan_line_pure buf s false false []) as Hs.
  destruct (scan_pure buf (rest s) false false []) as [[dg d']|] eqn:Esc.
  2:{ destruct Hs as (s1 & ->). exact I. }
  destruct Hs as (s1 & -> & Hr1 & Hp1).
  destruct (scan_pure_some _ _ _ _ _ _ _ Esc) as (line & Hline & Hll).
  assert (Hlt : length (rest s1) < length (rest s)).
  { rewrite Hr1, Hline, app_length. lia. }
  destruct (py_int_hex dg) as [z|]; [|exact I].
  destruct (z =? 0)%Z; [exact I|].
  pose proof (ch_payload_total (S (length (rest s1))) s1 buf maxb z acc sp ltac:(lia)) as Hp.
  destruct (ch_payload (S (length (rest s1))) s1 buf maxb z acc sp) as [s2 acc2 sp2|r].
  2:{ destruct r; tauto. }
  destruct (read_spec s2 1) as (j & _ & _ & _ & _ & Hrest3 & _).
  destruct (read s2 1) as [c1 s3]. cbn [snd] in Hrest3.
  destruct (is_byte c1 13); [|exact I].
  destruct (read_spec s3 1) as (j' & _ & _ & _ & _ & Hrest4 & _).
  destruct (read s3 1) as [c2 s4]. cbn [snd] in Hrest4.
  destruct (is_byte c2 10); [|exact I].
  apply IH. rewrite Hrest4, Hrest3, !skipn_length. lia.
Qed.

(* ---- one data chunk ---- *)

Definition strict_prefix (p full : list N) : Prop := exists q, full = p ++ q /\ q <> [].

Lemma chunk_size_parses c :
  chunk_ok c ->
  py_int_hex (c_size c) = Some (Z.of_nat (length (c_data c))) /\ (0 < Z.of_nat (length (c_data c)))%Z.
Proof.
  intros (Hne & Hv & _). split.
  - rewrite (py_int_hex_of_val _ _ Hv). f_equal. lia.
  - destruct (c_data c); [congruence | simpl; lia].
Qed.

(* the scanner on a stream that starts with a legal size line: with room for
   the line it returns the digits; in any case it never returns anything else *)
Lemma scan_line_legal s buf sp ext n r :
  hex_val sp = Some n -> ext_ok ext = true ->
  rest s = sp ++ ext ++ CRLF ++ r ->
  (exists s1, scan_line buf s false false [] = (None, s1) /\ buf < length sp + length ext + 2)
  \/ (exists s1, scan_line buf s false false [] = (Some sp, s1) /\ rest s1 = r /\
                 pos s1 = pos s + (length sp + length ext + 2) /\
                 length sp + length ext + 2 <= buf).
Proof.
  intros Hv He Hr.
  pose proof (scan_line_pure buf s false false []) as Hs. rewrite Hr in Hs.
  destruct (Nat.le_gt_cases (length sp + length ext + 2) buf) as [Hfit|Hno].
  - rewrite (scan_pure_line sp ext n buf r Hv He Hfit) in Hs.
    destruct Hs as (s1 & H1 & H2 & H3). right. exists s1. repeat split; auto.
    rewrite H3, !app_length. unfold CRLF. simpl. lia.
  - destruct (scan_pure buf (sp ++ ext ++ CRLF ++ r) false false []) as [[dg d']|] eqn:E.
    + (* a scan that succeeds with less room is the same scan *)
      pose proof (scan_pure_mono _ (length sp + length ext + 2) _ _ _ _ _ E) as E2.
      rewrite (scan_pure_line sp ext n _ r Hv He) in E2 by lia.
      injection E2 as <- <-.
      destruct (scan_pure_some _ _ _ _ _ _ _ E) as (line & Hline & Hll).
      assert (length (sp ++ ext ++ CRLF ++ r) = length line + length r) by (rewrite Hline at 1; apply app_length).
      rewrite !app_length in H. unfold CRLF in H. simpl in H. lia.
    + destruct Hs as (s1 & H1). left. exists s1. split; [exact H1 | lia].
Qed.

(* one full data chunk followed by [t]: the decoder either fails (the size line
   does not fit the buffer, or [t] does not start with CRLF) or continues after
   the terminator with the payload appended *)
Lemma ch_loop_chunk : forall f s buf acc sp c t,
  chunk_ok c ->
  rest s = enc_line c ++ c_data c ++ t ->
  length (rest s) <= f ->
  sp = Nat.ltb buf (length acc) ->
  (exists s', ch_loop (S f) s buf None acc sp = BParseErr s'
              /\ (line_len c <= buf -> prefixb CRLF t = false))
  \/ (exists t' s4,
         t = CRLF ++ t' /\
         ch_loop (S f) s buf None acc sp
         = ch_loop f s4 buf None (acc ++ c_data c) (Nat.ltb buf (length (acc ++ c_data c)))
         /\ rest s4 = t'
         /\ pos s4 = pos s + (length (rest s) - length t')).
Proof.
  intros f s buf acc sp c t Hok Hr Hf Hsp.
  destruct (chunk_size_parses c Hok) as [Hint Hpos].
  destruct Hok as (Hne & Hv & He).
  cbn [ch_loop].
  assert (Hr' : rest s = c_size c ++ c_ext c ++ CRLF ++ (c_data c ++ t)).
  { rewrite Hr. unfold enc_line. now rewrite <- !app_assoc. }
  destruct (scan_line_legal s buf _ _ _ _ Hv He Hr') as [(s1 & -> & Hlong)|(s1 & -> & Hr1 & Hp1 & Hfit)].
  { left. exists s1. split; [reflexivity|]. unfold line_len. lia. }
  rewrite Hint.
  replace (Z.of_nat (length (c_data c)) =? 0)%Z with false by lia.
  assert (Hbuf : 0 < buf) by lia.
  assert (Hfu : length (rest s1) < S (length (rest s1))) by lia.
  set (fu := S (length (rest s1))) in *.
  pose proof (ch_payload_gen fu s1 buf None (Z.of_nat (length (c_data c))) acc sp
                             Hbuf Hfu Hsp (over_none _)) as Hp.
  rewrite over_none in Hp. rewrite Nat2Z.id, Hr1, app_length in Hp.
  replace (length (c_data c) <=? length (c_data c) + length t) with true in Hp by lia.
  destruct Hp as (s2 & -> & Hr2 & Hp2).
  rewrite firstn_app, Nat.sub_diag, firstn_all, firstn_O, app_nil_r in *.
  rewrite skipn_app, Nat.sub_diag, skipn_all in Hr2. cbn [skipn app] in Hr2.
  destruct t as [|x t1].
  { destruct (read1_nil s2 Hr2) as (s3 & -> & _). cbn [is_byte].
    left. exists s3. split; reflexivity. }
  destruct (read1_cons s2 x t1 Hr2) as (s3 & -> & Hr3 & Hp3). cbn [is_byte].
  destruct (N.eqb_spec x 13) as [->|Hx].
  2:{ left. exists s3. split; [reflexivity|]. intros _. unfold CRLF, prefixb. cbn [is_prefix].
      apply N.eqb_neq in Hx. rewrite N.eqb_sym, Hx. reflexivity. }
  destruct t1 as [|y t2].
  { destruct (read1_nil s3 Hr3) as (s4 & -> & _). cbn [is_byte].
    left. exists s4. split; reflexivity. }
  destruct (read1_cons s3 y t2 Hr3) as (s4 & -> & Hr4 & Hp4). cbn [is_byte].
  destruct (N.eqb_spec y 10) as [->|Hy].
  2:{ left. exists s4. split; [reflexivity|]. intros _. unfold CRLF, prefixb. cbn [is_prefix].
      apply N.eqb_neq in Hy. rewrite (N.eqb_sym 10 y), Hy. reflexivity. }
  right. exists t2, s4. split; [reflexivity|]. split; [reflexivity|]. split; [exact Hr4|].
  rewrite Hp4, Hp3, Hp2, Hp1, Hr. unfold enc_line, CRLF. rewrite !app_length. cbn [length]. lia.
Qed.

(* a stream that ends inside a data chunk (size line or payload) *)
Lemma ch_loop_cut_in_chunk : forall f s buf acc sp c q,
  chunk_ok c ->
  enc_line c ++ c_data c = rest s ++ q -> q <> [] ->
  sp = Nat.ltb buf (length acc) ->
  exists s', ch_loop (S f) s buf None acc sp = BParseErr s'.
Proof.
  intros f s buf acc sp c q Hok Heq Hq Hsp.
  destruct (chunk_size_parses c Hok) as [Hint Hpos].
  destruct Hok as (Hne & Hv & He).
  cbn [ch_loop].
  apply app_eq_app in Heq. destruct Heq as (l & [[H1 H2]|[H1 H2]]).
  - (* the stream ends inside the size line *)
    destruct l as [|y l].
    + (* exactly the size line: the payload loop meets the end of the stream *)
      rewrite app_nil_r in H1.
      assert (Hr' : rest s = c_size c ++ c_ext c ++ CRLF ++ []).
      { rewrite <- H1. unfold enc_line. now rewrite app_nil_r. }
      destruct (scan_line_legal s buf _ _ _ _ Hv He Hr') as [(s1 & -> & _)|(s1 & -> & Hr1 & _)].
      { now exists s1. }
      rewrite Hint. replace (Z.of_nat (length (c_data c)) =? 0)%Z with false by lia.
      cbn [ch_payload]. replace (Z.of_nat (length (c_data c)) <=? 0)%Z with false by lia.
      destruct (read_spec s1 (Z.to_nat (Z.min (Z.of_nat (length (c_data c))) (Z.of_nat buf))))
        as (j & _ & Hj2 & _ & Hf & _).
      rewrite Hr1 in Hj2, Hf. simpl in Hj2.
      destruct (read s1 _) as [part s2]. cbn [fst] in Hf. rewrite firstn_nil in Hf. subst part.
      now exists s2.
    + pose proof (scan_line_pure buf s false false []) as Hs.
      rewrite (scan_pure_line_prefix (c_size c) (c_ext c) _ (rest s) (y :: l) buf Hv He) in Hs.
      * destruct Hs as (s1 & ->). now exists s1.
      * exact H1.
      * discriminate.
  - (* the stream holds the size line and a strict prefix of the payload *)
    assert (Hr' : rest s = c_size c ++ c_ext c ++ CRLF ++ l).
    { rewrite H1. unfold enc_line. now rewrite <- !app_assoc. }
    destruct (scan_line_legal s buf _ _ _ _ Hv He Hr') as [(s1 & -> & _)|(s1 & -> & Hr1 & _ & Hfit)].
    { now exists s1. }
    rewrite Hint. replace (Z.of_nat (length (c_data c)) =? 0)%Z with false by lia.
    assert (Hbuf : 0 < buf) by lia.
    assert (Hfu : length (rest s1) < S (length (rest s1))) by lia.
    set (fu := S (length (rest s1))) in *.
    pose proof (ch_payload_gen fu s1 buf None (Z.of_nat (length (c_data c))) acc sp
                               Hbuf Hfu Hsp (over_none _)) as Hp.
    rewrite over_none in Hp. rewrite Nat2Z.id, Hr1 in Hp.
    assert (Hshort : length l < length (c_data c)).
    { rewrite H2, app_length. destruct q; [congruence | simpl; lia]. }
    replace (length (c_data c) <=? length l) with false in Hp by lia.
    destruct Hp as (s2 & ->). now exists s2.
Qed.

(* ---- the last-chunk line ---- *)

Lemma ch_loop_last : forall f s buf acc sp last tail,
  last_ok last -> line_len last <= buf ->
  rest s = enc_line last ++ tail ->
  exists s', ch_loop (S f) s buf None acc sp = BDone acc sp s' /\ rest s' = tail
             /\ pos s' = pos s + (length (rest s) - length tail).
Proof.
  intros f s buf acc sp last tail (Hd & Hv & He) Hfit Hr.
  cbn [ch_loop].
  assert (Hr' : rest s = c_size last ++ c_ext last ++ CRLF ++ tail).
  { rewrite Hr. unfold enc_line. now rewrite <- !app_assoc. }
  destruct (scan_line_legal s buf _ _ _ _ Hv He Hr') as [(s1 & _ & Hlong)|(s1 & -> & Hr1 & Hp1 & _)].
  { unfold line_len in Hfit. lia. }
  rewrite (py_int_hex_of_val _ _ Hv). cbn [Z.of_N Z.eqb].
  exists s1. split; [reflexivity|]. split; [exact Hr1|].
  rewrite Hp1, Hr. unfold enc_line, CRLF. rewrite !app_length. cbn [length]. lia.
Qed.

Lemma ch_loop_last_cut : forall f s buf acc sp last q,
  last_ok last ->
  enc_line last = rest s ++ q -> q <> [] ->
  exists s', ch_loop (S f) s buf None acc sp = BParseErr s'.
Proof.
  intros f s buf acc sp last q (Hd & Hv & He) Heq Hq.
  cbn [ch_loop].
  pose proof (scan_line_pure buf s false false []) as Hs.
  rewrite (scan_pure_line_prefix (c_size last) (c_ext last) _ (rest s) q buf Hv He) in Hs; auto.
  destruct Hs as (s1 & ->). now exists s1.
Qed.

(* ---- whole encodings ---- *)

Lemma length_payload_app acc (cs : list chunk) c :
  (acc ++ c_data c) ++ payload_of cs = acc ++ payload_of (c :: cs).
Proof. unfold payload_of. cbn [flat_map]. now rewrite app_assoc. Qed.

Lemma ch_loop_exact : forall cs fuel s buf acc sp last tail,
  Forall chunk_ok cs -> Forall (fun c => line_len c <= buf) cs ->
  last_ok last -> line_len last <= buf ->
  rest s = enc_chunked cs last tail ->
  length (rest s) < fuel ->
  sp = Nat.ltb buf (length acc) ->
  exists s', ch_loop fuel s buf None acc sp
             = BDone (acc ++ payload_of cs) (Nat.ltb buf (length (acc ++ payload_of cs))) s'
             /\ rest s' = tail
             /\ pos s' = pos s + (length (rest s) - length tail).
Proof.
  induction cs as [|c cs IH]; intros fuel s buf acc sp last tail Hcs Hfit Hl Hlfit Hr Hfuel Hsp.
  - destruct fuel as [|f]; [lia|].
    unfold enc_chunked in Hr. cbn [flat_map app] in Hr.
    destruct (ch_loop_last f s buf acc sp last tail Hl Hlfit Hr) as (s' & -> & H2 & H3).
    exists s'. unfold payload_of. cbn [flat_map]. rewrite app_nil_r, <- Hsp. auto.
  - destruct fuel as [|f]; [lia|].
    apply Forall_cons_iff in Hcs. destruct Hcs as [Hc Hcs].
    apply Forall_cons_iff in Hfit. destruct Hfit as [Hcfit Hfit].
    assert (Hr' : rest s = enc_line c ++ c_data c ++ (CRLF ++ enc_chunked cs last tail)).
    { rewrite Hr. unfold enc_chunked, enc_chunk. cbn [flat_map]. now rewrite <- !app_assoc. }
    destruct (ch_loop_chunk f s buf acc sp c _ Hc Hr' ltac:(lia) Hsp)
      as [(s' & _ & Hbad)|(t' & s4 & Ht & -> & Hr4 & Hp4)].
    { specialize (Hbad Hcfit). unfold prefixb in Hbad. rewrite (prefixb_app CRLF) in Hbad. discriminate. }
    apply app_inv_head in Ht. subst t'.
    destruct (IH f s4 buf (acc ++ c_data c) (Nat.ltb buf (length (acc ++ c_data c))) last tail Hcs Hfit Hl Hlfit Hr4) as (s' & -> & H2 & H3).
    + rewrite Hr4. rewrite Hr', !app_length in Hfuel. unfold CRLF in Hfuel. cbn [length] in Hfuel. lia.
    + reflexivity.
    + exists s'. rewrite length_payload_app. split; [reflexivity|]. split; [exact H2|].
      rewrite H3, Hp4, Hr4.
      assert (length tail <= length (enc_chunked cs last tail)).
      { unfold enc_chunked. rewrite !app_length. lia. }
      assert (length (enc_chunked cs last tail) <= length (rest s)).
      { rewrite Hr'. rewrite !app_length. lia. }
      lia.
Qed.

(* every strict prefix of (chunks ++ last-chunk line) is rejected, whatever the
   buffer size and the read schedule *)
Lemma ch_loop_truncated : forall cs fuel s buf acc sp last q,
  Forall chunk_ok cs -> last_ok last ->
  flat_map enc_chunk cs ++ enc_line last = rest s ++ q -> q <> [] ->
  length (rest s) < fuel ->
  sp = Nat.ltb buf (length acc) ->
  exists s', ch_loop fuel s buf None acc sp = BParseErr s'.
Proof.
  induction cs as [|c cs IH]; intros fuel s buf acc sp last q Hcs Hl Heq Hq Hfuel Hsp.
  - destruct fuel as [|f]; [lia|]. cbn [flat_map app] in Heq.
    eapply ch_loop_last_cut; eauto.
  - destruct fuel as [|f]; [lia|].
    apply Forall_cons_iff in Hcs. destruct Hcs as [Hc Hcs].
    cbn [flat_map] in Heq. unfold enc_chunk in Heq at 1.
    (* enc_line c ++ c_data c ++ CRLF ++ REST = rest s ++ q *)
    set (REST := flat_map enc_chunk cs ++ enc_line last) in *.
    assert (Heq' : (enc_line c ++ c_data c) ++ (CRLF ++ REST) = rest s ++ q).
    { rewrite <- Heq. now rewrite <- !app_assoc. }
    apply app_eq_app in Heq'. destruct Heq' as (l & [[H1 H2]|[H1 H2]]).
    + (* the stream ends inside the first chunk's line or payload — or right after the payload *)
      destruct l as [|y l].
      * (* the whole line and payload, nothing else: terminator missing *)
        rewrite app_nil_r in H1.
        assert (Hr' : rest s = enc_line c ++ c_data c ++ []) by (rewrite app_nil_r; symmetry; exact H1).
        destruct (ch_loop_chunk f s buf acc sp c [] Hc Hr' ltac:(lia) Hsp)
          as [(s' & -> & _)|(t' & s4 & Ht & _)].
        -- now exists s'.
        -- destruct t'; discriminate.
      * eapply ch_loop_cut_in_chunk; eauto. discriminate.
    + (* the stream holds the line, the payload and l, a prefix of CRLF ++ REST *)
      assert (Hr' : rest s = enc_line c ++ c_data c ++ l) by (now rewrite H1, <- app_assoc).
      destruct (ch_loop_chunk f s buf acc sp c l Hc Hr' ltac:(lia) Hsp)
        as [(s' & -> & _)|(t' & s4 & Ht & -> & Hr4 & Hp4)].
      { now exists s'. }
      subst l. rewrite <- app_assoc in H2. apply app_inv_head in H2.
      eapply (IH f s4 buf _ _ last q Hcs Hl); eauto.
      * now rewrite Hr4.
      * rewrite Hr4. rewrite Hr', !app_length in Hfuel. change (length CRLF) with 2 in Hfuel. lia.
Qed.

(* chunk data that is not followed by CRLF is rejected *)
Lemma ch_loop_bad_terminator : forall pre fuel s buf acc sp c t,
  Forall chunk_ok pre -> chunk_ok c ->
  rest s = flat_map enc_chunk pre ++ enc_line c ++ c_data c ++ t ->
  prefixb CRLF t = false ->
  length (rest s) < fuel ->
  sp = Nat.ltb buf (length acc) ->
  exists s', ch_loop fuel s buf None acc sp = BParseErr s'.
Proof.
  induction pre as [|c0 pre IH]; intros fuel s buf acc sp c t Hpre Hc Hr Ht Hfuel Hsp.
  - destruct fuel as [|f]; [lia|]. cbn [flat_map app] in Hr.
    destruct (ch_loop_chunk f s buf acc sp c t Hc Hr ltac:(lia) Hsp)
      as [(s' & -> & _)|(t' & s4 & Htt & _)].
    + now exists s'.
    + subst t. unfold prefixb in Ht. rewrite (prefixb_app CRLF) in Ht. discriminate.
  - destruct fuel as [|f]; [lia|].
    apply Forall_cons_iff in Hpre. destruct Hpre as [Hc0 Hpre].
    assert (Hr' : rest s = enc_line c0 ++ c_data c0 ++
                           (CRLF ++ flat_map enc_chunk pre ++ enc_line c ++ c_data c ++ t)).
    { rewrite Hr. cbn [flat_map]. unfold enc_chunk at 1. now rewrite <- !app_assoc. }
    destruct (ch_loop_chunk f s buf acc sp c0 _ Hc0 Hr' ltac:(lia) Hsp)
      as [(s' & -> & _)|(t' & s4 & Htt & -> & Hr4 & Hp4)].
    { now exists s'. }
    apply app_inv_head in Htt. subst t'.
    eapply (IH f s4 buf _ _ c t Hpre Hc Hr4 Ht); eauto.
    rewrite Hr4. rewrite Hr', !app_length in Hfuel. rewrite !app_length. change (length CRLF) with 2 in Hfuel. lia.
Qed.

(* ---- property-level statements ---- *)

Lemma C05_exact_lemma :
  forall (cs : list chunk) (last : chunk) (tail : list N) (buf : nat) (sc : list nat),
    Forall chunk_ok cs -> last_ok last ->
    Forall (fun c => line_len c <= buf) cs -> line_len last <= buf ->
    exists s',
      body_read_chunked (stream_init (enc_chunked cs last tail) sc) buf None
      = BDone (payload_of cs) (Nat.ltb buf (length (payload_of cs))) s'
      /\ rest s' = tail
      /\ pos s' = length (enc_chunked cs last tail) - length tail.
Proof.
  intros cs last tail buf sc Hcs Hl Hfit Hlfit. unfold body_read_chunked.
  destruct (ch_loop_exact cs (S (length (rest (stream_init (enc_chunked cs last tail) sc))))
                          (stream_init (enc_chunked cs last tail) sc) buf [] false last tail
                          Hcs Hfit Hl Hlfit eq_refl ltac:(lia)) as (s' & H1 & H2 & H3).
  - unfold line_len in Hlfit. simpl. destruct buf; [lia | reflexivity].
  - exists s'. cbn [app] in H1. rewrite H1. cbn [stream_init pos rest] in H3. auto.
Qed.

Lemma C05_truncation_lemma :
  forall (cs : list chunk) (last : chunk) (p : list N) (buf : nat) (sc : list nat),
    Forall chunk_ok cs -> last_ok last ->
    strict_prefix p (flat_map enc_chunk cs ++ enc_line last) ->
    exists s', body_read_chunked (stream_init p sc) buf None = BParseErr s'.
Proof.
  intros cs last p buf sc Hcs Hl (q & Heq & Hq). unfold body_read_chunked.
  eapply (ch_loop_truncated cs _ (stream_init p sc) buf [] false last q Hcs Hl); eauto.
Qed.

Lemma C05_missing_crlf_lemma :
  forall (pre : list chunk) (c : chunk) (t : list N) (buf : nat) (sc : list nat),
    Forall chunk_ok pre -> chunk_ok c ->
    prefixb CRLF t = false ->
    exists s', body_read_chunked
                 (stream_init (flat_map enc_chunk pre ++ enc_line c ++ c_data c ++ t) sc) buf None
               = BParseErr s'.
Proof.
  intros pre c t buf sc Hpre Hc Ht. unfold body_read_chunked.
  eapply (ch_loop_bad_terminator pre _ (stream_init _ sc) buf [] false c t Hpre Hc eq_refl Ht); eauto.
Qed.

Lemma C05_total_lemma :
  forall (data : list N) (sc : list nat) (buf : nat),
    (exists body sp s', body_read_chunked (stream_init data sc) buf None = BDone body sp s')
    \/ (exists s', body_read_chunked (stream_init data sc) buf None = BParseErr s').
Proof.
  intros data sc buf. unfold body_read_chunked.
  pose proof (ch_loop_total (S (length (rest (stream_init data sc)))) (stream_init data sc) buf None [] false
                            ltac:(lia)) as H.
  destruct (ch_loop _ _ buf None [] false) as [b sp s'|s'|s'|].
  - left. now exists b, sp, s'.
  - congruence.
  - right. now exists s'.
  - contradiction.
Qed.

(* with a size limit the only further outcome is the size error *)
Lemma C05_total_limit_lemma :
  forall (data : list N) (sc : list nat) (buf : nat) (maxb : option nat),
    body_read_chunked (stream_init data sc) buf maxb <> BOutOfFuel.
Proof.
  intros data sc buf maxb. unfold body_read_chunked.
  pose proof (ch_loop_total (S (length (rest (stream_init data sc)))) (stream_init data sc) buf maxb [] false
                            ltac:(lia)) as H.
  destruct (ch_loop _ _ buf maxb [] false); try discriminate. contradiction.
Qed.

(* ---- the defect repaired by the fix: commit (F5) ----
   The unrepaired payload loop subtracted the REQUESTED size
       rest_len -= part_size
   and fetched the terminator with one read(2).  Model of that variant (no size
   limit, body only) and the witnesses: a truncated body accepted as complete,
   and a legal body rejected. *)
Fixpoint f5_payload (fuel : nat) (s : stream) (buf : nat) (rest_len : Z) (acc : list N)
  : option (stream * list N) :=
  match fuel with
  | O => None
  | S f =>
    if (rest_len <=? 0)%Z then Some (s, acc)
    else
      let part_size := Z.to_nat (Z.min rest_len (Z.of_nat buf)) in
      let (part, s') := read s part_size in
      match part with
      | [] => None
      | _ => f5_payload f s' buf (rest_len - Z.of_nat part_size)%Z (acc ++ part)
      end
  end.

(* Some (Some body) = accepted; Some None = parsing error; None = out of fuel *)
Fixpoint f5_loop (fuel : nat) (s : stream) (buf : nat) (acc : list N) : option (option (list N)) :=
  match fuel with
  | O => None
  | S f =>
    match scan_line buf s false false [] with
    | (None, _) => Some None
    | (Some digits, s1) =>
      match py_int_hex digits with
      | None => Some None
      | Some rest_len =>
        if (rest_len =? 0)%Z then Some (Some acc)
        else match f5_payload (S (length (rest s1))) s1 buf rest_len acc with
             | None => Some None
             | Some (s2, acc2) =>
               let (c, s3) := read s2 2 in
               if str_eqb c CRLF then f5_loop f s3 buf acc2 else Some None
             end
      end
    end
  end.

(* "8 CRLF abc CRLF 0 CRLF" : the payload "abc CRLF 0 CRLF" is 8 bytes; its terminator and the last chunk are missing *)
Definition f5_truncated : list N := [56; 13; 10; 97; 98; 99; 13; 10; 48; 13; 10]%N.
Definition f5_chunk : chunk := mkChunk [56]%N [] [97; 98; 99; 13; 10; 48; 13; 10]%N.
Definition f5_last : chunk := mkChunk [48]%N [] [].

Lemma F5_variant_accepts_truncated :
  chunk_ok f5_chunk /\ last_ok f5_last /\
  strict_prefix f5_truncated (flat_map enc_chunk [f5_chunk] ++ enc_line f5_last) /\
  f5_loop 20 (stream_init f5_truncated [0; 0; 0; 2]) 8 [] = Some (Some [97; 98; 99]%N).
Proof.
  split; [|split; [|split]].
  - split; [discriminate | split; reflexivity].
  - repeat split.
  - exists [13; 10; 48; 13; 10]%N. split; [reflexivity | discriminate].
  - vm_compute. reflexivity.
Qed.

Lemma F5_variant_rejects_legal :
  f5_loop 20 (stream_init (enc_chunked [f5_chunk] f5_last CRLF) [0; 0; 0; 20; 0]) 8 [] = Some None.
Proof. vm_compute. reflexivity. Qed.

Lemma C05_hex_round_trip_lemma :
  forall (k : nat) (up : list bool) (n : N),
    py_int_hex (hex_spell k up n) = Some (Z.of_N n) /\ hex_val (hex_spell k up n) = Some n.
Proof. intros; split; [apply py_int_hex_spell | apply hex_val_spell]. Qed.

(* ---- the _body glue: a chunked transfer coding overrides any Content-Length ---- *)
Lemma C05_chunked_overrides_cl_lemma :
  forall (s : stream) (buf : nat) (maxb : option nat) (cl : Z) (te : list N),
    te_chunked te = true ->
    body_read_env s buf maxb cl te = body_read_chunked s buf maxb.
Proof. intros s buf maxb cl te H. unfold body_read_env. now rewrite H. Qed.

(* ---- raw Content-Length under a chunked coding; sequences of requests ---- *)
Lemma C05_chunked_overrides_raw_cl_lemma :
  forall (s : stream) (buf : nat) (maxb : option nat) (raw : option (list N)) (te : list N) (cl : Z),
    te_chunked te = true -> content_length_raw raw = Some cl ->
    body_read_raw s buf maxb raw te = Some (body_read_chunked s buf maxb).
Proof.
  intros s buf maxb raw te cl Hte Hcl. unfold body_read_raw. rewrite Hcl.
  f_equal. now apply C05_chunked_overrides_cl_lemma.
Qed.

Lemma C05_cl_not_int_lemma :
  exists (raw te : list N),
    te_chunked te = true /\
    forall s buf maxb, body_read_raw s buf maxb (Some raw) te = None.
Proof.
  exists [97; 98; 99]%N, s_chunked. split; [vm_compute; reflexivity|].
  intros s buf maxb. unfold body_read_raw. now vm_compute content_length_raw.
Qed.

Lemma nth_map_app {A B} (f : A -> B) (pre post : list A) (x : A) (d : B) :
  nth (length pre) (map f (pre ++ x :: post)) d = f x.
Proof. rewrite map_app, app_nth2 by (rewrite map_length; lia). rewrite map_length, Nat.sub_diag. reflexivity. Qed.

Lemma C05_seq_lemma :
  forall (pre post : list (list Z)) (x : list Z),
    nth (length pre) (run_seq (pre ++ x :: post)) [] = corr_C05_one x.
Proof. intros. apply nth_map_app. Qed.

(* ---- BaseRequest._raise over ANY errors_map: exact class, then the family base ---- *)
Lemma C05_truncation_mapped_lemma :
  forall (m : list (list N * (Z * list N))) (cs : list chunk) (last : chunk) (p : list N) (buf : nat)
         (sc : list nat) (clraw : option (list N)) (te : list N) (cl code : Z),
    te_chunked te = true -> content_length_raw clraw = Some cl ->
    Forall chunk_ok cs -> last_ok last ->
    strict_prefix p (flat_map enc_chunk cs ++ enc_line last) ->
    (emap_get m cls_BodyParsingError = Some code
     \/ (emap_get m cls_BodyParsingError = None /\ emap_get m cls_RequestError = Some code)) ->
    exists s', wsgi_body m (stream_init p sc) buf None clraw te = WStatus code s'.
Proof.
  intros m cs last p buf sc clraw te cl code Hte Hcl Hcs Hl Hp Hmap.
  destruct (C05_truncation_lemma cs last p buf sc Hcs Hl Hp) as (s' & Hs').
  exists s'. unfold wsgi_body.
  rewrite (C05_chunked_overrides_raw_cl_lemma _ buf None clraw te cl Hte Hcl), Hs'.
  unfold raise_status. destruct Hmap as [H|[H1 H2]]; [now rewrite H | now rewrite H1, H2].
Qed.
