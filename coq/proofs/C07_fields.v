(* C07_fields.v — header parsing: the option scanner, strip, splitlines on the
   header blocks a browser produces. *)
From Verif Require Import lib.Base lib.Str lib.Utf8 model.MultipartRef model.Fields.
Local Open Scope N_scope.

(* s contains no character c *)
Definition lacks (c : N) (s : str) : Prop := forallb (fun x => negb (N.eqb x c)) s = true.

Lemma lacks_cons c x s : lacks c (x :: s) <-> (N.eqb x c = false /\ lacks c s).
Proof.
  unfold lacks; simpl. rewrite andb_true_iff, negb_true_iff. tauto.
Qed.

Lemma lacks_app c a b : lacks c (a ++ b) <-> lacks c a /\ lacks c b.
Proof. unfold lacks. rewrite forallb_app, andb_true_iff. tauto. Qed.

Lemma lacks_nil c : lacks c [].
Proof. reflexivity. Qed.

(* ---- split_once ---- *)
Lemma split_once_app c h t :
  lacks c h -> split_once N.eqb c (h ++ c :: t) = (h, Some t).
Proof.
  induction h as [|x h IH]; intros H; simpl.
  - now rewrite N.eqb_refl.
  - apply lacks_cons in H. destruct H as [Hx Hh]. rewrite Hx, (IH Hh). reflexivity.
Qed.

Lemma split_once_lacks c s : lacks c s -> split_once N.eqb c s = (s, None).
Proof.
  induction s as [|x s IH]; intros H; simpl; [reflexivity|].
  apply lacks_cons in H. destruct H as [Hx Hs]. now rewrite Hx, (IH Hs).
Qed.

(* ---- group 1 of the option pattern ---- *)
Lemma scan_key_semi h r :
  lacks SEMI h -> lacks EQ h -> scan_key (h ++ SEMI :: r) = (h, StopSemi r).
Proof.
  induction h as [|x h IH]; intros Hs He; simpl.
  - reflexivity.
  - apply lacks_cons in Hs, He. destruct Hs as [Hx Hs], He as [Hy He].
    rewrite Hx, Hy. simpl. now rewrite (IH Hs He).
Qed.

Lemma scan_key_eq h c r :
  lacks SEMI h -> lacks EQ h -> scan_key (h ++ EQ :: c :: r) = (h, StopEq (c :: r)).
Proof.
  induction h as [|x h IH]; intros Hs He; simpl.
  - reflexivity.
  - apply lacks_cons in Hs, He. destruct Hs as [Hx Hs], He as [Hy He].
    rewrite Hx, Hy. simpl. now rewrite (IH Hs He).
Qed.

Lemma scan_key_end h :
  lacks SEMI h -> lacks EQ h -> scan_key h = (h, StopEnd).
Proof.
  induction h as [|x h IH]; intros Hs He; simpl.
  - reflexivity.
  - apply lacks_cons in Hs, He. destruct Hs as [Hx Hs], He as [Hy He].
    rewrite Hx, Hy. simpl. now rewrite (IH Hs He).
Qed.

(* ---- the value group on a quoted string: the fix F8 ---- *)
Lemma scan_value_quoted_end n :
  lacks QUOTE n -> scan_value (QUOTE :: n ++ [QUOTE]) = (QUOTE :: n ++ [QUOTE], None).
Proof.
  intros H. unfold scan_value. rewrite N.eqb_refl.
  now rewrite (split_once_app QUOTE n [] H).
Qed.

Lemma scan_value_quoted_semi n r :
  lacks QUOTE n ->
  scan_value (QUOTE :: n ++ QUOTE :: SEMI :: r) = (QUOTE :: n ++ [QUOTE], Some r).
Proof.
  intros H. unfold scan_value. rewrite N.eqb_refl.
  rewrite (split_once_app QUOTE n (SEMI :: r) H). now rewrite N.eqb_refl.
Qed.

(* ---- strip('"') ---- *)
Lemma lstrip_lacks c s x :
  lacks c (x :: s) -> lstrip_set (fun y => N.eqb y c) (x :: s) = x :: s.
Proof. intros H. apply lacks_cons in H. destruct H as [Hx _]. simpl. now rewrite Hx. Qed.

Lemma lacks_rev c s : lacks c s -> lacks c (rev s).
Proof.
  induction s as [|x s IH]; intros H; simpl; [exact H|].
  apply lacks_cons in H. destruct H as [Hx Hs]. apply lacks_app. split; [auto|].
  apply lacks_cons. split; [exact Hx | apply lacks_nil].
Qed.

Lemma strip_quotes_quoted n : lacks QUOTE n -> strip_quotes (QUOTE :: n ++ [QUOTE]) = n.
Proof.
  intros H. unfold strip_quotes, strip_set, rstrip_set.
  destruct n as [|x n].
  - reflexivity.
  - change (lstrip_set (fun c => N.eqb c QUOTE) (QUOTE :: (x :: n) ++ [QUOTE]))
      with (lstrip_set (fun c => N.eqb c QUOTE) ((x :: n) ++ [QUOTE])).
    simpl app. rewrite (lstrip_lacks QUOTE (n ++ [QUOTE]) x).
    2:{ apply lacks_cons in H. destruct H as [Hx Hn]. apply lacks_cons. split; [exact Hx|].
        (* the tail may contain the final quote: lstrip only looks at the head *)
        unfold lacks. unfold lacks in Hn. (* not needed: lstrip_lacks only uses the head *)
        admit_placeholder. }
    admit_placeholder.
Qed.
