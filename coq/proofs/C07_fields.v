(* C07_fields.v — header parsing: the option scanner, strip, splitlines on the
   header blocks a browser produces. *)
From Verif Require Import lib.Base lib.Str lib.Utf8 model.MultipartRef model.Fields.
Local Open Scope N_scope.

(* s contains no character c *)
Definition lacks (c : N) (s : str) : Prop := forallb (fun x => negb (N.eqb x c)) s = true.

Lemma lacks_cons c x s : lacks c (x :: s) <-> (N.eqb x c = false /\ lacks c s).
Proof.
  unfold lacks; simpl. rewrite andb_true_iff, negb_true_iff. tauto.
Qed.

Lemma lacks_app c a b : lacks c (a ++ b) <-> lacks c a /\ lacks c b.
Proof. unfold lacks. rewrite forallb_app, andb_true_iff. tauto. Qed.

Lemma lacks_nil c : lacks c [].
Proof. reflexivity. Qed.

(* ---- split_once ---- *)
Lemma split_once_app c h t :
  lacks c h -> split_once N.eqb c (h ++ c :: t) = (h, Some t).
Proof.
  induction h as [|x h IH]; intros H; simpl.
  - now rewrite N.eqb_refl.
  - apply lacks_cons in H. destruct H as [Hx Hh]. rewrite Hx, (IH Hh). reflexivity.
Qed.

Lemma split_once_lacks c s : lacks c s -> split_once N.eqb c s = (s, None).
Proof.
  induction s as [|x s IH]; intros H; simpl; [reflexivity|].
  apply lacks_cons in H. destruct H as [Hx Hs]. now rewrite Hx, (IH Hs).
Qed.

(* ---- group 1 of the option pattern ---- *)
Lemma scan_key_semi h r :
  lacks SEMI h -> lacks EQ h -> scan_key (h ++ SEMI :: r) = (h, StopSemi r).
Proof.
  induction h as [|x h IH]; intros Hs He; simpl.
  - reflexivity.
  - apply lacks_cons in Hs, He. destruct Hs as [Hx Hs], He as [Hy He].
    rewrite Hx, Hy. simpl. now rewrite (IH Hs He).
Qed.

Lemma scan_key_eq h c r :
  lacks SEMI h -> lacks EQ h -> scan_key (h ++ EQ :: c :: r) = (h, StopEq (c :: r)).
Proof.
  induction h as [|x h IH]; intros Hs He; simpl.
  - reflexivity.
  - apply lacks_cons in Hs, He. destruct Hs as [Hx Hs], He as [Hy He].
    rewrite Hx, Hy. simpl. now rewrite (IH Hs He).
Qed.

Lemma scan_key_end h :
  lacks SEMI h -> lacks EQ h -> scan_key h = (h, StopEnd).
Proof.
  induction h as [|x h IH]; intros Hs He; simpl.
  - reflexivity.
  - apply lacks_cons in Hs, He. destruct Hs as [Hx Hs], He as [Hy He].
    rewrite Hx, Hy. simpl. now rewrite (IH Hs He).
Qed.

(* ---- the value group on a quoted string: the fix F8 ---- *)
Lemma scan_value_quoted_end n :
  lacks QUOTE n -> scan_value (QUOTE :: n ++ [QUOTE]) = (QUOTE :: n ++ [QUOTE], None).
Proof.
  intros H. unfold scan_value. rewrite N.eqb_refl.
  now rewrite (split_once_app QUOTE n [] H).
Qed.

Lemma scan_value_quoted_semi n r :
  lacks QUOTE n ->
  scan_value (QUOTE :: n ++ QUOTE :: SEMI :: r) = (QUOTE :: n ++ [QUOTE], Some r).
Proof.
  intros H. unfold scan_value. rewrite N.eqb_refl.
  rewrite (split_once_app QUOTE n (SEMI :: r) H). cbv iota beta. now rewrite N.eqb_refl.
Qed.

(* ---- strip(Q), Q the double quote ---- *)
Lemma lstrip_lacks c s : lacks c s -> lstrip_set (fun y => N.eqb y c) s = s.
Proof.
  destruct s as [|x s]; intros H; [reflexivity|].
  apply lacks_cons in H. destruct H as [Hx _]. simpl. now rewrite Hx.
Qed.

Lemma lacks_rev c s : lacks c s -> lacks c (rev s).
Proof.
  induction s as [|x s IH]; intros H; simpl; [exact H|].
  apply lacks_cons in H. destruct H as [Hx Hs]. apply lacks_app. split; [auto|].
  apply lacks_cons. split; [exact Hx | apply lacks_nil].
Qed.

Lemma rstrip_lacks_snoc c s :
  lacks c s -> rstrip_set (fun y => N.eqb y c) (s ++ [c]) = s.
Proof.
  intros H. unfold rstrip_set. rewrite rev_unit. simpl. rewrite N.eqb_refl.
  rewrite (lstrip_lacks c (rev s) (lacks_rev c s H)). apply rev_involutive.
Qed.

Lemma strip_quotes_quoted n : lacks QUOTE n -> strip_quotes (QUOTE :: n ++ [QUOTE]) = n.
Proof.
  intros H. unfold strip_quotes, strip_set.
  assert (E : lstrip_set (fun c => N.eqb c QUOTE) (QUOTE :: n ++ [QUOTE])
              = lstrip_set (fun c => N.eqb c QUOTE) (n ++ [QUOTE])) by reflexivity.
  rewrite E. destruct n as [|x n].
  - reflexivity.
  - assert (Hx : N.eqb x QUOTE = false) by (apply lacks_cons in H; tauto).
    change ((x :: n) ++ [QUOTE]) with (x :: (n ++ [QUOTE])).
    cbn [lstrip_set]. rewrite Hx.
    change (x :: (n ++ [QUOTE])) with ((x :: n) ++ [QUOTE]).
    now apply rstrip_lacks_snoc.
Qed.

(* ------------------------------------------------------------------ *)
(* the header lines a browser sends *)
Definition s_form_data : str := [102;111;114;109;45;100;97;116;97].
Definition cd_prefix : str :=       (* Content-Disposition: form-data; name=Q *)
  [67;111;110;116;101;110;116;45;68;105;115;112;111;115;105;116;105;111;110;58;32;102;111;114;109;45;100;97;116;97;59;32;110;97;109;101;61;34].
Definition fn_infix : str := [34;59;32;102;105;108;101;110;97;109;101;61;34].    (* Q; filename=Q *)
Definition ct_prefix : str := [67;111;110;116;101;110;116;45;84;121;112;101;58;32].   (* Content-Type:SP *)

Definition cd_line (name : str) : str := cd_prefix ++ name ++ [QUOTE].
Definition cd_line_file (name fn : str) : str := cd_prefix ++ name ++ fn_infix ++ fn ++ [QUOTE].
Definition ct_line (ct : str) : str := ct_prefix ++ ct.

Definition SP : N := 32.

Lemma opt_matches_name f n :
  lacks QUOTE n ->
  opt_matches (S (S f)) (SP :: s_form_data ++ SEMI :: SP :: s_name ++ EQ :: QUOTE :: n ++ [QUOTE])
  = [(SP :: s_form_data, None); (SP :: s_name, Some (QUOTE :: n ++ [QUOTE]))].
Proof.
  intros H. cbn [opt_matches].
  rewrite (scan_key_semi s_form_data) by reflexivity.
  rewrite (scan_key_eq s_name) by reflexivity.
  now rewrite (scan_value_quoted_end n H).
Qed.

Lemma opt_matches_name_file f n fn :
  lacks QUOTE n -> lacks QUOTE fn ->
  opt_matches (S (S (S f)))
    (SP :: s_form_data ++ SEMI :: SP :: s_name ++ EQ :: QUOTE :: n ++ QUOTE :: SEMI :: SP :: s_filename ++ EQ :: QUOTE :: fn ++ [QUOTE])
  = [(SP :: s_form_data, None); (SP :: s_name, Some (QUOTE :: n ++ [QUOTE]));
     (SP :: s_filename, Some (QUOTE :: fn ++ [QUOTE]))].
Proof.
  intros H H'. cbn [opt_matches].
  rewrite (scan_key_semi s_form_data) by reflexivity.
  rewrite (scan_key_eq s_name) by reflexivity.
  rewrite (scan_value_quoted_semi n _ H).
  rewrite (scan_key_eq s_filename) by reflexivity.
  now rewrite (scan_value_quoted_end fn H').
Qed.

Lemma strip_sp_lit : strip (SP :: s_form_data) = s_form_data /\ strip (SP :: s_name) = s_name
                     /\ strip (SP :: s_filename) = s_filename.
Proof. repeat split; reflexivity. Qed.

Lemma parse_header_cd n :
  lacks QUOTE n ->
  parse_header (cd_line n)
  = Some (mkHeader s_content_disposition s_form_data [(s_name, Some n)]).
Proof.
  intros H. unfold parse_header.
  change (cd_line n) with
    (s_content_disposition ++ COLON :: SP :: s_form_data ++ SEMI :: SP :: s_name ++ EQ :: QUOTE :: n ++ [QUOTE]).
  rewrite split_once_app by reflexivity.
  unfold finditer_opts. cbn [length app s_form_data].
  rewrite (opt_matches_name _ n H). cbn [map fst snd option_map].
  rewrite (strip_quotes_quoted n H). reflexivity.
Qed.

Lemma parse_header_cd_file n fn :
  lacks QUOTE n -> lacks QUOTE fn ->
  parse_header (cd_line_file n fn)
  = Some (mkHeader s_content_disposition s_form_data [(s_name, Some n); (s_filename, Some fn)]).
Proof.
  intros H H'. unfold parse_header.
  change (cd_line_file n fn) with
    (s_content_disposition ++ COLON :: SP :: s_form_data ++ SEMI :: SP :: s_name ++ EQ :: QUOTE :: n
       ++ QUOTE :: SEMI :: SP :: s_filename ++ EQ :: QUOTE :: fn ++ [QUOTE]).
  rewrite split_once_app by reflexivity.
  unfold finditer_opts. cbn [length app s_form_data].
  rewrite (opt_matches_name_file _ n fn H H'). cbn [map fst snd option_map].
  rewrite (strip_quotes_quoted n H), (strip_quotes_quoted fn H'). reflexivity.
Qed.

(* a plain content type: no parameter separator, no '=', no surrounding white space *)
Definition ctype_ok (ct : str) : Prop := lacks SEMI ct /\ lacks EQ ct /\ strip ct = ct.

Lemma parse_header_ct ct :
  ctype_ok ct -> parse_header (ct_line ct) = Some (mkHeader s_content_type ct []).
Proof.
  intros (Hs & He & Hstrip). unfold parse_header.
  change (ct_line ct) with (s_content_type ++ COLON :: SP :: ct).
  rewrite split_once_app by reflexivity.
  unfold finditer_opts. cbn [length opt_matches].
  rewrite (scan_key_end ct Hs He). cbn [map].
  change (strip (SP :: ct)) with (strip ct). now rewrite Hstrip.
Qed.

(* ------------------------------------------------------------------ *)
(* splitlines on CRLF-joined lines free of line breaks *)
Definition no_linebreak (s : str) : Prop := forallb (fun c => negb (is_linebreak c)) s = true.

Lemma no_linebreak_cons c s : no_linebreak (c :: s) <-> is_linebreak c = false /\ no_linebreak s.
Proof. unfold no_linebreak; simpl. rewrite andb_true_iff, negb_true_iff. tauto. Qed.

Lemma no_linebreak_app a b : no_linebreak (a ++ b) <-> no_linebreak a /\ no_linebreak b.
Proof. unfold no_linebreak. rewrite forallb_app, andb_true_iff. tauto. Qed.

Lemma splitlines_line_crlf l r :
  no_linebreak l -> splitlines (l ++ 13 :: 10 :: r) = l :: splitlines r.
Proof.
  induction l as [|c l IH]; intros H.
  - reflexivity.
  - apply no_linebreak_cons in H. destruct H as [Hc Hl].
    change ((c :: l) ++ 13 :: 10 :: r) with (c :: (l ++ 13 :: 10 :: r)).
    cbn [splitlines]. rewrite Hc, (IH Hl). reflexivity.
Qed.

Lemma splitlines_single l : no_linebreak l -> l <> [] -> splitlines l = [l].
Proof.
  induction l as [|c l IH]; intros H Hne; [congruence|].
  apply no_linebreak_cons in H. destruct H as [Hc Hl].
  cbn [splitlines]. rewrite Hc. destruct l as [|d l].
  - reflexivity.
  - rewrite IH by (auto; discriminate). reflexivity.
Qed.
