(* C07_full.v — the composed round trip: what the handler sees in POST / forms /
   files equals the submitted fields, grouped by name. *)
From Verif Require Import lib.Base lib.ListX lib.Str lib.Utf8 model.MultipartRef model.Fields.
From Verif Require Import proofs.C07_fields proofs.C07_spec proofs.C07_ref proofs.C07_roundtrip proofs.C07_collect.

Section View.
Variable body : bytes.

Lemma view_items_app xs ys a b :
  view_items body xs = Some a -> view_items body ys = Some b -> view_items body (xs ++ ys) = Some (a ++ b).
Proof.
  revert a; induction xs as [|x xs IH]; intros a; cbn [view_items app].
  - intros [= <-] H. exact H.
  - destruct (view_item body x) as [vx|]; [|discriminate].
    destruct (view_items body xs) as [vxs|]; [|discriminate].
    intros [= <-] H. now rewrite (IH vxs eq_refl H).
Qed.

(* one insertion: the model's dict_add is vadd on the views *)
Lemma view_dict_add D D' k it v :
  view_dict body D = Some D' -> view_item body it = Some v ->
  view_dict body (dict_add D k it) = Some (vadd D' k v).
Proof.
  revert D'; induction D as [|[k0 val] D IH]; intros D' HD Hit.
  - injection HD as <-. cbn [dict_add view_dict view_val option_map vadd]. now rewrite Hit.
  - cbn [view_dict] in HD.
    destruct (view_val body val) as [a|] eqn:Ea; [|discriminate].
    destruct (view_dict body D) as [b|] eqn:Eb; [|discriminate].
    injection HD as <-. cbn [dict_add vadd].
    destruct (str_eqb k0 k).
    + cbn [view_dict]. rewrite Eb.
      destruct val as [x|xs]; cbn [view_val] in *.
      * destruct (view_item body x) as [a0|] eqn:Ex; [|discriminate]. injection Ea as <-.
        cbn [view_items]. rewrite Ex, Hit. reflexivity.
      * destruct (view_items body xs) as [as_|] eqn:Ex; [|discriminate]. injection Ea as <-.
        rewrite (view_items_app xs [it] as_ [v] Ex) by (cbn [view_items]; now rewrite Hit).
        reflexivity.
    + cbn [view_dict]. rewrite Ea, (IH b eq_refl Hit). reflexivity.
Qed.

Definition Rkv (kv : str * item) (kv' : str * vitem) : Prop :=
  fst kv = fst kv' /\ view_item body (snd kv) = Some (snd kv').

Lemma fold_view l l' :
  Forall2 Rkv l l' ->
  forall D D', view_dict body D = Some D' ->
    view_dict body (fold_left add1 l D) = Some (fold_left vadd1 l' D').
Proof.
  induction 1 as [|kv kv' l l' [Hk Hv] _ IH]; intros D D' HD; [exact HD|].
  cbn [fold_left]. apply IH. unfold add1, vadd1. rewrite <- Hk. now apply view_dict_add.
Qed.

End View.

(* ---- collect_fields as three folds ---- *)
Definition isfile (f : field) : bool := is_nonempty (f_filename f).

Definition kv_of (f : field) : str * item :=
  (f_name f,
   if isfile f
   then IFile (f_name f) (match f_filename f with Some x => x | None => [] end) (f_ctype f)
              (match f_file f with Some w => w | None => (0, 0)%Z end)
   else IText (f_value f)).

Lemma collect_one_kv acc f :
  collect_one acc f
  = if isfile f
    then mkPost (add1 (d_post acc) (kv_of f)) (d_forms acc) (add1 (d_files acc) (kv_of f))
    else mkPost (add1 (d_post acc) (kv_of f)) (add1 (d_forms acc) (kv_of f)) (d_files acc).
Proof.
  unfold collect_one, kv_of, isfile, add1. destruct (is_nonempty (f_filename f)); reflexivity.
Qed.

Lemma collect_folds fl :
  forall p fo fi,
    fold_left collect_one fl (mkPost p fo fi)
    = mkPost (fold_left add1 (map kv_of fl) p)
             (fold_left add1 (map kv_of (filter (fun f => negb (isfile f)) fl)) fo)
             (fold_left add1 (map kv_of (filter isfile fl)) fi).
Proof.
  induction fl as [|f fl IH]; intros p fo fi; [reflexivity|].
  cbn [fold_left map filter]. rewrite collect_one_kv. cbn [d_post d_forms d_files].
  destruct (isfile f); cbn [negb]; rewrite IH; reflexivity.
Qed.

Lemma Forall2_filter {A B} (R : A -> B -> Prop) p q l l' :
  (forall x y, R x y -> p x = q y) -> Forall2 R l l' -> Forall2 R (filter p l) (filter q l').
Proof.
  intros Hpq. induction 1 as [|x y l l' HR _ IH]; [constructor|].
  cbn [filter]. rewrite (Hpq x y HR). destruct (q y); [constructor; assumption | exact IH].
Qed.

Lemma Forall2_impl {A B} (R R' : A -> B -> Prop) l l' :
  (forall x y, R x y -> R' x y) -> Forall2 R l l' -> Forall2 R' l l'.
Proof. intros H. induction 1; constructor; auto. Qed.

Lemma Forall2_map {A B C D} (R : C -> D -> Prop) (f : A -> C) (g : B -> D) l l' :
  Forall2 (fun x y => R (f x) (g y)) l l' -> Forall2 R (map f l) (map g l').
Proof. induction 1; constructor; assumption. Qed.

(* ---- the FieldStorage objects of the form, related to the submitted fields ---- *)
Definition Rf (body : bytes) (x : field) (f : fld) : Prop :=
  Rkv body (kv_of x) (fld_name f, vitem_of f) /\ isfile x = negb (is_text f).

Lemma proxy_read_window (p x r : bytes) :
  fst (proxy_read (p ++ x ++ r)
         (proxy_open (Z.of_nat (length p), Z.of_nat (length p + length x))) None) = x.
Proof.
  unfold proxy_read, proxy_open. cbn [p_end p_pos p_st fst snd].
  destruct (Z.leb_spec (Z.of_nat (length p + length x) - Z.of_nat (length p)) 0) as [Hle|Hgt].
  - cbn [fst]. destruct x; [reflexivity | simpl length in Hle; lia].
  - cbn [fst]. replace (Z.of_nat (length p + length x) - Z.of_nat (length p))%Z with (Z.of_nat (length x)) by lia.
    apply read_at_slice.
Qed.

Lemma isfile_file n fn ct c ds de : fn <> [] -> isfile (field_of (FFile n fn ct c) ds de) = true.
Proof. intros H. unfold isfile, field_of. cbn [f_filename is_nonempty]. destruct fn; [congruence | reflexivity]. Qed.

Lemma kv_of_file n fn ct c ds de :
  fn <> [] ->
  kv_of (field_of (FFile n fn ct c) ds de) = (n, IFile n fn (Some ct) (Z.of_nat ds, Z.of_nat de)).
Proof. intros H. unfold kv_of. rewrite (isfile_file n fn ct c ds de H). reflexivity. Qed.

Lemma fields_from_rel B fs :
  Forall fld_ok fs ->
  forall pre body, body = pre ++ enc_rest B fs ->
    Forall2 (Rf body) (fields_from B (length pre) fs) fs.
Proof.
  induction fs as [|f fs IH]; intros Hok pre body Hb; [constructor|].
  inversion Hok as [|f' fs' Hf Hrest]; subst.
  cbn [fields_from enc_rest].
  set (pre' := pre ++ CRLF ++ hdr_bytes f ++ H4 ++ data_bytes f ++ token B).
  assert (Lp : length pre' = (length pre + 2 + length (hdr_bytes f) + 4 + length (data_bytes f)
                              + length (token B))%nat).
  { unfold pre'. rewrite !app_length. simpl length. lia. }
  assert (Eb : pre ++ CRLF ++ hdr_bytes f ++ H4 ++ data_bytes f ++ token B ++ enc_rest B fs
               = pre' ++ enc_rest B fs).
  { unfold pre'. repeat rewrite <- app_assoc. reflexivity. }
  constructor.
  - destruct f as [n v | n fn ct c].
    + split; [split; reflexivity | reflexivity].
    + destruct Hf as (_ & _ & Hne & _).
      unfold Rf, Rkv. rewrite (kv_of_file n fn ct c _ _ Hne).
      split; [|apply (isfile_file n fn ct c _ _ Hne)]. split; [reflexivity|].
      cbn [snd vitem_of view_item data_bytes]. f_equal. f_equal.
      set (p0 := pre ++ CRLF ++ hdr_bytes (FFile n fn ct c) ++ H4).
      assert (L0 : length p0 = (length pre + 2 + length (hdr_bytes (FFile n fn ct c)) + 4)%nat).
      { unfold p0. rewrite !app_length. simpl length. lia. }
      rewrite <- L0.
      replace (pre ++ CRLF ++ hdr_bytes (FFile n fn ct c) ++ H4 ++ c ++ token B ++ enc_rest B fs)
        with (p0 ++ c ++ token B ++ enc_rest B fs) by (unfold p0; repeat rewrite <- app_assoc; reflexivity).
      apply proxy_read_window.
  - rewrite Eb. rewrite <- Lp. apply IH; [exact Hrest | reflexivity].
Qed.

(* ---- the round trip ---- *)
Theorem roundtrip B fs mem :
  parts_ok B fs -> (total_cost fs <= mem)%Z ->
  exists d, post B (enc_form B fs) mem = POk d /\ view (enc_form B fs) d = Some (expected fs).
Proof.
  intros Hok Hc. eexists. split; [apply (post_enc_form B fs mem Hok Hc)|].
  set (body := enc_form B fs). set (fl := fields_from B (length (dash_boundary B)) fs).
  assert (Hrel : Forall2 (Rf body) fl fs).
  { apply fields_from_rel; [now apply (parts_ok_fld_ok B) | apply enc_form_rest]. }
  unfold collect_fields. rewrite collect_folds. unfold view. cbn [d_post d_forms d_files].
  assert (K : forall (p : field -> bool) (q : fld -> bool),
             (forall x y, Rf body x y -> p x = q y) ->
             view_dict body (fold_left add1 (map kv_of (filter p fl)) [])
             = Some (grouped (pairs (filter q fs)))).
  { intros p q Hpq. rewrite <- fold_vadd_grouped.
    apply (fold_view body); [|reflexivity]. unfold pairs. apply Forall2_map.
    eapply Forall2_impl; [|apply (Forall2_filter (Rf body) p q fl fs Hpq Hrel)].
    intros x y [H _]. exact H. }
  assert (K0 : view_dict body (fold_left add1 (map kv_of fl) []) = Some (grouped (pairs fs))).
  { rewrite <- fold_vadd_grouped. apply (fold_view body); [|reflexivity]. unfold pairs. apply Forall2_map.
    eapply Forall2_impl; [|exact Hrel]. intros x y [H _]. exact H. }
  rewrite K0.
  rewrite (K (fun f => negb (isfile f)) is_text) by (intros x y [_ H]; rewrite H; apply negb_involutive).
  rewrite (K isfile (fun f => negb (is_text f))) by (intros x y [_ H]; exact H).
  reflexivity.
Qed.

(* ------------------------------------------------------------------ *)
(* no byte of one part appears in another: every section is exactly the window
   of its own header block / data, and the windows are ordered and disjoint *)
Fixpoint windows_ok (body B : bytes) (a : nat) (fs : list fld) : Prop :=
  match fs with
  | [] => True
  | f :: r =>
    let hs := (a + 2)%nat in
    let he := (hs + length (hdr_bytes f))%nat in
    let ds := (he + 4)%nat in
    let de := (ds + length (data_bytes f))%nat in
    slice body hs he = hdr_bytes f /\ slice body ds de = data_bytes f /\
    windows_ok body B (de + length (token B))%nat r
  end.

Fixpoint ordered_from (lo : Z) (l : list section) : Prop :=
  match l with
  | [] => True
  | (_, a, b) :: r => (lo <= a)%Z /\ (a <= b)%Z /\ ordered_from (b + 1)%Z r
  end.

Lemma slice_app_mid {A} (p x r : list A) :
  slice (p ++ x ++ r) (length p) (length p + length x) = x.
Proof.
  unfold slice. rewrite (skipn_app_len p _ _ eq_refl).
  replace (length p + length x - length p)%nat with (length x) by lia.
  apply firstn_app_len. reflexivity.
Qed.

Lemma windows_enc B fs :
  forall pre body, body = pre ++ enc_rest B fs -> windows_ok body B (length pre) fs.
Proof.
  induction fs as [|f fs IH]; intros pre body Hb; [exact I|].
  cbn [windows_ok enc_rest] in *.
  set (pre' := pre ++ CRLF ++ hdr_bytes f ++ H4 ++ data_bytes f ++ token B).
  assert (Lp : length pre' = (length pre + 2 + length (hdr_bytes f) + 4 + length (data_bytes f)
                              + length (token B))%nat).
  { unfold pre'. rewrite !app_length. simpl length. lia. }
  split; [|split].
  - subst body. rewrite (app_assoc pre CRLF).
    replace (length pre + 2)%nat with (length (pre ++ CRLF)) by (rewrite app_length; reflexivity).
    apply slice_app_mid.
  - subst body.
    rewrite (app_assoc pre CRLF), (app_assoc (pre ++ CRLF)), (app_assoc ((pre ++ CRLF) ++ hdr_bytes f)).
    replace (length pre + 2 + length (hdr_bytes f) + 4)%nat with (length (((pre ++ CRLF) ++ hdr_bytes f) ++ H4))
      by (rewrite !app_length; simpl length; lia).
    apply slice_app_mid.
  - rewrite <- Lp. apply IH. subst body. unfold pre'. repeat rewrite <- app_assoc. reflexivity.
Qed.

Lemma ordered_secs B fs : forall a, ordered_from (Z.of_nat a) (secs_from B a fs).
Proof.
  induction fs as [|f fs IH]; intros a; [exact I|].
  cbn [secs_from ordered_from]. unfold sec. cbn [ordered_from].
  repeat split; try lia.
  specialize (IH (a + 2 + length (hdr_bytes f) + 4 + length (data_bytes f) + length (token B))%nat).
  revert IH. generalize (secs_from B (a + 2 + length (hdr_bytes f) + 4 + length (data_bytes f) + length (token B)) fs).
  intros l. destruct l as [|[[k x] y] l]; [trivial|]. cbn [ordered_from]. intros (H1 & H2 & H3).
  repeat split; try assumption. simpl length in *. lia.
Qed.

Theorem no_cross_part_bytes B fs :
  windows_ok (enc_form B fs) B (length (dash_boundary B)) fs
  /\ ordered_from 0 (sec Data 0 0 :: secs_from B (length (dash_boundary B)) fs).
Proof.
  split.
  - apply windows_enc. apply enc_form_rest.
  - unfold sec. cbn [ordered_from]. repeat split; try lia.
    pose proof (ordered_secs B fs (length (dash_boundary B))) as H. revert H.
    generalize (secs_from B (length (dash_boundary B)) fs). intros l.
    destruct l as [|[[k x] y] l]; [trivial|]. cbn [ordered_from]. intros (H1 & H2 & H3).
    repeat split; try assumption. simpl length in *. lia.
Qed.
