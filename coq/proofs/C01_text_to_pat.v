(* C01_text_to_pat.v — from rule TEXT to the rule-by-rule spec's [pat]:
   Route.parse_rule on a printed well-formed rule yields (pattern, filters)
   whose RouteSpec.pat_of is exactly the abstract rule — literals verbatim,
   one [Wild] per wildcard carrying (the number of) its filter key.  This is
   the bridge between the parser model (C01p) and the router model whose
   theorems speak about [pat]s (C01/C02/C11). *)
From Verif Require Import lib.Base lib.Str lib.PyIntDec gen.Gen model.RuleParser model.ParseRule
     model.RouteSpec proofs.C01_parser proofs.C01_parse_rule.

Lemma param_token_is_cr : Gen.param_token = ch_cr.
Proof. reflexivity. Qed.

Definition cr_free (s : str) : bool := forallb (fun c => negb (N.eqb c ch_cr)) s.

(* the filter key of an abstract wildcard followed by literal text [nxt] *)
Definition key_of (w : aw) (nxt : str) : option str :=
  match aw_flt w with
  | None => None
  | Some (flt, args) =>
    Some (filter_key flt (if str_eqb flt path_name then Some nxt else args))
  end.

Section Bridge.
Variable num : str -> fid.        (* the harness numbers the cached filter objects; any function *)

Fixpoint abs_pat (la : list (str + aw)) : pat :=
  match la with
  | [] => []
  | inl s :: r => Lit s :: abs_pat r
  | inr w :: r => Wild (option_map num (key_of w (next_lit r))) :: abs_pat r
  end.

Fixpoint pattern_text (la : list (str + aw)) : str :=
  match la with
  | [] => []
  | inl s :: r => s ++ pattern_text r
  | inr _ :: r => ch_cr :: pattern_text r
  end.

Fixpoint keys_of (la : list (str + aw)) : list (option str) :=
  match la with
  | [] => []
  | inl _ :: r => keys_of r
  | inr w :: r => key_of w (next_lit r) :: keys_of r
  end.

(* abstract well-formedness needed for the bridge: literals non-empty and free
   of the wildcard marker, no two adjacent literals, no selectors, filter names non-empty *)
Fixpoint abs_ok (la : list (str + aw)) : Prop :=
  match la with
  | [] => True
  | inl s :: r => s <> [] /\ cr_free s = true /\ abs_ok r /\ match r with inl _ :: _ => False | _ => True end
  | inr w :: r => aw_sel w = None /\ abs_ok r /\
                  match aw_flt w with Some ([], _) => False | _ => True end
  end.

Lemma pat_of_aux_lit s : forall acc rest flts,
  cr_free s = true ->
  pat_of_aux acc (s ++ rest) flts = pat_of_aux (rev s ++ acc) rest flts.
Proof.
  induction s as [|c s IH]; intros acc rest flts H; [reflexivity|].
  simpl in H. apply andb_true_iff in H. destruct H as [Hc Hs].
  cbn [app pat_of_aux]. rewrite param_token_is_cr.
  apply negb_true_iff in Hc. rewrite Hc.
  rewrite (IH (c :: acc) rest flts Hs). cbn [rev]. now rewrite <- app_assoc.
Qed.

Lemma flush_rev (s : str) :
  s <> [] -> match rev s with [] => [] | _ :: _ => [Lit (rev (rev s))] end = [Lit s].
Proof.
  intros Hne. destruct (rev s) eqn:E.
  - apply (f_equal (@rev N)) in E. rewrite rev_involutive in E. simpl in E. congruence.
  - rewrite <- E, rev_involutive. reflexivity.
Qed.

Lemma pat_of_abs : forall la,
  abs_ok la ->
  pat_of_aux [] (pattern_text la) (map (option_map num) (keys_of la)) = abs_pat la.
Proof.
  induction la as [|[s|w] r IH]; intros Hok; [reflexivity| |].
  - (* literal, followed by a wildcard or the end *)
    cbn [abs_ok] in Hok. destruct Hok as (Hne & Hcr & Hr & Hadj).
    cbn [pattern_text keys_of abs_pat].
    rewrite (pat_of_aux_lit s [] _ _ Hcr), app_nil_r.
    destruct r as [|[s'|w'] r']; [| destruct Hadj |].
    + cbn [pattern_text keys_of map pat_of_aux abs_pat].
      apply flush_rev. exact Hne.
    + specialize (IH Hr).
      cbn [pattern_text keys_of map abs_pat] in *.
      cbn [pat_of_aux] in IH. cbn [pat_of_aux].
      rewrite param_token_is_cr in *. change (N.eqb ch_cr ch_cr) with true in *. cbn iota in *.
      cbn [app] in IH.
      rewrite (flush_rev s Hne). cbn [app]. f_equal. exact IH.
  - (* wildcard *)
    cbn [abs_ok] in Hok. destruct Hok as (_ & Hr & _).
    cbn [pattern_text keys_of map abs_pat pat_of_aux].
    rewrite param_token_is_cr. change (N.eqb ch_cr ch_cr) with true. cbn iota. cbn [app].
    f_equal. apply IH. exact Hr.
Qed.

(* what fold_items accumulates on the items of an abstract rule without selectors *)
Lemma fold_items_abs : forall la anon acc,
  abs_ok la ->
  let p := fold_items (items_abs la) anon acc in
  p_pattern p = p_pattern acc ++ pattern_text la /\
  p_filters p = p_filters acc ++ keys_of la.
Proof.
  induction la as [|[s|w] r IH]; intros anon acc Hok; cbn zeta.
  - cbn [items_abs fold_items pattern_text keys_of]. now rewrite !app_nil_r.
  - cbn [abs_ok] in Hok. destruct Hok as (Hne & _ & Hr & _).
    cbn [items_abs fold_items item_of_abs i_part i_sel is_empty pattern_text keys_of].
    destruct s as [|c s]; [congruence|]. cbn [is_empty].
    destruct (IH anon (mkParsed (p_pattern acc ++ (c :: s) ++ []) (p_params acc) (p_filters acc)
                                (p_pattern_out acc ++ c :: s)) Hr) as [H1 H2].
    cbn zeta in H1, H2. rewrite H1, H2. cbn [p_pattern p_filters].
    rewrite app_nil_r, <- app_assoc. split; reflexivity.
  - cbn [abs_ok] in Hok. destruct Hok as (Hsel & Hr & Hf).
    cbn [items_abs fold_items pattern_text keys_of].
    unfold item_of_abs, key_of. rewrite Hsel.
    destruct (aw_flt w) as [[flt args]|] eqn:Ef.
    + cbn [i_part i_sel i_param i_filter i_args is_empty].
      destruct flt as [|f0 flt]; [destruct Hf|]. cbn [is_empty].
      destruct (is_empty (aw_name w));
      (match goal with |- context [fold_items (items_abs r) ?a ?acc'] =>
        destruct (IH a acc' Hr) as [H1 H2] end;
       cbn zeta in H1, H2; rewrite H1, H2; cbn [p_pattern p_filters];
       rewrite <- !app_assoc; split; reflexivity).
    + cbn [i_part i_sel i_param i_filter i_args is_empty].
      destruct (is_empty (aw_name w));
      (match goal with |- context [fold_items (items_abs r) ?a ?acc'] =>
        destruct (IH a acc' Hr) as [H1 H2] end;
       cbn zeta in H1, H2; rewrite H1, H2; cbn [p_pattern p_filters];
       rewrite <- !app_assoc; split; reflexivity).
Qed.

End Bridge.

Section Text.
Variable wordc : N -> bool.
Hypothesis wordc_delims :
  forall c, In c [ch_slash; ch_gt; ch_rbrace; ch_dot; ch_colon; ch_lpar] -> wordc c = false.
Variable num : str -> fid.

Theorem text_to_pat l :
  segs_ok wordc l -> abs_ok (map abs_of_seg l) ->
  exists p,
    parse_rule wordc (ch_slash :: print l) = inr p /\
    pat_of (p_pattern p) (map (option_map num) (p_filters p)) = abs_pat num (map abs_of_seg l).
Proof.
  intros Hok Habs. eexists. split; [apply (parse_rule_print wordc wordc_delims l Hok)|].
  destruct (fold_items_abs (map abs_of_seg l) 0 (mkParsed [] [] [] []) Habs) as [H1 H2].
  cbn zeta in H1, H2. unfold pat_of. rewrite H1, H2. cbn [p_pattern p_filters app].
  apply pat_of_abs. exact Habs.
Qed.

End Text.

(* non-vacuity: u/<id:int>/{n} *)
Lemma rule_a_abs_ok : abs_ok (map abs_of_seg rule_a).
Proof. vm_compute. intuition discriminate. Qed.
