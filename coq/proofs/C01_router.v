(* C01_router.v — stage 3 of C01: the router built by any sequence of
   registrations resolves a path exactly as the rule-by-rule spec does on the
   rules its `routes` index lists. *)
From Verif Require Import lib.Base lib.Str gen.Gen model.RouteSpec model.Dispatch model.Router
     proofs.C02_proofs proofs.C01_get proofs.C01_insert.

Local Opaque TOKEN.
Local Arguments N.eqb : simpl never.

(* ------------------------------------------------------------------ *)
(* RouteSpec.pat_of and the character-level pattern                     *)
(* ------------------------------------------------------------------ *)
Lemma flat_app a b : flat (a ++ b) = flat a ++ flat b.
Proof. unfold flat. apply flat_map_app. Qed.

Lemma flat_pat_of_aux route : forall acc fl,
  flat (pat_of_aux acc route fl) = map PC (rev acc) ++ fpat route fl.
Proof.
  induction route as [|c r IH]; intros acc fl; simpl.
  - destruct acc; simpl; [reflexivity|]. unfold flat. simpl. now rewrite !app_nil_r.
  - change Gen.param_token with TOKEN. destruct (N.eqb c TOKEN).
    + assert (Hflush : forall rest, flat (match acc with [] => [] | _ :: _ => [Lit (rev acc)] end ++ rest)
                                   = map PC (rev acc) ++ flat rest).
      { intros rest. destruct acc; [reflexivity|]. rewrite flat_app. unfold flat at 1. simpl.
        now rewrite app_nil_r. }
      destruct fl as [|f fs]; rewrite Hflush; f_equal.
      * change (flat (Wild None :: pat_of_aux [] r [])) with (PW None :: flat (pat_of_aux [] r [])).
        now rewrite IH.
      * change (flat (Wild f :: pat_of_aux [] r fs)) with (PW f :: flat (pat_of_aux [] r fs)).
        now rewrite IH.
    + rewrite IH. simpl. rewrite map_app, <- app_assoc. reflexivity.
Qed.

Lemma flat_pat_of route fl : flat (pat_of route fl) = fpat route fl.
Proof. unfold pat_of. now rewrite flat_pat_of_aux. Qed.

(* the route string is recoverable from its character-level pattern *)
Lemma fpat_inj p : forall fl p' fl', fpat p fl = fpat p' fl' -> p = p'.
Proof.
  induction p as [|c r IH]; intros fl [|c' r'] fl'; simpl; try reflexivity.
  - destruct (N.eqb c' TOKEN); [destruct fl'|]; discriminate.
  - destruct (N.eqb c TOKEN); [destruct fl|]; discriminate.
  - destruct (N.eqb_spec c TOKEN) as [->|Hc], (N.eqb_spec c' TOKEN) as [->|Hc'].
    + destruct fl, fl'; intros H; inversion H; f_equal; eauto.
    + destruct fl; discriminate.
    + destruct fl'; discriminate.
    + intros [= -> H]. f_equal. eauto.
Qed.

Lemma fpat_lit_inv s : forall route fl p0,
  ~ In TOKEN s -> map PC s ++ p0 = fpat route fl ->
  route = s ++ skipn (length s) route /\ p0 = fpat (skipn (length s) route) fl.
Proof.
  induction s as [|c s IH]; intros route fl p0 Hn H; simpl in *; [auto|].
  destruct route as [|x r]; [discriminate|]. simpl in H.
  destruct (N.eqb_spec x TOKEN) as [->|Hx].
  - destruct fl; discriminate.
  - injection H as -> H. destruct (IH r fl p0) as (H1 & H2); [tauto | exact H|].
    split; [simpl; now f_equal | exact H2].
Qed.

(* ------------------------------------------------------------------ *)
(* pick selects the optimal hit                                         *)
(* ------------------------------------------------------------------ *)
Lemma pc_eqb_sym x y : pc_eqb x y = pc_eqb y x.
Proof.
  destruct x as [c|[f|]], y as [d|[g|]]; simpl; auto using N.eqb_sym, Nat.eqb_sym.
Qed.

Lemma betterb_asym a : forall b, betterb a b = true -> betterb b a = false.
Proof.
  induction a as [|x a IH]; intros [|y b]; simpl; try discriminate.
  - destruct x; discriminate.
  - destruct x as [c|f], y as [d|g]; simpl.
    + intros H. apply andb_true_iff in H. destruct H as [H1 H2]. rewrite N.eqb_sym, H1. simpl. auto.
    + reflexivity.
    + discriminate.
    + intros H. apply andb_true_iff in H. destruct H as [H1 H2].
      change (ofid_eqb g f) with (pc_eqb (PW g) (PW f)). rewrite pc_eqb_sym. simpl. rewrite H1. simpl. auto.
Qed.

Section Pick.
Context {R : Type}.
Let hit := (pat * R * list value)%type.
Definition hpat (h : hit) : list pc := flat (fst (fst h)).

Lemma pick_in (hs : list hit) h : pick hs = Some h -> In h hs.
Proof.
  revert h. induction hs as [|h1 hs IH]; intros h; simpl; [discriminate|].
  destruct (pick hs) as [b|].
  - destruct (betterb _ _); intros [= <-]; auto.
  - intros [= <-]. now left.
Qed.

Lemma pick_unique_best (hs : list hit) h :
  In h hs -> (forall h', In h' hs -> h' = h \/ betterb (hpat h) (hpat h') = true) ->
  pick hs = Some h.
Proof.
  induction hs as [|h1 hs IH]; intros Hin Hbest; [destruct Hin|]. simpl.
  assert (Hb' : forall b, pick hs = Some b -> b = h \/ betterb (hpat h) (hpat b) = true).
  { intros b Ep. apply Hbest. right. eapply pick_in; eauto. }
  destruct Hin as [->|Hin].
  - destruct (pick hs) as [b|] eqn:Ep; [|reflexivity].
    destruct (Hb' b eq_refl) as [->|Hb].
    + destruct (betterb _ _); reflexivity.
    + unfold hpat in Hb. rewrite (betterb_asym _ _ Hb). reflexivity.
  - rewrite (IH Hin (fun h' H' => Hbest h' (or_intror H'))).
    destruct (Hbest h1 (or_introl eq_refl)) as [->|Hb1].
    + destruct (betterb _ _); reflexivity.
    + unfold hpat in Hb1. rewrite Hb1. reflexivity.
Qed.
End Pick.

(* ------------------------------------------------------------------ *)
(* _match finds what the tree holds                                     *)
(* ------------------------------------------------------------------ *)
Lemma tm_go_find rec fl c0 route pidx ks k :
  Forall (fun k => key_ok (nkey k)) ks -> NoDup (map khead ks) -> In k ks -> khead k = c0 ->
  tm_go rec fl c0 route pidx ks = tm_kid rec fl k route pidx.
Proof.
  induction ks as [|k1 ks IH]; intros Hok Hnd Hin Hh; [destruct Hin|]. simpl.
  inversion Hok as [|? ? Hk1 Hoks]; subst. inversion Hnd as [|? ? Hn1 Hnds]; subst.
  destruct (head_is k1 (khead k)) eqn:E.
  - apply head_is_khead in E; [|apply Hk1]. destruct Hin as [->|Hin]; [reflexivity|].
    exfalso. apply Hn1. rewrite E. now apply in_map.
  - destruct Hin as [->|Hin]; [|now apply IH].
    exfalso. assert (head_is k (khead k) = true) by (apply head_is_khead; [apply Hk1 | reflexivity]). congruence.
Qed.

Lemma kid_of_entry ks p e :
  In (p, e) (kids_entries ks) -> exists k p0, In k ks /\ p = key_pcs k ++ p0 /\ In (p0, e) (paths k).
Proof.
  intros H. apply in_kids_entries in H. destruct H as (k & Hk & H). apply in_kid_entries in H.
  destruct H as (p0 & -> & H). eauto.
Qed.

Lemma tmatch_complete : forall n, wf n -> forall route fl0 x flts pidx,
  In (fpat route fl0, x) (paths n) -> ntok route + pidx <= length flts ->
  (exists n0, tmatch n route flts pidx = MExact n0 /\ ndata n0 = Some (fst x) /\ nnames n0 = snd x)
  \/ tmatch n route flts pidx = MMis MFilter.
Proof.
  induction n as [key d nm0 f h kids IH] using node_ind'. intros Hw route fl0 x flts pidx Hin Hn.
  pose proof (wf_inv _ _ _ _ _ _ Hw) as (H1 & H2 & H3 & H4).
  rewrite paths_node in Hin. apply in_app_or in Hin.
  destruct route as [|c0 r].
  - left. exists (Node key d nm0 f h kids). split; [reflexivity|]. simpl in Hin.
    destruct Hin as [Hin|Hin].
    + destruct d as [y|]; [|destruct Hin]. destruct Hin as [Hin|[]]. injection Hin as <-. simpl. auto.
    + exfalso. apply kid_of_entry in Hin. destruct Hin as (k & p0 & Hk & Hp & _).
      rewrite Forall_forall in H2. specialize (H2 k Hk). unfold key_pcs in Hp.
      destruct (str_eqb (nkey k) tok); [discriminate|]. destruct H2 as [Hne _].
      destruct (nkey k); [contradiction | discriminate].
  - destruct Hin as [Hin|Hin].
    { exfalso. destruct d; [|destruct Hin]. destruct Hin as [Hin|[]]. simpl in Hin.
      destruct (N.eqb c0 TOKEN); [destruct fl0|]; discriminate. }
    apply kid_of_entry in Hin. destruct Hin as (k & p0 & Hk & Hp & Hp0).
    rewrite Forall_forall in IH, H1. pose proof H2 as H2'. rewrite Forall_forall in H2'.
    specialize (H2' k Hk).
    cbn [tmatch].
    destruct (str_eqb_spec (nkey k) tok) as [Ht|Ht].
    + (* wildcard child *)
      rewrite key_pcs_tok in Hp by exact Ht.
      assert (Hc0 : c0 = TOKEN).
      { simpl in Hp. destruct (N.eqb_spec c0 TOKEN); [auto | discriminate]. }
      subst c0.
      assert (Hkh : khead k = TOKEN) by (unfold khead; now rewrite Ht).
      rewrite (tm_go_find _ flts TOKEN (TOKEN :: r) pidx kids k H2 H3 Hk Hkh).
      unfold tm_kid. rewrite Ht.
      assert (Epre : prefixb tok (TOKEN :: r) = true) by (apply prefixb_spec; exists r; reflexivity).
      rewrite Epre, str_eqb_refl. unfold filter_check.
      assert (Hnt : ntok (TOKEN :: r) = S (ntok r)) by (simpl; now rewrite N.eqb_refl).
      rewrite Hnt in Hn.
      destruct flts as [|g0 gs] eqn:Eflts; [simpl in Hn; lia|]. rewrite <- Eflts in *.
      destruct (nth_error flts pidx) as [g|] eqn:Enth.
      2:{ apply nth_error_None in Enth. lia. }
      destruct (ofid_eqb (nflt k) g); [|now right].
      simpl in Hp. rewrite N.eqb_refl in Hp.
      assert (Hp0' : exists fl1, p0 = fpat r fl1).
      { destruct fl0 as [|f0 fs0]; injection Hp as _ Hp; eauto. }
      destruct Hp0' as [fl1 ->].
      apply (IH k Hk (H1 k Hk) r fl1 x flts (S pidx)); [exact Hp0 | lia].
    + (* literal child *)
      assert (Hlit : ~ In TOKEN (nkey k)) by (destruct H2' as [_ [E|E]]; [contradiction | exact E]).
      rewrite key_pcs_lit in Hp by (auto; apply H2'). symmetry in Hp.
      destruct (fpat_lit_inv _ _ _ _ Hlit Hp) as (Hr & Hp0').
      assert (Hkh : khead k = c0).
      { unfold khead. destruct (nkey k) as [|y s] eqn:E; [destruct H2'; contradiction|].
        simpl in Hr. now injection Hr. }
      rewrite (tm_go_find _ flts c0 (c0 :: r) pidx kids k H2 H3 Hk Hkh).
      unfold tm_kid.
      assert (Epre : prefixb (nkey k) (c0 :: r) = true) by (apply prefixb_spec; eauto).
      rewrite Epre, lit_not_tok by (auto; apply H2').
      subst p0. apply (IH k Hk (H1 k Hk) _ fl0 x flts pidx); [exact Hp0|].
      rewrite <- (ntok_lit (nkey k)) by exact Hlit. now rewrite <- Hr.
Qed.

(* _set runs the same descent as _match: where _match reports a filter
   mismatch _set raises it, where _match finds a node holding data a new
   registration is refused *)
Lemma set_at_sim : forall n route flts pidx d nm,
  (tmatch n route flts pidx = MMis MFilter -> set_at n route flts pidx (IData d) nm = SErr EFilter) /\
  (forall n0, tmatch n route flts pidx = MExact n0 -> ndata n0 <> None ->
              set_at n route flts pidx (IData d) nm = SErr ERegistered).
Proof.
  induction n as [key d0 nm0 f h kids IH] using node_ind'. intros route flts pidx d nm.
  destruct route as [|c0 r].
  - split; [discriminate|]. simpl. intros n0 [= <-] Hd. simpl in Hd. destruct d0; [reflexivity | contradiction].
  - cbn [tmatch set_at].
    assert (G : forall ks, Forall (fun k => forall route flts pidx d nm,
                  (tmatch k route flts pidx = MMis MFilter -> set_at k route flts pidx (IData d) nm = SErr EFilter) /\
                  (forall n0, tmatch k route flts pidx = MExact n0 -> ndata n0 <> None ->
                              set_at k route flts pidx (IData d) nm = SErr ERegistered)) ks ->
              (tm_go (fun k r p => tmatch k r flts p) flts c0 (c0 :: r) pidx ks = MMis MFilter ->
               set_go (fun k r p => set_at k r flts p (IData d) nm) flts (IData d) nm c0 (c0 :: r) pidx ks
               = Some (inr EFilter)) /\
              (forall n0, tm_go (fun k r p => tmatch k r flts p) flts c0 (c0 :: r) pidx ks = MExact n0 ->
               ndata n0 <> None ->
               set_go (fun k r p => set_at k r flts p (IData d) nm) flts (IData d) nm c0 (c0 :: r) pidx ks
               = Some (inr ERegistered))).
    { induction ks as [|k ks IHks]; intros HF; simpl; [split; [discriminate | intros; discriminate]|].
      inversion HF as [|? ? Hk Hks]; subst.
      destruct (head_is k c0).
      - unfold tm_kid, set_kid. destruct (prefixb (nkey k) (c0 :: r)).
        + destruct (str_eqb (nkey k) tok).
          * destruct (filter_check flts pidx k) as [[| | |]|].
            -- split; [discriminate | intros; discriminate].
            -- split; [discriminate | intros; discriminate].
            -- split; [reflexivity | intros; discriminate].
            -- split; [discriminate | intros; discriminate].
            -- destruct (Hk (skipn 1 (c0 :: r)) flts (S pidx) d nm) as (A & B). split.
               ++ intros E. now rewrite (A E).
               ++ intros n0 E Hd. now rewrite (B n0 E Hd).
          * destruct (Hk (skipn (length (nkey k)) (c0 :: r)) flts pidx d nm) as (A & B). split.
            ++ intros E. now rewrite (A E).
            ++ intros n0 E Hd. now rewrite (B n0 E Hd).
        + split; [discriminate | intros; discriminate].
      - destruct (IHks Hks) as (A & B). split.
        + intros E. now rewrite (A E).
        + intros n0 E Hd. now rewrite (B n0 E Hd). }
    destruct (G kids IH) as (A & B). split.
    + intros E. now rewrite (A E).
    + intros n0 E Hd. now rewrite (B n0 E Hd).
Qed.

(* ------------------------------------------------------------------ *)
(* association lists, the heap                                          *)
(* ------------------------------------------------------------------ *)
Lemma al_get_set {B} (l : list (str * B)) k v k' :
  al_get (al_set l k v) k' = if str_eqb k k' then Some v else al_get l k'.
Proof.
  induction l as [|[k0 v0] l IH]; simpl.
  - destruct (str_eqb_spec k k'); reflexivity.
  - destruct (str_eqb_spec k0 k) as [->|Hn]; simpl.
    + destruct (str_eqb_spec k k'); reflexivity.
    + destruct (str_eqb_spec k0 k') as [->|Hk].
      * destruct (str_eqb_spec k k'); [congruence | reflexivity].
      * exact IH.
Qed.

Lemma al_keys_set {B} (l : list (str * B)) k v :
  al_get l k = None -> map fst (al_set l k v) = map fst l ++ [k].
Proof.
  induction l as [|[k0 v0] l IH]; simpl; [reflexivity|].
  destruct (str_eqb_spec k0 k) as [->|Hn]; [discriminate|]. intros H. simpl. now rewrite IH.
Qed.

Lemma al_get_in {B} (l : list (str * B)) k v : al_get l k = Some v -> In (k, v) l.
Proof.
  induction l as [|[k0 v0] l IH]; simpl; [discriminate|].
  destruct (str_eqb_spec k0 k) as [->|Hn]; [intros [= ->]; now left | intros H; right; auto].
Qed.

Lemma al_in_get {B} (l : list (str * B)) k v : NoDup (map fst l) -> In (k, v) l -> al_get l k = Some v.
Proof.
  induction l as [|[k0 v0] l IH]; simpl; intros Hnd Hin; [destruct Hin|].
  inversion Hnd as [|? ? Hn Hd]; subst. destruct Hin as [[= -> ->]|Hin].
  - now rewrite str_eqb_refl.
  - destruct (str_eqb_spec k0 k) as [->|Hne]; [|auto].
    exfalso. apply Hn. apply in_map_iff. exists (k, v). auto.
Qed.

Lemma al_get_none_notin {B} (l : list (str * B)) k : al_get l k = None -> ~ In k (map fst l).
Proof.
  induction l as [|[k0 v0] l IH]; simpl; [tauto|].
  destruct (str_eqb_spec k0 k) as [->|Hn]; [discriminate|]. intros H [E|E]; [congruence | now apply IH].
Qed.

Lemma nth_error_heap_set h : forall d r d',
  nth_error (heap_set h d r) d' =
  if Nat.eqb d d' then match nth_error h d with Some _ => Some r | None => None end else nth_error h d'.
Proof.
  induction h as [|x h IH]; intros d r d'.
  - simpl. destruct d, d'; simpl; try reflexivity; destruct (Nat.eqb _ _); reflexivity.
  - destruct d as [|d], d' as [|d']; simpl; try reflexivity. apply IH.
Qed.

(* ------------------------------------------------------------------ *)
(* the invariant tying tree, heap and the routes index                  *)
(* ------------------------------------------------------------------ *)
Definition entry_of (p : str) (d : rid) (rt : route) : entry :=
  (fpat p (r_filters rt), (d, r_names rt)).

Record Inv (R : router) : Prop := {
  inv_wf : wf (tree R);
  inv_paths : forall e, In e (paths (tree R)) <->
                        exists p d rt, al_get (routes R) p = Some d /\ nth_error (heap R) d = Some rt /\
                                       e = entry_of p d rt;
  inv_routes : forall p d, al_get (routes R) p = Some d ->
                           exists rt, nth_error (heap R) d = Some rt /\ r_pattern rt = p /\
                                      ntok p = length (r_filters rt);
  inv_nodup : NoDup (map fst (routes R))
}.

Lemma Inv0 : Inv router0.
Proof.
  constructor; simpl.
  - constructor; constructor.
  - intros e. split; [intros [] | intros (p & d & rt & H & _); discriminate].
  - intros p d H. discriminate.
  - constructor.
Qed.

Definition core (rt : route) := (r_pattern rt, r_names rt, r_filters rt).

(* edits of method tables / names / hook index leave the invariant alone *)
Lemma Inv_same_core R R' :
  Inv R -> tree R' = tree R -> routes R' = routes R ->
  (forall d, option_map core (nth_error (heap R') d) = option_map core (nth_error (heap R) d)) ->
  Inv R'.
Proof.
  intros [I1 I2 I3 I4] Ht Hr Hh.
  assert (Hc : forall d rt', nth_error (heap R') d = Some rt' ->
                             exists rt, nth_error (heap R) d = Some rt /\ core rt = core rt').
  { intros d rt' E. specialize (Hh d). rewrite E in Hh. simpl in Hh.
    destruct (nth_error (heap R) d) as [rt|]; [|discriminate]. simpl in Hh.
    exists rt. split; [reflexivity | congruence]. }
  assert (Hc' : forall d rt, nth_error (heap R) d = Some rt ->
                             exists rt', nth_error (heap R') d = Some rt' /\ core rt = core rt').
  { intros d rt E. specialize (Hh d). rewrite E in Hh. simpl in Hh.
    destruct (nth_error (heap R') d) as [rt'|]; [|discriminate]. simpl in Hh.
    exists rt'. split; [reflexivity | congruence]. }
  constructor; rewrite ?Ht, ?Hr; auto.
  - intros e. rewrite I2. split; intros (p & d & rt & A & B & C).
    + destruct (Hc' d rt B) as (rt' & B' & Hcore). exists p, d, rt'. split; [exact A|]. split; [exact B'|].
      unfold entry_of, core in *. injection Hcore as _ E2 E3. now rewrite <- E2, <- E3.
    + destruct (Hc d rt B) as (rt0 & B' & Hcore). exists p, d, rt0. split; [exact A|]. split; [exact B'|].
      unfold entry_of, core in *. injection Hcore as _ E2 E3. now rewrite E2, E3.
  - intros p d A. destruct (I3 p d A) as (rt & B & C & D). destruct (Hc' d rt B) as (rt' & B' & Hcore).
    exists rt'. unfold core in Hcore. injection Hcore as E1 E2 E3. rewrite <- E1, <- E3. auto.
Qed.

Lemma core_set_methods rt t : core (set_methods rt t) = core rt.
Proof. reflexivity. Qed.

Lemma Inv_heap_set R d rt t nmd hk :
  Inv R -> nth_error (heap R) d = Some rt ->
  Inv (mkRouter (tree R) (heap_set (heap R) d (set_methods rt t)) (routes R) nmd hk).
Proof.
  intros HI E. apply (Inv_same_core R); auto. intros d'. simpl. rewrite nth_error_heap_set.
  destruct (Nat.eqb_spec d d') as [->|Hne]; [|reflexivity]. now rewrite E.
Qed.

(* the registration part of _add: reuse or insert *)
Lemma Inv_add_found R rule pattern nm flts :
  Inv R -> ntok pattern = length flts ->
  match (match rt_match R pattern flts with
         | Some d => inl (R, d)
         | None =>
           let d := length (heap R) in
           match set_at (tree R) pattern flts 0 (IData d) nm with
           | SErr e => inr e
           | SOk t' => inl (mkRouter t' (heap R ++ [mkRoute rule pattern nm flts []])
                                     (al_set (routes R) pattern d) (named R) (hooks_idx R), d)
           end
         end) with
  | inl (R1, _) => Inv R1
  | inr _ => True
  end.
Proof.
  intros HI Hn. destruct (rt_match R pattern flts) as [d|] eqn:Em; [exact HI|].
  cbv zeta. destruct (set_at (tree R) pattern flts 0 (IData (length (heap R))) nm) as [t'|e] eqn:Es; [|exact I].
  destruct HI as [I1 I2 I3 I4].
  (* the pattern is not in the index yet *)
  assert (K : al_get (routes R) pattern = None).
  { destruct (al_get (routes R) pattern) as [d0|] eqn:Ek; [|reflexivity]. exfalso.
    destruct (I3 pattern d0 Ek) as (rt0 & B & C & D).
    assert (Hin : In (entry_of pattern d0 rt0) (paths (tree R))) by (apply I2; exists pattern, d0, rt0; auto).
    destruct (tmatch_complete (tree R) I1 pattern (r_filters rt0) (d0, r_names rt0) flts 0 Hin) as [(n0 & E1 & E2 & _)|E];
      [lia | |].
    - unfold rt_match in Em. rewrite E1 in Em. simpl in E2. congruence.
    - destruct (set_at_sim (tree R) pattern flts 0 (length (heap R)) nm) as (A & _). rewrite (A E) in Es. discriminate. }
  set (d := length (heap R)) in *. set (new := mkRoute rule pattern nm flts []).
  assert (Hold : forall d' rt', nth_error (heap R) d' = Some rt' -> nth_error (heap R ++ [new]) d' = Some rt').
  { intros d' rt' E. rewrite nth_error_app1; [exact E|]. apply nth_error_Some. congruence. }
  assert (Hnew : nth_error (heap R ++ [new]) d = Some new).
  { unfold d. rewrite nth_error_app2 by lia. now rewrite Nat.sub_diag. }
  constructor; simpl.
  - eapply wf_insert; eauto. lia.
  - intros e. rewrite (insert_paths (tree R) pattern flts (IData d) nm t' I1) by (auto; lia). simpl. split.
    + intros [[<-|[]]|Hin].
      * exists pattern, d, new. rewrite al_get_set, str_eqb_refl. split; [reflexivity|]. split; [exact Hnew|].
        unfold entry_of, pre. simpl. now rewrite app_nil_r.
      * apply I2 in Hin. destruct Hin as (p & d0 & rt0 & A & B & C). exists p, d0, rt0.
        rewrite al_get_set. destruct (str_eqb_spec pattern p) as [->|Hne]; [congruence|].
        split; [exact A|]. split; [now apply Hold | exact C].
    + intros (p & d0 & rt0 & A & B & C). rewrite al_get_set in A.
      destruct (str_eqb_spec pattern p) as [<-|Hne].
      * injection A as <-. rewrite Hnew in B. injection B as <-. left. left. subst e.
        unfold entry_of, pre. simpl. now rewrite app_nil_r.
      * right. apply I2. destruct (I3 p d0 A) as (rt1 & B1 & _). rewrite (Hold _ _ B1) in B.
        injection B as <-. exists p, d0, rt1. auto.
  - intros p d0 A. rewrite al_get_set in A. destruct (str_eqb_spec pattern p) as [<-|Hne].
    + injection A as <-. exists new. auto.
    + destruct (I3 p d0 A) as (rt1 & B1 & C). exists rt1. split; [now apply Hold | exact C].
  - rewrite (al_keys_set _ _ _ K). clear - I4 K. apply al_get_none_notin in K.
    induction (map fst (routes R)) as [|x l IH]; simpl.
    + constructor; [intros [] | constructor].
    + inversion I4; subst. constructor.
      * rewrite in_app_iff. simpl. intros [H|[H|[]]]; [auto | apply K; now left].
      * apply IH; auto. intros H. apply K. now right.
Qed.

Lemma Inv_rt_add R rule pattern nm flts ms h name ow :
  Inv R -> ntok pattern = length flts ->
  Inv (fst (rt_add R rule pattern nm flts ms h name ow)).
Proof.
  intros HI Hn. pose proof (Inv_add_found R rule pattern nm flts HI Hn) as Hf. unfold rt_add.
  destruct (match rt_match R pattern flts with Some d => inl (R, d) | None => _ end) as [[R1 d]|e]; [|exact HI].
  destruct (nth_error (heap R1) d) as [rt|] eqn:E; [|exact Hf].
  destruct (if ow then Some _ else mt_add _ _ _) as [t'|]; [|exact Hf].
  assert (G : forall nmd, Inv (mkRouter (tree R1) (heap_set (heap R1) d (set_methods rt t')) (routes R1) nmd (hooks_idx R1)))
    by (intros; now apply Inv_heap_set).
  destruct name as [[|c nme]|]; simpl; try apply G.
  destruct (al_get (named R1) (c :: nme)) as [d0|]; simpl; [|apply G].
  destruct (negb ow && negb (Nat.eqb d0 d)); apply G.
Qed.

Lemma Inv_rt_remove_method R p fl ms : Inv R -> Inv (rt_remove_method R p fl ms).
Proof.
  intros HI. unfold rt_remove_method. destruct (rt_match R p fl) as [d|]; [|exact HI].
  destruct (nth_error (heap R) d) as [rt|] eqn:E; [|exact HI]. now apply Inv_heap_set.
Qed.

(* scripts of registrations (well-formed: one filter per wildcard),
   method removals and probes *)
Definition add_cmd (c : cmd) : Prop :=
  match c with
  | CAdd _ p _ fl _ _ _ _ => ntok p = length fl
  | CRemoveMethod _ _ _ | PDispatch _ _ _ | PByName _ | PByRule _ _ | PListing => True
  | _ => False
  end.

Lemma Inv_step R c : Inv R -> add_cmd c -> Inv (fst (run_cmd R c)).
Proof.
  intros HI Hc. destruct c; simpl in *; try contradiction; try exact HI.
  - pose proof (Inv_rt_add R rule pattern nm flts methods h name overwrite HI Hc) as G.
    now destruct (rt_add R rule pattern nm flts methods h name overwrite).
  - now apply Inv_rt_remove_method.
Qed.

Lemma Inv_exec cs : forall R, Inv R -> Forall add_cmd cs -> Inv (exec_cmds R cs).
Proof.
  unfold exec_cmds. induction cs as [|c cs IH]; intros R HI Hcs; simpl; [exact HI|].
  inversion Hcs; subst. apply IH; auto. now apply Inv_step.
Qed.

(* ------------------------------------------------------------------ *)
(* the registered rules, as the spec sees them                          *)
(* ------------------------------------------------------------------ *)
Definition rules_of (R : router) : list (pat * rid) :=
  flat_map (fun pd => match nth_error (heap R) (snd pd) with
                      | Some rt => [(pat_of (fst pd) (r_filters rt), snd pd)]
                      | None => []
                      end) (routes R).

Lemma in_rules_of R q d :
  In (q, d) (rules_of R) <->
  exists p rt, In (p, d) (routes R) /\ nth_error (heap R) d = Some rt /\ q = pat_of p (r_filters rt).
Proof.
  unfold rules_of. rewrite in_flat_map. split.
  - intros ([p d0] & Hin & H). simpl in H. destruct (nth_error (heap R) d0) as [rt|] eqn:E; [|destruct H].
    destruct H as [[= <- <-]|[]]. eauto.
  - intros (p & rt & Hin & E & ->). exists (p, d). split; [exact Hin|]. simpl. rewrite E. now left.
Qed.

Lemma in_hits {X} filt (rules : list (pat * X)) path q x vs :
  In (q, x, vs) (hits filt rules path) <-> In (q, x) rules /\ match1 filt q path = Some vs.
Proof.
  unfold hits. rewrite in_flat_map. split.
  - intros ([q0 x0] & Hin & H). simpl in H. destruct (match1 filt q0 path) as [vs0|] eqn:E; [|destruct H].
    destruct H as [[= <- <- <-]|[]]. auto.
  - intros (Hin & E). exists (q, x). split; [exact Hin|]. simpl. rewrite E. now left.
Qed.

Section Main.
Variable filt : fid -> str -> option (value * nat).

Theorem resolve_eq_spec_lemma : forall R path cds, Inv R ->
  match spec filt (rules_of R) (strip_sep path) with
  | None => exists vs hs i, resolve filt R path cds = R404 vs hs i
  | Some (q, d, vs) =>
    exists rt hs,
      nth_error (heap R) d = Some rt /\ In (r_pattern rt, d) (routes R) /\
      q = pat_of (r_pattern rt) (r_filters rt) /\
      resolve filt R path cds =
      match dispatch_on (r_methods rt) cds with
      | DCall m (h, mn) => ROk d m h (make_params (match mn with [] => r_names rt | _ :: _ => mn end) vs) hs
      | D405 a => R405 a
      end
  end.
Proof.
  intros R path cds [I1 I2 I3 I4]. set (sp := strip_sep path).
  pose proof (get_at_sel filt (tree R) I1 sp 0) as Hsel.
  unfold resolve, get. fold sp.
  assert (Hfound : found_of (g_hook (nhooks (tree R)) 0 (get_at filt true (tree R) sp 0))
                   = found_of (get_at filt true (tree R) sp 0)) by apply found_g_hook.
  unfold sel_ok in Hsel.
  destruct (g_hook (nhooks (tree R)) 0 (get_at filt true (tree R) sp 0)) as [d nm vs hs|vs hs i] eqn:Eg;
    simpl in Hfound; rewrite <- Hfound in Hsel.
  - (* a route was selected *)
    destruct Hsel as (p0 & Hin & Hm & Hopt).
    apply I2 in Hin. destruct Hin as (p & d0 & rt & A & B & C). unfold entry_of in C.
    injection C as -> <- ->.
    set (q := pat_of p (r_filters rt)).
    assert (Hq : flat q = fpat p (r_filters rt)) by apply flat_pat_of.
    assert (Hhit : In (q, d, vs) (hits filt (rules_of R) sp)).
    { apply in_hits. split.
      - apply in_rules_of. exists p, rt. split; [now apply al_get_in | auto].
      - rewrite <- matchf_flat, Hq. exact Hm. }
    assert (Hspec : spec filt (rules_of R) sp = Some (q, d, vs)).
    { unfold spec. apply pick_unique_best; [exact Hhit|].
      intros [[q' d'] vs'] Hin'. apply in_hits in Hin'. destruct Hin' as (Hr' & Hm').
      apply in_rules_of in Hr'. destruct Hr' as (p' & rt' & Hin' & B' & ->).
      apply (al_in_get _ _ _ I4) in Hin'.
      assert (He' : In (entry_of p' d' rt') (paths (tree R))) by (apply I2; exists p', d', rt'; auto).
      rewrite <- matchf_flat, flat_pat_of in Hm'.
      destruct (Hopt _ _ He') as [E|E]; [now rewrite Hm'| |].
      - left. apply fpat_inj in E. subst p'. assert (d' = d) by congruence. subst d'.
        assert (rt' = rt) by congruence. subst rt'. fold q. f_equal.
        rewrite Hm in Hm'. congruence.
      - right. unfold hpat. simpl. now rewrite Hq, flat_pat_of. }
    rewrite Hspec. destruct (I3 p d A) as (rt1 & B1 & C1 & _).
    assert (rt1 = rt) by congruence. subst rt1.
    exists rt, hs. split; [exact B|]. split; [rewrite C1; now apply al_get_in|].
    split; [now rewrite C1|]. rewrite B.
    destruct (dispatch_on (r_methods rt) cds) as [m [h mn]|a]; reflexivity.
  - (* nothing matches *)
    assert (Hspec : spec filt (rules_of R) sp = None).
    { unfold spec. destruct (hits filt (rules_of R) sp) as [|[[q d] vs0] l] eqn:Eh; [reflexivity|]. exfalso.
      assert (Hin : In (q, d, vs0) (hits filt (rules_of R) sp)) by (rewrite Eh; now left).
      apply in_hits in Hin. destruct Hin as (Hr & Hm). apply in_rules_of in Hr.
      destruct Hr as (p & rt & Hin & B & ->). apply (al_in_get _ _ _ I4) in Hin.
      assert (He : In (entry_of p d rt) (paths (tree R))) by (apply I2; exists p, d, rt; auto).
      rewrite <- matchf_flat, flat_pat_of in Hm. rewrite (Hsel _ _ He) in Hm. discriminate. }
    rewrite Hspec. eauto.
Qed.

(* every value handed to a handler is what the corresponding wildcard of the
   selected rule produced: a filtered wildcard's value is the first component
   of a successful answer of ITS filter, a plain one's is path text up to the
   next separator; and there are exactly as many values as wildcards *)
Definition value_from (f : option fid) (v : value) : Prop :=
  match f with
  | Some k => exists s n, filt k s = Some (v, n)
  | None => exists s, v = firstn (seg_len s) s
  end.

Lemma match1_values q : forall path vs,
  match1 filt q path = Some vs -> Forall2 value_from (filters_of q) vs.
Proof.
  induction q as [|s q IH]; intros path vs; simpl.
  - destruct path; [intros [= <-]; constructor | discriminate].
  - destruct s as [t|f].
    + destruct (prefixb t path); [apply IH | discriminate].
    + destruct (wild_step filt f path) as [[v rest]|] eqn:Ew; [|discriminate].
      destruct (match1 filt q rest) as [vs0|] eqn:Em; [|discriminate]. intros [= <-].
      constructor; [|eapply IH; eauto].
      unfold wild_step in Ew. destruct path as [|c r]; [discriminate|].
      destruct f as [k|]; simpl.
      * destruct (filt k (c :: r)) as [[v0 n]|] eqn:Ef; [|discriminate]. injection Ew as <- _.
        exists (c :: r), n. exact Ef.
      * injection Ew as <- _. exists (c :: r). reflexivity.
Qed.

End Main.

(* ------------------------------------------------------------------ *)
(* which rules are registered                                           *)
(* ------------------------------------------------------------------ *)

Lemma fpat_filters_inj p : forall fl fl',
  ntok p = length fl -> ntok p = length fl' -> fpat p fl = fpat p fl' -> fl = fl'.
Proof.
  induction p as [|c r IH]; intros fl fl' H1 H2 H; simpl in *.
  - destruct fl, fl'; try discriminate; reflexivity.
  - destruct (N.eqb c TOKEN).
    + destruct fl as [|a fl], fl' as [|b fl']; try discriminate. simpl in *.
      injection H as -> H. f_equal. apply IH; auto.
    + injection H as H. now apply IH.
Qed.

(* _match is sound: an exact node reached under filters flts holds the entry
   of exactly that route string and those filters *)
Lemma tmatch_sound : forall n, wf n -> forall route flts pidx n0 d,
  ntok route + pidx <= length flts ->
  tmatch n route flts pidx = MExact n0 -> ndata n0 = Some d ->
  In (fpat route (skipn pidx flts), (d, nnames n0)) (paths n).
Proof.
  induction n as [key d0 nm0 f h kids IH] using node_ind'. intros Hw route flts pidx n0 d Hn Hm Hd.
  pose proof (wf_inv _ _ _ _ _ _ Hw) as (H1 & H2 & H3 & H4).
  destruct route as [|c0 r].
  - simpl in Hm. injection Hm as <-. simpl in Hd. subst d0. rewrite paths_node. simpl. now left.
  - cbn [tmatch] in Hm. rewrite paths_node. apply in_or_app. right.
    assert (G : forall ks, incl ks kids ->
                tm_go (fun k r p => tmatch k r flts p) flts c0 (c0 :: r) pidx ks = MExact n0 ->
                In (fpat (c0 :: r) (skipn pidx flts), (d, nnames n0)) (kids_entries ks)).
    { induction ks as [|k ks IHks]; intros Hincl; [simpl; discriminate|]. cbn [tm_go].
      assert (Hk : In k kids) by (apply Hincl; now left).
      rewrite Forall_forall in IH, H1, H2. specialize (H2 k Hk).
      destruct (head_is k c0) eqn:Eh.
      - unfold tm_kid. destruct (prefixb (nkey k) (c0 :: r)) eqn:Ep; [|discriminate].
        rewrite kids_entries_cons. intros Hm'. apply in_or_app. left. apply in_kid_entries.
        destruct (str_eqb_spec (nkey k) tok) as [Ht|Ht].
        + assert (Hc0 : c0 = TOKEN).
          { rewrite Ht in Ep. apply prefixb_spec in Ep. destruct Ep as [r' Er']. unfold tok in Er'.
            simpl in Er'. now injection Er'. }
          subst c0. assert (Hnt : ntok (TOKEN :: r) = S (ntok r)) by (simpl; now rewrite N.eqb_refl).
          rewrite Hnt in Hn. unfold filter_check in Hm'.
          destruct flts as [|g0 gs] eqn:Eflts; [simpl in Hn; lia|]. rewrite <- Eflts in *.
          destruct (nth_error flts pidx) as [g|] eqn:Enth; [|discriminate].
          destruct (ofid_eqb (nflt k) g) eqn:Eof; [|discriminate]. apply ofid_eqb_eq in Eof.
          exists (fpat r (skipn (S pidx) flts)). split.
          * rewrite key_pcs_tok by exact Ht. rewrite (nth_error_skipn flts pidx g Enth). simpl.
            rewrite N.eqb_refl. now rewrite Eof.
          * apply (IH k Hk (H1 k Hk) _ flts (S pidx) n0 d); auto. simpl. lia.
        + assert (Hlit : ~ In TOKEN (nkey k)) by (destruct H2 as [_ [E|E]]; [contradiction | exact E]).
          pose proof (prefixb_split _ _ Ep) as Hsplit.
          exists (fpat (skipn (length (nkey k)) (c0 :: r)) (skipn pidx flts)). split.
          * rewrite key_pcs_lit by (auto; apply H2). rewrite <- fpat_lit by exact Hlit. now rewrite <- Hsplit.
          * apply (IH k Hk (H1 k Hk) _ flts pidx n0 d); auto.
            rewrite <- (ntok_lit (nkey k)) by exact Hlit. now rewrite <- Hsplit.
      - intros Hm'. rewrite kids_entries_cons. apply in_or_app. right. apply IHks; auto.
        intros x Hx. apply Hincl. now right. }
    apply G; [apply incl_refl | exact Hm].
Qed.

Lemma rules_of_heap_set R1 R2 d rt t' :
  nth_error (heap R1) d = Some rt ->
  heap R2 = heap_set (heap R1) d (set_methods rt t') -> routes R2 = routes R1 ->
  forall q d', In (q, d') (rules_of R1) -> In (q, d') (rules_of R2).
Proof.
  intros E Hh Hr q d' Hin. apply in_rules_of in Hin. destruct Hin as (p & rt0 & A & B & ->).
  apply in_rules_of. rewrite Hh, Hr. destruct (Nat.eq_dec d d') as [<-|Hd].
  - exists p, (set_methods rt t'). rewrite nth_error_heap_set, Nat.eqb_refl, E. split; [exact A|].
    split; [reflexivity|]. assert (rt0 = rt) by congruence. now subst.
  - exists p, rt0. rewrite nth_error_heap_set. apply Nat.eqb_neq in Hd. now rewrite Hd.
Qed.

(* a registration that is not refused by the tree is, afterwards, one of the
   rules — under the pattern and the filters it was made with *)
Lemma add_registers R rule pattern nm flts ms h name ow :
  Inv R -> ntok pattern = length flts ->
  (forall e, snd (rt_add R rule pattern nm flts ms h name ow) <> Some (AKeyError e)) ->
  exists d, In (pat_of pattern flts, d) (rules_of (fst (rt_add R rule pattern nm flts ms h name ow))).
Proof.
  intros HI Hn Hne.
  pose proof (Inv_add_found R rule pattern nm flts HI Hn) as Hf.
  unfold rt_add in *.
  destruct (rt_match R pattern flts) as [d|] eqn:Em.
  - (* an existing route: it sits under this very pattern and these filters *)
    assert (Hin0 : In (pat_of pattern flts, d) (rules_of R)).
    { unfold rt_match in Em. destruct (tmatch (tree R) pattern flts 0) as [n0|] eqn:Et; [|discriminate].
      pose proof (tmatch_sound (tree R) (inv_wf R HI) pattern flts 0 n0 d) as Hs.
      assert (Hin : In (fpat pattern flts, (d, nnames n0)) (paths (tree R))) by (apply Hs; auto; lia).
      apply (inv_paths R HI) in Hin. destruct Hin as (p & d1 & rt & A & B & C). unfold entry_of in C.
      injection C as C1 <- C3. apply fpat_inj in C1 as Hp. subst p.
      apply in_rules_of. exists pattern, rt. split; [now apply al_get_in|]. split; [exact B|].
      (* same filters: the character-level patterns are equal *)
      destruct (inv_routes R HI pattern d A) as (rt1 & B1 & _ & Hlen). assert (rt1 = rt) by congruence. subst rt1.
      f_equal. symmetry. eapply fpat_filters_inj; eauto. }
    simpl in *. destruct (nth_error (heap R) d) as [rt|] eqn:E; [|eauto].
    destruct (if ow then Some _ else mt_add _ _ _) as [t'|]; [|eauto].
    exists d. destruct name as [[|c nme]|]; simpl;
      repeat match goal with
             | |- context [match al_get ?l ?k with _ => _ end] => destruct (al_get l k); simpl
             | |- context [if ?b then _ else _] => destruct b; simpl
             end; (eapply (rules_of_heap_set R _ d rt t'); [exact E | reflexivity | reflexivity | exact Hin0]).
  - cbv zeta in *. destruct (set_at (tree R) pattern flts 0 (IData (length (heap R))) nm) as [t'|e] eqn:Es.
    2:{ exfalso. apply (Hne e). reflexivity. }
    clear Hne Hf.
    set (d := length (heap R)). set (new := mkRoute rule pattern nm flts []).
    set (R1 := mkRouter t' (heap R ++ [new]) (al_set (routes R) pattern d) (named R) (hooks_idx R)).
    assert (Hnew : nth_error (heap R1) d = Some new).
    { unfold R1, d. simpl. rewrite nth_error_app2 by lia. now rewrite Nat.sub_diag. }
    assert (Hin0 : In (pat_of pattern flts, d) (rules_of R1)).
    { apply in_rules_of. exists pattern, new. split; [|split; [exact Hnew | reflexivity]].
      apply al_get_in. unfold R1. simpl. now rewrite al_get_set, str_eqb_refl. }
    change (heap R ++ [new]) with (heap R1). rewrite Hnew. cbn [r_methods new].
    destruct (if ow then Some _ else mt_add _ _ _) as [t2|]; [|exists d; exact Hin0].
    exists d. destruct name as [[|c nme]|]; simpl;
      repeat match goal with
             | |- context [match al_get ?l ?k with _ => _ end] => destruct (al_get l k); simpl
             | |- context [if ?b then _ else _] => destruct b; simpl
             end; (eapply (rules_of_heap_set R1 _ d new t2); [exact Hnew | reflexivity | reflexivity | exact Hin0]).
Qed.

(* a registration refused by the tree (filter conflict ...) changes nothing *)
Lemma add_rejected_unchanged R rule pattern nm flts ms h name ow e :
  snd (rt_add R rule pattern nm flts ms h name ow) = Some (AKeyError e) ->
  fst (rt_add R rule pattern nm flts ms h name ow) = R.
Proof.
  unfold rt_add. destruct (rt_match R pattern flts) as [d|].
  - destruct (nth_error (heap R) d) as [rt|]; [|discriminate].
    destruct (if ow then Some _ else mt_add _ _ _) as [t'|]; [|discriminate].
    destruct name as [[|c nme]|]; simpl; try discriminate.
    destruct (al_get (named R) (c :: nme)) as [d0|]; simpl; [|discriminate].
    destruct (negb ow && negb (Nat.eqb d0 d)); discriminate.
  - cbv zeta. destruct (set_at (tree R) pattern flts 0 (IData (length (heap R))) nm) as [t'|e0]; [|reflexivity].
    simpl. rewrite nth_error_app2 by lia. rewrite Nat.sub_diag. simpl.
    destruct (if ow then Some _ else mt_add _ _ _) as [t2|]; [|discriminate].
    destruct name as [[|c nme]|]; simpl; try discriminate.
    destruct (al_get (named R) (c :: nme)) as [d0|]; simpl; [|discriminate].
    destruct (negb ow && negb (Nat.eqb d0 (length (heap R)))); discriminate.
Qed.

(* ------------------------------------------------------------------ *)
(* the names a handler is called with are those of a registration of    *)
(* that handler, for that method, on that pattern                        *)
(* ------------------------------------------------------------------ *)
Definition prov (cs : list cmd) (R : router) : Prop :=
  forall d rt m h mn, nth_error (heap R) d = Some rt -> mt_get (r_methods rt) m = Some (h, mn) ->
    exists rule fl ms name ow, In (CAdd rule (r_pattern rt) mn fl ms h name ow) cs /\ In m (norm_methods ms).

Lemma prov_mono cs c R : prov cs R -> prov (cs ++ [c]) R.
Proof.
  intros H d rt m h mn A B. destruct (H d rt m h mn A B) as (rule & fl & ms & name & ow & Hin & Hm).
  exists rule, fl, ms, name, ow. split; [apply in_or_app; now left | exact Hm].
Qed.

Lemma existsb_str_in k ms : existsb (fun m => str_eqb m k) ms = true -> In k ms.
Proof.
  induction ms as [|m ms IH]; simpl; [discriminate|]. intros H. apply orb_true_iff in H.
  destruct H as [H|H]; [left; now apply str_eqb_eq | right; auto].
Qed.

Lemma prov_step cs R c : Inv R -> add_cmd c -> prov cs R -> prov (cs ++ [c]) (fst (run_cmd R c)).
Proof.
  intros HI Hc Hp. destruct c; simpl in *; try contradiction; try (now apply prov_mono).
  - (* CAdd *)
    unfold rt_add.
    set (found := match rt_match R pattern flts with Some d => inl (R, d) | None => _ end).
    assert (Hf : match found with
                 | inl (R1, d) => prov cs R1 /\ (forall rt, nth_error (heap R1) d = Some rt -> r_pattern rt = pattern)
                 | inr _ => True
                 end).
    { unfold found. destruct (rt_match R pattern flts) as [d|] eqn:Em.
      - split; [exact Hp|]. intros rt E. unfold rt_match in Em.
        destruct (tmatch (tree R) pattern flts 0) as [n0|] eqn:Et; [|discriminate].
        assert (Hin : In (fpat pattern flts, (d, nnames n0)) (paths (tree R)))
          by (apply (tmatch_sound (tree R) (inv_wf R HI) pattern flts 0 n0 d); auto; lia).
        apply (inv_paths R HI) in Hin. destruct Hin as (p & d1 & rt1 & A & B & C). unfold entry_of in C.
        injection C as C1 <- _. apply fpat_inj in C1. subst p.
        destruct (inv_routes R HI pattern d A) as (rt2 & B2 & C2 & _). congruence.
      - cbv zeta. destruct (set_at (tree R) pattern flts 0 (IData (length (heap R))) nm) as [t'|e]; [|exact I].
        split.
        + intros d rt m h0 mn A B. simpl in A.
          destruct (Nat.lt_ge_cases d (length (heap R))) as [Hlt|Hge].
          * rewrite nth_error_app1 in A by exact Hlt. eauto.
          * rewrite nth_error_app2 in A by exact Hge. destruct (d - length (heap R)) as [|k]; simpl in A.
            -- injection A as <-. simpl in B. discriminate.
            -- destruct k; discriminate.
        + intros rt E. simpl in E. rewrite nth_error_app2 in E by lia. rewrite Nat.sub_diag in E.
          simpl in E. now injection E as <-. }
    destruct found as [[R1 d]|e]; [|now apply prov_mono].
    destruct Hf as (Hp1 & Hpat).
    destruct (nth_error (heap R1) d) as [rt|] eqn:E; [|now apply prov_mono].
    set (ent := (h, nm)).
    destruct (if overwrite then Some (mt_set_all (r_methods rt) (norm_methods methods) ent)
              else mt_add (r_methods rt) (norm_methods methods) ent) as [t'|] eqn:Et; [|now apply prov_mono].
    assert (Ht' : t' = mt_set_all (r_methods rt) (norm_methods methods) ent).
    { destruct overwrite; [congruence|]. unfold mt_add in Et.
      destruct (mt_registered _ _); [discriminate | congruence]. }
    assert (G : forall nmd, prov (cs ++ [CAdd rule pattern nm flts methods h name overwrite])
                  (mkRouter (tree R1) (heap_set (heap R1) d (set_methods rt t')) (routes R1) nmd (hooks_idx R1))).
    { intros nmd d' rt' m h0 mn A B. simpl in A. rewrite nth_error_heap_set in A.
      destruct (Nat.eqb_spec d d') as [<-|Hd].
      - rewrite E in A. injection A as <-. simpl in B. rewrite Ht', mt_get_set_all in B.
        destruct (existsb (fun m0 => str_eqb m0 m) (norm_methods methods)) eqn:Ex.
        + injection B as <- <-. exists rule, flts, methods, name, overwrite. split.
          * apply in_or_app. right. left. simpl. now rewrite (Hpat rt eq_refl).
          * now apply existsb_str_in.
        + destruct (Hp1 d rt m h0 mn E B) as (r0 & f0 & m0 & n0 & o0 & Hin & Hm).
          exists r0, f0, m0, n0, o0. split; [apply in_or_app; now left | exact Hm].
      - destruct (Hp1 d' rt' m h0 mn A B) as (r0 & f0 & m0 & n0 & o0 & Hin & Hm).
        exists r0, f0, m0, n0, o0. split; [apply in_or_app; now left | exact Hm]. }
    destruct name as [[|c nme]|]; simpl; try apply G.
    destruct (al_get (named R1) (c :: nme)) as [d0|]; simpl; [|apply G].
    destruct (negb overwrite && negb (Nat.eqb d0 d)); apply G.
  - (* CRemoveMethod *)
    unfold rt_remove_method. destruct (rt_match R pattern flts) as [d|]; [|now apply prov_mono].
    destruct (nth_error (heap R) d) as [rt|] eqn:E; [|now apply prov_mono].
    intros d' rt' m h0 mn A B. simpl in A. rewrite nth_error_heap_set in A.
    destruct (Nat.eqb_spec d d') as [<-|Hd].
    + rewrite E in A. injection A as <-. simpl in B. rewrite mt_get_remove in B.
      destruct (existsb _ ms); [discriminate|].
      destruct (Hp d rt m h0 mn E B) as (r0 & f0 & m0 & n0 & o0 & Hin & Hm).
      exists r0, f0, m0, n0, o0. split; [apply in_or_app; now left | exact Hm].
    + destruct (Hp d' rt' m h0 mn A B) as (r0 & f0 & m0 & n0 & o0 & Hin & Hm).
      exists r0, f0, m0, n0, o0. split; [apply in_or_app; now left | exact Hm].
Qed.

Lemma exec_snoc R cs c : exec_cmds R (cs ++ [c]) = fst (run_cmd (exec_cmds R cs) c).
Proof. unfold exec_cmds. now rewrite fold_left_app. Qed.

Lemma prov_exec cs : Forall add_cmd cs -> prov cs (exec_cmds router0 cs).
Proof.
  induction cs as [|c cs IH] using rev_ind; intros Hcs.
  - intros d rt m h mn A. destruct d; discriminate.
  - apply Forall_app in Hcs. destruct Hcs as [Hcs Hc]. inversion Hc; subst.
    rewrite exec_snoc. apply prov_step; auto. apply Inv_exec; [apply Inv0 | exact Hcs].
Qed.

(* ------------------------------------------------------------------ *)
(* the repair F1 is needed: without the guard the lookup hands a route   *)
(* out with no value for its wildcard                                    *)
(* ------------------------------------------------------------------ *)
Definition f1_pattern : str := [102; 111; 111; 47; 13; 47; 98; 97; 114]%N.   (* "foo/\r/bar" *)
Definition f1_tree : node :=
  match set_at root0 f1_pattern [None] 0 (IData 0) [[120%N]] with SOk t => t | SErr _ => root0 end.

Lemma f1_unguarded_lemma :
  exists filt n path,
    wf n /\
    match get_at filt false n path 0 with
    | GFound d nm vs hs => forall p e, In (p, e) (paths n) -> matchf filt p path <> Some vs
    | GFail _ _ _ => False
    end.
Proof.
  exists (fun _ _ => None), f1_tree, f1_pattern. split.
  - apply (wf_insert root0 f1_pattern [None] (IData 0) [[120%N]]).
    + constructor; constructor.
    + vm_compute. lia.
    + reflexivity.
  - vm_compute. intros p e [H|[]]. injection H as <- _. vm_compute. discriminate.
Qed.

(* ------------------------------------------------------------------ *)
(* what the handler receives                                            *)
(* ------------------------------------------------------------------ *)
Lemma params_exact_lemma : forall filt cs path cds d m h kw hs,
  Forall add_cmd cs ->
  resolve filt (exec_cmds router0 cs) path cds = ROk d m h kw hs ->
  exists rt mn vs rule fl ms name ow,
    nth_error (heap (exec_cmds router0 cs)) d = Some rt /\
    In (CAdd rule (r_pattern rt) mn fl ms h name ow) cs /\ In m (norm_methods ms) /\
    match1 filt (pat_of (r_pattern rt) (r_filters rt)) (strip_sep path) = Some vs /\
    Forall2 (value_from filt) (filters_of (pat_of (r_pattern rt) (r_filters rt))) vs /\
    kw = make_params (match mn with [] => r_names rt | _ :: _ => mn end) vs.
Proof.
  intros filt cs path cds d m h kw hs Hcs Hres.
  set (R := exec_cmds router0 cs) in *.
  assert (HI : Inv R) by (apply Inv_exec; [apply Inv0 | exact Hcs]).
  pose proof (resolve_eq_spec_lemma filt R path cds HI) as Hspec.
  destruct (spec filt (rules_of R) (strip_sep path)) as [[[q d'] vs]|] eqn:Es.
  - destruct Hspec as (rt & hs' & A & B & C & D). rewrite Hres in D.
    destruct (dispatch_on (r_methods rt) cds) as [m' [h' mn]|a] eqn:Ed; [|discriminate].
    injection D as <- <- <- -> <-.
    assert (Hget : mt_get (r_methods rt) m = Some (h, mn)).
    { apply dispatch_first_lemma in Ed. destruct Ed as (_ & _ & _ & _ & Hg). exact Hg. }
    destruct (prov_exec cs Hcs d rt m h mn A Hget) as (rule & fl & ms & name & ow & Hin & Hm).
    assert (Hm1 : match1 filt q (strip_sep path) = Some vs).
    { unfold spec in Es. apply pick_in in Es. apply in_hits in Es. tauto. }
    exists rt, mn, vs, rule, fl, ms, name, ow. subst q. repeat split; auto.
    eapply match1_values; eauto.
  - destruct Hspec as (vs & hs' & i & D). rewrite Hres in D. discriminate.
Qed.

(* ---- the statements of props/C01.v in their final form ---- *)
Lemma get_dfs_spec_lemma :
  forall filt (n : node), wf n -> forall (path : str) (i : nat),
    match get_at filt true n path i with
    | GFound d nm vs _ =>
      exists p, In (p, (d, nm)) (paths n) /\ matchf filt p path = Some vs /\
                forall p' e', In (p', e') (paths n) -> matchf filt p' path <> None ->
                              p' = p \/ betterb p p' = true
    | GFail _ _ _ => forall p' e', In (p', e') (paths n) -> matchf filt p' path = None
    end.
Proof.
  intros filt n Hw path i. pose proof (get_at_sel filt n Hw path i) as H. unfold sel_ok, optimal in H.
  destruct (get_at filt true n path i); exact H.
Qed.

Lemma resolve_eq_spec_script_lemma : forall filt (cs : list cmd) (path : str) (cds : list str),
  Forall add_cmd cs ->
  let R := exec_cmds router0 cs in
  match spec filt (rules_of R) (strip_sep path) with
  | None => exists vs hs i, resolve filt R path cds = R404 vs hs i
  | Some (q, d, vs) =>
    exists rt hs,
      nth_error (heap R) d = Some rt /\ In (r_pattern rt, d) (routes R) /\
      q = pat_of (r_pattern rt) (r_filters rt) /\
      resolve filt R path cds =
      match dispatch_on (r_methods rt) cds with
      | DCall m (h, mn) => ROk d m h (make_params (match mn with [] => r_names rt | _ :: _ => mn end) vs) hs
      | D405 a => R405 a
      end
  end.
Proof.
  intros filt cs path cds Hcs R. apply resolve_eq_spec_lemma. apply Inv_exec; [apply Inv0 | exact Hcs].
Qed.

Lemma accepted_registered_lemma :
  forall (cs : list cmd) rule pattern nm flts ms h name ow,
    Forall add_cmd cs -> ntok pattern = length flts ->
    let R := exec_cmds router0 cs in
    (forall e, snd (rt_add R rule pattern nm flts ms h name ow) <> Some (AKeyError e)) ->
    exists d, In (pat_of pattern flts, d) (rules_of (fst (rt_add R rule pattern nm flts ms h name ow))).
Proof.
  intros cs rule pattern nm flts ms h name ow Hcs Hn R. apply add_registers; [|exact Hn].
  apply Inv_exec; [apply Inv0 | exact Hcs].
Qed.

Lemma c01_nonvacuous_lemma :
  let a := 97%N in let b := 98%N in let c := 99%N in let s := 47%N in let x := [120%N] in
  let cs := [CAdd 0 [a; s; b] [] [] [[71; 69; 84]%N] 1 None false;
             CAdd 1 [a; s; 13%N] [x] [None] [[71; 69; 84]%N] 2 None false;
             CAdd 2 [a; s; 13%N; s; c] [x] [None] [[71; 69; 84]%N] 3 None false;
             CAdd 3 [a; s; 13%N; s; b] [x] [Some 0] [[71; 69; 84]%N] 4 None false] in
  let R := exec_cmds router0 cs in
  let filt := fun (_ : fid) (_ : str) => @None (value * nat) in
  let G := [[71; 69; 84]%N] in
  Forall add_cmd cs /\
  length (rules_of R) = 3 /\
  resolve filt R [s; a; s; b] G = ROk 0 [71; 69; 84]%N 1 [] [] /\
  resolve filt R [s; a; s; c] G = ROk 1 [71; 69; 84]%N 2 [(x, [c])] [] /\
  resolve filt R [s; a; s; b; s; c] G = ROk 2 [71; 69; 84]%N 3 [(x, [b])] [] /\
  resolve filt R [s; a; s; 13%N; s; c] G = ROk 2 [71; 69; 84]%N 3 [(x, [13%N])] [] /\
  (exists vs hs i, resolve filt R [s; a; s; b; s; b] G = R404 vs hs i).
Proof.
  cbv zeta. split; [repeat constructor|]. vm_compute. repeat split; eauto.
Qed.
