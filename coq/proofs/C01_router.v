(* C01_router.v — stage 3 of C01: the router built by any sequence of
   registrations resolves a path exactly as the rule-by-rule spec does on the
   rules its `routes` index lists. *)
From Verif Require Import lib.Base lib.Str gen.Gen model.RouteSpec model.Dispatch model.Router
     proofs.C02_proofs proofs.C01_get proofs.C01_insert.

Local Opaque TOKEN.
Local Arguments N.eqb : simpl never.

(* ------------------------------------------------------------------ *)
(* RouteSpec.pat_of and the character-level pattern                     *)
(* ------------------------------------------------------------------ *)
Lemma flat_app a b : flat (a ++ b) = flat a ++ flat b.
Proof. unfold flat. apply flat_map_app. Qed.

Lemma flat_pat_of_aux route : forall acc fl,
  flat (pat_of_aux acc route fl) = map PC (rev acc) ++ fpat route fl.
Proof.
  induction route as [|c r IH]; intros acc fl; simpl.
  - destruct acc; simpl; [reflexivity|]. unfold flat. simpl. now rewrite !app_nil_r.
  - change Gen.param_token with TOKEN. destruct (N.eqb c TOKEN).
    + assert (Hflush : forall rest, flat (match acc with [] => [] | _ :: _ => [Lit (rev acc)] end ++ rest)
                                   = map PC (rev acc) ++ flat rest).
      { intros rest. destruct acc; [reflexivity|]. rewrite flat_app. unfold flat at 1. simpl.
        now rewrite app_nil_r. }
      destruct fl as [|f fs]; rewrite Hflush; f_equal.
      * change (flat (Wild None :: pat_of_aux [] r [])) with (PW None :: flat (pat_of_aux [] r [])).
        now rewrite IH.
      * change (flat (Wild f :: pat_of_aux [] r fs)) with (PW f :: flat (pat_of_aux [] r fs)).
        now rewrite IH.
    + rewrite IH. simpl. rewrite map_app, <- app_assoc. reflexivity.
Qed.

Lemma flat_pat_of route fl : flat (pat_of route fl) = fpat route fl.
Proof. unfold pat_of. now rewrite flat_pat_of_aux. Qed.

(* the route string is recoverable from its character-level pattern *)
Lemma fpat_inj p : forall fl p' fl', fpat p fl = fpat p' fl' -> p = p'.
Proof.
  induction p as [|c r IH]; intros fl [|c' r'] fl'; simpl; try reflexivity.
  - destruct (N.eqb c' TOKEN); [destruct fl'|]; discriminate.
  - destruct (N.eqb c TOKEN); [destruct fl|]; discriminate.
  - destruct (N.eqb_spec c TOKEN) as [->|Hc], (N.eqb_spec c' TOKEN) as [->|Hc'].
    + destruct fl, fl'; intros [= _ H]; f_equal; eauto.
    + destruct fl; discriminate.
    + destruct fl'; discriminate.
    + intros [= -> H]. f_equal. eauto.
Qed.

Lemma fpat_lit_inv s : forall route fl p0,
  ~ In TOKEN s -> map PC s ++ p0 = fpat route fl ->
  route = s ++ skipn (length s) route /\ p0 = fpat (skipn (length s) route) fl.
Proof.
  induction s as [|c s IH]; intros route fl p0 Hn H; simpl in *; [auto|].
  destruct route as [|x r]; [discriminate|]. simpl in H.
  destruct (N.eqb_spec x TOKEN) as [->|Hx].
  - destruct fl; discriminate.
  - injection H as -> H. destruct (IH r fl p0) as (H1 & H2); [tauto | exact H|].
    split; [simpl; now f_equal | exact H2].
Qed.

(* ------------------------------------------------------------------ *)
(* pick selects the optimal hit                                         *)
(* ------------------------------------------------------------------ *)
Lemma pc_eqb_sym x y : pc_eqb x y = pc_eqb y x.
Proof.
  destruct x as [c|[f|]], y as [d|[g|]]; simpl; auto using N.eqb_sym, Nat.eqb_sym.
Qed.

Lemma betterb_asym a : forall b, betterb a b = true -> betterb b a = false.
Proof.
  induction a as [|x a IH]; intros [|y b]; simpl; try discriminate.
  - destruct x; discriminate.
  - destruct x as [c|f], y as [d|g]; simpl.
    + intros H. apply andb_true_iff in H. destruct H as [H1 H2]. rewrite N.eqb_sym, H1. simpl. auto.
    + reflexivity.
    + discriminate.
    + intros H. apply andb_true_iff in H. destruct H as [H1 H2].
      change (ofid_eqb g f) with (pc_eqb (PW g) (PW f)). rewrite pc_eqb_sym. simpl. rewrite H1. simpl. auto.
Qed.

Section Pick.
Context {R : Type}.
Let hit := (pat * R * list value)%type.
Definition hpat (h : hit) : list pc := flat (fst (fst h)).

Lemma pick_in (hs : list hit) h : pick hs = Some h -> In h hs.
Proof.
  revert h. induction hs as [|h1 hs IH]; intros h; simpl; [discriminate|].
  destruct (pick hs) as [b|].
  - destruct (betterb _ _); intros [= <-]; auto.
  - intros [= <-]. now left.
Qed.

Lemma pick_unique_best (hs : list hit) h :
  In h hs -> (forall h', In h' hs -> h' = h \/ betterb (hpat h) (hpat h') = true) ->
  pick hs = Some h.
Proof.
  induction hs as [|h1 hs IH]; intros Hin Hbest; [destruct Hin|]. simpl.
  destruct (Hbest h1 (or_introl eq_refl)) as [->|Hb1].
  - destruct (pick hs) as [b|] eqn:Ep; [|reflexivity].
    destruct (Hbest b (or_intror (pick_in _ _ Ep))) as [->|Hb].
    + now destruct (betterb _ _).
    + unfold hpat in Hb. now rewrite (betterb_asym _ _ Hb).
  - destruct Hin as [->|Hin].
    + destruct (pick hs) as [b|] eqn:Ep; [|reflexivity].
      destruct (Hbest b (or_intror (pick_in _ _ Ep))) as [->|Hb].
      * now destruct (betterb _ _).
      * unfold hpat in Hb. now rewrite (betterb_asym _ _ Hb).
    + rewrite IH; auto. unfold hpat in Hb1. now rewrite Hb1.
Qed.
End Pick.

(* ------------------------------------------------------------------ *)
(* _match finds what the tree holds                                     *)
(* ------------------------------------------------------------------ *)
Lemma tm_go_find rec fl c0 route pidx ks k :
  Forall (fun k => key_ok (nkey k)) ks -> NoDup (map khead ks) -> In k ks -> khead k = c0 ->
  tm_go rec fl c0 route pidx ks = tm_kid rec fl k route pidx.
Proof.
  induction ks as [|k1 ks IH]; intros Hok Hnd Hin Hh; [destruct Hin|]. simpl.
  inversion Hok as [|? ? Hk1 Hoks]; subst. inversion Hnd as [|? ? Hn1 Hnds]; subst.
  destruct (head_is k1 (khead k)) eqn:E.
  - apply head_is_khead in E; [|apply Hk1]. destruct Hin as [->|Hin]; [reflexivity|].
    exfalso. apply Hn1. rewrite E. now apply in_map.
  - destruct Hin as [->|Hin]; [|now apply IH].
    exfalso. assert (head_is k (khead k) = true) by (apply head_is_khead; [apply Hk1 | reflexivity]). congruence.
Qed.

Lemma kid_of_entry ks p e :
  In (p, e) (kids_entries ks) -> exists k p0, In k ks /\ p = key_pcs k ++ p0 /\ In (p0, e) (paths k).
Proof.
  intros H. apply in_kids_entries in H. destruct H as (k & Hk & H). apply in_kid_entries in H.
  destruct H as (p0 & -> & H). eauto.
Qed.

Lemma tmatch_complete : forall n, wf n -> forall route fl0 x flts pidx,
  In (fpat route fl0, x) (paths n) -> ntok route + pidx <= length flts ->
  (exists n0, tmatch n route flts pidx = MExact n0 /\ ndata n0 = Some (fst x) /\ nnames n0 = snd x)
  \/ tmatch n route flts pidx = MMis MFilter.
Proof.
  induction n as [key d nm0 f h kids IH] using node_ind'. intros Hw route fl0 x flts pidx Hin Hn.
  pose proof (wf_inv _ _ _ _ _ _ Hw) as (H1 & H2 & H3 & H4).
  rewrite paths_node in Hin. apply in_app_or in Hin.
  destruct route as [|c0 r].
  - left. exists (Node key d nm0 f h kids). split; [reflexivity|]. simpl in Hin.
    destruct Hin as [Hin|Hin].
    + destruct d as [y|]; [|destruct Hin]. destruct Hin as [Hin|[]]. injection Hin as <-. simpl. auto.
    + exfalso. apply kid_of_entry in Hin. destruct Hin as (k & p0 & Hk & Hp & _).
      rewrite Forall_forall in H2. specialize (H2 k Hk). unfold key_pcs in Hp.
      destruct (str_eqb (nkey k) tok); [discriminate|]. destruct H2 as [Hne _].
      destruct (nkey k); [contradiction | discriminate].
  - destruct Hin as [Hin|Hin].
    { exfalso. destruct d; [|destruct Hin]. destruct Hin as [Hin|[]]. simpl in Hin.
      destruct (N.eqb c0 TOKEN); [destruct fl0|]; discriminate. }
    apply kid_of_entry in Hin. destruct Hin as (k & p0 & Hk & Hp & Hp0).
    rewrite Forall_forall in IH, H1. pose proof H2 as H2'. rewrite Forall_forall in H2'.
    specialize (H2' k Hk).
    cbn [tmatch].
    destruct (str_eqb_spec (nkey k) tok) as [Ht|Ht].
    + (* wildcard child *)
      rewrite key_pcs_tok in Hp by exact Ht.
      assert (Hc0 : c0 = TOKEN).
      { simpl in Hp. destruct (N.eqb_spec c0 TOKEN); [auto | discriminate]. }
      subst c0.
      assert (Hkh : khead k = TOKEN) by (unfold khead; now rewrite Ht).
      rewrite (tm_go_find _ flts TOKEN (TOKEN :: r) pidx kids k H2 H3 Hk Hkh).
      unfold tm_kid. rewrite Ht.
      assert (Epre : prefixb tok (TOKEN :: r) = true) by (apply prefixb_spec; exists r; reflexivity).
      rewrite Epre, str_eqb_refl. unfold filter_check.
      assert (Hnt : ntok (TOKEN :: r) = S (ntok r)) by (simpl; now rewrite N.eqb_refl).
      rewrite Hnt in Hn.
      destruct flts as [|g0 gs] eqn:Eflts; [simpl in Hn; lia|]. rewrite <- Eflts in *.
      destruct (nth_error flts pidx) as [g|] eqn:Enth.
      2:{ apply nth_error_None in Enth. lia. }
      destruct (ofid_eqb (nflt k) g); [|now right].
      simpl in Hp. rewrite N.eqb_refl in Hp.
      assert (Hp0' : exists fl1, p0 = fpat r fl1).
      { destruct fl0 as [|f0 fs0]; injection Hp as _ Hp; eauto. }
      destruct Hp0' as [fl1 ->].
      apply (IH k Hk (H1 k Hk) r fl1 x flts (S pidx)); [exact Hp0 | lia].
    + (* literal child *)
      assert (Hlit : ~ In TOKEN (nkey k)) by (destruct H2' as [_ [E|E]]; [contradiction | exact E]).
      rewrite key_pcs_lit in Hp by (auto; apply H2'). symmetry in Hp.
      destruct (fpat_lit_inv _ _ _ _ Hlit Hp) as (Hr & Hp0').
      assert (Hkh : khead k = c0).
      { unfold khead. destruct (nkey k) as [|y s] eqn:E; [destruct H2'; contradiction|].
        simpl in Hr. now injection Hr. }
      rewrite (tm_go_find _ flts c0 (c0 :: r) pidx kids k H2 H3 Hk Hkh).
      unfold tm_kid.
      assert (Epre : prefixb (nkey k) (c0 :: r) = true) by (apply prefixb_spec; eauto).
      rewrite Epre, lit_not_tok by (auto; apply H2').
      subst p0. apply (IH k Hk (H1 k Hk) _ fl0 x flts pidx); [exact Hp0|].
      rewrite <- (ntok_lit (nkey k)) by exact Hlit. now rewrite <- Hr.
Qed.

(* _set runs the same descent as _match: where _match reports a filter
   mismatch _set raises it, where _match finds a node holding data a new
   registration is refused *)
Lemma set_at_sim : forall n route flts pidx d nm,
  (tmatch n route flts pidx = MMis MFilter -> set_at n route flts pidx (IData d) nm = SErr EFilter) /\
  (forall n0, tmatch n route flts pidx = MExact n0 -> ndata n0 <> None ->
              set_at n route flts pidx (IData d) nm = SErr ERegistered).
Proof.
  induction n as [key d0 nm0 f h kids IH] using node_ind'. intros route flts pidx d nm.
  destruct route as [|c0 r].
  - split; [discriminate|]. simpl. intros n0 [= <-] Hd. simpl in Hd. destruct d0; [reflexivity | contradiction].
  - cbn [tmatch set_at].
    assert (G : forall ks, Forall (fun k => forall route flts pidx d nm,
                  (tmatch k route flts pidx = MMis MFilter -> set_at k route flts pidx (IData d) nm = SErr EFilter) /\
                  (forall n0, tmatch k route flts pidx = MExact n0 -> ndata n0 <> None ->
                              set_at k route flts pidx (IData d) nm = SErr ERegistered)) ks ->
              (tm_go (fun k r p => tmatch k r flts p) flts c0 (c0 :: r) pidx ks = MMis MFilter ->
               set_go (fun k r p => set_at k r flts p (IData d) nm) flts (IData d) nm c0 (c0 :: r) pidx ks
               = Some (inr EFilter)) /\
              (forall n0, tm_go (fun k r p => tmatch k r flts p) flts c0 (c0 :: r) pidx ks = MExact n0 ->
               ndata n0 <> None ->
               set_go (fun k r p => set_at k r flts p (IData d) nm) flts (IData d) nm c0 (c0 :: r) pidx ks
               = Some (inr ERegistered))).
    { induction ks as [|k ks IHks]; intros HF; simpl; [split; [discriminate | intros; discriminate]|].
      inversion HF as [|? ? Hk Hks]; subst.
      destruct (head_is k c0).
      - unfold tm_kid, set_kid. destruct (prefixb (nkey k) (c0 :: r)).
        + destruct (str_eqb (nkey k) tok).
          * destruct (filter_check flts pidx k) as [[| | |]|].
            -- split; [discriminate | intros; discriminate].
            -- split; [discriminate | intros; discriminate].
            -- split; [reflexivity | intros; discriminate].
            -- split; [discriminate | intros; discriminate].
            -- destruct (Hk (skipn 1 (c0 :: r)) flts (S pidx) d nm) as (A & B). split.
               ++ intros E. now rewrite (A E).
               ++ intros n0 E Hd. now rewrite (B n0 E Hd).
          * destruct (Hk (skipn (length (nkey k)) (c0 :: r)) flts pidx d nm) as (A & B). split.
            ++ intros E. now rewrite (A E).
            ++ intros n0 E Hd. now rewrite (B n0 E Hd).
        + split; [discriminate | intros; discriminate].
      - destruct (IHks Hks) as (A & B). split.
        + intros E. now rewrite (A E).
        + intros n0 E Hd. now rewrite (B n0 E Hd). }
    destruct (G kids IH) as (A & B). split.
    + intros E. now rewrite (A E).
    + intros n0 E Hd. now rewrite (B n0 E Hd).
Qed.
