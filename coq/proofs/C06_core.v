(* C06_core.v — the search-core lemmas in their outward form: in terms of
   [findb] (first occurrence) and the longest partial match at the end. *)
From Verif Require Import lib.Base lib.ListX lib.Str model.MultipartRef model.Multipart
  proofs.C06_pattern proofs.C06_dres proofs.C06_eat_data proofs.C06_headers.
Require Import Lia.

(* [ends_with_prefix t s k]: the last k bytes of s are the first k bytes of t *)
Definition ends_with_prefix (t s : bytes) (k : nat) : Prop :=
  k <= length s /\ skipn (length s - k) s = firstn k t.

Lemma ewp_compat t s k :
  0 < k -> k <= length t -> ends_with_prefix t s k ->
  length s - k < length s /\ compat t (skipn (length s - k) s) = true.
Proof.
  intros Hk Hl [H1 H2]. split; [lia|]. rewrite H2. apply compat_firstn.
Qed.

Lemma compat_ewp t s p :
  p < length s -> length s - p <= length t -> compat t (skipn p s) = true ->
  ends_with_prefix t s (length s - p).
Proof.
  intros Hp Hl Hc. split; [lia|].
  replace (length s - (length s - p)) with p by lia.
  pose proof (compat_is_firstn _ _ Hc) as H. rewrite skipn_length in H. now apply H.
Qed.

(* carry_len is the LONGEST partial match (when t does not occur in s) *)
Lemma carry_len_some t s k :
  carry_len t s = Some k ->
  0 < k /\ k < length t /\ ends_with_prefix t s k /\
  forall k', k < k' -> k' <= length t -> ~ ends_with_prefix t s k'.
Proof.
  unfold carry_len. destruct (fcp t s) as [p|] eqn:Ep; [|discriminate].
  destruct (Nat.leb_spec (p + length t) (length s)); [discriminate|].
  intros [= <-]. destruct (fcp_some _ _ _ Ep) as (P1 & P2 & P3).
  repeat split; try lia.
  - replace (length s - (length s - p)) with p by lia.
    pose proof (compat_is_firstn _ _ P2) as Hf. rewrite skipn_length in Hf. apply Hf. lia.
  - intros k' Hk Hk' E. destruct (ewp_compat t s k' ltac:(lia) Hk' E) as [_ Hc].
    destruct E as [E1 _]. rewrite P3 in Hc by lia. discriminate.
Qed.

Lemma carry_len_none t s :
  t <> [] -> findb t s = None -> carry_len t s = None ->
  forall k, 0 < k -> k <= length t -> ~ ends_with_prefix t s k.
Proof.
  intros Ht Hf Hc k Hk Hl E.
  destruct (ewp_compat t s k Hk Hl E) as [Hp Hcm]. destruct E as [E1 _].
  rewrite (findb_fcp t s Ht) in Hf. unfold carry_len in Hc.
  destruct (fcp t s) as [p|] eqn:Ep.
  - destruct (p + length t <=? length s); discriminate.
  - rewrite (fcp_none _ _ Ep _ Hp) in Hcm. discriminate.
Qed.

Lemma dres_findb t off D :
  t <> [] ->
  dres t off D = match findb t D with
                 | Some q => (EFound (off + Z.of_nat q)%Z, None)
                 | None => (ENone, trest_of t (carry_len t D))
                 end.
Proof.
  intros Ht. rewrite (findb_fcp t D Ht). unfold dres, carry_len, trest_of.
  destruct (fcp t D) as [p|]; [|reflexivity].
  destruct (p + length t <=? length D); reflexivity.
Qed.

(* ---- CRLF--B ---- *)
Lemma token_shape B : token B = CR :: (LF :: HY :: HY :: B).
Proof. reflexivity. Qed.

Lemma token_cr B : contains_char N.eqb CR B = false -> ~ In CR (LF :: HY :: HY :: B).
Proof.
  intros H [E|[E|[E|E]]]; try discriminate.
  unfold contains_char in H. assert (existsb (fun x => N.eqb x CR) B = true); [|congruence].
  apply existsb_exists. exists CR. split; [exact E | apply N.eqb_refl].
Qed.

Lemma token_ne B : token B <> [].
Proof. discriminate. Qed.

Definition tr_of_len (t : bytes) (m : nat) : option bytes := if m =? 0 then None else Some (skipn m t).

Lemma match_tail_unique_lemma B w i j :
  contains_char N.eqb CR B = false ->
  0 < i -> 0 < j -> i <= length (token B) -> j <= length (token B) ->
  ends_with_prefix (token B) w i -> ends_with_prefix (token B) w j -> i = j.
Proof.
  intros HB Hi Hj Li Lj Ei Ej.
  destruct (ewp_compat _ _ _ Hi Li Ei) as [Pi Ci]. destruct (ewp_compat _ _ _ Hj Lj Ej) as [Pj Cj].
  destruct Ei as [Ei _], Ej as [Ej _].
  destruct (Nat.lt_trichotomy i j) as [L|[E|L]]; [|exact E|]; exfalso.
  - eapply (compat_unique (token B) CR _ (token_shape B) (token_cr B HB) w (length w - j) (length w - i)); eauto; lia.
  - eapply (compat_unique (token B) CR _ (token_shape B) (token_cr B HB) w (length w - i) (length w - j)); eauto; lia.
Qed.

Lemma match_tail_spec_lemma B s start end_ :
  contains_char N.eqb CR B = false ->
  start < end_ -> end_ <= length s -> end_ - start <= length (token B) ->
  let w := slice s start end_ in
  match match_tail (token B) s start end_ with
  | Some i => 0 < i /\ ends_with_prefix (token B) w i
  | None => forall i, 0 < i -> i <= length (token B) -> ~ ends_with_prefix (token B) w i
  end.
Proof.
  intros HB H1 H2 H3 w.
  pose proof (match_tail_spec (token B) CR _ (token_shape B) (token_cr B HB) s start end_ H1 H2 H3) as Hm.
  cbv zeta in Hm. fold w in Hm. rewrite Hm.
  assert (Lw : length w = end_ - start).
  { unfold w, slice. rewrite firstn_length, skipn_length. lia. }
  destruct (fcp (token B) w) as [p|] eqn:Ep; cbn [option_map].
  - destruct (fcp_some _ _ _ Ep) as (P1 & P2 & _). split; [lia|].
    apply compat_ewp; [exact P1 | lia | exact P2].
  - intros i Hi Li E. destruct (ewp_compat _ _ _ Hi Li E) as [Hp Hc].
    rewrite (fcp_none _ _ Ep _ Hp) in Hc. discriminate.
Qed.

Lemma eat_data_spec_lemma B chunk base m :
  contains_char N.eqb CR B = false ->
  m < length (token B) ->
  let tok := token B in
  let D := firstn m tok ++ skipn base chunk in
  eat_data tok chunk base (tr_of_len tok m) =
  match findb tok D with
  | Some q => (EFound (Z.of_nat base + Z.of_nat q - Z.of_nat m)%Z, None)
  | None => (ENone, trest_of tok (carry_len tok D))
  end.
Proof.
  intros HB Hm tok D.
  pose proof (eat_data_dspec tok CR _ (token_shape B) (token_cr B HB) chunk base m Hm) as H.
  unfold tr_of_len. unfold C06_dres.tr_of in H. rewrite H. unfold dspec.
  rewrite dres_findb by apply token_ne. fold D.
  destruct (findb tok D); [|reflexivity]. f_equal. f_equal. lia.
Qed.

Lemma eat_headers_spec_lemma chunk base k :
  k < 4 -> (0 < k -> base = 0) ->
  let D := firstn k H4 ++ skipn base chunk in
  hdr_clean D = true ->
  eat_headers chunk base (tr_of_len H4 k) =
  match findb H4 D with
  | Some e => (EFound (Z.of_nat base + Z.of_nat e - Z.of_nat k)%Z, None)
  | None => (ENone, trest_of H4 (carry_len H4 D))
  end.
Proof.
  intros Hk Hb D Hc.
  pose proof (eat_headers_spec chunk base k Hk Hb (hdr_clean_upto _ Hc)) as H.
  unfold tr_of_len. unfold C06_dres.tr_of in H. rewrite H. unfold dspec.
  rewrite dres_findb by discriminate. fold D.
  destruct (findb H4 D); [|reflexivity]. f_equal. f_equal. lia.
Qed.

(* ---- records of the repaired defects ---- *)

(* F6: _eat_last_hyphen as it was (two bytes sliced, compared with one hyphen) *)
Definition eat_last_hyphen_F6 (h : hst) (chunk : bytes) (base : nat) : hst * eres :=
  match slice chunk base (base + 2) with
  | [] => (h, ENone)
  | [c] => if N.eqb c HY then (mkH (eat_meth h) (hexp h) true, EFound (Z.of_nat base + 1)%Z)
           else (h, EErr EUnexpectedBodyEnd)
  | _ => (h, EErr EUnexpectedBodyEnd)
  end.

Lemma F6_variant_rejects_final_hyphen :
  exists h chunk,
    snd (eat_last_hyphen_F6 h chunk 0) = EErr EUnexpectedBodyEnd /\
    snd (eat_last_hyphen h chunk 0) = EFound 1%Z.
Proof. exists (mkH HLastHyphen None false), [HY; CR; LF]. split; reflexivity. Qed.

(* F7 (as repaired): once the closing delimiter has been seen every further chunk is ignored *)
Lemma stopped_absorbs s c : stopped s = true -> feed s c = s.
Proof. intros H. unfold feed. destruct (error s); [reflexivity|]. now rewrite H. Qed.

Lemma error_sticks s c e : error s = Some e -> feed s c = s.
Proof. intros H. unfold feed. now rewrite H. Qed.
