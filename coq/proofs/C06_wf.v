(* C06_wf.v — about the hypothesis of the C06 theorems: [wf_prefix] is closed
   under taking prefixes, and contains every prefix of every body produced by
   the multipart grammar. *)
From Verif Require Import lib.Base lib.ListX lib.Str model.MultipartRef model.Multipart
  proofs.C06_pattern proofs.C06_dres proofs.C06_eat_data proofs.C06_headers proofs.C06_core
  proofs.C06_scan proofs.C06_global.
Require Import Lia.

(* ---- a WScan derivation makes wf_delim true ---- *)
Section Back.
Variable tok : bytes.
Hypothesis Hn : 0 < length tok.

Definition wf_from (fuel : nat) (P : bytes) (s : final) : bool :=
  match s with
  | FDelim a => wf_delim fuel tok P a
  | FHeaders hs =>
    match findb H4 (skipn hs P) with
    | None => hdr_clean (skipn hs P)
    | Some e =>
      hdr_clean (firstn (e + 4) (skipn hs P)) &&
      match findb tok (skipn (hs + e + 4) P) with
      | None => true
      | Some q => wf_delim fuel tok P (hs + e + 4 + q + length tok)
      end
    end
  | FData ds =>
    match findb tok (skipn ds P) with
    | None => true
    | Some q => wf_delim fuel tok P (ds + q + length tok)
    end
  | _ => false
  end.

Definition fuel_ok (fuel : nat) (P : bytes) (s : final) : Prop :=
  match s with
  | FDelim a => length P - a < fuel
  | _ => length P - anchor s <= fuel
  end.

Lemma WScan_wf_from P s secs f :
  WScan tok P s secs f -> forall fuel, fuel_ok fuel P s -> wf_from fuel P s = true.
Proof.
  induction 1 as [a La Hw | a r Es | a r secs f Es W IH | hs L E Hc | hs e secs f L E Hc W IH
                 | ds L E | ds q secs f L E W IH]; intros fuel Hf; cbn [fuel_ok anchor wf_from] in *.
  - destruct fuel as [|fuel]; [lia|]. cbn [wf_delim].
    destruct Hw as [->|[->| ->]]; reflexivity.
  - destruct fuel as [|fuel]; [lia|]. cbn [wf_delim]. rewrite Es. reflexivity.
  - destruct fuel as [|fuel]; [lia|]. cbn [wf_delim]. rewrite Es.
    change (N.eqb CR CR && N.eqb LF LF) with true. cbv iota.
    specialize (IH fuel ltac:(cbn [fuel_ok anchor]; lia)). cbn [wf_from] in IH. exact IH.
  - rewrite E. exact Hc.
  - rewrite E, Hc. cbn [andb].
    pose proof (findb_bound _ _ _ E) as Hb. rewrite skipn_length in Hb. change (length H4) with 4 in Hb.
    specialize (IH fuel ltac:(cbn [fuel_ok anchor]; lia)). cbn [wf_from] in IH. exact IH.
  - now rewrite E.
  - rewrite E.
    pose proof (findb_bound _ _ _ E) as Hb. rewrite skipn_length in Hb.
    apply IH. cbn [fuel_ok]. lia.
Qed.

End Back.

Section Closure.
Variable B : bytes.
Hypothesis HB : contains_char N.eqb CR B = false.

Lemma wfP_wf_prefixb P : wfP B P -> wf_prefixb B P = true.
Proof.
  intros [Hfo Hwf]. unfold wf_prefixb. rewrite HB. cbn [negb andb].
  destruct P as [|x r]; [reflexivity|].
  cbn [first_ok] in Hfo.
  assert (Hx : N.eqb x CR || N.eqb x HY = true).
  { destruct Hfo as [->| ->]; [now rewrite N.eqb_refl | rewrite N.eqb_refl; apply orb_true_r]. }
  rewrite Hx. cbn [andb]. fold (D_of (x :: r)).
  destruct Hwf as [[Hp Hl]|[Hp (secs & f & W)]].
  - destruct (prefixb (token B) (D_of (x :: r))) eqn:Ep; [|exact Hp].
    apply (prefixb_length B) in Ep. lia.
  - rewrite Hp. fold (a0 B (x :: r)).
    pose proof (WScan_wf_from (token B) ltac:(simpl; lia) _ _ _ _ W (S (length (x :: r)))) as Hw.
    cbn [wf_from] in Hw. apply Hw. cbn [fuel_ok]. lia.
Qed.

Lemma wf_prefix_closed_lemma p c : wf_prefix B (p ++ c) -> wf_prefix B p.
Proof.
  unfold wf_prefix. intros H. destruct (wf_prefixb_inv B _ H) as (_ & Hw & _).
  apply wfP_wf_prefixb. eapply wfP_prefix. exact Hw.
Qed.

End Closure.

Lemma wf_prefix_closed B p c : wf_prefix B (p ++ c) -> wf_prefix B p.
Proof.
  intros H. assert (HB : contains_char N.eqb CR B = false).
  { unfold wf_prefix in H. destruct (wf_prefixb_inv B _ H) as (HB & _). exact HB. }
  exact (wf_prefix_closed_lemma B HB p c H).
Qed.

(* ---------------------------------------------------------------- the multipart grammar *)

Definition line_ok (l : bytes) : Prop := l <> [] /\ ~ In CR l /\ ~ In LF l.

(* one part: header lines (at least one; non-empty, free of CR and LF) and data *)
Definition part := (list bytes * bytes)%type.
Definition part_ok (tok : bytes) (pt : part) : Prop :=
  fst pt <> [] /\ Forall line_ok (fst pt) /\ findb tok (snd pt) = None.

Definition enc_part (tok : bytes) (pt : part) : bytes :=
  CRLF ++ join CRLF (fst pt) ++ H4 ++ snd pt ++ tok.

(* [CRLF] --B ( CRLF hdrs CRLFCRLF data CRLF--B )* -- epilogue *)
Definition mp_body (B : bytes) (lead : bool) (parts : list part) (epilogue : bytes) : bytes :=
  (if lead then CRLF else []) ++ dash_boundary B ++ flat_map (enc_part (token B)) parts ++ HY :: HY :: epilogue.

Lemma skipn_exact {A} (X R : list A) : skipn (length X) (X ++ R) = R.
Proof. rewrite skipn_app, skipn_all, Nat.sub_diag. reflexivity. Qed.

Lemma in_skipn {A} (l : list A) k y : In y (skipn k l) -> In y l.
Proof.
  revert l; induction k as [|k IH]; intros l H; [exact H|].
  destruct l; [exact H|]. right. now apply IH.
Qed.

Lemma hdr_clean_nocr l X : ~ In CR l -> hdr_clean (l ++ X) = hdr_clean X.
Proof.
  induction l as [|c l IH]; intros H; [reflexivity|].
  cbn [app hdr_clean]. destruct (N.eqb_spec c CR) as [->|Hne]; [exfalso; apply H; now left|].
  cbn [andb]. apply IH. intros Hin. apply H. now right.
Qed.

Lemma join_cons2 (l l2 : bytes) ls : join CRLF (l :: l2 :: ls) = l ++ CRLF ++ join CRLF (l2 :: ls).
Proof. reflexivity. Qed.

Lemma join_first_char l ls : line_ok l -> exists y t, join CRLF (l :: ls) = y :: t /\ y <> CR /\ y <> LF.
Proof.
  intros (Hne & Hcr & Hlf). destruct l as [|y l']; [congruence|].
  exists y. destruct ls as [|l2 ls].
  - exists l'. split; [reflexivity|]. split; intros ->; [apply Hcr | apply Hlf]; now left.
  - exists (l' ++ CRLF ++ join CRLF (l2 :: ls)). split; [reflexivity|].
    split; intros ->; [apply Hcr | apply Hlf]; now left.
Qed.

Lemma hdr_clean_lines ls : ls <> [] -> Forall line_ok ls -> hdr_clean (join CRLF ls ++ H4) = true.
Proof.
  induction ls as [|l ls IH]; intros Hne Hall; [congruence|].
  inversion Hall as [|? ? Hl Hall']; subst.
  destruct ls as [|l2 ls].
  - cbn [join]. rewrite hdr_clean_nocr by apply Hl. reflexivity.
  - rewrite join_cons2, <- !app_assoc. rewrite hdr_clean_nocr by apply Hl.
    inversion Hall' as [|? ? Hl2 _]; subst.
    destruct (join_first_char l2 ls Hl2) as (y & t & Ej & Hy1 & Hy2).
    specialize (IH ltac:(discriminate) Hall'). rewrite Ej in IH |- *.
    cbn [CRLF app hdr_clean] in IH |- *.
    rewrite N.eqb_refl. change (N.eqb LF CR) with false.
    apply N.eqb_neq in Hy1, Hy2. rewrite Hy1, Hy2. cbn [andb].
    rewrite Hy1 in IH. cbn [andb] in IH. exact IH.
Qed.

(* no CRLFCRLF starts inside the header lines *)
Lemma lines_no_H4 ls : ls <> [] -> Forall line_ok ls ->
  forall Z j, j < length (join CRLF ls) -> prefixb H4 (skipn j (join CRLF ls) ++ H4 ++ Z) = false.
Proof.
  induction ls as [|l ls IH]; intros Hne Hall Z j Hj; [congruence|].
  inversion Hall as [|? ? Hl Hall']; subst.
  assert (Hline : forall X k, k < length l -> prefixb H4 (skipn k l ++ X) = false).
  { intros X k Hk. destruct (skipn k l) as [|y t] eqn:Es.
    - assert (length (skipn k l) = 0) by now rewrite Es. rewrite skipn_length in H. lia.
    - assert (Hin : In y l).
      { apply (in_skipn l k). rewrite Es. now left. }
      destruct Hl as (_ & Hcr & _).
      unfold prefixb, H4. cbn [is_prefix app].
      destruct (N.eqb_spec CR y) as [<-|]; [contradiction | reflexivity]. }
  destruct ls as [|l2 ls].
  - cbn [join] in *. now apply Hline.
  - rewrite join_cons2 in *. rewrite !app_length in Hj. cbn [CRLF length] in Hj.
    inversion Hall' as [|? ? Hl2 _]; subst.
    destruct (join_first_char l2 ls Hl2) as (y & t & Ej & Hy1 & Hy2).
    destruct (Nat.lt_ge_cases j (length l)) as [L|L].
    + rewrite skipn_app_le by lia. rewrite <- app_assoc. now apply Hline.
    + rewrite skipn_app. rewrite (skipn_all2 l) by lia. cbn [app].
      destruct (j - length l) as [|[|j']] eqn:Ej'.
      * cbn [skipn]. rewrite Ej. unfold prefixb, H4, CRLF. cbn [is_prefix app].
        apply N.eqb_neq in Hy1. rewrite N.eqb_sym in Hy1. rewrite Hy1, !N.eqb_refl. reflexivity.
      * reflexivity.
      * cbn [skipn CRLF app]. apply IH; [discriminate | exact Hall' |].
        lia.
Qed.

Lemma findb_H4_lines ls Z : ls <> [] -> Forall line_ok ls ->
  findb H4 (join CRLF ls ++ H4 ++ Z) = Some (length (join CRLF ls)).
Proof.
  intros Hne Hall. apply findb_intro.
  - rewrite skipn_app, skipn_all, Nat.sub_diag. cbn [app skipn]. apply prefixb_app.
  - intros j Hj. rewrite skipn_app_le by lia. now apply lines_no_H4.
Qed.

Section Grammar.
Variable B : bytes.
Hypothesis HB : contains_char N.eqb CR B = false.
Let tok := token B.
Let tl := LF :: HY :: HY :: B.

(* the delimiter after data that does not contain it is the first one *)
Lemma findb_tok_data d Y : findb tok d = None -> findb tok (d ++ tok ++ Y) = Some (length d).
Proof.
  intros Hd. apply findb_intro.
  - rewrite skipn_app, skipn_all, Nat.sub_diag. cbn [app skipn]. apply prefixb_app.
  - intros j Hj. rewrite skipn_app_le by lia.
    destruct (prefixb tok (skipn j d ++ tok ++ Y)) eqn:E; [|reflexivity]. exfalso.
    destruct (Nat.le_gt_cases (length tok) (length (skipn j d))) as [L|L].
    + rewrite prefixb_app_long in E by exact L. rewrite (findb_none _ _ Hd j) in E. discriminate.
    + apply prefixb_compat in E. rewrite compat_app in E. apply andb_true_iff in E. destruct E as [_ E].
      set (k := length (skipn j d)) in *.
      assert (Hk : 0 < k) by (unfold k; rewrite skipn_length; lia).
      destruct (skipn k tok) as [|y t] eqn:Es.
      * assert (length (skipn k tok) = 0) by now rewrite Es. rewrite skipn_length in H. lia.
      * cbn in E. apply andb_true_iff in E. destruct E as [E _]. apply N.eqb_eq in E. subst y.
        pose proof (nth_error_skipn tok k 0) as Hn. rewrite Es in Hn. cbn in Hn. rewrite Nat.add_0_r in Hn.
        symmetry in Hn. apply (tok_nth_ne tok CR tl eq_refl (token_cr B HB)) in Hn; [exact Hn | exact Hk].
Qed.

Lemma scan_parts epilogue parts : forall P a,
  Forall (part_ok tok) parts ->
  skipn a P = flat_map (enc_part tok) parts ++ HY :: HY :: epilogue ->
  exists secs, WScan tok P (FDelim a) secs FStopped.
Proof.
  induction parts as [|[ls d] parts IH]; intros P a Hall Es.
  - exists []. eapply WS_delim_stop. exact Es.
  - inversion Hall as [|? ? (Hne & Hls & Hd) Hall']; subst. cbn [fst snd] in *.
    cbn [flat_map] in Es. unfold enc_part in Es at 1. cbn [fst snd] in Es.
    set (h := join CRLF ls) in *. set (REST := flat_map (enc_part tok) parts ++ HY :: HY :: epilogue) in *.
    assert (La : a <= length P).
    { destruct (Nat.le_gt_cases a (length P)); [assumption|]. rewrite skipn_all2 in Es by lia. discriminate. }
    assert (E2 : skipn (a + 2) P = h ++ H4 ++ d ++ tok ++ REST).
    { rewrite <- skipn_skipn, Es. cbn [CRLF app skipn]. now rewrite <- !app_assoc. }
    assert (L2 : a + 2 <= length P).
    { assert (length (skipn a P) >= 2) by (rewrite Es; cbn; lia). rewrite skipn_length in H. lia. }
    assert (Eh : findb H4 (skipn (a + 2) P) = Some (length h)).
    { rewrite E2. now apply findb_H4_lines. }
    assert (Ec : hdr_clean (firstn (length h + 4) (skipn (a + 2) P)) = true).
    { rewrite E2. rewrite app_assoc. rewrite firstn_app.
      replace (length h + 4 - length (h ++ H4)) with 0 by (rewrite app_length; cbn; lia).
      rewrite firstn_all2 by (rewrite app_length; cbn; lia). cbn [firstn]. rewrite app_nil_r.
      now apply hdr_clean_lines. }
    assert (E3 : skipn (a + 2 + length h + 4) P = d ++ tok ++ REST).
    { replace (a + 2 + length h + 4) with ((a + 2) + (length h + 4)) by lia.
      rewrite <- skipn_skipn, E2. rewrite app_assoc, skipn_app.
      rewrite skipn_all2 by (rewrite app_length; cbn; lia).
      replace (length h + 4 - length (h ++ H4)) with 0 by (rewrite app_length; cbn; lia). reflexivity. }
    assert (L3 : a + 2 + length h + 4 <= length P).
    { pose proof (findb_bound _ _ _ Eh) as Hb. rewrite skipn_length in Hb. cbn in Hb. lia. }
    assert (Ed : findb tok (skipn (a + 2 + length h + 4) P) = Some (length d)).
    { rewrite E3. now apply findb_tok_data. }
    assert (E4 : skipn (a + 2 + length h + 4 + length d + length tok) P = REST).
    { replace (a + 2 + length h + 4 + length d + length tok)
        with ((a + 2 + length h + 4) + (length d + length tok)) by lia.
      rewrite <- skipn_skipn, E3. rewrite app_assoc, skipn_app.
      rewrite skipn_all2 by (rewrite app_length; lia).
      replace (length d + length tok - length (d ++ tok)) with 0 by (rewrite app_length; lia). reflexivity. }
    destruct (IH P _ Hall' E4) as [secs W].
    eexists. eapply WS_delim_crlf; [exact Es|].
    apply WS_hdr_found; [exact L2 | exact Eh | exact Ec|].
    apply WS_data_found; [exact L3 | exact Ed | exact W].
Qed.

Lemma mp_body_wf lead parts epilogue :
  Forall (part_ok tok) parts -> wf_prefix B (mp_body B lead parts epilogue).
Proof.
  intros Hall. apply (wfP_wf_prefixb B HB).
  set (REST := flat_map (enc_part tok) parts ++ HY :: HY :: epilogue).
  assert (HD : D_of (mp_body B lead parts epilogue) = tok ++ REST).
  { unfold mp_body, D_of. destruct lead; reflexivity. }
  assert (Hsk : skipn (a0 B (mp_body B lead parts epilogue)) (mp_body B lead parts epilogue) = REST).
  { unfold a0, mp_body. destruct lead.
    - cbn [virt CRLF app]. change (N.eqb CR HY) with false. cbv iota. cbn [length]. rewrite Nat.sub_0_r.
      exact (skipn_exact (token B) REST).
    - cbn [app]. unfold dash_boundary at 1 2. cbn [virt app]. rewrite N.eqb_refl. cbv iota.
      change (length (token B)) with (S (S (length (dash_boundary B)))). cbn [CRLF length Nat.sub].
      exact (skipn_exact (dash_boundary B) REST). }
  split.
  - unfold mp_body. destruct lead; cbn; auto.
  - right. split.
    + rewrite HD. apply prefixb_app.
    + destruct (scan_parts epilogue parts _ _ Hall Hsk) as [secs W]. eauto.
Qed.

End Grammar.

(* every prefix of every body of the grammar is a well-formed prefix *)
Theorem grammar_prefix_wf B lead parts epilogue k :
  contains_char N.eqb CR B = false ->
  Forall (part_ok (token B)) parts ->
  wf_prefix B (firstn k (mp_body B lead parts epilogue)).
Proof.
  intros HB Hall. apply (wf_prefix_closed B _ (skipn k (mp_body B lead parts epilogue))).
  rewrite firstn_skipn. now apply mp_body_wf.
Qed.

(* the property in its generative form *)
Theorem grammar_split_independent B lead parts epilogue k chunks :
  contains_char N.eqb CR B = false ->
  Forall (part_ok (token B)) parts ->
  concat chunks = firstn k (mp_body B lead parts epilogue) ->
  markup_chunks B chunks = ref_obs B (firstn k (mp_body B lead parts epilogue))
  /\ snd (markup_chunks B chunks) = None.
Proof.
  intros HB Hall E.
  pose proof (grammar_prefix_wf B lead parts epilogue k HB Hall) as Hwf. rewrite <- E in Hwf |- *.
  pose proof (stream_eq_ref B chunks Hwf) as H. split; [exact H|].
  rewrite H. unfold ref_obs. cbn [snd].
  (* ref never reports an error on a well-formed prefix *)
  unfold wf_prefix in Hwf. destruct (wf_prefixb_inv B _ Hwf) as (_ & (Hfo & Hw) & Hd).
  unfold ref. destruct (concat chunks) as [|x r] eqn:EP; [reflexivity|].
  cbn [first_ok] in Hfo.
  assert (Hx : N.eqb x CR || N.eqb x HY = true).
  { destruct Hfo as [->| ->]; [now rewrite N.eqb_refl | rewrite N.eqb_refl; apply orb_true_r]. }
  rewrite Hx. fold (D_of (x :: r)).
  destruct Hw as [[Hp Hl]|[Hp _]].
  - rewrite (findb_short B) by exact Hl. reflexivity.
  - rewrite (findb_prefix B _ _ Hp). destruct (Hd Hp) as (x' & r' & _ & _ & Hwd).
    destruct (prefixb_tok_nonempty B _ Hp) as [_ La0].
    destruct (wf_delim_scan (token B) _ _ _ La0 Hwd) as (secs & f & W & Esc).
    cbn [Nat.add]. fold (a0 B (x :: r)). rewrite Esc. cbn [cons_secs snd].
    clear - W. remember (FDelim (a0 B (x :: r))) as s0 eqn:E0. clear E0.
    induction W; try reflexivity; assumption.
Qed.
