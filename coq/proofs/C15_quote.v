(* C15_quote.v — http.cookies quoting layer: _unquote (_quote v) = v for code points
   < 256, the quoted form is one quoted-string token of the cookie pattern, and the
   character-class facts used by the parser lemmas. *)
From Coq Require Import String Ascii.
From Verif Require Import lib.Base lib.Str lib.Utf8 model.Cookie.
Local Open Scope N_scope.

(* ---- brute force over the 128 / 256 smallest code points ---- *)
Lemma below_cases (n : nat) (P : N -> bool) :
  forallb P (List.map N.of_nat (seq 0 n)) = true -> forall c, c < N.of_nat n -> P c = true.
Proof.
  intros H c Hc. rewrite forallb_forall in H. apply H. apply in_map_iff.
  exists (N.to_nat c). split; [lia|]. apply in_seq. lia.
Qed.

Ltac brute128 c Hc :=
  revert c Hc; apply (below_cases 128); vm_compute; reflexivity.
Ltac brute256 c Hc :=
  revert c Hc; apply (below_cases 256); vm_compute; reflexivity.

Lemma legal_lt128 c : legal_char c = true -> c < 128.
Proof.
  unfold legal_char, is_alnum, is_digit, is_alpha, memN, legal_extra. simpl. lia.
Qed.

Lemma unescaped_lt128 c : unescaped_char c = true -> c < 128.
Proof.
  unfold unescaped_char, legal_char, is_alnum, is_digit, is_alpha, memN, legal_extra, unescaped_extra.
  simpl. lia.
Qed.

(* what a legal character is not, and which classes contain it *)
Definition legal_facts (c : N) : bool :=
  implb (legal_char c)
        (key_char c && val_char c && unescaped_char c && negb (is_ws c)
         && negb (c =? 61) && negb (c =? 59) && negb (c =? 34) && negb (c =? 44) && negb (c =? 92)).

Lemma legal_facts_all c : c < 128 -> legal_facts c = true.
Proof. intros Hc. brute128 c Hc. Qed.

Lemma legal_props c :
  legal_char c = true ->
  key_char c = true /\ val_char c = true /\ unescaped_char c = true /\ is_ws c = false
  /\ c <> 61 /\ c <> 59 /\ c <> 34 /\ c <> 44 /\ c <> 92.
Proof.
  intros H. pose proof (legal_facts_all c (legal_lt128 c H)) as F.
  unfold legal_facts in F. rewrite H in F. simpl in F.
  repeat (apply andb_true_iff in F; destruct F as [F ?]).
  repeat match goal with X : negb _ = true |- _ => apply negb_true_iff in X end.
  repeat split; try assumption; try (apply N.eqb_neq; assumption).
Qed.

(* ---- the translation table, for code points < 256 ---- *)
Definition tr_facts (c : N) : bool :=
  forallb (fun x => x <? 128) (translate_char c)
  && (if c =? 34 then str_eqb (translate_char c) [92; 34]
      else if c =? 92 then str_eqb (translate_char c) [92; 92]
      else if unescaped_char c then str_eqb (translate_char c) [c]
      else match translate_char c with
           | [b; d1; d2; d3] =>
             (b =? 92) && is_oct 48 51 d1 && is_oct 48 55 d2 && is_oct 48 55 d3
             && ((d1 - 48) * 64 + (d2 - 48) * 8 + (d3 - 48) =? c)
           | _ => false
           end).

Lemma tr_facts_all c : c < 256 -> tr_facts c = true.
Proof. intros Hc. brute256 c Hc. Qed.

Inductive tr_shape (c : N) : str -> Prop :=
| TrQuote : c = 34 -> tr_shape c [92; 34]
| TrBack : c = 92 -> tr_shape c [92; 92]
| TrPlain : c <> 34 -> c <> 92 -> tr_shape c [c]
| TrOctal d1 d2 d3 :
    is_oct 48 51 d1 = true -> is_oct 48 55 d2 = true -> is_oct 48 55 d3 = true ->
    (d1 - 48) * 64 + (d2 - 48) * 8 + (d3 - 48) = c -> tr_shape c [92; d1; d2; d3].

Lemma translate_shape c : c < 256 -> tr_shape c (translate_char c).
Proof.
  intros Hc. pose proof (tr_facts_all c Hc) as F. unfold tr_facts in F.
  apply andb_true_iff in F. destruct F as [_ F].
  destruct (N.eqb_spec c 34) as [E|E]; [apply str_eqb_eq in F; rewrite F; now constructor|].
  destruct (N.eqb_spec c 92) as [E2|E2]; [apply str_eqb_eq in F; rewrite F; now constructor|].
  destruct (unescaped_char c); [apply str_eqb_eq in F; rewrite F; now constructor|].
  destruct (translate_char c) as [|b [|d1 [|d2 [|d3 [|? ?]]]]]; try discriminate.
  repeat (apply andb_true_iff in F; destruct F as [F ?]).
  apply N.eqb_eq in F. subst b. apply TrOctal; try assumption. now apply N.eqb_eq.
Qed.

Lemma translate_big c : 256 <= c -> translate_char c = [c].
Proof.
  intros Hc. unfold translate_char.
  replace (c =? 34) with false by lia. replace (c =? 92) with false by lia.
  replace (c <? 256) with false by lia. reflexivity.
Qed.

Lemma translate_ascii c : c < 256 -> Forall (fun x => x < 128) (translate_char c).
Proof.
  intros Hc. pose proof (tr_facts_all c Hc) as F. unfold tr_facts in F.
  apply andb_true_iff in F. destruct F as [F _].
  apply Forall_forall. intros x Hx. rewrite forallb_forall in F. specialize (F x Hx). lia.
Qed.

(* ---- _unquote undoes the translation ---- *)
Lemma octal_at_nondigit a r : is_oct 48 51 a = false -> octal_at (a :: r) = None.
Proof. intros H. destruct r as [|b [|c r]]; simpl; try reflexivity. now rewrite H. Qed.

Lemma unq_chunk c rest : c < 256 -> unq_go 0 (translate_char c ++ rest) = c :: unq_go 0 rest.
Proof.
  intros Hc. destruct (translate_shape c Hc) as [->| ->|Hq Hb|d1 d2 d3 H1 H2 H3 Hv].
  - cbn [app unq_go]. change (92 =? 92) with true. cbv iota.
    rewrite octal_at_nondigit by reflexivity. reflexivity.
  - cbn [app unq_go]. change (92 =? 92) with true. cbv iota.
    rewrite octal_at_nondigit by reflexivity. reflexivity.
  - cbn [app unq_go]. replace (c =? 92) with false by lia. reflexivity.
  - cbn [app unq_go]. change (92 =? 92) with true. cbv iota.
    cbn [octal_at]. rewrite H1, H2, H3. cbn [andb]. rewrite Hv. reflexivity.
Qed.

Lemma unq_translate v : Forall (fun c => c < 256) v -> unq_go 0 (flat_map translate_char v) = v.
Proof.
  induction v as [|c r IH]; intros H; simpl; [reflexivity|].
  inversion H; subst. rewrite unq_chunk by assumption. now rewrite IH.
Qed.

(* ---- the quoted form is one quoted-string token ---- *)
Lemma tr_shape_any c : exists t, translate_char c = t /\
  (tr_shape c t \/ (256 <= c /\ t = [c])).
Proof.
  destruct (N.ltb_spec c 256) as [H|H].
  - exists (translate_char c). split; [reflexivity | left; now apply translate_shape].
  - exists [c]. split; [now apply translate_big | right; auto].
Qed.

Lemma is_oct_facts lo hi d : is_oct lo hi d = true -> lo <= d <= hi.
Proof. unfold is_oct. lia. Qed.

Lemma qbody_chunk c rest out rem :
  qbody rest = Some (out, rem) -> qbody (translate_char c ++ rest) = Some (translate_char c ++ out, rem).
Proof.
  intros Hr. destruct (tr_shape_any c) as [t [-> [S|[Hc ->]]]].
  - destruct S as [->| ->|Hq Hb|d1 d2 d3 H1 H2 H3 Hv].
    + cbn [app qbody]. change (92 =? 34) with false. change (92 =? 92) with true.
      change (34 =? 10) with false. cbv iota. now rewrite Hr.
    + cbn [app qbody]. change (92 =? 34) with false. change (92 =? 92) with true.
      change (92 =? 10) with false. cbv iota. now rewrite Hr.
    + cbn [app qbody]. replace (c =? 34) with false by lia. replace (c =? 92) with false by lia.
      now rewrite Hr.
    + apply is_oct_facts in H1, H2, H3.
      cbn [app qbody]. change (92 =? 34) with false. change (92 =? 92) with true. cbv iota.
      replace (d1 =? 10) with false by lia.
      replace (d2 =? 34) with false by lia. replace (d2 =? 92) with false by lia.
      replace (d3 =? 34) with false by lia. replace (d3 =? 92) with false by lia.
      now rewrite Hr.
  - cbn [app qbody]. replace (c =? 34) with false by lia. replace (c =? 92) with false by lia.
    now rewrite Hr.
Qed.

Lemma qbody_quoted v :
  qbody (flat_map translate_char v ++ [34]) = Some (flat_map translate_char v ++ [34], []).
Proof.
  induction v as [|c r IH]; simpl; [reflexivity|].
  rewrite <- app_assoc. rewrite (qbody_chunk c _ _ _ IH). now rewrite app_assoc.
Qed.

(* ---- quote / unquote as a whole ---- *)
Lemma last_app_single {A} (l : list A) x d : last (l ++ [x]) d = x.
Proof. induction l as [|a l IH]; simpl; [reflexivity|]. destruct (l ++ [x]) eqn:E; [destruct l; discriminate | exact IH]. Qed.

Lemma unquote_quoted body :
  unquote (34 :: body ++ [34]) = unq_go 0 body.
Proof.
  unfold unquote. destruct (body ++ [34]) as [|b r] eqn:E; [destruct body; discriminate|].
  rewrite <- E. change (34 =? 34) with true.
  replace (last (34 :: body ++ [34]) 0) with 34.
  - simpl. rewrite removelast_last. reflexivity.
  - symmetry. change (34 :: body ++ [34]) with ((34 :: body) ++ [34]). apply last_app_single.
Qed.

Lemma unquote_legal v : is_legal_key v = true -> unquote v = v.
Proof.
  intros H. unfold unquote. destruct v as [|a [|b r]]; try reflexivity.
  unfold is_legal_key in H. simpl in H. apply andb_true_iff in H. destruct H as [Ha _].
  destruct (legal_props a Ha) as [_ [_ [_ [_ [_ [_ [Hq _]]]]]]].
  replace (a =? 34) with false by lia. reflexivity.
Qed.

(* _unquote (_quote v) = v when every code point is below 256 *)
Lemma unquote_quote v : Forall (fun c => c < 256) v -> unquote (quote v) = v.
Proof.
  intros H. unfold quote. destruct (is_legal_key v) eqn:E.
  - now apply unquote_legal.
  - rewrite unquote_quoted. now apply unq_translate.
Qed.

(* the quoted form is ASCII when every code point is below 256 *)
Lemma quote_ascii v : Forall (fun c => c < 256) v -> Forall (fun c => c < 128) (quote v).
Proof.
  intros H. unfold quote. destruct (is_legal_key v) eqn:E.
  - destruct v as [|c0 v']; [discriminate|]. unfold is_legal_key in E.
    apply Forall_forall. intros c Hc. rewrite forallb_forall in E. apply legal_lt128. now apply E.
  - constructor; [lia|]. apply Forall_app. split; [|repeat constructor; lia].
    apply Forall_forall. intros x Hx. apply in_flat_map in Hx. destruct Hx as [c [Hc Hx]].
    rewrite Forall_forall in H. pose proof (translate_ascii c (H c Hc)) as A.
    rewrite Forall_forall in A. now apply A.
Qed.
