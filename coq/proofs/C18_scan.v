(* C18_scan.v — on EVERY string, the index-juggling scanner of parse_qsl
   (model/Qsl.v: qsl_loop) computes the declarative splitting [qsl_spec]. *)
From Verif Require Import lib.Base lib.Str lib.Utf8 lib.Pct model.Qsl proofs.C18_spec proofs.C18_proofs.
From Coq Require Import ZifyBool.

(* ---- decomposition of a string at its first stop character ---- *)

Lemma span_dec (stop : N -> bool) (s : str) :
  Forall (fun y => stop y = false) s
  \/ exists a x r, s = a ++ x :: r /\ Forall (fun y => stop y = false) a /\ stop x = true.
Proof.
  induction s as [|y s IH]; [left; constructor|].
  destruct (stop y) eqn:Ey.
  - right. exists [], y, s. repeat split; [constructor | exact Ey].
  - destruct IH as [H|(a & x & r & -> & Ha & Hx)].
    + left. constructor; assumption.
    + right. exists (y :: a), x, r. repeat split; [constructor; assumption | exact Hx].
Qed.

(* ---- the Str.v primitives on such decompositions ---- *)

Lemma split_all_sep c (a r : str) :
  Forall (fun y => N.eqb y c = false) a ->
  split_all N.eqb c (a ++ c :: r) = a :: split_all N.eqb c r.
Proof.
  induction 1 as [|y a Hy _ IH]; cbn [app split_all].
  - rewrite N.eqb_refl. reflexivity.
  - rewrite Hy, IH. reflexivity.
Qed.

Lemma split_all_nosep c (a : str) :
  Forall (fun y => N.eqb y c = false) a -> split_all N.eqb c a = [a].
Proof.
  induction 1 as [|y a Hy _ IH]; cbn [split_all]; [reflexivity|]. rewrite Hy, IH. reflexivity.
Qed.

Lemma split_once_sep c (a r : str) :
  Forall (fun y => N.eqb y c = false) a ->
  split_once N.eqb c (a ++ c :: r) = (a, Some r).
Proof.
  induction 1 as [|y a Hy _ IH]; cbn [app split_once].
  - rewrite N.eqb_refl. reflexivity.
  - rewrite Hy, IH. reflexivity.
Qed.

Lemma split_once_nosep c (a : str) :
  Forall (fun y => N.eqb y c = false) a -> split_once N.eqb c a = (a, None).
Proof.
  induction 1 as [|y a Hy _ IH]; cbn [split_once]; [reflexivity|]. rewrite Hy, IH. reflexivity.
Qed.

Lemma nosep_eq a : Forall (fun y => is_eq_or_amp y = false) a -> Forall (fun y => N.eqb y 61 = false) a.
Proof. apply Forall_impl. intros y. unfold is_eq_or_amp. intros H. apply orb_false_iff in H. tauto. Qed.

Lemma nosep_amp a : Forall (fun y => is_eq_or_amp y = false) a -> Forall (fun y => N.eqb y 38 = false) a.
Proof. apply Forall_impl. intros y. unfold is_eq_or_amp. intros H. apply orb_false_iff in H. tauto. Qed.

(* ---- the spec on the shapes the scanner meets ---- *)

Lemma spec_nil : qsl_spec [] = [].
Proof. reflexivity. Qed.

Lemma spec_skip_eq r : qsl_spec (61%N :: r) = qsl_spec r.
Proof.
  unfold qsl_spec. cbn [split_all]. cbn [N.eqb Pos.eqb].
  destruct (split_all N.eqb 38%N r) as [|h t]; reflexivity.
Qed.

Lemma spec_skip_amp r : qsl_spec (38%N :: r) = qsl_spec r.
Proof. unfold qsl_spec. cbn [split_all]. rewrite N.eqb_refl. reflexivity. Qed.

(* a non-empty key without separators is not touched by the lstrip *)
Lemma lstrip_key key r :
  key <> [] -> Forall (fun y => is_eq_or_amp y = false) key ->
  lstrip_set (fun c => N.eqb c 61) (key ++ r) = key ++ r /\ key ++ r <> [].
Proof.
  intros Hne H. destruct key as [|y key]; [congruence|].
  inversion H as [|? ? Hy _]; subst. cbn [app lstrip_set].
  unfold is_eq_or_amp in Hy. apply orb_false_iff in Hy. destruct Hy as [Hy _]. rewrite Hy.
  split; [reflexivity | discriminate].
Qed.

Lemma seg_key key :
  key <> [] -> Forall (fun y => is_eq_or_amp y = false) key ->
  seg_pairs key = [(decode_component key, [])].
Proof.
  intros Hne H. unfold seg_pairs.
  destruct (lstrip_key key [] Hne H) as [E Hn]. rewrite app_nil_r in *. rewrite E.
  destruct key as [|y key]; [congruence|].
  rewrite split_once_nosep by (apply nosep_eq, H). reflexivity.
Qed.

Lemma seg_key_val key v :
  key <> [] -> Forall (fun y => is_eq_or_amp y = false) key ->
  seg_pairs (key ++ 61%N :: v) = [(decode_component key, decode_component v)].
Proof.
  intros Hne H. unfold seg_pairs.
  destruct (lstrip_key key (61%N :: v) Hne H) as [E Hn]. rewrite E.
  destruct (key ++ 61%N :: v) as [|z zs] eqn:Ez; [congruence|]. rewrite <- Ez.
  rewrite split_once_sep by (apply nosep_eq, H). reflexivity.
Qed.

Lemma spec_key key :
  key <> [] -> Forall (fun y => is_eq_or_amp y = false) key ->
  qsl_spec key = [(decode_component key, [])].
Proof.
  intros Hne H. unfold qsl_spec. rewrite split_all_nosep by (apply nosep_amp, H).
  cbn [flat_map]. rewrite seg_key by assumption. reflexivity.
Qed.

Lemma spec_key_amp key r :
  key <> [] -> Forall (fun y => is_eq_or_amp y = false) key ->
  qsl_spec (key ++ 38%N :: r) = (decode_component key, []) :: qsl_spec r.
Proof.
  intros Hne H. unfold qsl_spec. rewrite split_all_sep by (apply nosep_amp, H).
  cbn [flat_map]. rewrite seg_key by assumption. reflexivity.
Qed.

Lemma key_eq_val_noamp key v :
  Forall (fun y => is_eq_or_amp y = false) key -> Forall (fun y => is_amp y = false) v ->
  Forall (fun y => N.eqb y 38 = false) (key ++ 61%N :: v).
Proof.
  intros Hk Hv. apply Forall_app. split; [apply nosep_amp, Hk|].
  constructor; [reflexivity | exact Hv].
Qed.

Lemma spec_key_val_amp key v r :
  key <> [] -> Forall (fun y => is_eq_or_amp y = false) key -> Forall (fun y => is_amp y = false) v ->
  qsl_spec (key ++ 61%N :: v ++ 38%N :: r) = (decode_component key, decode_component v) :: qsl_spec r.
Proof.
  intros Hne Hk Hv. unfold qsl_spec.
  replace (key ++ 61%N :: v ++ 38%N :: r) with ((key ++ 61%N :: v) ++ 38%N :: r)
    by (rewrite <- app_assoc; reflexivity).
  rewrite split_all_sep by (apply key_eq_val_noamp; assumption).
  cbn [flat_map]. rewrite seg_key_val by assumption. reflexivity.
Qed.

Lemma spec_key_val key v :
  key <> [] -> Forall (fun y => is_eq_or_amp y = false) key -> Forall (fun y => is_amp y = false) v ->
  qsl_spec (key ++ 61%N :: v) = [(decode_component key, decode_component v)].
Proof.
  intros Hne Hk Hv. unfold qsl_spec.
  rewrite split_all_nosep by (apply key_eq_val_noamp; assumption).
  cbn [flat_map]. rewrite seg_key_val by assumption. reflexivity.
Qed.

(* ---- the loop ---- *)

Section Scan.
Context {St : Type} (add : str -> str -> St -> St).

Lemma slice_beyond {A} (l : list A) i j : length l <= i -> slice l i j = [].
Proof. intros H. unfold slice. rewrite skipn_all2 by exact H. apply firstn_nil. Qed.

Lemma decode_nil : decode_component [] = [].
Proof. reflexivity. Qed.

Lemma stop_cases x : is_eq_or_amp x = true -> x = 61%N \/ x = 38%N.
Proof. unfold is_eq_or_amp. intros H. apply orb_true_iff in H. rewrite !N.eqb_eq in H. exact H. Qed.

Lemma loop_spec fuel : forall rest pre st,
  length rest < fuel ->
  qsl_loop add fuel (pre ++ rest) (length pre) st
  = Some (fold_left (step_add add) (qsl_spec rest) st).
Proof.
  induction fuel as [|f IH]; intros rest pre st Hf; [lia|].
  destruct rest as [|r0 rest0].
  { rewrite spec_nil. apply loop_done. rewrite app_nil_r. lia. }
  set (rest := r0 :: rest0) in *.
  assert (Hrest : 1 <= length rest) by (cbn; lia).
  set (qs := pre ++ rest).
  assert (HL : length qs = length pre + length rest) by apply app_length.
  assert (Hs1 : skipn (length pre) qs = rest) by apply skipn_pre.
  cbn [qsl_loop].
  destruct (Nat.ltb_spec (length pre) (length qs)) as [_|]; [|lia].
  rewrite Hs1.
  destruct (span_dec is_eq_or_amp rest) as [Hall|(key & x & r & Erest & Hkey & Hx)].
  - (* B: no separator at all: rest is a key with a blank value *)
    assert (Hne : rest <> []) by discriminate.
    destruct (for_else_nostop is_eq_or_amp rest 0 0 None Hall) as (idx & c & E & P).
    destruct (P Hne) as (Hidx & y & -> & Hy). rewrite E. cbn [Nat.add] in Hidx.
    assert (Hkeysl : slice qs (length pre) (length pre + idx) = rest)
      by (apply slice_tail; lia).
    rewrite !Hkeysl. unfold rest at 1. fold rest.
    assert (Hy38 : opt_is (Some y) 38 = false).
    { cbn [opt_is]. unfold is_eq_or_amp in Hy. apply orb_false_iff in Hy. tauto. }
    rewrite Hy38.
    rewrite (skipn_all2 qs) by lia. cbn [for_else].
    rewrite slice_beyond by lia. rewrite decode_nil.
    rewrite spec_key by assumption. cbn [fold_left step_add fst snd].
    destruct f as [|f]; [lia|]. apply loop_done. lia.
  - (* A: a separator x after [key] *)
    assert (Eqs : qs = pre ++ key ++ x :: r) by (unfold qs; rewrite Erest; reflexivity).
    rewrite Erest at 1. rewrite for_else_stop by assumption. cbn [Nat.add].
    assert (Hkeysl : slice qs (length pre) (length pre + length key) = key)
      by (rewrite Eqs; apply slice_mid; reflexivity).
    rewrite !Hkeysl.
    assert (Hi2 : length pre + length key + 1 = length (pre ++ key ++ [x]))
      by (rewrite !app_length; cbn; lia).
    assert (Eqs2 : qs = (pre ++ key ++ [x]) ++ r) by (rewrite Eqs, <- !app_assoc; reflexivity).
    assert (Hlen : length rest = length key + S (length r)) by (rewrite Erest, app_length; reflexivity).
    rewrite !Hi2.
    destruct key as [|k0 key0].
    + (* empty key: continue behind the separator *)
      rewrite Eqs2. rewrite IH by (cbn [length] in Hlen; lia).
      rewrite Erest. cbn [app]. destruct (stop_cases x Hx) as [->| ->];
        [rewrite spec_skip_eq | rewrite spec_skip_amp]; reflexivity.
    + set (key := k0 :: key0) in *. assert (Hkne : key <> []) by discriminate.
      destruct (stop_cases x Hx) as [->| ->]; cbn [opt_is]; cbn [N.eqb Pos.eqb].
      * (* '=' : scan the value *)
        assert (Hs2 : skipn (length (pre ++ key ++ [61%N])) qs = r) by (rewrite Eqs2; apply skipn_pre).
        rewrite Hs2.
        destruct (span_dec is_amp r) as [Hv|(v & y & r2 & Er & Hv & Hy)].
        -- (* value runs to the end *)
           pose proof (for_else_nostop_ge is_amp r Hv) as Hge.
           destruct (for_else is_amp r 0 0 None) as [idx2 c2]. cbn [fst] in Hge.
           assert (Hval : slice qs (length (pre ++ key ++ [61%N])) (length (pre ++ key ++ [61%N]) + idx2) = r)
             by (rewrite Eqs2; apply slice_tail; lia).
           rewrite Hval, Erest, spec_key_val by assumption. cbn [fold_left step_add fst snd].
           destruct f as [|f]; [lia|]. apply loop_done.
           rewrite Eqs2, app_length. lia.
        -- (* value ends at '&' *)
           assert (Ey : y = 38%N) by (unfold is_amp in Hy; apply N.eqb_eq in Hy; exact Hy). subst y.
           rewrite Er at 1. rewrite for_else_stop by assumption. cbn [Nat.add].
           assert (Hval : slice qs (length (pre ++ key ++ [61%N])) (length (pre ++ key ++ [61%N]) + length v) = v)
             by (rewrite Eqs2, Er; apply slice_mid; reflexivity).
           rewrite Hval.
           assert (Eqs3 : qs = (pre ++ key ++ [61%N] ++ v ++ [38%N]) ++ r2)
             by (rewrite Eqs2, Er, <- !app_assoc; reflexivity).
           replace (length (pre ++ key ++ [61%N]) + length v + 1)
             with (length (pre ++ key ++ [61%N] ++ v ++ [38%N])) by (rewrite !app_length; cbn; lia).
           rewrite Eqs3. rewrite IH.
           ++ rewrite Erest, Er, spec_key_val_amp by assumption. reflexivity.
           ++ rewrite Er, app_length in Hlen. cbn [length] in Hlen. lia.
      * (* '&' : blank value *)
        rewrite Eqs2. rewrite IH by lia.
        rewrite Erest, spec_key_amp by assumption. reflexivity.
Qed.

Lemma run_spec qs st : qsl_run add qs st = Some (fold_left (step_add add) (qsl_spec qs) st).
Proof. unfold qsl_run. apply (loop_spec (length qs + 1) qs [] st). lia. Qed.

End Scan.

(* ---- assembled ---- *)

Lemma C18_scanner_lemma :
  forall qs : str,
    parse_qsl_pairs qs = QDone (qsl_spec qs)
    /\ query qs = QDone (group (qsl_spec qs))
    /\ forms_urlencoded qs = QDone (group (qsl_spec qs)).
Proof.
  intros qs. rewrite query_eq. unfold forms_urlencoded, latin1_dec, parse_qsl_pairs, parse_qsl_into.
  rewrite !run_spec. cbn [qres_of]. rewrite fold_add_pair, fold_add_group. auto.
Qed.

(* ---- parse_qsl(qs, append=acc.append) on a list that already holds something ---- *)
Lemma qsl_spec_urlencode ps :
  (forall k v, In (k, v) ps -> k <> [] /\ Forall scalar k /\ Forall scalar v) ->
  qsl_spec (urlencode ps) = ps /\ qsl_spec (urlencode_q ps) = ps.
Proof.
  intros H. destruct (C18_roundtrip_lemma ps H) as (_ & _ & A & _ & _ & B).
  destruct (C18_scanner_lemma (urlencode ps)) as (A' & _). destruct (C18_scanner_lemma (urlencode_q ps)) as (B' & _).
  rewrite A' in A. rewrite B' in B. injection A as A. injection B as B. auto.
Qed.

Lemma C18_append_mode_lemma :
  forall (l0 : list (str * str)),
    (forall qs, qsl_run add_pair qs l0 = Some (l0 ++ qsl_spec qs))
    /\ (forall ps, (forall k v, In (k, v) ps -> k <> [] /\ Forall scalar k /\ Forall scalar v) ->
                   qsl_run add_pair (urlencode ps) l0 = Some (l0 ++ ps)
                   /\ qsl_run add_pair (urlencode_q ps) l0 = Some (l0 ++ ps)).
Proof.
  intros l0.
  assert (G : forall qs, qsl_run add_pair qs l0 = Some (l0 ++ qsl_spec qs))
    by (intros qs; rewrite run_spec, fold_add_pair; reflexivity).
  split; [exact G|]. intros ps H. destruct (qsl_spec_urlencode ps H) as [A B].
  rewrite !G, A, B. auto.
Qed.
