(* C18_framing.v — C18 composed with the body framing (C04, C05) and the size
   limits (C13): Request.forms through the whole body pipeline. *)
From Verif Require Import lib.Base lib.Str lib.Utf8 lib.Pct lib.PyIntHex
     model.Stream model.Body model.Chunked model.BodyLimits model.Qsl model.QslBody gen.Gen
     proofs.C04_proofs proofs.C05_scan proofs.C05_proofs proofs.C13_proofs
     proofs.C18_spec proofs.C18_proofs.

Definition within (maxb : option nat) (n : nat) : Prop :=
  match maxb with Some m => n <= m | None => True end.

(* ---- the text that reaches the parser ---- *)

Lemma gbs_accept (body : list N) (cl : Z) (buf : nat) :
  (0 <= cl)%Z -> Z.to_nat cl = length body -> length body <= buf ->
  get_body_string body cl (Z.of_nat buf) = GData body.
Proof.
  intros Hcl Hlen Hfit. rewrite get_body_string_spec by lia.
  replace (cl <? 0)%Z with false by lia.
  replace ((Z.of_nat (Nat.min (Z.to_nat cl) (length body)) >? Z.of_nat buf)%Z || (cl >? Z.of_nat buf)%Z)
    with false by lia.
  rewrite Hlen, firstn_all. reflexivity.
Qed.

Lemma gbs_accept_nocl (body : list N) (buf : nat) :
  length body <= buf -> get_body_string body (-1) (Z.of_nat buf) = GData body.
Proof.
  intros Hfit. rewrite get_body_string_spec by lia. cbn [Z.ltb Z.compare].
  replace (Z.of_nat (length body) >? Z.of_nat buf)%Z with false by lia. reflexivity.
Qed.

(* Content-Length framing: body = [text], anything may follow it on the stream *)
Lemma form_text_cl_accept (text tail : list N) (sc : list nat) (buf : nat) (maxb : option nat) :
  0 < buf -> length text <= buf -> within maxb (length text) ->
  exists s', form_text (stream_init (text ++ tail) sc) buf maxb (Z.of_nat (length text)) false = TText text s'
             /\ rest s' = tail.
Proof.
  intros Hbuf Hfit Hw.
  assert (Hf : firstn (Z.to_nat (Z.of_nat (length text))) (text ++ tail) = text).
  { rewrite Nat2Z.id, firstn_app, Nat.sub_diag, firstn_all. cbn. apply app_nil_r. }
  assert (Hs : skipn (Z.to_nat (Z.of_nat (length text))) (text ++ tail) = tail).
  { rewrite Nat2Z.id, skipn_app, Nat.sub_diag, skipn_all. reflexivity. }
  unfold form_text, form_text_with, request_body_with, body_read.
  destruct maxb as [m|]; cbn [within] in Hw.
  - pose proof (C13_cl_lemma (text ++ tail) sc buf m (Z.of_nat (length text)) Hbuf) as H. cbv zeta in H.
    rewrite Nat2Z.id, app_length in H.
    destruct (Nat.ltb_spec m (Nat.min (length text) (length text + length tail))) as [Hlt|_]; [lia|].
    destruct H as (s' & -> & _ & Hr & _). exists s'. rewrite Nat2Z.id in Hf, Hs. rewrite Hf.
    rewrite gbs_accept by (rewrite ?Nat2Z.id; lia). split; [reflexivity | now rewrite Hr].
  - destruct (C04_exact_lemma (text ++ tail) sc buf (Z.of_nat (length text)) Hbuf) as (s' & -> & Hr & _).
    exists s'. rewrite Hf. rewrite gbs_accept by (rewrite ?Nat2Z.id; lia).
    split; [reflexivity | now rewrite Hr, Hs].
Qed.

(* chunked framing: every legal chunking of the text *)
Lemma form_text_chunked_accept (cs : list chunk) (last : chunk) (tail : list N) (sc : list nat)
      (buf : nat) (maxb : option nat) :
  Forall chunk_ok cs -> last_ok last ->
  Forall (fun c => line_len c <= buf) cs -> line_len last <= buf ->
  length (payload_of cs) <= buf -> within maxb (length (payload_of cs)) ->
  exists s', form_text (stream_init (enc_chunked cs last tail) sc) buf maxb (-1) true = TText (payload_of cs) s'
             /\ rest s' = tail.
Proof.
  intros Hcs Hl Hfit Hlfit Hsmall Hw.
  unfold form_text, form_text_with, request_body_with, body_read.
  destruct maxb as [m|]; cbn [within] in Hw.
  - pose proof (C13_chunked_lemma cs last tail buf m sc Hcs Hl Hfit Hlfit) as H. cbv zeta in H.
    destruct (Nat.ltb_spec m (length (payload_of cs))) as [Hlt|_]; [lia|].
    destruct H as (s' & -> & _ & Hr). exists s'. rewrite gbs_accept_nocl by exact Hsmall. auto.
  - destruct (C05_exact_lemma cs last tail buf sc Hcs Hl Hfit Hlfit) as (s' & -> & Hr & _).
    exists s'. rewrite gbs_accept_nocl by exact Hsmall. auto.
Qed.

(* ---- assembled ---- *)

Definition encoding_of (ps : list (str * str)) (text : list N) : Prop :=
  text = urlencode ps \/ text = urlencode_q ps.

Lemma forms_of_encoding ps text :
  (forall k v, In (k, v) ps -> k <> [] /\ Forall scalar k /\ Forall scalar v) ->
  encoding_of ps text -> forms_urlencoded text = QDone (group ps).
Proof.
  intros H [-> | ->]; destruct (C18_roundtrip_lemma ps H) as (_ & A & _ & _ & B & _); assumption.
Qed.

Lemma C18_forms_through_framing_lemma :
  forall (ps : list (str * str)) (text : list N),
    (forall k v, In (k, v) ps -> k <> [] /\ Forall scalar k /\ Forall scalar v) ->
    encoding_of ps text ->
    (* Content-Length framing *)
    (forall (tail : list N) (sc : list nat) (buf : nat) (maxb : option nat),
        0 < buf ->
        let s := stream_init (text ++ tail) sc in
        let cl := Z.of_nat (length text) in
        (length text <= buf -> within maxb (length text) ->
           exists s', forms_through s buf maxb cl false = FForms (group ps) s' /\ rest s' = tail)
        /\ (buf < length text -> exists s', forms_through s buf maxb cl false = FStatus 413 s'))
    /\
    (* chunked framing, every legal chunking of the text *)
    (forall (cs : list chunk) (last : chunk) (tail : list N) (sc : list nat) (buf : nat) (maxb : option nat),
        payload_of cs = text ->
        Forall chunk_ok cs -> last_ok last ->
        Forall (fun c => line_len c <= buf) cs -> line_len last <= buf ->
        let s := stream_init (enc_chunked cs last tail) sc in
        (length text <= buf -> within maxb (length text) ->
           exists s', forms_through s buf maxb (-1) true = FForms (group ps) s' /\ rest s' = tail)
        /\ (buf < length text -> exists s', forms_through s buf maxb (-1) true = FStatus 413 s')).
Proof.
  intros ps text Hps Henc.
  pose proof (forms_of_encoding ps text Hps Henc) as Hparse.
  split.
  - intros tail sc buf maxb Hbuf s cl. split.
    + intros Hfit Hw. destruct (form_text_cl_accept text tail sc buf maxb Hbuf Hfit Hw) as (s' & E & Hr).
      exists s'. unfold forms_through, s, cl. rewrite E, Hparse. auto.
    + intros Hbig. destruct C13_form_text_refused_lemma as [R _].
      destruct (R (text ++ tail) sc buf maxb cl Hbuf) as (s' & E).
      * unfold cl. lia.
      * unfold cl. rewrite Nat2Z.id, app_length. lia.
      * exists s'. unfold forms_through, s. rewrite E. reflexivity.
  - intros cs last tail sc buf maxb Hpay Hcs Hl Hfit Hlfit s. subst text. split.
    + intros Hsmall Hw.
      destruct (form_text_chunked_accept cs last tail sc buf maxb Hcs Hl Hfit Hlfit Hsmall Hw) as (s' & E & Hr).
      exists s'. unfold forms_through, s. rewrite E, Hparse. auto.
    + intros Hbig. destruct C13_form_text_refused_lemma as [_ R].
      destruct (R cs last tail buf maxb sc Hcs Hl Hfit Hlfit Hbig) as (s' & E).
      exists s'. unfold forms_through, s. rewrite E. reflexivity.
Qed.

(* whatever arrives (legal or not, any framing, any limits): if forms are delivered they are
   the parse of a text of at most max_memfile_size bytes; nothing else than a value, a mapped
   status or an escape exists, and fuel is never the outcome when the framing models say so *)
Lemma C18_forms_through_capped_lemma :
  forall (data : list N) (sc : list nat) (buf : nat) (maxb : option nat) (cl : Z) (chunked : bool) d s',
    forms_through (stream_init data sc) buf maxb cl chunked = FForms d s' ->
    exists text, form_text (stream_init data sc) buf maxb cl chunked = TText text s'
                 /\ length text <= buf /\ forms_urlencoded text = QDone d.
Proof.
  intros data sc buf maxb cl chunked d s'. unfold forms_through.
  destruct (form_text _ _ _ _ _) as [t s1|c s1|s1|] eqn:E; try discriminate.
  destruct (forms_urlencoded t) as [f|] eqn:F; [|discriminate]. intros [= <- <-].
  exists t. split; [reflexivity|]. split; [|exact F].
  eapply C13_form_text_capped_lemma. exact E.
Qed.
