(* C05_scan.v — stream read lemmas and the size-line scanner of _iter_chunked:
   the scanner on a stream equals a pure scanner on the remaining bytes
   (whatever the read schedule: read(1) cannot be short), the pure scanner
   accepts every legal size line and returns exactly its digits, and it
   fails on every input without a CR LF pair.  Owned by cluster bodyA. *)
From Verif Require Import lib.Base lib.ListX lib.Str lib.PyIntHex model.Stream model.Body model.Chunked.
From Coq Require Import ZifyBool.

(* ---- reads ---- *)

(* what a read does, whatever the schedule: it delivers j bytes, 1 <= j <= n
   unless the stream is exhausted *)
Lemma read_spec s n :
  exists j,
    j <= n /\ j <= length (rest s) /\ (0 < n -> rest s <> [] -> 0 < j) /\
    fst (read s n) = firstn j (rest s) /\
    rest (snd (read s n)) = skipn j (rest s) /\
    pos (snd (read s n)) = pos s + j /\
    reqs (snd (read s n)) = (n, pos s) :: reqs s.
Proof.
  unfold read. set (k := read_len s n).
  assert (Hk : k <= n /\ (0 < n -> 0 < k)).
  { unfold k, read_len. destruct (sched s); lia. }
  exists (Nat.min k (length (rest s))). cbn [fst snd rest pos reqs].
  split; [lia|]. split; [lia|]. split.
  { intros Hn Hne. destruct (rest s); [congruence|]. simpl. lia. }
  destruct (Nat.le_gt_cases k (length (rest s))) as [Hle|Hgt].
  - rewrite Nat.min_l by lia. rewrite firstn_length, Nat.min_l by lia. auto.
  - rewrite Nat.min_r by lia.
    rewrite (firstn_all2 (n:=k)) by lia. rewrite firstn_all.
    rewrite (skipn_all2 (n:=k)) by lia. rewrite skipn_all. auto.
Qed.

Lemma read1_cons s b r :
  rest s = b :: r ->
  exists s', read s 1 = ([b], s') /\ rest s' = r /\ pos s' = S (pos s).
Proof.
  intros Hr. destruct (read_spec s 1) as (j & Hj1 & Hj2 & Hj3 & Hf & Hrest & Hpos & _).
  assert (j = 1) by (specialize (Hj3 ltac:(lia) ltac:(rewrite Hr; discriminate)); lia). subst j.
  destruct (read s 1) as [c s'] eqn:E. cbn [fst snd] in *.
  exists s'. rewrite Hf, Hrest, Hpos, Hr. simpl. repeat split; lia.
Qed.

Lemma read1_nil s :
  rest s = [] ->
  exists s', read s 1 = ([], s') /\ rest s' = [] /\ pos s' = pos s.
Proof.
  intros Hr. destruct (read_spec s 1) as (j & Hj1 & Hj2 & Hj3 & Hf & Hrest & Hpos & _).
  rewrite Hr in *. simpl in Hj2. assert (j = 0) by lia. subst j.
  destruct (read s 1) as [c s'] eqn:E. cbn [fst snd] in *.
  exists s'. rewrite Hf, Hrest, Hpos. simpl. repeat split; lia.
Qed.

(* ---- the scanner without the stream ---- *)

Fixpoint scan_pure (k : nat) (d : list N) (seen_r seen_sem : bool) (digits : list N)
  : option (list N * list N) :=
  match k with
  | O => None
  | S k' =>
    match d with
    | [] => None
    | b :: d' =>
      if seen_r && (b =? 10)%N then Some (digits, d')
      else
        let seen_r' := (b =? 13)%N in
        if seen_sem then scan_pure k' d' seen_r' true digits
        else
          let seen_sem' := (b =? 59)%N in
          if seen_r' || seen_sem' then scan_pure k' d' seen_r' seen_sem' digits
          else scan_pure k' d' seen_r' seen_sem' (digits ++ [b])
    end
  end.

Lemma scan_line_pure k : forall s sr ss dg,
  match scan_pure k (rest s) sr ss dg with
  | Some (dg', d') =>
    exists s', scan_line k s sr ss dg = (Some dg', s') /\ rest s' = d' /\
               pos s' = pos s + (length (rest s) - length d')
  | None => exists s', scan_line k s sr ss dg = (None, s')
  end.
Proof.
  induction k as [|k IH]; intros s sr ss dg.
  - cbn [scan_pure scan_line]. destruct (read s 1) as [c s']. now exists s'.
  - cbn [scan_pure scan_line].
    destruct (rest s) as [|b d'] eqn:Hr.
    + destruct (read1_nil s Hr) as (s' & -> & _). now exists s'.
    + destruct (read1_cons s b d' Hr) as (s' & -> & Hr' & Hp').
      destruct (sr && (b =? 10)%N).
      * exists s'. rewrite Hr', Hp'. cbn [length]. repeat split. lia.
      * assert (Hgen : forall sr2 ss2 dg2,
                 match scan_pure k d' sr2 ss2 dg2 with
                 | Some (dg', d'') =>
                   exists s'', scan_line k s' sr2 ss2 dg2 = (Some dg', s'') /\ rest s'' = d'' /\
                               pos s'' = pos s + (length (b :: d') - length d'')
                 | None => exists s'', scan_line k s' sr2 ss2 dg2 = (None, s'')
                 end).
        { intros sr2 ss2 dg2. specialize (IH s' sr2 ss2 dg2). rewrite Hr' in IH.
          destruct (scan_pure k d' sr2 ss2 dg2) as [[dg' d'']|] eqn:E; [|exact IH].
          destruct IH as (s'' & H1 & H2 & H3). exists s''. rewrite H1, H2, H3, Hp'.
          repeat split.
          assert (length d'' <= length d').
          { clear - E. revert d' sr2 ss2 dg2 E. induction k as [|k IHk]; intros d' sr2 ss2 dg2 E; [discriminate|].
            cbn [scan_pure] in E. destruct d' as [|x d1]; [discriminate|].
            destruct (sr2 && (x =? 10)%N); [injection E as _ <-; simpl; lia|].
            destruct ss2; [apply IHk in E; simpl; lia|].
            destruct ((x =? 13)%N || (x =? 59)%N); apply IHk in E; simpl; lia. }
          cbn [length]. lia. }
        destruct ss; [apply Hgen|].
        destruct ((b =? 13)%N || (b =? 59)%N); apply Hgen.
Qed.

(* a successful scan consumed a non-empty line of at most k bytes *)
Lemma scan_pure_some k : forall d sr ss dg dg' d',
  scan_pure k d sr ss dg = Some (dg', d') ->
  exists line, d = line ++ d' /\ 1 <= length line <= k.
Proof.
  induction k as [|k IH]; intros d sr ss dg dg' d' E; [discriminate|].
  cbn [scan_pure] in E. destruct d as [|b d1]; [discriminate|].
  assert (Hrec : forall sr2 ss2 dg2, scan_pure k d1 sr2 ss2 dg2 = Some (dg', d') ->
                 exists line, b :: d1 = line ++ d' /\ 1 <= length line <= S k).
  { intros sr2 ss2 dg2 E2. destruct (IH _ _ _ _ _ _ E2) as (line & -> & Hl).
    exists (b :: line). simpl. split; [reflexivity | lia]. }
  destruct (sr && (b =? 10)%N).
  - injection E as _ <-. exists [b]. simpl. split; [reflexivity | lia].
  - destruct ss; [eapply Hrec; exact E|].
    destruct ((b =? 13)%N || (b =? 59)%N); eapply Hrec; exact E.
Qed.

(* more room never changes a successful scan *)
Lemma scan_pure_mono k : forall j d sr ss dg x,
  scan_pure k d sr ss dg = Some x -> scan_pure (k + j) d sr ss dg = Some x.
Proof.
  induction k as [|k IH]; intros j d sr ss dg x E; [discriminate|].
  cbn [scan_pure plus] in *. destruct d as [|b d1]; [discriminate|].
  destruct (sr && (b =? 10)%N); [exact E|].
  destruct ss; [apply IH; exact E|].
  destruct ((b =? 13)%N || (b =? 59)%N); apply IH; exact E.
Qed.

(* ---- inputs on which the scanner cannot terminate ---- *)

(* [no_term sr d]: scanning d from the state seen_r = sr never meets LF right after CR *)
Fixpoint no_term (sr : bool) (d : list N) : bool :=
  match d with
  | [] => true
  | b :: d' => negb (sr && (b =? 10)%N) && no_term (b =? 13)%N d'
  end.

Lemma scan_pure_no_term : forall d k sr ss dg,
  no_term sr d = true -> scan_pure k d sr ss dg = None.
Proof.
  induction d as [|b d IH]; intros k sr ss dg H; destruct k; try reflexivity.
  cbn [scan_pure]. cbn [no_term] in H. apply andb_true_iff in H. destruct H as [H1 H2].
  apply negb_true_iff in H1. rewrite H1.
  destruct ss; [apply IH; exact H2|].
  destruct ((b =? 13)%N || (b =? 59)%N); apply IH; exact H2.
Qed.

Lemma no_term_app_cr sr d : no_term sr d = true -> no_term sr (d ++ [13%N]) = true.
Proof.
  revert sr; induction d as [|b d IH]; intros sr H.
  - simpl. now rewrite andb_false_r.
  - cbn [app no_term] in *. apply andb_true_iff in H. destruct H as [H1 H2].
    rewrite H1. simpl. apply IH; exact H2.
Qed.

Lemma no_term_prefix sr p q : no_term sr (p ++ q) = true -> no_term sr p = true.
Proof.
  revert sr; induction p as [|b p IH]; intros sr H; [reflexivity|].
  cbn [app no_term] in *. apply andb_true_iff in H. destruct H as [H1 H2].
  rewrite H1. simpl. eapply IH; exact H2.
Qed.

Definition head_is (b : N) (d : list N) : bool :=
  match d with x :: _ => (x =? b)%N | [] => false end.

Lemma no_term_no_crlf d : forall sr, no_term sr d = negb (sr && head_is 10 d) && no_crlf d.
Proof.
  induction d as [|b d IH]; intros sr.
  - simpl. now rewrite andb_false_r.
  - cbn [no_term no_crlf head_is]. rewrite IH.
    destruct d as [|c d']; cbn [head_is]; [|reflexivity].
    now rewrite !andb_false_r.
Qed.

Lemma no_term_hex sp d sr :
  forallb is_hex sp = true -> no_term false d = true -> no_term sr (sp ++ d) = true \/ sp = [].
Proof.
  intros Hh Hd. destruct sp as [|c sp]; [now right|]. left.
  revert c sr Hh. induction sp as [|c2 sp IH]; intros c sr Hh.
  - cbn [forallb] in Hh. apply andb_true_iff in Hh. destruct Hh as [Hc _].
    unfold is_hex in Hc. destruct (hex_digit c) as [x|] eqn:E; [|discriminate].
    destruct (hex_digit_some _ _ E) as (_ & _ & _ & _ & _ & _ & H13 & H10 & _).
    cbn [app no_term]. apply N.eqb_neq in H13, H10. rewrite H13, H10, andb_false_r. exact Hd.
  - cbn [forallb] in Hh. apply andb_true_iff in Hh. destruct Hh as [Hc Hr].
    unfold is_hex in Hc. destruct (hex_digit c) as [x|] eqn:E; [|discriminate].
    destruct (hex_digit_some _ _ E) as (_ & _ & _ & _ & _ & _ & H13 & H10 & _).
    change ((c :: c2 :: sp) ++ d) with (c :: (c2 :: sp) ++ d). cbn [no_term].
    apply N.eqb_neq in H13, H10. rewrite H13, H10, andb_false_r. simpl negb. cbn [andb].
    apply IH. exact Hr.
Qed.

(* the body of a legal size line (digits + extension) contains no terminating pair *)
Lemma line_body_no_term sp ext n :
  hex_val sp = Some n -> ext_ok ext = true -> no_term false (sp ++ ext) = true.
Proof.
  intros Hv He. destruct (hex_val_all_hex _ _ Hv) as [Hall Hne].
  assert (Hext : no_term false ext = true).
  { destruct ext as [|x e]; [reflexivity|]. cbn [ext_ok] in He.
    apply andb_true_iff in He. destruct He as [Hx He]. apply N.eqb_eq in Hx. subst x.
    cbn [no_term]. rewrite no_term_no_crlf. simpl. exact He. }
  destruct (no_term_hex sp ext false Hall Hext) as [H|H]; [exact H | congruence].
Qed.

(* every strict prefix of a legal size line makes the scanner fail *)
Lemma scan_pure_line_prefix sp ext n p q k :
  hex_val sp = Some n -> ext_ok ext = true ->
  sp ++ ext ++ CRLF = p ++ q -> q <> [] ->
  scan_pure k p false false [] = None.
Proof.
  intros Hv He Heq Hq. apply scan_pure_no_term.
  pose proof (line_body_no_term sp ext n Hv He) as Hb.
  apply no_term_app_cr in Hb.
  (* p is a prefix of sp ++ ext ++ [13] *)
  assert (Hp : exists q', (sp ++ ext) ++ [13%N] = p ++ q').
  { destruct (exists_last Hq) as (q0 & y & ->).
    exists q0. unfold CRLF in Heq.
    assert (E : ((sp ++ ext) ++ [13%N]) ++ [10%N] = (p ++ q0) ++ [y]).
    { rewrite <- !app_assoc. exact Heq. }
    apply app_inj_tail in E. tauto. }
  destruct Hp as (q' & Hp). rewrite Hp in Hb. eapply no_term_prefix; exact Hb.
Qed.

(* ---- the scanner on a legal size line ---- *)

Lemma scan_pure_digits sp : forall k d dg,
  forallb is_hex sp = true ->
  scan_pure (length sp + k) (sp ++ d) false false dg = scan_pure k d false false (dg ++ sp).
Proof.
  induction sp as [|c sp IH]; intros k d dg Hh.
  - simpl. now rewrite app_nil_r.
  - cbn [forallb] in Hh. apply andb_true_iff in Hh. destruct Hh as [Hc Hr].
    unfold is_hex in Hc. destruct (hex_digit c) as [x|] eqn:E; [|discriminate].
    destruct (hex_digit_some _ _ E) as (_ & _ & _ & _ & _ & _ & H13 & H10 & H59 & _).
    apply N.eqb_neq in H13, H59.
    cbn [length plus app scan_pure andb]. rewrite H13, H59. cbn [orb].
    rewrite IH by exact Hr. now rewrite <- app_assoc.
Qed.

Lemma scan_pure_ext e : forall k sr dg r,
  no_term sr e = true ->
  scan_pure (length e + 2 + k) (e ++ CRLF ++ r) sr true dg = Some (dg, r).
Proof.
  induction e as [|b e IH]; intros k sr dg r H.
  - cbn [length plus app CRLF scan_pure]. change (13 =? 10)%N with false.
    rewrite andb_false_r. change (13 =? 13)%N with true. reflexivity.
  - cbn [no_term] in H. apply andb_true_iff in H. destruct H as [H1 H2].
    apply negb_true_iff in H1.
    cbn [length plus app scan_pure]. rewrite H1. apply IH; exact H2.
Qed.

Lemma scan_pure_line sp ext n k r :
  hex_val sp = Some n -> ext_ok ext = true ->
  length sp + length ext + 2 <= k ->
  scan_pure k (sp ++ ext ++ CRLF ++ r) false false [] = Some (sp, r).
Proof.
  intros Hv He Hk. destruct (hex_val_all_hex _ _ Hv) as [Hall _].
  replace k with (length sp + (length ext + 2 + (k - (length sp + length ext + 2)))) by lia.
  rewrite scan_pure_digits by exact Hall. cbn [app].
  destruct ext as [|x e].
  - cbn [length plus app CRLF scan_pure andb]. change (13 =? 13)%N with true. cbn [orb].
    change (10 =? 10)%N with true. reflexivity.
  - cbn [ext_ok] in He. apply andb_true_iff in He. destruct He as [Hx He]. apply N.eqb_eq in Hx. subst x.
    cbn [length plus app scan_pure andb]. change (59 =? 13)%N with false. change (59 =? 59)%N with true.
    cbn [orb]. apply scan_pure_ext. rewrite no_term_no_crlf. simpl. exact He.
Qed.
