(* C06_dres.v — the result of a block/regex search and the carried remainder as
   functions of [fcp]; how a search resumes after a stretch of input that is
   summarised by its carry.  Generic in the pattern t (used for CRLF--B and
   for CRLFCRLF). *)
From Verif Require Import lib.Base lib.ListX lib.Str model.MultipartRef model.Multipart proofs.C06_pattern.
Require Import Lia.

(* ---- the result of a search as a function of fcp (generic in the pattern) ---- *)
Section Dres.
Variable t : list N.
Hypothesis Hres : forall d k c, 0 < d -> d < k -> k < length t ->
  compat t (skipn d (firstn k t) ++ c) = true -> compat (skipn k t) c = true.
Hypothesis n_pos : 0 < length t.
Let n := length t.
Let fcp_app_t := fcp_app t Hres.

(* ---------------------------------------------------------------- the search result as a function of fcp *)

(* off = absolute position (in chunk coordinates, possibly negative) of D[0] *)
Definition dres (off : Z) (D : bytes) : eres * option bytes :=
  match fcp t D with
  | Some p => if p + n <=? length D then (EFound (off + Z.of_nat p)%Z, None)
              else (ENone, Some (skipn (length D - p) t))
  | None => (ENone, None)
  end.

Definition tr_of (m : nat) : option bytes := if m =? 0 then None else Some (skipn m t).

Lemma fcp_firstn_t m : 0 < m -> fcp t (firstn m t) = Some 0.
Proof.
  intros Hm. apply fcp_intro.
  - rewrite firstn_length. fold n. lia.
  - simpl. apply compat_firstn.
  - intros j Hj; lia.
Qed.

(* K3: the carried prefix is continued by c *)
Lemma dres_hit off m c :
  0 < m -> m < n -> compat (skipn m t) c = true ->
  dres off (firstn m t ++ c) =
  if n <=? m + length c then (EFound off, None) else (ENone, Some (skipn (m + length c) t)).
Proof.
  intros Hm Hn Hc. unfold dres. rewrite fcp_app_t. unfold resume.
  rewrite fcp_firstn_t by exact Hm. rewrite firstn_length. fold n.
  rewrite Nat.min_l by lia.
  destruct (Nat.leb_spec (0 + n) m); [lia|].
  rewrite Nat.sub_0_r, Hc. rewrite app_length, firstn_length. fold n. rewrite Nat.min_l by lia.
  simpl (0 + n). destruct (n <=? m + length c); [|now rewrite Nat.sub_0_r].
  f_equal. f_equal. lia.
Qed.

(* K2: the carried prefix is broken by c *)
Lemma dres_broken off m c :
  0 < m -> m < n -> compat (skipn m t) c = false ->
  dres off (firstn m t ++ c) = dres (off + Z.of_nat m) c.
Proof.
  intros Hm Hn Hc. unfold dres. rewrite fcp_app_t. unfold resume.
  rewrite fcp_firstn_t by exact Hm. rewrite firstn_length. fold n.
  rewrite Nat.min_l by lia.
  destruct (Nat.leb_spec (0 + n) m); [lia|].
  rewrite Nat.sub_0_r, Hc. rewrite app_length, firstn_length. fold n. rewrite Nat.min_l by lia.
  destruct (fcp t c) as [q|]; simpl; [|reflexivity].
  destruct (Nat.leb_spec (m + q + n) (m + length c)), (Nat.leb_spec (q + n) (length c)); try lia.
  - f_equal. f_equal. lia.
  - do 3 f_equal. lia.
Qed.

(* K: a stretch X without a complete occurrence is summarised by its carry *)
Lemma dres_carry off X c p :
  fcp t X = Some p -> length X < p + n ->
  dres off (X ++ c) = dres (off + Z.of_nat p) (firstn (length X - p) t ++ c).
Proof.
  intros Ep Hp. destruct (fcp_some _ _ _ Ep) as (P1 & _ & _).
  set (k := length X - p).
  assert (Hk : 0 < k /\ k < n) by (unfold k; lia).
  destruct (compat (skipn k t) c) eqn:Ec.
  - rewrite dres_hit by (try exact Ec; lia).
    unfold dres. rewrite fcp_app_t. unfold resume. rewrite Ep. fold n.
    destruct (Nat.leb_spec (p + n) (length X)); [lia|]. fold k. rewrite Ec.
    rewrite app_length.
    destruct (Nat.leb_spec (p + n) (length X + length c)), (Nat.leb_spec n (k + length c)); try (unfold k in *; lia).
    + reflexivity.
    + do 3 f_equal. unfold k. lia.
  - rewrite dres_broken by (try exact Ec; lia).
    unfold dres at 1. rewrite fcp_app_t. unfold resume. rewrite Ep. fold n.
    destruct (Nat.leb_spec (p + n) (length X)); [lia|]. fold k. rewrite Ec.
    unfold dres. rewrite app_length.
    destruct (fcp t c) as [q|]; simpl; [|reflexivity].
    destruct (Nat.leb_spec (length X + q + n) (length X + length c)), (Nat.leb_spec (q + n) (length c)); try lia.
    + f_equal. f_equal. unfold k. lia.
    + do 3 f_equal. lia.
Qed.

Lemma dres_nocarry off X c :
  fcp t X = None -> dres off (X ++ c) = dres (off + Z.of_nat (length X)) c.
Proof.
  intros Ep. unfold dres. rewrite fcp_app_t. unfold resume. rewrite Ep. rewrite app_length.
  destruct (fcp t c) as [q|]; simpl; [|reflexivity].
  destruct (Nat.leb_spec (length X + q + n) (length X + length c)), (Nat.leb_spec (q + n) (length c)); try lia.
  - f_equal. f_equal. lia.
  - do 3 f_equal. lia.
Qed.

Lemma dres_found off X c :
  fcp t X = Some 0 -> n <= length X -> dres off (X ++ c) = (EFound off, None).
Proof.
  intros Ep Hn. unfold dres. rewrite fcp_app_t. unfold resume. rewrite Ep. fold n.
  destruct (Nat.leb_spec (0 + n) (length X)); [|lia]. rewrite app_length.
  destruct (Nat.leb_spec (0 + n) (length X + length c)); [|lia].
  f_equal. f_equal. lia.
Qed.

(* the spec of one call: carried prefix of length m (0 = none), remaining bytes rest *)
Definition dspec (base m : nat) (rest : bytes) : eres * option bytes :=
  dres (Z.of_nat base - Z.of_nat m) (firstn m t ++ rest).


End Dres.
