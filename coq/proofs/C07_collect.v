(* C07_collect.v — BodyMixin.POST's collection with list promotion equals the
   grouping of the submitted fields: distinct names in order of first
   appearance, values of a name in submission order. *)
From Verif Require Import lib.Base lib.Str lib.Utf8 model.MultipartRef model.Fields.
From Verif Require Import proofs.C07_fields proofs.C07_spec.

(* ---- the same insertion on the specification side ---- *)
Definition extend (v : vval) (ys : list vitem) : vval :=
  match ys with
  | [] => v
  | _ => match v with VSingle x => VMulti (x :: ys) | VMulti xs => VMulti (xs ++ ys) end
  end.

Fixpoint vadd (d : list (str * vval)) (key : str) (it : vitem) : list (str * vval) :=
  match d with
  | [] => [(key, VSingle it)]
  | (k, v) :: r =>
    if str_eqb k key then (k, extend v [it]) :: r else (k, v) :: vadd r key it
  end.

Definition vadd1 (d : list (str * vval)) (kv : str * vitem) := vadd d (fst kv) (snd kv).
Definition add1 (d : fdict) (kv : str * item) := dict_add d (fst kv) (snd kv).

Definition has_key (k : str) (d : list (str * vval)) : bool := existsb (fun e => str_eqb (fst e) k) d.

Lemma str_eqb_sym a b : str_eqb a b = str_eqb b a.
Proof. destruct (str_eqb_spec a b), (str_eqb_spec b a); congruence. Qed.

(* ---- vadd: the two cases ---- *)
Lemma vadd_absent d k v : has_key k d = false -> vadd d k v = d ++ [(k, VSingle v)].
Proof.
  induction d as [|[k' x] d IH]; intros H; [reflexivity|].
  simpl in H. apply orb_false_iff in H. destruct H as [H1 H2].
  cbn [vadd]. rewrite H1. now rewrite (IH H2).
Qed.

Lemma extend_extend v a ys : extend (extend v [a]) ys = extend v (a :: ys).
Proof. destruct v, ys; simpl; try reflexivity; now rewrite <- app_assoc. Qed.

Lemma extend_single v ys : extend (VSingle v) ys = mkv (v :: ys).
Proof. destruct ys; reflexivity. Qed.

Lemma values_of_other k k' v r : str_eqb k k' = false -> values_of k' ((k, v) :: r) = values_of k' r.
Proof. intros H. cbn [values_of]. now rewrite H. Qed.

Lemma values_of_same k v r : values_of k ((k, v) :: r) = v :: values_of k r.
Proof. cbn [values_of]. now rewrite str_eqb_refl. Qed.

(* after inserting k (already present), entry k is extended by [v], the others stay *)
Lemma map_vadd_present d k v r :
  has_key k d = true ->
  NoDup (map fst d) ->
  map (fun e => (fst e, extend (snd e) (values_of (fst e) r))) (vadd d k v)
  = map (fun e => (fst e, extend (snd e) (values_of (fst e) ((k, v) :: r)))) d.
Proof.
  intros H Hnd. induction d as [|[k' x] d IH]; [discriminate|].
  cbn [vadd]. inversion Hnd as [|a l Hni Hnd']; subst.
  destruct (str_eqb_spec k' k) as [->|Hne].
  - cbn [map fst snd]. rewrite values_of_same, extend_extend. f_equal.
    apply map_ext_in. intros [k2 x2] Hin. cbn [fst snd].
    destruct (str_eqb_spec k k2) as [->|Hne2].
    + exfalso. apply Hni. apply in_map_iff. now exists (k2, x2).
    + rewrite values_of_other; [reflexivity|]. now apply Bool.not_true_is_false; intro E; apply str_eqb_eq in E.
  - cbn [map fst snd]. f_equal.
    + rewrite values_of_other; [reflexivity|].
      apply Bool.not_true_is_false. intro E. apply str_eqb_eq in E. congruence.
    + apply IH; [|exact Hnd']. simpl in H.
      destruct (str_eqb_spec k' k); [congruence | exact H].
Qed.

Lemma keys_vadd_present d k v : has_key k d = true -> map fst (vadd d k v) = map fst d.
Proof.
  induction d as [|[k' x] d IH]; intros H; [discriminate|].
  cbn [vadd]. destruct (str_eqb k' k) eqn:E; [reflexivity|].
  simpl in H. rewrite E in H. cbn [map fst]. now rewrite (IH H).
Qed.

Lemma has_key_keys k d : has_key k d = existsb (fun x => str_eqb x k) (map fst d).
Proof. unfold has_key. induction d as [|[k' x] d IH]; [reflexivity|]. simpl. now rewrite IH. Qed.

Definition absent (d : list (str * vval)) (k : str) : bool := negb (has_key k d).

Lemma filter_remove_present d k ks :
  has_key k d = true -> filter (absent d) (remove_key k ks) = filter (absent d) ks.
Proof.
  intros H. unfold remove_key. induction ks as [|x ks IH]; [reflexivity|].
  cbn [filter]. destruct (str_eqb_spec x k) as [->|Hne]; cbn [negb].
  - unfold absent at 2. rewrite H. cbn [negb]. exact IH.
  - cbn [filter]. now rewrite IH.
Qed.

Lemma absent_snoc d k v x : absent (d ++ [(k, VSingle v)]) x = absent d x && negb (str_eqb x k).
Proof.
  unfold absent, has_key. rewrite existsb_app. cbn [existsb fst]. rewrite orb_false_r, negb_orb.
  now rewrite (str_eqb_sym k x).
Qed.

Lemma filter_absent_snoc d k v ks :
  filter (absent (d ++ [(k, VSingle v)])) ks = filter (absent d) (remove_key k ks).
Proof.
  unfold remove_key. induction ks as [|x ks IH]; [reflexivity|].
  cbn [filter]. rewrite absent_snoc.
  destruct (str_eqb x k); cbn [negb]; rewrite ?andb_false_r, ?andb_true_r.
  - exact IH.
  - cbn [filter]. destruct (absent d x); [now rewrite IH | exact IH].
Qed.

Lemma NoDup_app_snoc {A} (l : list A) x : NoDup l -> ~ In x l -> NoDup (l ++ [x]).
Proof.
  induction l as [|a l IH]; intros Hnd Hni; simpl.
  - constructor; [intros [] | constructor].
  - inversion Hnd; subst. constructor.
    + rewrite in_app_iff. intros [H|[H|[]]]; [contradiction | subst; apply Hni; now left].
    + apply IH; [assumption | intro H; apply Hni; now right].
Qed.

(* the fold, from any dictionary with distinct keys *)
Lemma fold_vadd_spec r :
  forall d, NoDup (map fst d) ->
    fold_left vadd1 r d
    = map (fun e => (fst e, extend (snd e) (values_of (fst e) r))) d
      ++ map (fun k => (k, mkv (values_of k r))) (filter (absent d) (first_keys r)).
Proof.
  induction r as [|[k v] r IH]; intros d Hnd.
  - cbn [fold_left values_of first_keys filter map]. rewrite app_nil_r.
    rewrite <- (map_id d) at 1. apply map_ext. now intros [k x].
  - cbn [fold_left]. unfold vadd1 at 2. cbn [fst snd].
    destruct (has_key k d) eqn:Hk.
    + rewrite IH by (rewrite keys_vadd_present by exact Hk; exact Hnd).
      rewrite (map_vadd_present d k v r Hk Hnd).
      f_equal. cbn [first_keys filter]. unfold absent at 2. rewrite Hk. cbn [negb].
      rewrite (filter_remove_present d k _ Hk).
      assert (Ef : forall x, absent (vadd d k v) x = absent d x).
      { intros x. unfold absent. rewrite !has_key_keys, keys_vadd_present by exact Hk. reflexivity. }
      rewrite (filter_ext _ _ Ef).
      apply map_ext_in. intros x Hx. apply filter_In in Hx. destruct Hx as [_ Hx].
      f_equal. f_equal. symmetry. apply values_of_other.
      destruct (str_eqb_spec k x) as [->|]; [|reflexivity].
      unfold absent in Hx. rewrite Hk in Hx. discriminate.
    + rewrite (vadd_absent d k v Hk).
      rewrite IH.
      2:{ rewrite map_app. cbn [map fst]. apply NoDup_app_snoc; [exact Hnd|].
          intro Hin. rewrite has_key_keys in Hk.
          assert (existsb (fun x => str_eqb x k) (map fst d) = true)
            by (apply existsb_exists; exists k; split; [exact Hin | apply str_eqb_refl]).
          congruence. }
      rewrite map_app. cbn [map fst snd]. rewrite <- app_assoc. cbn [app].
      f_equal.
      * apply map_ext_in. intros [k2 x2] Hin. cbn [fst snd]. f_equal. f_equal. symmetry.
        apply values_of_other. destruct (str_eqb_spec k k2) as [->|]; [|reflexivity].
        rewrite has_key_keys in Hk.
        assert (existsb (fun x => str_eqb x k2) (map fst d) = true)
          by (apply existsb_exists; exists k2; split; [apply in_map_iff; now exists (k2, x2) | apply str_eqb_refl]).
        congruence.
      * cbn [first_keys filter]. unfold absent at 2. rewrite Hk. cbn [negb map].
        rewrite values_of_same, extend_single. f_equal.
        rewrite filter_absent_snoc.
        apply map_ext_in. intros x Hx. apply filter_In in Hx. destruct Hx as [Hx _].
        unfold remove_key in Hx. apply filter_In in Hx. destruct Hx as [_ Hx].
        f_equal. f_equal. symmetry. apply values_of_other.
        rewrite str_eqb_sym. now apply negb_true_iff.
Qed.

Theorem fold_vadd_grouped l : fold_left vadd1 l [] = grouped l.
Proof.
  rewrite (fold_vadd_spec l [] (NoDup_nil _)). cbn [map app]. unfold grouped.
  f_equal. clear. induction (first_keys l) as [|x ks IH]; [reflexivity|].
  cbn [filter]. unfold absent at 1. cbn [has_key existsb negb]. now rewrite IH.
Qed.
