(* C19_calls.v — a sequence of Route.url calls (several Route objects in one
   process, repeated calls on one Route) is observed call by call: the i-th
   observation is a function of the i-th call alone. *)
From Verif Require Import lib.Base lib.Str lib.PyIntDec model.RouteSpec model.RouteUrl.

Lemma calls_independent_lemma calls i :
  nth_error (url_calls calls) i = option_map corr_C19_one (nth_error calls i).
Proof.
  unfold url_calls. revert i; induction calls as [|c calls IH]; intros [|i]; simpl; auto.
Qed.

Lemma calls_app_lemma a b : url_calls (a ++ b) = url_calls a ++ url_calls b.
Proof. apply map_app. Qed.

Lemma dec_enc_zlist l r : dec_zlist (enc_zlist l ++ r) = Some (l, r).
Proof.
  unfold dec_zlist, enc_zlist. cbn [app]. rewrite Nat2Z.id.
  assert (H : Nat.leb (length l) (length (l ++ r)) = true)
    by (apply Nat.leb_le; rewrite app_length; lia).
  rewrite H. f_equal. f_equal.
  - rewrite firstn_app, firstn_all, Nat.sub_diag. simpl. apply app_nil_r.
  - rewrite skipn_app, skipn_all, Nat.sub_diag. reflexivity.
Qed.

Lemma dec_many_enc calls r :
  dec_many dec_zlist (length calls) (flat_map enc_zlist calls ++ r) = Some (calls, r).
Proof.
  induction calls as [|c calls IH]; [reflexivity|].
  cbn [dec_many flat_map length]. rewrite <- app_assoc, dec_enc_zlist, IH. reflexivity.
Qed.

(* the correspondence entry point in its several-calls mode is exactly url_calls *)
Lemma corr_multi_lemma calls :
  corr_C19 ((-2)%Z :: enc_list enc_zlist calls) = enc_list enc_zlist (url_calls calls).
Proof.
  unfold corr_C19, dec_list, enc_list at 1. rewrite Nat2Z.id.
  rewrite <- (app_nil_r (flat_map enc_zlist calls)), dec_many_enc. reflexivity.
Qed.
