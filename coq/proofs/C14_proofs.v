(* C14_proofs.v — lemmas for props/C14.v (guard, store invariant, blacklist, order).
   The UTF-8 / emission part is in C14_emit.v. *)
From Coq Require Import String Ascii.
From Verif Require Import lib.Base lib.Str lib.Utf8 gen.Gen model.Cookie model.Headers.
Local Open Scope N_scope.

(* ------------------------------------------------------------------ *)
(* vocabulary of the statements                                        *)
(* ------------------------------------------------------------------ *)
Definition has_ctl (s : str) : Prop := In 10 s \/ In 13 s \/ In 0 s.        (* LF, CR, NUL *)
Definition clean (s : str) : Prop := ~ In 10 s /\ ~ In 13 s /\ ~ In 0 s.

(* the types _hval accepts *)
Definition accepted (a : atom) : bool :=
  match a with ANone | AStr _ | AInt _ | AFloat _ | ABool _ => true | _ => false end.

(* str(value) when the type is accepted *)
Definition text_of (v : value) : option str :=
  match v with
  | VAtom a => if accepted a then Some (py_str a) else None
  | VList _ => None
  end.

(* a value the guard must refuse: wrong type, or CR/LF/NUL in its text *)
Definition refused (v : value) : Prop :=
  match text_of v with None => True | Some t => has_ctl t end.

(* values offered through a guarded single-value entry point *)
Definition offered (o : op) : list value :=
  match o with
  | OSet _ v | OAppend _ v | OProp _ v => [v]
  | OSetDefault _ (VAtom a) => [VAtom a]
  | OExpires (Some w) => [w]
  | OInit _ h m | OApply _ h m _ => List.map snd h ++ List.map snd m
  | OSetCookie _ _ true opts =>                                  (* cookie options, once set_cookie checks them (F35) *)
    flat_map (fun o => match o_val o with Some v => [v] | None => [] end) opts
  | _ => []
  end.

(* the operations of the statement: everything except the two unchecked paths *)
Definition guarded_op (o : op) : Prop :=
  match o with
  | OUpdate _ => False
  | OSetDefault _ (VList _) => False
  | OSetCookie _ _ checked opts =>
    (* set_cookie passes option values through _hval (fix F35), and http.cookies renders a value
       that passed it without CR/LF/NUL (the rendering is external: the operation carries it) *)
    checked = true
    /\ Forall (fun o => forall v t, o_val o = Some v -> hval v = HOk t -> clean (o_frag o)) opts
  | _ => True
  end.

Definition cell_ok (v : value) : Prop :=
  match v with
  | VAtom (AStr s) => clean s
  | VList l => Forall (fun a => exists s, a = AStr s /\ clean s) l
  | _ => False
  end.
Definition store_ok (d : store) : Prop := Forall (fun kv => cell_ok (snd kv)) d.

(* ------------------------------------------------------------------ *)
(* _hval                                                               *)
(* ------------------------------------------------------------------ *)
Lemma gen_forbidden : Gen.hval_forbidden = [10; 13; 0].
Proof. reflexivity. Qed.

Lemma memN_In c s : memN c s = true <-> In c s.
Proof.
  unfold memN. rewrite existsb_exists. split.
  - intros [x [Hx E]]. apply N.eqb_eq in E. now subst.
  - intros H. exists c. split; [assumption | apply N.eqb_refl].
Qed.

Lemma has_forbidden_true s : has_forbidden s = true <-> has_ctl s.
Proof.
  unfold has_forbidden, has_ctl. rewrite gen_forbidden. simpl.
  rewrite orb_false_r, !orb_true_iff, !memN_In. tauto.
Qed.

Lemma has_forbidden_false s : has_forbidden s = false <-> clean s.
Proof.
  unfold clean. rewrite <- not_true_iff_false, has_forbidden_true. unfold has_ctl. tauto.
Qed.

Lemma accepted_gen a :
  (match a with ANone => true | _ => existsb (isinstance_b a) Gen.hval_types end) = accepted a.
Proof. destruct a; reflexivity. Qed.

Lemma hval_spec v :
  match text_of v with
  | None => hval v = HTypeError
  | Some t => if has_forbidden t then hval v = HValueError else hval v = HOk t
  end.
Proof.
  destruct v as [a|l]; simpl; [|reflexivity].
  rewrite accepted_gen. destruct (accepted a); [|reflexivity].
  destruct (has_forbidden (py_str a)); reflexivity.
Qed.

Lemma hval_ok v t : hval v = HOk t -> text_of v = Some t /\ clean t.
Proof.
  pose proof (hval_spec v) as H. destruct (text_of v) as [t'|]; [|congruence].
  destruct (has_forbidden t') eqn:E; [congruence|].
  intros Ht. rewrite H in Ht. injection Ht as <-. split; [reflexivity | now apply has_forbidden_false].
Qed.

Lemma hval_refused v : refused v -> hval v = HTypeError \/ hval v = HValueError.
Proof.
  unfold refused. pose proof (hval_spec v) as H. destruct (text_of v) as [t|]; [|auto].
  intros Hc. apply has_forbidden_true in Hc. rewrite Hc in H. auto.
Qed.

Lemma hval_not_ok v t : refused v -> hval v <> HOk t.
Proof. intros H. destruct (hval_refused v H) as [E|E]; rewrite E; discriminate. Qed.

(* ------------------------------------------------------------------ *)
(* the guarded setters reject                                          *)
(* ------------------------------------------------------------------ *)
Lemma setitem_refused d k v : refused v -> exists e, h_setitem d k v = inr e.
Proof.
  intros H. unfold h_setitem. destruct (hval_refused v H) as [E|E]; rewrite E; eauto.
Qed.

Lemma append_refused d k v : refused v -> exists e, h_append d k v = inr e.
Proof.
  intros H. unfold h_append. destruct (hval_refused v H) as [E|E]; rewrite E; eauto.
Qed.

Lemma setdefault_refused d k a : refused (VAtom a) -> exists e, h_setdefault d k (VAtom a) = inr e.
Proof.
  intros H. unfold h_setdefault. destruct (hval_refused _ H) as [E|E]; rewrite E; eauto.
Qed.

Lemma append_all_refused items : forall d,
  Exists refused (List.map snd items) -> exists d' e, append_all d items = (d', Some e).
Proof.
  induction items as [|[k v] r IH]; intros d H; simpl in *.
  - inversion H.
  - destruct (h_append d k v) as [d1|e] eqn:E.
    + apply IH. inversion H as [? ? Hv|? ? Hr]; subst; [|assumption].
      destruct (append_refused d k v Hv) as [e He]. congruence.
    + eauto.
Qed.

Lemma append_all_none_app d a b d1 :
  append_all d a = (d1, None) -> append_all d (a ++ b) = append_all d1 b.
Proof.
  revert d; induction a as [|[k v] r IH]; intros d; simpl.
  - intros [= ->]. reflexivity.
  - destruct (h_append d k v); [apply IH | discriminate].
Qed.

Lemma init_run_refused status h m :
  Exists refused (List.map snd h ++ List.map snd m) -> exists e, snd (init_run status h m) = Some e.
Proof.
  intros H. unfold init_run.
  destruct (negb (status_ok _)); [simpl; eauto|].
  destruct (append_all [] h) as [d [e|]] eqn:E1; [simpl; eauto|].
  apply Exists_app in H. destruct H as [H|H].
  - destruct (append_all_refused h [] H) as [d' [e He]]. congruence.
  - destruct (append_all_refused m d H) as [d' [e He]]. rewrite He. simpl. eauto.
Qed.

Lemma apply_opts_refused name opts : forall j,
  Exists refused (flat_map (fun o => match o_val o with Some v => [v] | None => [] end) opts) ->
  exists j' e, apply_opts true name j opts = (j', Some e).
Proof.
  induction opts as [|o r IH]; intros j H; simpl in *; [inversion H|].
  destruct (o_val o) as [v|] eqn:Ev; [|eauto].
  simpl in H. inversion H as [? ? Hv|? ? Hr]; subst.
  - destruct (hval_refused v Hv) as [E|E]; rewrite E; eauto.
  - destruct (hval v); eauto. destruct (is_reserved (o_key o)); eauto.
Qed.

Lemma step_rejects s o :
  Exists refused (offered o) ->
  match o with
  | OInit _ _ _ | OSetCookie _ _ _ _ => exists e, snd (step s o) = Some e
  | _ => exists e, step s o = (s, Some e)
  end.
Proof.
  intros H. destruct o as [k v|k v|k v|items|k| |p v|w|st h m|st h m cs|n v chk opts|c|k d| |ns|p|]; simpl in H;
    try (now inversion H).
  - inversion H as [? ? Hv|? ? Hr]; [|inversion Hr]. subst.
    destruct (setitem_refused (st_store s) k v Hv) as [e He]. simpl. rewrite He. simpl. eauto.
  - inversion H as [? ? Hv|? ? Hr]; [|inversion Hr]. subst.
    destruct (append_refused (st_store s) k v Hv) as [e He]. simpl. rewrite He. simpl. eauto.
  - destruct v as [a|l]; [|inversion H].
    inversion H as [? ? Hv|? ? Hr]; [|inversion Hr]. subst.
    destruct (setdefault_refused (st_store s) k a Hv) as [e He]. unfold step. rewrite He. simpl. eauto.
  - inversion H as [? ? Hv|? ? Hr]; [|inversion Hr]. subst.
    destruct (setitem_refused (st_store s) (if p then L "Content-Length" else L "Content-Type") v Hv) as [e He].
    simpl. rewrite He. simpl. eauto.
  - destruct w as [w|]; [|inversion H].
    inversion H as [? ? Hv|? ? Hr]; [|inversion Hr]. subst.
    destruct (setitem_refused (st_store s) (L "Expires") w Hv) as [e He]. simpl. rewrite He. simpl. eauto.
  - apply init_run_refused. exact H.
  - destruct (init_run_refused st h m H) as [e He]. simpl.
    destruct (init_run st h m) as [src oe]. simpl in He. subst oe. eauto.
  - destruct chk; [|inversion H]. simpl. unfold set_cookie_opts.
    destruct (cookie_value_set (st_jar s) n v) as [j1|e]; [|simpl; eauto].
    destruct (apply_opts_refused n opts j1 H) as [j' [e He]]. rewrite He. simpl. eauto.
Qed.

(* ------------------------------------------------------------------ *)
(* store invariant                                                     *)
(* ------------------------------------------------------------------ *)
Lemma sset_ok k v d : store_ok d -> cell_ok v -> store_ok (sset k v d).
Proof.
  intros Hd Hv. induction d as [|[k' v'] r IH]; simpl.
  - constructor; [exact Hv | constructor].
  - inversion Hd as [|? ? H1 H2]; subst. destruct (str_eqb k k').
    + constructor; [exact Hv | exact H2].
    + constructor; [exact H1 | apply IH; exact H2].
Qed.

Lemma sget_ok k d v : store_ok d -> sget k d = Some v -> cell_ok v.
Proof.
  intros Hd. induction d as [|[k' v'] r IH]; simpl; [discriminate|].
  inversion Hd; subst. destruct (str_eqb k k'); [intros [= <-]; assumption | auto].
Qed.

Lemma sdel_ok k d : store_ok d -> store_ok (sdel k d).
Proof.
  intros Hd. induction d as [|[k' v'] r IH]; simpl; [constructor|].
  inversion Hd as [|? ? H1 H2]; subst. destruct (str_eqb k k'); [exact H2|].
  constructor; [exact H1 | apply IH; exact H2].
Qed.

Lemma setitem_ok d k v d' : store_ok d -> h_setitem d k v = inl d' -> store_ok d'.
Proof.
  intros Hd. unfold h_setitem. destruct (hval v) as [| |t] eqn:E; try discriminate.
  intros [= <-]. apply sset_ok; [assumption|]. simpl. now apply (hval_ok v t).
Qed.

Lemma append_ok d k v d' : store_ok d -> h_append d k v = inl d' -> store_ok d'.
Proof.
  intros Hd. unfold h_append. destruct (hval v) as [| |t] eqn:E; try discriminate.
  assert (Ht : clean t) by now apply (hval_ok v t).
  destruct (sget k d) as [[a|l]|] eqn:G.
  - pose proof (sget_ok _ _ _ Hd G) as Hc. destruct a; simpl in Hc; try contradiction.
    intros [= <-]. apply sset_ok; [assumption|]. simpl.
    repeat constructor; eauto.
  - pose proof (sget_ok _ _ _ Hd G) as Hc. intros [= <-]. apply sset_ok; [assumption|]. simpl in *.
    apply Forall_app. split; [assumption|]. repeat constructor; eauto.
  - intros [= <-]. apply sset_ok; [assumption | exact Ht].
Qed.

Lemma setdefault_ok d k a d' : store_ok d -> h_setdefault d k (VAtom a) = inl d' -> store_ok d'.
Proof.
  intros Hd. unfold h_setdefault. destruct (hval (VAtom a)) as [| |t] eqn:E; try discriminate.
  intros [= <-]. destruct (sget k d); [assumption|].
  apply sset_ok; [assumption|]. simpl. exact (proj2 (hval_ok (VAtom a) t E)).
Qed.

Lemma append_all_ok items : forall d, store_ok d -> store_ok (fst (append_all d items)).
Proof.
  induction items as [|[k v] r IH]; intros d Hd; simpl; [assumption|].
  destruct (h_append d k v) as [d1|e] eqn:E; [|assumption].
  apply IH. eapply append_ok; eassumption.
Qed.

Lemma init_run_ok st h m : store_ok (st_store (fst (init_run st h m))).
Proof.
  unfold init_run. destruct (negb (status_ok _)); [constructor|].
  pose proof (append_all_ok h [] (Forall_nil _)) as H1.
  destruct (append_all [] h) as [d [e|]]; simpl in *; [assumption|].
  pose proof (append_all_ok m d H1) as H2.
  destruct (append_all d m) as [d' oe]. exact H2.
Qed.

Lemma clear_names_ok names : forall d, store_ok d -> store_ok (clear_names d names).
Proof.
  induction names as [|n r IH]; intros d Hd; simpl; [assumption|]. apply IH. now apply sdel_ok.
Qed.

Lemma step_ok s o : guarded_op o -> store_ok (st_store s) -> store_ok (st_store (fst (step s o))).
Proof.
  intros G Hs.
  destruct o as [k v|k v|k v|items|k| |p v|w|st h m|st h m cs|n v chk opts|c|k d| |ns|p|]; simpl in *.
  - destruct (h_setitem (st_store s) k v) eqn:E; simpl; [eapply setitem_ok; eassumption | assumption].
  - destruct (h_append (st_store s) k v) eqn:E; simpl; [eapply append_ok; eassumption | assumption].
  - destruct v as [a|l]; [|contradiction].
    destruct (h_setdefault (st_store s) k (VAtom a)) eqn:E; simpl; [eapply setdefault_ok; eassumption | assumption].
  - contradiction.
  - unfold del_key. destruct (sget k (st_store s)); simpl; [now apply sdel_ok | assumption].
  - constructor.
  - destruct (h_setitem (st_store s) _ v) eqn:E; simpl; [eapply setitem_ok; eassumption | assumption].
  - destruct w as [w|]; [|assumption].
    destruct (h_setitem (st_store s) _ w) eqn:E; simpl; [eapply setitem_ok; eassumption | assumption].
  - apply init_run_ok.
  - pose proof (init_run_ok st h m) as Hi. destruct (init_run st h m) as [src [e|]]; [assumption|].
    destruct (set_cookies [] cs) as [j [e|]]; simpl; assumption.
  - destruct (set_cookie_opts chk (st_jar s) n v opts); simpl; assumption.
  - destruct (status_ok c); simpl; assumption.
  - destruct d; [simpl; now apply sdel_ok|].
    unfold del_key. destruct (sget k (st_store s)); simpl; [now apply sdel_ok | assumption].
  - destruct (rev (st_store s)) as [|x r] eqn:E; simpl; [assumption|].
    unfold store_ok in *. apply Forall_rev. apply Forall_rev in Hs. rewrite E in Hs. now inversion Hs.
  - destruct ns as [|n0 ns']; [constructor|]. apply clear_names_ok. assumption.
  - unfold del_key. destruct (sget (prop_name p) (st_store s)); simpl; [now apply sdel_ok | assumption].
  - assumption.
Qed.

Lemma run_ok ops : forall s, Forall guarded_op ops -> store_ok (st_store s) -> store_ok (st_store (run s ops)).
Proof.
  induction ops as [|o r IH]; intros s G Hs; simpl; [assumption|].
  inversion G; subst. apply IH; [assumption|]. now apply step_ok.
Qed.

Lemma C14_store_invariant_lemma :
  forall ops, Forall guarded_op ops -> store_ok (st_store (run init_state ops)).
Proof. intros ops G. apply run_ok; [assumption | constructor]. Qed.

(* the unchecked paths do break it (recorded, outside the statement) *)
Lemma unchecked_paths_witness :
  ~ store_ok (st_store (run init_state [OUpdate [(L "X", VAtom (AStr [97; 13; 10; 98]))]]))
  /\ ~ store_ok (st_store (run init_state [OSetDefault (L "X") (VList [AStr [97; 10]])])).
Proof.
  split; intros H; inversion H as [|? ? Hc _]; subst; simpl in Hc.
  - destruct Hc as [H10 _]. apply H10. simpl. auto.
  - inversion Hc as [|? ? [s [E [H10 _]]] _]; subst. injection E as <-. apply H10. simpl. auto.
Qed.
