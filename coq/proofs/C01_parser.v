(* C01_parser.v — print/parse round trip of the rule parser model
   (coq/model/RuleParser.v) over every rule syntax flavour. *)
From Verif Require Import lib.Base lib.ListX lib.Str model.RuleParser.

(* ---------- abstract rules and their concrete syntax ---------- *)

Inductive delim := DLt | DBrace.
Definition dopen (d : delim) : N := match d with DLt => ch_lt | DBrace => ch_lbrace end.
Definition dclose (d : delim) : N := match d with DLt => ch_gt | DBrace => ch_rbrace end.

Inductive flavour :=
| FColon                       (*  :name            *)
| FPlain (d : delim)           (*  <name>           *)
| FNameFlt (d : delim)         (*  <name:flt>       *)
| FNameFltArgs (d : delim)     (*  <name:flt:args>  *)
| FNameDot (d : delim)         (*  <name.flt>       *)
| FNameDotParen (d : delim)    (*  <name.flt(args)> , <name.flt(args)[sel]> *)
| FBottle (d : delim)          (*  <:flt>           *)
| FBottleArgs (d : delim)      (*  <:flt:args>      *)
| FBottleParen (d : delim)     (*  <:flt(args)>     *)
| FFltParen (d : delim).       (*  <flt(args)> , <flt(args)[sel]> *)

Inductive seg :=
| SLit (s : str)
| SPar (fl : flavour) (name flt args : str) (sel : option str).

Definition print_sel (sel : option str) : str :=
  match sel with Some s => ch_lbrk :: s ++ [ch_rbrk] | None => [] end.

Definition print_seg (sg : seg) : str :=
  match sg with
  | SLit s => s
  | SPar fl name flt args sel =>
    match fl with
    | FColon => ch_colon :: name
    | FPlain d => dopen d :: name ++ [dclose d]
    | FNameFlt d => dopen d :: name ++ ch_colon :: flt ++ [dclose d]
    | FNameFltArgs d => dopen d :: name ++ ch_colon :: flt ++ ch_colon :: args ++ [dclose d]
    | FNameDot d => dopen d :: name ++ ch_dot :: flt ++ [dclose d]
    | FNameDotParen d => dopen d :: name ++ ch_dot :: flt ++ ch_lpar :: args ++ ch_rpar :: print_sel sel ++ [dclose d]
    | FBottle d => dopen d :: ch_colon :: flt ++ [dclose d]
    | FBottleArgs d => dopen d :: ch_colon :: flt ++ ch_colon :: args ++ [dclose d]
    | FBottleParen d => dopen d :: ch_colon :: flt ++ ch_lpar :: args ++ [ch_rpar; dclose d]
    | FFltParen d => dopen d :: flt ++ ch_lpar :: args ++ ch_rpar :: print_sel sel ++ [dclose d]
    end
  end.

Fixpoint print (l : list seg) : str :=
  match l with [] => [] | sg :: r => print_seg sg ++ print r end.

(* what follows a path filter: the literal text up to the next wildcard *)
Definition following_lit (r : list seg) : str :=
  match r with SLit s :: _ => s | _ => [] end.

Definition item_of (sg : seg) (r : list seg) : item :=
  match sg with
  | SLit s => mkItem (Some s) None None None None
  | SPar fl name flt args sel =>
    let a (printed : option str) :=
        if str_eqb flt path_name then Some (following_lit r) else printed in
    match fl with
    | FColon => mkItem None (match name with [] => None | _ => Some name end) None None None
    | FPlain _ => mkItem None (Some name) None None None
    | FNameFlt _ | FNameDot _ => mkItem None (Some name) (Some flt) (a None) None
    | FNameFltArgs _ => mkItem None (Some name) (Some flt) (a (Some args)) None
    | FNameDotParen _ => mkItem None (Some name) (Some flt) (a (Some args)) sel
    | FBottle _ => mkItem None None (Some flt) (a None) None
    | FBottleArgs _ | FBottleParen _ => mkItem None None (Some flt) (a (Some args)) None
    | FFltParen _ => mkItem None None (Some flt) (a (Some args)) sel
    end
  end.

Fixpoint items_of (l : list seg) : list item :=
  match l with [] => [] | sg :: r => item_of sg r :: items_of r end.

(* ---------- well-formedness ---------- *)

Section WF.
Variable wordc : N -> bool.

Definition py_name (s : str) : Prop :=
  match s with c :: r => name_start c = true /\ forallb wordc r = true | [] => False end.

(* parenthesised arguments: no backslash, balanced, never closing below the start level *)
Fixpoint depth_ok (level : nat) (s : str) : option nat :=
  match s with
  | [] => Some level
  | c :: r =>
    if N.eqb c ch_bslash then None
    else if N.eqb c ch_rpar then match level with O => None | S l => depth_ok l r end
    else if N.eqb c ch_lpar then depth_ok (S level) r
    else depth_ok level r
  end.

Definition sel_ok (sel : option str) : Prop :=
  match sel with
  | None => True
  | Some s => s <> [] /\ forallb (fun c => negb (N.eqb c ch_rbrk) && negb (N.eqb c ch_nl)) s = true
  end.

Definition seg_ok (sg : seg) : Prop :=
  match sg with
  | SLit s => s <> [] /\ forallb (fun c => negb (is_param_token c)) s = true
  | SPar fl name flt args sel =>
    match fl with
    | FColon => name = [] \/ py_name name
    | FPlain _ => py_name name
    | FNameFlt _ | FNameDot _ => py_name name /\ py_name flt
    | FNameFltArgs d => py_name name /\ py_name flt /\ args <> [] /\ forallb (fun c => negb (N.eqb c (dclose d))) args = true
    | FNameDotParen _ => py_name name /\ py_name flt /\ depth_ok 0 args = Some 0 /\ sel_ok sel
    | FBottle _ => py_name flt
    | FBottleArgs d => py_name flt /\ args <> [] /\ forallb (fun c => negb (N.eqb c (dclose d))) args = true
    | FBottleParen _ => py_name flt /\ depth_ok 0 args = Some 0
    | FFltParen _ => py_name flt /\ depth_ok 0 args = Some 0 /\ sel_ok sel
    end
  end.

Definition has_filter (fl : flavour) : bool :=
  match fl with FColon | FPlain _ => false | _ => true end.

(* context conditions: no two adjacent literals; ':name' is followed by '/' or
   the end; an anonymous ':' only at the very end; a path filter is followed by
   a literal or the end *)
Fixpoint segs_ok (l : list seg) : Prop :=
  match l with
  | [] => True
  | sg :: r =>
    seg_ok sg /\ segs_ok r /\
    match sg with
    | SLit _ => match r with SLit _ :: _ => False | _ => True end
    | SPar FColon name _ _ _ =>
        match r with
        | [] => True
        | SLit (c :: _) :: _ => c = ch_slash /\ name <> []
        | _ => False
        end
    | SPar fl _ flt _ _ =>
        has_filter fl = true -> str_eqb flt path_name = true ->
        match r with [] | SLit _ :: _ => True | _ => False end
    end
  end.

Hypothesis wordc_delims :
  forall c, In c [ch_slash; ch_gt; ch_rbrace; ch_dot; ch_colon; ch_lpar] -> wordc c = false.

(* ---------- scanner lemmas ---------- *)

Lemma span_app p a rest :
  forallb p a = true ->
  (match rest with [] => True | c :: _ => p c = false end) ->
  span p (a ++ rest) = (a, rest).
Proof.
  intros Ha Hr. induction a as [|x a IH]; simpl in *.
  - destruct rest as [|c r]; simpl; [reflexivity | now rewrite Hr].
  - apply andb_true_iff in Ha. destruct Ha as [Hx Ha]. rewrite Hx, (IH Ha). reflexivity.
Qed.

Lemma eat_name_app nm rest :
  py_name nm ->
  (match rest with [] => True | c :: _ => wordc c = false end) ->
  eat_name wordc (nm ++ rest) = Some (nm, rest).
Proof.
  destruct nm as [|c r]; simpl; [tauto|]. intros [Hs Hw] Hr.
  rewrite Hs, (span_app wordc r rest Hw Hr). reflexivity.
Qed.

Lemma paren_scan_app a : forall fuel tail level level' acc,
  depth_ok level a = Some level' ->
  length a <= fuel ->
  paren_scan (fuel + 1) (a ++ tail) level acc = paren_scan (fuel - length a + 1) tail level' (rev a ++ acc).
Proof.
  induction a as [|c a IH]; intros fuel tail level level' acc Hd Hf; simpl in *.
  - injection Hd as <-. now rewrite Nat.sub_0_r.
  - destruct fuel as [|fuel]; [lia|]. cbn [Nat.add paren_scan].
    destruct (N.eqb c ch_bslash) eqn:E1; [discriminate|].
    destruct (N.eqb c ch_rpar) eqn:E2.
    + destruct level as [|l]; [discriminate|].
      rewrite (IH fuel tail l level' (c :: acc) Hd) by lia.
      rewrite <- app_assoc. reflexivity.
    + destruct (N.eqb c ch_lpar) eqn:E3.
      * rewrite (IH fuel tail (S level) level' (c :: acc) Hd) by lia.
        rewrite <- app_assoc. reflexivity.
      * rewrite (IH fuel tail level level' (c :: acc) Hd) by lia.
        rewrite <- app_assoc. reflexivity.
Qed.

Lemma removelast_app_single {A} (l : list A) (x : A) : removelast (l ++ [x]) = l.
Proof. induction l as [|y l IH]; simpl; [reflexivity|]. destruct (l ++ [x]) eqn:E; [destruct l; discriminate|]. now rewrite IH. Qed.

Lemma expect_parens_app a rest :
  depth_ok 0 a = Some 0 ->
  expect_parens (ch_lpar :: a ++ ch_rpar :: rest) = Some (a, rest).
Proof.
  intros Hd. unfold expect_parens.
  replace (S (length (a ++ ch_rpar :: rest))) with (length (a ++ ch_rpar :: rest) + 1) by lia.
  rewrite (paren_scan_app a _ (ch_rpar :: rest) 0 0 [ch_lpar] Hd) by (rewrite app_length; lia).
  rewrite app_length. cbn [length].
  replace (length a + S (length rest) - length a + 1) with (S (S (length rest))) by lia.
  cbn [paren_scan]. change (N.eqb ch_rpar ch_bslash) with false. change (N.eqb ch_rpar ch_rpar) with true.
  cbn iota. f_equal. f_equal.
  cbn [rev]. rewrite rev_app_distr, rev_involutive. cbn [rev app tl].
  apply removelast_app_single.
Qed.


Lemma sel_scan_app s : forall rest acc,
  forallb (fun c => negb (N.eqb c ch_rbrk) && negb (N.eqb c ch_nl)) s = true ->
  sel_scan (s ++ ch_rbrk :: rest) acc = Some (rev acc ++ s, rest).
Proof.
  induction s as [|c s IH]; intros rest acc H; simpl in *.
  - change (N.eqb ch_rbrk ch_rbrk) with true. cbn iota. now rewrite app_nil_r.
  - apply andb_true_iff in H. destruct H as [Hc Hs]. apply andb_true_iff in Hc. destruct Hc as [H1 H2].
    apply negb_true_iff in H1, H2. rewrite H1, H2. rewrite (IH rest (c :: acc) Hs). simpl.
    now rewrite <- app_assoc.
Qed.

Lemma expect_selector_app s rest :
  sel_ok (Some s) ->
  expect_selector (ch_lbrk :: s ++ ch_rbrk :: rest) = Some (s, rest).
Proof.
  intros [Hne H]. destruct s as [|c s]; [congruence|]. simpl in *.
  apply andb_true_iff in H. destruct H as [Hc Hs]. apply andb_true_iff in Hc. destruct Hc as [H1 H2].
  apply negb_true_iff in H2. rewrite H2. now rewrite (sel_scan_app s rest [c] Hs).
Qed.

Lemma eat_not_app bad a rest :
  a <> [] -> forallb (fun c => negb (bad c)) a = true ->
  (match rest with [] => True | c :: _ => bad c = true end) ->
  eat_not bad (a ++ rest) = Some (a, rest).
Proof.
  intros Hne Ha Hr. unfold eat_not. rewrite (span_app (fun c => negb (bad c)) a rest Ha).
  - destruct a; [congruence | reflexivity].
  - destruct rest; [exact I | now rewrite Hr].
Qed.

(* the tuple _parse_param returns, before the `path` post-processing of _iter_parse *)
Definition raw_tuple (fl : flavour) (name flt args : str) (sel : option str)
  : option str * option str * option str * option str :=
  match fl with
  | FColon => (match name with [] => None | _ => Some name end, None, None, None)
  | FPlain _ => (Some name, None, None, None)
  | FNameFlt _ | FNameDot _ => (Some name, Some flt, None, None)
  | FNameFltArgs _ => (Some name, Some flt, Some args, None)
  | FNameDotParen _ => (Some name, Some flt, Some args, sel)
  | FBottle _ => (None, Some flt, None, None)
  | FBottleArgs _ | FBottleParen _ => (None, Some flt, Some args, None)
  | FFltParen _ => (None, Some flt, Some args, sel)
  end.

Lemma wd c : In c [ch_slash; ch_gt; ch_rbrace; ch_dot; ch_colon; ch_lpar] -> wordc c = false.
Proof. apply wordc_delims. Qed.

Ltac wd_solve :=
  match goal with
  | |- wordc ?c = false => apply wd; simpl; tauto
  | |- match ?l with [] => True | _ :: _ => _ end => simpl; try (apply wd; simpl; tauto)
  end.

Lemma dclose_cases d : dclose d = ch_gt \/ dclose d = ch_rbrace.
Proof. destruct d; auto. Qed.

Lemma wd_dclose d : wordc (dclose d) = false.
Proof. destruct d; apply wd; simpl; tauto. Qed.

Lemma name_start_not_colon c : name_start c = true -> N.eqb c ch_colon = false.
Proof.
  unfold name_start, ch_colon. intros H. apply N.eqb_neq. intros ->. vm_compute in H. discriminate.
Qed.

Ltac evalb :=
  repeat match goal with
  | |- context [N.eqb ?a ?b] =>
      let v := eval vm_compute in (N.eqb a b) in
      match v with
      | true => change (N.eqb a b) with true
      | false => change (N.eqb a b) with false
      end
  end; cbn iota.

Lemma cur_is_name nm r : py_name nm -> cur_is (nm ++ r) ch_colon = false.
Proof. destruct nm as [|c nm]; [intros []|]. intros [H _]. cbn [app cur_is]. now apply name_start_not_colon. Qed.

Lemma app_cons_assoc {A} (a : list A) x b c : (a ++ x :: b) ++ c = a ++ x :: (b ++ c).
Proof. now rewrite <- app_assoc. Qed.

Lemma parse_param_seg fl name flt args sel rest :
  seg_ok (SPar fl name flt args sel) ->
  (fl = FColon -> match rest with
                  | [] => True
                  | c :: _ => c = ch_slash /\ name <> []
                  end) ->
  match print_seg (SPar fl name flt args sel) with
  | first :: body =>
      is_param_token first = true /\
      parse_param wordc first (body ++ rest) = inr (raw_tuple fl name flt args sel, rest)
  | [] => False
  end.
Proof.
  intros Hok Hctx. destruct fl as [|d|d|d|d|d|d|d|d|d]; cbn [print_seg raw_tuple seg_ok] in *.
  - (* :name *)
    split; [reflexivity|]. unfold parse_param. evalb.
    specialize (Hctx eq_refl).
    destruct Hok as [-> | Hn].
    + destruct rest as [|c r]; [reflexivity|]. destruct Hctx as [_ Hne]. congruence.
    + destruct name as [|n0 nm]; [destruct Hn|]. cbn [app].
      unfold expect_colon_name.
      change (n0 :: nm ++ rest) with ((n0 :: nm) ++ rest).
      rewrite (eat_name_app (n0 :: nm) rest Hn).
      * destruct rest as [|c r]; [reflexivity|]. destruct Hctx as [-> _].
        destruct r; evalb; reflexivity.
      * destruct rest as [|c r]; [exact I|]. destruct Hctx as [-> _]. apply wd; simpl; tauto.
  - (* <name> *)
    split; [destruct d; reflexivity|].
    destruct d; unfold parse_param; cbv zeta; cbn [dopen dclose]; evalb;
      rewrite <- app_assoc, (cur_is_name name _ Hok);
      rewrite (eat_name_app name _ Hok) by (cbn [app]; apply wd; simpl; tauto);
      cbn [app cur_is tl]; evalb; reflexivity.
  - (* <name:flt> *)
    destruct Hok as [Hn Hf]. split; [destruct d; reflexivity|].
    destruct d; unfold parse_param; cbv zeta; cbn [dopen dclose]; evalb;
      rewrite app_cons_assoc, (cur_is_name name _ Hn);
      rewrite (eat_name_app name _ Hn) by (apply wd; simpl; tauto);
      cbn [cur_is tl]; evalb;
      rewrite <- app_assoc;
      rewrite (eat_name_app flt _ Hf) by (cbn [app]; apply wd; simpl; tauto);
      cbn [app cur_is tl orb negb]; evalb; reflexivity.
  - (* <name:flt:args> *)
    destruct Hok as (Hn & Hf & Hne & Ha). split; [destruct d; reflexivity|].
    destruct d; unfold parse_param; cbv zeta; cbn [dopen dclose] in *; evalb;
      rewrite app_cons_assoc, (cur_is_name name _ Hn);
      rewrite (eat_name_app name _ Hn) by (apply wd; simpl; tauto);
      cbn [cur_is tl]; evalb;
      rewrite app_cons_assoc;
      rewrite (eat_name_app flt _ Hf) by (apply wd; simpl; tauto);
      cbn [orb negb]; evalb;
      rewrite <- app_assoc;
      rewrite (eat_not_app _ args _ Hne Ha) by (cbn [app]; evalb; reflexivity);
      cbn [app cur_is tl]; evalb; reflexivity.
  - (* <name.flt> *)
    destruct Hok as [Hn Hf]. split; [destruct d; reflexivity|].
    destruct d; unfold parse_param; cbv zeta; cbn [dopen dclose]; evalb;
      rewrite app_cons_assoc, (cur_is_name name _ Hn);
      rewrite (eat_name_app name _ Hn) by (apply wd; simpl; tauto);
      cbn [cur_is tl]; evalb;
      rewrite <- app_assoc;
      rewrite (eat_name_app flt _ Hf) by (cbn [app]; apply wd; simpl; tauto);
      cbn [app cur_is tl orb negb]; evalb; reflexivity.
  - (* <name.flt(args)[sel]> *)
    destruct Hok as (Hn & Hf & Hd & Hs). split; [destruct d; reflexivity|].
    destruct d; unfold parse_param; cbv zeta; cbn [dopen dclose]; evalb;
      rewrite app_cons_assoc, (cur_is_name name _ Hn);
      rewrite (eat_name_app name _ Hn) by (apply wd; simpl; tauto);
      cbn [cur_is tl]; evalb;
      rewrite app_cons_assoc;
      rewrite (eat_name_app flt _ Hf) by (apply wd; simpl; tauto);
      cbn [orb negb]; evalb;
      rewrite app_cons_assoc;
      rewrite (expect_parens_app args _ Hd);
      (destruct sel as [sl|]; cbn [print_sel];
       [ rewrite <- app_assoc; cbn [app]; cbn [cur_is]; evalb;
         rewrite <- app_assoc; cbn [app];
         rewrite (expect_selector_app sl _ Hs); cbn [cur_is tl]; evalb; reflexivity
       | cbn [app cur_is tl]; evalb; reflexivity ]).
  - (* <:flt> *)
    split; [destruct d; reflexivity|].
    destruct d; unfold parse_param; cbv zeta; cbn [dopen dclose]; evalb;
      cbn [app cur_is tl]; evalb;
      rewrite <- app_assoc;
      rewrite (eat_name_app flt _ Hok) by (cbn [app]; apply wd; simpl; tauto);
      cbn [app cur_is tl orb negb]; evalb; reflexivity.
  - (* <:flt:args> *)
    destruct Hok as (Hf & Hne & Ha). split; [destruct d; reflexivity|].
    destruct d; unfold parse_param; cbv zeta; cbn [dopen dclose] in *; evalb;
      cbn [app cur_is tl]; evalb;
      rewrite app_cons_assoc;
      rewrite (eat_name_app flt _ Hf) by (apply wd; simpl; tauto);
      cbn [cur_is tl orb negb]; evalb;
      rewrite <- app_assoc;
      rewrite (eat_not_app _ args _ Hne Ha) by (cbn [app]; evalb; reflexivity);
      cbn [app cur_is tl]; evalb; reflexivity.
  - (* <:flt(args)> *)
    destruct Hok as (Hf & Hd). split; [destruct d; reflexivity|].
    destruct d; unfold parse_param; cbv zeta; cbn [dopen dclose]; evalb;
      cbn [app cur_is tl]; evalb;
      rewrite app_cons_assoc;
      rewrite (eat_name_app flt _ Hf) by (apply wd; simpl; tauto);
      cbn [cur_is tl orb negb]; evalb;
      rewrite app_cons_assoc;
      rewrite (expect_parens_app args _ Hd);
      cbn [app cur_is tl]; evalb; reflexivity.
  - (* <flt(args)[sel]> *)
    destruct Hok as (Hf & Hd & Hs). split; [destruct d; reflexivity|].
    destruct d; unfold parse_param; cbv zeta; cbn [dopen dclose]; evalb;
      rewrite app_cons_assoc, (cur_is_name flt _ Hf);
      rewrite (eat_name_app flt _ Hf) by (apply wd; simpl; tauto);
      cbn [cur_is tl orb negb]; evalb;
      rewrite app_cons_assoc;
      rewrite (expect_parens_app args _ Hd);
      (destruct sel as [sl|]; cbn [print_sel];
       [ rewrite <- app_assoc; cbn [app]; cbn [cur_is]; evalb;
         rewrite <- app_assoc; cbn [app];
         rewrite (expect_selector_app sl _ Hs); cbn [cur_is tl]; evalb; reflexivity
       | cbn [app cur_is tl]; evalb; reflexivity ]).
Qed.

Definition starts_tok (s : str) : Prop :=
  match s with [] => True | c :: _ => is_param_token c = true end.

Lemma print_seg_par_head fl name flt args sel :
  exists t body, print_seg (SPar fl name flt args sel) = t :: body /\ is_param_token t = true.
Proof. destruct fl as [|d|d|d|d|d|d|d|d|d]; cbn [print_seg]; try destruct d; eexists; eexists; split; reflexivity. Qed.

Lemma print_starts_tok r :
  (match r with SLit _ :: _ => False | _ => True end) -> starts_tok (print r).
Proof.
  destruct r as [|[s|fl name flt args sel] r]; cbn [print]; [intros _; exact I | intros [] |].
  intros _. destruct (print_seg_par_head fl name flt args sel) as (t & body & E & Ht).
  rewrite E. exact Ht.
Qed.

Lemma span_lit s r :
  seg_ok (SLit s) -> starts_tok r ->
  span (fun x => negb (is_param_token x)) (s ++ r) = (s, r).
Proof.
  intros [_ Hs] Hr. apply span_app; [exact Hs|].
  destruct r as [|c r]; [exact I|]. simpl in Hr. now rewrite Hr.
Qed.

Lemma path_args r :
  segs_ok r -> (match r with [] | SLit _ :: _ => True | _ => False end) ->
  (match span (fun x => negb (is_param_token x)) (print r) with
   | ([], _) => print r
   | (a, _) => a
   end) = following_lit r.
Proof.
  destruct r as [|[s|fl name flt args sel] r]; cbn [print print_seg following_lit segs_ok]; [reflexivity | | intros _ []].
  intros (Hs & Hr & Hadj) _.
  rewrite (span_lit s (print r) Hs (print_starts_tok r Hadj)).
  destruct Hs as [Hne _]. destruct s; [congruence | reflexivity].
Qed.

Theorem parse_print_lemma : forall l fuel,
  segs_ok l -> length (print l) < fuel ->
  iter_parse wordc fuel (print l) = inr (items_of l).
Proof.
  induction l as [|sg r IH]; intros fuel Hok Hf.
  - destruct fuel; [simpl in Hf; lia | reflexivity].
  - destruct fuel as [|f]; [lia|].
    cbn [segs_ok] in Hok. destruct Hok as (Hsg & Hr & Hctx).
    cbn [print items_of]. cbn [print] in Hf.
    destruct sg as [s | fl name flt args sel].
    + (* literal *)
      pose proof Hsg as [Hne Hall]. destruct s as [|c s]; [congruence|].
      cbn [print_seg] in *. cbn [app iter_parse].
      simpl in Hall. apply andb_true_iff in Hall. destruct Hall as [Hc Hall].
      apply negb_true_iff in Hc. rewrite Hc.
      change (c :: s ++ print r) with ((c :: s) ++ print r).
      rewrite (span_lit (c :: s) (print r) Hsg (print_starts_tok r Hctx)).
      rewrite (IH f Hr) by (rewrite app_length in Hf; simpl in Hf; lia).
      reflexivity.
    + (* wildcard *)
      assert (Hc : fl = FColon -> match print r with [] => True | c :: _ => c = ch_slash /\ name <> [] end).
      { intros ->. destruct r as [|[[|c0 s0]|] r']; cbn [print print_seg app]; try exact I; try (destruct Hctx; fail).
        exact Hctx. }
      pose proof (parse_param_seg fl name flt args sel (print r) Hsg Hc) as Hp.
      destruct (print_seg (SPar fl name flt args sel)) as [|first body] eqn:Eps; [destruct Hp|].
      destruct Hp as [Htok Hpp].
      cbn [app iter_parse]. rewrite Htok, Hpp.
      assert (Hlen : length (print r) < f).
      { rewrite app_length in Hf. simpl in Hf. lia. }
      rewrite (IH f Hr Hlen).
      f_equal. f_equal.
      (* the item *)
      destruct fl as [|d|d|d|d|d|d|d|d|d]; cbn [raw_tuple item_of opt_str_eqb has_filter] in *;
        try reflexivity;
        (destruct (str_eqb flt path_name) eqn:Ep;
         [ rewrite (path_args r Hr (Hctx eq_refl eq_refl)); reflexivity | reflexivity ]).
Qed.

Theorem parse_print : forall l, segs_ok l -> parse wordc (print l) = inr (items_of l).
Proof. intros l H. apply parse_print_lemma; [exact H | lia]. Qed.

End WF.

(* non-vacuity: a rule using several flavours, with ASCII word characters *)
Definition ascii_wordc (c : N) : bool :=
  ((48 <=? c) && (c <=? 57) || (65 <=? c) && (c <=? 90) || (97 <=? c) && (c <=? 122) || (c =? 95))%N.

Lemma ascii_wordc_delims :
  forall c, In c [ch_slash; ch_gt; ch_rbrace; ch_dot; ch_colon; ch_lpar] -> ascii_wordc c = false.
Proof. intros c H. simpl in H. repeat destruct H as [<-|H]; try reflexivity. destruct H. Qed.

Definition demo_rule : list seg :=
  [SLit [102;111;111;47]%N;                                       (* foo/ *)
   SPar (FNameFlt DLt) [105;100]%N [105;110;116]%N [] None;       (* <id:int> *)
   SLit [47]%N;
   SPar (FNameDotParen DBrace) [112]%N path_name [] None;         (* {p.path()} *)
   SLit [101;110;100;47]%N;                                       (* end/ *)
   SPar (FFltParen DLt) [] [114;101]%N [40;97;41;124;40;98;41]%N (Some [49]%N);  (* <re((a)|(b))[1]> *)
   SLit [47]%N;
   SPar FColon [120]%N [] [] None].                                (* :x *)

Lemma demo_rule_ok : segs_ok ascii_wordc demo_rule.
Proof. vm_compute. intuition discriminate. Qed.
