(* C07_streaming.v — the encoded form is a well-formed body in the sense of C06,
   so the streaming parser, fed the body in ANY chunks (whatever the buffer size
   and the framing), reports the sections of the one-piece scanner and the round
   trip holds for it as well. *)
From Verif Require Import lib.Base lib.ListX lib.Str lib.Utf8 model.MultipartRef model.Multipart model.Fields.
From Verif Require Import proofs.C07_fields proofs.C07_spec proofs.C07_ref proofs.C07_roundtrip proofs.C07_collect proofs.C07_full.
From Verif Require Import proofs.C06_global.
Local Open Scope N_scope.

Lemma hdr_clean_skip U X : lacks 13 U -> hdr_clean (U ++ X) = hdr_clean X.
Proof.
  induction U as [|c U IH]; intros H; [reflexivity|].
  apply lacks_cons in H. destruct H as [Hc HU].
  change ((c :: U) ++ X) with (c :: (U ++ X)). cbn [hdr_clean].
  unfold CR. rewrite Hc. cbn [andb]. now apply IH.
Qed.

Lemma hdr_clean_H4 : hdr_clean H4 = true.
Proof. reflexivity. Qed.

Lemma no_linebreak_lacks_lf s : no_linebreak s -> lacks 10 s.
Proof.
  induction s as [|x s IH]; intros H; [reflexivity|].
  apply no_linebreak_cons in H. destruct H as [Hx Hs]. apply lacks_cons. split; [|auto].
  destruct (N.eqb_spec x 10) as [->|]; [discriminate Hx | reflexivity].
Qed.

Lemma hdr_clean_block f : fld_ok f -> hdr_clean (hdr_bytes f ++ H4) = true.
Proof.
  destruct f as [n v | n fn ct c]; unfold hdr_bytes, hdr_text.
  - intros [(Hq & Hl & _) _]. rewrite hdr_clean_skip; [reflexivity|].
    apply utf8_lacks_low; [reflexivity|]. apply no_linebreak_lacks_cr. now apply no_linebreak_cd_line.
  - intros ((Hq & Hl & _) & (Hq' & Hl' & _) & _ & _ & Hlc & _).
    rewrite !utf8_enc_str_app. change (utf8_enc_str [13; 10]) with [13; 10].
    rewrite <- !app_assoc.
    rewrite hdr_clean_skip
      by (apply utf8_lacks_low; [reflexivity|]; apply no_linebreak_lacks_cr; now apply no_linebreak_cd_line_file).
    assert (H13 : lacks 13 (utf8_enc_str (ct_line ct)))
      by (apply utf8_lacks_low; [reflexivity|]; apply no_linebreak_lacks_cr; now apply no_linebreak_ct_line).
    assert (H10 : lacks 10 (utf8_enc_str (ct_line ct)))
      by (apply utf8_lacks_low; [reflexivity|]; apply no_linebreak_lacks_lf; now apply no_linebreak_ct_line).
    assert (Hne : utf8_enc_str (ct_line ct) <> []).
    { unfold ct_line, ct_prefix. rewrite utf8_enc_str_app. discriminate. }
    destruct (utf8_enc_str (ct_line ct)) as [|u U2]; [congruence|].
    apply lacks_cons in H13, H10. destruct H13 as [Hu13 HU13], H10 as [Hu10 _].
    change ([13; 10] ++ (u :: U2) ++ H4) with (13 :: 10 :: u :: (U2 ++ H4)).
    cbn [hdr_clean]. unfold CR, LF. cbn [N.eqb Pos.eqb andb].
    rewrite Hu10, Hu13. cbn [andb].
    rewrite hdr_clean_skip by exact HU13. reflexivity.
Qed.

Lemma wf_delim_enc B fs :
  parts_ok B fs ->
  forall pre fuel, (length fs < fuel)%nat ->
    wf_delim fuel (token B) (pre ++ enc_rest B fs) (length pre) = true.
Proof.
  induction fs as [|f fs IH]; intros Hok pre fuel Hfuel.
  - destruct fuel as [|fu]; [lia|]. cbn [wf_delim enc_rest].
    rewrite (skipn_app_len pre _ _ eq_refl). reflexivity.
  - destruct fuel as [|fu]; [simpl in Hfuel; lia|].
    inversion Hok as [|f' fs' [Hf Hnd] Hrest]; subst.
    cbn [wf_delim enc_rest].
    rewrite (skipn_app_len pre _ _ eq_refl).
    change (CRLF ++ hdr_bytes f ++ H4 ++ data_bytes f ++ token B ++ enc_rest B fs)
      with (CR :: LF :: hdr_bytes f ++ H4 ++ data_bytes f ++ token B ++ enc_rest B fs).
    cbn iota. rewrite !N.eqb_refl. cbn [andb].
    set (rest1 := data_bytes f ++ token B ++ enc_rest B fs).
    assert (S1 : skipn (length pre + 2) (pre ++ CR :: LF :: hdr_bytes f ++ H4 ++ rest1)
                 = hdr_bytes f ++ H4 ++ rest1).
    { change (pre ++ CR :: LF :: hdr_bytes f ++ H4 ++ rest1)
        with (pre ++ [CR; LF] ++ hdr_bytes f ++ H4 ++ rest1).
      rewrite app_assoc. apply skipn_app_len. rewrite app_length. reflexivity. }
    rewrite S1. rewrite (hdr_bytes_H4 f rest1 Hf).
    assert (F1 : firstn (length (hdr_bytes f) + 4) (hdr_bytes f ++ H4 ++ rest1) = hdr_bytes f ++ H4).
    { rewrite app_assoc. apply firstn_app_len. rewrite app_length. reflexivity. }
    rewrite F1, (hdr_clean_block f Hf). cbn [andb].
    assert (S2 : skipn (length pre + 2 + length (hdr_bytes f) + 4)
                   (pre ++ CR :: LF :: hdr_bytes f ++ H4 ++ rest1) = rest1).
    { change (pre ++ CR :: LF :: hdr_bytes f ++ H4 ++ rest1)
        with (pre ++ [CR; LF] ++ hdr_bytes f ++ H4 ++ rest1).
      rewrite !app_assoc. apply skipn_app_len. rewrite !app_length. reflexivity. }
    rewrite S2. unfold rest1 at 1.
    rewrite (findb_app_first (token B) (data_bytes f) (enc_rest B fs) Hnd).
    set (pre' := pre ++ [CR; LF] ++ hdr_bytes f ++ H4 ++ data_bytes f ++ token B).
    assert (Lp : length pre' = (length pre + 2 + length (hdr_bytes f) + 4 + length (data_bytes f)
                                + length (token B))%nat).
    { unfold pre'. rewrite !app_length. simpl length. lia. }
    assert (Eb : pre ++ CR :: LF :: hdr_bytes f ++ H4 ++ rest1 = pre' ++ enc_rest B fs).
    { unfold pre', rest1. repeat rewrite <- app_assoc. reflexivity. }
    rewrite Eb, <- Lp. apply IH; [exact Hrest | simpl in Hfuel; lia].
Qed.

Theorem enc_form_wf B fs : lacks 13 B -> parts_ok B fs -> wf_prefix B (enc_form B fs).
Proof.
  intros HB Hok. unfold wf_prefix, wf_prefixb.
  assert (Hc : contains_char N.eqb CR B = false).
  { unfold contains_char, lacks in *. clear Hok. induction B as [|x B IH]; [reflexivity|].
    simpl in *. apply andb_true_iff in HB. destruct HB as [Hx HB]. apply negb_true_iff in Hx.
    unfold CR. rewrite Hx. now apply IH. }
  rewrite Hc. cbn [negb andb]. rewrite enc_form_rest.
  change (dash_boundary B ++ enc_rest B fs) with (HY :: HY :: B ++ enc_rest B fs).
  cbn iota. unfold virt. rewrite (N.eqb_refl HY), orb_true_r. cbn [andb].
  change (CRLF ++ HY :: HY :: B ++ enc_rest B fs) with (token B ++ enc_rest B fs).
  rewrite prefixb_app.
  change (HY :: HY :: B ++ enc_rest B fs) with (dash_boundary B ++ enc_rest B fs).
  assert (La : (length (token B) - length CRLF)%nat = length (dash_boundary B)) by (simpl; lia).
  rewrite La. apply (wf_delim_enc B fs Hok (dash_boundary B)).
  rewrite app_length. pose proof (enc_rest_length B fs). lia.
Qed.

(* the round trip through the streaming parser, for any chunking of the body *)
Theorem roundtrip_streaming B fs mem chunks :
  lacks 13 B -> parts_ok B fs -> (total_cost fs <= mem)%Z ->
  concat chunks = enc_form B fs ->
  exists d, post_of_markup (enc_form B fs) (markup_chunks B chunks) mem = POk d
            /\ view (enc_form B fs) d = Some (expected fs).
Proof.
  intros HB Hok Hc Hcat.
  rewrite (stream_eq_ref B chunks) by (rewrite Hcat; now apply enc_form_wf).
  rewrite Hcat. apply (roundtrip B fs mem Hok Hc).
Qed.
