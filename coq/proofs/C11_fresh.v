(* C11_fresh.v — the answers of a router depend only on what survived: two
   routers reached by (prefix-removal-free) histories whose surviving routes
   and hooks coincide answer every request identically — same route, handler,
   kwargs and the same hook list.  A freshly built router with the same
   survivors is one such router. *)
From Coq Require Import Sorting.Sorted.
From Verif Require Import lib.Base lib.Str gen.Gen model.RouteSpec model.Dispatch model.Router
     proofs.C02_proofs proofs.C01_get proofs.C01_insert proofs.C01_router proofs.C11_proofs proofs.C11_hooks.

(* what survived, without route ids: (pattern, Route contents) in index order *)
Definition content (R : router) : list (str * route) :=
  flat_map (fun pd => match nth_error (heap R) (snd pd) with
                      | Some rt => [(fst pd, rt)]
                      | None => []
                      end) (routes R).

Inductive ans :=
| A404
| A405 (a : str)
| AOk (rule : nat) (m : str) (h : hid) (kw : list (str * value)) (hs : hooklist).

Definition answer (R : router) (r : rres) : ans :=
  match r with
  | R404 _ _ _ => A404
  | R405 a => A405 a
  | ROk d m h kw hs => match nth_error (heap R) d with
                       | Some rt => AOk (r_rule rt) m h kw hs
                       | None => A404
                       end
  | RCorrupt => A404
  end.

(* ---- spec is equivariant in what a rule is registered with ---- *)
Section SpecMap.
Variable filt : fid -> str -> option (value * nat).
Context {X Y : Type} (f : X -> Y).

Definition rmap (qx : pat * X) : pat * Y := (fst qx, f (snd qx)).
Definition hmap (h : pat * X * list value) : pat * Y * list value := (fst (fst h), f (snd (fst h)), snd h).

Lemma hits_map rules path : hits filt (map rmap rules) path = map hmap (hits filt rules path).
Proof.
  unfold hits. induction rules as [|[q x] rules IH]; simpl; [reflexivity|].
  rewrite IH. destruct (match1 filt q path); reflexivity.
Qed.

Lemma pick_map hs : pick (map hmap hs) = option_map hmap (pick hs).
Proof.
  induction hs as [|h hs IH]; simpl; [reflexivity|]. rewrite IH.
  destruct (pick hs) as [b|]; simpl; [|reflexivity].
  destruct b as [[qb xb] vb], h as [[qh xh] vh]. simpl. now destruct (betterb (flat qb) (flat qh)).
Qed.

Lemma spec_map rules path : spec filt (map rmap rules) path = option_map hmap (spec filt rules path).
Proof. unfold spec. now rewrite hits_map, pick_map. Qed.
End SpecMap.

Definition route0 : route := mkRoute 0 [] [] [] [].
Definition getrt (R : router) (d : rid) : route := nth d (heap R) route0.

Definition rules_c (R : router) : list (pat * route) :=
  map (fun pr => (pat_of (fst pr) (r_filters (snd pr)), snd pr)) (content R).

Lemma rules_c_of R : rules_c R = map (rmap (getrt R)) (rules_of R).
Proof.
  unfold rules_c, content, rules_of. induction (routes R) as [|[p d] l IH]; simpl; [reflexivity|].
  rewrite !map_app, IH. f_equal. destruct (nth_error (heap R) d) as [rt|] eqn:E; [|reflexivity].
  simpl. unfold rmap, getrt. simpl. now rewrite (nth_error_nth _ _ _ E).
Qed.

(* ---- strictly sorted lists with the same elements are equal ---- *)
Lemma sorted_ext (l : list hentry) : forall l',
  StronglySorted (fun a b : hentry => length (fst a) < length (fst b)) l ->
  StronglySorted (fun a b : hentry => length (fst a) < length (fst b)) l' ->
  (forall e, In e l <-> In e l') -> l = l'.
Proof.
  induction l as [|a t IH]; intros l' Hs Hs' Hm.
  - destruct l' as [|a' t']; [reflexivity|]. exfalso. apply (Hm a'). now left.
  - destruct l' as [|a' t']; [exfalso; apply (Hm a); now left|].
    inversion Hs as [|? ? Hst Hall]; subst. inversion Hs' as [|? ? Hst' Hall']; subst.
    rewrite Forall_forall in Hall, Hall'.
    assert (a = a').
    { destruct (proj1 (Hm a) (or_introl eq_refl)) as [E|Hin]; [now symmetry|].
      destruct (proj2 (Hm a') (or_introl eq_refl)) as [E|Hin']; [exact E|].
      specialize (Hall' a Hin). specialize (Hall a' Hin'). lia. }
    subst a'. f_equal. apply IH; auto. intros e. split; intros Hin.
    + destruct (proj1 (Hm e) (or_intror Hin)) as [E|H]; [|exact H]. subst e. specialize (Hall a Hin). lia.
    + destruct (proj2 (Hm e) (or_intror Hin)) as [E|H]; [|exact H]. subst e. specialize (Hall' a Hin). lia.
Qed.

Lemma hrel_fun filt i path qs : forall hs hs',
  Forall2 (hrel filt i path) qs hs -> Forall2 (hrel filt i path) qs hs' -> hs = hs'.
Proof.
  induction qs as [|e qs IH]; intros hs hs' H H'; inversion H; inversion H'; subst; [reflexivity|].
  f_equal; [|eapply IH; eauto].
  match goal with A : hrel _ _ _ e ?y, B : hrel _ _ _ e ?y' |- ?y = ?y' =>
    destruct A as (A1 & c & A2 & A3); destruct B as (B1 & c' & B2 & B3);
    destruct y, y'; simpl in *; assert (c = c') by congruence; subst; f_equal; congruence end.
Qed.

Lemma rstr_length q : length (rstr q) = length q.
Proof. apply map_length. Qed.

Lemma pprefix_same_len q q' p : pprefix q p -> pprefix q' p -> length q = length q' -> q = q'.
Proof.
  intros [t ->] [t' H] Hl. revert q' t' H Hl. induction q as [|x q IH]; intros [|y q'] t' H Hl; simpl in *;
    try discriminate; [reflexivity|]. injection H as -> H. f_equal. eapply IH; eauto.
Qed.

(* ---- the theorem ---- *)
Theorem same_survivors_lemma : forall filt (cs cs' : list cmd) (path : str) (cds : list str),
  Forall noprefix_cmd cs -> Forall noprefix_cmd cs' ->
  let R := exec_cmds router0 cs in let R' := exec_cmds router0 cs' in
  content R = content R' -> hooks_idx R = hooks_idx R' ->
  answer R (resolve filt R path cds) = answer R' (resolve filt R' path cds).
Proof.
  intros filt cs cs' path cds Hcs Hcs' R R' Hc Hh.
  assert (Hh1 : Forall hist_cmd cs) by (eapply Forall_impl; [|exact Hcs]; intros c [H _]; exact H).
  assert (Hh2 : Forall hist_cmd cs') by (eapply Forall_impl; [|exact Hcs']; intros c [H _]; exact H).
  pose proof (history_route_eq_spec_lemma filt cs path cds Hh1) as S1.
  pose proof (history_route_eq_spec_lemma filt cs' path cds Hh2) as S2.
  fold R in S1. fold R' in S2. cbv zeta in S1, S2.
  assert (Hrc : rules_c R = rules_c R') by (unfold rules_c; now rewrite Hc).
  pose proof (spec_map filt (getrt R) (rules_of R) (strip_sep path)) as M1.
  pose proof (spec_map filt (getrt R') (rules_of R') (strip_sep path)) as M2.
  rewrite <- rules_c_of in M1, M2. rewrite Hrc, M2 in M1. clear M2.
  destruct (spec filt (rules_of R) (strip_sep path)) as [[[q d] vs]|],
           (spec filt (rules_of R') (strip_sep path)) as [[[q' d'] vs']|]; simpl in M1; try discriminate.
  - (* the same route contents are selected *)
    unfold hmap in M1. simpl in M1. injection M1 as -> Hrt ->.
    destruct S1 as (rt & hs & A1 & A2 & A3 & A4). destruct S2 as (rt' & hs' & B1 & B2 & B3 & B4).
    assert (rt' = rt).
    { unfold getrt in Hrt. rewrite (nth_error_nth _ _ _ A1), (nth_error_nth _ _ _ B1) in Hrt. exact Hrt. }
    subst rt'. rewrite A4, B4.
    destruct (dispatch_on (r_methods rt) cds) as [m [h mn]|a] eqn:Ed; [|reflexivity].
    simpl. rewrite A1, B1. f_equal.
    (* the hook lists *)
    assert (F1 : resolve filt R path cds = ROk d m h (make_params match mn with [] => r_names rt | _ :: _ => mn end vs) hs)
      by (rewrite A4; reflexivity).
    assert (F2 : resolve filt R' path cds = ROk d' m h (make_params match mn with [] => r_names rt | _ :: _ => mn end vs) hs')
      by (rewrite B4; reflexivity).
    destruct (hooks_fire_lemma filt cs path cds _ _ _ _ _ Hcs F1) as (r1 & qs & C1 & C2 & C3 & C4 & C5).
    destruct (hooks_fire_lemma filt cs' path cds _ _ _ _ _ Hcs' F2) as (r2 & qs' & D1 & D2 & D3 & D4 & D5).
    fold R in C1, C4, C5. fold R' in D1, D4, D5.
    assert (r1 = rt) by congruence. assert (r2 = rt) by congruence. subst r1 r2. rewrite <- Hh in D4, D5.
    assert (Hq : qs = qs').
    { apply sorted_ext; auto. intros [q0 hp]. split; intros Hin.
      - destruct (C4 q0 hp Hin) as (G1 & G2).
        destruct (D5 (rstr q0) hp G1) as (q1 & E1 & E2).
        { apply pprefix_rstr in G2. now rewrite rstr_fpat in G2. }
        destruct (D4 q1 hp E2) as (_ & G3).
        assert (q1 = q0); [|now subst].
        eapply pprefix_same_len; eauto. now rewrite <- !rstr_length, E1.
      - destruct (D4 q0 hp Hin) as (G1 & G2).
        destruct (C5 (rstr q0) hp G1) as (q1 & E1 & E2).
        { apply pprefix_rstr in G2. now rewrite rstr_fpat in G2. }
        destruct (C4 q1 hp E2) as (_ & G3).
        assert (q1 = q0); [|now subst].
        eapply pprefix_same_len; eauto. now rewrite <- !rstr_length, E1. }
    subst qs'. eapply hrel_fun; eauto.
  - destruct S1 as (vs1 & hs1 & i1 & ->). destruct S2 as (vs2 & hs2 & i2 & ->). reflexivity.
Qed.

(* non-vacuity: two different histories (one with a split, a removal and a
   re-used node) leave the same survivors *)
Lemma same_survivors_nonvacuous_lemma :
  let cs := [CAddHook s_ab [] [] 50 false; CAdd 0 s_abc [] [] [s_get] 1 None false;
             CAdd 1 s_ab [] [] [s_get] 2 None false; CRemovePattern s_ab] in
  let cs' := [CAdd 0 s_abc [] [] [s_get] 1 None false; CAddHook s_ab [] [] 50 false] in
  Forall noprefix_cmd cs /\ Forall noprefix_cmd cs' /\
  content (exec_cmds router0 cs) = content (exec_cmds router0 cs') /\
  hooks_idx (exec_cmds router0 cs) = hooks_idx (exec_cmds router0 cs') /\
  answer (exec_cmds router0 cs) (resolve nofilt (exec_cmds router0 cs) (47%N :: s_abc) [s_get])
  = AOk 0 s_get 1 [] [(3, (Some 50, None))].
Proof.
  cbv zeta. split; [repeat constructor|]. split; [repeat constructor|]. vm_compute. auto.
Qed.
