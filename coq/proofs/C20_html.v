(* C20_html.v -- proofs about the HTML error page and the last-resort page of
   model/ErrPage.v.  Everything here is for an arbitrary Unicode printability
   table [isp] and arbitrary url / path / exception / traceback strings. *)
From Verif Require Import lib.Base lib.Str lib.Html lib.PyRepr model.ErrPage proofs.C20_escape.
From Verif Require gen.Gen.

(* ------------------------------------------------------------------ *)
(* repr (html.escape url) is a quoted run of closed pieces             *)
(* ------------------------------------------------------------------ *)

Lemma flat_map_flat_map {A B C} (f : B -> list C) (g : A -> list B) (l : list A) :
  flat_map f (flat_map g l) = flat_map (fun x => flat_map f (g x)) l.
Proof. induction l as [|x l IH]; simpl; [reflexivity|]. now rewrite flat_map_app, IH. Qed.

Section Table.
Variable isp : N -> bool.

(* one url character: escaped, then shown by repr under the single-quote convention *)
Definition url_piece (c : N) : str := flat_map (repr_char isp 39%N) (esc1_std c).

Lemma url_piece_closed c : closed_piece (url_piece c).
Proof.
  unfold url_piece, esc1_std.
  destruct (N.eqb c 38) eqn:E1; [apply closed_entity with (t := nth 0 entity_tails []); simpl; tauto|].
  destruct (N.eqb c 60) eqn:E2; [apply closed_entity with (t := nth 1 entity_tails []); simpl; tauto|].
  destruct (N.eqb c 62) eqn:E3; [apply closed_entity with (t := nth 2 entity_tails []); simpl; tauto|].
  destruct (N.eqb c 34) eqn:E4; [apply closed_entity with (t := nth 3 entity_tails []); simpl; tauto|].
  destruct (N.eqb c 39) eqn:E5; [apply closed_entity with (t := nth 4 entity_tails []); simpl; tauto|].
  cbn [flat_map]. rewrite app_nil_r.
  apply repr_char_closed; unfold is_angle, is_quote; now rewrite ?E2, ?E3, ?E4, ?E5.
Qed.

Definition url_inner (url : str) : str := flat_map url_piece url.

Lemma url_inner_closed url : closed_piece (url_inner url).
Proof. apply closed_flat_map, url_piece_closed. Qed.

Lemma repr_of_escaped url :
  py_repr isp (html_escape_std url) = 39%N :: url_inner url ++ [39%N].
Proof.
  unfold py_repr.
  destruct (html_escape_std_closed url) as (_ & Q & _).
  rewrite (repr_quote_no_quote _ Q). cbv zeta.
  rewrite html_escape_std_pointwise, flat_map_flat_map. reflexivity.
Qed.

(* what render puts into the url field: depends on the translator's flag *)
Lemma url_text_eq url : url_text isp url = 39%N :: url_inner url ++ [39%N].
Proof.
  unfold url_text.
  change Gen.ctx_url_is_repr_of_escaped with true.     (* re-checked against error_render.py on every build *)
  cbv iota. apply repr_of_escaped.
Qed.

(* the url field: no angle bracket, no double quote, every ampersand begins an
   entity, and the only single quotes are the two that repr puts around it *)
Lemma url_text_safe url :
  no_angle (url_text isp url) = true
  /\ amp_ok (url_text isp url) = true
  /\ (exists inner, url_text isp url = 39%N :: inner ++ [39%N] /\ no_quote inner = true).
Proof.
  rewrite url_text_eq. destruct (url_inner_closed url) as (A & Q & R).
  repeat split.
  - unfold no_angle in *. cbn [forallb]. rewrite forallb_app, A. reflexivity.
  - cbn [amp_ok]. change (N.eqb 39 38) with false. cbv iota. rewrite R. reflexivity.
  - exists (url_inner url). split; [reflexivity | exact Q].
Qed.

(* ------------------------------------------------------------------ *)
(* the page = pre ++ url field ++ post                                 *)
(* ------------------------------------------------------------------ *)

Lemma fill_app t1 t2 ctx :
  fill (t1 ++ t2) ctx =
  match fill t1 ctx, fill t2 ctx with Some a, Some b => Some (a ++ b) | _, _ => None end.
Proof.
  induction t1 as [|[s|n] t1 IH]; simpl.
  - destruct (fill t2 ctx); reflexivity.
  - rewrite IH. destruct (fill t1 ctx), (fill t2 ctx); simpl; try reflexivity. now rewrite app_assoc.
  - rewrite IH. destruct (ctx n), (fill t1 ctx), (fill t2 ctx); simpl; try reflexivity. now rewrite app_assoc.
Qed.

(* split a template at the first occurrence of a field *)
Fixpoint split_at_field (name : str) (t : list Gen.tseg) : option (list Gen.tseg * list Gen.tseg) :=
  match t with
  | [] => None
  | Gen.TLit s :: r =>
    match split_at_field name r with Some (a, b) => Some (Gen.TLit s :: a, b) | None => None end
  | Gen.TField n :: r =>
    if str_eqb n name then Some ([], r)
    else match split_at_field name r with Some (a, b) => Some (Gen.TField n :: a, b) | None => None end
  end.

Definition tpl_pre : list Gen.tseg :=
  match split_at_field f_url Gen.error_template with Some (a, _) => a | None => [] end.
Definition tpl_post : list Gen.tseg :=
  match split_at_field f_url Gen.error_template with Some (_, b) => b | None => [] end.

(* re-checked against error.html on every build *)
Lemma template_split : Gen.error_template = tpl_pre ++ Gen.TField f_url :: tpl_post.
Proof. vm_compute. reflexivity. Qed.

(* text before / after the url field: functions of the error object alone.
   The url argument of the context is the empty string here. *)
Definition fill_or_nil (t : list Gen.tseg) (ctx : str -> option str) : str :=
  match fill t ctx with Some s => s | None => [] end.
Definition html_pre (e : err) : str :=
  fill_or_nil tpl_pre (ctx_of e [] Gen.ctx_forbidden_text Gen.ctx_forbidden_text).
Definition html_post (e : err) : str :=
  fill_or_nil tpl_post (ctx_of e [] Gen.ctx_forbidden_text Gen.ctx_forbidden_text).

(* the url field does not occur in pre or post: filling them does not look at it *)
Lemma fill_pre e u :
  fill tpl_pre (ctx_of e u Gen.ctx_forbidden_text Gen.ctx_forbidden_text) = Some (html_pre e).
Proof. destruct e as [st bd x tb]. vm_compute. reflexivity. Qed.

Lemma fill_post e u :
  fill tpl_post (ctx_of e u Gen.ctx_forbidden_text Gen.ctx_forbidden_text) = Some (html_post e).
Proof. destruct e as [st bd x tb]. vm_compute. reflexivity. Qed.

Lemma ctx_url e u ex tb : ctx_of e u ex tb f_url = Some u.
Proof. reflexivity. Qed.

Lemma render_nodebug e url :
  render isp e url false = Some (html_pre e ++ url_text isp url ++ html_post e).
Proof.
  unfold render.
  change Gen.ctx_hides_when_not_debug with true.       (* re-checked against error_render.py on every build *)
  cbv [orb negb]. cbv iota.
  rewrite template_split, fill_app. cbn [fill]. rewrite ctx_url, fill_pre, fill_post. reflexivity.
Qed.

(* debug off: exception and traceback are not part of the page at all *)
Lemma render_nodebug_ignores_exception e url x tb :
  render isp (mkErr (e_status e) (e_body e) x tb) url false = render isp e url false.
Proof.
  rewrite !render_nodebug. destruct e as [st bd x0 tb0]. reflexivity.
Qed.

(* ------------------------------------------------------------------ *)
(* with a plain status line and body, the page's markup is the template's *)
(* ------------------------------------------------------------------ *)

Definition angles (s : str) : str := filter is_angle s.
Definition dquotes (s : str) : str := filter (fun c => N.eqb c 34) s.

Definition amp_closed (p : str) : Prop := forall r, amp_ok (p ++ r) = amp_ok r.

Lemma amp_closed_no_amp p : forallb (fun c => negb (N.eqb c 38)) p = true -> amp_closed p.
Proof.
  intros H r. induction p as [|c p IH]; simpl in *; [reflexivity|].
  apply andb_true_iff in H. destruct H as [Hc Hp]. apply negb_true_iff in Hc. rewrite Hc. simpl. auto.
Qed.

Lemma amp_closed_app p q : amp_closed p -> amp_closed q -> amp_closed (p ++ q).
Proof. intros Hp Hq r. now rewrite <- app_assoc, Hp, Hq. Qed.

Lemma markup_free_no_amp s : markup_free s = true -> forallb (fun c => negb (N.eqb c 38)) s = true.
Proof.
  unfold markup_free. induction s as [|c s IH]; simpl; [reflexivity|].
  intros H. apply andb_true_iff in H. destruct H as [Hc Hs]. rewrite (IH Hs).
  apply negb_true_iff in Hc. apply orb_false_iff in Hc. destruct Hc as [_ Hc]. now rewrite Hc.
Qed.

Lemma markup_free_angles s : markup_free s = true -> angles s = [].
Proof.
  unfold markup_free, angles. induction s as [|c s IH]; simpl; [reflexivity|].
  intros H. apply andb_true_iff in H. destruct H as [Hc Hs]. rewrite (IH Hs).
  apply negb_true_iff in Hc. apply orb_false_iff in Hc. destruct Hc as [Hc _].
  apply orb_false_iff in Hc. destruct Hc as [Hc _]. now rewrite Hc.
Qed.

Lemma markup_free_dquotes s : markup_free s = true -> dquotes s = [].
Proof.
  unfold markup_free, dquotes. induction s as [|c s IH]; simpl; [reflexivity|].
  intros H. apply andb_true_iff in H. destruct H as [Hc Hs]. rewrite (IH Hs).
  apply negb_true_iff in Hc. apply orb_false_iff in Hc. destruct Hc as [Hc _].
  apply orb_false_iff in Hc. destruct Hc as [_ Hc]. unfold is_quote in Hc.
  apply orb_false_iff in Hc. destruct Hc as [Hc _]. now rewrite Hc.
Qed.

Lemma no_angle_angles s : no_angle s = true -> angles s = [].
Proof.
  unfold no_angle, angles. induction s as [|c s IH]; simpl; [reflexivity|].
  intros H. apply andb_true_iff in H. destruct H as [Hc Hs]. rewrite (IH Hs).
  apply negb_true_iff in Hc. now rewrite Hc.
Qed.

Lemma no_quote_dquotes s : no_quote s = true -> dquotes s = [].
Proof.
  unfold no_quote, dquotes. induction s as [|c s IH]; simpl; [reflexivity|].
  intros H. apply andb_true_iff in H. destruct H as [Hc Hs]. rewrite (IH Hs).
  apply negb_true_iff in Hc. unfold is_quote in Hc. apply orb_false_iff in Hc. destruct Hc as [Hc _].
  now rewrite Hc.
Qed.

(* the static text of a template *)
Fixpoint literals (t : list Gen.tseg) : str :=
  match t with
  | [] => []
  | Gen.TLit s :: r => s ++ literals r
  | Gen.TField _ :: r => literals r
  end.

(* filling a template with texts that carry no markup keeps the template's
   angle brackets and double quotes, in order, and adds none *)
Lemma fill_keeps_markup t ctx page :
  (forall n v, ctx n = Some v -> angles v = [] /\ dquotes v = [] /\ amp_closed v) ->
  forallb (fun c => negb (N.eqb c 38)) (literals t) = true ->
  fill t ctx = Some page ->
  angles page = angles (literals t) /\ dquotes page = dquotes (literals t) /\ amp_closed page.
Proof.
  intros Hctx. revert page. induction t as [|[s|n] t IH]; intros page Hl Hf; simpl in *.
  - injection Hf as <-. repeat split.
  - rewrite forallb_app in Hl. apply andb_true_iff in Hl. destruct Hl as [Hs Ht].
    destruct (fill t ctx) as [w|] eqn:Ew; [|discriminate]. injection Hf as <-.
    destruct (IH w Ht eq_refl) as (I1 & I2 & I3). unfold angles, dquotes in *.
    rewrite !filter_app, I1, I2. repeat split.
    apply amp_closed_app; [now apply amp_closed_no_amp | exact I3].
  - destruct (ctx n) as [v|] eqn:Ev; [|discriminate].
    destruct (fill t ctx) as [w|] eqn:Ew; [|discriminate]. injection Hf as <-.
    destruct (Hctx n v Ev) as (V1 & V2 & V3).
    destruct (IH w Hl eq_refl) as (I1 & I2 & I3). unfold angles, dquotes in *.
    rewrite !filter_app, V1, V2, I1, I2. repeat split. now apply amp_closed_app.
Qed.

(* re-checked against error.html on every build: the static text has no ampersand *)
Lemma template_no_amp : forallb (fun c => negb (N.eqb c 38)) (literals Gen.error_template) = true.
Proof. vm_compute. reflexivity. Qed.

Lemma forbidden_plain : markup_free Gen.ctx_forbidden_text = true.
Proof. vm_compute. reflexivity. Qed.

Lemma plain_value v : markup_free v = true -> angles v = [] /\ dquotes v = [] /\ amp_closed v.
Proof.
  intros H. repeat split; [now apply markup_free_angles | now apply markup_free_dquotes |].
  apply amp_closed_no_amp. now apply markup_free_no_amp.
Qed.

Lemma url_value url : angles (url_text isp url) = [] /\ dquotes (url_text isp url) = [] /\ amp_closed (url_text isp url).
Proof.
  rewrite url_text_eq. destruct (url_inner_closed url) as (A & Q & R).
  repeat split.
  - apply no_angle_angles. unfold no_angle in *. cbn [forallb]. rewrite forallb_app, A. reflexivity.
  - change (39%N :: url_inner url ++ [39%N]) with ([39%N] ++ url_inner url ++ [39%N]).
    unfold dquotes. rewrite !filter_app. fold (dquotes (url_inner url)).
    rewrite (no_quote_dquotes _ Q). reflexivity.
  - intros r. cbn [app amp_ok]. change (N.eqb 39 38) with false. cbv iota.
    rewrite <- app_assoc, R. reflexivity.
Qed.

Lemma page_markup_is_templates e url :
  markup_free (e_status e) = true -> markup_free (e_body e) = true ->
  exists page,
    render isp e url false = Some page
    /\ angles page = angles (literals Gen.error_template)
    /\ dquotes page = dquotes (literals Gen.error_template)
    /\ amp_ok page = true.
Proof.
  intros Hs Hb. rewrite render_nodebug. eexists. split; [reflexivity|].
  pose proof (render_nodebug e url) as Hr. unfold render in Hr.
  change Gen.ctx_hides_when_not_debug with true in Hr. cbv [orb negb] in Hr. cbv iota in Hr.
  assert (Hctx : forall n v,
             ctx_of e (url_text isp url) Gen.ctx_forbidden_text Gen.ctx_forbidden_text n = Some v ->
             angles v = [] /\ dquotes v = [] /\ amp_closed v).
  { unfold ctx_of. intros n v Hn.
    destruct (str_eqb n f_status); [injection Hn as <-; now apply plain_value|].
    destruct (str_eqb n f_body); [injection Hn as <-; now apply plain_value|].
    destruct (str_eqb n f_url); [injection Hn as <-; apply url_value|].
    destruct (str_eqb n f_exception); [injection Hn as <-; apply plain_value, forbidden_plain|].
    destruct (str_eqb n f_traceback); [injection Hn as <-; apply plain_value, forbidden_plain|].
    discriminate. }
  destruct (fill_keeps_markup _ _ _ Hctx template_no_amp Hr) as (A & Q & R).
  split; [exact A|]. split; [exact Q|]. specialize (R []). rewrite app_nil_r in R. exact R.
Qed.

(* ------------------------------------------------------------------ *)
(* the last-resort page                                                *)
(* ------------------------------------------------------------------ *)

Definition safe_text (s : str) : Prop := no_angle s = true /\ no_quote s = true /\ amp_ok s = true.

Lemma escaped_safe s : safe_text (html_escape_ombott s).
Proof. destruct (escape_safe_ombott s) as (A & Q & R). now repeat split. Qed.

Lemma critical_page_shape path_info debug x tb :
  critical_page isp path_info debug x tb
  = crit_head
    ++ html_escape_ombott (match path_info with Some p => p | None => crit_default_path end)
    ++ crit_head_end
    ++ (if debug then crit_err_open ++ html_escape_ombott (repr_exc isp x) ++ crit_tb_open
                      ++ html_escape_ombott tb ++ crit_close
        else []).
Proof. reflexivity. Qed.

Lemma critical_page_safe_lemma path_info debug x tb :
    critical_page isp path_info debug x tb
    = crit_head
      ++ html_escape_ombott (match path_info with Some p => p | None => crit_default_path end)
      ++ crit_head_end
      ++ (if debug then crit_err_open ++ html_escape_ombott (repr_exc isp x) ++ crit_tb_open
                        ++ html_escape_ombott tb ++ crit_close
          else [])
    /\ forall s, no_angle (html_escape_ombott s) = true /\ no_quote (html_escape_ombott s) = true
                 /\ amp_ok (html_escape_ombott s) = true.
Proof. split; [apply critical_page_shape | apply escaped_safe]. Qed.

Lemma html_safe_lemma e url :
    render isp e url false = Some (html_pre e ++ url_text isp url ++ html_post e)
    /\ no_angle (url_text isp url) = true
    /\ amp_ok (url_text isp url) = true
    /\ exists inner, url_text isp url = 39%N :: inner ++ [39%N] /\ no_quote inner = true.
Proof. split; [apply render_nodebug|]. destruct (url_text_safe url) as (A & B & C). auto. Qed.

End Table.

(* ------------------------------------------------------------------ *)
(* the framework's own errors have plain status lines and bodies        *)
(* ------------------------------------------------------------------ *)

Definition not_type_kind (k : kind) : bool := match k with K500_type _ => false | _ => true end.

Lemma status_lines_plain : forallb (fun p => markup_free (snd p)) status_lines = true.
Proof. vm_compute. reflexivity. Qed.

(* re-checked against DefaultConfig.errors_map on every build *)
Lemma errors_map_plain : forallb (fun p => markup_free (snd (snd p))) Gen.errors_map = true.
Proof. vm_compute. reflexivity. Qed.

Lemma assocZ_in {A} k (l : list (Z * A)) v : assocZ k l = Some v -> In (k, v) l.
Proof.
  induction l as [|[k' v'] l IH]; simpl; [discriminate|].
  destruct (Z.eqb_spec k k') as [->|]; [intros [= ->]; now left | intros H; right; auto].
Qed.

Lemma http_error_plain code body x tb e :
  markup_free body = true -> http_error code body x tb = Some e ->
  markup_free (e_status e) = true /\ markup_free (e_body e) = true.
Proof.
  unfold http_error. intros Hb. destruct (assocZ code status_lines) as [line|] eqn:E; [|discriminate].
  intros [= <-]. simpl. split; [|exact Hb].
  apply assocZ_in in E. pose proof status_lines_plain as P. rewrite forallb_forall in P. exact (P _ E).
Qed.

Lemma framework_errors_plain k x tb e :
  not_type_kind k = true -> err_of_kind k x tb = Some e ->
  markup_free (e_status e) = true /\ markup_free (e_body e) = true.
Proof.
  intros Hk. destruct k; simpl; try discriminate Hk;
    try (apply http_error_plain; vm_compute; reflexivity).
  destruct (nth_error Gen.errors_map i) as [[c [code body]]|] eqn:E; [|discriminate].
  apply http_error_plain. apply nth_error_In in E.
  pose proof errors_map_plain as P. rewrite forallb_forall in P. exact (P _ E).
Qed.

(* the unsupported-type body is NOT plain: it shows str(type(x)), which Python writes with angle brackets *)
Lemma type_body_has_markup :
  exists ty e, err_of_kind (K500_type ty) ExcNone None = Some e /\ markup_free (e_body e) = false.
Proof.
  exists [60; 99; 108; 97; 115; 115; 32; 39; 105; 110; 116; 39; 62]%N. eexists. split; [reflexivity|].
  vm_compute. reflexivity.
Qed.
