(* C07_roundtrip.v — FieldStorage.read / iter_items on the sections of the
   encoded form, the POST collection, and the composed round trip. *)
From Verif Require Import lib.Base lib.ListX lib.Str lib.Utf8 model.MultipartRef model.Fields.
From Verif Require Import proofs.C07_fields proofs.C07_spec proofs.C07_ref.
Local Open Scope N_scope.

Definition H_cd (n : str) : header := mkHeader s_content_disposition s_form_data [(s_name, Some n)].
Definition H_cd_file (n fn : str) : header :=
  mkHeader s_content_disposition s_form_data [(s_name, Some n); (s_filename, Some fn)].
Definition H_ct (ct : str) : header := mkHeader s_content_type ct [].

(* the FieldStorage object expected for a submitted field whose data section is [ds, de) *)
Definition field_of (f : fld) (ds de : nat) : field :=
  match f with
  | FText n v => mkField n (Some v) None None None [H_cd n]
  | FFile n fn ct _ =>
    mkField n None (Some fn) (Some (Z.of_nat ds, Z.of_nat de)) (Some ct) [H_cd_file n fn; H_ct ct]
  end.

Lemma read_headers_text n :
  lacks QUOTE n ->
  read_headers [cd_line n] None None None [] = Some (Some n, None, None, [H_cd n]).
Proof. intros H. cbn [read_headers]. rewrite (parse_header_cd n H). reflexivity. Qed.

Lemma read_headers_file n fn ct :
  lacks QUOTE n -> lacks QUOTE fn -> ctype_ok ct ->
  read_headers [cd_line_file n fn; ct_line ct] None None None []
  = Some (Some n, Some fn, Some ct, [H_cd_file n fn; H_ct ct]).
Proof.
  intros H H' Hc. cbn [read_headers].
  rewrite (parse_header_cd_file n fn H H'). cbn [h_name H_cd_file].
  change (str_eqb s_content_disposition s_content_disposition) with true. cbn iota.
  rewrite (parse_header_ct ct Hc). reflexivity.
Qed.

Lemma read_at_slice (p x r : bytes) :
  read_at (p ++ x ++ r) (Z.of_nat (length p)) (Z.of_nat (length x)) = x.
Proof.
  unfold read_at. destruct (Z.ltb_spec (Z.of_nat (length x)) 0) as [Hn|_]; [lia|].
  rewrite !Nat2Z.id. rewrite (skipn_app_len p _ _ eq_refl). apply firstn_app_len. reflexivity.
Qed.

Lemma utf8_enc_str_nil s : utf8_enc_str s = [] -> s = [].
Proof.
  destruct s as [|c s]; [reflexivity|]. unfold utf8_enc_str. simpl. intros H.
  apply app_eq_nil in H. destruct H as [H _]. now apply utf8_enc_nonempty in H.
Qed.

Lemma splitlines_hdr f :
  fld_ok f ->
  splitlines (hdr_text f)
  = match f with
    | FText n _ => [cd_line n]
    | FFile n fn ct _ => [cd_line_file n fn; ct_line ct]
    end.
Proof.
  destruct f as [n v | n fn ct c]; unfold hdr_text.
  - intros [(Hq & Hl & _) _]. apply splitlines_single; [now apply no_linebreak_cd_line|].
    unfold cd_line, cd_prefix. discriminate.
  - intros ((Hq & Hl & _) & (Hq' & Hl' & _) & _ & _ & Hlc & _).
    change (cd_line_file n fn ++ [13; 10] ++ ct_line ct) with (cd_line_file n fn ++ 13 :: 10 :: ct_line ct).
    rewrite splitlines_line_crlf by (now apply no_linebreak_cd_line_file).
    rewrite splitlines_single; [reflexivity | now apply no_linebreak_ct_line |].
    unfold ct_line, ct_prefix. discriminate.
Qed.

Lemma scalars_hdr f : fld_ok f -> Forall scalar (hdr_text f).
Proof.
  assert (Lit : forall l : str, forallb scalarb l = true -> Forall scalar l).
  { intros l H. apply Forall_forall. intros x Hx. apply scalarb_spec.
    rewrite forallb_forall in H. auto. }
  destruct f as [n v | n fn ct c]; unfold hdr_text, cd_line, cd_line_file, ct_line.
  - intros [(_ & _ & Hs) _]. repeat (apply Forall_app; split); try exact Hs; now apply Lit.
  - intros ((_ & _ & Hs) & (_ & _ & Hs') & _ & _ & _ & Hsc).
    repeat (apply Forall_app; split); try assumption; now apply Lit.
Qed.

(* FieldStorage.read on one part of the encoded form *)
Lemma field_read_part (f : fld) (pre rest : bytes) (max_read : Z) :
  fld_ok f -> (cost f <= max_read)%Z ->
  let hs := (length pre + 2)%nat in
  let he := (hs + length (hdr_bytes f))%nat in
  let ds := (he + 4)%nat in
  let de := (ds + length (data_bytes f))%nat in
  field_read (pre ++ CRLF ++ hdr_bytes f ++ H4 ++ data_bytes f ++ rest)
             (Z.of_nat hs, Z.of_nat he) (Z.of_nat ds, Z.of_nat de) max_read
  = inl (field_of f ds de, cost f).
Proof.
  intros Hok Hcost hs he ds de. unfold field_read.
  assert (Esz : (Z.of_nat he - Z.of_nat hs = Z.of_nat (length (hdr_bytes f)))%Z) by (unfold he; lia).
  rewrite Esz.
  assert (Hc1 : (Z.of_nat (length (hdr_bytes f)) <= cost f)%Z) by (destruct f; unfold cost; lia).
  destruct (Z.ltb_spec max_read (Z.of_nat (length (hdr_bytes f)))) as [Hlt|_]; [lia|].
  destruct (Z.ltb_spec (Z.of_nat hs) 0) as [Hlt|_]; [lia|].
  (* the header block *)
  assert (R1 : read_at (pre ++ CRLF ++ hdr_bytes f ++ H4 ++ data_bytes f ++ rest)
                 (Z.of_nat hs) (Z.of_nat (length (hdr_bytes f))) = hdr_bytes f).
  { rewrite (app_assoc pre CRLF). replace hs with (length (pre ++ CRLF)) by (rewrite app_length; reflexivity).
    apply read_at_slice. }
  rewrite R1. unfold hdr_bytes at 1. rewrite (utf8_dec_enc _ (scalars_hdr f Hok)).
  rewrite (splitlines_hdr f Hok).
  (* the data section *)
  assert (R2 : read_at (pre ++ CRLF ++ hdr_bytes f ++ H4 ++ data_bytes f ++ rest)
                 (Z.of_nat ds) (Z.of_nat (length (data_bytes f))) = data_bytes f).
  { rewrite (app_assoc pre CRLF), (app_assoc (pre ++ CRLF)), (app_assoc ((pre ++ CRLF) ++ hdr_bytes f)).
    replace ds with (length (((pre ++ CRLF) ++ hdr_bytes f) ++ H4)).
    - apply read_at_slice.
    - rewrite !app_length. unfold ds, he, hs. simpl length. lia. }
  assert (Edz : (Z.of_nat de - Z.of_nat ds = Z.of_nat (length (data_bytes f)))%Z) by (unfold de; lia).
  destruct f as [n v | n fn ct c].
  - destruct Hok as [(Hq & Hl & Hs) Hv].
    rewrite (read_headers_text n Hq). cbn iota beta. rewrite Edz.
    destruct (Z.eqb_spec (Z.of_nat (length (data_bytes (FText n v)))) 0) as [E0|Hn0].
    + assert (Ev : v = []).
      { apply utf8_enc_str_nil. change (utf8_enc_str v) with (data_bytes (FText n v)).
        destruct (data_bytes (FText n v)); [reflexivity | simpl in E0; lia]. }
      subst v. unfold field_of, cost. cbn [data_bytes utf8_enc_str flat_map length Z.of_nat].
      rewrite Z.add_0_r. reflexivity.
    + unfold cost in Hcost.
      destruct (Z.ltb_spec max_read (Z.of_nat (length (hdr_bytes (FText n v)))
                                     + Z.of_nat (length (data_bytes (FText n v))))) as [Hlt|_]; [lia|].
      destruct (Z.ltb_spec (Z.of_nat ds) 0) as [Hlt|_]; [lia|].
      rewrite R2. cbn [data_bytes]. rewrite (utf8_dec_enc v Hv). reflexivity.
  - destruct Hok as ((Hq & Hl & Hs) & (Hq' & Hl' & Hs') & Hne & Hc & Hlc & Hsc).
    rewrite (read_headers_file n fn ct Hq Hq' Hc). reflexivity.
Qed.

(* the FieldStorage objects of the whole form *)
Fixpoint fields_from (B : bytes) (a : nat) (fs : list fld) : list field :=
  match fs with
  | [] => []
  | f :: r =>
    let hs := (a + 2)%nat in
    let he := (hs + length (hdr_bytes f))%nat in
    let ds := (he + 4)%nat in
    let de := (ds + length (data_bytes f))%nat in
    field_of f ds de :: fields_from B (de + length (token B))%nat r
  end.

Lemma total_cost_cons f fs : total_cost (f :: fs) = (cost f + total_cost fs)%Z.
Proof. reflexivity. Qed.

Lemma cost_nonneg f : (0 <= cost f)%Z.
Proof. destruct f; unfold cost; lia. Qed.

Lemma total_cost_nonneg fs : (0 <= total_cost fs)%Z.
Proof. induction fs as [|f fs IH]; [reflexivity|]. rewrite total_cost_cons. pose proof (cost_nonneg f). lia. Qed.

Lemma iter_pairs_enc B fs :
  Forall fld_ok fs ->
  forall pre acc mem, (total_cost fs <= mem)%Z ->
    iter_pairs (pre ++ enc_rest B fs) (secs_from B (length pre) fs) mem acc
    = IOk (rev acc ++ fields_from B (length pre) fs).
Proof.
  induction fs as [|f fs IH]; intros Hok pre acc mem Hc.
  - cbn [secs_from iter_pairs fields_from]. now rewrite app_nil_r.
  - inversion Hok as [|f' fs' Hf Hrest]; subst.
    rewrite total_cost_cons in Hc. pose proof (total_cost_nonneg fs) as Hnn.
    cbn [secs_from fields_from enc_rest]. unfold sec. cbn [iter_pairs].
    rewrite (field_read_part f pre (token B ++ enc_rest B fs) mem Hf) by lia.
    set (pre' := pre ++ CRLF ++ hdr_bytes f ++ H4 ++ data_bytes f ++ token B).
    assert (Lp : length pre' = (length pre + 2 + length (hdr_bytes f) + 4 + length (data_bytes f)
                                + length (token B))%nat).
    { unfold pre'. rewrite !app_length. simpl length. lia. }
    assert (Eb : pre ++ CRLF ++ hdr_bytes f ++ H4 ++ data_bytes f ++ token B ++ enc_rest B fs
                 = pre' ++ enc_rest B fs).
    { unfold pre'. repeat rewrite <- app_assoc. reflexivity. }
    rewrite Eb, <- Lp. rewrite (IH Hrest pre') by lia.
    cbn [rev]. rewrite <- app_assoc. reflexivity.
Qed.

Lemma parts_ok_fld_ok B fs : parts_ok B fs -> Forall fld_ok fs.
Proof. intros H. eapply Forall_impl; [|exact H]. intros f [Hf _]. exact Hf. Qed.

(* Request.POST on the encoded form: the FieldStorage objects, collected *)
Theorem post_enc_form B fs mem :
  parts_ok B fs -> (total_cost fs <= mem)%Z ->
  post B (enc_form B fs) mem
  = POk (collect_fields (fields_from B (length (dash_boundary B)) fs)).
Proof.
  intros Hok Hc. unfold post, post_of_markup, ref_obs. rewrite (ref_enc_form B fs Hok).
  cbn [fst snd final_error]. unfold iter_items, sec. cbn iota.
  change (0 <? Z.of_nat 0)%Z with false. cbn iota.
  rewrite enc_form_rest.
  rewrite (iter_pairs_enc B fs (parts_ok_fld_ok B fs Hok) (dash_boundary B) [] mem Hc).
  reflexivity.
Qed.

(* ------------------------------------------------------------------ *)
(* concrete instances (vm_compute): non-vacuity, and the recorded finding F10 *)
Definition ex_B : bytes := [88; 121; 90].                       (* XyZ *)
Definition ex_fields : list fld :=
  [ FText [97; 59; 98] [118; 233];                              (* name a;b   value v e-acute *)
    FFile [102] [110; 97; 59; 109; 101; 46; 116; 120; 116] [116; 101; 120; 116; 47; 112; 108; 97; 105; 110]
          [13; 10; 45; 45; 88; 121; 255];                       (* f, na;me.txt, text/plain, CRLF--Xy\xff *)
    FText [97; 59; 98] [] ].

Lemma ex_view :
  match post ex_B (enc_form ex_B ex_fields) 1000 with
  | POk d => view (enc_form ex_B ex_fields) d = Some (expected ex_fields)
  | _ => False
  end.
Proof. vm_compute. reflexivity. Qed.

(* executable versions of the guards (used for concrete instances) *)
Definition scalarsb (s : str) : bool := forallb scalarb s.
Definition name_okb (s : str) : bool :=
  forallb (fun x => negb (N.eqb x QUOTE)) s && forallb (fun c => negb (is_linebreak c)) s && scalarsb s.
Definition ctype_okb (ct : str) : bool :=
  forallb (fun x => negb (N.eqb x SEMI)) ct && forallb (fun x => negb (N.eqb x EQ)) ct && str_eqb (strip ct) ct.
Definition fld_okb (f : fld) : bool :=
  match f with
  | FText n v => name_okb n && scalarsb v
  | FFile n fn ct _ =>
    name_okb n && name_okb fn && negb (match fn with [] => true | _ => false end) && ctype_okb ct
    && forallb (fun c => negb (is_linebreak c)) ct && scalarsb ct
  end.
Definition no_delimb (B : bytes) (f : fld) : bool :=
  match findb (token B) (data_bytes f ++ token B) with
  | Some k => Nat.eqb k (length (data_bytes f))
  | None => false
  end.
Definition parts_okb (B : bytes) (fs : list fld) : bool := forallb (fun f => fld_okb f && no_delimb B f) fs.

Lemma scalarsb_sound s : scalarsb s = true -> scalars s.
Proof.
  intros H. apply Forall_forall. intros x Hx. apply scalarb_spec.
  unfold scalarsb in H. rewrite forallb_forall in H. auto.
Qed.

Lemma name_okb_sound s : name_okb s = true -> name_ok s.
Proof.
  unfold name_okb, name_ok, lacks, no_linebreak. rewrite !andb_true_iff.
  intros [[H1 H2] H3]. repeat split; auto using scalarsb_sound.
Qed.

Lemma fld_okb_sound f : fld_okb f = true -> fld_ok f.
Proof.
  destruct f as [n v | n fn ct c]; cbn [fld_okb fld_ok]; rewrite !andb_true_iff.
  - intros [H1 H2]. split; auto using name_okb_sound, scalarsb_sound.
  - intros [[[[[H1 H2] H3] H4] H5] H6].
    apply name_okb_sound in H1, H2.
    unfold ctype_okb in H4. rewrite !andb_true_iff in H4. destruct H4 as [[Hc1 Hc2] Hc3].
    apply str_eqb_eq in Hc3.
    split; [exact H1|]. split; [exact H2|].
    split; [destruct fn; [discriminate H3 | discriminate]|].
    split; [unfold ctype_ok, lacks; repeat split; assumption|].
    split; [exact H5 | now apply scalarsb_sound].
Qed.

Lemma parts_okb_sound B fs : parts_okb B fs = true -> parts_ok B fs.
Proof.
  unfold parts_okb, parts_ok. rewrite forallb_forall. intros H. apply Forall_forall. intros f Hf.
  specialize (H f Hf). apply andb_true_iff in H. destruct H as [H1 H2]. split; [now apply fld_okb_sound|].
  unfold no_delimb in H2. unfold no_delim_in_data.
  destruct (findb (token B) (data_bytes f ++ token B)) as [k|]; [|discriminate].
  apply Nat.eqb_eq in H2. now subst k.
Qed.

Lemma ex_parts_ok : parts_ok ex_B ex_fields /\ (total_cost ex_fields <= 1000)%Z.
Proof.
  split; [apply parts_okb_sound; vm_compute; reflexivity | vm_compute; discriminate].
Qed.

(* F10: an upload with an empty file name is delivered as the form value None *)
Lemma F10_empty_filename :
  exists B f, (match f with FFile _ fn _ _ => fn = [] | _ => False end) /\
    match post B (enc_form B [f]) 1000 with
    | POk d => d_files d = [] /\ d_forms d = [(fld_name f, Single (IText None))]
    | _ => False
    end.
Proof.
  exists ex_B, (FFile [120] [] [116; 101; 120; 116; 47; 112; 108; 97; 105; 110] [68; 65; 84; 65]).
  split; [reflexivity|]. vm_compute. split; reflexivity.
Qed.
