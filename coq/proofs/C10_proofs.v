(* C10_proofs.v — instances are independent: what a thread reads from a
   thread-local property of an object is what that thread last wrote to that
   object.  Also the basic lemmas about TsProps.v shared with C08_proofs.v. *)
From Verif Require Import lib.Base model.TsProps.

(* ---- equality tests ---- *)

Lemma cls_eqb_spec a b : reflect (a = b) (cls_eqb a b).
Proof. destruct a, b; simpl; constructor; congruence. Qed.

Lemma obj_eqb_spec (a b : obj) : reflect (a = b) (obj_eqb a b).
Proof.
  destruct a as [c n], b as [c' n']; unfold obj_eqb; simpl.
  destruct (cls_eqb_spec c c') as [->|Hc]; simpl.
  - destruct (Nat.eqb_spec n n') as [->|Hn]; constructor; congruence.
  - constructor; congruence.
Qed.

Lemma obj_eqb_refl o : obj_eqb o o = true.
Proof. destruct (obj_eqb_spec o o); congruence. Qed.

Lemma cls_eqb_refl c : cls_eqb c c = true.
Proof. destruct c; reflexivity. Qed.

(* ---- what thread t reads from attribute a of object o in world w ---- *)

Definition reads (w : world) (o : obj) (t : tid) (a : attr) : result :=
  snd (step t (OGet o a) w).

Lemma reads_valid w o t a :
  a < nprops (fst o) ->
  reads w o t a =
  if slot w o then match cell w o t a with Some v => RVal v | None => unset_result (fst o) end
  else unset_result (fst o).
Proof.
  intros Ha. unfold reads, step, exec, sel_instance.
  apply Nat.ltb_lt in Ha. rewrite Ha. simpl.
  destruct (slot w o); [destruct (cell w o t a)|]; reflexivity.
Qed.

(* the effect of one event on what (t, o, a) reads next: only t's own
   prologue on o, t's own successful write to (o, a) and t's own successful
   delete of (o, a) matter *)
Definition upd_read (o : obj) (t : tid) (a : attr) (cur : result) (e : event) : result :=
  let '(t', p, r) := e in
  if Nat.eqb t' t then
    match p, r with
    | OPro o', _ => if obj_eqb o' o then RVal VNone else cur
    | OSet o' a' v, RUnit => if obj_eqb o' o && Nat.eqb a' a then RVal v else cur
    | ODel o' a', RUnit => if obj_eqb o' o && Nat.eqb a' a then unset_result (fst o) else cur
    | _, _ => cur
    end
  else cur.

Ltac crush_eq :=
  repeat match goal with
  | |- context [obj_eqb ?x ?y] => destruct (obj_eqb_spec x y); subst; simpl
  | |- context [Nat.eqb ?x ?y] => destruct (Nat.eqb_spec x y); subst; simpl
  | |- context [Nat.ltb ?x ?y] => destruct (Nat.ltb_spec x y); simpl
  | H : context [obj_eqb ?x ?y] |- _ => destruct (obj_eqb_spec x y); subst; simpl in H
  | H : context [Nat.eqb ?x ?y] |- _ => destruct (Nat.eqb_spec x y); subst; simpl in H
  end.

Lemma step_reads w t0 p w' r0 o t a :
  a < nprops (fst o) ->
  step t0 p w = (w', r0) ->
  reads w' o t a = upd_read o t a (reads w o t a) (t0, p, r0).
Proof.
  intros Ha Hs. rewrite !reads_valid by assumption.
  unfold step, exec, sel_instance in Hs. unfold upd_read.
  destruct p; simpl in Hs.
  - (* OPro *)
    injection Hs as <- <-. simpl.
    destruct (slot w o0) eqn:Hsl; simpl.
    + destruct (obj_eqb_spec o0 o) as [->|Hne]; simpl.
      * rewrite Hsl. destruct (Nat.eqb_spec t0 t) as [->|Hnt]; simpl.
        -- apply Nat.ltb_lt in Ha. rewrite Ha. reflexivity.
        -- reflexivity.
      * destruct (Nat.eqb t0 t); reflexivity.
    + destruct (obj_eqb_spec o0 o) as [->|Hne]; simpl.
      * rewrite ?obj_eqb_refl, ?Hsl. destruct (Nat.eqb_spec t0 t) as [->|Hnt]; simpl.
        -- apply Nat.ltb_lt in Ha. rewrite Ha. reflexivity.
        -- rewrite ?obj_eqb_refl. reflexivity.
      * destruct (obj_eqb_spec o0 o); [contradiction|].
        destruct (Nat.eqb t0 t); reflexivity.
  - (* OGet *)
    assert (w' = w) as ->.
    { destruct (negb (a0 <? nprops (fst o0))); [congruence|].
      destruct (slot w o0); [destruct (cell w o0 t0 a0)|]; congruence. }
    destruct (Nat.eqb t0 t); reflexivity.
  - (* OSet *)
    destruct (negb (a0 <? nprops (fst o0))).
    { injection Hs as <- <-. destruct (Nat.eqb t0 t); reflexivity. }
    destruct (slot w o0) eqn:Hsl.
    + injection Hs as <- <-. simpl.
      destruct (obj_eqb_spec o0 o) as [->|Hne]; simpl.
      * rewrite Hsl.
        destruct (Nat.eqb_spec t0 t) as [->|Hnt]; simpl; [|reflexivity].
        destruct (Nat.eqb_spec a0 a) as [->|Hna]; simpl; reflexivity.
      * destruct (Nat.eqb t0 t); reflexivity.
    + injection Hs as <- <-. destruct (Nat.eqb t0 t); reflexivity.
  - (* ODel *)
    destruct (negb (a0 <? nprops (fst o0))).
    { injection Hs as <- <-. destruct (Nat.eqb t0 t); reflexivity. }
    destruct (slot w o0) eqn:Hsl.
    + destruct (cell w o0 t0 a0) eqn:Hc.
      * injection Hs as <- <-. simpl.
        destruct (obj_eqb_spec o0 o) as [->|Hne]; simpl.
        -- rewrite Hsl.
           destruct (Nat.eqb_spec t0 t) as [->|Hnt]; simpl; [|reflexivity].
           destruct (Nat.eqb_spec a0 a) as [->|Hna]; simpl; reflexivity.
        -- destruct (Nat.eqb t0 t); reflexivity.
      * injection Hs as <- <-. destruct (Nat.eqb t0 t); reflexivity.
    + injection Hs as <- <-. destruct (Nat.eqb t0 t); reflexivity.
  - (* OHNew *)
    destruct (fst o0); injection Hs as <- <-; simpl; destruct (Nat.eqb t0 t); reflexivity.
  - (* OHGet *)
    assert (w' = w) as ->.
    { destruct (fst o0); [congruence|]. destruct (hcon w o0); [destruct (hdict w o0 t0)|]; congruence. }
    destruct (Nat.eqb t0 t); reflexivity.
  - (* OHSet *)
    destruct (fst o0); [injection Hs as <- <-; destruct (Nat.eqb t0 t); reflexivity|].
    destruct (hcon w o0); injection Hs as <- <-; simpl; destruct (Nat.eqb t0 t); reflexivity.
  - (* ODNew *)
    injection Hs as <- <-; simpl; destruct (Nat.eqb t0 t); reflexivity.
  - (* ODCopy *)
    destruct (nth_error (heap w t0) d); injection Hs as <- <-; simpl; destruct (Nat.eqb t0 t); reflexivity.
  - (* ODGet *)
    assert (w' = w) as ->.
    { destruct (nth_error (heap w t0) d) as [l|]; [destruct (d_get l k)|]; congruence. }
    destruct (Nat.eqb t0 t); reflexivity.
  - (* ODSet *)
    destruct (nth_error (heap w t0) d); injection Hs as <- <-; simpl; destruct (Nat.eqb t0 t); reflexivity.
  - (* ODClear *)
    destruct (nth_error (heap w t0) d); injection Hs as <- <-; simpl; destruct (Nat.eqb t0 t); reflexivity.
  - (* ODItems *)
    destruct (nth_error (heap w t0) d); injection Hs as <- <-; simpl; destruct (Nat.eqb t0 t); reflexivity.
  - (* OOut *)
    injection Hs as <- <-; destruct (Nat.eqb t0 t); reflexivity.
Qed.

(* ---- the theorem: every read returns the thread's own last write ---- *)

Lemma run_reads o t a (Ha : a < nprops (fst o)) :
  forall sched pl w pre r post,
    fst (run_fixed sched pl w) = pre ++ (t, OGet o a, r) :: post ->
    r = fold_left (upd_read o t a) pre (reads w o t a).
Proof.
  unfold run_fixed.
  induction sched as [|t0 s IH]; intros pl w pre r post Htr; simpl in Htr.
  - destruct pre; discriminate.
  - destruct (pl t0) as [|p k] eqn:Hp.
    + eapply IH; eassumption.
    + destruct (exec sel_instance t0 p w) as [w' r0] eqn:He.
      destruct (run sel_instance s (upd_pool t0 (k r0) pl) w') as [tr fin] eqn:Hr.
      simpl in Htr.
      destruct pre as [|e pre'].
      * simpl in Htr. injection Htr as Ht Hpp Hrr Htl. subst t0 p r0.
        simpl. unfold reads, step. rewrite He. reflexivity.
      * simpl in Htr. injection Htr as He' Htl. subst e.
        cbn [fold_left]. rewrite <- (step_reads w t0 p w' r0 o t a Ha He).
        eapply IH. rewrite Hr. simpl. exact Htl.
Qed.

Lemma C10_instance_independent_lemma :
  forall (sched : list tid) (pl : pool) (w0 : world) (o : obj) (t : tid) (a : attr),
    a < nprops (fst o) ->
    forall pre r post,
      fst (run_fixed sched pl w0) = pre ++ (t, OGet o a, r) :: post ->
      r = fold_left (upd_read o t a) pre (reads w0 o t a).
Proof. intros; eapply run_reads; eassumption. Qed.

(* an event that does not change what (t, o, a) reads: anything by another
   thread, anything on another object, anything that is not a prologue of o, a
   write to (o, a) or a delete of (o, a) *)
Definition keeps (o : obj) (t : tid) (a : attr) (e : event) : Prop :=
  let '(t', p, _) := e in
  t' <> t \/
  match p with
  | OPro o' => o' <> o
  | OSet o' a' _ => o' <> o \/ a' <> a
  | ODel o' a' => o' <> o \/ a' <> a
  | _ => True
  end.

Lemma keeps_upd o t a e cur : keeps o t a e -> upd_read o t a cur e = cur.
Proof.
  destruct e as [[t' p] r]. unfold keeps, upd_read.
  intros [Hn|Hk].
  - destruct (Nat.eqb_spec t' t); [contradiction|reflexivity].
  - destruct (Nat.eqb t' t); [|reflexivity].
    destruct p; try reflexivity.
    + destruct (obj_eqb_spec o0 o); [contradiction|reflexivity].
    + destruct r; try reflexivity.
      destruct (obj_eqb_spec o0 o); simpl; [|reflexivity].
      destruct (Nat.eqb_spec a0 a); [|reflexivity]. destruct Hk; contradiction.
    + destruct r; try reflexivity.
      destruct (obj_eqb_spec o0 o); simpl; [|reflexivity].
      destruct (Nat.eqb_spec a0 a); [|reflexivity]. destruct Hk; contradiction.
Qed.

Lemma fold_keeps o t a mid : Forall (keeps o t a) mid ->
  forall cur, fold_left (upd_read o t a) mid cur = cur.
Proof.
  induction 1 as [|e mid He _ IH]; intros cur; simpl; [reflexivity|].
  rewrite keeps_upd by assumption. apply IH.
Qed.

(* nested calls: thread t writes v to (A, a); then anything happens that is
   not t itself re-initialising A or overwriting / deleting (A, a) — whole
   requests of other applications on this thread, copies, constructions,
   anything at all on other threads (even on A); then t reads (A, a): it is v *)
Lemma C10_nested_calls_lemma :
  forall sched pl w0 (A : obj) t a v pre mid r post,
    a < nprops (fst A) ->
    fst (run_fixed sched pl w0) = pre ++ (t, OSet A a v, RUnit) :: mid ++ (t, OGet A a, r) :: post ->
    Forall (keeps A t a) mid ->
    r = RVal v.
Proof.
  intros sched pl w0 A t a v pre mid r post Ha Htr Hmid.
  assert (Htr' : fst (run_fixed sched pl w0)
                 = (pre ++ (t, OSet A a v, RUnit) :: mid) ++ (t, OGet A a, r) :: post).
  { rewrite Htr, <- app_assoc. reflexivity. }
  rewrite (C10_instance_independent_lemma _ _ _ _ _ _ Ha _ _ _ Htr').
  rewrite fold_left_app. simpl. rewrite fold_keeps by assumption.
  unfold upd_read. rewrite Nat.eqb_refl, obj_eqb_refl, Nat.eqb_refl. reflexivity.
Qed.

(* same for the value the prologue of __init__ leaves behind *)
Lemma C10_after_init_lemma :
  forall sched pl w0 (A : obj) t a r0 pre mid r post,
    a < nprops (fst A) ->
    fst (run_fixed sched pl w0) = pre ++ (t, OPro A, r0) :: mid ++ (t, OGet A a, r) :: post ->
    Forall (keeps A t a) mid ->
    r = RVal VNone.
Proof.
  intros sched pl w0 A t a r0 pre mid r post Ha Htr Hmid.
  assert (Htr' : fst (run_fixed sched pl w0)
                 = (pre ++ (t, OPro A, r0) :: mid) ++ (t, OGet A a, r) :: post).
  { rewrite Htr, <- app_assoc. reflexivity. }
  rewrite (C10_instance_independent_lemma _ _ _ _ _ _ Ha _ _ _ Htr').
  rewrite fold_left_app. simpl. rewrite fold_keeps by assumption.
  unfold upd_read. rewrite Nat.eqb_refl, obj_eqb_refl. reflexivity.
Qed.

(* ---- record of defect F13 (fixed): the accessor that reads the closure
        variable of the class.  [Init A; Set A x 1; Init B; Get A x] ---- *)

Definition f13_prog : prog :=
  Do (OPro (CReq, 0)) (fun _ =>
  Do (OSet (CReq, 0) a_env_get (VInt 1)) (fun _ =>
  Do (OPro (CReq, 1)) (fun _ =>
  Do (OGet (CReq, 0) a_env_get) (fun _ => Done)))).

Definition f13_pool : pool := upd_pool 0 f13_prog (fun _ => Done).

Definition last_result (tr : list event) : option result :=
  match rev tr with (_, _, r) :: _ => Some r | [] => None end.

Lemma f13_closure_variant_leaks :
  exists sched pl,
    last_result (fst (run sel_closure sched pl w_empty)) = Some (RVal VNone)
    /\ last_result (fst (run sel_instance sched pl w_empty)) = Some (RVal (VInt 1)).
Proof. exists [0; 0; 0; 0], f13_pool. vm_compute. split; reflexivity. Qed.

(* the statement of C10_nested_calls is false for the closure variant *)
Lemma f13_closure_variant_refutes_nested :
  exists sched pl w0 (A : obj) t a v pre mid r post,
    a < nprops (fst A) /\
    fst (run sel_closure sched pl w0) = pre ++ (t, OSet A a v, RUnit) :: mid ++ (t, OGet A a, r) :: post /\
    Forall (keeps A t a) mid /\
    r <> RVal v.
Proof.
  exists [0; 0; 0; 0], f13_pool, w_empty, (CReq, 0), 0, a_env_get, (VInt 1),
    [(0, OPro (CReq, 0), RUnit)], [(0, OPro (CReq, 1), RUnit)], (RVal VNone), [].
  split; [vm_compute; lia|].
  split; [vm_compute; reflexivity|].
  split.
  - constructor; [|constructor]. right. discriminate.
  - discriminate.
Qed.

(* ---- dicts: reads follow updates, and a copy is a different dict
        (Request.copy -> environ.copy(), HeaderDict.copy) ---- *)

Lemma d_get_set_same l k v : d_get (d_set l k v) k = Some v.
Proof.
  induction l as [|[k' v'] l IH]; simpl.
  - rewrite Nat.eqb_refl. reflexivity.
  - destruct (Nat.eqb_spec k k') as [->|Hn]; simpl.
    + rewrite Nat.eqb_refl. reflexivity.
    + destruct (Nat.eqb_spec k k'); [contradiction|]. exact IH.
Qed.

Lemma d_get_set_other l k v k' : k' <> k -> d_get (d_set l k v) k' = d_get l k'.
Proof.
  intros Hn. induction l as [|[k0 v0] l IH]; simpl.
  - destruct (Nat.eqb_spec k' k); [contradiction|reflexivity].
  - destruct (Nat.eqb_spec k k0) as [->|Hk]; simpl.
    + destruct (Nat.eqb_spec k' k0); [contradiction|reflexivity].
    + destruct (Nat.eqb_spec k' k0); [reflexivity|exact IH].
Qed.

Lemma nth_error_list_upd_other {A} (l : list A) n m x : m <> n -> nth_error (list_upd l n x) m = nth_error l m.
Proof.
  revert n m. induction l as [|y l IH]; intros [|n] [|m] Hn; simpl; try reflexivity; try congruence.
  apply IH. congruence.
Qed.

Lemma dict_reads_follow_updates_lemma :
  forall t w d k v w1 r,
    step t (ODSet d k v) w = (w1, r) -> r = RUnit ->
    snd (step t (ODGet d k) w1) = RVal v
    /\ (forall k', k' <> k -> snd (step t (ODGet d k') w1) = snd (step t (ODGet d k') w))
    /\ (forall d', d' <> d -> nth_error (heap w1 t) d' = nth_error (heap w t) d').
Proof.
  intros t w d k v w1 r Hs Hr. unfold step, exec in *.
  destruct (nth_error (heap w t) d) as [l|] eqn:Hd; [|injection Hs as <- <-; discriminate].
  injection Hs as <- _. simpl. rewrite Nat.eqb_refl.
  assert (Hnew : nth_error (list_upd (heap w t) d (d_set l k v)) d = Some (d_set l k v)).
  { clear -Hd. revert d Hd. induction (heap w t) as [|y h IH]; intros [|d] Hd; simpl in *; try discriminate.
    - reflexivity.
    - apply IH. exact Hd. }
  split; [|split].
  - rewrite Hnew, d_get_set_same. reflexivity.
  - intros k' Hk. rewrite Hnew, d_get_set_other by assumption. destruct (d_get l k'); reflexivity.
  - intros d' Hd'. apply nth_error_list_upd_other. assumption.
Qed.

Lemma copy_is_a_different_dict_lemma :
  forall t w d w1 d2,
    step t (ODCopy d) w = (w1, RVal (VRef d2)) ->
    d2 <> d
    /\ nth_error (heap w1 t) d2 = nth_error (heap w t) d
    /\ nth_error (heap w1 t) d = nth_error (heap w t) d
    /\ forall k v w2 r, step t (ODSet d2 k v) w1 = (w2, r) ->
         nth_error (heap w2 t) d = nth_error (heap w t) d.
Proof.
  intros t w d w1 d2 Hs. unfold step, exec in Hs.
  destruct (nth_error (heap w t) d) as [l|] eqn:Hd; [|discriminate].
  injection Hs as <- <-. simpl. rewrite Nat.eqb_refl.
  assert (Hlt : d < length (heap w t)) by (apply nth_error_Some; congruence).
  assert (Hne : length (heap w t) <> d) by lia.
  assert (H2 : nth_error (heap w t ++ [l]) (length (heap w t)) = Some l).
  { rewrite nth_error_app2 by lia. rewrite Nat.sub_diag. reflexivity. }
  assert (H1 : nth_error (heap w t ++ [l]) d = Some l).
  { rewrite nth_error_app1 by assumption. exact Hd. }
  split; [exact Hne|]. split; [exact H2|]. split; [exact H1|].
  intros k v w2 r Hs2. unfold step, exec in Hs2. simpl in Hs2. rewrite ?Nat.eqb_refl in Hs2.
  rewrite H2 in Hs2. injection Hs2 as <- _. simpl. rewrite ?Nat.eqb_refl.
  rewrite nth_error_list_upd_other by lia. exact H1.
Qed.
