(* C19_witness.v — concrete witnesses (computed) for the C19 findings, the
   record of the repaired defect F19path, and the non-vacuity examples. *)
From Verif Require Import lib.Base lib.Str lib.PyIntDec model.RouteSpec model.RouteUrl
     proofs.C19_spec proofs.C19_int.
Local Open Scope N_scope.

Definition no_rx (_ : fid) (_ : str) : option nat := None.
Definition id_fconv (s : str) : str := s.

(* ------------------------------------------------------------------ *)
(* rule /<x:int><y:int>, path "12-0": the url is "120"                 *)

Definition k_int (_ : fid) : fkind := KInt.
Definition pat_int_int : pat := [Wild (Some 0%nat); Wild (Some 0%nat)].
Definition names_xy : list str := [[120]; [121]].

Lemma int_adjacent_witness :
  let filt := handler k_int no_rx id_fconv in
  let p := [49; 50; 45; 48] in                       (* "12-0" *)
  exists vs u,
    match1 filt pat_int_int p = Some vs /\
    url_of_match k_int no_rx id_fconv pat_int_int names_xy vs = UOk u /\
    u = [49; 50; 48] /\                               (* "120" *)
    match1 filt pat_int_int u = None.
Proof. vm_compute. eexists. eexists. repeat split. Qed.

(* ------------------------------------------------------------------ *)
(* float: a regex engine for -?\d+(\.\d+)? and a float printer that
   agrees with Python on the two witnesses                              *)

Definition k_float (_ : fid) : fkind := KFloat.

Definition float_rx (_ : fid) (s : str) : option nat :=
  match int_rx s with
  | None => None
  | Some n =>
    match skipn n s with
    | 46 :: r => match count_digits r with
                 | O => Some n
                 | S m => Some (n + 1 + S m)%nat
                 end
    | _ => Some n
    end
  end.

Definition s_0_00001 : str := [48; 46; 48; 48; 48; 48; 49].                 (* "0.00001" *)
Definition s_1e_05 : str := [49; 101; 45; 48; 53].                          (* "1e-05" *)
Definition s_big : str := [57; 57; 57; 57].                                 (* stands for 400 nines *)
Definition s_inf : str := [105; 110; 102].                                  (* "inf" *)

(* str(float("0.00001")) = "1e-05" ; str(float("9"*400)) = "inf" *)
Definition py_fconv (s : str) : str :=
  if str_eqb s s_0_00001 then s_1e_05 else if str_eqb s s_big then s_inf else s.

Definition pat_f : pat := [Lit [102; 47]; Wild (Some 0%nat)].               (* /f/<x:float> *)
Definition names_x : list str := [[120]].

Lemma float_exponent_witness :
  let filt := handler k_float float_rx py_fconv in
  let p := [102; 47] ++ s_0_00001 in                                        (* "f/0.00001" *)
  exists vs u,
    match1 filt pat_f p = Some vs /\
    url_of_match k_float float_rx py_fconv pat_f names_x vs = UOk u /\
    u = [102; 47] ++ s_1e_05 /\                                             (* "f/1e-05" *)
    match1 filt pat_f u = None.
Proof. vm_compute. eexists. eexists. repeat split. Qed.

Lemma float_inf_witness :
  let filt := handler k_float float_rx py_fconv in
  let p := [102; 47] ++ s_big in
  exists vs,
    match1 filt pat_f p = Some vs /\
    url_of_match k_float float_rx py_fconv pat_f names_x vs = UAssertionError.
Proof. vm_compute. eexists. repeat split. Qed.

(* ------------------------------------------------------------------ *)
(* the re filter with mask "a-star" matching the empty string: rule /<x.re(a-star)>z, path "z" *)

Definition k_re (_ : fid) : fkind := KRe.

Fixpoint count_a (s : str) : nat :=
  match s with
  | 97 :: r => S (count_a r)
  | _ => O
  end.

Definition a_star_rx (_ : fid) (s : str) : option nat := Some (count_a s).

Definition pat_az : pat := [Wild (Some 0%nat); Lit [122]].

Lemma empty_match_witness :
  let filt := handler k_re a_star_rx id_fconv in
  exists vs,
    match1 filt pat_az [122] = Some vs /\
    vs = [[]] /\
    url_of_match k_re a_star_rx id_fconv pat_az names_x vs = UAssertionError.
Proof. vm_compute. eexists. repeat split. Qed.

(* ------------------------------------------------------------------ *)
(* F19path (repaired): a path wildcard followed by literal text.
   la_rx la = the mask .+(?=la): the longest non-empty prefix that is followed
   by the text la.                                                       *)

Definition k_path (_ : fid) : fkind := KPath.

Fixpoint la_rx_go (la s : str) : option nat :=
  match s with
  | [] => None
  | _ :: r =>
    match la_rx_go la r with
    | Some n => Some (S n)
    | None => if prefixb la r then Some 1%nat else None
    end
  end.

Definition slash_e : str := [47; 101].
Definition path_rx (_ : fid) (s : str) : option nat := la_rx_go slash_e s.

Definition pat_p : pat := [Lit [112; 47]; Wild (Some 0%nat); Lit slash_e].   (* /p/<x:path>/e *)
Definition p_a_b_e : str := [112; 47; 97; 47; 98; 47; 101].                  (* "p/a/b/e" *)

Lemma path_lookahead_witness :
  let filt := handler k_path path_rx id_fconv in
  exists vs,
    match1 filt pat_p p_a_b_e = Some vs /\
    vs = [[97; 47; 98]] /\
    (* the builder as repaired: the value is validated in front of "/e" *)
    url_of_match k_path path_rx id_fconv pat_p names_x vs = UOk p_a_b_e /\
    (* the value standing alone — what the unrepaired assertion looked at — is rejected *)
    validate k_path path_rx id_fconv 0%nat (PStr [97; 47; 98]) [] = Some UAssertionError.
Proof. vm_compute. eexists. repeat split. Qed.

(* ------------------------------------------------------------------ *)
(* non-vacuity                                                           *)

Ltac valid := unfold valid_str; repeat (constructor; [reflexivity|]); constructor.
Ltac names := split; [reflexivity | unfold named; simpl; repeat constructor; simpl; intuition discriminate].

(* /a/<x>/<:re([a-z]+)>-B/<z>   on  "a/X/q-B/Z"  ([a-z]+ as the run of lower-case letters) *)
Fixpoint count_lower (s : str) : nat :=
  match s with
  | c :: r => if (97 <=? c) && (c <=? 122) then S (count_lower r) else O
  | [] => O
  end.
Definition lower_rx (_ : fid) (s : str) : option nat :=
  match count_lower s with O => None | n => Some n end.

Definition pat_mixed : pat :=
  [Lit [97; 47]; Wild None; Lit [47]; Wild (Some 0%nat); Lit [45; 66; 47]; Wild None].
Definition names_mixed : list str := [[120]; anon_prefix ++ [48]; [122]].
Definition path_mixed : str := [97; 47; 88; 47; 113; 45; 66; 47; 90].

Lemma identity_nonvacuous_lemma :
  lits_ok pat_mixed = true /\
  identity_fmt k_re pat_mixed = true /\
  names_ok pat_mixed names_mixed /\
  valid_str path_mixed /\
  match1 (handler k_re lower_rx id_fconv) pat_mixed path_mixed = Some [[88]; [113]; [90]] /\
  validates k_re lower_rx id_fconv pat_mixed [[88]; [113]; [90]] = true /\
  url_of_match k_re lower_rx id_fconv pat_mixed names_mixed [[88]; [113]; [90]] = UOk path_mixed.
Proof.
  split; [reflexivity|]. split; [reflexivity|]. split; [names|]. split; [valid|].
  split; [reflexivity|]. split; reflexivity.
Qed.

(* /n/<x:int>-<:int>/<z>  on  "n/007--0/q":  url "n/7-0/q" *)
Definition pat_ints : pat :=
  [Lit [110; 47]; Wild (Some 0%nat); Lit [45]; Wild (Some 0%nat); Lit [47]; Wild None].
Definition names_ints : list str := [[120]; anon_prefix ++ [48]; [122]].
Definition path_ints : str := [110; 47; 48; 48; 55; 45; 45; 48; 47; 113].
Definition url_ints : str := [110; 47; 55; 45; 48; 47; 113].
Definition vs_ints : list value := [TAG_INT :: [55]; TAG_INT :: [48]; [113]].

Lemma int_nonvacuous_lemma :
  lits_ok pat_ints = true /\
  int_or_plain k_int pat_ints = true /\
  no_adjacent_int k_int pat_ints = true /\
  names_ok pat_ints names_ints /\
  valid_str path_ints /\
  match1 (handler k_int no_rx id_fconv) pat_ints path_ints = Some vs_ints /\
  url_of_match k_int no_rx id_fconv pat_ints names_ints vs_ints = UOk url_ints /\
  url_ints <> path_ints /\
  match1 (handler k_int no_rx id_fconv) pat_ints url_ints = Some vs_ints.
Proof.
  split; [reflexivity|]. split; [reflexivity|]. split; [reflexivity|]. split; [names|]. split; [valid|].
  split; [reflexivity|]. split; [reflexivity|]. split; [discriminate | reflexivity].
Qed.

(* adjacent wildcards, leading and trailing literal: "ab" <x> <y:int> "c" "d" *)
Definition pat_adj : pat := [Lit [97; 98]; Wild None; Wild (Some 0%nat); Lit [99]; Lit [100]].
Lemma shape_nonvacuous_lemma :
  lits_ok pat_adj = true /\
  url_of_pat k_int no_rx id_fconv pat_adj names_xy [] [([120], PStr [88]); ([121], PInt (-7)%Z)]
  = UOk [97; 98; 88; 45; 55; 99; 100] /\
  url_of_pat k_int no_rx id_fconv pat_adj names_xy [] [([120], PStr [88])] = UKeyError.
Proof. repeat split. Qed.
