(* C19_witness.v — concrete witnesses (computed) for the C19 findings and the
   non-vacuity examples. *)
From Verif Require Import lib.Base lib.Str lib.PyIntDec model.RouteSpec model.RouteUrl.
Local Open Scope N_scope.

(* rule /<x:int><y:int>, both wildcards use compiled filter 0 = int *)
Definition k_int (_ : fid) : fkind := KInt.
Definition no_rx (_ : fid) (_ : str) : option nat := None.
Definition no_fconv (s : str) : str := s.

Definition pat_int_int : pat := [Wild (Some 0%nat); Wild (Some 0%nat)].
Definition names_xy : list str := [[120]; [121]].

Lemma int_adjacent_witness :
  let filt := handler k_int no_rx no_fconv in
  let p := [49; 50; 45; 48] in                       (* "12-0" *)
  exists vs u,
    match1 filt pat_int_int p = Some vs /\
    url_of_match k_int no_rx no_fconv pat_int_int names_xy vs = UOk u /\
    u = [49; 50; 48] /\                               (* "120" *)
    match1 filt pat_int_int u = None.
Proof. vm_compute. eexists. eexists. repeat split. Qed.
