(* C12_pipeline.v — the body pipeline never yields a server fault. *)
From Verif Require Import lib.Base lib.Str lib.Utf8 gen.Gen.
From Verif Require Import model.Stream model.Body model.MultipartRef model.Multipart model.Fields model.BodyPipeline.
Local Open Scope Z_scope.

(* ---- pins: regex text and the error map of /repo today ---- *)
(* MULTIPART_BOUNDARY_PATT, body_mixin.py:18:  ^multipart/.+?boundary=(.+?)(;|$) *)
Lemma boundary_patt_pinned :
  Gen.boundary_patt_src
  = [94;109;117;108;116;105;112;97;114;116;47;46;43;63;98;111;117;110;100;97;114;121;61;40;46;43;63;41;40;59;124;36;41]%N.
Proof. reflexivity. Qed.

Definition is_4xx (c : Z) : Prop := 400 <= c < 500.

(* DefaultConfig.errors_map maps RequestError, BodySizeError, BodyParsingError to 4xx codes *)
Lemma errors_map_request_error : exists c, emap_get Gen.errors_map n_RequestError = Some c /\ is_4xx c.
Proof. eexists. split; [reflexivity | unfold is_4xx; lia]. Qed.

Lemma errors_map_codes : forall cls c, emap_get Gen.errors_map cls = Some c -> is_4xx c.
Proof.
  intros cls c. unfold Gen.errors_map. cbn [emap_get].
  repeat match goal with |- context [if ?b then _ else _] => destruct b end;
    intros [= <-] || discriminate; unfold is_4xx; lia.
Qed.

Lemma errors_map_size : emap_get Gen.errors_map n_BodySizeError = Some 413.
Proof. reflexivity. Qed.
Lemma errors_map_parse : emap_get Gen.errors_map n_BodyParsingError = Some 400.
Proof. reflexivity. Qed.

(* BaseRequest._raise always ends in a configured 4xx response *)
Lemma raise_client cls : exists c, raise_ cls = Client c /\ is_4xx c.
Proof.
  unfold raise_, raise_in. destruct (emap_get Gen.errors_map cls) as [c|] eqn:E.
  - exists c. split; [reflexivity | now apply (errors_map_codes cls)].
  - destruct errors_map_request_error as (c & Ec & H4). rewrite Ec. now exists c.
Qed.

Definition no_fault (o : outcome) : Prop := forall w, o <> ServerFault w.

Lemma raise_no_fault cls : no_fault (raise_ cls).
Proof. intros w. destruct (raise_client cls) as (c & -> & _). discriminate. Qed.

Lemma ok_no_fault v : no_fault (Ok v).
Proof. intros w; discriminate. Qed.

(* ---- markup lists: alternation and non-negative offsets ---- *)
(* Data, Headers, Data, ...: what the asserts of iter_items demand *)
Fixpoint altb (expect : kind) (m : list section) : bool :=
  match m with
  | [] => true
  | (k, _, _) :: r =>
    match expect, k with
    | Data, Data => altb Headers r
    | Headers, Headers => altb Data r
    | _, _ => false
    end
  end.

Definition starts_nonneg (m : list section) : Prop := Forall (fun x : section => 0 <= snd (fst x)) m.

Definition markup_ok (m : list section * option mp_error) : Prop :=
  snd m = None -> altb Data (fst m) = true /\ starts_nonneg (fst m).

Definition items_fault (r : items_res) : Prop :=
  match r with IAssert | IErr ENegSeek => True | _ => False end.

Lemma field_read_no_negseek body hs he ds de mr :
  0 <= hs -> 0 <= ds -> field_read body (hs, he) (ds, de) mr <> inr ENegSeek.
Proof.
  intros Hh Hd. unfold field_read.
  destruct (mr <? he - hs); [discriminate|].
  destruct (Z.ltb_spec hs 0) as [?|_]; [lia|].
  destruct (utf8_dec _) as [hr|]; [|discriminate].
  destruct (read_headers _ _ _ _ _) as [[[[[n|] fn] ct] hd]|]; try discriminate.
  destruct fn as [fn|]; [discriminate|].
  destruct (de - ds =? 0); [discriminate|].
  destruct (mr <? he - hs + (de - ds)); [discriminate|].
  destruct (Z.ltb_spec ds 0) as [?|_]; [lia|].
  destruct (utf8_dec _); discriminate.
Qed.

Lemma iter_pairs_no_fault body :
  forall n m mr acc, (length m <= n)%nat -> altb Headers m = true -> starts_nonneg m ->
    ~ items_fault (iter_pairs body m mr acc).
Proof.
  induction n as [|n IH]; intros m mr acc Hn Ha Hs.
  - destruct m; [simpl; tauto | simpl in Hn; lia].
  - destruct m as [|[[hk hs] he] m]; [simpl; tauto|].
    cbn [iter_pairs]. destruct hk; [|discriminate Ha]. cbn [altb] in Ha.
    destruct m as [|[[dk ds] de] m]; [simpl; tauto|].
    destruct dk; [discriminate Ha|]. cbn [altb] in Ha.
    inversion Hs as [|x1 l1 Hhs Hs1]; subst. inversion Hs1 as [|x2 l2 Hds Hs2]; subst.
    cbn [fst snd] in Hhs, Hds.
    destruct (field_read body (hs, he) (ds, de) mr) as [[f hr]|e] eqn:E.
    + apply IH; [simpl in Hn; lia | exact Ha | exact Hs2].
    + destruct e; simpl; try tauto.
      exfalso. now apply (field_read_no_negseek body hs he ds de mr Hhs Hds).
Qed.

Lemma iter_items_no_fault body m mr :
  altb Data m = true -> starts_nonneg m -> ~ items_fault (iter_items body m mr).
Proof.
  intros Ha Hs. unfold iter_items. destruct m as [|[[k a] b] m]; [simpl; tauto|].
  destruct k; [discriminate Ha|]. cbn [altb] in Ha.
  destruct (0 <? b); [simpl; tauto|].
  inversion Hs; subst. now apply (iter_pairs_no_fault body (length m)).
Qed.

(* ---- the pipeline ---- *)
Section NoFault.
Variable jk : bytes -> option jkind.
Variable cfg : config.
Variable ctype : str.
Variable fr : framing.
Variable s : stream.

(* PEP 3333: CONTENT_TYPE is a native string holding latin-1; all that is needed
   here is that it can be encoded (no lone surrogate) *)
Hypothesis ctype_scalar : Forall scalar ctype.
(* CONTENT_LENGTH parses as an int (absent and empty count as -1) *)
Hypothesis cl_int : content_length fr <> None.
(* the read loops terminate (proved separately: C12_terminates) *)
Hypothesis read_terminates : forall cl, read_parts cfg cl (fr_te fr) s <> ROutOfFuel.
(* what the streaming parser reports alternates and has non-negative offsets (proved separately) *)
Hypothesis markup_wf : forall B parts, markup_ok (markup_chunks B parts).

Lemma bgroup_rest_sub r g : bgroup_rest r = Some g -> Forall scalar r -> Forall scalar g.
Proof.
  revert g; induction r as [|c r IH]; intros g; simpl.
  - intros [= <-] _. constructor.
  - intros H Hs. inversion Hs as [|x l Hc Hr]; subst.
    destruct (N.eqb c SEMI); [injection H as <-; constructor|].
    destruct (N.eqb c LFc).
    + destruct r; [injection H as <-; constructor | discriminate].
    + destruct (bgroup_rest r) as [g'|] eqn:E; [|discriminate]. injection H as <-.
      constructor; [exact Hc | now apply IH].
Qed.

Lemma bgroup_sub r g : bgroup r = Some g -> Forall scalar r -> Forall scalar g.
Proof.
  destruct r as [|c r]; simpl; [discriminate|]. intros H Hs. inversion Hs; subst.
  destruct (N.eqb c LFc); [discriminate|].
  destruct (bgroup_rest r) as [g'|] eqn:E; [|discriminate]. injection H as <-.
  constructor; [assumption | now apply (bgroup_rest_sub r)].
Qed.

Lemma Forall_skipn {A} (P : A -> Prop) n l : Forall P l -> Forall P (skipn n l).
Proof. revert l; induction n; intros l H; [exact H|]. destruct l; [constructor|]. inversion H; subst. simpl. auto. Qed.

Lemma bscan_sub r g : bscan r = Some g -> Forall scalar r -> Forall scalar g.
Proof.
  revert g; induction r as [|c r IH]; intros g; cbn [bscan].
  - destruct (prefixb s_boundary_eq []); [|discriminate]. simpl. discriminate.
  - intros H Hs.
    destruct (if prefixb s_boundary_eq (c :: r) then bgroup (skipn 9 (c :: r)) else None) as [g0|] eqn:E.
    + injection H as <-. destruct (prefixb s_boundary_eq (c :: r)); [|discriminate].
      apply (bgroup_sub _ _ E). now apply Forall_skipn.
    + destruct (N.eqb c LFc); [discriminate|]. inversion Hs; subst. now apply IH.
Qed.

Lemma boundary_match_scalar g : boundary_match ctype = Some g -> Forall scalar g.
Proof.
  unfold boundary_match. destruct (prefixb s_multipart_slash ctype); [|discriminate].
  destruct (skipn 10 ctype) as [|c r] eqn:E; [discriminate|].
  destruct (N.eqb c LFc); [discriminate|]. intros H.
  apply (bscan_sub r g H).
  assert (Hs : Forall scalar (skipn 10 ctype)) by now apply Forall_skipn.
  rewrite E in Hs. now inversion Hs.
Qed.

Lemma body_stage_no_fault o : body_stage cfg ctype fr s = inr o -> no_fault o.
Proof.
  unfold body_stage.
  destruct (boundary_match ctype) as [b|] eqn:Eb.
  - rewrite (utf8_encode_some b (boundary_match_scalar b Eb)).
    destruct (contains_char N.eqb CR (utf8_enc_str b)).
    + intros [= <-]. apply raise_no_fault.
    + destruct (content_length fr) as [cl|]; [|now elim cl_int].
      destruct (read_parts cfg cl (fr_te fr) s) eqn:Er; try (intros [= <-]; apply raise_no_fault).
      now elim (read_terminates cl).
  - destruct (content_length fr) as [cl|]; [|now elim cl_int].
    destruct (read_parts cfg cl (fr_te fr) s) eqn:Er; try (intros [= <-]; apply raise_no_fault).
    now elim (read_terminates cl).
Qed.

Lemma body_stage_markup body m :
  body_stage cfg ctype fr s = inl (body, Some m) -> markup_ok m.
Proof.
  unfold body_stage.
  destruct (boundary_match ctype) as [b|] eqn:Eb.
  - destruct (utf8_encode b) as [B|]; [|discriminate].
    destruct (contains_char N.eqb CR B); [discriminate|].
    destruct (content_length fr) as [cl|]; [|discriminate].
    destruct (read_parts cfg cl (fr_te fr) s) eqn:Er; try discriminate.
    intros [= _ <-]. apply markup_wf.
  - destruct (content_length fr) as [cl|]; [|discriminate].
    destruct (read_parts cfg cl (fr_te fr) s); discriminate.
Qed.

Lemma get_body_string_no_fault o : get_body_string cfg ctype fr s = inr o -> no_fault o.
Proof.
  unfold get_body_string. destruct (body_stage cfg ctype fr s) as [[body m]|o'] eqn:E.
  - destruct (content_length fr) as [cl|]; [|now elim cl_int].
    cbv zeta. destruct (Z.of_nat (c_memfile cfg) <? _); [intros [= <-]; apply raise_no_fault|].
    destruct (Z.of_nat (c_memfile cfg) <? _); [intros [= <-]; apply raise_no_fault | discriminate].
  - intros [= <-]. now apply (body_stage_no_fault o').
Qed.

Lemma json_prop_no_fault : no_fault (json_prop jk cfg ctype fr s).
Proof.
  unfold json_prop. destruct (str_eqb _ s_app_json); [|apply ok_no_fault].
  destruct (get_body_string cfg ctype fr s) as [b|o] eqn:E.
  - destruct b; [apply ok_no_fault|]. destruct (jk _); [apply ok_no_fault | apply raise_no_fault].
  - now apply (get_body_string_no_fault o).
Qed.

Lemma post_prop_no_fault : no_fault (post_prop jk cfg ctype fr s).
Proof.
  unfold post_prop. destruct (negb _).
  - destruct (prefixb s_app_json _).
    + pose proof json_prop_no_fault as Hj.
      destruct (json_prop jk cfg ctype fr s) as [v|c|w]; [|intros w; discriminate | exact Hj].
      destruct v as [b|[[| |]|]| |k|d]; try apply ok_no_fault; try apply raise_no_fault.
    + destruct (get_body_string cfg ctype fr s) as [b|o] eqn:E; [apply ok_no_fault|].
      now apply (get_body_string_no_fault o).
  - destruct (body_stage cfg ctype fr s) as [[body [m|]]|o] eqn:E.
    + pose proof (body_stage_markup body m E) as Hm. unfold markup_ok in Hm.
      destruct (snd m) as [e|]; [apply raise_no_fault|].
      destruct (Hm eq_refl) as [Ha Hs].
      pose proof (iter_items_no_fault body (fst m) (Z.of_nat (c_memfile cfg)) Ha Hs) as Hn.
      destruct (iter_items body (fst m) (Z.of_nat (c_memfile cfg))) as [fs|[| |]|];
        try apply ok_no_fault; try apply raise_no_fault; simpl in Hn; tauto.
    + apply raise_no_fault.
    + now apply (body_stage_no_fault o).
Qed.

Lemma body_prop_no_fault : no_fault (body_prop cfg ctype fr s).
Proof.
  unfold body_prop. destruct (body_stage cfg ctype fr s) as [[body m]|o] eqn:E; [apply ok_no_fault|].
  now apply (body_stage_no_fault o).
Qed.

Lemma process_no_fault a : no_fault (process jk cfg ctype fr s a).
Proof.
  destruct a; cbn [process]; auto using post_prop_no_fault, json_prop_no_fault, body_prop_no_fault.
Qed.

Lemma process_seq_no_fault pre a : no_fault (process_seq jk cfg ctype fr s pre a).
Proof.
  unfold process_seq. destruct pre as [a0|]; [|apply process_no_fault].
  pose proof (process_no_fault a0) as H0.
  destruct (process jk cfg ctype fr s a0); [apply process_no_fault | intros w; discriminate | exact H0].
Qed.

End NoFault.
