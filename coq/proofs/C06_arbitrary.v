(* C06_arbitrary.v — what the STREAMING parser guarantees on ARBITRARY input
   (any bytes, any chunking; only CR not in the boundary): every Data section it
   reports after the preamble section starts where the search started and ends
   at the FIRST occurrence of CRLF--B from there, in the concatenation of all
   chunks.  No delimiter is invented (soundness) and none is swallowed
   (first occurrence).  The header side needs no well-formedness: only that the
   data search starts with nothing carried and inside the chunk. *)
From Verif Require Import lib.Base lib.ListX lib.Str model.MultipartRef model.Multipart
  proofs.C06_pattern proofs.C06_dres proofs.C06_eat_data proofs.C06_headers proofs.C06_core
  proofs.C06_scan proofs.C06_global.
Require Import Lia.

(* ---------------------------------------------------------------- the header eater, any state, any bytes *)

Definition exp_ok (ex : option bytes) : Prop :=
  ex = None \/ exists k, 0 < k /\ k < 4 /\ ex = Some (skipn k H4).

Lemma pfx_len (X t : bytes) : prefixb X t = true -> length X <= length t.
Proof. intros H. apply prefixb_spec in H. destruct H as [r ->]. rewrite app_length. lia. Qed.

Lemma alt2_range s l : alt2 s = Some l -> 0 < l /\ l < 4.
Proof.
  unfold alt2.
  destruct (match s with c1 :: c2 :: r2 => N.eqb c1 LF && N.eqb c2 CR && eol r2 | _ => false end);
    [intros [= <-]; lia|].
  destruct (match s with c1 :: r1 => N.eqb c1 LF && eol r1 | _ => false end); [intros [= <-]; lia|].
  destruct (eol s); [intros [= <-]; lia | discriminate].
Qed.

Lemma hsearch_bound s : forall i0,
  match hsearch s i0 with
  | MEnd i => i0 <= i /\ i + 4 <= i0 + length s
  | MPart l => 0 < l /\ l < 4
  | MNo => True
  end.
Proof.
  induction s as [|c s IH]; intros i0; cbn [hsearch]; [exact I|].
  destruct (N.eqb c CR).
  - destruct (prefixb [LF; CR; LF] s) eqn:Ep.
    + apply pfx_len in Ep. cbn [length] in *. lia.
    + destruct (alt2 s) as [l|] eqn:Ea; [now apply alt2_range in Ea|].
      specialize (IH (S i0)). destruct (hsearch s (S i0)); cbn [length]; [lia | exact IH | exact I].
  - specialize (IH (S i0)). destruct (hsearch s (S i0)); cbn [length]; [lia | exact IH | exact I].
Qed.

Definition found_in (c : bytes) (r : eres) : Prop :=
  forall pos, r = EFound pos -> (0 <= pos + 4)%Z /\ Z.to_nat (pos + 4) <= length c.

Lemma eat_headers_any c b ex :
  exp_ok ex ->
  exp_ok (snd (eat_headers c b ex)) /\ found_in c (fst (eat_headers c b ex)).
Proof.
  intros Hex.
  assert (Hre : exp_ok (snd (match hsearch (skipn b c) b with
                             | MNo => (ENone, None)
                             | MEnd i => (EFound (Z.of_nat i), None)
                             | MPart l => (ENone, Some (skipn l H4))
                             end)) /\
                found_in c (fst (match hsearch (skipn b c) b with
                                 | MNo => (ENone, None)
                                 | MEnd i => (EFound (Z.of_nat i), None)
                                 | MPart l => (ENone, Some (skipn l H4))
                                 end))).
  { pose proof (hsearch_bound (skipn b c) b) as Hb.
    destruct (hsearch (skipn b c) b) as [i|l|]; cbn [fst snd].
    - split; [left; reflexivity|]. intros pos [= <-]. rewrite skipn_length in Hb. split; lia.
    - split; [right; exists l; intuition|]. intros pos H; discriminate.
    - split; [left; reflexivity|]. intros pos H; discriminate. }
  unfold eat_headers. destruct Hex as [->|(k & Hk0 & Hk4 & ->)]; [exact Hre|].
  set (ex := skipn k H4).
  assert (Lex : length ex = 4 - k) by (unfold ex; rewrite skipn_length; reflexivity).
  destruct (str_eqb_spec (slice c b (length ex)) ex) as [E|_].
  - cbn [fst snd]. split; [left; reflexivity|]. intros pos [= <-].
    assert (L : length (slice c b (length ex)) = length ex) by now rewrite E.
    unfold slice in L. rewrite firstn_length, skipn_length in L. split; lia.
  - destruct (length (slice c b (length ex)) =? 0).
    { cbn [fst snd]. split; [right; exists k; auto | intros pos H; discriminate]. }
    destruct ((length (slice c b (length ex)) <? length ex) && prefixb (slice c b (length ex)) ex) eqn:Ecl.
    { cbn [fst snd]. split; [|intros pos H; discriminate].
      apply andb_true_iff in Ecl. destruct Ecl as [Ecl _]. apply Nat.ltb_lt in Ecl.
      right. exists (k + length (slice c b (length ex))). repeat split; try lia.
      unfold ex. now rewrite skipn_skipn. }
    destruct (str_eqb ex [LF]); [cbn [fst snd]; split; [left; reflexivity | intros pos H; discriminate]|].
    destruct (length ex <? 2); [cbn [fst snd]; split; [left; reflexivity | intros pos H; discriminate]|].
    exact Hre.
Qed.

Definition hexp_ok (h : hst) : Prop := exp_ok (hexp h).

Lemma eat_in_headers_any h c b :
  hexp_ok h -> hexp_ok (fst (eat_in_headers h c b)) /\ found_in c (snd (eat_in_headers h c b)).
Proof.
  intros Hh. unfold eat_in_headers. destruct (eat_headers_any c b (hexp h) Hh) as [H1 H2].
  destruct (eat_headers c b (hexp h)) as [r ex]. cbn [fst snd] in *.
  destruct r; cbn [fst snd]; (split; [exact H1|]); try (intros pos H; discriminate). exact H2.
Qed.

Lemma eat_any h c b :
  hexp_ok h -> hexp_ok (fst (eat h c b)) /\ found_in c (snd (eat h c b)).
Proof.
  intros Hh. unfold eat.
  assert (Hgen : forall h1 r1, hexp h1 = hexp h ->
            hexp_ok (fst (match r1 with
                          | EFound pos => if hstopped h1 then (h1, EStop)
                                          else eat_in_headers (mkH HHeaders (hexp h1) (hstopped h1)) c (Z.to_nat pos)
                          | _ => (h1, r1) end)) /\
            found_in c (snd (match r1 with
                          | EFound pos => if hstopped h1 then (h1, EStop)
                                          else eat_in_headers (mkH HHeaders (hexp h1) (hstopped h1)) c (Z.to_nat pos)
                          | _ => (h1, r1) end))).
  { intros h1 r1 E1. assert (H1 : hexp_ok h1) by (unfold hexp_ok; now rewrite E1).
    destruct r1; cbn [fst snd]; try (split; [exact H1 | intros pos H; discriminate]).
    destruct (hstopped h1); cbn [fst snd]; [split; [exact H1 | intros p H; discriminate]|].
    apply eat_in_headers_any. exact H1. }
  destruct (eat_meth h).
  - (* HFirst *)
    assert (E : hexp (fst (eat_first h c b)) = hexp h).
    { unfold eat_first. destruct (slice c b (b + 2)) as [|c1 [|c2 r]]; [reflexivity | |].
      - destruct (N.eqb c1 CR); [reflexivity|]. destruct (N.eqb c1 HY); reflexivity.
      - destruct (N.eqb c1 CR && N.eqb c2 LF); [reflexivity|]. destruct (N.eqb c1 HY && N.eqb c2 HY); reflexivity. }
    destruct (eat_first h c b) as [h1 r1]. apply Hgen. exact E.
  - (* HLf *)
    assert (E : hexp (fst (eat_lf h c b)) = hexp h).
    { unfold eat_lf. destruct (slice c b (b + 1)) as [|c1 r]; [reflexivity|]. destruct (N.eqb c1 LF); reflexivity. }
    destruct (eat_lf h c b) as [h1 r1]. apply Hgen. exact E.
  - (* HLastHyphen *)
    assert (E : hexp (fst (eat_last_hyphen h c b)) = hexp h).
    { unfold eat_last_hyphen. destruct (slice c b (b + 1)) as [|c1 r]; [reflexivity|]. destruct (N.eqb c1 HY); reflexivity. }
    destruct (eat_last_hyphen h c b) as [h1 r1]. apply Hgen. exact E.
  - apply eat_in_headers_any. exact Hh.
Qed.

(* ---------------------------------------------------------------- the invariant over arbitrary chunks *)
Section Any.
Variable B : bytes.
Hypothesis HB : contains_char N.eqb CR B = false.
Let tok := token B.
Let n := length tok.
Let tkl := LF :: HY :: HY :: B.
Let Htok : tok = CR :: tkl := eq_refl.
Let Hcr : ~ In CR tkl := token_cr B HB.

(* a reported Data section (ds, ds+q): the first CRLF--B at or after ds is at ds+q *)
Definition good (P : bytes) (sc : section) : Prop :=
  match sc with
  | (Data, s, e) => exists ds q, s = Z.of_nat ds /\ e = Z.of_nat (ds + q) /\ findb tok (skipn ds P) = Some q
  | _ => True
  end.

Lemma good_app P c sc : good P sc -> good (P ++ c) sc.
Proof.
  destruct sc as [[[|] s] e]; [trivial|]. intros (ds & q & -> & -> & H). exists ds, q. repeat split.
  assert (ds <= length P).
  { destruct (Nat.le_gt_cases ds (length P)); [assumption|]. rewrite skipn_all2 in H by lia. discriminate. }
  rewrite skipn_app_le by assumption. now apply findb_app_some.
Qed.

Definition live (s : st) : Prop := error s = None /\ stopped s = false.

Definition trest_form (tr : option bytes) : Prop := exists m, m < n /\ tr = tr_of tok m.

(* between two chunks *)
Definition J (P : bytes) (s : st) : Prop :=
  Forall (good P) (tl (out s)) /\
  (live s ->
   s_tok s = tok /\ abspos s = Z.of_nat (length P) /\ hexp_ok (heater s) /\
   match cur_meth s with
   | CStart => out s = [] /\ trest_form (trest s)
   | CHdr => out s <> [] /\ trest s = None
   | CData => out s <> [] /\
              exists ds, sec_start s = Z.of_nat ds /\ ds <= length P /\
                         findb tok (skipn ds P) = None /\ trest s = tr_of tok (dcarry B (skipn ds P))
   end).

Section Chunk.
Variables p c : bytes.
Let P := p ++ c.

(* inside the loop of iter_markup, at position b of the chunk *)
Definition LI (b : nat) (cur : cur) (abs_start : Z) (s : st) : Prop :=
  live s /\ s_tok s = tok /\ abspos s = Z.of_nat (length p) /\ hexp_ok (heater s) /\
  Forall (good P) (tl (out s)) /\ b <= length c /\
  match cur with
  | CStart => b = 0 /\ out s = [] /\ trest_form (trest s)
  | CHdr => out s <> [] /\ trest s = None
  | CData => out s <> [] /\
             exists ds X, abs_start = Z.of_nat ds /\ skipn ds P = X ++ skipn b c /\
                          ds + length X = length p + b /\
                          findb tok X = None /\ trest s = tr_of tok (dcarry B X)
  end.

Lemma tl_snoc {A} (l : list A) x : l <> [] -> tl (l ++ [x]) = tl l ++ [x].
Proof. destruct l; [congruence | reflexivity]. Qed.

Lemma J_dead s : Forall (good P) (tl (out s)) -> ~ live s -> J P s.
Proof. intros H Hd. split; [exact H | intros Hl; contradiction]. Qed.

(* the start eater: the carried remainder keeps its form; a hit lies inside the chunk *)
Lemma start_any m :
  m < n ->
  trest_form (snd (eat_start_boundary tok c 0 (tr_of tok m))) /\
  forall e, fst (eat_start_boundary tok c 0 (tr_of tok m)) = EFound e ->
            snd (eat_start_boundary tok c 0 (tr_of tok m)) = None /\
            (0 <= e + Z.of_nat n)%Z /\ Z.to_nat (e + Z.of_nat n) <= length c.
Proof.
  intros Hm. pose proof (n_ge4 B) as Hn4. fold tok in Hn4. fold n in Hn4.
  assert (Hdata : forall m', m' < n -> m' <= 2 \/ m' = m ->
            trest_form (snd (eat_data tok c 0 (tr_of tok m'))) /\
            forall e, fst (eat_data tok c 0 (tr_of tok m')) = EFound e ->
                      snd (eat_data tok c 0 (tr_of tok m')) = None /\
                      (0 <= e + Z.of_nat n)%Z /\ Z.to_nat (e + Z.of_nat n) <= length c).
  { intros m' Hm' _. rewrite (eat_data_dspec tok CR tkl Htok Hcr) by exact Hm'.
    unfold dspec. cbn [skipn]. rewrite dres_findb by discriminate.
    destruct (findb tok (firstn m' tok ++ c)) as [q|] eqn:Eq; cbn [fst snd].
    - split; [exists 0; split; [lia | reflexivity]|].
      intros e [= <-]. split; [reflexivity|].
      pose proof (findb_bound _ _ _ Eq) as Hb. rewrite app_length, firstn_length in Hb. fold n in Hb.
      rewrite Nat.min_l in Hb by lia. split; lia.
    - split; [|intros e H; discriminate].
      rewrite tr_of_carry. eexists. split; [|reflexivity].
      destruct (carry_len tok (firstn m' tok ++ c)) as [k|] eqn:Ek; [|lia].
      destruct (carry_len_some _ _ _ Ek) as (_ & H & _). exact H. }
  destruct (Nat.eq_dec m 0) as [->|Hm0].
  - change (tr_of tok 0) with (@None bytes). unfold eat_start_boundary.
    destruct (slice c 0 (0 + 1)) as [|x r] eqn:Es.
    + cbn [fst snd]. split; [exists 0; split; [lia | reflexivity] | intros e H; discriminate].
    + destruct (N.eqb x CR).
      * change (@None bytes) with (tr_of tok 0). apply Hdata; [lia | left; lia].
      * destruct (prefixb (skipn 2 tok) c) eqn:Ep.
        -- cbn [fst snd]. split; [exists 0; split; [lia | reflexivity]|].
           intros e [= <-]. split; [reflexivity|].
           apply pfx_len in Ep. rewrite skipn_length in Ep. fold n in Ep. cbn [Z.of_nat]. split; lia.
        -- destruct (negb (N.eqb x HY)).
           ++ cbn [fst snd]. split; [exists 0; split; [lia | reflexivity] | intros e H; discriminate].
           ++ change (Some (skipn 2 tok)) with (tr_of tok 2). apply Hdata; [lia | left; lia].
  - assert (E : tr_of tok m = Some (skipn m tok)) by (unfold tr_of; destruct (Nat.eqb_spec m 0); [lia | reflexivity]).
    unfold eat_start_boundary. rewrite E. rewrite <- E. apply Hdata; [exact Hm | right; reflexivity].
Qed.

Lemma loop_any fuel : forall s cur abs_start b,
  LI b cur abs_start s -> J P (im_loop fuel s c cur abs_start b).
Proof.
  induction fuel as [|fuel IH]; intros s cur abs_start b (Hlive & Htk & Hap & Hhx & Hgood & Hb & Hcur).
  { cbn [im_loop]. apply J_dead; [exact Hgood | intros [H _]; discriminate]. }
  destruct Hlive as [Herr Hstop].
  assert (LP : length P = length p + length c) by (unfold P; apply app_length).
  destruct cur.
  - (* the first delimiter *)
    destruct Hcur as (-> & Hout & (m & Hm & Htr)).
    rewrite im_loop_start. rewrite Htk, Htr.
    destruct (start_any m Hm) as [Hform Hfound].
    destruct (eat_start_boundary tok c 0 (tr_of tok m)) as [r tr]. cbn [fst snd] in *.
    destruct r.
    + destruct (Hfound pos eq_refl) as (-> & Hp0 & Hple). fold n.
      destruct ((abspos s + pos <? 0)%Z && negb (abspos s + pos =? -2)%Z).
      * apply J_dead; [exact Hgood | intros [H _]; discriminate].
      * apply IH. repeat split; cbn [error stopped s_tok abspos heater out trest]; try assumption.
        -- rewrite Hout. constructor.
        -- rewrite Hout. discriminate.
    + split; [exact Hgood|]. intros _.
      cbn [s_tok abspos heater cur_meth out trest]. repeat split; try assumption. rewrite Hap, LP. lia.
    + apply J_dead; [exact Hgood | intros [_ H]; discriminate].
    + apply J_dead; [exact Hgood | intros [H _]; discriminate].
    + apply J_dead; [exact Hgood | intros [H _]; discriminate].
  - (* a data section *)
    destruct Hcur as (Hout & ds & X & -> & EX & LX & HfX & Htr).
    rewrite im_loop_data. rewrite Htk, Htr.
    pose proof (eat_data_pending B HB X c b HfX) as Ee. fold tok in Ee. rewrite Ee. rewrite <- EX.
    rewrite dres_findb by discriminate.
    destruct (findb tok (skipn ds P)) as [q|] eqn:Eq.
    + pose proof (findb_bound _ _ _ Eq) as Hbd. fold n in Hbd.
      assert (Hds : ds <= length P).
      { destruct (Nat.le_gt_cases ds (length P)); [assumption|]. rewrite skipn_all2 in Eq by lia. discriminate. }
      rewrite skipn_length in Hbd.
      assert (Hlate : length X < q + n).
      { destruct (Nat.lt_ge_cases (length X) (q + n)) as [H|H]; [exact H|]. exfalso.
        rewrite EX in Eq. apply findb_app_inv in Eq; [congruence | exact H]. }
      apply IH. repeat split; cbn [error stopped s_tok abspos heater out trest]; try assumption.
      * rewrite tl_snoc by exact Hout. apply Forall_app. split; [exact Hgood|].
        constructor; [|constructor]. cbn [good]. exists ds, q. repeat split; [|exact Eq].
        rewrite Hap. lia.
      * fold n. lia.
      * intros E. apply app_eq_nil in E. destruct E as [_ E]. discriminate.
    + split; [exact Hgood|]. intros _.
      cbn [s_tok abspos heater cur_meth out trest sec_start]. repeat split; try assumption.
      * rewrite Hap, LP. lia.
      * exists ds. repeat split; [lia | exact Eq | apply tr_of_carry].
  - (* after a delimiter / inside a header block *)
    destruct Hcur as (Hout & Htr).
    rewrite im_loop_hdr.
    destruct (eat_any (heater s) c b Hhx) as [Hh' Hfound].
    destruct (eat (heater s) c b) as [h r]. cbn [fst snd] in *.
    destruct r.
    + destruct (Hfound pos eq_refl) as [Hp0 Hple].
      apply IH. repeat split; cbn [error stopped s_tok abspos heater out trest]; try assumption.
      * rewrite tl_snoc by exact Hout. apply Forall_app. split; [exact Hgood|].
        constructor; [exact I | constructor].
      * intros E. apply app_eq_nil in E. destruct E as [_ E]. discriminate.
      * exists (length p + Z.to_nat (pos + 4)), []. repeat split.
        -- rewrite Hap. lia.
        -- cbn [app]. unfold P. rewrite skipn_app. rewrite skipn_all2 by lia. cbn [app]. f_equal. lia.
        -- cbn [length]. lia.
        -- rewrite Htr. rewrite (dcarry_nil B). reflexivity.
    + split; [exact Hgood|]. intros _.
      cbn [s_tok abspos heater cur_meth out trest]. repeat split; try assumption. rewrite Hap, LP. lia.
    + apply J_dead; [exact Hgood | intros [_ H]; discriminate].
    + apply J_dead; [exact Hgood | intros [H _]; discriminate].
    + apply J_dead; [exact Hgood | intros [H _]; discriminate].
Qed.

Lemma step_any s : J p s -> J P (feed s c).
Proof.
  intros [Hgood Hl].
  assert (Hgood' : Forall (good P) (tl (out s))).
  { eapply Forall_impl; [|exact Hgood]. intros sc. apply good_app. }
  unfold feed. destruct (error s) eqn:Eerr.
  { apply J_dead; [exact Hgood' | intros [H _]; congruence]. }
  destruct (stopped s) eqn:Est.
  { apply J_dead; [exact Hgood' | intros [_ H]; congruence]. }
  destruct (Hl (conj Eerr Est)) as (Htk & Hap & Hhx & Hcur).
  apply loop_any. repeat split; try assumption; try lia.
  destruct (cur_meth s).
  - destruct Hcur as [Ho Ht]. auto.
  - destruct Hcur as (Ho & ds & Hs & Hds & Hf & Ht). split; [exact Ho|].
    exists ds, (skipn ds p). repeat split; try assumption.
    + unfold P. cbn [skipn]. apply skipn_app_le. exact Hds.
    + rewrite skipn_length. lia.
  - exact Hcur.
Qed.

End Chunk.

Lemma J_init : J [] (init B).
Proof.
  split; [constructor|]. intros _. unfold init. cbn [s_tok abspos heater cur_meth out trest length].
  repeat split; try reflexivity.
  - left. reflexivity.
  - exists 0. split; [pose proof (n_ge4 B); fold tok in H; fold n in H; lia | reflexivity].
Qed.

Lemma feed_all_any chunks : forall p s, J p s -> J (p ++ concat chunks) (fold_left feed chunks s).
Proof.
  induction chunks as [|c cs IH]; intros p s H; cbn [concat fold_left].
  - now rewrite app_nil_r.
  - rewrite app_assoc. apply IH. now apply step_any.
Qed.

End Any.

(* every Data section reported after the preamble section, on any input *)
Theorem data_sections_closed_any_input B chunks first rest s e :
  contains_char N.eqb CR B = false ->
  fst (markup_chunks B chunks) = first :: rest ->
  In (Data, s, e) rest ->
  let body := concat chunks in
  let tok := token B in
  exists ds q,
    s = Z.of_nat ds /\ e = Z.of_nat (ds + q) /\                       (* 0 <= s <= e *)
    ds + q + length tok <= length body /\
    prefixb tok (skipn (ds + q) body) = true /\                        (* a real delimiter ends the data *)
    (forall j, j < q -> prefixb tok (skipn (ds + j) body) = false) /\  (* and it is the first one from s on *)
    findb tok (skipn ds body) = Some q.
Proof.
  intros HB Eout Hin body tok.
  pose proof (feed_all_any B HB chunks [] (init B) (J_init B)) as [Hgood _].
  cbn [app] in Hgood. unfold markup_chunks, obs in Eout. cbn [fst] in Eout. rewrite Eout in Hgood.
  cbn [tl] in Hgood. rewrite Forall_forall in Hgood. specialize (Hgood _ Hin). cbn [good] in Hgood.
  destruct Hgood as (ds & q & -> & -> & Hf). exists ds, q.
  destruct (findb_some _ _ _ Hf) as [H1 H2]. pose proof (findb_bound _ _ _ Hf) as Hb.
  rewrite skipn_length in Hb.
  assert (Hds : ds <= length (concat chunks)).
  { destruct (Nat.le_gt_cases ds (length (concat chunks))); [assumption|].
    rewrite skipn_all2 in Hf by lia. discriminate. }
  repeat split; try assumption; unfold tok, body.
  - unfold tok, body. lia.
  - rewrite <- skipn_skipn. exact H1.
  - intros j Hj. rewrite <- skipn_skipn. now apply H2.
Qed.
