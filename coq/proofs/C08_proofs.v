(* C08_proofs.v — noninterference of threads: the events of thread t under any
   interleaving are the events of t running alone.  Frame invariant: a step of
   another thread u changes no cell, header-dict pointer or private dict of t,
   and creates no store. *)
From Verif Require Import lib.Base model.TsProps proofs.C10_proofs.

(* what thread t can observe of a world *)
Definition veq (t : tid) (w w' : world) : Prop :=
  (forall o, slot w o = slot w' o) /\
  (forall o, hcon w o = hcon w' o) /\
  (forall o a, cell w o t a = cell w' o t a) /\
  (forall o, hdict w o t = hdict w' o t) /\
  heap w t = heap w' t.

Lemma veq_refl t w : veq t w w.
Proof. repeat split. Qed.

Lemma veq_sym t w w' : veq t w w' -> veq t w' w.
Proof. intros (H1 & H2 & H3 & H4 & H5). repeat split; intros; symmetry; auto. Qed.

Lemma veq_trans t w1 w2 w3 : veq t w1 w2 -> veq t w2 w3 -> veq t w1 w3.
Proof.
  intros (A1 & A2 & A3 & A4 & A5) (B1 & B2 & B3 & B4 & B5).
  repeat split; intros; etransitivity; eauto.
Qed.

(* ops that other threads may run while t is being served: no HeaderDict
   constructor, and __init__ only on objects that already have their store
   ([sl] = the slots of the world the threads start from) *)
Definition op_calm (sl : obj -> bool) (p : op) : Prop :=
  match p with
  | OHNew _ => False
  | OPro o => sl o = true
  | _ => True
  end.

Inductive calm (sl : obj -> bool) : prog -> Prop :=
| calm_done : calm sl Done
| calm_do p k : op_calm sl p -> (forall r, calm sl (k r)) -> calm sl (Do p k).

Definition below (sl : obj -> bool) (w : world) : Prop := forall o, sl o = true -> slot w o = true.

(* (1) t's own step: same observable world, same op => same result, and the
       observable worlds stay equal *)
Lemma step_veq_same t p w1 w2 w1' w2' r1 r2 :
  veq t w1 w2 ->
  step t p w1 = (w1', r1) -> step t p w2 = (w2', r2) ->
  r1 = r2 /\ veq t w1' w2'.
Proof.
  intros (S & HC & C & HD & HP) E1 E2.
  unfold step, exec, sel_instance in E1, E2.
  destruct p; simpl in E1, E2.
  - (* OPro *)
    injection E1 as <- <-. injection E2 as <- <-. split; [reflexivity|].
    rewrite <- (S o).
    destruct (slot w1 o) eqn:Hs; simpl.
    + repeat split; simpl; intros; auto.
      destruct (obj_eqb o o0); auto.
      rewrite Nat.eqb_refl. simpl. destruct (a <? nprops (fst o)); auto.
    + repeat split; simpl; intros; auto.
      * rewrite S. reflexivity.
      * destruct (obj_eqb o o0) eqn:He; auto.
        rewrite obj_eqb_refl. reflexivity.
  - (* OGet *)
    rewrite <- (S o) in E2.
    destruct (negb (a <? nprops (fst o))).
    { injection E1 as <- <-. injection E2 as <- <-. split; [reflexivity|]. repeat split; auto. }
    destruct (slot w1 o); [rewrite <- (C o a) in E2; destruct (cell w1 o t a)|];
      injection E1 as <- <-; injection E2 as <- <-; (split; [reflexivity|]); repeat split; auto.
  - (* OSet *)
    rewrite <- (S o) in E2.
    destruct (negb (a <? nprops (fst o))).
    { injection E1 as <- <-. injection E2 as <- <-. split; [reflexivity|]. repeat split; auto. }
    destruct (slot w1 o);
      injection E1 as <- <-; injection E2 as <- <-; (split; [reflexivity|]); repeat split; simpl; auto.
    intros o0 a0. destruct (obj_eqb o o0); auto.
    rewrite Nat.eqb_refl. simpl. destruct (a =? a0); auto.
  - (* ODel *)
    rewrite <- (S o) in E2.
    destruct (negb (a <? nprops (fst o))).
    { injection E1 as <- <-. injection E2 as <- <-. split; [reflexivity|]. repeat split; auto. }
    destruct (slot w1 o); [rewrite <- (C o a) in E2; destruct (cell w1 o t a)|];
      injection E1 as <- <-; injection E2 as <- <-; (split; [reflexivity|]); repeat split; simpl; auto.
    intros o0 a0. destruct (obj_eqb o o0); auto.
    rewrite Nat.eqb_refl. simpl. destruct (a =? a0); auto.
  - (* OHNew *)
    rewrite <- HP in E2.
    destruct (fst o); injection E1 as <- <-; injection E2 as <- <-; (split; [reflexivity|]);
      repeat split; simpl; auto.
    + intros o0. rewrite HC. reflexivity.
    + intros o0. destruct (obj_eqb o o0); auto.
    + rewrite Nat.eqb_refl. reflexivity.
  - (* OHGet *)
    rewrite <- (HC o), <- (HD o) in E2.
    destruct (fst o).
    { injection E1 as <- <-. injection E2 as <- <-. split; [reflexivity|]. repeat split; auto. }
    destruct (hcon w1 o); [destruct (hdict w1 o t)|];
      injection E1 as <- <-; injection E2 as <- <-; (split; [reflexivity|]); repeat split; auto.
  - (* OHSet *)
    rewrite <- (HC o) in E2.
    destruct (fst o).
    { injection E1 as <- <-. injection E2 as <- <-. split; [reflexivity|]. repeat split; auto. }
    destruct (hcon w1 o);
      injection E1 as <- <-; injection E2 as <- <-; (split; [reflexivity|]); repeat split; simpl; auto.
    + intros o0. rewrite HC. reflexivity.
    + intros o0. destruct (obj_eqb o o0); auto. rewrite Nat.eqb_refl. reflexivity.
  - (* ODNew *)
    rewrite <- HP in E2.
    injection E1 as <- <-; injection E2 as <- <-; (split; [reflexivity|]); repeat split; simpl; auto.
    rewrite Nat.eqb_refl. reflexivity.
  - (* ODCopy *)
    rewrite <- HP in E2.
    destruct (nth_error (heap w1 t) d);
      injection E1 as <- <-; injection E2 as <- <-; (split; [reflexivity|]); repeat split; simpl; auto.
    rewrite Nat.eqb_refl. reflexivity.
  - (* ODGet *)
    rewrite <- HP in E2.
    destruct (nth_error (heap w1 t) d) as [l|]; [destruct (d_get l k)|];
      injection E1 as <- <-; injection E2 as <- <-; (split; [reflexivity|]); repeat split; auto.
  - (* ODSet *)
    rewrite <- HP in E2.
    destruct (nth_error (heap w1 t) d);
      injection E1 as <- <-; injection E2 as <- <-; (split; [reflexivity|]); repeat split; simpl; auto.
    rewrite Nat.eqb_refl. reflexivity.
  - (* ODClear *)
    rewrite <- HP in E2.
    destruct (nth_error (heap w1 t) d);
      injection E1 as <- <-; injection E2 as <- <-; (split; [reflexivity|]); repeat split; simpl; auto.
    rewrite Nat.eqb_refl. reflexivity.
  - (* ODItems *)
    rewrite <- HP in E2.
    destruct (nth_error (heap w1 t) d);
      injection E1 as <- <-; injection E2 as <- <-; (split; [reflexivity|]); repeat split; auto.
  - (* OOut *)
    injection E1 as <- <-; injection E2 as <- <-; (split; [reflexivity|]); repeat split; auto.
Qed.

(* (2) the frame: a calm step of another thread u leaves everything t can
       observe as it was *)
Lemma step_veq_other sl t u p w w' r :
  u <> t -> below sl w -> op_calm sl p ->
  step u p w = (w', r) ->
  veq t w w'.
Proof.
  intros Hut Hb Hc E.
  assert (Hf : (u =? t) = false) by (apply Nat.eqb_neq; assumption).
  unfold step, exec, sel_instance in E.
  destruct p; simpl in E, Hc.
  - (* OPro *)
    rewrite (Hb o Hc) in E. injection E as <- <-.
    repeat split; simpl; auto.
    intros o0 a. destruct (obj_eqb o o0) eqn:He; auto.
    rewrite Hf. simpl. destruct (obj_eqb_spec o o0); [subst; reflexivity|discriminate].
  - destruct (negb (a <? nprops (fst o))); [injection E as <- <-; apply veq_refl|].
    destruct (slot w o); [destruct (cell w o u a)|]; injection E as <- <-; apply veq_refl.
  - (* OSet *)
    destruct (negb (a <? nprops (fst o))); [injection E as <- <-; apply veq_refl|].
    destruct (slot w o); injection E as <- <-; [|apply veq_refl].
    repeat split; simpl; auto.
    intros o0 a0. destruct (obj_eqb_spec o o0); [subst|reflexivity].
    rewrite Hf. reflexivity.
  - (* ODel *)
    destruct (negb (a <? nprops (fst o))); [injection E as <- <-; apply veq_refl|].
    destruct (slot w o); [destruct (cell w o u a)|]; injection E as <- <-; try apply veq_refl.
    repeat split; simpl; auto.
    intros o0 a0. destruct (obj_eqb_spec o o0); [subst|reflexivity].
    rewrite Hf. reflexivity.
  - contradiction.
  - destruct (fst o); [injection E as <- <-; apply veq_refl|].
    destruct (hcon w o); [destruct (hdict w o u)|]; injection E as <- <-; apply veq_refl.
  - (* OHSet *)
    destruct (fst o); [injection E as <- <-; apply veq_refl|].
    destruct (hcon w o) eqn:Hh; injection E as <- <-; [|apply veq_refl].
    repeat split; simpl; auto.
    + intros o0. destruct (obj_eqb_spec o o0); [subst; auto|reflexivity].
    + intros o0. destruct (obj_eqb_spec o o0); [subst|reflexivity]. rewrite Hf. reflexivity.
  - injection E as <- <-. repeat split; simpl; auto. rewrite Hf. reflexivity.
  - destruct (nth_error (heap w u) d); injection E as <- <-; [|apply veq_refl].
    repeat split; simpl; auto. rewrite Hf. reflexivity.
  - destruct (nth_error (heap w u) d) as [l|]; [destruct (d_get l k)|]; injection E as <- <-; apply veq_refl.
  - destruct (nth_error (heap w u) d); injection E as <- <-; [|apply veq_refl].
    repeat split; simpl; auto. rewrite Hf. reflexivity.
  - destruct (nth_error (heap w u) d); injection E as <- <-; [|apply veq_refl].
    repeat split; simpl; auto. rewrite Hf. reflexivity.
  - destruct (nth_error (heap w u) d); injection E as <- <-; apply veq_refl.
  - injection E as <- <-. apply veq_refl.
Qed.

(* stores are never taken away *)
Lemma step_below sl u p w w' r : below sl w -> step u p w = (w', r) -> below sl w'.
Proof.
  intros Hb E o Ho. specialize (Hb o Ho).
  unfold step, exec, sel_instance in E.
  destruct p; simpl in E.
  - injection E as <- <-. simpl.
    destruct (slot w o0) eqn:Hs; simpl; auto.
    destruct (obj_eqb o0 o); auto.
  - destruct (negb (a <? nprops (fst o0))); [injection E as <- <-; auto|].
    destruct (slot w o0); [destruct (cell w o0 u a)|]; injection E as <- <-; auto.
  - destruct (negb (a <? nprops (fst o0))); [injection E as <- <-; auto|].
    destruct (slot w o0); injection E as <- <-; auto.
  - destruct (negb (a <? nprops (fst o0))); [injection E as <- <-; auto|].
    destruct (slot w o0); [destruct (cell w o0 u a)|]; injection E as <- <-; auto.
  - destruct (fst o0); injection E as <- <-; auto.
  - destruct (fst o0); [injection E as <- <-; auto|].
    destruct (hcon w o0); [destruct (hdict w o0 u)|]; injection E as <- <-; auto.
  - destruct (fst o0); [injection E as <- <-; auto|].
    destruct (hcon w o0); injection E as <- <-; auto.
  - injection E as <- <-; auto.
  - destruct (nth_error (heap w u) d); injection E as <- <-; auto.
  - destruct (nth_error (heap w u) d) as [l|]; [destruct (d_get l k)|]; injection E as <- <-; auto.
  - destruct (nth_error (heap w u) d); injection E as <- <-; auto.
  - destruct (nth_error (heap w u) d); injection E as <- <-; auto.
  - destruct (nth_error (heap w u) d); injection E as <- <-; auto.
  - injection E as <- <-; auto.
Qed.

(* ---- noninterference ---- *)

Definition events_of (t : tid) (tr : list event) : list event :=
  filter (fun e => Nat.eqb (fst (fst e)) t) tr.

Definition solo (t : tid) (sched : list tid) : list tid := repeat t (count_occ Nat.eq_dec sched t).

Lemma noninterference_gen sl t :
  forall sched pl1 pl2 w1 w2,
    veq t w1 w2 -> pl1 t = pl2 t -> below sl w1 ->
    (forall u, u <> t -> calm sl (pl1 u)) ->
    events_of t (fst (run_fixed sched pl1 w1)) = fst (run_fixed (solo t sched) pl2 w2).
Proof.
  unfold run_fixed, solo.
  induction sched as [|u s IH]; intros pl1 pl2 w1 w2 Hv Hp Hb Hc; [reflexivity|].
  cbn [count_occ].
  destruct (Nat.eq_dec u t) as [->|Hut].
  - (* t's own turn *)
    cbn [repeat run]. rewrite <- Hp.
    destruct (pl1 t) as [|p k] eqn:Hp1.
    + apply IH; auto; congruence.
    + destruct (exec sel_instance t p w1) as [w1' r1] eqn:E1.
      destruct (exec sel_instance t p w2) as [w2' r2] eqn:E2.
      destruct (step_veq_same t p w1 w2 w1' w2' r1 r2 Hv E1 E2) as [<- Hv'].
      destruct (run sel_instance s (upd_pool t (k r1) pl1) w1') as [tr1 f1] eqn:R1.
      destruct (run sel_instance (repeat t (count_occ Nat.eq_dec s t)) (upd_pool t (k r1) pl2) w2')
        as [tr2 f2] eqn:R2.
      simpl. unfold events_of. simpl. rewrite Nat.eqb_refl. f_equal.
      assert (IH' := IH (upd_pool t (k r1) pl1) (upd_pool t (k r1) pl2) w1' w2' Hv').
      rewrite R1, R2 in IH'. simpl in IH'. apply IH'.
      * unfold upd_pool. rewrite Nat.eqb_refl. reflexivity.
      * eapply step_below; eassumption.
      * intros u Hu. unfold upd_pool. destruct (Nat.eqb_spec t u); [congruence|]. apply Hc; assumption.
  - (* another thread's turn *)
    cbn [run].
    destruct (pl1 u) as [|p k] eqn:Hp1.
    + apply IH; auto.
    + destruct (exec sel_instance u p w1) as [w1' r1] eqn:E1.
      destruct (run sel_instance s (upd_pool u (k r1) pl1) w1') as [tr1 f1] eqn:R1.
      simpl. unfold events_of. simpl.
      destruct (Nat.eqb_spec u t); [contradiction|].
      assert (Hcu := Hc u Hut). rewrite Hp1 in Hcu. inversion Hcu as [|p' k' Hop Hk]; subst.
      assert (IH' := IH (upd_pool u (k r1) pl1) pl2 w1' w2).
      rewrite R1 in IH'. simpl in IH'. apply IH'.
      * eapply veq_trans; [apply veq_sym; eapply step_veq_other; eassumption|assumption].
      * unfold upd_pool. destruct (Nat.eqb_spec u t); [contradiction|]. assumption.
      * eapply step_below; eassumption.
      * intros u' Hu'. unfold upd_pool. destruct (Nat.eqb_spec u u'); [subst; apply Hk|apply Hc; assumption].
Qed.

Lemma C08_noninterference_lemma :
  forall (sched : list tid) (pl : pool) (w0 : world) (t : tid),
    (forall u, u <> t -> calm (slot w0) (pl u)) ->
    events_of t (fst (run_fixed sched pl w0)) = fst (run_fixed (solo t sched) pl w0).
Proof.
  intros sched pl w0 t Hc.
  apply (noninterference_gen (slot w0)); auto using veq_refl.
  intros o Ho; exact Ho.
Qed.

(* ---- the request lifecycle stays inside the calm vocabulary ---- *)

Definition frag_calm (sl : obj -> bool) (h : frag) : Prop :=
  forall k, (forall r, calm sl (k r)) -> calm sl (h k).

Ltac calm_step :=
  match goal with
  | |- calm _ (Do _ _) => constructor; [simpl; auto|intros ?]
  | |- calm _ (do_set _ _ _ _ _) => unfold do_set
  | |- calm _ (match ?r with _ => _ end) => destruct r
  | |- calm _ Done => constructor
  end.

Lemma init_resp_calm sl n : sl (CResp, n) = true -> frag_calm sl (init_resp n).
Proof. intros Hs k Hk. unfold init_resp. repeat (calm_step; auto). Qed.

Lemma set_environ_calm sl o v : frag_calm sl (set_environ o v).
Proof. intros k Hk. unfold set_environ. repeat (calm_step; auto). Qed.

Lemma init_req_calm sl n v : sl (CReq, n) = true -> frag_calm sl (init_req n v).
Proof.
  intros Hs k Hk. unfold init_req.
  constructor; [exact Hs|intros _].
  apply set_environ_calm. intros r. repeat (calm_step; auto).
Qed.

Ltac calm_big :=
  match goal with
  | |- calm _ (init_req _ _ _) => apply init_req_calm; [assumption|intros ?]
  | |- calm _ (init_resp _ _) => apply init_resp_calm; [assumption|intros ?]
  | H : frag_calm _ ?h |- calm _ (?h _) => apply H; intros ?
  | |- _ => calm_step
  end.

Lemma lifecycle_calm sl rq rs path h clen :
  sl (CReq, rq) = true -> sl (CResp, rs) = true -> frag_calm sl h ->
  calm sl (lifecycle rq rs path h clen).
Proof.
  intros Hq Hs Hh. unfold lifecycle, with_fresh.
  repeat (calm_big; auto).
Qed.

Lemma C08_request_lifecycle_lemma :
  forall (sched : list tid) (w0 : world) (rq rs : nat)
         (path : tid -> val) (handler : tid -> frag) (clen : tid -> val) (t : tid),
    slot w0 (CReq, rq) = true -> slot w0 (CResp, rs) = true ->
    (forall u, frag_calm (slot w0) (handler u)) ->
    let pl := fun u => lifecycle rq rs (path u) (handler u) (clen u) in
    events_of t (fst (run_fixed sched pl w0)) = fst (run_fixed (solo t sched) pl w0).
Proof.
  intros sched w0 rq rs path handler clen t Hq Hs Hh pl.
  apply C08_noninterference_lemma. intros u _. apply lifecycle_calm; auto.
Qed.

(* ---- what the frame needs: the HeaderDict constructor run by another thread
        on a shared response object does change what t observes ---- *)
Lemma hnew_breaks_the_frame :
  exists sched pl w0 t,
    (forall u, u <> t -> match pl u with Do (OHNew _) _ => True | _ => False end) /\
    events_of t (fst (run_fixed sched pl w0)) <> fst (run_fixed (solo t sched) pl w0).
Proof.
  pose (o := (CResp, 0)).
  pose (p0 := new_resp 0 (fun _ => Do (OHGet o) (fun _ => Done))).
  pose (p1 := Do (OHNew o) (fun _ => Done)).
  exists (repeat 0 12 ++ [1; 0]), (fun u => match u with 0 => p0 | _ => p1 end), w_empty, 0.
  split.
  - intros [|u] Hu; [congruence|exact I].
  - vm_compute. discriminate.
Qed.

(* ---- the concrete instance used by Example C08_nonvacuous ---- *)
Definition ex_w0 : world :=
  snd (snd (run_fixed (repeat 0 40)
                      (upd_pool 0 (cmd_frag (CInitReq0 0) (fun _ => cmd_frag (CNewResp 0) (fun _ => Done)))
                                (fun _ => Done)) w_empty)).

Definition ex_handler (u : tid) : frag := fun k =>
  cmd_frag (CHdrSet 0 4 (CVInt (Z.of_nat u))) (fun _ =>
  cmd_frag (CSet CResp 0 a_status_code (CVInt (200 + Z.of_nat u))) k).

Definition ex_pool : pool := fun u =>
  lifecycle 0 0 (VStr [47%N; (96 + N.of_nat u)%N]) (ex_handler u) (VInt (Z.of_nat u)).

Definition outs (tr : list event) : list (tid * result) :=
  flat_map (fun e => match e with (t, OOut r, _) => [(t, r)] | _ => [] end) tr.

