(* C12_any.v — with C06_data_sections_closed_any_input (mpB1: on ARBITRARY bytes
   and chunking every data section of the streaming parser after the preamble
   ends at the first occurrence of the delimiter): whatever is sent, a delivered
   field is exactly the bytes from the start of its data section up to the first
   delimiter CRLF--B that follows — never a truncated part. *)
From Verif Require Import lib.Base lib.Str lib.Utf8.
From Verif Require Import model.Stream model.Body model.MultipartRef model.Multipart model.Fields model.BodyPipeline.
From Verif Require Import proofs.C06_arbitrary proofs.C12_delivered.
Local Open Scope Z_scope.

(* the item is the data from offset ds up to the FIRST delimiter at or after ds *)
Definition closed_any (B body : bytes) (it : item) : Prop :=
  match it with
  | IText (Some v) =>
    exists ds q, findb (token B) (skipn ds body) = Some q /\
                 (ds + q + length (token B) <= length body)%nat /\
                 utf8_dec (firstn q (skipn ds body)) = Some v
  | IText None => True                                   (* empty file name (F10): nothing delivered *)
  | IFile _ _ _ w =>
    exists ds q, w = (Z.of_nat ds, Z.of_nat (ds + q)) /\
                 findb (token B) (skipn ds body) = Some q /\
                 (ds + q + length (token B) <= length body)%nat
  end.

Lemma delivered_closed_any B parts it :
  contains_char N.eqb CR B = false ->
  delivered_ok (concat parts) (fst (markup_chunks B parts)) it ->
  closed_any B (concat parts) it.
Proof.
  intros HB. destruct (fst (markup_chunks B parts)) as [|first rest] eqn:E.
  - destruct it as [[v|]|n fn ct w]; cbn [delivered_ok closed_any tl In]; try tauto.
    intros (ds & de & [] & _).
  - destruct it as [[v|]|n fn ct w]; cbn [delivered_ok closed_any tl]; [|trivial|].
    + intros (s & e & Hin & Hv).
      destruct (data_sections_closed_any_input B parts first rest s e HB E Hin)
        as (ds & q & -> & -> & Hlen & _ & _ & Hf).
      exists ds, q. split; [exact Hf|]. split; [exact Hlen|].
      replace (Z.of_nat (ds + q) - Z.of_nat ds) with (Z.of_nat q) in Hv by lia.
      destruct (Z.eqb_spec (Z.of_nat q) 0) as [E0|E0].
      * subst v. replace q with 0%nat by lia. reflexivity.
      * unfold read_at in Hv. destruct (Z.ltb_spec (Z.of_nat q) 0); [lia|].
        now rewrite !Nat2Z.id in Hv.
    + intros Hin. destruct w as [s e]. cbn [fst snd] in Hin.
      destruct (data_sections_closed_any_input B parts first rest s e HB E Hin)
        as (ds & q & -> & -> & Hlen & _ & _ & Hf).
      now exists ds, q.
Qed.

Theorem delivered_fields_complete_any_input jk cfg ctype fr s a d :
  process jk cfg ctype fr s a = Ok (VMultipart d) ->
  exists b B cl parts,
    boundary_match ctype = Some b /\ utf8_encode b = Some B /\
    content_length fr = Some cl /\ read_parts cfg cl (fr_te fr) s = RDone parts /\
    forall it, In it (all_items d) -> closed_any B (concat parts) it.
Proof.
  intros H. destruct (delivered_fields_complete jk cfg ctype fr s a d H)
    as (b & B & cl & parts & Hb & HB & HCR & Hcl & Hr & Hall).
  exists b, B, cl, parts. repeat split; try assumption.
  intros it Hit. apply delivered_closed_any; [exact HCR | now apply Hall].
Qed.
