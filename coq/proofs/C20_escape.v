(* C20_escape.v -- escape_safe for common_helpers.html_escape, i.e. for the
   replace chain the translator read from the source (Gen.html_escape_chain).
   Kept out of lib/Html.v so that the model still compiles (and the
   correspondence still runs) when an edited chain breaks these proofs. *)
From Verif Require Import lib.Base lib.Str lib.Html.
From Verif Require gen.Gen.

(* re-checked against the chain the translator read from common_helpers.py on
   every build: an edited chain (dropped replace, '&' no longer first, other
   entity text) breaks this proof *)
Lemma ombott_chain_one c : apply_chain Gen.html_escape_chain [c] = esc1_ombott c.
Proof. unfold esc1_ombott, Gen.html_escape_chain. chain_one c. Qed.

Lemma html_escape_ombott_pointwise s : html_escape_ombott s = flat_map esc1_ombott s.
Proof.
  unfold html_escape_ombott. rewrite apply_chain_pointwise.
  apply flat_map_ext. exact ombott_chain_one.
Qed.

Lemma esc1_ombott_closed c : closed_piece (esc1_ombott c).
Proof.
  unfold esc1_ombott.
  destruct (N.eqb c 38) eqn:E1; [apply closed_entity; simpl; tauto|].
  destruct (N.eqb c 60) eqn:E2; [apply closed_entity; simpl; tauto|].
  destruct (N.eqb c 62) eqn:E3; [apply closed_entity; simpl; tauto|].
  destruct (N.eqb c 34) eqn:E4; [apply closed_entity; simpl; tauto|].
  destruct (N.eqb c 39) eqn:E5; [apply closed_entity; simpl; tauto|].
  apply closed_plain; unfold is_angle, is_quote; now rewrite ?E2, ?E3, ?E4, ?E5.
Qed.

Lemma html_escape_ombott_closed s : closed_piece (html_escape_ombott s).
Proof. rewrite html_escape_ombott_pointwise. apply closed_flat_map, esc1_ombott_closed. Qed.

Theorem escape_safe_ombott s :
  no_angle (html_escape_ombott s) = true /\ no_quote (html_escape_ombott s) = true
  /\ amp_ok (html_escape_ombott s) = true.
Proof.
  destruct (closed_markup_safe _ (html_escape_ombott_closed s)) as [H Q].
  unfold markup_safe in H. apply andb_true_iff in H. tauto.
Qed.

Lemma markup_free_escape_ombott_id s : markup_free s = true -> html_escape_ombott s = s.
Proof.
  intros H. rewrite html_escape_ombott_pointwise.
  induction s as [|c s IH]; simpl; [auto|].
  simpl in H. apply andb_true_iff in H. destruct H as [Hc Hs].
  rewrite (IH Hs).
  unfold is_angle, is_quote in Hc. unfold esc1_ombott.
  destruct (N.eqb c 38), (N.eqb c 60), (N.eqb c 62), (N.eqb c 34), (N.eqb c 39);
    simpl in Hc; rewrite ?orb_true_r in Hc; simpl in Hc; try discriminate; auto.
Qed.
