(* C07_pipeline.v — the round trip through the whole pipeline model
   (BodyPipeline.process): CONTENT_TYPE regex, Content-Length reading under any
   fragmentation schedule and buffer size, streaming parser, field layer. *)
From Verif Require Import lib.Base lib.ListX lib.Str lib.Utf8 gen.Gen.
From Verif Require Import model.Stream model.Body model.MultipartRef model.Multipart model.Fields model.BodyPipeline.
From Verif Require Import proofs.C07_fields proofs.C07_spec proofs.C07_ref proofs.C07_roundtrip proofs.C07_collect
  proofs.C07_full proofs.C07_streaming.
Local Open Scope N_scope.

(* ---- the Content-Length loop delivers exactly the first cl bytes, in parts ---- *)
Lemma read_fst s n : fst (read s n) = firstn (read_len s n) (rest s).
Proof. reflexivity. Qed.

Lemma read_snd_rest s n : rest (snd (read s n)) = skipn (read_len s n) (rest s).
Proof. reflexivity. Qed.

Lemma read_len_le s n : (read_len s n <= n)%nat.
Proof. unfold read_len; destruct (sched s); lia. Qed.

Lemma cl_parts_exact :
  forall fuel s buf rl parts size,
    (0 < buf)%nat -> (length (rest s) < fuel)%nat ->
    exists parts', cl_parts fuel s buf None rl parts size = RDone (parts ++ parts')
                   /\ concat parts' = firstn rl (rest s).
Proof.
  induction fuel as [|f IH]; intros s buf rl parts size Hb Hf; [lia|].
  cbn [cl_parts]. destruct (Nat.eqb_spec rl 0) as [->|Hrl].
  - exists []. rewrite app_nil_r. split; reflexivity.
  - destruct (read s (Nat.min rl buf)) as [part s'] eqn:E.
    assert (Ep : part = firstn (read_len s (Nat.min rl buf)) (rest s)) by (rewrite <- read_fst, E; reflexivity).
    assert (Er : rest s' = skipn (read_len s (Nat.min rl buf)) (rest s)) by (rewrite <- read_snd_rest, E; reflexivity).
    set (k := read_len s (Nat.min rl buf)) in *.
    assert (Hk : (k <= rl)%nat) by (pose proof (read_len_le s (Nat.min rl buf)); unfold k; lia).
    destruct part as [|b part].
    + exists []. rewrite app_nil_r. split; [reflexivity|].
      symmetry in Ep. apply firstn_nil_inv in Ep. destruct Ep as [Hk0|Hnil].
      * exfalso. unfold k, read_len in Hk0. destruct (sched s); lia.
      * rewrite Hnil. now rewrite firstn_nil.
    + cbn [over].
      assert (Hlen : length (b :: part) = Nat.min k (length (rest s))) by (rewrite Ep; apply firstn_length).
      destruct (IH s' buf (rl - length (b :: part))%nat (parts ++ [b :: part]) (size + length (b :: part))%nat Hb)
        as (parts' & Heq & Hcat).
      { rewrite Er, skipn_length. simpl length in Hlen. lia. }
      exists ((b :: part) :: parts'). rewrite Heq, <- app_assoc. split; [reflexivity|].
      cbn [concat]. rewrite Hcat, Er.
      destruct (Nat.le_gt_cases k (length (rest s))) as [Hle|Hgt].
      * replace (length (b :: part)) with k by lia. rewrite Ep. now apply firstn_firstn_skipn.
      * (* the stream is exhausted by this read *)
        rewrite skipn_all2 by lia. rewrite firstn_nil, app_nil_r.
        rewrite Ep. rewrite firstn_all2 by lia. rewrite firstn_all2; [reflexivity|]. lia.
Qed.

Lemma read_parts_cl_exact cfg body sc :
  (0 < c_memfile cfg)%nat -> c_maxbody cfg = None ->
  exists parts, read_parts cfg (mkFraming (Z.of_nat (length body)) false) (stream_init body sc) = RDone parts
                /\ concat parts = body.
Proof.
  intros Hb Hm. unfold read_parts. cbn [fr_chunked fr_cl]. rewrite Hm, Nat2Z.id.
  destruct (cl_parts_exact (S (length (rest (stream_init body sc)))) (stream_init body sc) (c_memfile cfg)
              (length body) [] 0 Hb (Nat.lt_succ_diag_r _)) as (parts & Heq & Hcat).
  exists parts. split; [exact Heq|]. rewrite Hcat. cbn [stream_init rest]. apply firstn_all.
Qed.

(* ---- the CONTENT_TYPE a browser sends: multipart/form-data; boundary=b ---- *)
Definition mp_ctype (b : str) : str :=
  [109;117;108;116;105;112;97;114;116;47;102;111;114;109;45;100;97;116;97;59;32;98;111;117;110;100;97;114;121;61] ++ b.

Lemma bgroup_rest_all r : lacks SEMI r -> lacks 10 r -> bgroup_rest r = Some r.
Proof.
  induction r as [|c r IH]; intros Hs Hl; [reflexivity|].
  apply lacks_cons in Hs, Hl. destruct Hs as [Hc Hs], Hl as [Hc' Hl].
  cbn [bgroup_rest]. unfold LFc. rewrite Hc, Hc'. now rewrite (IH Hs Hl).
Qed.

Lemma boundary_match_mp b :
  b <> [] -> lacks SEMI b -> lacks 10 b -> boundary_match (mp_ctype b) = Some b.
Proof.
  intros Hne Hs Hl.
  assert (Hg : bgroup b = Some b).
  { destruct b as [|c b']; [congruence|]. apply lacks_cons in Hs, Hl.
    destruct Hs as [_ Hs], Hl as [Hc Hl]. cbn [bgroup]. unfold LFc. rewrite Hc.
    now rewrite (bgroup_rest_all b' Hs Hl). }
  unfold boundary_match, mp_ctype. cbn. rewrite Hg. reflexivity.
Qed.

Lemma lacks_contains c s : lacks c s -> contains_char N.eqb c s = false.
Proof.
  unfold contains_char, lacks. induction s as [|x s IH]; [reflexivity|].
  simpl. rewrite andb_true_iff, negb_true_iff. intros [Hx Hs]. rewrite Hx. now apply IH.
Qed.

Definition form_access (a : access) : Prop := match a with AForms | AFiles | APost => True | _ => False end.

(* Request.forms / files / POST through the whole pipeline *)
Theorem roundtrip_pipeline jk cfg b fs sc a :
  form_access a ->
  b <> [] -> lacks SEMI b -> lacks 10 b -> lacks 13 b -> scalars b ->
  parts_ok (utf8_enc_str b) fs ->
  (0 < c_memfile cfg)%nat -> c_maxbody cfg = None ->
  (total_cost fs <= Z.of_nat (c_memfile cfg))%Z ->
  let body := enc_form (utf8_enc_str b) fs in
  exists d,
    process jk cfg (mp_ctype b) (mkFraming (Z.of_nat (length body)) false) (stream_init body sc) a
      = Ok (VMultipart d)
    /\ view body d = Some (expected fs).
Proof.
  intros Ha Hne Hs Hl Hcr Hsc Hok Hmem Hmax Hcost body.
  set (B := utf8_enc_str b) in *.
  assert (HB : lacks 13 B) by (apply utf8_lacks_low; [reflexivity | exact Hcr]).
  destruct (read_parts_cl_exact cfg body sc Hmem Hmax) as (parts & Hread & Hcat).
  destruct (roundtrip_streaming B fs (Z.of_nat (c_memfile cfg)) parts HB Hok Hcost Hcat) as (d & Hpost & Hview).
  exists d. split; [|exact Hview].
  assert (Hstage : body_stage cfg (mp_ctype b) (mkFraming (Z.of_nat (length body)) false) (stream_init body sc)
                   = inl (body, Some (markup_chunks B parts))).
  { unfold body_stage. rewrite (boundary_match_mp b Hne Hs Hl).
    rewrite (utf8_encode_some b Hsc). fold B. rewrite (lacks_contains CR B HB).
    rewrite Hread, Hcat. reflexivity. }
  assert (Hp : post_prop jk cfg (mp_ctype b) (mkFraming (Z.of_nat (length body)) false) (stream_init body sc)
               = Ok (VMultipart d)).
  { unfold post_prop.
    assert (Hct : prefixb s_multipart_slash (content_type (mp_ctype b)) = true).
    { unfold content_type, mp_ctype, lower. rewrite map_app. reflexivity. }
    rewrite Hct. cbn [negb]. rewrite Hstage.
    unfold post_of_markup in Hpost. fold body in Hpost.
    destruct (snd (markup_chunks B parts)); [discriminate|].
    destruct (iter_items body (fst (markup_chunks B parts)) (Z.of_nat (c_memfile cfg))); try discriminate.
    congruence. }
  destruct a; cbn [process form_access] in *; try exact Hp; contradiction.
Qed.
