(* C07_pipeline.v — the round trip through the whole pipeline model
   (BodyPipeline.process): CONTENT_TYPE regex, Content-Length reading under any
   fragmentation schedule and buffer size, streaming parser, field layer. *)
From Verif Require Import lib.Base lib.ListX lib.Str lib.Utf8 gen.Gen.
From Verif Require Import model.Stream model.Body model.MultipartRef model.Multipart model.Fields model.BodyPipeline.
From Verif Require Import proofs.C07_fields proofs.C07_spec proofs.C07_ref proofs.C07_roundtrip proofs.C07_collect
  proofs.C07_full proofs.C07_streaming proofs.C04_proofs proofs.C05_proofs proofs.C12_refine.
From Verif Require model.Chunked.
Local Open Scope N_scope.

(* ---- the body and its parts, from the theorems about Body.v (C04) and
   Chunked.v (C05) through the refinement proofs/C12_refine.v ---- *)
Lemma read_parts_of_env cfg cl te s body sp s' :
  Chunked.body_read_env s (c_memfile cfg) (c_maxbody cfg) cl te = BDone body sp s' ->
  exists parts, read_parts cfg cl te s = RDone parts /\ concat parts = body.
Proof.
  intros H. pose proof (read_parts_refines cfg cl te s) as R. rewrite H in R.
  destruct (read_parts cfg cl te s) as [parts| | |]; cbn [refines] in R; try contradiction.
  now exists parts.
Qed.

Lemma read_parts_cl_exact cfg te body sc :
  Chunked.te_chunked te = false -> (0 < c_memfile cfg)%nat -> c_maxbody cfg = None ->
  exists parts, read_parts cfg (Z.of_nat (length body)) te (stream_init body sc) = RDone parts
                /\ concat parts = body.
Proof.
  intros Hte Hb Hm.
  destruct (C04_exact_lemma body sc (c_memfile cfg) (Z.of_nat (length body)) Hb) as (s' & Heq & _).
  rewrite Nat2Z.id, firstn_all in Heq.
  eapply (read_parts_of_env cfg _ te _ body).
  unfold Chunked.body_read_env. rewrite Hte, Hm. exact Heq.
Qed.

Lemma read_parts_chunked_exact cfg cl te cs last tail sc :
  Chunked.te_chunked te = true -> c_maxbody cfg = None ->
  Forall Chunked.chunk_ok cs -> Chunked.last_ok last ->
  Forall (fun c => (Chunked.line_len c <= c_memfile cfg)%nat) cs -> (Chunked.line_len last <= c_memfile cfg)%nat ->
  exists parts, read_parts cfg cl te (stream_init (Chunked.enc_chunked cs last tail) sc) = RDone parts
                /\ concat parts = Chunked.payload_of cs.
Proof.
  intros Hte Hm Hcs Hl Hfit Hlfit.
  destruct (C05_exact_lemma cs last tail (c_memfile cfg) sc Hcs Hl Hfit Hlfit) as (s' & Heq & _).
  eapply (read_parts_of_env cfg cl te).
  unfold Chunked.body_read_env. rewrite Hte, Hm. exact Heq.
Qed.

(* ---- the CONTENT_TYPE a browser sends: multipart/form-data; boundary=b ---- *)
Definition mp_ctype (b : str) : str :=
  [109;117;108;116;105;112;97;114;116;47;102;111;114;109;45;100;97;116;97;59;32;98;111;117;110;100;97;114;121;61] ++ b.

Lemma bgroup_rest_all r : lacks SEMI r -> lacks 10 r -> bgroup_rest r = Some r.
Proof.
  induction r as [|c r IH]; intros Hs Hl; [reflexivity|].
  apply lacks_cons in Hs, Hl. destruct Hs as [Hc Hs], Hl as [Hc' Hl].
  cbn [bgroup_rest]. unfold LFc. rewrite Hc, Hc'. now rewrite (IH Hs Hl).
Qed.

Lemma boundary_match_mp b :
  b <> [] -> lacks SEMI b -> lacks 10 b -> boundary_match (mp_ctype b) = Some b.
Proof.
  intros Hne Hs Hl.
  assert (Hg : bgroup b = Some b).
  { destruct b as [|c b']; [congruence|]. apply lacks_cons in Hs, Hl.
    destruct Hs as [_ Hs], Hl as [Hc Hl]. cbn [bgroup]. unfold LFc. rewrite Hc.
    now rewrite (bgroup_rest_all b' Hs Hl). }
  unfold boundary_match, mp_ctype. cbn. rewrite Hg. reflexivity.
Qed.

Lemma lacks_contains c s : lacks c s -> contains_char N.eqb c s = false.
Proof.
  unfold contains_char, lacks. induction s as [|x s IH]; [reflexivity|].
  simpl. rewrite andb_true_iff, negb_true_iff. intros [Hx Hs]. rewrite Hx. now apply IH.
Qed.

Definition form_access (a : access) : Prop := match a with AForms | AFiles | APost => True | _ => False end.

(* Request.forms / files / POST through the whole pipeline, for any framing that
   delivers the encoded form as the parts [parts] *)
Lemma roundtrip_pipeline_gen jk cfg b fs fr s cl parts a :
  form_access a ->
  b <> [] -> lacks SEMI b -> lacks 10 b -> lacks 13 b -> scalars b ->
  parts_ok (utf8_enc_str b) fs ->
  (total_cost fs <= Z.of_nat (c_memfile cfg))%Z ->
  content_length fr = Some cl ->
  read_parts cfg cl (fr_te fr) s = RDone parts ->
  concat parts = enc_form (utf8_enc_str b) fs ->
  exists d,
    process jk cfg (mp_ctype b) fr s a = Ok (VMultipart d)
    /\ view (enc_form (utf8_enc_str b) fs) d = Some (expected fs).
Proof.
  intros Ha Hne Hs Hl Hcr Hsc Hok Hcost Hcl Hread Hcat.
  set (B := utf8_enc_str b) in *. set (body := enc_form B fs) in *.
  assert (HB : lacks 13 B) by (apply utf8_lacks_low; [reflexivity | exact Hcr]).
  destruct (roundtrip_streaming B fs (Z.of_nat (c_memfile cfg)) parts HB Hok Hcost Hcat) as (d & Hpost & Hview).
  exists d. split; [|exact Hview].
  assert (Hstage : body_stage cfg (mp_ctype b) fr s = inl (body, Some (markup_chunks B parts))).
  { unfold body_stage. rewrite (boundary_match_mp b Hne Hs Hl).
    rewrite (utf8_encode_some b Hsc). fold B. rewrite (lacks_contains CR B HB).
    rewrite Hcl, Hread, Hcat. reflexivity. }
  assert (Hp : post_prop jk cfg (mp_ctype b) fr s = Ok (VMultipart d)).
  { unfold post_prop.
    assert (Hct : prefixb s_multipart_slash (content_type (mp_ctype b)) = true).
    { unfold content_type, mp_ctype, lower. rewrite map_app. reflexivity. }
    rewrite Hct. cbn [negb]. rewrite Hstage.
    unfold post_of_markup in Hpost. fold body in Hpost.
    destruct (snd (markup_chunks B parts)); [discriminate|].
    destruct (iter_items body (fst (markup_chunks B parts)) (Z.of_nat (c_memfile cfg))); try discriminate.
    congruence. }
  destruct a; cbn [process form_access] in *; try exact Hp; contradiction.
Qed.

(* Content-Length framing: CONTENT_LENGTH is any spelling int() reads as the body length *)
Theorem roundtrip_pipeline jk cfg b fs sc a clraw te :
  form_access a ->
  b <> [] -> lacks SEMI b -> lacks 10 b -> lacks 13 b -> scalars b ->
  parts_ok (utf8_enc_str b) fs ->
  (0 < c_memfile cfg)%nat -> c_maxbody cfg = None ->
  (total_cost fs <= Z.of_nat (c_memfile cfg))%Z ->
  let body := enc_form (utf8_enc_str b) fs in
  Chunked.te_chunked te = false ->
  content_length (mkFraming clraw te) = Some (Z.of_nat (length body)) ->
  exists d,
    process jk cfg (mp_ctype b) (mkFraming clraw te) (stream_init body sc) a = Ok (VMultipart d)
    /\ view body d = Some (expected fs).
Proof.
  intros Ha Hne Hs Hl Hcr Hsc Hok Hmem Hmax Hcost body Hte Hcl.
  destruct (read_parts_cl_exact cfg te body sc Hte Hmem Hmax) as (parts & Hread & Hcat).
  now apply (roundtrip_pipeline_gen jk cfg b fs (mkFraming clraw te) _ (Z.of_nat (length body)) parts a).
Qed.

(* chunked framing: every legal chunked encoding of the encoded form — any
   partition into chunks, any hex spelling of the sizes, any chunk extensions,
   any trailer — under any read schedule, whatever Content-Length says *)
Theorem roundtrip_pipeline_chunked jk cfg b fs cs last tail sc a clraw te :
  form_access a ->
  b <> [] -> lacks SEMI b -> lacks 10 b -> lacks 13 b -> scalars b ->
  parts_ok (utf8_enc_str b) fs ->
  c_maxbody cfg = None ->
  (total_cost fs <= Z.of_nat (c_memfile cfg))%Z ->
  let body := enc_form (utf8_enc_str b) fs in
  Chunked.te_chunked te = true ->
  content_length (mkFraming clraw te) <> None ->
  Forall Chunked.chunk_ok cs -> Chunked.last_ok last -> Chunked.payload_of cs = body ->
  Forall (fun c => (Chunked.line_len c <= c_memfile cfg)%nat) cs -> (Chunked.line_len last <= c_memfile cfg)%nat ->
  exists d,
    process jk cfg (mp_ctype b) (mkFraming clraw te) (stream_init (Chunked.enc_chunked cs last tail) sc) a
      = Ok (VMultipart d)
    /\ view body d = Some (expected fs).
Proof.
  intros Ha Hne Hs Hl Hcr Hsc Hok Hmax Hcost body Hte Hcl Hcs Hlast Hpay Hfit Hlfit.
  destruct (content_length (mkFraming clraw te)) as [cl|] eqn:Ecl; [|congruence].
  destruct (read_parts_chunked_exact cfg cl te cs last tail sc Hte Hmax Hcs Hlast Hfit Hlfit)
    as (parts & Hread & Hcat).
  rewrite Hpay in Hcat.
  now apply (roundtrip_pipeline_gen jk cfg b fs (mkFraming clraw te) _ cl parts a).
Qed.
