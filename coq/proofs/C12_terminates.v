(* C12_terminates.v — the read loops of the pipeline never run out of fuel
   (every iteration consumes at least one byte of the stream). *)
From Verif Require Import lib.Base lib.Str lib.PyIntHex.
From Verif Require Import model.Stream model.Body model.BodyPipeline.
From Verif Require model.Chunked.

Lemma read_rest s n :
  length (rest (snd (read s n))) = length (rest s) - length (fst (read s n)).
Proof.
  unfold read. cbn [fst snd rest]. rewrite skipn_length, firstn_length. lia.
Qed.

Lemma read_rest_le s n : length (rest (snd (read s n))) <= length (rest s).
Proof. rewrite read_rest. lia. Qed.

Lemma read_part_le s n : length (fst (read s n)) <= length (rest s).
Proof. unfold read. cbn [fst]. rewrite firstn_length. lia. Qed.

Lemma cl_parts_terminates :
  forall fuel s buf maxb rl parts size,
    length (rest s) < fuel -> cl_parts fuel s buf maxb rl parts size <> ROutOfFuel.
Proof.
  induction fuel as [|f IH]; intros s buf maxb rl parts size Hf; [lia|].
  cbn [cl_parts]. destruct (Nat.eqb rl 0); [discriminate|].
  destruct (read s (Nat.min rl buf)) as [part s'] eqn:E.
  destruct part as [|b part]; [discriminate|].
  destruct (over maxb _); [discriminate|].
  apply IH.
  pose proof (read_rest s (Nat.min rl buf)) as Hr. pose proof (read_part_le s (Nat.min rl buf)) as Hp.
  rewrite E in Hr, Hp. cbn [fst snd] in Hr, Hp. simpl length in *. lia.
Qed.

Lemma ch_payload_p_spec :
  forall fuel s buf maxb rl parts size,
    length (rest s) < fuel ->
    match ch_payload_p fuel s buf maxb rl parts size with
    | PPStop r => r <> ROutOfFuel
    | PPCont s' _ _ => length (rest s') <= length (rest s)
    end.
Proof.
  induction fuel as [|f IH]; intros s buf maxb rl parts size Hf; [lia|].
  cbn [ch_payload_p]. destruct (rl <=? 0)%Z; [lia|].
  destruct (read s _) as [part s'] eqn:E.
  destruct part as [|b part]; [discriminate|].
  destruct (over maxb _); [discriminate|].
  pose proof (read_rest s (Z.to_nat (Z.min rl (Z.of_nat buf)))) as Hr.
  pose proof (read_part_le s (Z.to_nat (Z.min rl (Z.of_nat buf)))) as Hp.
  rewrite E in Hr, Hp. cbn [fst snd] in Hr, Hp. simpl length in Hr, Hp.
  match goal with |- match ch_payload_p f s' ?b ?m ?r ?p ?z with _ => _ end =>
    specialize (IH s' b m r p z) end.
  assert (Hlt : length (rest s') < f) by lia. specialize (IH Hlt).
  destruct (ch_payload_p f s' _ _ _ _ _); [lia | exact IH].
Qed.

(* the size-line scanner: a successful scan has consumed at least one byte *)
Lemma scan_line_le :
  forall k s sr ss d, length (rest (snd (Chunked.scan_line k s sr ss d))) <= length (rest s).
Proof.
  induction k as [|k IH]; intros s sr ss d; cbn [Chunked.scan_line];
    destruct (read s 1) as [c s'] eqn:E;
    pose proof (read_rest_le s 1) as Hr; rewrite E in Hr; cbn [snd] in Hr.
  - exact Hr.
  - destruct c as [|b c]; [exact Hr|].
    destruct (sr && _)%bool; [exact Hr|].
    destruct ss.
    + etransitivity; [apply IH | exact Hr].
    + destruct (_ || _)%bool; (etransitivity; [apply IH | exact Hr]).
Qed.

Lemma scan_line_some :
  forall k s sr ss d digits s1,
    Chunked.scan_line k s sr ss d = (Some digits, s1) -> length (rest s1) < length (rest s).
Proof.
  induction k as [|k IH]; intros s sr ss d digits s1; cbn [Chunked.scan_line];
    destruct (read s 1) as [c s'] eqn:E.
  - discriminate.
  - pose proof (read_rest s 1) as Hr. pose proof (read_part_le s 1) as Hp.
    rewrite E in Hr, Hp. cbn [fst snd] in Hr, Hp.
    destruct c as [|b c]; [discriminate|]. simpl length in Hr, Hp.
    assert (Hlt : length (rest s') < length (rest s)) by lia.
    destruct (sr && _)%bool.
    + intros [= _ <-]. exact Hlt.
    + destruct ss.
      * intros H. pose proof (scan_line_le k s' (N.eqb b 13) true d) as Hle. rewrite H in Hle. cbn [snd] in Hle. lia.
      * destruct (_ || _)%bool; intros H;
          match type of H with Chunked.scan_line k s' ?a ?b' ?c' = _ =>
            pose proof (scan_line_le k s' a b' c') as Hle end;
          rewrite H in Hle; cbn [snd] in Hle; lia.
Qed.

Lemma ch_parts_terminates :
  forall fuel s buf maxb parts size,
    length (rest s) < fuel -> ch_parts fuel s buf maxb parts size <> ROutOfFuel.
Proof.
  induction fuel as [|f IH]; intros s buf maxb parts size Hf; [lia|].
  cbn [ch_parts].
  destruct (Chunked.scan_line buf s false false []) as [[digits|] s1] eqn:E; [|discriminate].
  apply scan_line_some in E.
  destruct (py_int_hex digits) as [rl|]; [|discriminate].
  destruct (rl =? 0)%Z; [discriminate|].
  pose proof (ch_payload_p_spec (S (length (rest s1))) s1 buf maxb rl parts size (Nat.lt_succ_diag_r _)) as Hp.
  destruct (ch_payload_p _ s1 buf maxb rl parts size) as [s2 parts2 size2|r]; [|exact Hp].
  destruct (read s2 1) as [c1 s3] eqn:E3.
  pose proof (read_rest_le s2 1) as H3. rewrite E3 in H3. cbn [snd] in H3.
  destruct (Chunked.is_byte c1 13); [|discriminate].
  destruct (read s3 1) as [c2 s4] eqn:E4.
  pose proof (read_rest_le s3 1) as H4. rewrite E4 in H4. cbn [snd] in H4.
  destruct (Chunked.is_byte c2 10); [|discriminate].
  apply IH. lia.
Qed.

Theorem read_parts_terminates cfg cl te s : read_parts cfg cl te s <> ROutOfFuel.
Proof.
  unfold read_parts. destruct (Chunked.te_chunked te).
  - apply ch_parts_terminates. lia.
  - apply cl_parts_terminates. lia.
Qed.
