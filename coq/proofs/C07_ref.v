(* C07_ref.v — the one-piece reference scanner on the body a browser produces:
   first-occurrence lemmas and the list of sections of [ref B (enc_form B fs)]. *)
From Verif Require Import lib.Base lib.ListX lib.Str lib.Utf8 model.MultipartRef model.Fields.
From Verif Require Import proofs.C07_fields proofs.C07_spec.
Local Open Scope N_scope.

(* ---- find_sub: first occurrence ---- *)
Lemma findb_here t s : prefixb t s = true -> findb t s = Some 0%nat.
Proof. unfold findb, prefixb. intros H. destruct s; simpl; now rewrite H. Qed.

Lemma findb_step t c s :
  prefixb t (c :: s) = false -> findb t (c :: s) = option_map S (findb t s).
Proof. unfold findb, prefixb. intros H. simpl. now rewrite H. Qed.

Lemma prefixb_head_ne a t c s : N.eqb a c = false -> prefixb (a :: t) (c :: s) = false.
Proof. intros H. unfold prefixb. simpl. now rewrite H. Qed.

(* a run of characters different from the first character of t is skipped *)
Lemma findb_skip a t L s :
  lacks a L ->
  findb (a :: t) (L ++ s) = option_map (fun i => (length L + i)%nat) (findb (a :: t) s).
Proof.
  induction L as [|c L IH]; intros H; cbn [app length].
  - destruct (findb (a :: t) s); reflexivity.
  - apply lacks_cons in H. destruct H as [Hc HL].
    rewrite findb_step by (apply prefixb_head_ne; now rewrite N.eqb_sym).
    rewrite (IH HL). destruct (findb (a :: t) s); reflexivity.
Qed.

Lemma is_prefix_app_long (t X r : list N) :
  (length t <= length X)%nat -> is_prefix N.eqb t (X ++ r) = is_prefix N.eqb t X.
Proof.
  revert X; induction t as [|a t IH]; intros X H; [reflexivity|].
  destruct X as [|x X]; simpl in *; [lia|].
  rewrite IH by lia. reflexivity.
Qed.

(* what follows the delimiter does not matter for its first occurrence *)
Lemma findb_app_first t d r :
  findb t (d ++ t) = Some (length d) -> findb t (d ++ t ++ r) = Some (length d).
Proof.
  induction d as [|c d IH]; intros H.
  - simpl. apply findb_here. apply prefixb_app.
  - simpl app in *. unfold findb in *. simpl in H. simpl.
    destruct (is_prefix N.eqb t (c :: d ++ t)) eqn:E; [discriminate|].
    assert (E' : is_prefix N.eqb t (c :: d ++ t ++ r) = false).
    { change (c :: d ++ t ++ r) with ((c :: d) ++ t ++ r). rewrite app_assoc.
      rewrite is_prefix_app_long; [exact E|]. simpl. rewrite app_length. lia. }
    rewrite E'.
    destruct (find_sub N.eqb t (d ++ t)) as [k|] eqn:Ek; [|discriminate].
    simpl in H. injection H as Hk. subst k.
    rewrite (IH eq_refl). reflexivity.
Qed.

Lemma skipn_app_len {A} (p x : list A) n : length p = n -> skipn n (p ++ x) = x.
Proof. intros <-. rewrite skipn_app, skipn_all, Nat.sub_diag. reflexivity. Qed.

Lemma firstn_app_len {A} (p x : list A) n : length p = n -> firstn n (p ++ x) = p.
Proof. intros <-. rewrite firstn_app, Nat.sub_diag, firstn_all. simpl. apply app_nil_r. Qed.

(* ------------------------------------------------------------------ *)
(* the body seen from the delimiters: after "--B" comes, for every part,
   CRLF headers CRLFCRLF data CRLF--B, and finally "--" CRLF *)
Fixpoint enc_rest (B : bytes) (fs : list fld) : bytes :=
  match fs with
  | [] => [HY; HY] ++ CRLF
  | f :: r => CRLF ++ hdr_bytes f ++ H4 ++ data_bytes f ++ token B ++ enc_rest B r
  end.

Lemma enc_form_rest B fs : enc_form B fs = dash_boundary B ++ enc_rest B fs.
Proof.
  unfold enc_form. induction fs as [|f fs IH]; [reflexivity|].
  cbn [flat_map enc_rest]. rewrite <- app_assoc, IH. unfold enc_part, token.
  repeat rewrite <- app_assoc. reflexivity.
Qed.

Lemma enc_rest_length B fs : (length fs <= length (enc_rest B fs))%nat.
Proof.
  induction fs as [|f fs IH]; [simpl; lia|].
  cbn [enc_rest]. rewrite !app_length. simpl length. lia.
Qed.

(* ---- bytes of a line-break-free text contain no CR ---- *)
Lemma utf8_lacks_low (c : N) (s : str) :
  c < 128 -> lacks c s -> lacks c (utf8_enc_str s).
Proof.
  intros Hc. induction s as [|x s IH]; intros H; [reflexivity|].
  apply lacks_cons in H. destruct H as [Hx Hs].
  change (utf8_enc_str (x :: s)) with (utf8_enc x ++ utf8_enc_str s).
  apply lacks_app. split; [|auto].
  destruct (N.lt_ge_cases x 128) as [Hlt|Hge].
  - rewrite utf8_enc_ascii by exact Hlt. apply lacks_cons. split; [exact Hx | apply lacks_nil].
  - pose proof (utf8_enc_high x Hge) as Hh. unfold lacks. apply forallb_forall.
    intros b Hb. rewrite Forall_forall in Hh. specialize (Hh b Hb).
    apply negb_true_iff, N.eqb_neq. lia.
Qed.

Lemma no_linebreak_lacks_cr s : no_linebreak s -> lacks 13 s.
Proof.
  induction s as [|x s IH]; intros H; [reflexivity|].
  apply no_linebreak_cons in H. destruct H as [Hx Hs]. apply lacks_cons. split; [|auto].
  destruct (N.eqb_spec x 13) as [->|]; [discriminate Hx | reflexivity].
Qed.

Lemma no_linebreak_cd_line n : no_linebreak n -> no_linebreak (cd_line n).
Proof.
  intros H. unfold cd_line. apply no_linebreak_app. split; [reflexivity|].
  apply no_linebreak_app. split; [exact H | reflexivity].
Qed.

Lemma no_linebreak_cd_line_file n fn :
  no_linebreak n -> no_linebreak fn -> no_linebreak (cd_line_file n fn).
Proof.
  intros H H'. unfold cd_line_file.
  repeat (apply no_linebreak_app; split); try reflexivity; assumption.
Qed.

Lemma no_linebreak_ct_line ct : no_linebreak ct -> no_linebreak (ct_line ct).
Proof. intros H. unfold ct_line. apply no_linebreak_app. split; [reflexivity | exact H]. Qed.

(* ---- the end of the header block is found where the encoder put it ---- *)
Lemma findb_H4_after U Y : lacks 13 U -> findb H4 (U ++ H4 ++ Y) = Some (length U).
Proof.
  intros H. unfold H4 at 1. unfold CR at 1. rewrite (findb_skip 13 _ U _ H).
  rewrite findb_here by apply prefixb_app. simpl. f_equal. lia.
Qed.

Lemma findb_H4_two_lines U1 U2 Y :
  lacks 13 U1 -> lacks 13 U2 -> U2 <> [] ->
  findb H4 (U1 ++ [13; 10] ++ U2 ++ H4 ++ Y) = Some (length (U1 ++ [13; 10] ++ U2)).
Proof.
  intros H1 H2 Hne. destruct U2 as [|u U2]; [congruence|].
  assert (Hu : N.eqb u 13 = false) by (apply lacks_cons in H2; tauto).
  unfold H4 at 1. unfold CR at 1. rewrite (findb_skip 13 _ U1 _ H1).
  cbn [app]. rewrite findb_step.
  2:{ unfold prefixb, LF, CR. cbn [is_prefix]. rewrite !N.eqb_refl.
      destruct (N.eqb_spec 13 u) as [E|]; [subst u; discriminate Hu | reflexivity]. }
  rewrite findb_step by reflexivity.
  change (u :: U2 ++ H4 ++ Y) with ((u :: U2) ++ H4 ++ Y).
  fold CR. fold H4. rewrite (findb_H4_after (u :: U2) Y H2).
  cbn [option_map]. f_equal. rewrite !app_length. simpl. lia.
Qed.

Lemma hdr_bytes_H4 f Y :
  fld_ok f -> findb H4 (hdr_bytes f ++ H4 ++ Y) = Some (length (hdr_bytes f)).
Proof.
  destruct f as [n v | n fn ct c]; unfold hdr_bytes, hdr_text.
  - intros [(Hq & Hl & _) _]. apply findb_H4_after. apply utf8_lacks_low; [reflexivity|].
    apply no_linebreak_lacks_cr. now apply no_linebreak_cd_line.
  - intros ((Hq & Hl & _) & (Hq' & Hl' & _) & _ & _ & Hlc & _).
    rewrite !utf8_enc_str_app. change (utf8_enc_str [13; 10]) with [13; 10].
    rewrite <- !app_assoc.
    rewrite findb_H4_two_lines.
    + reflexivity.
    + apply utf8_lacks_low; [reflexivity|]. apply no_linebreak_lacks_cr.
      now apply no_linebreak_cd_line_file.
    + apply utf8_lacks_low; [reflexivity|]. apply no_linebreak_lacks_cr.
      now apply no_linebreak_ct_line.
    + unfold ct_line, ct_prefix. discriminate.
Qed.

(* ---- the sections of the encoded form ---- *)
Fixpoint secs_from (B : bytes) (a : nat) (fs : list fld) : list section :=
  match fs with
  | [] => []
  | f :: r =>
    let hs := (a + 2)%nat in
    let he := (hs + length (hdr_bytes f))%nat in
    let ds := (he + 4)%nat in
    let de := (ds + length (data_bytes f))%nat in
    sec Headers hs he :: sec Data ds de :: secs_from B (de + length (token B))%nat r
  end.

Definition parts_ok (B : bytes) (fs : list fld) : Prop :=
  Forall (fun f => fld_ok f /\ no_delim_in_data B f) fs.

Lemma scan_delim_enc B fs :
  parts_ok B fs ->
  forall pre fuel, (length fs < fuel)%nat ->
    scan_delim fuel (token B) (pre ++ enc_rest B fs) (length pre)
    = (secs_from B (length pre) fs, FStopped).
Proof.
  induction fs as [|f fs IH]; intros Hok pre fuel Hfuel.
  - destruct fuel as [|fu]; [lia|]. cbn [scan_delim enc_rest secs_from].
    rewrite (skipn_app_len pre _ _ eq_refl). reflexivity.
  - destruct fuel as [|fu]; [simpl in Hfuel; lia|].
    inversion Hok as [|f' fs' [Hf Hnd] Hrest]; subst.
    cbn [scan_delim enc_rest secs_from].
    rewrite (skipn_app_len pre _ _ eq_refl).
    change (CRLF ++ hdr_bytes f ++ H4 ++ data_bytes f ++ token B ++ enc_rest B fs)
      with (CR :: LF :: hdr_bytes f ++ H4 ++ data_bytes f ++ token B ++ enc_rest B fs).
    cbn iota. rewrite !N.eqb_refl. cbn [andb].
    (* header block *)
    set (rest1 := data_bytes f ++ token B ++ enc_rest B fs).
    assert (S1 : skipn (length pre + 2)
                   (pre ++ CR :: LF :: hdr_bytes f ++ H4 ++ rest1)
                 = hdr_bytes f ++ H4 ++ rest1).
    { change (pre ++ CR :: LF :: hdr_bytes f ++ H4 ++ rest1)
        with (pre ++ [CR; LF] ++ hdr_bytes f ++ H4 ++ rest1).
      rewrite app_assoc. apply skipn_app_len. rewrite app_length. reflexivity. }
    rewrite S1. rewrite (hdr_bytes_H4 f rest1 Hf).
    (* data section *)
    assert (S2 : skipn (length pre + 2 + length (hdr_bytes f) + 4)
                   (pre ++ CR :: LF :: hdr_bytes f ++ H4 ++ rest1) = rest1).
    { change (pre ++ CR :: LF :: hdr_bytes f ++ H4 ++ rest1)
        with (pre ++ [CR; LF] ++ hdr_bytes f ++ H4 ++ rest1).
      rewrite !app_assoc. apply skipn_app_len. rewrite !app_length. reflexivity. }
    rewrite S2. unfold rest1 at 1.
    rewrite (findb_app_first (token B) (data_bytes f) (enc_rest B fs) Hnd).
    (* the rest, after the delimiter *)
    set (pre' := pre ++ [CR; LF] ++ hdr_bytes f ++ H4 ++ data_bytes f ++ token B).
    assert (Lp : length pre' = (length pre + 2 + length (hdr_bytes f) + 4 + length (data_bytes f)
                                + length (token B))%nat).
    { unfold pre'. rewrite !app_length. simpl length. lia. }
    assert (Eb : pre ++ CR :: LF :: hdr_bytes f ++ H4 ++ rest1 = pre' ++ enc_rest B fs).
    { unfold pre', rest1. repeat rewrite <- app_assoc. reflexivity. }
    rewrite Eb, <- Lp.
    rewrite (IH Hrest pre' fu) by (simpl in Hfuel; lia).
    unfold cons_secs. cbn [fst snd app]. rewrite Lp. reflexivity.
Qed.

Theorem ref_enc_form B fs :
  parts_ok B fs ->
  ref B (enc_form B fs) = (sec Data 0 0 :: secs_from B (length (dash_boundary B)) fs, FStopped).
Proof.
  intros Hok. rewrite enc_form_rest. unfold ref.
  change (dash_boundary B ++ enc_rest B fs) with (HY :: HY :: B ++ enc_rest B fs).
  cbn iota. unfold virt. rewrite (N.eqb_refl HY). rewrite orb_true_r.
  change (CRLF ++ HY :: HY :: B ++ enc_rest B fs) with (token B ++ enc_rest B fs).
  rewrite findb_here by apply prefixb_app.
  change (HY :: HY :: B ++ enc_rest B fs) with (dash_boundary B ++ enc_rest B fs).
  assert (La : (0 + length (token B) - length CRLF)%nat = length (dash_boundary B)) by (simpl; lia).
  rewrite La.
  rewrite (scan_delim_enc B fs Hok (dash_boundary B)).
  - reflexivity.
  - rewrite app_length. pose proof (enc_rest_length B fs). lia.
Qed.
