(* C16_proofs.v — normal form of posixpath.normpath, lexical containment of the
   target under static_file's prefix test, status/open behaviour of the gate. *)
From Verif Require Import lib.Base lib.ListX lib.Str lib.StrX lib.PyIntParse model.Static model.Range
     proofs.C17_serve.
Local Open Scope N_scope.

Definition sepfree (c : str) : Prop := contains_char N.eqb SEP c = false.

(* a path component as normpath leaves it: non-empty, not ".", without '/' *)
Definition clean (c : str) : Prop := c <> [] /\ c <> s_dot /\ sepfree c.

(* ------------------------------------------------------------------ *)
(* the component loop of normpath                                      *)
(* ------------------------------------------------------------------ *)
Definition stack_inv (isl : nat) (st : list str) : Prop :=
  Forall clean st /\ (isl <> 0%nat -> ~ In s_dotdot st).

Lemma is_nil_spec {A} (l : list A) : is_nil l = true <-> l = [].
Proof. destruct l; simpl; split; congruence. Qed.

Lemma norm_step_inv isl st comp :
  sepfree comp -> stack_inv isl st -> stack_inv isl (norm_step isl st comp).
Proof.
  intros Hs [Hc Hd]. unfold norm_step.
  destruct (is_nil comp || str_eqb comp s_dot) eqn:E1; [split; assumption|].
  apply orb_false_iff in E1 as [En Edot].
  match goal with |- stack_inv _ (if ?c then _ else _) => destruct c eqn:E2 end.
  - split.
    + constructor; [|exact Hc]. repeat split.
      * intros ->. discriminate.
      * intros ->. rewrite str_eqb_refl in Edot. discriminate.
      * exact Hs.
    + intros Hisl [Heq|Hin]; [|now apply Hd].
      subst comp. rewrite str_eqb_refl in E2. cbn [negb orb] in E2.
      destruct (Nat.eqb_spec isl 0) as [|_]; [congruence|]. cbn [andb orb] in E2.
      destruct st as [|t st']; [discriminate|].
      apply str_eqb_eq in E2. subst t. apply (Hd Hisl). now left.
  - destruct st as [|t st']; [split; [constructor|intros _ []]|].
    inversion Hc; subst. split; [assumption|].
    intros Hisl Hin. apply (Hd Hisl). now right.
Qed.

Lemma fold_norm_inv isl comps : forall st,
  Forall sepfree comps -> stack_inv isl st -> stack_inv isl (fold_left (norm_step isl) comps st).
Proof.
  induction comps as [|c comps IH]; intros st Hf Hi; [exact Hi|].
  inversion Hf; subst. cbn [fold_left]. apply IH; [assumption|]. now apply norm_step_inv.
Qed.

Lemma norm_comps_clean isl s :
  let comps := norm_comps isl (split_all N.eqb SEP s) in
  Forall clean comps /\ (isl <> 0%nat -> ~ In s_dotdot comps).
Proof.
  unfold norm_comps.
  destruct (fold_norm_inv isl (split_all N.eqb SEP s) []) as [Hc Hd].
  - apply split_all_sepfree.
  - split; [constructor|intros _ []].
  - split.
    + apply Forall_rev. exact Hc.
    + intros Hisl Hin. apply (Hd Hisl). now apply in_rev.
Qed.

Lemma initial_slashes_le2 p : (initial_slashes p <= 2)%nat.
Proof.
  unfold initial_slashes.
  repeat match goal with
         | |- context[match ?l with [] => _ | _ :: _ => _ end] => destruct l
         | |- context[if ?c then _ else _] => destruct c
         end; lia.
Qed.

Lemma initial_slashes_abs p : isabs p = true -> (initial_slashes p = 1 \/ initial_slashes p = 2)%nat.
Proof.
  destruct p as [|c p]; [discriminate|]. cbn [isabs initial_slashes]. intros ->.
  repeat match goal with
         | |- context[match ?l with [] => _ | _ :: _ => _ end] => destruct l
         | |- context[if ?c then _ else _] => destruct c
         end; auto.
Qed.

(* shape of every normpath result *)
Lemma normpath_form p :
  p <> [] ->
  let k := initial_slashes p in
  let comps := norm_comps k (split_all N.eqb SEP p) in
  Forall clean comps /\ (k <> 0%nat -> ~ In s_dotdot comps)
  /\ normpath p = (if is_nil (repeat SEP k ++ join [SEP] comps) then s_dot
                   else repeat SEP k ++ join [SEP] comps).
Proof.
  intros Hp k comps. destruct (norm_comps_clean k p) as [Hc Hd].
  split; [exact Hc|]. split; [exact Hd|].
  unfold normpath. destruct p; [congruence|]. reflexivity.
Qed.

Lemma normpath_normal_lemma :
  forall p : str,
    normpath p = s_dot
    \/ exists (k : nat) (comps : list str),
         normpath p = repeat SEP k ++ join [SEP] comps
         /\ (k <= 2)%nat /\ (k <> 0%nat \/ comps <> [])
         /\ Forall clean comps
         /\ (k <> 0%nat -> ~ In s_dotdot comps).
Proof.
  intros p. destruct p as [|c p]; [left; reflexivity|].
  destruct (normpath_form (c :: p)) as (Hc & Hd & E); [congruence|].
  rewrite E. set (k := initial_slashes (c :: p)) in *.
  set (comps := norm_comps k _) in *.
  destruct (is_nil (repeat SEP k ++ join [SEP] comps)) eqn:N; [left; reflexivity|].
  right. exists k, comps. split; [reflexivity|]. split; [apply initial_slashes_le2|].
  split; [|split; assumption].
  destruct k; [right|left; congruence]. intros ->. discriminate.
Qed.

(* an absolute argument: one or two slashes, clean components, no ".." *)
Lemma normpath_abs p :
  isabs p = true ->
  exists (k : nat) (comps : list str),
    normpath p = repeat SEP k ++ join [SEP] comps
    /\ (k = 1 \/ k = 2)%nat /\ Forall clean comps /\ ~ In s_dotdot comps.
Proof.
  intros Ha. assert (Hp : p <> []) by (intros ->; discriminate).
  destruct (normpath_form p Hp) as (Hc & Hd & E).
  pose proof (initial_slashes_abs p Ha) as Hk.
  exists (initial_slashes p), (norm_comps (initial_slashes p) (split_all N.eqb SEP p)).
  split; [|split; [exact Hk|split; [exact Hc|apply Hd; lia]]].
  rewrite E. destruct Hk as [-> | ->]; reflexivity.
Qed.

Lemma abspath_arg_abs cwd x : isabs cwd = true -> isabs (if isabs x then x else path_join cwd x) = true.
Proof.
  intros Hc. destruct (isabs x) eqn:Hx; [exact Hx|].
  unfold path_join. rewrite Hx. destruct cwd as [|c cwd]; [discriminate|].
  destruct (is_nil (c :: cwd) || ends_sep (c :: cwd)); exact Hc.
Qed.

Lemma abspath_normal cwd x :
  isabs cwd = true ->
  exists (k : nat) (comps : list str),
    abspath cwd x = repeat SEP k ++ join [SEP] comps
    /\ (k = 1 \/ k = 2)%nat /\ Forall clean comps /\ ~ In s_dotdot comps.
Proof. intros Hc. unfold abspath. apply normpath_abs. now apply abspath_arg_abs. Qed.

(* ------------------------------------------------------------------ *)
(* components of a normal form                                         *)
(* ------------------------------------------------------------------ *)
Lemma clean_head c : clean c -> exists x w, c = x :: w /\ x <> SEP.
Proof.
  intros (Hne & _ & Hs). destruct c as [|x w]; [congruence|]. exists x, w. split; [reflexivity|].
  unfold sepfree in Hs. simpl in Hs. apply orb_false_iff in Hs as [Hx _].
  now apply N.eqb_neq in Hx.
Qed.

Lemma split_all_join (comps : list (list N)) :
  comps <> [] -> Forall clean comps -> split_all N.eqb SEP (join [SEP] comps) = comps.
Proof.
  induction comps as [|c comps IH]; [congruence|]. intros _ Hf. inversion Hf as [|? ? Hc Hr]; subst.
  destruct comps as [|c2 comps].
  - simpl. apply split_all_nosep. apply Hc.
  - rewrite join_cons by congruence. cbn [app].
    rewrite split_all_app by apply Hc. f_equal. apply IH; [congruence|exact Hr].
Qed.

Lemma filter_clean comps :
  Forall clean comps -> filter (fun c : str => negb (is_nil c)) comps = comps.
Proof.
  induction 1 as [|c l Hc _ IH]; [reflexivity|]. simpl.
  destruct c; [destruct Hc as [Hc _]; congruence|]. simpl. now rewrite IH.
Qed.

Lemma components_normal k comps :
  Forall clean comps -> components (repeat SEP k ++ join [SEP] comps) = comps.
Proof.
  intros Hf. unfold components. induction k as [|k IH].
  - cbn [repeat app]. destruct comps as [|c comps]; [reflexivity|].
    rewrite split_all_join by (congruence || assumption). now apply filter_clean.
  - cbn [repeat app split_all]. rewrite N.eqb_refl. cbn [filter is_nil negb]. exact IH.
Qed.

(* ------------------------------------------------------------------ *)
(* a normal form that starts with another normal form plus '/'         *)
(* ------------------------------------------------------------------ *)
Lemma sepfree_app_sep b a x : sepfree b -> b = a ++ SEP :: x -> False.
Proof.
  unfold sepfree. intros Hb ->. rewrite contains_app in Hb.
  apply orb_false_iff in Hb as [_ Hb]. unfold contains_char in Hb. cbn [existsb] in Hb.
  rewrite N.eqb_refl in Hb. discriminate.
Qed.

Lemma sep_unique : forall a b x y,
  sepfree a -> sepfree b -> a ++ SEP :: x = b ++ SEP :: y -> a = b /\ x = y.
Proof.
  induction a as [|c a IH]; intros [|d b] x y Ha Hb E.
  - injection E as ->. auto.
  - exfalso. simpl in E. injection E as E1 _. subst d.
    unfold sepfree, contains_char in Hb. cbn [existsb] in Hb. rewrite N.eqb_refl in Hb. discriminate.
  - exfalso. simpl in E. injection E as E1 _. subst c.
    unfold sepfree, contains_char in Ha. cbn [existsb] in Ha. rewrite N.eqb_refl in Ha. discriminate.
  - simpl in E. injection E as -> E.
    unfold sepfree in Ha, Hb. simpl in Ha, Hb.
    apply orb_false_iff in Ha as [_ Ha]. apply orb_false_iff in Hb as [_ Hb].
    destruct (IH b x y Ha Hb E) as [-> ->]. auto.
Qed.

Lemma join_prefix : forall (A B : list (list N)) (r : list N),
  A <> [] -> Forall clean A -> Forall clean B ->
  join [SEP] B = (join [SEP] A ++ [SEP]) ++ r ->
  exists cs, B = A ++ cs /\ cs <> [].
Proof.
  induction A as [|a A IH]; intros B r HA HcA HcB E; [congruence|].
  pose proof (Forall_inv HcA) as Ha. pose proof (Forall_inv_tail HcA) as HcA'.
  destruct A as [|a2 A].
  - (* A = [a] *)
    cbn [join] in E. rewrite <- app_assoc in E. cbn [app] in E.
    destruct B as [|b [|b2 B]].
    + exfalso. destruct a; discriminate.
    + exfalso. cbn [join] in E. pose proof (Forall_inv HcB) as Hb.
      eapply sepfree_app_sep; [apply Hb|exact E].
    + rewrite join_cons in E by congruence. cbn [app] in E.
      pose proof (Forall_inv HcB) as Hb.
      destruct (sep_unique b a _ _ (proj2 (proj2 Hb)) (proj2 (proj2 Ha)) E) as [-> _].
      exists (b2 :: B). split; [reflexivity|congruence].
  - (* A = a :: a2 :: A *)
    rewrite join_cons in E by congruence. cbn [app] in E.
    rewrite <- !app_assoc in E. cbn [app] in E.
    destruct B as [|b [|b2 B]].
    + exfalso. destruct a; discriminate.
    + exfalso. cbn [join] in E. pose proof (Forall_inv HcB) as Hb.
      eapply sepfree_app_sep; [apply Hb|exact E].
    + rewrite join_cons in E by congruence. cbn [app] in E.
      pose proof (Forall_inv HcB) as Hb. pose proof (Forall_inv_tail HcB) as HcB'.
      destruct (sep_unique b a _ _ (proj2 (proj2 Hb)) (proj2 (proj2 Ha)) E) as [-> E'].
      destruct (IH (b2 :: B) r) as (cs & Hcs & Hne); [congruence|assumption|assumption| |].
      * rewrite E'. rewrite <- app_assoc. reflexivity.
      * exists cs. split; [now rewrite Hcs|exact Hne].
Qed.

Lemma join_clean_head (B : list (list N)) :
  Forall clean B -> join [SEP] B = [] \/ exists x w, join [SEP] B = x :: w /\ x <> SEP.
Proof.
  intros Hf. destruct B as [|b B]; [now left|]. right.
  inversion Hf as [|? ? Hb _]; subst. destruct (clean_head b Hb) as (x & w & -> & Hx).
  destruct B; [exists x, w; auto|]. rewrite join_cons by congruence. exists x. eexists. split; [reflexivity|exact Hx].
Qed.

(* k slashes then a non-slash: the number of slashes is determined *)
Lemma rep_prefix_eq : forall k k' x w u r,
  x <> SEP -> (u = [] \/ exists y v, u = y :: v /\ y <> SEP) ->
  repeat SEP k' ++ u = (repeat SEP k ++ x :: w) ++ r -> k = k' /\ u = (x :: w) ++ r.
Proof.
  induction k as [|k IH]; intros [|k'] x w u r Hx Hu E; cbn [repeat app] in E.
  - auto.
  - exfalso. injection E as E _. congruence.
  - exfalso. destruct Hu as [->|(y & v & -> & Hy)]; [discriminate|]. injection E as E _. congruence.
  - injection E as E. destruct (IH k' x w u r Hx Hu E) as [-> ->]. auto.
Qed.

Lemma rep_prefix_le : forall m k' u r,
  (u = [] \/ exists y v, u = y :: v /\ y <> SEP) ->
  repeat SEP k' ++ u = repeat SEP m ++ r -> (m <= k')%nat.
Proof.
  induction m as [|m IH]; intros [|k'] u r Hu E; cbn [repeat app] in E; try lia.
  - exfalso. destruct Hu as [->|(y & v & -> & Hy)]; [discriminate|]. injection E as E _. congruence.
  - injection E as E. specialize (IH k' u r Hu E). lia.
Qed.

Lemma prefix_normal k k' A B :
  (k = 1 \/ k = 2)%nat -> (k' = 1 \/ k' = 2)%nat -> Forall clean A -> Forall clean B ->
  prefixb ((repeat SEP k ++ join [SEP] A) ++ [SEP]) (repeat SEP k' ++ join [SEP] B) = true ->
  (exists cs, B = A ++ cs /\ cs <> []) \/ (A = [] /\ k = 1 /\ k' = 2)%nat.
Proof.
  intros Hk Hk' HA HB P. apply prefixb_spec in P as [r E].
  pose proof (join_clean_head B HB) as HuB.
  destruct A as [|a A].
  - right. cbn [join] in E. rewrite app_nil_r in E.
    assert (E2 : repeat SEP k' ++ join [SEP] B = repeat SEP (S k) ++ r).
    { rewrite E. replace (S k) with (k + 1)%nat by lia. rewrite repeat_app. reflexivity. }
    pose proof (rep_prefix_le _ _ _ _ HuB E2). repeat split; lia.
  - left. inversion HA as [|? ? Ha HA']; subst.
    destruct (join_clean_head (a :: A) HA) as [N|(x & w & Ej & Hx)].
    { exfalso. destruct (clean_head a Ha) as (x & w & -> & _). destruct A; discriminate. }
    rewrite Ej in E. rewrite <- !app_assoc in E.
    assert (E2 : repeat SEP k' ++ join [SEP] B = (repeat SEP k ++ x :: w) ++ [SEP] ++ r).
    { rewrite E. rewrite <- !app_assoc. reflexivity. }
    destruct (rep_prefix_eq _ _ _ _ _ _ Hx HuB E2) as [_ E3].
    apply (join_prefix (a :: A) B r); [congruence|assumption|assumption|].
    rewrite E3, Ej. rewrite <- !app_assoc. reflexivity.
Qed.

(* ------------------------------------------------------------------ *)
(* C16_contained                                                       *)
(* ------------------------------------------------------------------ *)
Lemma contained_lemma :
  forall cwd root name : str,
    isabs cwd = true ->
    passes_check cwd root name = true ->
    exists cs : list str,
      components (sf_filename cwd root name) = components (abspath cwd root) ++ cs
      /\ Forall clean cs /\ ~ In s_dotdot cs
      /\ (cs <> [] \/ abspath cwd root = [SEP]).
Proof.
  intros cwd root name Hc P. unfold passes_check, startswith, sf_root in P.
  unfold sf_filename in *.
  set (X := path_join (sf_root cwd root) (strip_slashes name)) in *.
  destruct (abspath_normal cwd root Hc) as (k & A & ER & Hk & HA & HdA).
  destruct (abspath_normal cwd X Hc) as (k' & B & ET & Hk' & HB & HdB).
  rewrite ER, ET in *. rewrite !components_normal by assumption.
  destruct (prefix_normal k k' A B Hk Hk' HA HB P) as [(cs & -> & Hne)|(-> & -> & ->)].
  - exists cs. split; [reflexivity|]. apply Forall_app in HB as [_ HB].
    split; [exact HB|]. split; [|now left].
    intros Hin. apply HdB. apply in_or_app. now right.
  - exists B. split; [reflexivity|]. split; [exact HB|]. split; [exact HdB|]. right. reflexivity.
Qed.

(* the sibling-prefix case: the last root component extended by further
   characters is a different directory, and is refused *)
Lemma sibling_lemma :
  forall cwd root name (A : list str) (d x : str) (rest : list str),
    isabs cwd = true ->
    components (abspath cwd root) = A ++ [d] ->
    components (sf_filename cwd root name) = A ++ [d ++ x] ++ rest ->
    x <> [] ->
    passes_check cwd root name = false.
Proof.
  intros cwd root name A d x rest Hc ER ET Hx.
  destruct (passes_check cwd root name) eqn:P; [exfalso|reflexivity].
  destruct (contained_lemma cwd root name Hc P) as (cs & E & _).
  rewrite ER, ET, <- app_assoc in E. apply app_inv_head in E. cbn [app] in E.
  injection E as E _. apply Hx.
  rewrite <- (app_nil_r d) in E at 2. now apply app_inv_head in E.
Qed.

(* ------------------------------------------------------------------ *)
(* status and open() behaviour                                         *)
(* ------------------------------------------------------------------ *)
Section Status.
Variable pint : str -> option Z.
Variable parse_date : str -> option Z.
Variables fs_exists fs_isfile fs_access : str -> bool.
Variable content : str -> list N.
Variable mtime_of : str -> Z.

Let sf := static_file pint parse_date fs_exists fs_isfile fs_access content mtime_of.

Lemma serve_status file mtime ims_hdr head range_hdr mr :
  let r := sf_serve pint parse_date file mtime ims_hdr head range_hdr mr in
  (r_status r = 200 \/ r_status r = 206 \/ r_status r = 304 \/ r_status r = 416)%Z.
Proof.
  unfold sf_serve. cbv zeta.
  repeat match goal with
         | |- context[match ?x with _ => _ end] => destruct x
         end; cbn [r_status]; auto.
Qed.

Lemma status_lemma :
  forall cwd root name ims_hdr head range_hdr,
    let t := sf_filename cwd root name in
    let r := sf cwd root name ims_hdr head range_hdr in
    (passes_check cwd root name = false -> r_status r = 403%Z /\ r_opened r = false)
    /\ (passes_check cwd root name = true -> fs_exists t = false \/ fs_isfile t = false ->
        r_status r = 404%Z /\ r_opened r = false)
    /\ (passes_check cwd root name = true -> fs_exists t = true -> fs_isfile t = true ->
        fs_access t = false -> r_status r = 403%Z /\ r_opened r = false)
    /\ (r_opened r = true ->
        passes_check cwd root name = true /\ fs_exists t = true /\ fs_isfile t = true /\ fs_access t = true
        /\ head = false /\ r_status r <> 304%Z)
    /\ (r_status r = 200 \/ r_status r = 206 \/ r_status r = 304 \/ r_status r = 403
        \/ r_status r = 404 \/ r_status r = 416)%Z.
Proof.
  intros cwd root name ims_hdr head range_hdr t r. unfold r, sf, static_file, sf_gate. fold t.
  destruct (passes_check cwd root name) eqn:P; cbn [negb].
  2:{ repeat split; intros; cbn in *; try congruence; auto 10;
      match goal with H : _ \/ _ |- _ => destruct H; congruence end. }
  destruct (fs_exists t) eqn:Ex; cbn [negb orb].
  2:{ repeat split; intros; cbn in *; try congruence; auto 10;
      match goal with H : _ \/ _ |- _ => destruct H; congruence end. }
  destruct (fs_isfile t) eqn:Fi; cbn [negb].
  2:{ repeat split; intros; cbn in *; try congruence; auto 10;
      match goal with H : _ \/ _ |- _ => destruct H; congruence end. }
  destruct (fs_access t) eqn:Ac; cbn [negb].
  2:{ repeat split; intros; cbn in *; try congruence; auto 10;
      match goal with H : _ \/ _ |- _ => destruct H; congruence end. }
  split; [discriminate|]. split; [intros _ [H|H]; discriminate|]. split; [discriminate|].
  split.
  - intros Ho. repeat split; try reflexivity.
    + revert Ho. rewrite sf_serve_cases. cbv zeta.
      destruct (not_modified _ _ _); [cbn; congruence|].
      destruct (range_given _); [destruct (get_first_range _ _ _) as [[? ?]|]|];
        destruct head; cbn; congruence.
    + revert Ho. rewrite sf_serve_cases. cbv zeta.
      destruct (not_modified _ _ _); [cbn; congruence|].
      destruct (range_given _); [destruct (get_first_range _ _ _) as [[? ?]|]|];
        destruct head; cbn; congruence.
  - pose proof (serve_status (content t) (mtime_of t) ims_hdr head range_hdr default_maxread) as H.
    cbv zeta in H. tauto.
Qed.

(* the property: whenever open() is reached, the path opened lies below the root *)
Lemma never_outside_lemma :
  forall cwd root name ims_hdr head range_hdr,
    isabs cwd = true ->
    r_opened (sf cwd root name ims_hdr head range_hdr) = true ->
    exists cs : list str,
      components (sf_filename cwd root name) = components (abspath cwd root) ++ cs
      /\ Forall clean cs /\ ~ In s_dotdot cs
      /\ (cs <> [] \/ abspath cwd root = [SEP]).
Proof.
  intros cwd root name ims_hdr head range_hdr Hc Ho.
  destruct (status_lemma cwd root name ims_hdr head range_hdr) as (_ & _ & _ & H & _).
  destruct (H Ho) as (P & _). now apply contained_lemma.
Qed.
End Status.

(* the opened-paths view of Static.v agrees with the response model of Range.v *)
Lemma opened_agree :
  forall pint parse_date fs_exists fs_isfile fs_access content mtime_of cwd root name ims_hdr head range_hdr,
    let g := sf_gate fs_exists fs_isfile fs_access cwd root name in
    let r := static_file pint parse_date fs_exists fs_isfile fs_access content mtime_of
                         cwd root name ims_hdr head range_hdr in
    sf_opened g head (Z.eqb (r_status r) 304)
    = if r_opened r then [sf_filename cwd root name] else [].
Proof.
  intros. unfold r, g, static_file, sf_gate.
  destruct (negb (passes_check cwd root name)); [reflexivity|].
  destruct (negb (fs_exists _) || negb (fs_isfile _)); [reflexivity|].
  destruct (negb (fs_access _)); [reflexivity|].
  cbn [sf_opened]. rewrite sf_serve_cases. cbv zeta.
  destruct (not_modified _ _ _); [destruct head; reflexivity|].
  destruct (range_given _); [destruct (get_first_range _ _ _) as [[? ?]|]|];
    destruct head; reflexivity.
Qed.
