(* C02_proofs.v — method tables, candidate order, Allow, edit histories. *)
From Coq Require Import Sorting.Sorted Sorting.Permutation.
From Verif Require Import lib.Base lib.Str gen.Gen model.RouteSpec model.Dispatch model.Router.

Local Open Scope N_scope.

(* ---------- association-list facts ---------- *)

Lemma mt_get_set t m e k :
  mt_get (mt_set t m e) k = if str_eqb m k then Some e else mt_get t k.
Proof.
  induction t as [|[k0 e0] t IH]; simpl.
  - destruct (str_eqb_spec m k); reflexivity.
  - destruct (str_eqb_spec k0 m) as [->|Hn]; simpl.
    + destruct (str_eqb_spec m k); reflexivity.
    + destruct (str_eqb_spec k0 k) as [->|Hk].
      * destruct (str_eqb_spec m k); [congruence | reflexivity].
      * exact IH.
Qed.

Lemma mt_get_set_all ms : forall t e k,
  mt_get (mt_set_all t ms e) k = if existsb (fun m => str_eqb m k) ms then Some e else mt_get t k.
Proof.
  unfold mt_set_all. induction ms as [|m ms IH]; intros t e k; simpl; [reflexivity|].
  rewrite IH, mt_get_set.
  destruct (existsb (fun m0 => str_eqb m0 k) ms); [now rewrite orb_true_r|].
  rewrite orb_false_r. reflexivity.
Qed.

Lemma mt_get_remove t ms k :
  mt_get (mt_remove t ms) k = if existsb (fun m => str_eqb k m) ms then None else mt_get t k.
Proof.
  unfold mt_remove. induction t as [|[k0 e0] t IH]; simpl.
  - now destruct (existsb _ ms).
  - destruct (existsb (fun m => str_eqb k0 m) ms) eqn:E0; simpl.
    + destruct (str_eqb_spec k0 k) as [->|Hk].
      * now rewrite E0 in *.
      * exact IH.
    + destruct (str_eqb_spec k0 k) as [->|Hk].
      * now rewrite E0.
      * exact IH.
Qed.

Lemma mt_has_get t m : mt_has t m = true <-> exists e, mt_get t m = Some e.
Proof.
  unfold mt_has. destruct (mt_get t m) as [e|]; split; try discriminate; eauto.
  intros [e He]; discriminate.
Qed.

Lemma mt_get_in t m e : mt_get t m = Some e -> In m (map fst t).
Proof.
  induction t as [|[k0 e0] t IH]; simpl; [discriminate|].
  destruct (str_eqb_spec k0 m) as [->|Hn]; [now left | intros H; right; auto].
Qed.

Lemma in_mt_get t m : In m (map fst t) -> exists e, mt_get t m = Some e.
Proof.
  induction t as [|[k0 e0] t IH]; simpl; [tauto|].
  intros [->|H].
  - rewrite str_eqb_refl. eauto.
  - destruct (str_eqb k0 m); eauto.
Qed.

Lemma keys_in_iff t m : In m (map fst t) <-> mt_has t m = true.
Proof.
  rewrite mt_has_get. split; [apply in_mt_get | intros [e He]; eapply mt_get_in; eauto].
Qed.

(* keys stay duplicate-free *)
Lemma keys_set t m e :
  map fst (mt_set t m e) = if mt_has t m then map fst t else map fst t ++ [m].
Proof.
  unfold mt_has. induction t as [|[k0 e0] t IH]; simpl; [reflexivity|].
  destruct (str_eqb_spec k0 m) as [->|Hn]; simpl; [reflexivity|].
  rewrite IH. now destruct (mt_get t m).
Qed.

Lemma nodup_set t m e : NoDup (map fst t) -> NoDup (map fst (mt_set t m e)).
Proof.
  intros H. rewrite keys_set. destruct (mt_has t m) eqn:E; [exact H|].
  assert (Hn : ~ In m (map fst t)) by (intros Hin; apply keys_in_iff in Hin; congruence).
  clear E. induction (map fst t) as [|x l IH]; simpl.
  - constructor; [intros [] | constructor].
  - inversion H as [|? ? Hx Hd]; subst. constructor.
    + rewrite in_app_iff. simpl. intros [Hi|[->|[]]]; [auto | apply Hn; now left].
    + apply IH; [exact Hd | intros Hi; apply Hn; now right].
Qed.

Lemma nodup_set_all ms : forall t e, NoDup (map fst t) -> NoDup (map fst (mt_set_all t ms e)).
Proof.
  unfold mt_set_all. induction ms as [|m ms IH]; intros t e H; simpl; [exact H|].
  apply IH. now apply nodup_set.
Qed.

Lemma nodup_remove t ms : NoDup (map fst t) -> NoDup (map fst (mt_remove t ms)).
Proof.
  unfold mt_remove. induction t as [|[k0 e0] t IH]; simpl; intros H; [constructor|].
  inversion H as [|? ? Hn Hd]; subst.
  destruct (existsb _ ms); simpl; [now apply IH|].
  constructor; [|now apply IH].
  intros Hin. apply Hn. apply in_map_iff in Hin. destruct Hin as [[k e] [<- Hin]].
  apply filter_In in Hin. apply in_map_iff. exists (k, e). tauto.
Qed.

(* ---------- candidate lists (from the source via Gen.v) ---------- *)

Definition s_GET : str := [71; 69; 84].
Definition s_ANY : str := [65; 78; 89].

Lemma cands_shape v :
  cands v = if str_eqb v s_HEAD then [v; s_GET; s_ANY] else [v; s_ANY].
Proof. unfold cands. destruct (str_eqb v s_HEAD); reflexivity. Qed.

Lemma first_cand_spec t cs m e :
  first_cand t cs = Some (m, e) <->
  exists pre post, cs = pre ++ m :: post /\ (forall c, In c pre -> mt_get t c = None) /\ mt_get t m = Some e.
Proof.
  revert m e. induction cs as [|c cs IH]; intros m e; simpl.
  - split; [discriminate|]. intros (pre & post & H & _). destruct pre; discriminate.
  - destruct (mt_get t c) as [e0|] eqn:E.
    + split.
      * intros [= <- <-]. exists [], cs. simpl. repeat split; auto. intros ? [].
      * intros (pre & post & H & Hp & Hm). destruct pre as [|p pre]; simpl in H.
        -- injection H as H1 H2. subst. congruence.
        -- injection H as H1 H2. subst. specialize (Hp p (or_introl eq_refl)). congruence.
    + rewrite IH. split.
      * intros (pre & post & -> & Hp & Hm). exists (c :: pre), post. simpl. repeat split; auto.
        intros x [<-|Hx]; auto.
      * intros (pre & post & H & Hp & Hm). destruct pre as [|p pre]; simpl in H.
        -- injection H as H1 H2. subst. congruence.
        -- injection H as H1 H2. subst. exists pre, post. repeat split; auto. intros x Hx. apply Hp. now right.
Qed.

Lemma first_cand_none t cs : first_cand t cs = None <-> forall c, In c cs -> mt_get t c = None.
Proof.
  induction cs as [|c cs IH]; simpl.
  - split; [intros _ ? [] | reflexivity].
  - destruct (mt_get t c) eqn:E.
    + split; [discriminate|]. intros H. specialize (H c (or_introl eq_refl)). congruence.
    + rewrite IH. split; [intros H x [<-|Hx]; auto | intros H x Hx; apply H; now right].
Qed.

Lemma dispatch_order_lemma : forall t verb,
  let V := upper verb in
  dispatch_verb t verb =
    match mt_get t V with
    | Some e => DCall V e
    | None =>
      match (if str_eqb V s_HEAD then mt_get t s_GET else None) with
      | Some e => DCall s_GET e
      | None => match mt_get t s_ANY with
                | Some e => DCall s_ANY e
                | None => D405 (allow t)
                end
      end
    end.
Proof.
  intros t verb V. unfold dispatch_verb, dispatch_on. fold V. rewrite cands_shape.
  destruct (str_eqb V s_HEAD); simpl.
  - destruct (mt_get t V); [reflexivity|]. destruct (mt_get t s_GET); [reflexivity|].
    now destruct (mt_get t s_ANY).
  - destruct (mt_get t V); [reflexivity|]. now destruct (mt_get t s_ANY).
Qed.

Lemma dispatch_first_lemma : forall t cs m e,
  dispatch_on t cs = DCall m e <->
  exists pre post, cs = pre ++ m :: post /\ (forall c, In c pre -> mt_get t c = None) /\ mt_get t m = Some e.
Proof.
  intros. rewrite <- first_cand_spec. unfold dispatch_on.
  destruct (first_cand t cs) as [[m0 e0]|]; split; intros H; try discriminate; congruence.
Qed.

(* ---------- sorting by code point ---------- *)

Lemma str_ltb_irrefl a : str_ltb a a = false.
Proof. induction a as [|x a IH]; simpl; [reflexivity|]. now rewrite N.ltb_irrefl, N.eqb_refl. Qed.

Lemma str_ltb_trans a : forall b c, str_ltb a b = true -> str_ltb b c = true -> str_ltb a c = true.
Proof.
  induction a as [|x a IH]; intros [|y b] [|z c]; simpl; try discriminate; auto.
  destruct (N.ltb_spec x y) as [Hxy|Hxy].
  - intros _. destruct (N.ltb_spec y z) as [Hyz|Hyz].
    + intros _. destruct (N.ltb_spec x z); [reflexivity | lia].
    + destruct (N.eqb_spec y z) as [->|]; [|discriminate]. intros _.
      destruct (N.ltb_spec x z); [reflexivity | lia].
  - destruct (N.eqb_spec x y) as [->|]; [|discriminate]. intros Hab.
    destruct (N.ltb_spec y z); [reflexivity|].
    destruct (N.eqb_spec y z) as [->|]; [|discriminate]. eauto.
Qed.

Lemma str_ltb_total a : forall b, str_ltb a b = false -> a = b \/ str_ltb b a = true.
Proof.
  induction a as [|x a IH]; intros [|y b]; simpl; try discriminate; auto.
  destruct (N.ltb_spec x y) as [Hxy|Hxy]; [discriminate|].
  destruct (N.eqb_spec x y) as [->|Hne].
  - intros H. rewrite N.ltb_irrefl, N.eqb_refl. destruct (IH b H) as [->|]; auto.
  - intros _. right. destruct (N.ltb_spec y x); [reflexivity | lia].
Qed.

Definition slt (a b : str) : Prop := str_ltb a b = true.

Lemma sorted_insert_perm x l : Permutation (x :: l) (sorted_insert x l).
Proof.
  induction l as [|y l IH]; simpl; [apply Permutation_refl|].
  destruct (str_ltb y x); [|apply Permutation_refl].
  eapply perm_trans; [apply perm_swap | now apply perm_skip].
Qed.

Lemma sort_perm l : Permutation l (sort_strs l).
Proof.
  induction l as [|x l IH]; simpl; [constructor|].
  eapply perm_trans; [apply perm_skip, IH | apply sorted_insert_perm].
Qed.

Lemma sorted_insert_sorted x l :
  ~ In x l -> StronglySorted slt l -> StronglySorted slt (sorted_insert x l).
Proof.
  induction l as [|y l IH]; simpl; intros Hx Hs.
  - repeat constructor.
  - inversion Hs as [|? ? Hs' Hall]; subst.
    destruct (str_ltb y x) eqn:E.
    + constructor; [apply IH; tauto|].
      apply Forall_forall. intros z Hz.
      apply (Permutation_in _ (Permutation_sym (sorted_insert_perm x l))) in Hz.
      destruct Hz as [<-|Hz]; [exact E|]. rewrite Forall_forall in Hall. now apply Hall.
    + assert (Hxy : slt x y).
      { destruct (str_ltb_total _ _ E) as [->|H]; [|exact H]. exfalso. apply Hx. now left. }
      constructor; [exact Hs|]. constructor; [exact Hxy|].
      rewrite Forall_forall in *. intros z Hz. eapply str_ltb_trans; [exact Hxy | now apply Hall].
Qed.

Lemma sort_sorted l : NoDup l -> StronglySorted slt (sort_strs l).
Proof.
  induction l as [|x l IH]; simpl; intros H; [constructor|].
  inversion H as [|? ? Hn Hd]; subst.
  apply sorted_insert_sorted; [|auto].
  intros Hin. apply Hn. eapply Permutation_in; [apply Permutation_sym, sort_perm | exact Hin].
Qed.

(* ---------- histories ---------- *)

(* the specification of a method table: a finite map, edited by the same three
   operations in their plain reading *)
Definition smap := str -> option mentry.

Definition in_strs (k : str) (ms : list str) : bool := existsb (fun m => str_eqb m k) ms.

Definition sstep (f : smap) (o : mop) : smap :=
  match o with
  | MAdd ms e =>
    let ums := map upper ms in
    if existsb (fun m => match f m with Some _ => true | None => false end) ums then f
    else fun k => if in_strs k ums then Some e else f k
  | MSet ms e => let ums := map upper ms in fun k => if in_strs k ums then Some e else f k
  | MRemove ms => fun k => if in_strs k ms then None else f k
  | MAddRaw ms e =>
    if existsb (fun m => match f m with Some _ => true | None => false end) ms then f
    else fun k => if in_strs k ms then Some e else f k
  | MSetRaw ms e => fun k => if in_strs k ms then Some e else f k
  end.

Definition srun (ops : list mop) : smap := fold_left sstep ops (fun _ => None).

Lemma in_strs_sym k ms : existsb (fun m => str_eqb k m) ms = in_strs k ms.
Proof.
  unfold in_strs. induction ms as [|m ms IH]; simpl; [reflexivity|]. rewrite IH. f_equal.
  destruct (str_eqb_spec k m), (str_eqb_spec m k); congruence.
Qed.

Lemma mstep_spec t f o :
  (forall k, mt_get t k = f k) -> forall k, mt_get (mstep t o) k = sstep f o k.
Proof.
  intros H k. destruct o as [ms e|ms e|ms|ms e|ms e]; simpl.
  5:{ rewrite mt_get_set_all. unfold in_strs. now rewrite H. }
  4:{ unfold mt_add, mt_registered.
      assert (E : existsb (fun m => mt_has t m) ms
                  = existsb (fun m => match f m with Some _ => true | None => false end) ms).
      { induction ms as [|m l IHl]; simpl; [reflexivity|]. rewrite IHl. unfold mt_has. now rewrite H. }
      rewrite E. clear E.
      destruct (existsb (fun m => match f m with Some _ => true | None => false end) ms); [apply H|].
      rewrite mt_get_set_all. unfold in_strs. now rewrite H. }
  - unfold mt_add, mt_registered, norm_methods.
    assert (E : existsb (fun m => mt_has t m) (map upper ms)
                = existsb (fun m => match f m with Some _ => true | None => false end) (map upper ms)).
    { induction (map upper ms) as [|m l IHl]; simpl; [reflexivity|].
      rewrite IHl. unfold mt_has. now rewrite H. }
    rewrite E. clear E.
    destruct (existsb (fun m => match f m with Some _ => true | None => false end) (map upper ms));
      [apply H|].
    rewrite mt_get_set_all. unfold in_strs. now rewrite H.
  - unfold norm_methods. rewrite mt_get_set_all. unfold in_strs. now rewrite H.
  - rewrite mt_get_remove, in_strs_sym. now rewrite H.
Qed.

Lemma mstep_nodup t o : NoDup (map fst t) -> NoDup (map fst (mstep t o)).
Proof.
  intros H. destruct o as [ms e|ms e|ms|ms e|ms e]; simpl.
  - unfold mt_add. destruct (mt_registered t (norm_methods ms)); [exact H | now apply nodup_set_all].
  - now apply nodup_set_all.
  - now apply nodup_remove.
  - unfold mt_add. destruct (mt_registered t ms); [exact H | now apply nodup_set_all].
  - now apply nodup_set_all.
Qed.

Lemma history_lemma : forall ops,
  (forall m, mt_get (mrun ops) m = srun ops m) /\ NoDup (map fst (mrun ops)).
Proof.
  intros ops. unfold mrun, srun.
  assert (G : forall t f, (forall k, mt_get t k = f k) -> NoDup (map fst t) ->
                          (forall m, mt_get (fold_left mstep ops t) m = fold_left sstep ops f m)
                          /\ NoDup (map fst (fold_left mstep ops t))).
  { induction ops as [|o ops IH]; intros t f H Hd; simpl; [auto|].
    apply IH; [now apply mstep_spec | now apply mstep_nodup]. }
  apply G; [reflexivity | constructor].
Qed.

(* a rejected add changes nothing *)
Lemma rejected_add_lemma t ms e :
  mt_add t (norm_methods ms) e = None -> mstep t (MAdd ms e) = t.
Proof. simpl. now intros ->. Qed.

(* ---------- Allow ---------- *)

Lemma allow_exact_lemma : forall ops cs a,
  dispatch_on (mrun ops) cs = D405 a ->
  (forall c, In c cs -> mt_get (mrun ops) c = None) /\
  exists l, a = join s_comma l /\ StronglySorted slt l /\
            forall m, In m l <-> mt_has (mrun ops) m = true.
Proof.
  intros ops cs a. unfold dispatch_on.
  destruct (first_cand (mrun ops) cs) as [[m e]|] eqn:E; [discriminate|].
  intros [= <-]. split; [now apply first_cand_none|].
  exists (sort_strs (map fst (mrun ops))). split; [reflexivity|]. split.
  - apply sort_sorted. apply history_lemma.
  - intros m. rewrite <- keys_in_iff. split; intros H.
    + eapply Permutation_in; [apply Permutation_sym, sort_perm | exact H].
    + eapply Permutation_in; [apply sort_perm | exact H].
Qed.

(* ---------- case-insensitivity ---------- *)

Lemma ascii_upper_idem c : ascii_upper (ascii_upper c) = ascii_upper c.
Proof.
  unfold ascii_upper.
  destruct ((97 <=? c) && (c <=? 122)) eqn:E; [|now rewrite E].
  apply andb_true_iff in E. destruct E as [E1 E2].
  apply N.leb_le in E1. apply N.leb_le in E2.
  destruct (97 <=? c - 32) eqn:F; [|reflexivity].
  apply N.leb_le in F. destruct (c - 32 <=? 122) eqn:G; simpl; [|reflexivity].
  lia.
Qed.

Lemma upper_idem s : upper (upper s) = upper s.
Proof. unfold upper. rewrite map_map. apply map_ext. apply ascii_upper_idem. Qed.

Lemma case_insensitive_lemma : forall t ms ms' e verb verb',
  map upper ms = map upper ms' -> upper verb = upper verb' ->
  mstep t (MAdd ms e) = mstep t (MAdd ms' e) /\
  mstep t (MSet ms e) = mstep t (MSet ms' e) /\
  mstep t (MAdd ms e) = mstep t (MAdd (map upper ms) e) /\
  dispatch_verb t verb = dispatch_verb t verb' /\
  dispatch_verb t verb = dispatch_verb t (upper verb).
Proof.
  intros t ms ms' e verb verb' Hm Hv. simpl. unfold norm_methods, dispatch_verb.
  rewrite Hm, Hv, upper_idem. repeat split.
  rewrite map_map. erewrite map_ext; [reflexivity|]. intros a. simpl. symmetry. apply upper_idem.
Qed.

(* ---------- 404 / 405 split (relative to the tree lookup) ---------- *)

Lemma resolve_404_lemma : forall filt R path cs,
  (exists vs hs i, resolve filt R path cs = R404 vs hs i) <->
  (exists vs hs i, get filt true (tree R) (strip_sep path) = GFail vs hs i).
Proof.
  intros filt R path cs. unfold resolve.
  destruct (get filt true (tree R) (strip_sep path)) as [d nm vs hs|vs hs i].
  - split; intros (a & b & c & H); [|discriminate].
    destruct (nth_error (heap R) d) as [rt|]; [|discriminate].
    destruct (dispatch_on (r_methods rt) cs) as [m [h mn]|al]; discriminate.
  - split; intros _; eauto.
Qed.

Lemma resolve_405_lemma : forall filt R path cs a,
  resolve filt R path cs = R405 a ->
  exists d nm vs hs rt,
    get filt true (tree R) (strip_sep path) = GFound d nm vs hs /\
    nth_error (heap R) d = Some rt /\
    a = allow (r_methods rt) /\
    forall c, In c cs -> mt_get (r_methods rt) c = None.
Proof.
  intros filt R path cs a. unfold resolve.
  destruct (get filt true (tree R) (strip_sep path)) as [d nm vs hs|vs hs i]; [|discriminate].
  destruct (nth_error (heap R) d) as [rt|] eqn:E; [|discriminate].
  unfold dispatch_on. destruct (first_cand (r_methods rt) cs) as [[m [h mn]]|] eqn:F; [discriminate|].
  intros [= <-]. exists d, nm, vs, hs, rt. repeat split; auto. now apply first_cand_none.
Qed.

Lemma resolve_ok_lemma : forall filt R path cs d m h kw hs,
  resolve filt R path cs = ROk d m h kw hs ->
  exists nm vs rt mn,
    get filt true (tree R) (strip_sep path) = GFound d nm vs hs /\
    nth_error (heap R) d = Some rt /\
    dispatch_on (r_methods rt) cs = DCall m (h, mn) /\
    kw = make_params (match mn with [] => nm | _ => mn end) vs.
Proof.
  intros filt R path cs d m h kw hs. unfold resolve.
  destruct (get filt true (tree R) (strip_sep path)) as [d0 nm vs hs0|vs hs0 i]; [|discriminate].
  destruct (nth_error (heap R) d0) as [rt|] eqn:E; [|discriminate].
  destruct (dispatch_on (r_methods rt) cs) as [m0 [h0 mn]|al] eqn:F; [|discriminate].
  intros [= <- <- <- <- <-]. exists nm, vs, rt, mn. auto.
Qed.

(* ---------- every method table of a reachable router is an edit history ---------- *)

Definition tables_ok (R : router) : Prop :=
  Forall (fun rt => exists ops, r_methods rt = mrun ops) (heap R).

Lemma mrun_snoc ops o : mrun (ops ++ [o]) = mstep (mrun ops) o.
Proof. unfold mrun. now rewrite fold_left_app. Qed.

Lemma Forall_heap_set (P : route -> Prop) h : forall d r,
  Forall P h -> P r -> Forall P (heap_set h d r).
Proof.
  induction h as [|x h IH]; intros d r Hh Hr; simpl; [constructor|].
  inversion Hh; subst. destruct d; constructor; auto.
Qed.

Lemma tables_ok_add R rule p nm fl ms h name ow :
  tables_ok R -> tables_ok (fst (rt_add R rule p nm fl ms h name ow)).
Proof.
  unfold tables_ok, rt_add. intros H.
  set (found := match rt_match R p fl with Some d => inl (R, d) | None => _ end).
  assert (Hf : match found with
               | inl (R1, d) => Forall (fun rt => exists ops, r_methods rt = mrun ops) (heap R1)
               | inr _ => True
               end).
  { unfold found. destruct (rt_match R p fl); [exact H|].
    destruct (set_at (tree R) p fl 0 (IData (length (heap R))) nm); [|exact I].
    simpl. apply Forall_app. split; [exact H|]. constructor; [|constructor]. now exists []. }
  destruct found as [[R1 d]|e]; [|exact H].
  destruct (nth_error (heap R1) d) as [rt|] eqn:E; [|exact Hf].
  assert (Hrt : exists ops, r_methods rt = mrun ops).
  { rewrite Forall_forall in Hf. apply Hf. eapply nth_error_In; eauto. }
  destruct Hrt as [ops Hops].
  assert (Hset : forall t', (if ow then Some (mt_set_all (r_methods rt) (norm_methods ms) (h, nm))
                             else mt_add (r_methods rt) (norm_methods ms) (h, nm)) = Some t' ->
                            exists ops', t' = mrun ops').
  { intros t' Ht. destruct ow.
    - injection Ht as <-. exists (ops ++ [MSet ms (h, nm)]). rewrite mrun_snoc, <- Hops. reflexivity.
    - exists (ops ++ [MAdd ms (h, nm)]). rewrite mrun_snoc, <- Hops. simpl. now rewrite Ht. }
  destruct (if ow then Some _ else mt_add _ _ _) as [t'|]; [|exact Hf].
  destruct (Hset t' eq_refl) as [ops' Hops'].
  assert (G : Forall (fun rt0 => exists ops0, r_methods rt0 = mrun ops0)
                     (heap_set (heap R1) d (set_methods rt t'))).
  { apply Forall_heap_set; [exact Hf|]. now exists ops'. }
  destruct name as [[|c nme]|]; simpl; try exact G.
  destruct (al_get (named R1) (c :: nme)) as [d0|]; simpl; [|exact G].
  destruct (negb ow && negb (Nat.eqb d0 d)); exact G.
Qed.

Lemma tables_ok_step R c : tables_ok R -> tables_ok (fst (run_cmd R c)).
Proof.
  intros H. destruct c; simpl; try exact H.
  - pose proof (tables_ok_add R rule pattern nm flts methods h name overwrite H) as G.
    destruct (rt_add R rule pattern nm flts methods h name overwrite). exact G.
  - unfold rt_remove_pattern. destruct (rd_remove (tree R) pattern false false); [|exact H].
    destruct (ends_star pattern); exact H.
  - unfold rt_remove_name. destruct (al_get (named R) name); [|exact H].
    destruct (pattern_of_rid R r); [|exact H].
    destruct (rd_remove (tree R) s false true); [|exact H].
    destruct (al_get (routes R) s); exact H.
  - unfold rt_add_hook. destruct (rt_match_hooks R pattern); [exact H|].
    destruct (set_at _ _ _ _ _ _); exact H.
  - unfold rt_remove_hook. destruct (rd_remove (tree R) pattern true false); exact H.
  - unfold rt_remove_method. destruct (rt_match R pattern flts) as [d|]; [|exact H].
    destruct (nth_error (heap R) d) as [rt|] eqn:E; [|exact H].
    unfold tables_ok in *. simpl. apply Forall_heap_set; [exact H|].
    assert (Hrt : exists ops, r_methods rt = mrun ops).
    { rewrite Forall_forall in H. apply H. eapply nth_error_In; eauto. }
    destruct Hrt as [ops Hops]. exists (ops ++ [MRemove ms]). rewrite mrun_snoc, <- Hops. reflexivity.
  - unfold rt_remove_obj. destruct (rt_match R pattern flts) as [d|]; [|exact H].
    destruct (pattern_of_rid R d); [|exact H].
    destruct (rd_remove (tree R) s false true); [|exact H].
    destruct (al_get (routes R) s); exact H.
  - unfold rt_route_method. destruct (rt_match R pattern flts) as [d|]; [|exact H].
    destruct (nth_error (heap R) d) as [rt|] eqn:E; [|exact H].
    assert (Hrt : exists ops, r_methods rt = mrun ops).
    { unfold tables_ok in H. rewrite Forall_forall in H. apply H. eapply nth_error_In; eauto. }
    destruct Hrt as [ops Hops].
    destruct (if overwrite then Some _ else mt_add _ _ _) as [t'|] eqn:Et; [|exact H].
    unfold tables_ok in *. simpl. apply Forall_heap_set; [exact H|]. simpl.
    destruct overwrite.
    + injection Et as <-. exists (ops ++ [MSetRaw ms (h, [])]). rewrite mrun_snoc, <- Hops. reflexivity.
    + exists (ops ++ [MAddRaw ms (h, [])]). rewrite mrun_snoc, <- Hops. simpl. now rewrite Et.
Qed.

Lemma tables_ok_exec cs : forall R, tables_ok R -> tables_ok (exec_cmds R cs).
Proof.
  unfold exec_cmds. induction cs as [|c cs IH]; intros R H; simpl; [exact H|].
  apply IH. now apply tables_ok_step.
Qed.

Lemma reachable_tables_lemma : forall cs rt,
  In rt (heap (exec_cmds router0 cs)) -> exists ops, r_methods rt = mrun ops.
Proof.
  intros cs rt Hin. pose proof (tables_ok_exec cs router0 (Forall_nil _)) as H.
  unfold tables_ok in H. rewrite Forall_forall in H. now apply H.
Qed.
