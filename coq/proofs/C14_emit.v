(* C14_emit.v — headerlist: what is emitted, in which order, under which blacklist;
   wire safety of the emitted values (uses lib/Utf8.v). *)
From Coq Require Import String Ascii.
From Verif Require Import lib.Base lib.Str lib.Utf8 gen.Gen model.Cookie model.Headers proofs.C14_proofs.
Local Open Scope N_scope.

(* ------------------------------------------------------------------ *)
(* the list headerlist is expected to produce, before transcoding       *)
(* ------------------------------------------------------------------ *)
Definition atom_text (a : atom) : str := match a with AStr s => s | _ => [] end.

(* one (name, text) per stored value: store order, then list order *)
Definition texts (d : store) : list (str * str) :=
  flat_map (fun kv => List.map (fun a => (fst kv, atom_text a)) (atoms_of (snd kv))) d.

Definition cookie_texts (j : cjar) : list (str * str) :=
  List.map (fun e => (L "Set-Cookie", cookie_output (fst e) (snd (fst (snd e))) (snd (snd e)))) j.

Definition ctype_part (s : rstate) : list (str * str) :=
  match lookup_bad (st_code s) Gen.bad_headers with
  | [] => if has_key (L "Content-Type") (st_store s) then []
          else [(L "Content-Type", Gen.default_content_type)]
  | _ => []
  end.

Definition expected (cs : bool) (s : rstate) : list (str * str) :=
  texts (visible cs s) ++ ctype_part s ++ cookie_texts (st_jar s).

Definition enc1 (ne : str * str) : str * str := (fst ne, utf8_enc_str (snd ne)).

Definition scalar_text (ne : str * str) : Prop := Forall scalar (snd ne).

(* ------------------------------------------------------------------ *)
(* transcode                                                           *)
(* ------------------------------------------------------------------ *)
Lemma transcode_some s t : transcode s = Some t -> t = utf8_enc_str s /\ Forall scalar s.
Proof.
  unfold transcode, utf8_encode, latin1_dec.
  destruct (forallb scalarb s) eqn:E; [|discriminate].
  intros [= <-]. split; [reflexivity|].
  apply Forall_forall. intros c Hc. apply scalarb_spec.
  rewrite forallb_forall in E. now apply E.
Qed.

Lemma default_ctype_ascii : utf8_enc_str Gen.default_content_type = Gen.default_content_type.
Proof. vm_compute. reflexivity. Qed.

Lemma default_ctype_scalar : Forall scalar Gen.default_content_type.
Proof.
  apply Forall_forall. intros c Hc. apply scalarb_spec.
  assert (E : forallb scalarb Gen.default_content_type = true) by (vm_compute; reflexivity).
  rewrite forallb_forall in E. now apply E.
Qed.

(* ------------------------------------------------------------------ *)
(* emit_store = map enc1 texts                                          *)
(* ------------------------------------------------------------------ *)
Lemma emit_atoms_ok name l out :
  emit_atoms name l = HLOk out ->
  out = List.map enc1 (List.map (fun a => (name, atom_text a)) l)
  /\ Forall scalar_text (List.map (fun a => (name, atom_text a)) l).
Proof.
  revert out; induction l as [|a r IH]; intros out; simpl.
  - intros [= <-]. split; [reflexivity | constructor].
  - destruct a; simpl; try discriminate.
    destruct (transcode s) as [t|] eqn:T; [|discriminate].
    destruct (emit_atoms name r) as [rest| |] eqn:R; try discriminate.
    intros [= <-]. destruct (IH rest eq_refl) as [-> Hs].
    destruct (transcode_some _ _ T) as [-> Hsc].
    split; [reflexivity | constructor; assumption].
Qed.

Lemma emit_store_ok d out :
  emit_store d = HLOk out ->
  out = List.map enc1 (texts d) /\ Forall scalar_text (texts d).
Proof.
  revert out; induction d as [|[name v] r IH]; intros out; simpl.
  - intros [= <-]. split; [reflexivity | constructor].
  - destruct (emit_atoms name (atoms_of v)) as [here| |] eqn:A; try discriminate.
    destruct (emit_store r) as [rest| |] eqn:R; try discriminate.
    intros [= <-]. destruct (IH rest eq_refl) as [-> Hs].
    destruct (emit_atoms_ok _ _ _ A) as [-> Ha].
    unfold texts. simpl. rewrite map_app. split; [reflexivity|].
    apply Forall_app. split; assumption.
Qed.

Lemma emit_cookies_ok j cs :
  emit_cjar j = Some cs ->
  List.map (fun c => (L "Set-Cookie", c)) cs = List.map enc1 (cookie_texts j)
  /\ Forall scalar_text (cookie_texts j).
Proof.
  revert cs; induction j as [|[n [[v c] at_]] r IH]; intros cs; simpl.
  - intros [= <-]. split; [reflexivity | constructor].
  - destruct (transcode (cookie_output n c at_)) as [h|] eqn:T; [|discriminate].
    destruct (emit_cjar r) as [t|] eqn:R; [|discriminate].
    intros [= <-]. destruct (IH t eq_refl) as [E Hs].
    destruct (transcode_some _ _ T) as [-> Hsc].
    simpl. rewrite E. split; [reflexivity | constructor; assumption].
Qed.

Lemma headerlist_expected cs s l :
  headerlist_cs cs s = HLOk l ->
  l = List.map enc1 (expected cs s) /\ Forall scalar_text (expected cs s).
Proof.
  unfold headerlist_cs, expected, ctype_part.
  destruct (emit_store (visible cs s)) as [out| |] eqn:E; try discriminate.
  destruct (emit_store_ok _ _ E) as [-> Hs].
  destruct (emit_cjar (st_jar s)) as [cks|] eqn:C;
    [|destruct (lookup_bad (st_code s) Gen.bad_headers); discriminate].
  destruct (emit_cookies_ok _ _ C) as [Ec Hc].
  assert (Ect : enc1 (L "Content-Type", Gen.default_content_type) = (L "Content-Type", Gen.default_content_type)).
  { unfold enc1. cbn [fst snd]. now rewrite default_ctype_ascii. }
  remember (L "Content-Type", Gen.default_content_type) as ct eqn:Hct.
  rewrite !map_app, Ec.
  destruct (lookup_bad (st_code s) Gen.bad_headers) as [|b0 bs].
  - destruct (has_key (L "Content-Type") (st_store s)); cbn [List.map app]; intros [= <-].
    + split; [reflexivity|]. apply Forall_app; split; assumption.
    + rewrite <- app_assoc, Ect. cbn [app].
      split; [reflexivity|]. apply Forall_app; split; [assumption|].
      constructor; [subst ct; exact default_ctype_scalar | assumption].
  - cbn [List.map app]. intros [= <-]. split; [reflexivity|]. apply Forall_app; split; assumption.
Qed.

(* never AttributeError when every stored value is text *)
Lemma emit_atoms_no_attr name l :
  Forall (fun a => exists s, a = AStr s /\ clean s) l -> emit_atoms name l <> HLAttrError.
Proof.
  induction l as [|a l IHl]; intros Hc; simpl; [discriminate|].
  inversion Hc as [|? ? [s [-> _]] Hl]; subst. simpl.
  destruct (transcode s); [|discriminate].
  specialize (IHl Hl). destruct (emit_atoms name l); congruence.
Qed.

Lemma emit_store_no_attr d : store_ok d -> emit_store d <> HLAttrError.
Proof.
  induction d as [|[name v] r IH]; intros Hd; simpl; [discriminate|].
  inversion Hd as [|? ? Hc Hr]; subst. simpl in Hc.
  assert (A : emit_atoms name (atoms_of v) <> HLAttrError).
  { destruct v as [a|l]; simpl in *.
    - destruct a; try contradiction. simpl.
      destruct (transcode s); discriminate.
    - now apply emit_atoms_no_attr. }
  destruct (emit_atoms name (atoms_of v)); try congruence.
  specialize (IH Hr). destruct (emit_store r); congruence.
Qed.

(* ------------------------------------------------------------------ *)
(* wire safety of utf8_enc_str                                          *)
(* ------------------------------------------------------------------ *)
Definition wire_safe (v : str) : Prop := Forall (fun c => c < 256) v /\ clean v.

Lemma utf8_enc_low b c : In b (utf8_enc c) -> b < 128 -> b = c.
Proof.
  intros Hb Hlt. destruct (N.ltb_spec c 128) as [Hc|Hc].
  - rewrite (utf8_enc_ascii c Hc) in Hb. destruct Hb as [<-|[]]. reflexivity.
  - pose proof (utf8_enc_high c Hc) as Hh. rewrite Forall_forall in Hh.
    specialize (Hh b Hb). lia.
Qed.

Lemma utf8_enc_str_low b s : In b (utf8_enc_str s) -> b < 128 -> In b s.
Proof.
  unfold utf8_enc_str. rewrite in_flat_map. intros [c [Hc Hb]] Hlt.
  now rewrite (utf8_enc_low b c Hb Hlt).
Qed.

Lemma enc_wire_safe t : clean t -> wire_safe (utf8_enc_str t).
Proof.
  intros [H10 [H13 H0]]. split; [apply utf8_enc_str_bytes|].
  repeat split; intros Hin; apply utf8_enc_str_low in Hin; (contradiction || reflexivity).
Qed.

(* ------------------------------------------------------------------ *)
(* texts of an invariant-respecting store / jar are clean               *)
(* ------------------------------------------------------------------ *)
Lemma atoms_clean name l :
  Forall (fun a => exists s, a = AStr s /\ clean s) l ->
  Forall (fun ne : str * str => clean (snd ne)) (List.map (fun a => (name, atom_text a)) l).
Proof.
  induction l as [|a l IHl]; intros Hc; simpl; [constructor|].
  inversion Hc as [|? ? [s [-> Hs]] Hl]; subst. constructor; [exact Hs | now apply IHl].
Qed.

Lemma texts_clean d : store_ok d -> Forall (fun ne => clean (snd ne)) (texts d).
Proof.
  induction d as [|[name v] r IH]; intros Hd; simpl; [constructor|].
  inversion Hd as [|? ? Hc Hr]; subst. unfold texts. simpl. apply Forall_app. split; [|now apply IH].
  destruct v as [a|l]; simpl in *.
  - destruct a; try contradiction. constructor; [exact Hc | constructor].
  - now apply atoms_clean.
Qed.

Lemma filter_store_ok f d : store_ok d -> store_ok (filter f d).
Proof.
  induction d as [|x r IH]; intros Hd; simpl; [constructor|].
  inversion Hd as [|? ? H1 H2]; subst. destruct (f x); [constructor; [exact H1 | now apply IH] | now apply IH].
Qed.

Lemma visible_ok cs s : store_ok (st_store s) -> store_ok (visible cs s).
Proof.
  intros H. unfold visible. destruct (lookup_bad _ _); [assumption | now apply filter_store_ok].
Qed.

(* ---- cookies: quoting never lets a control character through ---- *)
Definition not_ctl (c : N) : Prop := c <> 10 /\ c <> 13 /\ c <> 0.

Lemma clean_forall s : Forall not_ctl s -> clean s.
Proof.
  intros H. rewrite Forall_forall in H.
  repeat split; intros Hin; destruct (H _ Hin) as [A [B C]]; congruence.
Qed.

Lemma forall_clean s : clean s -> Forall not_ctl s.
Proof.
  intros [A [B C]]. apply Forall_forall. intros c Hc. repeat split; intros ->; contradiction.
Qed.

Lemma legal_char_not_ctl c : legal_char c = true -> not_ctl c.
Proof. intros H. repeat split; intros ->; vm_compute in H; discriminate. Qed.

Lemma unescaped_char_not_ctl c : unescaped_char c = true -> not_ctl c.
Proof. intros H. repeat split; intros ->; vm_compute in H; discriminate. Qed.

Lemma octal3_not_ctl n : Forall not_ctl (octal3 n).
Proof.
  unfold octal3. repeat constructor; try discriminate; try lia.
Qed.

Lemma translate_char_not_ctl c : Forall not_ctl (translate_char c).
Proof.
  unfold translate_char.
  destruct (c =? 34); [repeat constructor; discriminate|].
  destruct (c =? 92); [repeat constructor; discriminate|].
  destruct ((c <? 256) && negb (unescaped_char c)) eqn:E; [apply octal3_not_ctl|].
  constructor; [|constructor].
  apply andb_false_iff in E. destruct E as [E|E].
  - apply N.ltb_ge in E. repeat split; lia.
  - apply negb_false_iff in E. now apply unescaped_char_not_ctl.
Qed.

Lemma quote_not_ctl v : Forall not_ctl (quote v).
Proof.
  unfold quote. destruct (is_legal_key v) eqn:E.
  - destruct v as [|c0 v']; [discriminate|]. unfold is_legal_key in E. apply Forall_forall. intros c Hc.
    rewrite forallb_forall in E. apply legal_char_not_ctl. apply E. exact Hc.
  - constructor; [repeat split; discriminate|].
    apply Forall_app. split; [|repeat constructor; discriminate].
    apply Forall_forall. intros x Hx. apply in_flat_map in Hx. destruct Hx as [c [_ Hx]].
    pose proof (translate_char_not_ctl c) as H. rewrite Forall_forall in H. now apply H.
Qed.

Definition attrs_ok (a : cattrs) : Prop := Forall (fun kf => clean (snd kf)) a.

Definition jar_ok (j : cjar) : Prop :=
  Forall (fun e => is_legal_key (fst e) = true
                   /\ snd (fst (snd e)) = quote (fst (fst (snd e)))
                   /\ attrs_ok (snd (snd e))) j.

Lemma cjar_put_ok k v j : jar_ok j -> is_legal_key k = true -> jar_ok (cjar_put k v (quote v) j).
Proof.
  intros Hj Hk. induction j as [|[k' [[s0 c0] a0]] r IH]; simpl.
  - constructor; [repeat split; [exact Hk | constructor] | constructor].
  - inversion Hj as [|? ? H1 H2]; subst. destruct (str_eqb k k').
    + constructor; [|exact H2]. destruct H1 as [A [_ C]]. repeat split; assumption.
    + constructor; [exact H1 | apply IH; exact H2].
Qed.

Lemma assoc_set_attrs_ok key frag a : attrs_ok a -> clean frag -> attrs_ok (assoc_set key frag a).
Proof.
  intros Ha Hf. induction a as [|[k' f'] r IH]; simpl.
  - constructor; [exact Hf | constructor].
  - inversion Ha as [|? ? H1 H2]; subst. destruct (str_eqb key k').
    + constructor; [exact Hf | exact H2].
    + constructor; [exact H1 | apply IH; exact H2].
Qed.

Lemma cjar_attr_ok name key frag j : jar_ok j -> clean frag -> jar_ok (cjar_attr name key frag j).
Proof.
  intros Hj Hf. induction j as [|[k' [[s0 c0] a0]] r IH]; simpl; [constructor|].
  inversion Hj as [|? ? H1 H2]; subst. destruct (str_eqb name k').
  - constructor; [|exact H2]. destruct H1 as [A [B C]]. repeat split; try assumption.
    simpl in *. now apply assoc_set_attrs_ok.
  - constructor; [exact H1 | apply IH; exact H2].
Qed.

Lemma cookie_value_set_ok j n v j' : jar_ok j -> cookie_value_set j n v = inl j' -> jar_ok j'.
Proof.
  intros Hj. unfold cookie_value_set, set_cookie.
  destruct (Nat.ltb 4096 (length v)); [discriminate|].
  destruct (is_reserved n || negb (is_legal_key n)) eqn:E; [discriminate|].
  cbn [assoc_set]. intros [= <-]. apply cjar_put_ok; [assumption|].
  apply orb_false_iff in E. destruct E as [_ E]. now apply negb_false_iff in E.
Qed.

Lemma set_cookies_ok cs : forall j, jar_ok j -> jar_ok (fst (set_cookies j cs)).
Proof.
  induction cs as [|[n v] r IH]; intros j Hj; simpl; [assumption|].
  destruct (cookie_value_set j n v) as [j'|e] eqn:E.
  - apply IH. eapply cookie_value_set_ok; eassumption.
  - assumption.
Qed.

Definition opts_ok (opts : list copt) : Prop :=
  Forall (fun o => forall v t, o_val o = Some v -> hval v = HOk t -> clean (o_frag o)) opts.

Lemma apply_opts_ok name opts : forall j, opts_ok opts -> jar_ok j -> jar_ok (fst (apply_opts true name j opts)).
Proof.
  induction opts as [|o r IH]; intros j Ho Hj; simpl; [assumption|].
  inversion Ho as [|? ? H1 H2]; subst.
  destruct (o_val o) as [v|] eqn:Ev; [|assumption].
  destruct (hval v) as [| |t] eqn:Eh; try assumption.
  destruct (is_reserved (o_key o)); [|assumption].
  apply IH; [assumption|]. apply cjar_attr_ok; [assumption|]. eapply H1; [reflexivity | eassumption].
Qed.

Lemma step_jar_ok s o : guarded_op o -> jar_ok (st_jar s) -> jar_ok (st_jar (fst (step s o))).
Proof.
  intros G Hj.
  destruct o as [k v|k v|k v|items|k| |p v|w|st h m|st h m cs|n v chk opts|c|k d| |ns|p|]; unfold step;
    try (unfold with_store, del_key;
         repeat match goal with |- context [match ?x with _ => _ end] => destruct x end; simpl; assumption).
  - unfold init_run.
    repeat match goal with |- context [match ?x with _ => _ end] => destruct x end; simpl; constructor.
  - destruct (init_run st h m) as [src [e|]]; [assumption|].
    pose proof (set_cookies_ok cs [] (Forall_nil _)) as Hc.
    destruct (set_cookies [] cs) as [j [e|]]; simpl in *; [assumption|].
    destruct j; assumption.
  - simpl in G. destruct G as [-> Ho]. unfold set_cookie_opts.
    destruct (cookie_value_set (st_jar s) n v) as [j1|e] eqn:E; [|simpl; assumption].
    pose proof (apply_opts_ok n opts j1 Ho (cookie_value_set_ok _ _ _ _ Hj E)) as H.
    destruct (apply_opts true n j1 opts) as [j' oe]. simpl in *. exact H.
Qed.

Lemma run_jar_ok ops : forall s, Forall guarded_op ops -> jar_ok (st_jar s) -> jar_ok (st_jar (run s ops)).
Proof.
  induction ops as [|o r IH]; intros s G Hj; simpl; [assumption|].
  inversion G; subst. apply IH; [assumption|]. now apply step_jar_ok.
Qed.

Lemma attrs_insert_ok e a : clean (snd e) -> attrs_ok a -> attrs_ok (attrs_insert e a).
Proof.
  intros He Ha. induction a as [|e' r IH]; simpl; [constructor; [exact He | constructor]|].
  inversion Ha as [|? ? H1 H2]; subst. destruct (str_ltb (fst e') (fst e)).
  - constructor; [exact H1 | apply IH; exact H2].
  - constructor; [exact He | exact Ha].
Qed.

Lemma attrs_sort_ok a : attrs_ok a -> attrs_ok (attrs_sort a).
Proof.
  unfold attrs_sort. induction a as [|e r IH]; intros Ha; simpl; [constructor|].
  inversion Ha; subst. apply attrs_insert_ok; [assumption | now apply IH].
Qed.

Lemma frags_not_ctl a : attrs_ok a -> Forall not_ctl (flat_map frag_text a).
Proof.
  induction a as [|[k f] r IH]; intros Ha; simpl; [constructor|].
  inversion Ha as [|? ? H1 H2]; subst. apply Forall_app. split; [|now apply IH].
  unfold frag_text. simpl in *. destruct f as [|c f']; [constructor|].
  constructor; [repeat split; discriminate|]. constructor; [repeat split; discriminate|].
  now apply forall_clean.
Qed.

Lemma cookie_texts_clean j : jar_ok j -> Forall (fun ne => clean (snd ne)) (cookie_texts j).
Proof.
  induction j as [|[n [[v c] a]] r IH]; intros Hj; simpl; [constructor|].
  inversion Hj as [|? ? [Hk [Hc Ha]] Hr]; subst. simpl in *. subst c.
  constructor; [|now apply IH]. simpl. unfold cookie_output, output_string. apply clean_forall.
  apply Forall_app. split; [apply Forall_app; split|].
  - destruct n as [|c0 n']; [discriminate|]. unfold is_legal_key in Hk. apply Forall_forall. intros x Hx.
    rewrite forallb_forall in Hk. apply legal_char_not_ctl. now apply Hk.
  - constructor; [repeat split; discriminate | apply quote_not_ctl].
  - apply frags_not_ctl. now apply attrs_sort_ok.
Qed.

(* ---- the copy ---- *)
Lemma cjar_insert_ok e j :
  (is_legal_key (fst e) = true /\ snd (fst (snd e)) = quote (fst (fst (snd e))) /\ attrs_ok (snd (snd e))) ->
  jar_ok j -> jar_ok (cjar_insert e j).
Proof.
  intros He Hj. induction j as [|e' r IH]; simpl; [constructor; [exact He | constructor]|].
  inversion Hj as [|? ? H1 H2]; subst. destruct (str_ltb (fst e') (fst e)).
  - constructor; [exact H1 | apply IH; exact H2].
  - constructor; [exact He | exact Hj].
Qed.

Lemma cjar_sort_ok j : jar_ok j -> jar_ok (cjar_sort j).
Proof.
  unfold cjar_sort. induction j as [|e r IH]; intros Hj; simpl; [constructor|].
  inversion Hj; subst. apply cjar_insert_ok; [assumption | now apply IH].
Qed.

Lemma default_ctype_clean : clean Gen.default_content_type.
Proof.
  apply has_forbidden_false. vm_compute. reflexivity.
Qed.

(* ------------------------------------------------------------------ *)
(* C14_emitted_safe                                                    *)
(* ------------------------------------------------------------------ *)
Lemma expected_clean cs s :
  store_ok (st_store s) -> jar_ok (st_jar s) -> Forall (fun ne => clean (snd ne)) (expected cs s).
Proof.
  intros Hs Hj. unfold expected. apply Forall_app. split; [apply texts_clean; now apply visible_ok|].
  apply Forall_app. split; [|now apply cookie_texts_clean].
  unfold ctype_part. destruct (lookup_bad _ _); [|constructor].
  destruct (has_key _ _); constructor; [exact default_ctype_clean | constructor].
Qed.

Definition inv (s : rstate) : Prop := store_ok (st_store s) /\ jar_ok (st_jar s).

Definition emitted_safe (s : rstate) : Prop :=
  headerlist s <> HLAttrError /\
  forall l, headerlist s = HLOk l ->
    exists srcs, srcs = expected Gen.headerlist_blacklist_case_sensitive s
      /\ length l = length srcs
      /\ forall i n v, nth_error l i = Some (n, v) ->
           exists orig, nth_error srcs i = Some (n, orig)
             /\ wire_safe v /\ utf8_dec v = Some orig.

Lemma emitted_safe_of_inv s : inv s -> emitted_safe s.
Proof.
  intros [Hs Hj]. split.
  - unfold headerlist, headerlist_cs.
    pose proof (emit_store_no_attr _ (visible_ok Gen.headerlist_blacklist_case_sensitive s Hs)) as Hn.
    destruct (emit_store (visible _ s)); [|congruence|discriminate].
    destruct (emit_cjar (st_jar s)); discriminate.
  - intros l Hl. unfold headerlist in Hl.
    destruct (headerlist_expected _ _ _ Hl) as [-> Hsc].
    pose proof (expected_clean Gen.headerlist_blacklist_case_sensitive s Hs Hj) as Hc.
    exists (expected Gen.headerlist_blacklist_case_sensitive s). split; [reflexivity|].
    split; [apply map_length|].
    intros i n v Hi. rewrite nth_error_map in Hi.
    destruct (nth_error (expected _ s) i) as [[n' t]|] eqn:En; [|discriminate].
    simpl in Hi. injection Hi as <- <-.
    exists t. split; [reflexivity|].
    apply nth_error_In in En.
    rewrite Forall_forall in Hc, Hsc. specialize (Hc _ En). specialize (Hsc _ En). simpl in *.
    split; [now apply enc_wire_safe | now apply utf8_dec_enc].
Qed.

Lemma step_inv s o : guarded_op o -> inv s -> inv (fst (step s o)).
Proof. intros G [Hs Hj]. split; [now apply step_ok | now apply step_jar_ok]. Qed.

Lemma run_inv ops : forall s, Forall guarded_op ops -> inv s -> inv (run s ops).
Proof.
  induction ops as [|o r IH]; intros s G Hi; simpl; [assumption|].
  inversion G; subst. apply IH; [assumption | now apply step_inv].
Qed.

Lemma init_inv : inv init_state.
Proof. split; constructor. Qed.

Lemma C14_emitted_safe_lemma :
  forall ops, Forall guarded_op ops -> emitted_safe (run init_state ops).
Proof. intros ops G. apply emitted_safe_of_inv. apply run_inv; [assumption | apply init_inv]. Qed.

(* ---- a response and its copy ---- *)
Definition guarded_pop (p : pop) : Prop := match p with POn _ o => guarded_op o | _ => True end.

Definition pinv (st : pstate) : Prop := inv (fst st) /\ forall c, snd st = Some c -> inv c.

Lemma copy_inv s c : inv s -> copy_of s = inl c -> inv c.
Proof.
  intros [Hs Hj]. unfold copy_of.
  pose proof (init_run_ok (st_code s) (st_store s) []) as Hi.
  destruct (init_run (st_code s) (st_store s) []) as [c0 [e|]]; [discriminate|].
  intros [= <-]. split; simpl; [exact Hi | now apply cjar_sort_ok].
Qed.

Lemma pstep_inv st p : guarded_pop p -> pinv st -> pinv (fst (fst (pstep st p))).
Proof.
  intros G [Hr Hc]. destruct st as [r c]. destruct p as [oc o| |]; simpl in *.
  - destruct oc.
    + destruct c as [cs|]; [|split; assumption].
      pose proof (step_inv cs o G (Hc cs eq_refl)) as H.
      destruct (step cs o) as [c' e]. simpl in *. split; [assumption|]. intros x [= <-]. exact H.
    + pose proof (step_inv r o G Hr) as H. destruct (step r o) as [r' e]. simpl in *. split; assumption.
  - destruct (copy_of r) as [cs|e] eqn:E; simpl; [|split; assumption].
    split; [assumption|]. intros x [= <-]. eapply copy_inv; eassumption.
  - destruct c as [cs|]; simpl; [|split; assumption].
    destruct (Hc cs eq_refl) as [Hs Hj]. destruct Hr as [Hs' Hj'].
    split; [|exact Hc]. split; simpl; [exact Hs|]. destruct (st_jar cs); assumption.
Qed.

Lemma prun_inv ps : forall st, Forall guarded_pop ps -> pinv st -> pinv (prun st ps).
Proof.
  induction ps as [|p r IH]; intros st G Hi; simpl; [assumption|].
  inversion G; subst. apply IH; [assumption | now apply pstep_inv].
Qed.

Lemma C14_pair_invariant_lemma :
  forall ps, Forall guarded_pop ps -> pinv (prun (init_state, None) ps).
Proof.
  intros ps G. apply prun_inv; [assumption|]. split; [apply init_inv | discriminate].
Qed.

Lemma C14_pair_emitted_safe_lemma :
  forall ps, Forall guarded_pop ps ->
  let st := prun (init_state, None) ps in
  emitted_safe (fst st) /\ forall c, snd st = Some c -> emitted_safe c.
Proof.
  intros ps G st. destruct (C14_pair_invariant_lemma ps G) as [Hr Hc].
  split; [now apply emitted_safe_of_inv|]. intros c E. apply emitted_safe_of_inv. now apply Hc.
Qed.

(* an operation on one of the two objects leaves the other exactly as it was *)
Lemma copy_independent st oc o :
  let st' := fst (fst (pstep st (POn oc o))) in
  if oc then fst st' = fst st else snd st' = snd st.
Proof.
  destruct st as [r c]. destruct oc; simpl.
  - destruct c as [cs|]; [|reflexivity]. destruct (step cs o); reflexivity.
  - destruct (step r o); reflexivity.
Qed.

(* ------------------------------------------------------------------ *)
(* C14_blacklist                                                       *)
(* ------------------------------------------------------------------ *)
Lemma mem_str_In s l : mem_str s l = true <-> In s l.
Proof.
  unfold mem_str. rewrite existsb_exists. split.
  - intros [x [Hx E]]. apply str_eqb_eq in E. now subst.
  - intros H. exists s. split; [assumption | apply str_eqb_refl].
Qed.

Lemma is_alpha_lower c : is_alpha (ascii_lower c) = is_alpha c.
Proof.
  unfold is_alpha, ascii_lower. destruct ((65 <=? c) && (c <=? 90)) eqn:E;
    apply eq_true_iff_eq; split; intro H; lia.
Qed.

Lemma lower_lower c : ascii_lower (ascii_lower c) = ascii_lower c.
Proof.
  unfold ascii_lower. destruct ((65 <=? c) && (c <=? 90)) eqn:E; [|now rewrite E].
  replace ((65 <=? c + 32) && (c + 32 <=? 90)) with false by lia. reflexivity.
Qed.

Lemma upper_lower c : ascii_upper (ascii_lower c) = ascii_upper c.
Proof.
  unfold ascii_upper, ascii_lower. destruct ((65 <=? c) && (c <=? 90)) eqn:E; [|reflexivity].
  replace ((97 <=? c + 32) && (c + 32 <=? 122)) with true by lia.
  replace ((97 <=? c) && (c <=? 122)) with false by lia. lia.
Qed.

Lemma title_go_lower p s : title_go p (lower s) = title_go p s.
Proof.
  revert p; induction s as [|c r IH]; intros p; simpl; [reflexivity|].
  rewrite is_alpha_lower. destruct (is_alpha c) eqn:Ha.
  - rewrite IH. destruct p; [now rewrite lower_lower | now rewrite upper_lower].
  - rewrite IH. f_equal. unfold ascii_lower. unfold is_alpha in Ha.
    destruct ((65 <=? c) && (c <=? 90)) eqn:E; [|reflexivity].
    exfalso. lia.
Qed.

Lemma title_lower s : title (lower s) = title s.
Proof. apply title_go_lower. Qed.

(* every name in the blacklist is already in title form, and Set-Cookie is not blacklisted *)
Lemma bad_names_title_fixed :
  forallb (fun e => forallb (fun b => str_eqb (title b) b) (snd e)) Gen.bad_headers = true.
Proof. vm_compute. reflexivity. Qed.

Lemma set_cookie_not_bad :
  forallb (fun e => negb (mem_str (title (L "Set-Cookie")) (snd e))) Gen.bad_headers = true.
Proof. vm_compute. reflexivity. Qed.

Lemma lookup_bad_in code t b :
  In b (lookup_bad code t) -> exists e, In e t /\ In b (snd e) /\ lookup_bad code t = snd e.
Proof.
  induction t as [|[c l] r IH]; simpl; [intros []|].
  destruct (c =? code)%Z.
  - intros H. exists (c, l). auto.
  - intros H. destruct (IH H) as [e [He [Hb Hl]]]. exists e. auto.
Qed.

Lemma bad_title_fixed code b : In b (lookup_bad code Gen.bad_headers) -> title b = b.
Proof.
  intros H. destruct (lookup_bad_in _ _ _ H) as [e [He [Hb _]]].
  pose proof bad_names_title_fixed as F. rewrite forallb_forall in F.
  specialize (F e He). rewrite forallb_forall in F. specialize (F b Hb). now apply str_eqb_eq.
Qed.

Lemma texts_names d n t : In (n, t) (texts d) -> exists v, In (n, v) d.
Proof.
  unfold texts. rewrite in_flat_map. intros [[k v] [Hkv Hin]]. simpl in Hin.
  apply in_map_iff in Hin. destruct Hin as [a [E _]]. injection E as <- _. eauto.
Qed.

Lemma C14_blacklist_lemma :
  Gen.headerlist_blacklist_case_sensitive = false ->
  forall s l n v b,
    headerlist s = HLOk l ->
    In b (lookup_bad (st_code s) Gen.bad_headers) ->
    In (n, v) l ->
    lower n <> lower b.
Proof.
  intros Hflag s l n v b Hl Hb Hin Heq. unfold headerlist in Hl. rewrite Hflag in Hl.
  destruct (headerlist_expected _ _ _ Hl) as [-> _].
  apply in_map_iff in Hin. destruct Hin as [[n' t] [E Hin]]. unfold enc1 in E. simpl in E.
  injection E as -> _.
  assert (Ht : title n = b).
  { rewrite <- (title_lower n), Heq, title_lower. eapply bad_title_fixed; eassumption. }
  unfold expected in Hin. apply in_app_or in Hin. destruct Hin as [Hin|Hin].
  - (* from the store: filtered *)
    apply texts_names in Hin. destruct Hin as [x Hx]. unfold visible in Hx.
    destruct (lookup_bad (st_code s) Gen.bad_headers) as [|b0 bs] eqn:Eb; [destruct Hb|].
    apply filter_In in Hx. destruct Hx as [_ Hf]. cbn [fst] in Hf.
    apply negb_true_iff in Hf. unfold is_bad in Hf. rewrite Ht in Hf.
    apply not_true_iff_false in Hf. apply Hf. now apply mem_str_In.
  - apply in_app_or in Hin. destruct Hin as [Hin|Hin].
    + (* the default Content-Type is not added for a blacklisting status *)
      unfold ctype_part in Hin.
      destruct (lookup_bad (st_code s) Gen.bad_headers); [destruct Hb | destruct Hin].
    + (* Set-Cookie is not a blacklisted name *)
      unfold cookie_texts in Hin. apply in_map_iff in Hin. destruct Hin as [e [E _]].
      injection E as <- _.
      destruct (lookup_bad_in _ _ _ Hb) as [e' [He' [Hb' _]]].
      pose proof set_cookie_not_bad as F. rewrite forallb_forall in F. specialize (F e' He').
      apply negb_true_iff in F. apply not_true_iff_false in F. apply F.
      rewrite Ht. now apply mem_str_In.
Qed.

(* the behaviour before fix F17, kept as a record *)
Lemma F17_case_sensitive_variant_emits :
  exists s l,
    st_code s = 304%Z /\ headerlist_cs true s = HLOk l
    /\ In (L "content-length", L "5") l /\ In (L "Content-Length") (lookup_bad 304 Gen.bad_headers).
Proof.
  exists (run init_state [OStatus 304; OSet (L "content-length") (VAtom (AInt 5))]).
  eexists. split; [reflexivity|]. split; [vm_compute; reflexivity|].
  split; [left; reflexivity | vm_compute; tauto].
Qed.
