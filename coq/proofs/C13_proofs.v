(* C13_proofs.v — size limits and spooling: closed form of the Content-Length
   loop and of the chunked decoder WITH a size limit for every read schedule,
   the spill flag, the text cap of _get_body_string, the multipart budget.
   Owned by cluster bodyA. *)
From Verif Require Import lib.Base lib.ListX lib.Str lib.PyIntHex model.Stream model.Body model.Chunked
     model.BodyLimits gen.Gen proofs.C04_proofs proofs.C05_scan proofs.C05_proofs.
From Coq Require Import ZifyBool.

(* every logged request asked for at most one buffer and never reached past
   stream position [lim] *)
Definition reqs_within (buf lim : nat) (l : list (nat * nat)) : Prop :=
  Forall (fun np => fst np <= buf /\ snd np + fst np <= lim) l.

(* ---- Content-Length loop with a limit ---- *)

Lemma cl_loop_gen : forall fuel s buf maxb c acc sp off,
  0 < buf -> length (rest s) < fuel ->
  sp = Nat.ltb buf (length acc) -> over maxb (length acc) = false ->
  pos s = off + length acc ->
  if over maxb (length acc + Nat.min c (length (rest s))) then
    exists s', cl_loop fuel s buf maxb c acc sp = BTooLarge s'
               /\ pos s <= pos s' <= pos s + Nat.min c (length (rest s))
               /\ (forall m, maxb = Some m ->
                     pos s' <= off + m + buf /\
                     (reqs_within buf (off + m + buf) (reqs s) -> reqs_within buf (off + m + buf) (reqs s')))
  else
    exists s', cl_loop fuel s buf maxb c acc sp
               = BDone (acc ++ firstn c (rest s)) (Nat.ltb buf (length (acc ++ firstn c (rest s)))) s'
               /\ rest s' = skipn c (rest s)
               /\ pos s' = pos s + Nat.min c (length (rest s))
               /\ (forall m, maxb = Some m ->
                     reqs_within buf (off + m + buf) (reqs s) -> reqs_within buf (off + m + buf) (reqs s')).
Proof.
  induction fuel as [|f IH]; intros s buf maxb c acc sp off Hbuf Hfuel Hsp Hov Hoff; [lia|].
  cbn [cl_loop].
  destruct (Nat.eqb_spec c 0) as [->|Hc].
  - cbn [Nat.min]. rewrite Nat.add_0_r, Hov.
    exists s. rewrite firstn_O, app_nil_r, <- Hsp. cbn [skipn]. repeat split; auto; lia.
  - set (n := Nat.min c buf).
    assert (Hn : 0 < n <= buf /\ n <= c) by (unfold n; lia).
    destruct (read_spec s n) as (j & Hj1 & Hj2 & Hj3 & Hf & Hrest & Hpos & Hreqs).
    destruct (read s n) as [part s1]. cbn [fst snd] in *. subst part.
    assert (Hreq1 : forall m, maxb = Some m ->
              reqs_within buf (off + m + buf) (reqs s) -> reqs_within buf (off + m + buf) (reqs s1)).
    { intros m -> Hok. rewrite Hreqs. constructor; [|exact Hok]. cbn [fst snd].
      simpl in Hov. lia. }
    destruct (firstn j (rest s)) as [|x part] eqn:Hpart.
    + (* end of stream *)
      assert (Hnil : rest s = []).
      { destruct (rest s) as [|y r] eqn:E; [reflexivity|].
        assert (0 < j) by (apply Hj3; [lia | discriminate]).
        destruct j; [lia | discriminate]. }
      rewrite Hnil in *. cbn [length] in *. rewrite Nat.min_0_r, Nat.add_0_r, Hov.
      rewrite firstn_nil, app_nil_r, <- Hsp.
      exists s1. split; [reflexivity|]. split; [rewrite Hrest; now rewrite !skipn_nil|].
      split; [lia | exact Hreq1].
    + rewrite <- Hpart.
      assert (Hlen : length (firstn j (rest s)) = j) by (rewrite firstn_length; lia).
      assert (Hj0 : 0 < j) by (rewrite <- Hlen, Hpart; simpl; lia).
      rewrite app_length, Hlen.
      assert (Hmin : Nat.min c (length (rest s)) = j + Nat.min (c - j) (length (rest s1))).
      { rewrite Hrest, skipn_length. lia. }
      destruct (over maxb (length acc + j)) eqn:Hov1.
      * replace (over maxb (length acc + Nat.min c (length (rest s)))) with true.
        2:{ symmetry. destruct maxb as [m|]; simpl in *; [lia | discriminate]. }
        exists s1. split; [reflexivity|]. split; [lia|].
        intros m Hm. split; [|apply Hreq1; exact Hm]. subst maxb. simpl in Hov. lia.
      * specialize (IH s1 buf maxb (c - j) (acc ++ firstn j (rest s))
                       (sp || Nat.ltb buf (length acc + j)) off Hbuf).
        rewrite app_length, Hlen in IH.
        specialize (IH ltac:(rewrite Hrest, skipn_length; lia) ltac:(lia) Hov1 ltac:(lia)).
        rewrite Hmin, Nat.add_assoc.
        destruct (over maxb (length acc + j + Nat.min (c - j) (length (rest s1)))).
        -- destruct IH as (s' & -> & Hp & Hb). exists s'. split; [reflexivity|].
           split; [lia|]. intros m Hm. destruct (Hb m Hm) as [Hb1 Hb2].
           split; [exact Hb1|]. intros Hok. apply Hb2, (Hreq1 m Hm), Hok.
        -- destruct IH as (s' & -> & Hr' & Hp' & Hb). exists s'.
           assert (Hbody : (acc ++ firstn j (rest s)) ++ firstn (c - j) (rest s1)
                           = acc ++ firstn c (rest s)).
           { rewrite <- app_assoc. f_equal. rewrite Hrest. apply firstn_firstn_skipn. lia. }
           rewrite Hbody. split; [reflexivity|]. split.
           ++ rewrite Hr', Hrest. apply skipn_sub_skipn. lia.
           ++ split; [lia|]. intros m Hm Hok. apply (Hb m Hm), (Hreq1 m Hm), Hok.
Qed.

Lemma C13_cl_lemma :
  forall (data : list N) (sc : list nat) (buf m : nat) (cl : Z),
    0 < buf ->
    let payload := Nat.min (Z.to_nat cl) (length data) in
    if Nat.ltb m payload then
      exists s',
        body_read_cl (stream_init data sc) buf (Some m) cl = BTooLarge s'
        /\ request_body (stream_init data sc) buf (Some m) cl false = RStatus 413 s'
        /\ pos s' <= m + buf
        /\ reqs_within buf (m + buf) (reqs s')
    else
      exists s',
        body_read_cl (stream_init data sc) buf (Some m) cl
        = BDone (firstn (Z.to_nat cl) data) (Nat.ltb buf payload) s'
        /\ request_body (stream_init data sc) buf (Some m) cl false
           = RBody (firstn (Z.to_nat cl) data) (Nat.ltb buf payload) s'
        /\ rest s' = skipn (Z.to_nat cl) data
        /\ reqs_within buf (m + buf) (reqs s').
Proof.
  intros data sc buf m cl Hbuf payload.
  unfold request_body, request_body_with, body_read, body_read_cl.
  pose proof (cl_loop_gen (S (length (rest (stream_init data sc)))) (stream_init data sc) buf (Some m)
                          (Z.to_nat cl) [] false 0 Hbuf ltac:(lia)) as H.
  cbn [length rest stream_init pos app Nat.add] in H.
  specialize (H ltac:(destruct buf; [lia | reflexivity]) ltac:(simpl; lia) eq_refl).
  cbn [over] in H. cbn [rest stream_init]. fold payload in H.
  destruct (Nat.ltb m payload).
  - destruct H as (s' & -> & Hp & Hb). exists s'. split; [reflexivity|].
    split; [reflexivity|]. destruct (Hb m eq_refl) as [Hb1 Hb2].
    split; [exact Hb1|]. apply Hb2. constructor.
  - destruct H as (s' & -> & Hr & Hp & Hb). exists s'. rewrite firstn_length. fold payload.
    split; [reflexivity|]. split; [reflexivity|]. split; [exact Hr|].
    apply (Hb m eq_refl). constructor.
Qed.

(* ---- chunked decoder with a limit ---- *)

(* one data chunk of a legal encoding, size line within the buffer *)
Lemma ch_loop_chunk_lim : forall f s buf maxb acc sp c t,
  chunk_ok c -> line_len c <= buf ->
  rest s = enc_line c ++ c_data c ++ CRLF ++ t ->
  length (rest s) <= f ->
  sp = Nat.ltb buf (length acc) -> over maxb (length acc) = false ->
  if over maxb (length acc + length (c_data c)) then
    exists s', ch_loop (S f) s buf maxb acc sp = BTooLarge s'
               /\ pos s' <= pos s + line_len c + length (c_data c)
               /\ forall m, maxb = Some m -> length acc + (pos s' - (pos s + line_len c)) <= m + buf
  else
    exists s4, ch_loop (S f) s buf maxb acc sp
               = ch_loop f s4 buf maxb (acc ++ c_data c) (Nat.ltb buf (length (acc ++ c_data c)))
               /\ rest s4 = t
               /\ pos s4 = pos s + line_len c + length (c_data c) + 2.
Proof.
  intros f s buf maxb acc sp c t Hok Hfit Hr Hf Hsp Hov.
  destruct (chunk_size_parses c Hok) as [Hint Hpos].
  destruct Hok as (Hne & Hv & He).
  cbn [ch_loop].
  assert (Hr' : rest s = c_size c ++ c_ext c ++ CRLF ++ (c_data c ++ CRLF ++ t)).
  { rewrite Hr. unfold enc_line. now rewrite <- !app_assoc. }
  destruct (scan_line_legal s buf _ _ _ _ Hv He Hr') as [(s1 & _ & Hlong)|(s1 & -> & Hr1 & Hp1 & _)].
  { unfold line_len in Hfit. lia. }
  rewrite Hint.
  replace (Z.of_nat (length (c_data c)) =? 0)%Z with false by lia.
  assert (Hbuf : 0 < buf) by (unfold line_len in Hfit; lia).
  assert (Hfu : length (rest s1) < S (length (rest s1))) by lia.
  set (fu := S (length (rest s1))) in *.
  pose proof (ch_payload_gen fu s1 buf maxb (Z.of_nat (length (c_data c))) acc sp
                             Hbuf Hfu Hsp Hov) as Hp.
  rewrite Nat2Z.id, Hr1, app_length in Hp.
  replace (Nat.min (length (c_data c)) (length (c_data c) + length (CRLF ++ t)))
    with (length (c_data c)) in Hp by lia.
  fold (line_len c) in Hp1.
  destruct (over maxb (length acc + length (c_data c))).
  - destruct Hp as (s2 & -> & Hp2 & Hb). exists s2. split; [reflexivity|]. split; [lia|].
    intros m Hm. specialize (Hb m Hm). lia.
  - replace (length (c_data c) <=? length (c_data c) + length (CRLF ++ t)) with true in Hp by lia.
    destruct Hp as (s2 & -> & Hr2 & Hp2).
    rewrite firstn_app, Nat.sub_diag, firstn_all, firstn_O, app_nil_r in *.
    rewrite skipn_app, Nat.sub_diag, skipn_all in Hr2. cbn [skipn app CRLF] in Hr2.
    destruct (read1_cons s2 _ _ Hr2) as (s3 & -> & Hr3 & Hp3). cbn [is_byte N.eqb Pos.eqb].
    destruct (read1_cons s3 _ _ Hr3) as (s4 & -> & Hr4 & Hp4). cbn [is_byte N.eqb Pos.eqb].
    exists s4. split; [reflexivity|]. split; [exact Hr4|]. lia.
Qed.

Definition lines_len (cs : list chunk) : nat := length (flat_map enc_line cs).

Lemma Forall_firstn_keep {A} (P : A -> Prop) n : forall l, Forall P l -> Forall P (firstn n l).
Proof.
  induction n as [|n IH]; intros l H; [constructor|].
  destruct H; simpl; constructor; auto.
Qed.

Lemma ch_loop_lim : forall cs fuel s buf maxb acc sp last tail,
  Forall chunk_ok cs -> Forall (fun c => line_len c <= buf) cs ->
  last_ok last -> line_len last <= buf ->
  rest s = enc_chunked cs last tail ->
  length (rest s) < fuel ->
  sp = Nat.ltb buf (length acc) -> over maxb (length acc) = false ->
  if over maxb (length acc + length (payload_of cs)) then
    exists s' k,
      ch_loop fuel s buf maxb acc sp = BTooLarge s'
      /\ k < length cs
      /\ over maxb (length acc + length (payload_of (firstn k cs))) = false
      /\ over maxb (length acc + length (payload_of (firstn (S k) cs))) = true
      /\ forall m, maxb = Some m ->
           pos s' <= pos s + (m - length acc + buf) + lines_len (firstn (S k) cs) + 2 * k
  else
    exists s', ch_loop fuel s buf maxb acc sp
               = BDone (acc ++ payload_of cs) (Nat.ltb buf (length (acc ++ payload_of cs))) s'
               /\ rest s' = tail.
Proof.
  induction cs as [|c cs IH]; intros fuel s buf maxb acc sp last tail Hcs Hfit Hl Hlfit Hr Hfuel Hsp Hov.
  - destruct fuel as [|f]; [lia|].
    unfold payload_of. cbn [flat_map length]. rewrite Nat.add_0_r, Hov.
    unfold enc_chunked in Hr. cbn [flat_map app] in Hr.
    (* the last-chunk line does not depend on the limit *)
    destruct Hl as (Hd & Hv & He). cbn [ch_loop].
    assert (Hr' : rest s = c_size last ++ c_ext last ++ CRLF ++ tail).
    { rewrite Hr. unfold enc_line. now rewrite <- !app_assoc. }
    destruct (scan_line_legal s buf _ _ _ _ Hv He Hr') as [(s1 & _ & Hlong)|(s1 & -> & Hr1 & Hp1 & _)].
    { unfold line_len in Hlfit. lia. }
    rewrite (py_int_hex_of_val _ _ Hv). cbn [Z.of_N Z.eqb].
    exists s1. rewrite app_nil_r, <- Hsp. split; [reflexivity | exact Hr1].
  - destruct fuel as [|f]; [lia|].
    apply Forall_cons_iff in Hcs. destruct Hcs as [Hc Hcs].
    apply Forall_cons_iff in Hfit. destruct Hfit as [Hcfit Hfit].
    assert (Hr' : rest s = enc_line c ++ c_data c ++ CRLF ++ enc_chunked cs last tail).
    { rewrite Hr. unfold enc_chunked, enc_chunk. cbn [flat_map]. now rewrite <- !app_assoc. }
    pose proof (ch_loop_chunk_lim f s buf maxb acc sp c _ Hc Hcfit Hr' ltac:(lia) Hsp Hov) as Hstep.
    assert (Hpl : length (payload_of (c :: cs)) = length (c_data c) + length (payload_of cs)).
    { unfold payload_of. cbn [flat_map]. now rewrite app_length. }
    destruct (over maxb (length acc + length (c_data c))) eqn:Hov1.
    + (* rejected inside this chunk *)
      replace (over maxb (length acc + length (payload_of (c :: cs)))) with true.
      2:{ symmetry. rewrite Hpl. destruct maxb as [m|]; simpl in *; [lia | discriminate]. }
      destruct Hstep as (s' & -> & Hp & Hb). exists s', 0.
      split; [reflexivity|]. split; [simpl; lia|].
      cbn [firstn]. unfold payload_of at 1. cbn [flat_map length]. rewrite Nat.add_0_r.
      split; [exact Hov|]. split.
      { unfold payload_of. cbn [flat_map]. now rewrite app_nil_r. }
      intros m Hm. specialize (Hb m Hm).
      unfold lines_len. cbn [flat_map]. rewrite app_nil_r. fold (line_len c).
      assert (length (enc_line c) = line_len c).
      { unfold enc_line, line_len, CRLF. rewrite !app_length. simpl. lia. }
      subst maxb. simpl in Hov. lia.
    + destruct Hstep as (s4 & -> & Hr4 & Hp4).
      specialize (IH f s4 buf maxb (acc ++ c_data c) (Nat.ltb buf (length (acc ++ c_data c))) last tail
                     Hcs Hfit Hl Hlfit Hr4).
      rewrite (app_length acc (c_data c)) in IH. rewrite (app_length acc (c_data c)).
      specialize (IH ltac:(rewrite Hr4; rewrite Hr', !app_length in Hfuel; change (length CRLF) with 2 in Hfuel; lia)
                     eq_refl Hov1).
      rewrite Hpl, Nat.add_assoc.
      destruct (over maxb (length acc + length (c_data c) + length (payload_of cs))).
      * destruct IH as (s' & k & -> & Hk & Ho1 & Ho2 & Hb). exists s', (S k).
        split; [reflexivity|]. split; [simpl; lia|].
        assert (Hpk : forall j, length (payload_of (firstn (S j) (c :: cs)))
                                = length (c_data c) + length (payload_of (firstn j cs))).
        { intros j. cbn [firstn]. unfold payload_of. cbn [flat_map]. now rewrite app_length. }
        rewrite !Hpk, !Nat.add_assoc. split; [exact Ho1|]. split; [exact Ho2|].
        intros m Hm. specialize (Hb m Hm).
        assert (Hll : lines_len (firstn (S (S k)) (c :: cs)) = line_len c + lines_len (firstn (S k) cs)).
        { unfold lines_len. cbn [firstn flat_map]. rewrite app_length.
          unfold enc_line at 1, line_len, CRLF. rewrite !app_length. simpl. lia. }
        rewrite Hll. subst maxb. simpl in Hov1. lia.
      * destruct IH as (s' & -> & Hrt). exists s'.
        rewrite length_payload_app. split; [reflexivity | exact Hrt].
Qed.

Lemma C13_chunked_lemma :
  forall (cs : list chunk) (last : chunk) (tail : list N) (buf m : nat) (sc : list nat),
    Forall chunk_ok cs -> last_ok last ->
    Forall (fun c => line_len c <= buf) cs -> line_len last <= buf ->
    let s := stream_init (enc_chunked cs last tail) sc in
    if Nat.ltb m (length (payload_of cs)) then
      exists s' k,
        body_read_chunked s buf (Some m) = BTooLarge s'
        /\ request_body s buf (Some m) (-1) true = RStatus 413 s'
        /\ k < length cs
        /\ length (payload_of (firstn k cs)) <= m < length (payload_of (firstn (S k) cs))
        /\ pos s' <= (m + buf) + lines_len (firstn (S k) cs) + 2 * k
        /\ lines_len (firstn (S k) cs) + 2 * k <= S k * (buf + 2)
    else
      exists s',
        body_read_chunked s buf (Some m)
        = BDone (payload_of cs) (Nat.ltb buf (length (payload_of cs))) s'
        /\ request_body s buf (Some m) (-1) true
           = RBody (payload_of cs) (Nat.ltb buf (length (payload_of cs))) s'
        /\ rest s' = tail.
Proof.
  intros cs last tail buf m sc Hcs Hl Hfit Hlfit s.
  unfold request_body, request_body_with, body_read, body_read_chunked.
  pose proof (ch_loop_lim cs (S (length (rest s))) s buf (Some m) [] false last tail
                          Hcs Hfit Hl Hlfit eq_refl ltac:(lia)) as H.
  specialize (H ltac:(unfold line_len in Hlfit; destruct buf; [lia | reflexivity]) ltac:(simpl; lia)).
  cbn [length Nat.add over app] in H.
  destruct (Nat.ltb m (length (payload_of cs))).
  - destruct H as (s' & k & -> & Hk & Ho1 & Ho2 & Hb). exists s', k.
    split; [reflexivity|]. split; [reflexivity|]. split; [exact Hk|].
    split; [lia|]. specialize (Hb m eq_refl). cbn [pos stream_init s] in Hb.
    split; [lia|].
    (* each size line seen is at most one buffer *)
    assert (Hlines : forall l, Forall (fun c => line_len c <= buf) l -> lines_len l <= length l * buf).
    { induction l as [|c l IHl]; intros Hf; [reflexivity|].
      apply Forall_cons_iff in Hf. destruct Hf as [Hc Hf]. specialize (IHl Hf).
      unfold lines_len in *. cbn [flat_map length]. rewrite app_length.
      assert (length (enc_line c) = line_len c).
      { unfold enc_line, line_len, CRLF. rewrite !app_length. simpl. lia. }
      lia. }
    specialize (Hlines (firstn (S k) cs) (Forall_firstn_keep _ (S k) _ Hfit)).
    rewrite firstn_length in Hlines. nia.
  - destruct H as (s' & -> & Hr). exists s'. auto.
Qed.

(* ---- the spill flag, for every input ---- *)

Lemma cl_loop_sp : forall fuel s buf maxb c acc sp b sp' s',
  sp = Nat.ltb buf (length acc) ->
  cl_loop fuel s buf maxb c acc sp = BDone b sp' s' -> sp' = Nat.ltb buf (length b).
Proof.
  induction fuel as [|f IH]; intros s buf maxb c acc sp b sp' s' Hsp H; [discriminate|].
  cbn [cl_loop] in H. destruct (c =? 0); [injection H as <- <- _; exact Hsp|].
  destruct (read s (Nat.min c buf)) as [part s1].
  destruct part as [|x part]; [injection H as <- <- _; exact Hsp|].
  destruct (over maxb (length (acc ++ x :: part))); [discriminate|].
  eapply IH; [|exact H]. rewrite Hsp. rewrite app_length. lia.
Qed.

Lemma ch_payload_sp : forall fuel s buf maxb c acc sp,
  sp = Nat.ltb buf (length acc) ->
  match ch_payload fuel s buf maxb c acc sp with
  | PCont _ acc' sp' => sp' = Nat.ltb buf (length acc')
  | PStop (BDone _ _ _) => False
  | PStop _ => True
  end.
Proof.
  induction fuel as [|f IH]; intros s buf maxb c acc sp Hsp; [exact I|].
  cbn [ch_payload]. destruct (c <=? 0)%Z; [exact Hsp|].
  destruct (read s _) as [part s1].
  destruct part as [|x part]; [exact I|].
  destruct (over maxb (length (acc ++ x :: part))); [exact I|].
  apply IH. rewrite Hsp, app_length. lia.
Qed.

Lemma ch_loop_sp : forall fuel s buf maxb acc sp b sp' s',
  sp = Nat.ltb buf (length acc) ->
  ch_loop fuel s buf maxb acc sp = BDone b sp' s' -> sp' = Nat.ltb buf (length b).
Proof.
  induction fuel as [|f IH]; intros s buf maxb acc sp b sp' s' Hsp H; [discriminate|].
  cbn [ch_loop] in H.
  destruct (scan_line buf s false false []) as [[dg|] s1]; [|discriminate].
  destruct (py_int_hex dg) as [z|]; [|discriminate].
  destruct (z =? 0)%Z; [injection H as <- <- _; exact Hsp|].
  pose proof (ch_payload_sp (S (length (rest s1))) s1 buf maxb z acc sp Hsp) as Hp.
  destruct (ch_payload _ s1 buf maxb z acc sp) as [s2 acc2 sp2|r].
  2:{ destruct r; try discriminate. contradiction. }
  destruct (read s2 1) as [c1 s3]. destruct (is_byte c1 13); [|discriminate].
  destruct (read s3 1) as [c2 s4]. destruct (is_byte c2 10); [|discriminate].
  eapply IH; [exact Hp | exact H].
Qed.

Lemma C13_spill_lemma :
  forall (data : list N) (sc : list nat) (buf : nat) (maxb : option nat) (cl : Z) (chunked : bool) b sp s',
    body_read (stream_init data sc) buf maxb cl chunked = BDone b sp s' ->
    sp = Nat.ltb buf (length b).
Proof.
  intros data sc buf maxb cl chunked b sp s' H. unfold body_read in H.
  destruct chunked.
  - eapply ch_loop_sp; [|exact H]. simpl. destruct buf; reflexivity.
  - eapply cl_loop_sp; [|exact H]. simpl. destruct buf; reflexivity.
Qed.

(* ---- acceptance never exceeds the limit, for every input ---- *)

Lemma cl_loop_within : forall fuel s buf m c acc sp b sp' s',
  length acc <= m ->
  cl_loop fuel s buf (Some m) c acc sp = BDone b sp' s' -> length b <= m.
Proof.
  induction fuel as [|f IH]; intros s buf m c acc sp b sp' s' Hacc H; [discriminate|].
  cbn [cl_loop] in H. destruct (c =? 0); [injection H as <- _ _; exact Hacc|].
  destruct (read s (Nat.min c buf)) as [part s1].
  destruct part as [|x part]; [injection H as <- _ _; exact Hacc|].
  destruct (over (Some m) (length (acc ++ x :: part))) eqn:Hov; [discriminate|].
  eapply IH; [|exact H]. simpl in Hov. lia.
Qed.

Lemma ch_payload_within : forall fuel s buf m c acc sp,
  length acc <= m ->
  match ch_payload fuel s buf (Some m) c acc sp with
  | PCont _ acc' _ => length acc' <= m
  | PStop (BDone _ _ _) => False
  | PStop _ => True
  end.
Proof.
  induction fuel as [|f IH]; intros s buf m c acc sp Hacc; [exact I|].
  cbn [ch_payload]. destruct (c <=? 0)%Z; [exact Hacc|].
  destruct (read s _) as [part s1].
  destruct part as [|x part]; [exact I|].
  destruct (over (Some m) (length (acc ++ x :: part))) eqn:Hov; [exact I|].
  apply IH. simpl in Hov. lia.
Qed.

Lemma ch_loop_within : forall fuel s buf m acc sp b sp' s',
  length acc <= m ->
  ch_loop fuel s buf (Some m) acc sp = BDone b sp' s' -> length b <= m.
Proof.
  induction fuel as [|f IH]; intros s buf m acc sp b sp' s' Hacc H; [discriminate|].
  cbn [ch_loop] in H.
  destruct (scan_line buf s false false []) as [[dg|] s1]; [|discriminate].
  destruct (py_int_hex dg) as [z|]; [|discriminate].
  destruct (z =? 0)%Z; [injection H as <- _ _; exact Hacc|].
  pose proof (ch_payload_within (S (length (rest s1))) s1 buf m z acc sp Hacc) as Hp.
  destruct (ch_payload _ s1 buf (Some m) z acc sp) as [s2 acc2 sp2|r].
  2:{ destruct r; try discriminate. contradiction. }
  destruct (read s2 1) as [c1 s3]. destruct (is_byte c1 13); [|discriminate].
  destruct (read s3 1) as [c2 s4]. destruct (is_byte c2 10); [|discriminate].
  eapply IH; [exact Hp | exact H].
Qed.

Lemma C13_never_above_limit_lemma :
  forall (data : list N) (sc : list nat) (buf m : nat) (cl : Z) (chunked : bool) b sp s',
    body_read (stream_init data sc) buf (Some m) cl chunked = BDone b sp s' ->
    length b <= m.
Proof.
  intros data sc buf m cl chunked b sp s' H. unfold body_read in H.
  destruct chunked.
  - eapply ch_loop_within; [|exact H]. simpl. lia.
  - eapply cl_loop_within; [|exact H]. simpl. lia.
Qed.

(* ---- _get_body_string ---- *)

Lemma get_body_string_capped body cl maxm d :
  get_body_string body cl maxm = GData d -> (Z.of_nat (length d) <= maxm)%Z.
Proof.
  unfold get_body_string. destruct (cl >? maxm)%Z; [discriminate|].
  destruct (Z.of_nat (length (file_read body _)) >? maxm)%Z eqn:E; [discriminate|].
  intros [= <-]. lia.
Qed.

Lemma get_body_string_spec body cl maxm :
  (0 <= maxm)%Z ->
  get_body_string body cl maxm =
  if (cl <? 0)%Z then (if (Z.of_nat (length body) >? maxm)%Z then GTooLarge else GData body)
  else if (Z.of_nat (Nat.min (Z.to_nat cl) (length body)) >? maxm)%Z || (cl >? maxm)%Z then GTooLarge
       else GData (firstn (Z.to_nat cl) body).
Proof.
  intros Hm. unfold get_body_string, file_read.
  destruct (Z.ltb_spec cl 0) as [Hneg|Hpos].
  - replace (cl >? maxm)%Z with false by lia.
    replace (maxm + 1 <? 0)%Z with false by lia.
    destruct (Nat.le_gt_cases (length body) (Z.to_nat (maxm + 1))) as [Hle|Hgt].
    + rewrite firstn_all2 by lia. reflexivity.
    + rewrite firstn_length. replace (Z.of_nat (length body) >? maxm)%Z with true by lia.
      replace (Z.of_nat (Nat.min (Z.to_nat (maxm + 1)) (length body)) >? maxm)%Z with true by lia.
      reflexivity.
  - destruct (cl >? maxm)%Z eqn:E; [now rewrite orb_true_r|].
    replace (cl <? 0)%Z with false by lia. rewrite firstn_length, orb_false_r. reflexivity.
Qed.

Lemma C13_form_text_capped_lemma :
  forall (data : list N) (sc : list nat) (buf : nat) (maxb : option nat) (cl : Z) (chunked : bool) d s',
    form_text (stream_init data sc) buf maxb cl chunked = TText d s' -> length d <= buf.
Proof.
  intros data sc buf maxb cl chunked d s'. unfold form_text, form_text_with.
  destruct (request_body_with _ _ _ _ _ _) as [b sp s1|c s1|s1|]; try discriminate.
  destruct (get_body_string b _ (Z.of_nat buf)) as [d0|] eqn:E.
  - intros [= <- _]. apply get_body_string_capped in E. lia.
  - destruct (raise_status _ _ _); discriminate.
Qed.

(* text longer than the threshold is refused with the status of BodySizeError (413) *)
Lemma C13_form_text_refused_lemma :
  (forall (data : list N) (sc : list nat) (buf : nat) (maxb : option nat) (cl : Z),
      0 < buf -> (0 <= cl)%Z ->
      buf < Nat.min (Z.to_nat cl) (length data) ->
      exists s', form_text (stream_init data sc) buf maxb cl false = TStatus 413 s')
  /\
  (forall (cs : list chunk) (last : chunk) (tail : list N) (buf : nat) (maxb : option nat) (sc : list nat),
      Forall chunk_ok cs -> last_ok last ->
      Forall (fun c => line_len c <= buf) cs -> line_len last <= buf ->
      buf < length (payload_of cs) ->
      exists s', form_text (stream_init (enc_chunked cs last tail) sc) buf maxb (-1) true = TStatus 413 s').
Proof.
  split.
  - intros data sc buf maxb cl Hbuf Hcl Hbig.
    unfold form_text, form_text_with, request_body_with, body_read.
    destruct maxb as [m|].
    + pose proof (C13_cl_lemma data sc buf m cl Hbuf) as H. cbv zeta in H.
      destruct (Nat.ltb m (Nat.min (Z.to_nat cl) (length data))).
      * destruct H as (s' & -> & _). exists s'. reflexivity.
      * destruct H as (s' & -> & _). exists s'.
        rewrite get_body_string_spec by lia.
        replace (cl <? 0)%Z with false by lia.
        rewrite firstn_length.
        replace (Z.of_nat (Nat.min (Z.to_nat cl) (Nat.min (Z.to_nat cl) (length data))) >? Z.of_nat buf)%Z
          with true by lia.
        reflexivity.
    + destruct (C04_exact_lemma data sc buf cl Hbuf) as (s' & -> & _). exists s'.
      rewrite get_body_string_spec by lia.
      replace (cl <? 0)%Z with false by lia.
      rewrite firstn_length.
      replace (Z.of_nat (Nat.min (Z.to_nat cl) (Nat.min (Z.to_nat cl) (length data))) >? Z.of_nat buf)%Z
        with true by lia.
      reflexivity.
  - intros cs last tail buf maxb sc Hcs Hl Hfit Hlfit Hbig.
    unfold form_text, form_text_with, request_body_with, body_read.
    destruct maxb as [m|].
    + pose proof (C13_chunked_lemma cs last tail buf m sc Hcs Hl Hfit Hlfit) as H. cbv zeta in H.
      destruct (Nat.ltb m (length (payload_of cs))).
      * destruct H as (s' & k & -> & _). exists s'. reflexivity.
      * destruct H as (s' & -> & _). exists s'.
        rewrite get_body_string_spec by lia. cbn [Z.ltb Z.compare].
        replace (Z.of_nat (length (payload_of cs)) >? Z.of_nat buf)%Z with true by lia.
        reflexivity.
    + destruct (C05_exact_lemma cs last tail buf sc Hcs Hl Hfit Hlfit) as (s' & -> & _). exists s'.
      rewrite get_body_string_spec by lia. cbn [Z.ltb Z.compare].
      replace (Z.of_nat (length (payload_of cs)) >? Z.of_nat buf)%Z with true by lia.
      reflexivity.
Qed.

(* ---- the multipart in-memory budget ---- *)

Definition item_need (it : mp_item) : Z :=
  let '(h, d, is_file) := it in if is_file then h else (h + d)%Z.

Definition need (items : list mp_item) : Z := fold_right (fun it a => (item_need it + a)%Z) 0%Z items.

Definition item_nonneg (it : mp_item) : Prop :=
  let '(h, d, _) := it in (0 <= h)%Z /\ (0 <= d)%Z.

Lemma need_nonneg items : Forall item_nonneg items -> (0 <= need items)%Z.
Proof.
  induction 1 as [|[[h d] f] l Hx _ IH]; simpl; [lia|]. simpl in Hx. destruct f; lia.
Qed.

Lemma mp_budget_spec : forall items mr i0,
  Forall item_nonneg items -> (0 <= mr)%Z ->
  if (need items <=? mr)%Z then mp_budget items mr i0 = BudgetOk (mr - need items)%Z
  else exists i, mp_budget items mr i0 = BudgetExceeded (i0 + i)
                 /\ i < length items
                 /\ (need (firstn i items) <= mr < need (firstn (S i) items))%Z.
Proof.
  induction items as [|[[h d] f] items IH]; intros mr i0 Hnn Hmr.
  - cbn [need fold_right mp_budget]. destruct (Z.leb_spec 0 mr); [f_equal; lia | lia].
  - apply Forall_cons_iff in Hnn. destruct Hnn as [[Hh Hd] Hnn].
    pose proof (need_nonneg items Hnn) as Hn.
    cbn [mp_budget]. change (need ((h, d, f) :: items)) with (item_need (h, d, f) + need items)%Z.
    cbn [item_need].
    destruct (Z.gtb_spec h mr) as [Hhm|Hhm].
    + replace ((if f then h else h + d) + need items <=? mr)%Z with false by (destruct f; lia).
      exists 0. rewrite Nat.add_0_r. split; [reflexivity|]. split; [unfold mp_item; simpl; lia|].
      cbn [firstn need fold_right item_need]. destruct f; lia.
    + assert (Hrec : forall mr' , (mr' = mr - (if f then h else h + d))%Z ->
                (if f then True else (h + d <= mr)%Z) ->
                if ((if f then h else h + d) + need items <=? mr)%Z
                then mp_budget items mr' (S i0) = BudgetOk (mr - ((if f then h else h + d) + need items))%Z
                else exists i, mp_budget items mr' (S i0) = BudgetExceeded (i0 + i)
                               /\ i < length ((h, d, f) :: items)
                               /\ (need (firstn i ((h, d, f) :: items)) <= mr
                                   < need (firstn (S i) ((h, d, f) :: items)))%Z).
      { intros mr' -> Hfit. specialize (IH (mr - (if f then h else h + d))%Z (S i0) Hnn ltac:(destruct f; lia)).
        replace ((if f then h else h + d) + need items <=? mr)%Z
          with (need items <=? mr - (if f then h else h + d))%Z by lia.
        destruct (need items <=? mr - (if f then h else h + d))%Z.
        - rewrite IH. f_equal. lia.
        - destruct IH as (i & -> & Hi & Hb). exists (S i).
          split; [f_equal; lia|]. split; [clear - Hi; unfold mp_item in *; simpl; lia|].
          change (firstn (S i) ((h, d, f) :: items)) with ((h, d, f) :: firstn i items).
          change (firstn (S (S i)) ((h, d, f) :: items)) with ((h, d, f) :: firstn (S i) items).
          change (need ((h, d, f) :: firstn i items)) with (item_need (h, d, f) + need (firstn i items))%Z.
          change (need ((h, d, f) :: firstn (S i) items))
            with (item_need (h, d, f) + need (firstn (S i) items))%Z.
          cbn [item_need]. lia. }
      destruct f.
      * apply Hrec; [reflexivity | exact I].
      * destruct (Z.eqb_spec d 0) as [->|Hd0].
        -- replace (mr - h)%Z with (mr - (h + 0))%Z by lia. apply Hrec; [reflexivity | lia].
        -- destruct (Z.gtb_spec (h + d) mr) as [Hov|Hfit].
           ++ replace (h + d + need items <=? mr)%Z with false by lia.
              exists 0. rewrite Nat.add_0_r. split; [reflexivity|]. split; [unfold mp_item; simpl; lia|].
              cbn [firstn need fold_right item_need]. lia.
           ++ apply Hrec; [reflexivity | exact Hfit].
Qed.

Lemma C13_multipart_budget_lemma :
  forall (items : list mp_item) (max_read : Z),
    Forall item_nonneg items -> (0 <= max_read)%Z ->
    ((need items <= max_read)%Z -> mp_budget items max_read 0 = BudgetOk (max_read - need items)%Z)
    /\ ((need items > max_read)%Z ->
        exists i, mp_budget items max_read 0 = BudgetExceeded i /\ i < length items
                  /\ (need (firstn i items) <= max_read < need (firstn (S i) items))%Z).
Proof.
  intros items mr Hnn Hmr. pose proof (mp_budget_spec items mr 0 Hnn Hmr) as H.
  split; intros Hc.
  - replace (need items <=? mr)%Z with true in H by lia. exact H.
  - replace (need items <=? mr)%Z with false in H by lia. exact H.
Qed.

(* ---- no single read ever asks for more than one buffer, for every input ---- *)

Definition reqs_small (buf : nat) (s : stream) : Prop := Forall (fun np => fst np <= buf) (reqs s).

Definition bres_small (buf : nat) (r : bres) : Prop :=
  match r with
  | BDone _ _ s | BTooLarge s | BParseErr s => reqs_small buf s
  | BOutOfFuel => True
  end.

Lemma read_small s n buf : n <= buf -> reqs_small buf s -> reqs_small buf (snd (read s n)).
Proof. intros Hn H. unfold read, reqs_small. cbn [snd reqs]. constructor; [exact Hn | exact H]. Qed.

Lemma scan_line_small buf k : forall s sr ss dg,
  0 < buf -> reqs_small buf s -> reqs_small buf (snd (scan_line k s sr ss dg)).
Proof.
  induction k as [|k IH]; intros s sr ss dg Hbuf H; cbn [scan_line];
    pose proof (read_small s 1 buf Hbuf H) as H1; destruct (read s 1) as [c s1]; cbn [snd] in *.
  - exact H1.
  - destruct c as [|b c']; [exact H1|].
    destruct (sr && (b =? 10)%N); [exact H1|].
    destruct ss; [apply IH; assumption|].
    destruct ((b =? 13)%N || (b =? 59)%N); apply IH; assumption.
Qed.

Lemma ch_payload_small : forall fuel s buf maxb c acc sp,
  reqs_small buf s ->
  match ch_payload fuel s buf maxb c acc sp with
  | PCont s' _ _ => reqs_small buf s'
  | PStop r => bres_small buf r
  end.
Proof.
  induction fuel as [|f IH]; intros s buf maxb c acc sp H; [exact I|].
  cbn [ch_payload]. destruct (c <=? 0)%Z; [exact H|].
  pose proof (read_small s (Z.to_nat (Z.min c (Z.of_nat buf))) buf ltac:(lia) H) as H1.
  destruct (read s _) as [part s1]. cbn [snd] in H1.
  destruct part as [|x part]; [exact H1|].
  destruct (over maxb (length (acc ++ x :: part))); [exact H1|].
  apply IH; exact H1.
Qed.

Lemma ch_loop_small : forall fuel s buf maxb acc sp,
  0 < buf -> reqs_small buf s -> bres_small buf (ch_loop fuel s buf maxb acc sp).
Proof.
  induction fuel as [|f IH]; intros s buf maxb acc sp Hbuf H; [exact I|].
  cbn [ch_loop].
  pose proof (scan_line_small buf buf s false false [] Hbuf H) as H1.
  destruct (scan_line buf s false false []) as [[dg|] s1]; cbn [snd] in H1; [|exact H1].
  destruct (py_int_hex dg) as [z|]; [|exact H1].
  destruct (z =? 0)%Z; [exact H1|].
  pose proof (ch_payload_small (S (length (rest s1))) s1 buf maxb z acc sp H1) as H2.
  destruct (ch_payload _ s1 buf maxb z acc sp) as [s2 acc2 sp2|r]; [|exact H2].
  pose proof (read_small s2 1 buf Hbuf H2) as H3. destruct (read s2 1) as [c1 s3]. cbn [snd] in H3.
  destruct (is_byte c1 13); [|exact H3].
  pose proof (read_small s3 1 buf Hbuf H3) as H4. destruct (read s3 1) as [c2 s4]. cbn [snd] in H4.
  destruct (is_byte c2 10); [|exact H4].
  apply IH; assumption.
Qed.

Lemma cl_loop_small : forall fuel s buf maxb c acc sp,
  reqs_small buf s -> bres_small buf (cl_loop fuel s buf maxb c acc sp).
Proof.
  induction fuel as [|f IH]; intros s buf maxb c acc sp H; [exact I|].
  cbn [cl_loop]. destruct (c =? 0); [exact H|].
  pose proof (read_small s (Nat.min c buf) buf ltac:(lia) H) as H1.
  destruct (read s _) as [part s1]. cbn [snd] in H1.
  destruct part as [|x part]; [exact H1|].
  destruct (over maxb (length (acc ++ x :: part))); [exact H1|].
  apply IH; exact H1.
Qed.

Lemma C13_reads_small_lemma :
  forall (data : list N) (sc : list nat) (buf : nat) (maxb : option nat) (cl : Z) (chunked : bool),
    0 < buf -> bres_small buf (body_read (stream_init data sc) buf maxb cl chunked).
Proof.
  intros data sc buf maxb cl chunked Hbuf. unfold body_read.
  destruct chunked.
  - apply ch_loop_small; [exact Hbuf | constructor].
  - apply cl_loop_small. constructor.
Qed.

(* ---- sequences of requests; a request object without errors_map ---- *)
Lemma C13_seq_lemma :
  forall (pre post : list (list Z)) (x : list Z),
    nth (length pre) (run_seq13 (pre ++ x :: post)) [] = corr_C13_one x.
Proof. intros. apply nth_map_app. Qed.

Lemma C13_unmapped_lemma :
  forall s buf maxb cl chunked,
    match request_body_with [] s buf maxb cl chunked with
    | RStatus _ _ => False
    | _ => True
    end
    /\ (forall s', body_read s buf maxb cl chunked = BTooLarge s' ->
                   request_body_with [] s buf maxb cl chunked = REscape s').
Proof.
  intros s buf maxb cl chunked. unfold request_body_with, mapped, raise_status. cbn [emap_get].
  split; [destruct (body_read s buf maxb cl chunked); exact I|].
  intros s' ->. reflexivity.
Qed.

(* ---- fix F37: under a chunked coding the form text does not depend on Content-Length ---- *)
Lemma C13_form_text_chunked_ignores_cl_lemma :
  forall (s : stream) (buf : nat) (maxb : option nat) (cl cl' : Z),
    form_text s buf maxb cl true = form_text s buf maxb cl' true.
Proof. intros. reflexivity. Qed.
