(* C19_pins.v — the facts about /repo the C19 model depends on, as the
   translator (tools/gen_constants.py -> gen/Gen.v) observes them on the
   RUNNING code today (spelling-independent: Gen.filter_table is computed by
   calling FilterFactory.filters[name](None) and (...)("a.b"), not read from
   the source text).  rex is not part of the table (outside the model).
   FilterFactory.filters as pinned  (name, mask for no argument, mask for the
   argument "a.b", converter applied to the matched text, the out-formatter
   applied to 5 | "7" | 2.5 | "-03" | 10.0):
     re     mask(None)=''               mask("a.b")='a.b'            converter=none   formatter samples=none
     int    mask(None)='-?\\d+'         mask("a.b")='-?\\d+'         converter=int    formatter samples=5|7|2|-3|10
     float  mask(None)='-?\\d+(\\.\\d+)?' mask("a.b")='-?\\d+(\\.\\d+)?' converter=float  formatter samples=5.0|7.0|2.5|-3.0|10.0
     path   mask(None)='.+$'            mask("a.b")='.+(?=a\\.b)'    converter=none   formatter samples=none
   What model/RouteUrl.v reads from it:
     * the four kinds re / int / float / path (fkind) and nothing else;
     * converter: int -> handler's PInt (Z_of_dec text), float -> PFloat (fconv text),
       none (re, path) -> the matched text itself;
     * formatter (f_out_of / apply_fmt): int -> str(int(x)) = dec_of_Z, float ->
       str(float(x)), none for re and path — table_agrees_with_model below checks
       the int samples 5, "7", "-03" against apply_fmt and the float sample 2.5;
     * masks: int is -?\d+ — implemented by PyIntDec.int_rx over the ASCII
       digits; the masks of float / re / path are not modelled (section
       variable rx), they are pinned only so that a change is noticed.
   If any of this changes in the source, these obligations break. *)
From Verif Require Import lib.Base lib.Str lib.PyIntDec gen.Gen model.RouteUrl.
Local Open Scope N_scope.

Definition filter_table_expected : list (str * (str * str * str * str)) :=
  [([114; 101], ([], [97; 46; 98], [110; 111; 110; 101], [110; 111; 110; 101]));
   ([105; 110; 116], ([45; 63; 92; 100; 43], [45; 63; 92; 100; 43], [105; 110; 116], [53; 124; 55; 124; 50; 124; 45; 51; 124; 49; 48]));
   ([102; 108; 111; 97; 116], ([45; 63; 92; 100; 43; 40; 92; 46; 92; 100; 43; 41; 63], [45; 63; 92; 100; 43; 40; 92; 46; 92; 100; 43; 41; 63], [102; 108; 111; 97; 116], [53; 46; 48; 124; 55; 46; 48; 124; 50; 46; 53; 124; 45; 51; 46; 48; 124; 49; 48; 46; 48]));
   ([112; 97; 116; 104], ([46; 43; 36], [46; 43; 40; 63; 61; 97; 92; 46; 98; 41], [110; 111; 110; 101], [110; 111; 110; 101]))].

Lemma filter_table_pinned : Gen.filter_table = filter_table_expected.
Proof. reflexivity. Qed.

Lemma tokens_pinned : Gen.param_token = CR /\ Gen.path_sep = SLASH.
Proof. split; reflexivity. Qed.

(* ---- the table read through the model's own functions ---- *)

Definition row (name : str) : option (str * str * str * str) :=
  match find (fun e => str_eqb (fst e) name) Gen.filter_table with
  | Some e => Some (snd e)
  | None => None
  end.

Definition s_int : str := [105; 110; 116].
Definition s_float : str := [102; 108; 111; 97; 116].
Definition s_re : str := [114; 101].
Definition s_path : str := [112; 97; 116; 104].
Definition s_none : str := [110; 111; 110; 101].
Definition BAR : N := 124.

Definition kind_of_name (name : str) : option fkind :=
  if str_eqb name s_re then Some KRe else if str_eqb name s_int then Some KInt
  else if str_eqb name s_float then Some KFloat else if str_eqb name s_path then Some KPath else None.

Definition fmt_text (f : fmt) (v : pyval) : str :=
  match apply_fmt f v with UOk s => s | _ => [63] end.

(* every row is one of the model's kinds; its converter and the presence of a
   formatter are what f_out_of says; the formatter samples the model covers
   (int of 5, "7", "-03"; float of 2.5) are what apply_fmt prints *)
Definition row_agrees (e : str * (str * str * str * str)) : bool :=
  let '(name, (m0, m1, conv, samples)) := e in
  match kind_of_name name with
  | None => false
  | Some k =>
    let cols := split_all N.eqb BAR samples in
    match f_out_of k with
    | None => str_eqb conv s_none && str_eqb samples s_none
    | Some FmtInt =>
      str_eqb conv s_int && str_eqb m0 [45; 63; 92; 100; 43] && str_eqb m1 m0 &&
      str_eqb (nth 0 cols []) (fmt_text FmtInt (PInt 5)) &&
      str_eqb (nth 1 cols []) (fmt_text FmtInt (PStr [55])) &&
      str_eqb (nth 3 cols []) (fmt_text FmtInt (PStr [45; 48; 51]))
    | Some FmtFloat =>
      str_eqb conv s_float && str_eqb m1 m0 &&
      str_eqb (nth 2 cols []) (fmt_text FmtFloat (PFloat [50; 46; 53]))
    end
  end.

Lemma table_agrees_with_model :
  forallb row_agrees Gen.filter_table = true /\
  map fst Gen.filter_table = [s_re; s_int; s_float; s_path].
Proof. split; reflexivity. Qed.
