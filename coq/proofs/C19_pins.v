(* C19_pins.v — the constants of /repo the C19 model depends on, as the
   translator (tools/gen_constants.py -> gen/Gen.v) reads them today.  If the
   filter table, the wildcard marker or the path separator changes in the
   source, these obligations break.
   FilterFactory.filters as pinned:
     re     lambda conf: (conf, None, None)
     rex    _rex
     int    lambda conf: ('-?\\d+', int, lambda x: str(int(x)))
     float  lambda conf: ('-?\\d+(\\.\\d+)?', float, lambda x: str(float(x)))
     path   lambda conf: (f'.+(?={re.escape(conf)})' if conf else '.+$', None, None)
   model/RouteUrl.v reads this table as: kinds re/int/float/path (fkind),
   formatter = third component (f_out_of), int mask -?\d+ (PyIntDec.int_rx). *)
From Verif Require Import lib.Base gen.Gen model.RouteUrl.
Local Open Scope N_scope.

Lemma filter_table_pinned :
  Gen.filter_table_src =
  [([114%N; 101%N], [108%N; 97%N; 109%N; 98%N; 100%N; 97%N; 32%N; 99%N; 111%N; 110%N; 102%N; 58%N; 32%N; 40%N; 99%N; 111%N; 110%N; 102%N; 44%N; 32%N; 78%N; 111%N; 110%N; 101%N; 44%N; 32%N; 78%N; 111%N; 110%N; 101%N; 41%N]); ([114%N; 101%N; 120%N], [95%N; 114%N; 101%N; 120%N]); ([105%N; 110%N; 116%N], [108%N; 97%N; 109%N; 98%N; 100%N; 97%N; 32%N; 99%N; 111%N; 110%N; 102%N; 58%N; 32%N; 40%N; 39%N; 45%N; 63%N; 92%N; 92%N; 100%N; 43%N; 39%N; 44%N; 32%N; 105%N; 110%N; 116%N; 44%N; 32%N; 108%N; 97%N; 109%N; 98%N; 100%N; 97%N; 32%N; 120%N; 58%N; 32%N; 115%N; 116%N; 114%N; 40%N; 105%N; 110%N; 116%N; 40%N; 120%N; 41%N; 41%N; 41%N]); ([102%N; 108%N; 111%N; 97%N; 116%N], [108%N; 97%N; 109%N; 98%N; 100%N; 97%N; 32%N; 99%N; 111%N; 110%N; 102%N; 58%N; 32%N; 40%N; 39%N; 45%N; 63%N; 92%N; 92%N; 100%N; 43%N; 40%N; 92%N; 92%N; 46%N; 92%N; 92%N; 100%N; 43%N; 41%N; 63%N; 39%N; 44%N; 32%N; 102%N; 108%N; 111%N; 97%N; 116%N; 44%N; 32%N; 108%N; 97%N; 109%N; 98%N; 100%N; 97%N; 32%N; 120%N; 58%N; 32%N; 115%N; 116%N; 114%N; 40%N; 102%N; 108%N; 111%N; 97%N; 116%N; 40%N; 120%N; 41%N; 41%N; 41%N]); ([112%N; 97%N; 116%N; 104%N], [108%N; 97%N; 109%N; 98%N; 100%N; 97%N; 32%N; 99%N; 111%N; 110%N; 102%N; 58%N; 32%N; 40%N; 102%N; 39%N; 46%N; 43%N; 40%N; 63%N; 61%N; 123%N; 114%N; 101%N; 46%N; 101%N; 115%N; 99%N; 97%N; 112%N; 101%N; 40%N; 99%N; 111%N; 110%N; 102%N; 41%N; 125%N; 41%N; 39%N; 32%N; 105%N; 102%N; 32%N; 99%N; 111%N; 110%N; 102%N; 32%N; 101%N; 108%N; 115%N; 101%N; 32%N; 39%N; 46%N; 43%N; 36%N; 39%N; 44%N; 32%N; 78%N; 111%N; 110%N; 101%N; 44%N; 32%N; 78%N; 111%N; 110%N; 101%N; 41%N])].
Proof. reflexivity. Qed.

Lemma tokens_pinned : Gen.param_token = CR /\ Gen.path_sep = SLASH.
Proof. split; reflexivity. Qed.
