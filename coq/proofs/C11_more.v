(* C11_more.v — (c) the by-rule lookup router[{rule}] = RadiRouter._match with
   filters finds exactly the indexed routes; (a) the prefix-"*" cut seen from the
   hook slots. *)
From Coq Require Import Sorting.Sorted.
From Verif Require Import lib.Base lib.Str gen.Gen model.RouteSpec model.Dispatch model.Router
     proofs.C02_proofs proofs.C01_get proofs.C01_insert proofs.C01_router proofs.C11_proofs proofs.C11_hooks
     proofs.C11_fresh.

Local Opaque TOKEN.
Local Arguments N.eqb : simpl never.

Lemma ofid_eqb_refl a : ofid_eqb a a = true.
Proof. destruct a; simpl; auto using Nat.eqb_refl. Qed.

(* _match with the rule's own filters reaches the node of every held route *)
Lemma tmatch_complete_eq : forall n, wf n -> forall route flts pidx x,
  In (fpat route (skipn pidx flts), x) (paths n) -> ntok route + pidx <= length flts ->
  exists n0, tmatch n route flts pidx = MExact n0 /\ ndata n0 = Some (fst x) /\ nnames n0 = snd x.
Proof.
  induction n as [key d nm0 f h kids IH] using node_ind'. intros Hw route flts pidx x Hin Hn.
  pose proof (wf_inv _ _ _ _ _ _ Hw) as (H1 & H2 & H3 & H4).
  rewrite paths_node in Hin. apply in_app_or in Hin.
  destruct route as [|c0 r].
  - exists (Node key d nm0 f h kids). split; [reflexivity|]. simpl in Hin.
    destruct Hin as [Hin|Hin].
    + destruct d as [y|]; [|destruct Hin]. destruct Hin as [Hin|[]]. injection Hin as <-. simpl. auto.
    + exfalso. apply kid_of_entry in Hin. destruct Hin as (k & p0 & Hk & Hp & _).
      rewrite Forall_forall in H2. specialize (H2 k Hk). unfold key_pcs in Hp.
      destruct (str_eqb (nkey k) tok); [discriminate|]. destruct H2 as [Hne _].
      destruct (nkey k); [contradiction | discriminate].
  - destruct Hin as [Hin|Hin].
    { exfalso. destruct d; [|destruct Hin]. destruct Hin as [Hin|[]]. simpl in Hin.
      destruct (N.eqb c0 TOKEN); [destruct (skipn pidx flts)|]; discriminate. }
    apply kid_of_entry in Hin. destruct Hin as (k & p0 & Hk & Hp & Hp0).
    rewrite Forall_forall in IH, H1. pose proof H2 as H2'. rewrite Forall_forall in H2'.
    specialize (H2' k Hk). cbn [tmatch].
    destruct (str_eqb_spec (nkey k) tok) as [Ht|Ht].
    + rewrite key_pcs_tok in Hp by exact Ht.
      assert (Hc0 : c0 = TOKEN).
      { simpl in Hp. destruct (N.eqb_spec c0 TOKEN); [auto | discriminate]. }
      subst c0.
      assert (Hkh : khead k = TOKEN) by (unfold khead; now rewrite Ht).
      rewrite (tm_go_find _ flts TOKEN (TOKEN :: r) pidx kids k H2 H3 Hk Hkh).
      unfold tm_kid. rewrite Ht.
      assert (Epre : prefixb tok (TOKEN :: r) = true) by (apply prefixb_spec; exists r; reflexivity).
      rewrite Epre, str_eqb_refl. unfold filter_check.
      assert (Hnt : ntok (TOKEN :: r) = S (ntok r)) by (simpl; now rewrite N.eqb_refl).
      rewrite Hnt in Hn.
      destruct flts as [|g0 gs] eqn:Eflts; [simpl in Hn; lia|]. rewrite <- Eflts in *.
      destruct (nth_error flts pidx) as [g|] eqn:Enth.
      2:{ apply nth_error_None in Enth. lia. }
      rewrite (nth_error_skipn flts pidx g Enth) in Hp. simpl in Hp. rewrite N.eqb_refl in Hp.
      injection Hp as Hg Hp. rewrite <- Hg, ofid_eqb_refl. subst p0.
      apply (IH k Hk (H1 k Hk) r flts (S pidx) x); [exact Hp0 | lia].
    + assert (Hlit : ~ In TOKEN (nkey k)) by (destruct H2' as [_ [E|E]]; [contradiction | exact E]).
      rewrite key_pcs_lit in Hp by (auto; apply H2'). symmetry in Hp.
      destruct (fpat_lit_inv _ _ _ _ Hlit Hp) as (Hr & Hp0').
      assert (Hkh : khead k = c0).
      { unfold khead. destruct (nkey k) as [|y s] eqn:E; [destruct H2'; contradiction|].
        simpl in Hr. now injection Hr. }
      rewrite (tm_go_find _ flts c0 (c0 :: r) pidx kids k H2 H3 Hk Hkh).
      unfold tm_kid.
      assert (Epre : prefixb (nkey k) (c0 :: r) = true) by (apply prefixb_spec; eauto).
      rewrite Epre, lit_not_tok by (auto; apply H2').
      subst p0. apply (IH k Hk (H1 k Hk) _ flts pidx x); [exact Hp0|].
      rewrite <- (ntok_lit (nkey k)) by exact Hlit. now rewrite <- Hr.
Qed.

(* router[{rule}] : the route registered under exactly this pattern and these filters *)
Lemma by_rule_inv_lemma R p fl d :
  Inv R -> ntok p = length fl ->
  (rt_match R p fl = Some d <->
   al_get (routes R) p = Some d /\ exists rt, nth_error (heap R) d = Some rt /\ r_filters rt = fl).
Proof.
  intros HI Hn. unfold rt_match. split.
  - destruct (tmatch (tree R) p fl 0) as [n0|] eqn:Et; [|discriminate]. intros Hd.
    assert (Hin : In (fpat p fl, (d, nnames n0)) (paths (tree R)))
      by (apply (tmatch_sound (tree R) (inv_wf R HI) p fl 0 n0 d); auto; lia).
    apply (inv_paths R HI) in Hin. destruct Hin as (p' & d1 & rt & A & B & C). unfold entry_of in C.
    injection C as C1 <- _. apply fpat_inj in C1 as Hp. subst p'. split; [exact A|].
    exists rt. split; [exact B|]. destruct (inv_routes R HI p d A) as (rt1 & B1 & _ & Hlen).
    assert (rt1 = rt) by congruence. subst rt1. symmetry. eapply fpat_filters_inj; eauto.
  - intros (A & rt & B & <-).
    assert (Hin : In (entry_of p d rt) (paths (tree R))) by (apply (inv_paths R HI); exists p, d, rt; auto).
    destruct (tmatch_complete_eq (tree R) (inv_wf R HI) p (r_filters rt) 0 (d, r_names rt) Hin) as (n0 & E1 & E2 & _);
      [lia|]. now rewrite E1.
Qed.

Theorem by_rule_lemma : forall (cs : list cmd) p fl d,
  Forall hist_cmd cs -> ntok p = length fl ->
  let R := exec_cmds router0 cs in
  (rt_match R p fl = Some d <->
   al_get (routes R) p = Some d /\ exists rt, nth_error (heap R) d = Some rt /\ r_filters rt = fl).
Proof.
  intros cs p fl d Hcs Hn R. apply by_rule_inv_lemma; auto. apply Inv_hist; [apply Inv0 | exact Hcs].
Qed.

(* ------------------------------------------------------------------ *)
(* (a) the prefix-"*" cut, seen from the hook slots                      *)
(* ------------------------------------------------------------------ *)
Definition g_rmk (k : node) (K : list pc -> Prop) (r : rmres) : Prop :=
  match r with
  | RmNone => forall e0, In e0 (hpaths k) -> K (key_pcs k ++ fst e0)
  | RmKeep k' =>
    forall e, In e (hkid_entries k') <->
              exists e0, In e0 (hpaths k) /\ K (key_pcs k ++ fst e0) /\ e = hpre (key_pcs k) e0
  | RmPrune k' => forall e0, In e0 (hpaths k) -> ~ K (key_pcs k ++ fst e0)
  end.

Definition gkept (K : list pc -> Prop) (es' es : list hentry) : Prop :=
  forall e, In e es' <-> In e es /\ K (fst e).

Lemma g_node_rm key d nm f h kids wild ho (K : list pc -> Prop) c0 r rec :
  wf (Node key d nm f h kids) -> wild && ho = false -> K [] ->
  (forall x e, In x kids -> khead x <> c0 -> In e (hkid_entries x) -> K (fst e)) ->
  (forall k, In k kids -> khead k = c0 -> rmk_ok k wild ho (c0 :: r) (rm_kid rec wild ho k (c0 :: r))) ->
  (forall k, In k kids -> khead k = c0 -> g_rmk k K (rm_kid rec wild ho k (c0 :: r))) ->
  let n := Node key d nm f h kids in
  match rm_go rec wild ho c0 (c0 :: r) kids with
  | None | Some (RmNone, _) => forall e0, In e0 (hpaths n) -> K (fst e0)
  | Some (RmKeep k', rb) => gkept K (hpaths (Node key d nm f h (rb k'))) (hpaths n)
  | Some (RmPrune k', _) =>
    let n0 := Node key d nm f h (match nkey k' with c :: _ => del_head c kids | [] => kids end) in
    gkept K (hpaths n0) (hpaths n)
  end.
Proof.
  intros Hw Hwh HK0 HKo Hkidd Hkid n. pose proof (wf_inv _ _ _ _ _ _ Hw) as (W1 & W2 & W3 & W4).
  pose proof (rm_go_spec rec wild ho c0 (c0 :: r) kids W2) as Hgo.
  assert (Hown : forall e0, In e0 (match h with Some x => [([], x)] | None => [] end) ->
                            K (fst e0)).
  { intros e0 Hin. destruct h; [|destruct Hin]. destruct Hin as [<-|[]]. exact HK0. }
  assert (Hothers : forall ks, (forall x, In x ks -> In x kids /\ khead x <> c0) ->
                               forall e0, In e0 (hkids_entries ks) -> K (fst e0)).
  { intros ks Hks e0 Hin. apply in_hkids_entries in Hin. destruct Hin as (x & Hx & Hin).
    destruct (Hks x Hx) as (Hxk & Hxh). eapply HKo; eauto. }
  destruct (rm_go rec wild ho c0 (c0 :: r) kids) as [[res rb]|].
  - destruct Hgo as (pre & k & post & Hsplit & Hpre & Hkh & -> & Hrb).
    assert (Hkin : In k kids) by (rewrite Hsplit; apply in_or_app; right; now left).
    specialize (Hkid k Hkin Hkh). specialize (Hkidd k Hkin Hkh).
    assert (Hpost : forall x, In x post -> khead x <> c0).
    { intros x Hx E. rewrite Hsplit, map_app in W3. simpl in W3. apply NoDup_remove_2 in W3.
      apply W3. apply in_or_app. right. rewrite Hkh, <- E. now apply in_map. }
    assert (Hpre_k : forall e0, In e0 (hkids_entries pre) -> K (fst e0)).
    { apply Hothers. intros x Hx. split; [rewrite Hsplit; apply in_or_app; now left | now apply Hpre]. }
    assert (Hpost_k : forall e0, In e0 (hkids_entries post) -> K (fst e0)).
    { apply Hothers. intros x Hx. split; [rewrite Hsplit; apply in_or_app; right; now right | now apply Hpost]. }
    destruct (rm_kid rec wild ho k (c0 :: r)) as [|k'|k']; simpl in Hkid, Hkidd.
    + intros e0 Hin. unfold n in Hin. rewrite hpaths_node in Hin. apply in_app_or in Hin.
      destruct Hin as [Hin|Hin]; [now apply Hown|]. rewrite Hsplit in Hin. apply hkids_entries_split in Hin.
      destruct Hin as [Hin|[Hin|Hin]]; [now apply Hpre_k | | now apply Hpost_k].
      apply in_hkid_entries in Hin. destruct Hin as (e1 & A & ->). simpl. now apply Hkid.
    + rewrite Hrb. intros e. unfold n. rewrite !hpaths_node, !in_app_iff, Hsplit.
      rewrite (hkids_entries_split pre k' post e), (hkids_entries_split pre k post e). rewrite (Hkid e). split.
      * intros [H|[H|[H|H]]].
        -- split; [now left | now apply Hown].
        -- split; [right; now left | now apply Hpre_k].
        -- destruct H as (e0 & H1 & H2 & ->). split; [|exact H2]. right. right. left.
           apply in_hkid_entries. eauto.
        -- split; [right; right; now right | now apply Hpost_k].
      * intros ([H|[H|[H|H]]] & Hkeep); auto.
        right. right. left. apply in_hkid_entries in H. destruct H as (e0 & H1 & ->). eauto.
    + destruct Hkidd as (A & B & C & D & E).
      assert (Hhd : match nkey k' with c :: _ => del_head c kids | [] => kids end = del_head (khead k) kids).
      { unfold khead in C. destruct (nkey k') as [|c s]; [contradiction|]. simpl in C. now rewrite C. }
      cbv zeta. rewrite Hhd.
      assert (Hdel : forall x, In x (del_head (khead k) kids) <-> In x kids /\ x <> k)
        by (apply del_head_spec; auto). intros e. unfold n. rewrite !hpaths_node, !in_app_iff. split.
      * intros [H|H]; [split; [now left | now apply Hown]|].
        apply in_hkids_entries in H. destruct H as (x & Hx & H). apply Hdel in Hx.
        destruct Hx as (Hxk & Hne). split; [right; apply in_hkids_entries; eauto|].
        eapply (HKo x); eauto.
        intros Eh. apply Hne. rewrite Hsplit in Hxk. apply in_app_or in Hxk.
        destruct Hxk as [Hxk|[Hxk|Hxk]]; [exfalso; now apply (Hpre x) | now symmetry | exfalso; now apply (Hpost x)].
      * intros ([H|H] & Hkeep); [now left|]. right. apply in_hkids_entries in H.
        destruct H as (x & Hx & H). apply in_hkids_entries. exists x. split; [|exact H]. apply Hdel.
        split; [exact Hx|]. intros ->. apply in_hkid_entries in H. destruct H as (e0 & H1 & ->).
        apply (Hkid e0 H1). exact Hkeep.
  - intros e0 Hin. unfold n in Hin. rewrite hpaths_node in Hin. apply in_app_or in Hin.
    destruct Hin as [Hin|Hin]; [now apply Hown|]. revert Hin. apply Hothers. intros x Hx. split; auto.
Qed.


Definition KT : list pc -> Prop := fun _ => True.

(* no hook lies strictly under the removed prefix *)
Definition adm (es : list hentry) (route : str) : Prop :=
  forall e, In e es -> prefixb route (rstr (fst e)) = true -> rstr (fst e) = route.

Definition g_rmn (k : node) (r : rmres) : Prop :=      (* every hook below k is kept *)
  match r with
  | RmNone => True
  | RmKeep k' => forall e, In e (hkid_entries k') <-> In e (hkid_entries k)
  | RmPrune k' => hpaths k = []
  end.

Lemma g_rmk_of_rmn k r : g_rmn k r -> g_rmk k KT r.
Proof.
  destruct r as [|k'|k']; simpl; intros H.
  - intros; exact I.
  - intros e. rewrite H, in_hkid_entries. split; intros (e0 & A & B); exists e0; unfold KT; tauto.
  - intros e0 Hin. rewrite H in Hin. destruct Hin.
Qed.

Lemma prefixb_nil s : prefixb s [] = true -> s = [].
Proof. destruct s; [reflexivity | discriminate]. Qed.

Lemma h_rm_target_cut k :
  wf k -> hpaths k = [] ->
  g_rmn k (rm_target true false k).
Proof.
  destruct k as [key d nm f h ks]. intros Hw Hh. pose proof Hh as Hall. rewrite hpaths_node in Hh.
  apply app_eq_nil in Hh. destruct Hh as [Hh _]. destruct h; [discriminate|]. unfold rm_target.
  cbn [prunable g_rmn]. exact Hall.
Qed.

Lemma h_rm_kid_wild rec k c0 r :
  wf k -> key_ok (nkey k) ->
  (forall e0, In e0 (hpaths k) -> prefixb (c0 :: r) (nkey k ++ rstr (fst e0)) = true ->
              nkey k ++ rstr (fst e0) = c0 :: r) ->
  (forall route', adm (hpaths k) route' -> g_rmn k (rec k route')) ->
  g_rmn k (rm_kid rec true false k (c0 :: r)).
Proof.
  intros Hw Hk Hadm IH. unfold rm_kid. set (route := c0 :: r) in *.
  destruct (prefixb (nkey k) route) eqn:Ep.
  - pose proof (prefixb_split _ _ Ep) as Hs. apply IH. intros e0 Hin Hpre.
    specialize (Hadm e0 Hin). rewrite Hs, prefixb_app_same in Hadm. specialize (Hadm Hpre).
    now apply app_inv_head in Hadm.
  - cbn [andb]. destruct (prefixb route (nkey k)) eqn:Epk; [|exact I].
    apply h_rm_target_cut; [exact Hw|].
    destruct (hpaths k) as [|e0 l] eqn:E; [reflexivity|]. exfalso.
    assert (Hin : In e0 (e0 :: l)) by now left.
    assert (Hpre : prefixb route (nkey k ++ rstr (fst e0)) = true).
    { apply prefixb_spec in Epk. destruct Epk as [t Ht]. rewrite Ht, <- app_assoc. apply prefixb_app. }
    specialize (Hadm e0 Hin Hpre). rewrite <- Hadm in Ep. now rewrite prefixb_app in Ep.
Qed.

Lemma adm_kid kids k route :
  In k kids -> key_ok (nkey k) -> adm (hkids_entries kids) route ->
  forall e0, In e0 (hpaths k) -> prefixb route (nkey k ++ rstr (fst e0)) = true -> nkey k ++ rstr (fst e0) = route.
Proof.
  intros Hk Kk Hadm e0 Hin Hpre.
  assert (He : In (hpre (key_pcs k) e0) (hkids_entries kids)).
  { apply in_hkids_entries. exists k. split; [exact Hk|]. apply in_hkid_entries. eauto. }
  specialize (Hadm _ He). simpl in Hadm. rewrite rstr_app, (rstr_key k Kk) in Hadm. auto.
Qed.

(* a node seen from its parent, prefix removal *)
Lemma h_rm_at_kid_wild : forall k, wf k -> key_ok (nkey k) -> forall route,
  adm (hpaths k) route -> g_rmn k (rm_at false true false k route).
Proof.
  induction k as [key d nm f h kids IH] using node_ind'. intros Hw Hk route Hadm.
  pose proof (wf_inv _ _ _ _ _ _ Hw) as (W1 & W2 & W3 & W4).
  destruct route as [|c0 r].
  - (* the cut node itself: nothing hangs below it *)
    cbn [rm_at].
    assert (Hkids : hkids_entries kids = []).
    { destruct (hkids_entries kids) as [|e l] eqn:E; [reflexivity|]. exfalso.
      assert (Hin : In e (hpaths (Node key d nm f h kids))).
      { rewrite hpaths_node. apply in_or_app. right. rewrite E. now left. }
      specialize (Hadm e Hin eq_refl).
      assert (Hne : fst e <> []) by (apply (hkids_nonempty kids e W2); rewrite E; now left).
      destruct (fst e); [contradiction | discriminate]. }
    unfold rm_target. destruct h as [hp|]; cbn [prunable g_rmn].
    + assert (E1 : hpaths (Node key None [] f (Some hp) []) = hpaths (Node key d nm f (Some hp) kids))
        by (rewrite !hpaths_node, Hkids; reflexivity).
      intros e. unfold hkid_entries. rewrite E1. split; intros H; exact H.
    + rewrite hpaths_node, Hkids. reflexivity.
  - cbn [rm_at].
    assert (Hadmk : adm (hkids_entries kids) (c0 :: r)).
    { intros e Hin. apply Hadm. rewrite hpaths_node. apply in_or_app. now right. }
    assert (Hkidd : forall k, In k kids -> khead k = c0 ->
                     rmk_ok k true false (c0 :: r) (rm_kid (fun k r => rm_at false true false k r) true false k (c0 :: r))).
    { intros k Hkin Hh. rewrite Forall_forall in W1, W2. apply rm_kid_ok; auto;
      intros route'; apply rm_at_kid_ok; auto. }
    assert (Hkid : forall k, In k kids -> khead k = c0 ->
                     g_rmk k KT (rm_kid (fun k r => rm_at false true false k r) true false k (c0 :: r))).
    { intros k Hkin Hh. rewrite Forall_forall in IH, W1, W2. apply g_rmk_of_rmn.
      apply (h_rm_kid_wild _ k c0 r (W1 k Hkin) (W2 k Hkin)).
      - eapply adm_kid; eauto.
      - intros route' Ha. apply IH; auto. }
    pose proof (g_node_rm key d nm f h kids true false KT c0 r _ Hw eq_refl I (fun _ _ _ _ _ => I) Hkidd Hkid) as Hn.
    cbv zeta in Hn.
    pose proof (node_rm key d nm f h kids true false c0 r _ Hw eq_refl Hkidd) as Hnd. cbv zeta in Hnd.
    destruct (rm_go _ true false c0 (c0 :: r) kids) as [[[|k'|k'] rb]|]; cbv beta iota zeta.
    + exact I.
    + cbn [g_rmn]. intros e. unfold hkid_entries.
      assert (Hkp : key_pcs (Node key d nm f h (rb k')) = key_pcs (Node key d nm f h kids)) by reflexivity.
      rewrite Hkp, !in_map_iff. split; intros (e0 & A & B); exists e0; (split; [exact A|]).
      * apply Hn in B. tauto.
      * apply Hn. split; [exact B | exact I].
    + destruct Hnd as (A & _).
      set (n0 := Node key d nm f h (match nkey k' with c :: _ => del_head c kids | [] => kids end)) in *.
      assert (Hn0 : forall e, In e (hkid_entries n0) <-> In e (hkid_entries (Node key d nm f h kids))).
      { intros e. unfold hkid_entries.
        assert (Hkp : key_pcs n0 = key_pcs (Node key d nm f h kids)) by reflexivity.
        rewrite Hkp, !in_map_iff. split; intros (e0 & B & C); exists e0; (split; [exact B|]).
        - apply Hn in C. tauto.
        - apply Hn. split; [exact C | exact I]. }
      pose proof (h_try_merge_spec n0 A Hk) as M4.
      destruct (prunable (try_merge false n0)) eqn:Ep; cbn [g_rmn].
      * destruct (hpaths (Node key d nm f h kids)) as [|e0 l] eqn:E; [reflexivity|]. exfalso.
        assert (Hin' : In (hpre (key_pcs (Node key d nm f h kids)) e0) (hkid_entries n0)).
        { apply Hn0. apply in_hkid_entries. exists e0. split; [rewrite E; now left | reflexivity]. }
        rewrite <- M4 in Hin'. unfold hkid_entries in Hin'. rewrite (prunable_hpaths _ Ep) in Hin'. destruct Hin'.
      * intros e. rewrite M4. apply Hn0.
    + exact I.
Qed.

Lemma h_rm_root_wild : forall root route, wf root -> adm (hpaths root) route ->
  match rm_at true true false root route with
  | RmNone => True
  | RmKeep r' | RmPrune r' => forall e, In e (hpaths r') <-> In e (hpaths root)
  end.
Proof.
  intros [key d nm f h kids] route Hw Hadm.
  pose proof (wf_inv _ _ _ _ _ _ Hw) as (W1 & W2 & W3 & W4).
  destruct route as [|c0 r].
  - cbn [rm_at].
    assert (Hkids : hkids_entries kids = []).
    { destruct (hkids_entries kids) as [|e l] eqn:E; [reflexivity|]. exfalso.
      assert (Hin : In e (hpaths (Node key d nm f h kids))).
      { rewrite hpaths_node. apply in_or_app. right. rewrite E. now left. }
      specialize (Hadm e Hin eq_refl).
      assert (Hne : fst e <> []) by (apply (hkids_nonempty kids e W2); rewrite E; now left).
      destruct (fst e); [contradiction | discriminate]. }
    unfold rm_target. destruct h as [hp|]; cbn [prunable]; intros e; rewrite !hpaths_node, Hkids; simpl; tauto.
  - cbn [rm_at].
    assert (Hadmk : adm (hkids_entries kids) (c0 :: r)).
    { intros e Hin. apply Hadm. rewrite hpaths_node. apply in_or_app. now right. }
    assert (Hkidd : forall k, In k kids -> khead k = c0 ->
                     rmk_ok k true false (c0 :: r) (rm_kid (fun k r => rm_at false true false k r) true false k (c0 :: r))).
    { intros k Hkin Hh. rewrite Forall_forall in W1, W2. apply rm_kid_ok; auto;
      intros route'; apply rm_at_kid_ok; auto. }
    assert (Hkid : forall k, In k kids -> khead k = c0 ->
                     g_rmk k KT (rm_kid (fun k r => rm_at false true false k r) true false k (c0 :: r))).
    { intros k Hkin Hh. rewrite Forall_forall in W1, W2. apply g_rmk_of_rmn.
      apply (h_rm_kid_wild _ k c0 r (W1 k Hkin) (W2 k Hkin)).
      - eapply adm_kid; eauto.
      - intros route' Ha. apply h_rm_at_kid_wild; auto. }
    pose proof (g_node_rm key d nm f h kids true false KT c0 r _ Hw eq_refl I (fun _ _ _ _ _ => I) Hkidd Hkid) as Hn.
    cbv zeta in Hn.
    destruct (rm_go _ true false c0 (c0 :: r) kids) as [[[|k'|k'] rb]|]; cbv beta iota zeta; auto.
    + intros e. split; [intros H; apply Hn in H; tauto | intros H; apply Hn; split; [exact H | exact I]].
    + assert (Hm : forall p, try_merge true p = p).
      { intros [k0 d0 n0 f0 h0 [|c [|c2 ks]]]; reflexivity. }
      rewrite Hm.
      destruct (prunable _); intros e; (split; [intros H; apply Hn in H; tauto | intros H; apply Hn; split; [exact H | exact I]]).
Qed.

(* prefix removal "P*" keeps every hook, provided no hook lies strictly under P *)
Theorem remove_hpaths_prefix : forall root pattern root',
  wf root -> ends_star pattern = true ->
  (forall e, In e (hpaths root) -> prefixb (removelast pattern) (rstr (fst e)) = true ->
             rstr (fst e) = removelast pattern) ->
  rd_remove root pattern false false = Some root' ->
  forall e, In e (hpaths root') <-> In e (hpaths root).
Proof.
  intros root pattern root' Hw Hs Hadm. unfold rd_remove. rewrite Hs. simpl.
  pose proof (h_rm_root_wild root (removelast pattern) Hw Hadm) as H.
  destruct (rm_at true true false root (removelast pattern)) as [|r'|r']; intros [= <-]; [tauto | exact H | exact H].
Qed.

(* ------------------------------------------------------------------ *)
(* admissible histories                                                 *)
(* ------------------------------------------------------------------ *)
Definition adm_cmd (R : router) (c : cmd) : Prop :=
  hist_cmd c /\
  match c with
  | CRemovePattern p =>
    ends_star p = true ->
    forall ph hp, al_get (hooks_idx R) ph = Some hp -> prefixb (removelast p) ph = true -> ph = removelast p
  | _ => True
  end.

Fixpoint admissible (R : router) (cs : list cmd) : Prop :=
  match cs with
  | [] => True
  | c :: cs' => adm_cmd R c /\ admissible (fst (run_cmd R c)) cs'
  end.

Lemma HInv_rt_remove_prefix R pattern :
  Inv R -> HInv R -> ends_star pattern = true ->
  (forall ph hp, al_get (hooks_idx R) ph = Some hp -> prefixb (removelast pattern) ph = true -> ph = removelast pattern) ->
  HInv (fst (rt_remove_pattern R pattern)).
Proof.
  intros HI0 HH Hs Hadm. unfold rt_remove_pattern.
  destruct (rd_remove (tree R) pattern false false) as [t'|] eqn:Er; [|exact HH]. rewrite Hs. unfold HInv. simpl.
  apply (HI_same (tree R)); [|exact HH].
  apply (remove_hpaths_prefix (tree R) pattern t' (inv_wf R HI0) Hs); [|exact Er].
  intros [q hp] Hin Hpre. simpl in *. destruct HH as (H1 & _). eapply Hadm; eauto.
Qed.

Lemma HInv_step_adm R c : Inv R -> HInv R -> adm_cmd R c -> HInv (fst (run_cmd R c)).
Proof.
  intros HI0 HH (Hc & Ha). destruct c; try (apply HInv_step; auto; split; [exact Hc | exact I]).
  simpl. destruct (ends_star pattern) eqn:Es.
  - pose proof (HInv_rt_remove_prefix R pattern HI0 HH Es (Ha eq_refl)) as G. now destruct (rt_remove_pattern R pattern).
  - pose proof (HInv_rt_remove_pattern R pattern HI0 HH Es) as G. now destruct (rt_remove_pattern R pattern).
Qed.

Lemma Inv_HInv_adm cs : forall R, Inv R -> HInv R -> admissible R cs ->
  Inv (exec_cmds R cs) /\ HInv (exec_cmds R cs).
Proof.
  unfold exec_cmds. induction cs as [|c cs IH]; intros R HI0 HH Hcs; simpl; [auto|].
  destruct Hcs as (Hc & Hcs). apply IH; auto.
  - apply Inv_hist_step; [exact HI0 | apply Hc].
  - now apply HInv_step_adm.
Qed.

Lemma noprefix_admissible cs : forall R, Forall noprefix_cmd cs -> admissible R cs.
Proof.
  induction cs as [|c cs IH]; intros R H; simpl; [exact I|]. inversion H as [|? ? (Hc & Hp) Hcs]; subst.
  split; [|now apply IH]. split; [exact Hc|]. destruct c; auto. intros E. congruence.
Qed.

(* ---- the hook theorem and the survivors theorem from the invariants ---- *)
Lemma hooks_fire_inv filt R path cds d m h kw hs :
  Inv R -> HInv R ->
  resolve filt R path cds = ROk d m h kw hs ->
  exists rt qs,
    nth_error (heap R) d = Some rt /\
    Forall2 (hrel filt 0 (strip_sep path)) qs hs /\
    StronglySorted (fun a b : hentry => length (fst a) < length (fst b)) qs /\
    (forall q hp, In (q, hp) qs ->
       al_get (hooks_idx R) (rstr q) = Some hp /\ pprefix q (fpat (r_pattern rt) (r_filters rt))) /\
    (forall ph hp, al_get (hooks_idx R) ph = Some hp -> prefixb ph (r_pattern rt) = true ->
       exists q, rstr q = ph /\ In (q, hp) qs).
Proof.
  intros HI0 (H1 & H2) Hres. unfold resolve in Hres.
  destruct (get filt true (tree R) (strip_sep path)) as [d0 nm vs hs0|vs hs0 i] eqn:Eg; [|discriminate].
  destruct (nth_error (heap R) d0) as [rt|] eqn:Eh; [|discriminate].
  destruct (dispatch_on (r_methods rt) cds) as [m0 [h0 mn]|a]; [|discriminate].
  injection Hres as <- <- <- <- <-.
  destruct (get_trace_root filt (tree R) _ _ _ _ _ (inv_wf R HI0) Eg) as (p & A & B & (qs & HF & Hs & Hm)).
  apply (inv_paths R HI0) in A as A'. destruct A' as (pat0 & d1 & rt1 & A1 & A2 & A3). unfold entry_of in A3.
  injection A3 as -> <- ->. assert (rt1 = rt) by congruence. subst rt1.
  destruct (inv_routes R HI0 pat0 d0 A1) as (rt2 & B1 & B2 & _). assert (rt2 = rt) by congruence. subst rt2.
  exists rt, qs. rewrite B2. split; [exact Eh|]. split; [exact HF|]. split; [exact Hs|]. split.
  - intros q hp Hin. apply Hm in Hin. destruct Hin as (Hin & Hp). split; [now apply H1 | exact Hp].
  - intros ph hp Hg Hpre. destruct (H2 ph hp Hg) as (q & Hq & Hin). exists q. split; [exact Hq|].
    apply Hm. split; [exact Hin|]. simpl.
    eapply (compat_prefix (tree R) (inv_wf R HI0)); eauto. now rewrite Hq, rstr_fpat.
Qed.

Lemma same_survivors_inv filt R R' path cds :
  Inv R -> HInv R -> Inv R' -> HInv R' ->
  content R = content R' -> hooks_idx R = hooks_idx R' ->
  answer R (resolve filt R path cds) = answer R' (resolve filt R' path cds).
Proof.
  intros I1 J1 I2 J2 Hc Hh.
  pose proof (resolve_eq_spec_lemma filt R path cds I1) as S1.
  pose proof (resolve_eq_spec_lemma filt R' path cds I2) as S2.
  assert (Hrc : rules_c R = rules_c R') by (unfold rules_c; now rewrite Hc).
  pose proof (spec_map filt (getrt R) (rules_of R) (strip_sep path)) as M1.
  pose proof (spec_map filt (getrt R') (rules_of R') (strip_sep path)) as M2.
  rewrite <- rules_c_of in M1, M2. rewrite Hrc, M2 in M1. clear M2.
  destruct (spec filt (rules_of R) (strip_sep path)) as [[[q d] vs]|],
           (spec filt (rules_of R') (strip_sep path)) as [[[q' d'] vs']|]; simpl in M1; try discriminate.
  - unfold hmap in M1. simpl in M1. injection M1 as -> Hrt ->.
    destruct S1 as (rt & hs & A1 & A2 & A3 & A4). destruct S2 as (rt' & hs' & B1 & B2 & B3 & B4).
    assert (rt' = rt).
    { unfold getrt in Hrt. rewrite (nth_error_nth _ _ _ A1), (nth_error_nth _ _ _ B1) in Hrt. exact Hrt. }
    subst rt'. rewrite A4, B4.
    destruct (dispatch_on (r_methods rt) cds) as [m [h mn]|a] eqn:Ed; [|reflexivity].
    simpl. rewrite A1, B1. f_equal.
    assert (F1 : resolve filt R path cds = ROk d m h (make_params match mn with [] => r_names rt | _ :: _ => mn end vs) hs)
      by (rewrite A4; reflexivity).
    assert (F2 : resolve filt R' path cds = ROk d' m h (make_params match mn with [] => r_names rt | _ :: _ => mn end vs) hs')
      by (rewrite B4; reflexivity).
    destruct (hooks_fire_inv filt R path cds _ _ _ _ _ I1 J1 F1) as (r1 & qs & C1 & C2 & C3 & C4 & C5).
    destruct (hooks_fire_inv filt R' path cds _ _ _ _ _ I2 J2 F2) as (r2 & qs' & D1 & D2 & D3 & D4 & D5).
    assert (r1 = rt) by congruence. assert (r2 = rt) by congruence. subst r1 r2. rewrite <- Hh in D4, D5.
    assert (Hq : qs = qs').
    { apply sorted_ext; auto. intros [q0 hp]. split; intros Hin.
      - destruct (C4 q0 hp Hin) as (G1 & G2).
        destruct (D5 (rstr q0) hp G1) as (q1 & E1 & E2).
        { apply pprefix_rstr in G2. now rewrite rstr_fpat in G2. }
        destruct (D4 q1 hp E2) as (_ & G3).
        assert (q1 = q0); [|now subst].
        eapply pprefix_same_len; eauto. now rewrite <- !rstr_length, E1.
      - destruct (D4 q0 hp Hin) as (G1 & G2).
        destruct (C5 (rstr q0) hp G1) as (q1 & E1 & E2).
        { apply pprefix_rstr in G2. now rewrite rstr_fpat in G2. }
        destruct (C4 q1 hp E2) as (_ & G3).
        assert (q1 = q0); [|now subst].
        eapply pprefix_same_len; eauto. now rewrite <- !rstr_length, E1. }
    subst qs'. eapply hrel_fun; eauto.
  - destruct S1 as (vs1 & hs1 & i1 & ->). destruct S2 as (vs2 & hs2 & i2 & ->). reflexivity.
Qed.

(* for all ADMISSIBLE histories *)
Theorem hooks_fire_adm_lemma : forall filt (cs : list cmd) path cds d m h kw hs,
  admissible router0 cs ->
  let R := exec_cmds router0 cs in
  resolve filt R path cds = ROk d m h kw hs ->
  exists rt qs,
    nth_error (heap R) d = Some rt /\
    Forall2 (hrel filt 0 (strip_sep path)) qs hs /\
    StronglySorted (fun a b : hentry => length (fst a) < length (fst b)) qs /\
    (forall q hp, In (q, hp) qs ->
       al_get (hooks_idx R) (rstr q) = Some hp /\ pprefix q (fpat (r_pattern rt) (r_filters rt))) /\
    (forall ph hp, al_get (hooks_idx R) ph = Some hp -> prefixb ph (r_pattern rt) = true ->
       exists q, rstr q = ph /\ In (q, hp) qs).
Proof.
  intros filt cs path cds d m h kw hs Hcs R Hres.
  destruct (Inv_HInv_adm cs router0 Inv0 HInv0 Hcs) as (A & B). eapply hooks_fire_inv; eauto.
Qed.

Theorem same_survivors_adm_lemma : forall filt (cs cs' : list cmd) (path : str) (cds : list str),
  admissible router0 cs -> admissible router0 cs' ->
  let R := exec_cmds router0 cs in let R' := exec_cmds router0 cs' in
  content R = content R' -> hooks_idx R = hooks_idx R' ->
  answer R (resolve filt R path cds) = answer R' (resolve filt R' path cds).
Proof.
  intros filt cs cs' path cds H1 H2 R R' Hc Hh.
  destruct (Inv_HInv_adm cs router0 Inv0 HInv0 H1) as (A & B).
  destruct (Inv_HInv_adm cs' router0 Inv0 HInv0 H2) as (A' & B'). now apply same_survivors_inv.
Qed.

(* ------------------------------------------------------------------ *)
(* RadiDict._routes_iter lists exactly the routes the tree holds         *)
(* ------------------------------------------------------------------ *)
Lemma iter_at_routes yh : forall n, wf n -> forall acc s d,
  (exists h, In (s, (Some d, h)) (iter_at yh n acc)) <->
  (exists p nm, In (p, (d, nm)) (paths n) /\ s = acc ++ rstr p).
Proof.
  induction n as [key d0 nm0 f h0 kids IH] using node_ind'. intros Hw acc s d.
  pose proof (wf_inv _ _ _ _ _ _ Hw) as (W1 & W2 & W3 & W4).
  cbn [iter_at]. rewrite paths_node. split.
  - intros (h & Hin). apply in_app_or in Hin. destruct Hin as [Hin|Hin].
    + apply in_flat_map in Hin. destruct Hin as (k & Hk & Hin).
      rewrite Forall_forall in IH, W1, W2.
      destruct (proj1 (IH k Hk (W1 k Hk) (acc ++ nkey k) s d) (ex_intro _ h Hin)) as (p & nm & A & ->).
      exists (key_pcs k ++ p), nm. split.
      * apply in_or_app. right. apply in_kids_entries. exists k. split; [exact Hk|]. apply in_kid_entries. eauto.
      * now rewrite rstr_app, (rstr_key k (W2 k Hk)), app_assoc.
    + destruct d0 as [x|]; simpl in Hin.
      * destruct Hin as [Hin|[]]. injection Hin as <- <- <-. exists [], nm0. split; [now left | now rewrite app_nil_r].
      * destruct (yh && _); [|destruct Hin]. destruct Hin as [Hin|[]]. discriminate.
  - intros (p & nm & Hin & ->). apply in_app_or in Hin. destruct Hin as [Hin|Hin].
    + destruct d0 as [x|]; [|destruct Hin]. destruct Hin as [Hin|[]]. injection Hin as <- <- <-.
      exists h0. apply in_or_app. right. simpl. rewrite app_nil_r. now left.
    + apply kid_of_entry in Hin. destruct Hin as (k & p0 & Hk & -> & Hp0).
      rewrite Forall_forall in IH, W1, W2.
      destruct (proj2 (IH k Hk (W1 k Hk) (acc ++ nkey k) ((acc ++ nkey k) ++ rstr p0) d)) as (h & Hh).
      { exists p0, nm. auto. }
      exists h. apply in_or_app. left. apply in_flat_map. exists k. split; [exact Hk|].
      now rewrite rstr_app, (rstr_key k (W2 k Hk)), app_assoc.
Qed.

(* after any history: iterating the whole tree yields exactly the indexed routes *)
Theorem routes_iter_lemma : forall (cs : list cmd) yh s d,
  Forall hist_cmd cs ->
  let R := exec_cmds router0 cs in
  (exists h, In (s, (Some d, h)) (routes_iter (tree R) [] yh)) <-> al_get (routes R) s = Some d.
Proof.
  intros cs yh s d Hcs R. pose proof (Inv_hist cs router0 Inv0 Hcs) as HI. fold R in HI.
  unfold routes_iter. destruct (tree R) as [key d0 nm0 f h0 kids] eqn:Et. cbn [find_sub_node].
  rewrite <- Et. rewrite (iter_at_routes yh (tree R) (inv_wf R HI) [] s d). split.
  - intros (p & nm & Hin & ->). apply (inv_paths R HI) in Hin. destruct Hin as (p0 & d1 & rt & A & B & C).
    unfold entry_of in C. injection C as -> <- _. simpl. now rewrite rstr_fpat.
  - intros Hg. destruct (inv_routes R HI s d Hg) as (rt & B & _).
    exists (fpat s (r_filters rt)), (r_names rt). split; [|simpl; now rewrite rstr_fpat].
    apply (inv_paths R HI). exists s, d, rt. auto.
Qed.
