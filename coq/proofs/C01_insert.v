(* C01_insert.v — stage 2 of C01: RadiDict._set (model: Router.set_at) keeps
   the tree well-formed and adds exactly the new (pattern, data) pair to what
   the tree holds; node splitting does not change what is held. *)
From Verif Require Import lib.Base lib.Str gen.Gen model.RouteSpec model.Dispatch model.Router
     proofs.C01_get.

(* ------------------------------------------------------------------ *)
(* the pattern of a route string + its filter list, char by char        *)
(* ------------------------------------------------------------------ *)
Fixpoint fpat (route : str) (fl : list (option fid)) : list pc :=
  match route with
  | [] => []
  | c :: r =>
    if N.eqb c TOKEN then
      match fl with
      | f :: fs => PW f :: fpat r fs
      | [] => PW None :: fpat r []
      end
    else PC c :: fpat r fl
  end.

Fixpoint ntok (route : str) : nat :=
  match route with
  | [] => 0
  | c :: r => if N.eqb c TOKEN then S (ntok r) else ntok r
  end.

Lemma fpat_lit s : forall r fl, ~ In TOKEN s -> fpat (s ++ r) fl = map PC s ++ fpat r fl.
Proof.
  induction s as [|c s IH]; intros r fl Hn; simpl; [reflexivity|].
  destruct (N.eqb_spec c TOKEN) as [->|Hc]; [exfalso; apply Hn; now left|].
  rewrite IH; [reflexivity|]. intros H. apply Hn. now right.
Qed.

Lemma ntok_lit s : forall r, ~ In TOKEN s -> ntok (s ++ r) = ntok r.
Proof.
  induction s as [|c s IH]; intros r Hn; simpl; [reflexivity|].
  destruct (N.eqb_spec c TOKEN) as [->|Hc]; [exfalso; apply Hn; now left|].
  apply IH. intros H. apply Hn. now right.
Qed.

Lemma prefixb_split s route : prefixb s route = true -> route = s ++ skipn (length s) route.
Proof.
  intros H. apply prefixb_spec in H. destruct H as [r ->].
  rewrite skipn_app, Nat.sub_diag, skipn_all. reflexivity.
Qed.

Lemma ofid_eqb_eq a b : ofid_eqb a b = true -> a = b.
Proof.
  destruct a as [x|], b as [y|]; simpl; try discriminate; auto.
  intros H. apply Nat.eqb_eq in H. now subst.
Qed.

Lemma nth_error_skipn {A} (l : list A) : forall n x, nth_error l n = Some x -> skipn n l = x :: skipn (S n) l.
Proof.
  induction l as [|a l IH]; intros [|n] x; simpl; try discriminate.
  - now intros [= ->].
  - intros H. now apply IH.
Qed.

(* ---- common prefix ---- *)
Lemma cpl_firstn a : forall b, firstn (cpl a b) a = firstn (cpl a b) b.
Proof.
  induction a as [|x a IH]; intros [|y b]; simpl; try reflexivity.
  destruct (N.eqb_spec x y) as [->|]; simpl; [now rewrite IH | reflexivity].
Qed.

Lemma cpl_le_l a : forall b, cpl a b <= length a.
Proof.
  induction a as [|x a IH]; intros [|y b]; simpl; try lia.
  destruct (N.eqb x y); simpl; [specialize (IH b)|]; lia.
Qed.

Lemma cpl_le_r a : forall b, cpl a b <= length b.
Proof.
  induction a as [|x a IH]; intros [|y b]; simpl; try lia.
  destruct (N.eqb x y); simpl; [specialize (IH b)|]; lia.
Qed.

Lemma cpl_max a : forall b x a' y b',
  skipn (cpl a b) a = x :: a' -> skipn (cpl a b) b = y :: b' -> x <> y.
Proof.
  induction a as [|u a IH]; intros [|v b] x a' y b'; simpl; try discriminate.
  destruct (N.eqb_spec u v) as [->|Hne]; simpl.
  - apply IH.
  - intros [= <- _] [= <- _]. exact Hne.
Qed.

Lemma cpl_full a b : cpl a b = length a -> prefixb a b = true.
Proof.
  unfold prefixb. revert b. induction a as [|x a IH]; intros [|y b]; simpl; try discriminate; auto.
  destruct (N.eqb_spec x y) as [->|]; simpl; [|discriminate].
  intros H. apply IH. lia.
Qed.

Lemma cpl_pos x a b : 0 < cpl (x :: a) (x :: b).
Proof. simpl. rewrite N.eqb_refl. lia. Qed.

(* ---- the route up to its first token ---- *)
Lemma upto_tok_split route :
  exists tail, route = upto_tok route ++ tail /\ ~ In TOKEN (upto_tok route) /\
               (tail = [] \/ exists t, tail = TOKEN :: t).
Proof.
  induction route as [|c r IH]; simpl.
  - exists []. simpl. auto.
  - destruct (N.eqb_spec c TOKEN) as [->|Hc].
    + exists (TOKEN :: r). simpl. split; [reflexivity|]. split; [tauto|]. right. eauto.
    + destruct IH as (tail & Hr & Hn & Ht). exists tail. simpl. split; [now f_equal|].
      split; [|exact Ht]. intros [H|H]; [congruence | contradiction].
Qed.

Lemma prefixb_trans a b c : prefixb a b = true -> prefixb b c = true -> prefixb a c = true.
Proof.
  rewrite !prefixb_spec. intros [r1 ->] [r2 ->]. exists (r1 ++ r2). now rewrite app_assoc.
Qed.

Lemma not_in_firstn {A} (x : A) n l : ~ In x l -> ~ In x (firstn n l).
Proof. intros H Hi. apply H. rewrite <- (firstn_skipn n l). apply in_or_app. now left. Qed.

Lemma not_in_skipn {A} (x : A) n l : ~ In x l -> ~ In x (skipn n l).
Proof. intros H Hi. apply H. rewrite <- (firstn_skipn n l). apply in_or_app. now right. Qed.

(* ------------------------------------------------------------------ *)
(* entries: set-level reasoning                                         *)
(* ------------------------------------------------------------------ *)
Definition item_entries (it : item) (nm : list str) : list entry :=
  match it with IData d => [([], (d, nm))] | IHooks _ => [] end.

(* es' holds exactly what es holds plus new *)
Definition adds (es' new es : list entry) : Prop := forall e, In e es' <-> In e new \/ In e es.

Lemma pre_pre a b e : pre a (pre b e) = pre (a ++ b) e.
Proof. unfold pre. simpl. now rewrite app_assoc. Qed.

Lemma map_pre_pre a b es : map (pre a) (map (pre b) es) = map (pre (a ++ b)) es.
Proof. rewrite map_map. apply map_ext. intros e. apply pre_pre. Qed.

Lemma pre_nil e : pre [] e = e.
Proof. destruct e. reflexivity. Qed.

Lemma map_pre_nil es : map (pre []) es = es.
Proof. rewrite <- (map_id es) at 2. apply map_ext. apply pre_nil. Qed.

Lemma adds_map_pre a es' new es :
  adds es' new es -> adds (map (pre a) es') (map (pre a) new) (map (pre a) es).
Proof.
  intros H e. rewrite !in_map_iff. split.
  - intros (x & <- & Hx). apply H in Hx. destruct Hx as [Hx|Hx]; [left | right]; eauto.
  - intros [(x & <- & Hx)|(x & <- & Hx)]; exists x; (split; [reflexivity|]); apply H; auto.
Qed.

Lemma paths_node key d nm f h ks :
  paths (Node key d nm f h ks) =
  match d with Some x => [([], (x, nm))] | None => [] end ++ kids_entries ks.
Proof. reflexivity. Qed.

Lemma kids_entries_app a b : kids_entries (a ++ b) = kids_entries a ++ kids_entries b.
Proof. unfold kids_entries. apply flat_map_app. Qed.

Lemma kids_entries_cons k ks : kids_entries (k :: ks) = kid_entries k ++ kids_entries ks.
Proof. reflexivity. Qed.

(* ------------------------------------------------------------------ *)
(* well-formedness helpers                                              *)
(* ------------------------------------------------------------------ *)
Lemma wf_inv key d nm f h ks :
  wf (Node key d nm f h ks) ->
  Forall wf ks /\ Forall (fun k => key_ok (nkey k)) ks /\ NoDup (map khead ks) /\ tok_last ks.
Proof. intros H. inversion H; subst. auto. Qed.

Lemma tok_last_heads ks : forall ks', map khead ks = map khead ks' -> tok_last ks -> tok_last ks'.
Proof.
  induction ks as [|k ks IH]; intros [|k' ks'] Hm Hl; simpl in *; try discriminate; auto.
  injection Hm as Hh Hm. destruct ks as [|k2 ks2], ks' as [|k2' ks2']; simpl in Hm; try discriminate; auto.
  destruct Hl as [Hn Hl]. split; [congruence|]. apply (IH (k2' :: ks2')); auto.
Qed.

Lemma tok_last_no_tok ks : ~ In TOKEN (map khead ks) -> tok_last ks.
Proof.
  induction ks as [|k ks IH]; simpl; [auto|]. intros Hn. destruct ks as [|k2 ks2]; [exact I|].
  split; [intros E; apply Hn; now left | apply IH; intros H; apply Hn; now right].
Qed.

Lemma tok_last_snoc ks c : ~ In TOKEN (map khead ks) -> tok_last (ks ++ [c]).
Proof.
  induction ks as [|k ks IH]; simpl; [auto|]. intros Hn.
  assert (IH' := IH (fun H => Hn (or_intror H))).
  destruct (ks ++ [c]) as [|k2 ks2]; [exact I|].
  split; [intros E2; apply Hn; now left | exact IH'].
Qed.

Lemma last_is_tok_in ks :
  Forall (fun k => key_ok (nkey k)) ks -> last_is_tok ks = true -> In TOKEN (map khead ks).
Proof.
  unfold last_is_tok. intros Hok H. destruct (rev ks) as [|k r] eqn:E; [discriminate|].
  assert (Hin : In k ks) by (apply in_rev; rewrite E; now left).
  rewrite Forall_forall in Hok. apply head_is_khead in H; [|apply (Hok k Hin)].
  rewrite <- H. now apply in_map.
Qed.

Lemma lit_head_not_tok k : key_ok (nkey k) -> nkey k <> tok -> khead k <> TOKEN.
Proof. intros Hk Hn E. apply Hn. exact (proj1 (key_ok_tok_head k Hk) E). Qed.

(* ------------------------------------------------------------------ *)
(* _make_route: pieces, chain, mount                                    *)
(* ------------------------------------------------------------------ *)
Definition piece_ok (p : option str) : Prop :=
  match p with Some s => s <> [] /\ ~ In TOKEN s | None => True end.

Fixpoint ppat (ps : list (option str)) (fl : list (option fid)) : list pc :=
  match ps with
  | [] => []
  | Some s :: ps' => map PC s ++ ppat ps' fl
  | None :: ps' =>
    match fl with
    | f :: fs => PW f :: ppat ps' fs
    | [] => PW None :: ppat ps' []
    end
  end.

Fixpoint pn (ps : list (option str)) : nat :=
  match ps with
  | [] => 0
  | Some _ :: ps' => pn ps'
  | None :: ps' => S (pn ps')
  end.

Definition phead (ps : list (option str)) : N :=
  match ps with
  | Some s :: _ => hd 0%N s
  | None :: _ => TOKEN
  | [] => 0%N
  end.

Lemma pieces_aux_spec route : forall acc fl,
  ~ In TOKEN acc ->
  ppat (pieces_aux acc route) fl = map PC (rev acc) ++ fpat route fl /\
  Forall piece_ok (pieces_aux acc route) /\
  pn (pieces_aux acc route) = ntok route /\
  (acc = [] -> route <> [] -> pieces_aux acc route <> [] /\ phead (pieces_aux acc route) = hd 0%N route).
Proof.
  induction route as [|c r IH]; intros acc fl Hacc; simpl.
  - destruct acc as [|a acc']; simpl.
    + repeat split; auto; try (intros _ H; contradiction).
    + rewrite app_nil_r. repeat split; auto; try (intros; discriminate).
      constructor; [|constructor]. split.
      * intros E. apply (f_equal (@length N)) in E. rewrite app_length in E. simpl in E. lia.
      * intros Hin. apply Hacc. apply in_rev. exact Hin.
  - destruct (N.eqb_spec c TOKEN) as [->|Hc].
    + destruct (IH [] (tl fl) (fun x => x)) as (Hp & Hf & Hn & Hh).
      assert (Hp0 : ppat (None :: pieces_aux [] r) fl
                    = match fl with f :: fs => PW f :: fpat r fs | [] => PW None :: fpat r [] end).
      { simpl. destruct fl as [|f fs]; simpl in *.
        - destruct (IH [] [] (fun x => x)) as (Hp' & _). simpl in Hp'. now rewrite Hp'.
        - simpl in Hp. now rewrite Hp. }
      destruct acc as [|a acc']; simpl app.
      * split; [exact Hp0|]. split; [constructor; [exact I | exact Hf]|]. split; [simpl; now rewrite Hn|].
        intros _ _. split; [discriminate | reflexivity].
      * split.
        { change (ppat (Some (rev (a :: acc')) :: None :: pieces_aux [] r) fl
                  = map PC (rev (a :: acc')) ++ match fl with f :: fs => PW f :: fpat r fs | [] => PW None :: fpat r [] end).
          cbn [ppat]. f_equal. exact Hp0. }
        split.
        { constructor; [|constructor; [exact I | exact Hf]]. split.
          - intros E. apply (f_equal (@length N)) in E. simpl in E. rewrite app_length in E. simpl in E. lia.
          - intros Hin. apply Hacc. apply in_rev. exact Hin. }
        split; [simpl; now rewrite Hn|]. intros; discriminate.
    + assert (Hacc' : ~ In TOKEN (c :: acc)) by (intros [H|H]; [congruence | contradiction]).
      destruct (IH (c :: acc) fl Hacc') as (Hp & Hf & Hn & _).
      split; [rewrite Hp; simpl; rewrite map_app, <- app_assoc; reflexivity|].
      split; [exact Hf|]. split; [exact Hn|].
      intros -> _. clear Hp Hf Hn.
      (* the first piece starts with c *)
      assert (G : forall r0 acc0, acc0 <> [] -> ~ In TOKEN acc0 ->
                    pieces_aux acc0 r0 <> [] /\ phead (pieces_aux acc0 r0) = hd 0%N (rev acc0)).
      { clear. induction r0 as [|x r0 IHr]; intros acc0 Hne Hnt; simpl.
        - destruct acc0; [contradiction|]. split; [discriminate | reflexivity].
        - destruct (N.eqb_spec x TOKEN).
          + destruct acc0; [contradiction|]. split; [discriminate | reflexivity].
          + destruct (IHr (x :: acc0)) as (H1 & H2); [discriminate | |].
            * intros [H|H]; [congruence | contradiction].
            * split; [exact H1|]. rewrite H2. simpl. destruct (rev acc0) eqn:E; [|reflexivity].
              exfalso. apply Hne. apply (f_equal (@rev N)) in E. rewrite rev_involutive in E. exact E. }
      destruct (G r [c]) as (H1 & H2); [discriminate | intros [H|[]]; congruence |].
      split; [exact H1 | exact H2].
Qed.

Lemma pieces_spec route fl :
  route <> [] ->
  ppat (pieces route) fl = fpat route fl /\ Forall piece_ok (pieces route) /\
  pn (pieces route) = ntok route /\ pieces route <> [] /\ phead (pieces route) = hd 0%N route.
Proof.
  intros Hne. destruct (pieces_aux_spec route [] fl (fun x => x)) as (H1 & H2 & H3 & H4).
  destruct (H4 eq_refl Hne). simpl in H1. unfold pieces. auto.
Qed.

Lemma lit_not_tok s : s <> [] -> ~ In TOKEN s -> str_eqb s tok = false.
Proof.
  intros Hne Hn. destruct (str_eqb_spec s tok) as [->|]; [|reflexivity].
  exfalso. apply Hn. now left.
Qed.

Lemma key_pcs_lit k : nkey k <> [] -> ~ In TOKEN (nkey k) -> key_pcs k = map PC (nkey k).
Proof. intros H1 H2. unfold key_pcs. now rewrite lit_not_tok. Qed.

Lemma key_pcs_tok k : nkey k = tok -> key_pcs k = [PW (nflt k)].
Proof. intros H. unfold key_pcs. rewrite H. now rewrite str_eqb_refl. Qed.

Lemma paths_leaf key f it nm : paths (leaf_of key f it nm) = item_entries it nm.
Proof. destruct it; reflexivity. Qed.

Lemma wf_leaf key f it nm : wf (leaf_of key f it nm).
Proof. destruct it; constructor; constructor. Qed.

Lemma nkey_leaf key f it nm : nkey (leaf_of key f it nm) = key.
Proof. now destruct it. Qed.

Lemma nflt_leaf key f it nm : nflt (leaf_of key f it nm) = f.
Proof. now destruct it. Qed.

Lemma key_ok_tok : key_ok tok.
Proof. split; [discriminate | now left]. Qed.

Lemma wf_single key f c : wf c -> key_ok (nkey c) -> wf (Node key None [] f None [c]).
Proof.
  intros Hw Hk. constructor; [now constructor | now constructor | |exact I].
  constructor; [intros [] | constructor].
Qed.

Lemma kid_entries_single key f c :
  kid_entries (Node key None [] f None [c])
  = map (pre (key_pcs (Node key None [] f None [c]))) (kid_entries c).
Proof. unfold kid_entries at 1. simpl. rewrite app_nil_r. reflexivity. Qed.

Lemma chain_spec ps : forall fl it nm,
  ps <> [] -> Forall piece_ok ps -> pn ps <= length fl ->
  exists c, chain ps fl it nm = CNode c /\ wf c /\ key_ok (nkey c) /\
            kid_entries c = map (pre (ppat ps fl)) (item_entries it nm) /\
            khead c = phead ps.
Proof.
  induction ps as [|p ps IH]; intros fl it nm Hne Hok Hn; [contradiction|].
  inversion Hok as [|? ? Hp Hps]; subst.
  destruct p as [s|].
  - (* literal piece *)
    destruct Hp as [Hs Hnt]. cbn [chain].
    destruct ps as [|p2 ps2].
    + simpl. exists (leaf_of s None it nm). split; [reflexivity|]. split; [apply wf_leaf|].
      rewrite nkey_leaf. split; [split; auto|]. split.
      * unfold kid_entries. rewrite paths_leaf, key_pcs_lit; rewrite ?nkey_leaf; auto.
        simpl. now rewrite app_nil_r.
      * unfold khead. now rewrite nkey_leaf.
    + destruct (IH fl it nm) as (c & Hc & Hw & Hk & He & Hh); [discriminate | exact Hps | exact Hn|].
      rewrite Hc. exists (Node s None [] None None [c]). split; [reflexivity|].
      split; [now apply wf_single|]. split; [split; auto|]. split; [|reflexivity].
      rewrite kid_entries_single, He, map_pre_pre.
      rewrite key_pcs_lit by auto. reflexivity.
  - (* token piece *)
    cbn [chain]. destruct fl as [|f fs]; [simpl in Hn; lia|]. simpl in Hn.
    destruct ps as [|p2 ps2].
    + simpl. exists (leaf_of tok f it nm). split; [reflexivity|]. split; [apply wf_leaf|].
      rewrite nkey_leaf. split; [apply key_ok_tok|]. split.
      * unfold kid_entries. rewrite paths_leaf, key_pcs_tok by apply nkey_leaf. now rewrite nflt_leaf.
      * unfold khead. now rewrite nkey_leaf.
    + destruct (IH fs it nm) as (c & Hc & Hw & Hk & He & Hh); [discriminate | exact Hps | lia|].
      rewrite Hc. exists (Node tok None [] f None [c]). split; [reflexivity|].
      split; [now apply wf_single|]. split; [apply key_ok_tok|]. split; [|reflexivity].
      rewrite kid_entries_single, He, map_pre_pre.
      rewrite key_pcs_tok by reflexivity. reflexivity.
Qed.

(* the conditions on a child list *)
Definition kids_ok (ks : list node) : Prop :=
  Forall wf ks /\ Forall (fun k => key_ok (nkey k)) ks /\ NoDup (map khead ks) /\ tok_last ks.

Lemma mount_spec ks c :
  kids_ok ks -> wf c -> key_ok (nkey c) -> ~ In (khead c) (map khead ks) ->
  exists ks', mount ks c = Some ks' /\ kids_ok ks' /\
              adds (kids_entries ks') (kid_entries c) (kids_entries ks).
Proof.
  intros (Hw & Hk & Hnd & Hl) Hwc Hkc Hnin. unfold mount.
  destruct (str_eqb_spec (nkey c) tok) as [Ht|Ht].
  - assert (Hh : khead c = TOKEN) by (now apply key_ok_tok_head).
    destruct (last_is_tok ks) eqn:El.
    { exfalso. apply Hnin. rewrite Hh. now apply last_is_tok_in. }
    exists (ks ++ [c]). split; [reflexivity|]. split.
    + split; [apply Forall_app; auto|]. split; [apply Forall_app; auto|]. split.
      * rewrite map_app. simpl. clear - Hnd Hnin.
        induction (map khead ks) as [|x l IH]; simpl.
        -- constructor; [intros [] | constructor].
        -- inversion Hnd; subst. constructor.
           ++ rewrite in_app_iff. simpl. intros [H|[H|[]]]; [auto | apply Hnin; now left].
           ++ apply IH; auto. intros H. apply Hnin. now right.
      * apply tok_last_snoc. now rewrite <- Hh.
    + intros e. rewrite kids_entries_app, in_app_iff. rewrite kids_entries_cons.
      unfold kids_entries at 2. simpl. rewrite app_nil_r. tauto.
  - exists (c :: ks). split; [reflexivity|]. split.
    + split; [now constructor|]. split; [now constructor|]. split; [simpl; now constructor|].
      simpl. destruct ks as [|k2 ks2]; [exact I|]. split; [now apply lit_head_not_tok | exact Hl].
    + intros e. rewrite kids_entries_cons, in_app_iff. tauto.
Qed.

Lemma make_route_spec ks route fl it nm :
  kids_ok ks -> route <> [] -> ntok route <= length fl -> ~ In (hd 0%N route) (map khead ks) ->
  exists ks', make_route ks route fl it nm = inl ks' /\ kids_ok ks' /\
              adds (kids_entries ks') (map (pre (fpat route fl)) (item_entries it nm)) (kids_entries ks).
Proof.
  intros Hks Hne Hn Hnin. unfold make_route.
  destruct (pieces_spec route fl Hne) as (Hp & Hf & Hpn & Hpne & Hph).
  destruct (chain_spec (pieces route) fl it nm Hpne Hf) as (c & Hc & Hw & Hk & He & Hh); [lia|].
  rewrite Hc. destruct (mount_spec ks c Hks Hw Hk) as (ks' & Hm & Hks' & Ha).
  { now rewrite Hh, Hph. }
  rewrite Hm. exists ks'. split; [reflexivity|]. split; [exact Hks'|].
  now rewrite He, Hp in Ha.
Qed.

Local Opaque TOKEN.
Local Arguments N.eqb : simpl never.

(* ------------------------------------------------------------------ *)
(* the exact node                                                       *)
(* ------------------------------------------------------------------ *)
Lemma apply_item_spec n it nm n' :
  wf n -> apply_item n it nm = SOk n' ->
  wf n' /\ nkey n' = nkey n /\ nflt n' = nflt n /\ adds (paths n') (item_entries it nm) (paths n).
Proof.
  destruct n as [key d nm0 f h ks]. intros Hw. apply wf_inv in Hw. destruct Hw as (H1 & H2 & H3 & H4).
  unfold apply_item. destruct it as [d'|h'].
  - destruct d as [x|]; [discriminate|]. intros [= <-]. split; [now constructor|].
    split; [reflexivity|]. split; [reflexivity|]. intros e. rewrite !paths_node. simpl. tauto.
  - destruct h as [x|]; [discriminate|]. intros [= <-]. split; [now constructor|].
    split; [reflexivity|]. split; [reflexivity|]. intros e. rewrite !paths_node. simpl. tauto.
Qed.

(* ------------------------------------------------------------------ *)
(* the statement for a node                                             *)
(* ------------------------------------------------------------------ *)
Definition new_entries (route : str) (fl : list (option fid)) (pidx : nat) (it : item) (nm : list str) :=
  map (pre (fpat route (skipn pidx fl))) (item_entries it nm).

Definition set_ok (n : node) : Prop :=
  forall route fl pidx it nm n',
    wf n -> ntok route + pidx <= length fl -> set_at n route fl pidx it nm = SOk n' ->
    wf n' /\ nkey n' = nkey n /\ nflt n' = nflt n /\
    adds (paths n') (new_entries route fl pidx it nm) (paths n).

Lemma kid_entries_same_key k k' :
  nkey k' = nkey k -> nflt k' = nflt k -> key_pcs k' = key_pcs k.
Proof. intros H1 H2. unfold key_pcs. now rewrite H1, H2. Qed.

Lemma wf_set_key k s : wf k -> wf (set_key k s).
Proof. destruct k as [key d nm f h ks]. intros H. apply wf_inv in H. destruct H as (?&?&?&?). now constructor. Qed.

Lemma paths_set_key k s : paths (set_key k s) = paths k.
Proof. now destruct k. Qed.

Lemma nkey_set_key k s : nkey (set_key k s) = s.
Proof. now destruct k. Qed.

Lemma firstn_hd {A} (d : A) n l : 0 < n -> hd d (firstn n l) = hd d l.
Proof. destruct n; [lia|]. now destruct l. Qed.

Lemma set_kid_spec k c0 r fl pidx it nm k' :
  head_is k c0 = true -> wf k -> key_ok (nkey k) -> set_ok k ->
  ntok (c0 :: r) + pidx <= length fl ->
  set_kid (fun k r p => set_at k r fl p it nm) fl it nm k (c0 :: r) pidx = inl k' ->
  wf k' /\ key_ok (nkey k') /\ khead k' = khead k /\
  adds (kid_entries k') (new_entries (c0 :: r) fl pidx it nm) (kid_entries k).
Proof.
  intros Hh Hw Hk IH Hn. set (route := c0 :: r) in *. unfold set_kid.
  assert (Hkh : khead k = c0) by (apply head_is_khead; [apply Hk | exact Hh]).
  destruct (prefixb (nkey k) route) eqn:Ep.
  - (* the key matches: descend *)
    destruct (str_eqb_spec (nkey k) tok) as [Ht|Ht].
    + (* wildcard child *)
      assert (Hc0 : c0 = TOKEN).
      { rewrite Ht in Ep. apply prefixb_spec in Ep. destruct Ep as [r' Er'].
        unfold route, tok in Er'. simpl in Er'. now injection Er'. }
      assert (Hnt : ntok route = S (ntok r)) by (unfold route; simpl; rewrite Hc0, N.eqb_refl; reflexivity).
      rewrite Hnt in Hn.
      unfold filter_check. destruct fl as [|f0 fl0] eqn:Efl; [simpl in Hn; lia|]. rewrite <- Efl in *.
      destruct (nth_error fl pidx) as [f'|] eqn:Enth; [|discriminate].
      destruct (ofid_eqb (nflt k) f') eqn:Eof; [|discriminate].
      apply ofid_eqb_eq in Eof.
      destruct (set_at k (skipn 1 route) fl (S pidx) it nm) as [k1|e] eqn:Es; [|discriminate].
      intros [= <-].
      destruct (IH (skipn 1 route) fl (S pidx) it nm k1 Hw) as (Hw1 & Hk1 & Hf1 & Ha); [unfold route; simpl; lia | exact Es|].
      split; [exact Hw1|]. split; [now rewrite Hk1|]. split; [unfold khead; now rewrite Hk1|].
      unfold kid_entries. rewrite (kid_entries_same_key k k1 Hk1 Hf1).
      apply (adds_map_pre (key_pcs k)) in Ha. unfold new_entries in *. rewrite map_pre_pre in Ha.
      rewrite key_pcs_tok in Ha |- * by exact Ht.
      replace (fpat route (skipn pidx fl)) with ([PW (nflt k)] ++ fpat (skipn 1 route) (skipn (S pidx) fl)); [exact Ha|].
      rewrite (nth_error_skipn fl pidx f' Enth). unfold route. simpl. rewrite Hc0, N.eqb_refl. now rewrite Eof.
    + (* literal child *)
      assert (Hlit : ~ In TOKEN (nkey k)) by (destruct Hk as [_ [E|E]]; [contradiction | exact E]).
      destruct (set_at k (skipn (length (nkey k)) route) fl pidx it nm) as [k1|e] eqn:Es; [|discriminate].
      intros [= <-]. pose proof (prefixb_split _ _ Ep) as Hsplit.
      destruct (IH (skipn (length (nkey k)) route) fl pidx it nm k1 Hw) as (Hw1 & Hk1 & Hf1 & Ha);
        [rewrite <- (ntok_lit (nkey k)) by exact Hlit; now rewrite <- Hsplit | exact Es|].
      split; [exact Hw1|]. split; [now rewrite Hk1|]. split; [unfold khead; now rewrite Hk1|].
      unfold kid_entries. rewrite (kid_entries_same_key k k1 Hk1 Hf1).
      apply (adds_map_pre (key_pcs k)) in Ha. unfold new_entries in *. rewrite map_pre_pre in Ha.
      rewrite key_pcs_lit in Ha |- * by (auto; apply Hk).
      rewrite <- fpat_lit in Ha by exact Hlit. now rewrite <- Hsplit in Ha.
  - (* PARTIAL: split the child *)
    assert (Ht : nkey k <> tok).
    { intros Ht. assert (Hc : c0 = TOKEN) by (rewrite <- Hkh; unfold khead; now rewrite Ht).
      assert (E : prefixb (nkey k) route = true)
        by (rewrite Ht; apply prefixb_spec; exists r; unfold route; now rewrite Hc). congruence. }
    assert (Hlit : ~ In TOKEN (nkey k)) by (destruct Hk as [_ [E|E]]; [contradiction | exact E]).
    destruct (nkey k) as [|x key_t] eqn:Ekey; [destruct Hk; contradiction|].
    assert (Hx : x = c0) by (unfold khead in Hkh; rewrite Ekey in Hkh; exact Hkh). subst x.
    assert (Hc0 : c0 <> TOKEN) by (intros E; apply Hlit; now left).
    destruct (upto_tok_split route) as (tail & Hroute & Hupnt & Htail).
    set (up := upto_tok route) in *.
    assert (Hup : up = c0 :: upto_tok r).
    { unfold up, route. simpl. destruct (N.eqb_spec c0 TOKEN); [contradiction | reflexivity]. }
    set (si := cpl (c0 :: key_t) up).
    assert (Hsi_pos : 0 < si) by (unfold si; rewrite Hup; apply cpl_pos).
    assert (Hsi_le : si <= length (c0 :: key_t)) by apply cpl_le_l.
    assert (Hsi_up : si <= length up) by apply cpl_le_r.
    assert (Hsi_lt : si < length (c0 :: key_t)).
    { destruct (Nat.eq_dec si (length (c0 :: key_t))) as [E|E]; [|lia]. exfalso.
      apply cpl_full in E. assert (prefixb up route = true) by (apply prefixb_spec; eauto).
      rewrite (prefixb_trans _ _ _ E H) in Ep. discriminate. }
    set (A := firstn si (c0 :: key_t)). set (B := skipn si (c0 :: key_t)).
    assert (HAB : c0 :: key_t = A ++ B) by (symmetry; apply firstn_skipn).
    assert (HAnt : ~ In TOKEN A) by (apply not_in_firstn; exact Hlit).
    assert (HBnt : ~ In TOKEN B) by (apply not_in_skipn; exact Hlit).
    assert (HAne : A <> []).
    { unfold A. destruct si; [lia|]. discriminate. }
    assert (HBne : B <> []).
    { unfold B. intros E. apply (f_equal (@length N)) in E. rewrite skipn_length in E.
      change (length (@nil N)) with 0 in E. lia. }
    assert (HAroute : firstn si route = A).
    { unfold A, si. rewrite cpl_firstn. rewrite Hroute at 1. rewrite firstn_app.
      replace (cpl (c0 :: key_t) up - length up) with 0 by (fold si; lia). simpl. now rewrite app_nil_r. }
    assert (Hroute2 : route = A ++ skipn si route) by (rewrite <- HAroute; symmetry; apply firstn_skipn).
    assert (HhdA : hd 0%N A = c0) by (unfold A; rewrite firstn_hd by exact Hsi_pos; reflexivity).
    (* the old node under its shortened key, and the fresh parent *)
    set (old := set_key k B).
    assert (Hwold : wf old) by (apply wf_set_key; exact Hw).
    assert (Hkold : key_ok (nkey old)) by (unfold old; rewrite nkey_set_key; split; auto).
    assert (Heold : kid_entries old = map (pre (map PC B)) (paths k)).
    { unfold kid_entries, old. rewrite paths_set_key, key_pcs_lit; rewrite ?nkey_set_key; auto. }
    assert (Hek : kid_entries k = map (pre (map PC A)) (kid_entries old)).
    { rewrite Heold, map_pre_pre, <- map_app. unfold kid_entries. rewrite key_pcs_lit; rewrite ?Ekey; auto; [|discriminate].
      now rewrite HAB. }
    fold si. fold B. destruct B as [|b0 Bt] eqn:EB; [contradiction|]. rewrite <- EB in *.
    fold old. fold A.
    destruct (skipn si route) as [|c1 rt] eqn:Erest.
    + (* the route ends inside the key *)
      destruct (apply_item (Node A None [] None None [old]) it nm) as [p|e] eqn:Eap; [|discriminate].
      intros [= <-].
      destruct (apply_item_spec _ _ _ _ (wf_single A None old Hwold Hkold) Eap) as (Hwp & Hkp & Hfp & Ha).
      simpl in Hkp, Hfp.
      split; [exact Hwp|]. split; [rewrite Hkp; split; auto|].
      split; [unfold khead; rewrite Hkp, Ekey; simpl; exact HhdA|].
      unfold kid_entries at 1. rewrite (kid_entries_same_key (Node A None [] None None [old]) p Hkp Hfp).
      apply (adds_map_pre (key_pcs (Node A None [] None None [old]))) in Ha.
      change (map (pre (key_pcs (Node A None [] None None [old]))) (paths (Node A None [] None None [old])))
        with (kid_entries (Node A None [] None None [old])) in Ha.
      rewrite kid_entries_single in Ha. rewrite key_pcs_lit in Ha by (simpl; auto).
      simpl nkey in Ha. rewrite <- Hek in Ha. unfold new_entries.
      rewrite (key_pcs_lit (Node A None [] None None [old])) by (simpl; auto). simpl nkey.
      replace (fpat route (skipn pidx fl)) with (map PC A); [exact Ha|].
      rewrite Hroute2, app_nil_r. rewrite <- (app_nil_r A) at 2. rewrite fpat_lit by exact HAnt. simpl. now rewrite app_nil_r.
    + (* a new branch below the fresh parent *)
      assert (Hrest_hd : c1 <> hd 0%N B).
      { rewrite EB. simpl.
        assert (Hsk : skipn si route = skipn si up ++ tail).
        { rewrite Hroute at 1. rewrite skipn_app. replace (si - length up) with 0 by lia. reflexivity. }
        rewrite Erest in Hsk. destruct (skipn si up) as [|y b'] eqn:Eup.
        - simpl in Hsk. destruct Htail as [->|[t ->]]; [discriminate|]. injection Hsk as -> _.
          intros E. apply HBnt. rewrite EB. left. now symmetry.
        - simpl in Hsk. injection Hsk as -> _. intros E. symmetry in E. revert E.
          apply (cpl_max (c0 :: key_t) up b0 Bt y b'); [exact EB | exact Eup]. }
      destruct (make_route_spec [old] (c1 :: rt) (skipn pidx fl) it nm) as (pk & Hmk & Hpk & Ha).
      * split; [now constructor|]. split; [now constructor|]. split; [|exact I].
        simpl. constructor; [intros [] | constructor].
      * discriminate.
      * rewrite skipn_length. rewrite Hroute2, ntok_lit in Hn by exact HAnt. lia.
      * simpl. unfold khead, old. rewrite nkey_set_key. intros [E|[]]. apply Hrest_hd.
        rewrite EB. simpl in *. congruence.
      * rewrite Hmk. intros [= <-]. destruct Hpk as (P1 & P2 & P3 & P4).
        split; [now constructor|]. split; [split; auto|].
        split; [unfold khead; simpl; rewrite Ekey; simpl; exact HhdA|].
        unfold kid_entries at 1. rewrite key_pcs_lit by (simpl; auto). simpl nkey.
        rewrite paths_node. simpl app.
        apply (adds_map_pre (map PC A)) in Ha. rewrite map_pre_pre in Ha.
        rewrite kids_entries_cons in Ha. unfold kids_entries at 2 in Ha. simpl flat_map in Ha.
        rewrite app_nil_r, <- Hek in Ha. unfold new_entries.
        replace (fpat route (skipn pidx fl)) with (map PC A ++ fpat (c1 :: rt) (skipn pidx fl)); [exact Ha|].
        rewrite Hroute2 at 1. now rewrite fpat_lit by exact HAnt.
Qed.

Lemma set_go_spec ks : forall c0 r fl pidx it nm,
  Forall wf ks -> Forall (fun k => key_ok (nkey k)) ks -> Forall set_ok ks ->
  ntok (c0 :: r) + pidx <= length fl ->
  match set_go (fun k r p => set_at k r fl p it nm) fl it nm c0 (c0 :: r) pidx ks with
  | None => ~ In c0 (map khead ks)
  | Some (inl ks') =>
    Forall wf ks' /\ Forall (fun k => key_ok (nkey k)) ks' /\ map khead ks' = map khead ks /\
    adds (kids_entries ks') (new_entries (c0 :: r) fl pidx it nm) (kids_entries ks)
  | Some (inr _) => True
  end.
Proof.
  induction ks as [|k ks IH]; intros c0 r fl pidx it nm Hw Hk Hs Hn; simpl; [tauto|].
  inversion Hw as [|? ? Hwk Hwks]; subst. inversion Hk as [|? ? Hkk Hkks]; subst.
  inversion Hs as [|? ? Hsk Hsks]; subst.
  destruct (head_is k c0) eqn:Eh.
  - destruct (set_kid _ fl it nm k (c0 :: r) pidx) as [k'|e] eqn:Ek; [|exact I].
    destruct (set_kid_spec k c0 r fl pidx it nm k' Eh Hwk Hkk Hsk Hn Ek) as (H1 & H2 & H3 & H4).
    split; [now constructor|]. split; [now constructor|]. split; [simpl; now rewrite H3|].
    intros e. rewrite !kids_entries_cons, !in_app_iff. rewrite (H4 e). tauto.
  - specialize (IH c0 r fl pidx it nm Hwks Hkks Hsks Hn).
    assert (Hne : khead k <> c0).
    { intros E. apply head_is_khead in E; [congruence | apply Hkk]. }
    destruct (set_go _ fl it nm c0 (c0 :: r) pidx ks) as [[ks'|e]|].
    + destruct IH as (H1 & H2 & H3 & H4). split; [now constructor|]. split; [now constructor|].
      split; [simpl; now rewrite H3|].
      intros e. rewrite !kids_entries_cons, !in_app_iff. rewrite (H4 e). tauto.
    + exact I.
    + simpl. intros [E|E]; [now apply Hne | now apply IH].
Qed.

Lemma set_at_ok : forall n, set_ok n.
Proof.
  induction n as [key d nm0 f h kids IH] using node_ind'.
  intros route fl pidx it nm n' Hw Hn. pose proof (wf_inv _ _ _ _ _ _ Hw) as (H1 & H2 & H3 & H4).
  destruct route as [|c0 r].
  - intros Hs. simpl in Hs. destruct (apply_item_spec _ _ _ _ Hw Hs) as (A1 & A2 & A3 & A4).
    repeat split; auto; unfold new_entries; simpl; rewrite map_pre_nil; apply A4.
  - cbn [set_at].
    pose proof (set_go_spec kids c0 r fl pidx it nm H1 H2 IH Hn) as Hgo.
    destruct (set_go _ fl it nm c0 (c0 :: r) pidx kids) as [[kids'|e]|].
    + intros [= <-]. destruct Hgo as (G1 & G2 & G3 & G4).
      split; [constructor; auto; [now rewrite G3 | now apply (tok_last_heads kids)]|].
      split; [reflexivity|]. split; [reflexivity|].
      intros e. rewrite !paths_node, !in_app_iff, (G4 e). tauto.
    + discriminate.
    + destruct (make_route_spec kids (c0 :: r) (skipn pidx fl) it nm) as (kids' & Hmk & Hk' & Ha).
      * repeat split; auto.
      * discriminate.
      * rewrite skipn_length. lia.
      * exact Hgo.
      * rewrite Hmk. intros [= <-]. destruct Hk' as (K1 & K2 & K3 & K4).
        split; [now constructor|]. split; [reflexivity|]. split; [reflexivity|].
        intros e. rewrite !paths_node, !in_app_iff, (Ha e). unfold new_entries. tauto.
Qed.

(* RadiDict.add / add_hooks at the root *)
Theorem wf_insert : forall root route fl it nm root',
  wf root -> ntok route <= length fl -> set_at root route fl 0 it nm = SOk root' -> wf root'.
Proof.
  intros root route fl it nm root' Hw Hn Hs.
  destruct (set_at_ok root route fl 0 it nm root' Hw) as (H & _); [lia | exact Hs | exact H].
Qed.

Theorem insert_paths : forall root route fl it nm root',
  wf root -> ntok route <= length fl -> set_at root route fl 0 it nm = SOk root' ->
  forall e, In e (paths root') <->
            In e (map (pre (fpat route fl)) (item_entries it nm)) \/ In e (paths root).
Proof.
  intros root route fl it nm root' Hw Hn Hs.
  destruct (set_at_ok root route fl 0 it nm root' Hw) as (_ & _ & _ & H); [lia | exact Hs|].
  exact H.
Qed.
