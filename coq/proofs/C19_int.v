(* C19_int.v — the concrete int filter (-?\d+ over ASCII digits, int, str.int):
   for rules made of literal text, plain wildcards and int wildcards (no int
   wildcard directly followed by another one) the URL built from the values of
   a match is matched again by the rule, with the same values. *)
From Verif Require Import lib.Base lib.Str lib.PyIntDec model.RouteSpec model.RouteUrl
     proofs.C19_spec proofs.C19_shape proofs.C19_identity.
Local Open Scope N_scope.

(* what the builder prints for a matched value *)
Definition text_of (v : value) : str :=
  match pyval_of_value v with
  | PStr s => s
  | PInt z => dec_of_Z z
  | PFloat r => r
  end.

Lemma path_sep_SLASH : Gen.path_sep = SLASH.
Proof. reflexivity. Qed.

(* ---- seg_len ---- *)

Lemma seg_len_rest s :
  skipn (seg_len s) s = [] \/ exists r, skipn (seg_len s) s = SLASH :: r.
Proof.
  induction s as [|c s IH]; simpl; [now left|].
  destruct (N.eqb_spec c Gen.path_sep) as [->|_]; simpl; [right; eauto | exact IH].
Qed.

Lemma seg_len_rebuild s o :
  (o = [] \/ exists r, o = SLASH :: r) ->
  seg_len (firstn (seg_len s) s ++ o) = seg_len s.
Proof.
  intros Ho. induction s as [|c s IH]; simpl.
  - destruct Ho as [->|[r ->]]; reflexivity.
  - destruct (N.eqb_spec c Gen.path_sep) as [->|Hn]; simpl.
    + destruct Ho as [->|[r ->]]; reflexivity.
    + apply N.eqb_neq in Hn. rewrite Hn. now rewrite IH.
Qed.

Lemma seg_len_le s : (seg_len s <= length s)%nat.
Proof. induction s as [|c s IH]; simpl; [lia|]. destruct (c =? Gen.path_sep); simpl; lia. Qed.

(* ---- head compatibility between the matched path and the rebuilt one ---- *)

Definition hd_rel (ih : bool) (path u : str) : Prop :=
  match path, u with
  | [], [] => True
  | c :: _, c' :: _ => c = c' \/ (ih = true /\ int_start c = true /\ int_start c' = true)
  | _, _ => False
  end.

Lemma hd_rel_same ih c a b : hd_rel ih (c :: a) (c :: b).
Proof. simpl. now left. Qed.

Lemma hd_rel_nil_l ih u : hd_rel ih [] u -> u = [].
Proof. destruct u; simpl; tauto. Qed.

Lemma hd_rel_slash ih r u : hd_rel ih (SLASH :: r) u -> exists r', u = SLASH :: r'.
Proof.
  destruct u as [|c' u]; simpl; [tauto|]. intros [<-|[_ [H _]]]; [eauto | discriminate].
Qed.

Lemma hd_rel_false_digit path u :
  hd_rel false path u -> starts_digit path = false -> starts_digit u = false.
Proof.
  destruct path as [|c path], u as [|c' u]; simpl; try tauto.
  intros [<-|[H _]]; [auto | discriminate].
Qed.

Section IntRule.
Variable kind : fid -> fkind.
Variable rx : fid -> str -> option nat.
Variable fconv : str -> str.

Let filt := handler kind rx fconv.

(* one int wildcard on a path *)
Lemma int_step k path v rest :
  kind k = KInt ->
  wild_step filt (Some k) path = Some (v, rest) ->
  exists n, int_rx path = Some n /\ rest = skipn n path /\
            v = TAG_INT :: dec_of_Z (Z_of_dec (firstn n path)).
Proof.
  intros Hk. unfold wild_step, filt, handler. rewrite Hk.
  destruct path as [|c path']; [discriminate|].
  destruct (int_rx (c :: path')) as [n|]; [|discriminate].
  intros [= <- <-]. exists n. auto.
Qed.

Lemma text_of_int z : text_of (TAG_INT :: dec_of_Z z) = dec_of_Z z.
Proof. unfold text_of, pyval_of_value. rewrite N.eqb_refl. now rewrite Z_of_dec_of_Z. Qed.

Lemma pyval_of_int z : pyval_of_value (TAG_INT :: dec_of_Z z) = PInt z.
Proof. unfold pyval_of_value. rewrite N.eqb_refl. now rewrite Z_of_dec_of_Z. Qed.

Lemma text_of_valid v : valid_str v -> text_of v = v.
Proof. intros H. unfold text_of. now rewrite pyval_of_valid_str. Qed.

(* rebuilding one int wildcard *)
Lemma int_step_rebuild k z o :
  kind k = KInt ->
  starts_digit o = false ->
  wild_step filt (Some k) (dec_of_Z z ++ o) = Some (TAG_INT :: dec_of_Z z, o).
Proof.
  intros Hk Ho. unfold wild_step.
  destruct (dec_of_Z z ++ o) as [|c s] eqn:E.
  - exfalso. apply app_eq_nil in E. destruct E as [E _]. now apply (dec_of_Z_nonempty z).
  - rewrite <- E. unfold filt, handler. rewrite Hk.
    rewrite int_rx_dec_of_Z_exact by exact Ho.
    rewrite skipn_app_exact.
    rewrite firstn_app, firstn_all, Nat.sub_diag. simpl. rewrite app_nil_r.
    now rewrite Z_of_dec_of_Z.
Qed.

(* rebuilding one plain wildcard *)
Lemma plain_step_rebuild path o :
  path <> [] ->
  hd_rel false (skipn (seg_len path) path) o \/
  (exists ih, hd_rel ih (skipn (seg_len path) path) o /\
              (skipn (seg_len path) path = [] \/ exists r, skipn (seg_len path) path = SLASH :: r)) ->
  wild_step filt None (firstn (seg_len path) path ++ o) = Some (firstn (seg_len path) path, o).
Proof.
  intros Hne Hrel.
  assert (Ho : o = [] \/ exists r, o = SLASH :: r).
  { destruct (seg_len_rest path) as [E|[r E]]; rewrite E in Hrel.
    - left. destruct Hrel as [H|[ih [H _]]]; eapply hd_rel_nil_l; eauto.
    - right. destruct Hrel as [H|[ih [H _]]]; eapply hd_rel_slash; eauto. }
  assert (Hlen : length (firstn (seg_len path) path) = seg_len path)
    by (apply firstn_length_le, seg_len_le).
  unfold wild_step.
  destruct (firstn (seg_len path) path ++ o) as [|c s] eqn:E.
  - (* cannot be empty: the path was not *)
    exfalso. apply app_eq_nil in E. destruct E as [E1 E2]. subst o.
    rewrite E1 in Hlen. simpl in Hlen.
    destruct (seg_len_rest path) as [E|[r E]]; rewrite <- Hlen in E; simpl in E.
    + congruence.
    + rewrite E in Hrel. destruct Hrel as [H|[ih [H _]]]; simpl in H; tauto.
  - rewrite <- E. rewrite seg_len_rebuild by exact Ho.
    rewrite <- Hlen at 1 3. rewrite skipn_app_exact.
    rewrite firstn_app, firstn_all, Nat.sub_diag. simpl. now rewrite app_nil_r.
Qed.

(* the rule matches the rebuilt path with the same values *)
Lemma rematch p :
  forall path vs,
    int_or_plain kind p = true ->
    no_adjacent_int kind p = true ->
    valid_str path ->
    match1 filt p path = Some vs ->
    match1 filt p (fill p (map text_of vs)) = Some vs /\
    hd_rel (int_head kind p) path (fill p (map text_of vs)).
Proof.
  induction p as [|[s|f] p IH]; intros path vs Hip Hna Hval Hm.
  - simpl in *. destruct path; [|discriminate]. injection Hm as <-. simpl. auto.
  - (* literal *)
    simpl in Hip, Hna, Hm. destruct (prefixb s path) eqn:Ep; [|discriminate].
    apply prefixb_spec in Ep. destruct Ep as [rest ->].
    rewrite skipn_app_exact in Hm.
    assert (Hv : valid_str rest) by (unfold valid_str in *; apply Forall_app in Hval; tauto).
    destruct (IH rest vs Hip Hna Hv Hm) as [IH1 IH2].
    cbn [fill match1]. rewrite prefixb_app, skipn_app_exact. split; [exact IH1|].
    destruct s as [|c s]; [exact IH2 | apply hd_rel_same].
  - (* wildcard *)
    cbn [match1] in Hm.
    destruct (wild_step filt f path) as [[v rest]|] eqn:Ew; [|discriminate].
    destruct (match1 filt p rest) as [vs'|] eqn:Em; [|discriminate].
    injection Hm as <-. cbn [map fill match1].
    destruct f as [k|].
    + (* int *)
      simpl in Hip. destruct (kind k) eqn:Hk; try discriminate.
      cbn [no_adjacent_int] in Hna. rewrite Hk in Hna.
      apply andb_true_iff in Hna. destruct Hna as [Hnh Hna]. apply negb_true_iff in Hnh.
      destruct (int_step k path v rest Hk Ew) as [n [Hn [-> ->]]].
      destruct (int_rx_some _ _ Hn) as [_ Hnd].
      destruct (IH (skipn n path) vs' Hip Hna (valid_str_skipn _ _ Hval) Em) as [IH1 IH2].
      rewrite Hnh in IH2.
      rewrite text_of_int.
      rewrite int_step_rebuild by (auto; eapply hd_rel_false_digit; eauto).
      rewrite IH1. split; [reflexivity|].
      cbn [int_head]. rewrite Hk.
      destruct (int_rx_some_head _ _ Hn) as [c [r [-> Hc]]].
      destruct (dec_of_Z_head (Z_of_dec (firstn n (c :: r)))) as [c' [r' [-> Hc']]].
      simpl. right. auto.
    + (* plain *)
      simpl in Hip. cbn [no_adjacent_int] in Hna.
      assert (Hne : path <> []) by (destruct path; [discriminate | congruence]).
      unfold wild_step in Ew. destruct path as [|c0 path0] eqn:Ep; [discriminate|]. rewrite <- Ep in *.
      injection Ew as <- <-.
      destruct (IH _ vs' Hip Hna (valid_str_skipn _ _ Hval) Em) as [IH1 IH2].
      rewrite text_of_valid by (apply valid_str_firstn, Hval).
      rewrite plain_step_rebuild; [| exact Hne |].
      * rewrite IH1. split; [reflexivity|].
        cbn [int_head].
        (* heads *)
        destruct (seg_len path) as [|m] eqn:En.
        -- (* empty value: the path starts with '/', and so does the rest of the rebuilt url *)
           simpl in IH2 |- *. rewrite Ep in En. simpl in En.
           destruct (N.eqb_spec c0 Gen.path_sep) as [->|_]; [|discriminate].
           rewrite Ep in IH2. rewrite path_sep_SLASH in IH2.
           destruct (hd_rel_slash _ _ _ IH2) as [r' ->].
           rewrite Ep. rewrite path_sep_SLASH. apply hd_rel_same.
        -- rewrite Ep. simpl. now left.
      * right. exists (int_head kind p). split; [exact IH2 | apply seg_len_rest].
Qed.

Variable kw : list (str * pyval).

(* the spec builder on the values of a match: it never fails and prints
   [fill p (map text_of vs)] *)
Lemma spec_go_int p :
  forall names path vs t,
    int_or_plain kind p = true ->
    length names = nwild p ->
    valid_str path ->
    match1 filt p path = Some vs ->
    (forall n v, In (n, v) (combine names vs) -> is_anon n = false ->
                 kw_get kw n = Some (pyval_of_value v)) ->
    spec_go kind rx fconv kw p names (anon_args names (map pyval_of_value vs)) (Some t)
    = UOk (t ++ fill p (map text_of vs)).
Proof.
  induction p as [|[s|f] p IH]; intros names path vs t Hip Hlen Hval Hm Hkw.
  - simpl in *. now rewrite app_nil_r.
  - simpl in Hip, Hlen, Hm. destruct (prefixb s path) eqn:Ep; [|discriminate].
    apply prefixb_spec in Ep. destruct Ep as [rest ->].
    rewrite skipn_app_exact in Hm.
    assert (Hv : valid_str rest) by (unfold valid_str in *; apply Forall_app in Hval; tauto).
    cbn [spec_go push fill]. rewrite app_assoc.
    apply (IH names rest vs (t ++ s)); auto.
  - simpl in Hlen. destruct names as [|n names]; [discriminate|]. injection Hlen as Hlen.
    cbn [match1] in Hm.
    destruct (wild_step filt f path) as [[v rest]|] eqn:Ew; [|discriminate].
    destruct (match1 filt p rest) as [vs'|] eqn:Em; [|discriminate].
    injection Hm as <-.
    assert (Hvr : valid_str rest).
    { unfold wild_step in Ew. destruct path as [|c0 path0] eqn:Ep; [discriminate|]. rewrite <- Ep in *.
      destruct f as [k|].
      - destruct (filt k path) as [[v' m]|]; [|discriminate]. injection Ew as _ <-.
        now apply valid_str_skipn.
      - injection Ew as _ <-. now apply valid_str_skipn. }
    assert (Hrest : forall prt,
               prt = PStr (text_of v) ->
               spec_go kind rx fconv kw p names (anon_args names (map pyval_of_value vs'))
                       (push (Some t) prt)
               = UOk (t ++ fill (Wild f :: p) (map text_of (v :: vs')))).
    { intros prt ->. cbn [push map fill]. rewrite app_assoc.
      eapply IH; eauto.
      - simpl in Hip. apply andb_true_iff in Hip. tauto.
      - intros n' v' Hin. apply Hkw. now right. }
    assert (Hgo :
              match format kind f (pyval_of_value v) with
              | inl e => e
              | inr prt =>
                match check kind rx fconv f prt (next_lit p) with
                | Some e => e
                | None => spec_go kind rx fconv kw p names
                                  (anon_args names (map pyval_of_value vs')) (push (Some t) prt)
                end
              end
              = UOk (t ++ fill (Wild f :: p) (map text_of (v :: vs')))).
    { destruct f as [k|].
      - simpl in Hip. destruct (kind k) eqn:Hk; try discriminate.
        destruct (int_step k path v rest Hk Ew) as [m [Hm' [_ ->]]].
        rewrite pyval_of_int. unfold format. rewrite Hk. cbn [f_out_of apply_fmt].
        cbn [check]. unfold validate, handler. rewrite Hk.
        destruct (int_rx_dec_of_Z_pos (Z_of_dec (firstn m path)) (next_lit p)) as [j Hj].
        rewrite Hj. apply Hrest. now rewrite text_of_int.
      - unfold wild_step in Ew. destruct path as [|c0 path0] eqn:Ep; [discriminate|]. rewrite <- Ep in *.
        injection Ew as <- _.
        cbn [format check]. apply Hrest.
        assert (Hv : valid_str (firstn (seg_len path) path)) by (apply valid_str_firstn, Hval).
        now rewrite text_of_valid, pyval_of_valid_str. }
    cbn [spec_go map anon_args]. unfold fetch.
    destruct (is_anon n) eqn:Ea.
    + exact Hgo.
    + rewrite (Hkw n v); [| now left | exact Ea]. exact Hgo.
Qed.

End IntRule.

Lemma int_lemma kind rx fconv p names path vs :
  lits_ok p = true ->
  int_or_plain kind p = true ->
  no_adjacent_int kind p = true ->
  names_ok p names ->
  valid_str path ->
  match1 (handler kind rx fconv) p path = Some vs ->
  exists u,
    url_of_match kind rx fconv p names vs = UOk u /\
    u = fill p (map text_of vs) /\
    match1 (handler kind rx fconv) p u = Some vs.
Proof.
  intros Hok Hip Hna [Hlen Hnd] Hval Hm.
  exists (fill p (map text_of vs)).
  destruct (rematch kind rx fconv p path vs Hip Hna Hval Hm) as [Hre _].
  split; [|split; [reflexivity | exact Hre]].
  unfold url_of_match. rewrite url_shape_lemma by exact Hok. unfold url_spec.
  destruct names as [|n0 names0] eqn:En.
  - simpl in Hlen. pose proof (match1_length _ _ _ _ Hm) as Hl. rewrite <- Hlen in Hl.
    destruct vs; [|discriminate]. f_equal.
    rewrite <- (match1_no_wild _ p path (eq_sym Hlen) Hm).
    clear -Hlen Hm. symmetry in Hlen.
    revert path Hm; induction p as [|[s|f] p IH]; intros path Hm; simpl in *; try discriminate.
    + destruct path; [reflexivity | discriminate].
    + destruct (prefixb s path) eqn:Ep; [|discriminate].
      apply prefixb_spec in Ep. destruct Ep as [rest ->]. rewrite skipn_app_exact in Hm.
      f_equal. auto.
  - rewrite <- En in *. clear En.
    rewrite (spec_go_int kind rx fconv _ p names path vs []); auto.
    intros n v Hin Ha. unfold make_params_dict.
    apply mpd_acc_get; auto.
    clear -Hin. revert vs Hin; induction names as [|m names IH]; intros [|x vs] Hin; simpl in *; try tauto.
    destruct Hin as [[= <- <-]|Hin]; [now left | right; now apply IH].
Qed.
