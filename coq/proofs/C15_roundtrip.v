(* C15_roundtrip.v — Set-Cookie emitted -> Cookie header -> get_cookie.
   The cookie pattern finds exactly (name, coded value) in "name=coded", for a legal
   name and the coded form of any value with code points < 256; then the plain and
   the signed round trip, and the refuted cases (findings F18a/b/c). *)
From Coq Require Import String Ascii.
From Verif Require Import lib.Base lib.Str lib.Utf8 lib.Base64 model.Cookie
                          proofs.C15_proofs proofs.C15_quote.
Local Open Scope N_scope.

(* ------------------------------------------------------------------ *)
(* span / take_n / trail                                               *)
(* ------------------------------------------------------------------ *)
Lemma span_stop p c s : p c = false -> span p (c :: s) = ([], c :: s).
Proof. intros H. simpl. now rewrite H. Qed.

Lemma span_all p v rest :
  forallb p v = true -> (match rest with [] => True | c :: _ => p c = false end) ->
  span p (v ++ rest) = (v, rest).
Proof.
  induction v as [|c r IH]; intros Hv Hr; simpl.
  - destruct rest as [|c s]; [reflexivity | simpl in *; now rewrite Hr].
  - simpl in Hv. apply andb_true_iff in Hv. destruct Hv as [Hc Hv].
    rewrite Hc, IH by assumption. reflexivity.
Qed.

Lemma take_n_split p n : forall s a b, take_n p n s = Some (a, b) -> s = a ++ b.
Proof.
  induction n as [|n IH]; intros s a b; simpl.
  - intros [= <- <-]. reflexivity.
  - destruct s as [|c r]; [discriminate|]. destruct (p c); [|discriminate].
    destruct (take_n p n r) as [[a' b']|] eqn:E; [|discriminate].
    intros [= <- <-]. simpl. f_equal. now apply IH.
Qed.

Definition all_legal (s : str) : Prop := forallb legal_char s = true.

Lemma all_legal_in s c : all_legal s -> In c s -> legal_char c = true.
Proof. unfold all_legal. rewrite forallb_forall. auto. Qed.

(* ------------------------------------------------------------------ *)
(* the value alternatives on the coded value at the end of the header    *)
(* ------------------------------------------------------------------ *)
Lemma alt_expires_legal v : all_legal v -> alt_expires v = None.
Proof.
  intros H. unfold alt_expires.
  destruct (take_n is_word 3 v) as [[a0 s0]|] eqn:E; [|reflexivity].
  apply take_n_split in E. destruct s0 as [|c s1]; [reflexivity|].
  assert (Hc : legal_char c = true).
  { apply (all_legal_in v); [assumption|]. rewrite E. apply in_or_app. right. now left. }
  destruct (legal_props c Hc) as [_ [_ [_ [_ [_ [_ [_ [H44 _]]]]]]]].
  replace (c =? 44) with false by lia. reflexivity.
Qed.

Lemma legal_val_chars v : all_legal v -> forallb val_char v = true.
Proof.
  unfold all_legal. rewrite !forallb_forall. intros H c Hc.
  now destruct (legal_props c (H c Hc)) as [_ [Hv _]].
Qed.

Lemma legal_key_chars v : all_legal v -> forallb key_char v = true.
Proof.
  unfold all_legal. rewrite !forallb_forall. intros H c Hc.
  now destruct (legal_props c (H c Hc)) as [Hk _].
Qed.

(* ( \s*=\s* val )? trailer, on "=coded" at the end of the string *)
Lemma value_group_coded v :
  value_group (61 :: quote v) = Some (quote v, []).
Proof.
  unfold value_group. rewrite span_stop by reflexivity. change (61 =? 61) with true. cbv iota.
  unfold quote. destruct (is_legal_key v) eqn:E.
  - (* verbatim *)
    destruct v as [|c r]; [discriminate|]. unfold is_legal_key in E.
    assert (Hc : legal_char c = true) by (simpl in E; now apply andb_true_iff in E).
    destruct (legal_props c Hc) as [_ [_ [_ [Hws [_ [_ [H34 _]]]]]]].
    rewrite span_stop by assumption.
    unfold alt_quoted. replace (c =? 34) with false by lia.
    rewrite alt_expires_legal by exact E.
    unfold alt_plain.
    pose proof (span_all val_char (c :: r) [] (legal_val_chars _ E) I) as Hsp.
    rewrite app_nil_r in Hsp. rewrite Hsp. reflexivity.
  - (* quoted *)
    rewrite span_stop by reflexivity.
    unfold alt_quoted. change (34 =? 34) with true. cbv iota.
    rewrite qbody_quoted. reflexivity.
Qed.

(* ------------------------------------------------------------------ *)
(* the lazy key                                                         *)
(* ------------------------------------------------------------------ *)
Lemma key_scan_name coded : forall name2 acc,
  all_legal name2 ->
  (acc <> [] \/ name2 <> []) ->
  value_group (61 :: coded) = Some (coded, []) ->
  key_scan acc (name2 ++ 61 :: coded) = Some (rev acc ++ name2, Some coded, []).
Proof.
  induction name2 as [|c r IH]; intros acc Hl Hne Hv.
  - destruct acc as [|a acc']; [destruct Hne; congruence|].
    cbn [app key_scan]. rewrite Hv. now rewrite app_nil_r.
  - unfold all_legal in Hl. simpl in Hl. apply andb_true_iff in Hl. destruct Hl as [Hc Hr].
    destruct (legal_props c Hc) as [Hk [_ [_ [Hws [H61 [H59 _]]]]]].
    cbn [app key_scan].
    assert (Hvg : value_group (c :: r ++ 61 :: coded) = None).
    { unfold value_group. rewrite span_stop by assumption. replace (c =? 61) with false by lia. reflexivity. }
    assert (Htr : trail (c :: r ++ 61 :: coded) = None).
    { unfold trail. rewrite span_stop by assumption. replace (c =? 59) with false by lia. reflexivity. }
    rewrite Hvg, Htr, Hk.
    rewrite IH; [|exact Hr | left; discriminate | exact Hv].
    destruct acc; cbn [rev]; rewrite <- app_assoc; reflexivity.
Qed.

Lemma match_cookie_pair name v :
  is_legal_key name = true ->
  match_cookie (name ++ 61 :: quote v) = Some (name, Some (quote v), []).
Proof.
  intros Hn. destruct name as [|c r]; [discriminate|]. unfold is_legal_key in Hn.
  assert (Hc : legal_char c = true) by (simpl in Hn; now apply andb_true_iff in Hn).
  destruct (legal_props c Hc) as [_ [_ [_ [Hws _]]]].
  unfold match_cookie. cbn [app]. rewrite span_stop by assumption.
  change (c :: r ++ 61 :: quote v) with ((c :: r) ++ 61 :: quote v).
  rewrite key_scan_name; [reflexivity | exact Hn | right; discriminate | apply value_group_coded].
Qed.

(* ------------------------------------------------------------------ *)
(* SimpleCookie("name=coded")                                          *)
(* ------------------------------------------------------------------ *)
Definition good_name (name : str) : Prop :=
  is_legal_key name = true /\ is_reserved name = false /\ hd 0 name <> 36.

Lemma parse_pair name v :
  good_name name ->
  parse_cookies (name ++ 61 :: quote v) = PCookies [(name, unquote (quote v))].
Proof.
  intros [Hl [Hr Hd]]. unfold parse_cookies.
  remember (name ++ 61 :: quote v) as hdr eqn:E.
  destruct hdr as [|h0 t0]; [destruct name; discriminate|].
  cbn [length parse_loop]. rewrite E.
  rewrite match_cookie_pair by assumption.
  replace (hd 0 name =? 36) with false by lia.
  rewrite Hr. cbn [negb parse_loop rev app apply_items].
  rewrite Hr, Hl. reflexivity.
Qed.

(* ------------------------------------------------------------------ *)
(* transcoding of ASCII text is the identity                            *)
(* ------------------------------------------------------------------ *)
Lemma ascii_scalar s : Forall (fun c => c < 128) s -> Forall scalar s.
Proof. apply Forall_impl. intros c Hc. left. lia. Qed.

Lemma utf8_encode_ascii s : Forall (fun c => c < 128) s -> utf8_encode s = Some s.
Proof.
  intros H. rewrite utf8_encode_some by now apply ascii_scalar. now rewrite utf8_enc_str_ascii.
Qed.

Lemma transcode_ascii s : Forall (fun c => c < 128) s -> transcode s = Some s.
Proof. intros H. unfold transcode. now rewrite utf8_encode_ascii. Qed.

Lemma legal_key_ascii name : is_legal_key name = true -> Forall (fun c => c < 128) name.
Proof.
  intros H. destruct name as [|c r]; [discriminate|]. unfold is_legal_key in H.
  apply Forall_forall. intros x Hx. rewrite forallb_forall in H. apply legal_lt128. now apply H.
Qed.

Lemma output_ascii name v :
  is_legal_key name = true -> Forall (fun c => c < 256) v ->
  Forall (fun c => c < 128) (output_string name (quote v)).
Proof.
  intros Hn Hv. unfold output_string. apply Forall_app. split; [now apply legal_key_ascii|].
  constructor; [lia | now apply quote_ascii].
Qed.

(* ------------------------------------------------------------------ *)
(* the wire: set_cookie, emission, parse                                *)
(* ------------------------------------------------------------------ *)
Section Wire.
Variable val : Type.
Variable mac : list N -> list N -> list N.
Variable dumps : str -> @cval val -> list N.
Variable loads : list N -> @lres val.

Lemma emit_single name v :
  is_legal_key name = true -> Forall (fun c => c < 256) v ->
  emit_cookies [(name, (v, quote v))] = Some [output_string name (quote v)].
Proof.
  intros Hn Hv. cbn [emit_cookies]. now rewrite transcode_ascii by now apply output_ascii.
Qed.

Lemma set_plain name v :
  good_name name -> (length v <= 4096)%nat ->
  set_cookie val mac dumps [] name (CStr v) None = inl [(name, (v, quote v))].
Proof.
  intros [Hl [Hr _]] Hlen. unfold set_cookie.
  replace (Nat.ltb 4096 (length v)) with false by (symmetry; apply Nat.ltb_ge; lia).
  rewrite Hr, Hl. reflexivity.
Qed.

Lemma get_plain name v c0 v' :
  good_name name -> v = c0 :: v' -> Forall (fun c => c < 256) v ->
  get_cookie val mac loads (output_string name (quote v)) name None = (GStr v, None).
Proof.
  intros Hg -> Hv. unfold get_cookie, output_string.
  rewrite parse_pair by assumption. rewrite unquote_quote by assumption.
  cbn [assoc_get]. rewrite str_eqb_refl. reflexivity.
Qed.

(* C15_plain_roundtrip *)
Lemma plain_roundtrip name v :
  good_name name -> v <> [] -> Forall (fun c => c < 256) v -> (length v <= 4096)%nat ->
  exists j w,
    set_cookie val mac dumps [] name (CStr v) None = inl j
    /\ emit_cookies j = Some [w]
    /\ get_cookie val mac loads w name None = (GStr v, None).
Proof.
  intros Hg Hne Hv Hlen. destruct v as [|c0 v']; [congruence|].
  exists [(name, (c0 :: v', quote (c0 :: v')))], (output_string name (quote (c0 :: v'))).
  split; [now apply set_plain|]. split; [apply emit_single; [apply Hg | assumption]|].
  eapply get_plain; eauto.
Qed.

(* ---- signed ---- *)
Definition signed_text (k : list N) (name : str) (v : @cval val) : str :=
  33 :: b64encode (mac k (b64encode (dumps name v))) ++ 63 :: b64encode (dumps name v).

Lemma signed_text_ascii k name v : Forall (fun c => c < 128) (signed_text k name v).
Proof.
  unfold signed_text. constructor; [lia|]. apply Forall_app. split; [apply b64encode_ascii|].
  constructor; [lia | apply b64encode_ascii].
Qed.

Lemma prefixb_bang s : prefixb [33] (33 :: s) = true.
Proof. reflexivity. Qed.

Lemma decode_signed k secret name v :
  utf8_encode secret = Some k ->
  bytes_ok (dumps name v) ->
  cookie_decode val mac loads (signed_text k name v) secret
  = DLoaded (dumps name v) (loads (dumps name v)).
Proof.
  intros Ek Hb. unfold cookie_decode, split_qmark.
  rewrite (utf8_encode_ascii _ (signed_text_ascii k name v)), Ek.
  unfold signed_text. rewrite prefixb_bang.
  replace (contains_char N.eqb 63 _) with true
    by (symmetry; apply contains_char_In; right; apply in_or_app; right; now left).
  cbn [andb].
  change (33 :: b64encode (mac k (b64encode (dumps name v))) ++ 63 :: b64encode (dumps name v))
    with ((33 :: b64encode (mac k (b64encode (dumps name v)))) ++ 63 :: b64encode (dumps name v)).
  rewrite split_once_app.
  - cbn [tl]. rewrite lscmp_refl. now rewrite b64decode_encode.
  - intros [E|Hin]; [discriminate|]. now apply (proj1 (b64encode_no_qmark_bang _)) in Hin.
Qed.

(* C15_signed_roundtrip *)
Lemma signed_roundtrip name v secret k :
  good_name name ->
  nonempty secret = true -> utf8_encode secret = Some k ->
  (length (signed_text k name v) <= 4096)%nat ->
  bytes_ok (dumps name v) ->
  loads (dumps name v) = LPair name v ->
  exists j w,
    set_cookie val mac dumps [] name v (Some secret) = inl j
    /\ emit_cookies j = Some [w]
    /\ get_cookie val mac loads w name (Some secret) = (GVal v, Some (dumps name v)).
Proof.
  intros Hg Hs Ek Hlen Hb Hl.
  set (t := signed_text k name v).
  assert (Ht : Forall (fun c => c < 256) t).
  { eapply Forall_impl; [|apply signed_text_ascii]. intros c Hc. simpl in Hc. lia. }
  exists [(name, (t, quote t))], (output_string name (quote t)).
  destruct Hg as [Hlk [Hr Hd]].
  split; [|split].
  - unfold set_cookie. rewrite Hs. unfold cookie_encode. rewrite Ek. fold (signed_text k name v). fold t.
    replace (Nat.ltb 4096 (length t)) with false by (symmetry; apply Nat.ltb_ge; exact Hlen).
    rewrite Hr, Hlk. reflexivity.
  - now apply emit_single.
  - unfold get_cookie, output_string.
    rewrite parse_pair by (repeat split; assumption). rewrite unquote_quote by assumption.
    cbn [assoc_get]. rewrite str_eqb_refl. rewrite Hs.
    unfold t at 1. unfold signed_text at 1. fold (signed_text k name v).
    rewrite decode_signed by assumption. rewrite Hl. now rewrite str_eqb_refl.
Qed.

End Wire.

(* ------------------------------------------------------------------ *)
(* refuted: findings F18a, F18b, F18c                                   *)
(* ------------------------------------------------------------------ *)
Definition no_mac (_ _ : list N) : list N := [].
Definition no_dumps (_ : str) (_ : @cval unit) : list N := [].
Definition no_loads (_ : list N) : @lres unit := LRaise.

Definition plain_rt (name v : str) : option (@gres unit) :=
  match set_cookie unit no_mac no_dumps [] name (CStr v) None with
  | inl j => match emit_cookies j with
             | Some [w] => Some (fst (get_cookie unit no_mac no_loads w name None))
             | _ => None
             end
  | inr _ => None
  end.

(* 'я' (U+044F) comes back as the two Latin-1 characters of its UTF-8 encoding *)
Lemma plain_above_255_witness :
  plain_rt [97] [1103] = Some (GStr [209; 143]).
Proof. vm_compute. reflexivity. Qed.

Lemma plain_empty_witness : plain_rt [97] [] = Some GDefault.
Proof. vm_compute. reflexivity. Qed.

Lemma dollar_name_witness :
  is_legal_key [36; 97] = true /\ is_reserved [36; 97] = false
  /\ plain_rt [36; 97] [98] = Some GDefault.
Proof. vm_compute. repeat split. Qed.

(* the attribute / getunicode read path: the mirror image of F18a (finding F18d) *)
Definition attr_rt (name v : str) : option (@qres unit) :=
  match set_cookie unit no_mac no_dumps [] name (CStr v) None with
  | inl j => match emit_cookies j with
             | Some [w] => Some (qread unit no_mac no_loads (Some w) (QAttr name true))
             | _ => None
             end
  | inr _ => None
  end.

Lemma attr_read_witnesses :
  attr_rt [97] [99; 97; 102; 233] = Some (QRStr None)               (* 'café' reads as the default *)
  /\ attr_rt [97] [1103] = Some (QRStr (Some [1103]))                (* U+044F comes back intact *)
  /\ attr_rt [97] [194; 163] = Some (QRStr (Some [163])).            (* Latin-1 text that is valid UTF-8 is altered *)
Proof. vm_compute. repeat split. Qed.
