(* C12_wf.v — with C06 (the streaming parser equals the one-piece scanner on
   every prefix of a well-formed body, however it is chunked): a delivered field
   of such a body — in particular of a TRUNCATED well-formed body — is the data of
   a part that was terminated by a delimiter. *)
From Verif Require Import lib.Base lib.Str lib.Utf8.
From Verif Require Import model.MultipartRef model.Multipart model.Fields model.BodyPipeline.
From Verif Require Import proofs.C06_global proofs.C12_delivered.
Local Open Scope Z_scope.

Definition closed_item (B body : bytes) (it : item) : Prop :=
  match it with
  | IText (Some v) =>
    exists ds q, prefixb (token B) (skipn q body) = true /\
                 (if Z.of_nat q - ds =? 0 then v = [] else utf8_dec (read_at body ds (Z.of_nat q - ds)) = Some v)
  | IText None => True
  | IFile _ _ _ w => exists q, snd w = Z.of_nat q /\ prefixb (token B) (skipn q body) = true
  end.

Theorem delivered_closed_wf B parts it :
  wf_prefix B (concat parts) ->
  delivered_ok (concat parts) (fst (markup_chunks B parts)) it ->
  closed_item B (concat parts) it.
Proof.
  intros Hwf. rewrite (stream_eq_ref B parts Hwf). unfold ref_obs. cbn [fst].
  destruct it as [[v|]|n fn ct w]; cbn [delivered_ok closed_item]; [|trivial|].
  - intros (ds & de & Hin & Hv).
    destruct (ref_data_closed B (concat parts) Data ds de Hin eq_refl) as (q & -> & Hp).
    now exists ds, q.
  - intros Hin. destruct w as [ds de]. cbn [fst snd] in *.
    destruct (ref_data_closed B (concat parts) Data ds de Hin eq_refl) as (q & -> & Hp).
    now exists q.
Qed.
