(* C12_refine.v — the read loops of BodyPipeline.v (which keep the list of parts,
   because every part is fed to the streaming multipart parser) are, for ALL
   inputs, the read loops of Body.v / Chunked.v: same outcome, and the parts
   concatenate to the body of Chunked.body_read_env.  Hence every theorem about
   body_read_cl (C04) and body_read_chunked (C05) transfers to the pipeline. *)
From Verif Require Import lib.Base lib.Str lib.PyIntHex.
From Verif Require Import model.Stream model.Body model.BodyPipeline.
From Verif Require model.Chunked.

(* outcome of the uninstrumented loop vs. the instrumented one *)
Definition refines (r : bres) (p : rres) : Prop :=
  match r, p with
  | BDone body _ _, RDone parts => concat parts = body
  | BTooLarge _, RTooLarge => True
  | BParseErr _, RParse => True
  | BOutOfFuel, ROutOfFuel => True
  | _, _ => False
  end.

Lemma concat_snoc {A} (l : list (list A)) x : concat (l ++ [x]) = concat l ++ x.
Proof. rewrite concat_app. simpl. now rewrite app_nil_r. Qed.

Lemma cl_refines :
  forall fuel s buf maxb rl parts sp,
    refines (cl_loop fuel s buf maxb rl (concat parts) sp)
            (cl_parts fuel s buf maxb rl parts (length (concat parts))).
Proof.
  induction fuel as [|f IH]; intros s buf maxb rl parts sp; cbn [cl_loop cl_parts]; [exact I|].
  destruct (Nat.eqb rl 0); [reflexivity|].
  destruct (read s (Nat.min rl buf)) as [part s'].
  destruct part as [|b part]; [reflexivity|].
  rewrite app_length.
  destruct (over maxb _); [exact I|].
  specialize (IH s' buf maxb (rl - length (b :: part)) (parts ++ [b :: part])
                 (sp || Nat.ltb buf (length (concat parts) + length (b :: part)))%bool).
  rewrite concat_snoc, app_length in IH. exact IH.
Qed.

Definition prefines (r : Chunked.pres) (p : ppres) : Prop :=
  match r, p with
  | Chunked.PCont s1 acc _, PPCont s2 parts size => s1 = s2 /\ acc = concat parts /\ size = length acc
  | Chunked.PStop r', PPStop p' =>
    match r', p' with
    | BTooLarge _, RTooLarge | BParseErr _, RParse | BOutOfFuel, ROutOfFuel => True
    | _, _ => False
    end
  | _, _ => False
  end.

Lemma ch_payload_refines :
  forall fuel s buf maxb rl parts sp,
    prefines (Chunked.ch_payload fuel s buf maxb rl (concat parts) sp)
             (ch_payload_p fuel s buf maxb rl parts (length (concat parts))).
Proof.
  induction fuel as [|f IH]; intros s buf maxb rl parts sp; cbn [Chunked.ch_payload ch_payload_p]; [exact I|].
  destruct (rl <=? 0)%Z; [repeat split|].
  destruct (read s _) as [part s'].
  destruct part as [|b part]; [exact I|].
  rewrite app_length.
  destruct (over maxb _); [exact I|].
  specialize (IH s' buf maxb (rl - Z.of_nat (length (b :: part)))%Z (parts ++ [b :: part])
                 (sp || Nat.ltb buf (length (concat parts) + length (b :: part)))%bool).
  rewrite concat_snoc, app_length in IH. exact IH.
Qed.

Lemma ch_refines :
  forall fuel s buf maxb parts sp,
    refines (Chunked.ch_loop fuel s buf maxb (concat parts) sp)
            (ch_parts fuel s buf maxb parts (length (concat parts))).
Proof.
  induction fuel as [|f IH]; intros s buf maxb parts sp; cbn [Chunked.ch_loop ch_parts]; [exact I|].
  destruct (Chunked.scan_line buf s false false []) as [[digits|] s1]; [|exact I].
  destruct (py_int_hex digits) as [rl|]; [|exact I].
  destruct (rl =? 0)%Z; [reflexivity|].
  pose proof (ch_payload_refines (S (length (rest s1))) s1 buf maxb rl parts sp) as Hp.
  destruct (Chunked.ch_payload _ s1 buf maxb rl (concat parts) sp) as [s2 acc2 sp2|r];
    destruct (ch_payload_p _ s1 buf maxb rl parts (length (concat parts))) as [s2' parts2 size2|p];
    cbn [prefines] in Hp; try contradiction.
  - destruct Hp as (<- & -> & ->).
    destruct (read s2 1) as [c1 s3]. destruct (Chunked.is_byte c1 13); [|exact I].
    destruct (read s3 1) as [c2 s4]. destruct (Chunked.is_byte c2 10); [|exact I].
    apply IH.
  - destruct r, p; cbn [refines]; tauto.
Qed.

(* the pipeline's reader is Chunked.body_read_env (the glue of Request._body) *)
Theorem read_parts_refines cfg cl te s :
  refines (Chunked.body_read_env s (c_memfile cfg) (c_maxbody cfg) cl te) (read_parts cfg cl te s).
Proof.
  unfold Chunked.body_read_env, read_parts. destruct (Chunked.te_chunked te).
  - apply (ch_refines _ s (c_memfile cfg) (c_maxbody cfg) [] false).
  - apply (cl_refines _ s (c_memfile cfg) (c_maxbody cfg) (Z.to_nat cl) [] false).
Qed.
