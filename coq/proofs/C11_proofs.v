(* C11_proofs.v — edit histories: what every operation does to what the tree holds. *)
From Verif Require Import lib.Base lib.Str gen.Gen model.RouteSpec model.Dispatch model.Router
     proofs.C02_proofs proofs.C01_get proofs.C01_insert proofs.C01_router.

Local Opaque TOKEN.
Local Arguments N.eqb : simpl never.

(* installing a hook (RadiDict.add_hooks = _set with hooks) never changes which
   (pattern, route) pairs the tree holds, and keeps it well-formed: nodes may be
   split or created, the routes are untouched *)
Lemma hook_install_lemma : forall root route fl hp nm root',
  wf root -> ntok route <= length fl -> set_at root route fl 0 (IHooks hp) nm = SOk root' ->
  wf root' /\ forall e, In e (paths root') <-> In e (paths root).
Proof.
  intros root route fl hp nm root' Hw Hn Hs. split.
  - eapply wf_insert; eauto.
  - intros e. rewrite (insert_paths root route fl (IHooks hp) nm root' Hw Hn Hs). simpl. tauto.
Qed.

(* ------------------------------------------------------------------ *)
(* RadiDict.remove                                                      *)
(* ------------------------------------------------------------------ *)

(* the route string a character-level pattern stands for *)
Definition rstr (p : list pc) : str := map (fun x => match x with PC c => c | PW _ => TOKEN end) p.

Lemma rstr_app a b : rstr (a ++ b) = rstr a ++ rstr b.
Proof. apply map_app. Qed.

Lemma rstr_key_pcs k : rstr (key_pcs k) = nkey k \/ True.
Proof. now right. Qed.

Lemma rstr_key k : key_ok (nkey k) -> rstr (key_pcs k) = nkey k.
Proof.
  intros Hk. unfold key_pcs. destruct (str_eqb_spec (nkey k) tok) as [->|Hn]; [reflexivity|].
  unfold rstr. rewrite map_map. apply map_id.
Qed.

Lemma rstr_fpat p : forall fl, rstr (fpat p fl) = p.
Proof.
  induction p as [|c r IH]; intros fl; simpl; [reflexivity|].
  destruct (N.eqb_spec c TOKEN) as [->|Hc].
  - destruct fl; simpl; now rewrite IH.
  - simpl. now rewrite IH.
Qed.

(* an entry survives the removal *)
Definition keepP (wild ho : bool) (route : str) (p : list pc) : Prop :=
  ho = true \/ (if wild then prefixb route (rstr p) = false else rstr p <> route).

Lemma prefixb_app_same a : forall x y, prefixb (a ++ x) (a ++ y) = prefixb x y.
Proof.
  unfold prefixb. induction a as [|c a IH]; intros x y; simpl; [reflexivity|].
  now rewrite N.eqb_refl, IH.
Qed.

Lemma prefixb_nil_l s : prefixb [] s = true.
Proof. reflexivity. Qed.

(* two prefixes of one string are comparable *)
Lemma prefix_comparable a : forall b x, prefixb a (b ++ x) = true -> prefixb a b = true \/ prefixb b a = true.
Proof.
  unfold prefixb. induction a as [|c a IH]; intros b x H; simpl; [now left|].
  destruct b as [|d b]; [now right|]. simpl in *. apply andb_true_iff in H. destruct H as [H1 H2].
  rewrite H1. simpl. rewrite N.eqb_sym, H1. simpl. eauto.
Qed.

(* prunable = nothing held, no children, no hook *)
Lemma prunable_paths n : prunable n = true -> paths n = [].
Proof. destruct n as [key [d|] nm f [h|] [|k ks]]; simpl; try discriminate; reflexivity. Qed.

Lemma tok_last_del c ks : tok_last ks -> tok_last (del_head c ks).
Proof.
  induction ks as [|k ks IH]; simpl; [auto|]. intros Hl.
  destruct (head_is k c).
  - destruct ks as [|k2 ks2]; [exact I | apply Hl].
  - destruct ks as [|k2 ks2]; [exact I|]. destruct Hl as [Hn Hl]. specialize (IH Hl).
    simpl in *. destruct (head_is k2 c).
    + destruct ks2 as [|k3 ks3]; [exact I|]. split; [exact Hn | apply Hl].
    + destruct (del_head c ks2) eqn:E.
      * split; [exact Hn | exact IH].
      * split; [exact Hn | exact IH].
Qed.

Lemma del_head_incl c ks : forall k, In k (del_head c ks) -> In k ks.
Proof.
  induction ks as [|k0 ks IH]; simpl; [tauto|]. intros k. destruct (head_is k0 c); [tauto|].
  intros [->|H]; [now left | right; auto].
Qed.

Lemma del_head_nodup c ks : NoDup (map khead ks) -> NoDup (map khead (del_head c ks)).
Proof.
  induction ks as [|k ks IH]; simpl; [auto|]. intros H. inversion H as [|? ? Hn Hd]; subst.
  destruct (head_is k c); [exact Hd|]. simpl. constructor; [|auto].
  intros Hin. apply Hn. apply in_map_iff in Hin. destruct Hin as (x & Hx & Hin).
  apply in_map_iff. exists x. split; [exact Hx | now apply (del_head_incl c ks)].
Qed.

(* deleting the child with head c: the others stay *)
Lemma del_head_spec c ks k :
  Forall (fun k => key_ok (nkey k)) ks -> NoDup (map khead ks) -> In k ks -> khead k = c ->
  forall x, In x (del_head c ks) <-> In x ks /\ x <> k.
Proof.
  induction ks as [|k0 ks IH]; intros Hok Hnd Hin Hh x; [destruct Hin|]. subst c. simpl.
  inversion Hok as [|? ? Hk0 Hoks]; subst. inversion Hnd as [|? ? Hn Hd]; subst.
  destruct (head_is k0 (khead k)) eqn:E.
  - apply head_is_khead in E; [|apply Hk0].
    assert (k0 = k).
    { destruct Hin as [->|Hin]; [reflexivity|]. exfalso. apply Hn. rewrite E. now apply in_map. }
    subst k0. split.
    + intros Hx. split; [now right|]. intros ->. apply Hn. now apply in_map.
    + intros [[->|Hx] Hne]; [contradiction | exact Hx].
  - assert (Hne0 : k0 <> k).
    { intros ->. assert (head_is k (khead k) = true) by (apply head_is_khead; [apply Hk0 | reflexivity]). congruence. }
    destruct Hin as [->|Hin]; [contradiction|]. simpl. rewrite (IH Hoks Hd Hin eq_refl x). split.
    + intros [->|[Hx Hne]]; [split; [now left | exact Hne0] | split; [now right | exact Hne]].
    + intros [[->|Hx] Hne]; [now left | right; auto].
Qed.

Lemma wf_kids_del c ks :
  kids_ok ks -> kids_ok (del_head c ks).
Proof.
  intros (H1 & H2 & H3 & H4). split; [|split; [|split]].
  - rewrite Forall_forall in *. intros x Hx. apply H1. now apply (del_head_incl c ks).
  - rewrite Forall_forall in *. intros x Hx. apply H2. now apply (del_head_incl c ks).
  - now apply del_head_nodup.
  - now apply tok_last_del.
Qed.

(* _try_merge keeps what the node contributes to its parent *)
Lemma try_merge_spec p :
  wf p -> key_ok (nkey p) ->
  wf (try_merge false p) /\ key_ok (nkey (try_merge false p)) /\
  khead (try_merge false p) = khead p /\ kid_entries (try_merge false p) = kid_entries p.
Proof.
  intros Hw Hk. destruct p as [key d nm f h kids]. unfold try_merge.
  assert (Triv : wf (Node key d nm f h kids) /\ key_ok (nkey (Node key d nm f h kids)) /\
                 khead (Node key d nm f h kids) = khead (Node key d nm f h kids) /\
                 kid_entries (Node key d nm f h kids) = kid_entries (Node key d nm f h kids))
    by (split; [exact Hw|]; split; [exact Hk|]; split; reflexivity).
  destruct kids as [|c [|c2 ks]]; try exact Triv.
  destruct d; [exact Triv|]. destruct h; [exact Triv|].
  destruct (str_eqb key tok || head_is c TOKEN) eqn:E; [exact Triv|]. clear Triv.
  apply orb_false_iff in E. destruct E as [E1 E2].
  apply wf_inv in Hw. destruct Hw as (W1 & W2 & W3 & W4).
  inversion W1 as [|? ? Hwc _]; subst. inversion W2 as [|? ? Hkc _]; subst. simpl in Hk.
  assert (Hkt : key <> tok) by (intros ->; now rewrite str_eqb_refl in E1).
  assert (Hklit : ~ In TOKEN key) by (destruct Hk as [_ [E|E]]; [contradiction | exact E]).
  assert (Hct : nkey c <> tok).
  { intros Ht. assert (head_is c TOKEN = true) by (apply head_is_khead; [apply Hkc | unfold khead; now rewrite Ht]). congruence. }
  assert (Hclit : ~ In TOKEN (nkey c)) by (destruct Hkc as [_ [E|E]]; [contradiction | exact E]).
  assert (Hml : ~ In TOKEN (key ++ nkey c)) by (rewrite in_app_iff; tauto).
  assert (Hmne : key ++ nkey c <> []) by (destruct Hk as [Hne _]; destruct key; [contradiction | discriminate]).
  split; [now apply wf_set_key|]. rewrite nkey_set_key. split; [split; auto|].
  split; [unfold khead; rewrite nkey_set_key; simpl; destruct Hk as [Hne _]; destruct key; [contradiction | reflexivity]|].
  assert (Hp : paths (Node key None nm f None [c]) = kid_entries c).
  { rewrite paths_node. simpl. unfold kids_entries. simpl. now rewrite app_nil_r. }
    unfold kid_entries at 1 2. rewrite Hp, paths_set_key. unfold kid_entries. rewrite map_pre_pre.
    rewrite (key_pcs_lit (set_key c (key ++ nkey c))) by (rewrite nkey_set_key; auto).
    rewrite (key_pcs_lit (Node key None nm f None [c])) by (simpl; auto; apply Hk).
    rewrite (key_pcs_lit c) by (auto; apply Hkc). rewrite nkey_set_key. simpl nkey. now rewrite map_app.
Qed.

(* ---- the node _match returned ---- *)
Lemma kids_entries_nonempty ks e :
  Forall (fun k => key_ok (nkey k)) ks -> In e (kids_entries ks) -> fst e <> [].
Proof.
  intros Hok Hin. destruct e as [p x]. apply in_kids_entries in Hin. destruct Hin as (k & Hk & Hin).
  rewrite Forall_forall in Hok. destruct (kid_entry_first k p x (Hok k Hk) Hin) as [[_ [p0 ->]]|[_ [p0 ->]]]; discriminate.
Qed.

Lemma rm_target_spec cut ho n :
  wf n -> cut && ho = false ->
  exists n', (rm_target cut ho n = RmKeep n' /\ prunable n' = false \/
              rm_target cut ho n = RmPrune n' /\ prunable n' = true) /\
             wf n' /\ nkey n' = nkey n /\ nflt n' = nflt n /\
             forall e, In e (paths n') <-> In e (paths n) /\ (ho = true \/ (cut = false /\ fst e <> [])).
Proof.
  destruct n as [key d nm f h ks]. intros Hw Hch. apply wf_inv in Hw. destruct Hw as (W1 & W2 & W3 & W4).
  unfold rm_target.
  assert (Hfin : forall h' ks1 (Hks1 : ks1 = (if cut then [] else ks)),
            exists n', ((if prunable (Node key None [] f h' ks1) then RmPrune (Node key None [] f h' ks1)
                         else RmKeep (Node key None [] f h' ks1)) = RmKeep n' /\ prunable n' = false \/
                        (if prunable (Node key None [] f h' ks1) then RmPrune (Node key None [] f h' ks1)
                         else RmKeep (Node key None [] f h' ks1)) = RmPrune n' /\ prunable n' = true) /\
                       n' = Node key None [] f h' ks1).
  { intros h' ks1 _. exists (Node key None [] f h' ks1). split; [|reflexivity].
    destruct (prunable (Node key None [] f h' ks1)) eqn:E; [right | left]; auto. }
  assert (Hwf1 : forall h' ks1, ks1 = (if cut then [] else ks) -> wf (Node key None [] f h' ks1)).
  { intros h' ks1 ->. destruct cut; constructor; auto; constructor. }
  destruct ho.
  - (* hooks only *)
    destruct cut; [discriminate|]. destruct d as [x|].
    + exists (Node key (Some x) nm f None ks). split; [left; split; reflexivity|].
      split; [now constructor|]. repeat split; auto; tauto.
    + destruct (Hfin None ks eq_refl) as (n' & Hn' & ->). exists (Node key None [] f None ks).
      split; [exact Hn'|]. split; [now apply Hwf1|]. repeat split; auto; try tauto;
        rewrite !paths_node in *; simpl in *; tauto.
  - destruct (Hfin h (if cut then [] else ks) eq_refl) as (n' & Hn' & ->).
    exists (Node key None [] f h (if cut then [] else ks)). split; [exact Hn'|].
    split; [now apply Hwf1|]. split; [reflexivity|]. split; [reflexivity|].
    intros e. rewrite !paths_node. simpl app. destruct cut.
    + simpl. split; [intros [] | intros (_ & [E|[E _]]); discriminate].
    + split.
      * intros Hin. split; [apply in_or_app; now right|]. right. split; [reflexivity|].
        eapply kids_entries_nonempty; eauto.
      * intros (Hin & [E|[_ Hne]]); [discriminate|]. apply in_app_or in Hin. destruct Hin as [Hin|Hin]; [|exact Hin].
        destruct d; [|destruct Hin]. destruct Hin as [<-|[]]. now elim Hne.
Qed.

(* ---- one child ---- *)
Definition rmk_ok (k : node) (wild ho : bool) (route : str) (r : rmres) : Prop :=
  match r with
  | RmNone => forall e0, In e0 (paths k) -> keepP wild ho route (key_pcs k ++ fst e0)
  | RmKeep k' =>
    wf k' /\ key_ok (nkey k') /\ khead k' = khead k /\
    forall e, In e (kid_entries k') <->
              exists e0, In e0 (paths k) /\ keepP wild ho route (key_pcs k ++ fst e0) /\ e = pre (key_pcs k) e0
  | RmPrune k' =>
    wf k' /\ nkey k' <> [] /\ khead k' = khead k /\ prunable k' = true /\
    forall e0, In e0 (paths k) -> ~ keepP wild ho route (key_pcs k ++ fst e0)
  end.

(* the statement for a node seen from its parent: [route] is what is left of
   the pattern below this node's key *)
Definition rmn_ok (k : node) (wild ho : bool) (route : str) (r : rmres) : Prop :=
  match r with
  | RmNone => forall e0, In e0 (paths k) -> keepP wild ho route (fst e0)
  | RmKeep k' =>
    wf k' /\ key_ok (nkey k') /\ khead k' = khead k /\
    forall e, In e (kid_entries k') <->
              exists e0, In e0 (paths k) /\ keepP wild ho route (fst e0) /\ e = pre (key_pcs k) e0
  | RmPrune k' =>
    wf k' /\ nkey k' <> [] /\ khead k' = khead k /\ prunable k' = true /\
    forall e0, In e0 (paths k) -> ~ keepP wild ho route (fst e0)
  end.

Lemma keepP_shift k wild ho r p0 :
  key_ok (nkey k) ->
  (keepP wild ho (nkey k ++ r) (key_pcs k ++ p0) <-> keepP wild ho r p0).
Proof.
  intros Hk. unfold keepP. rewrite rstr_app, (rstr_key k Hk). destruct wild.
  - now rewrite prefixb_app_same.
  - split; intros [H|H]; auto; right; intros E; apply H; [now rewrite E | now apply app_inv_head in E].
Qed.

Lemma rm_kid_ok rec k wild ho c0 r :
  wf k -> key_ok (nkey k) -> khead k = c0 -> wild && ho = false ->
  (forall route', rmn_ok k wild ho route' (rec k route')) ->
  rmk_ok k wild ho (c0 :: r) (rm_kid rec wild ho k (c0 :: r)).
Proof.
  intros Hw Hk Hh Hwh IH. unfold rm_kid. set (route := c0 :: r).
  destruct (prefixb (nkey k) route) eqn:Ep.
  - pose proof (prefixb_split _ _ Ep) as Hs. specialize (IH (skipn (length (nkey k)) route)).
    destruct (rec k (skipn (length (nkey k)) route)) as [|k'|k']; simpl in *.
    + intros e0 Hin. rewrite Hs. apply keepP_shift; auto.
    + destruct IH as (A & B & C & D). split; [exact A|]. split; [exact B|]. split; [exact C|].
      intros e. split.
      * intros He. apply D in He. destruct He as (e0 & H1 & H2 & H3). exists e0. split; [exact H1|].
        split; [rewrite Hs; now apply keepP_shift | exact H3].
      * intros (e0 & H1 & H2 & H3). apply D. exists e0. split; [exact H1|]. split; [|exact H3].
        rewrite Hs in H2. now apply keepP_shift in H2.
    + destruct IH as (A & B & C & D & E). split; [exact A|]. split; [exact B|]. split; [exact C|].
      split; [exact D|].
      intros e0 Hin Hkeep. apply (E e0 Hin). rewrite Hs in Hkeep. now apply keepP_shift in Hkeep.
  - destruct (wild && prefixb route (nkey k)) eqn:Ew.
    + (* prefix removal: the pattern ends inside this key *)
      apply andb_true_iff in Ew. destruct Ew as [-> Epk]. simpl in Hwh. subst ho.
      destruct (rm_target_spec true false k Hw eq_refl) as (k' & Hr & A & B & C & D).
      assert (Hall : forall e0, In e0 (paths k) -> ~ keepP true false route (key_pcs k ++ fst e0)).
      { intros e0 _ [E|E]; [discriminate|]. rewrite rstr_app, (rstr_key k Hk) in E.
        apply prefixb_spec in Epk. destruct Epk as [t Ht]. rewrite Ht, <- app_assoc in E.
        now rewrite prefixb_app in E. }
      destruct Hr as [[-> Hp]|[-> Hp]]; simpl.
      * split; [exact A|]. split; [now rewrite B|]. split; [unfold khead; now rewrite B|].
        intros e. split.
        -- intros He. destruct e as [pe xe]. apply in_kid_entries in He. destruct He as (p0 & -> & Hp0). apply D in Hp0.
           destruct Hp0 as (_ & [E|[E _]]); discriminate.
        -- intros (e0 & H1 & H2 & _). exfalso. eapply Hall; eauto.
      * split; [exact A|]. split; [rewrite B; apply Hk|]. split; [unfold khead; now rewrite B|].
        split; [exact Hp | exact Hall].
    + (* mismatch: nothing below is touched *)
      simpl. intros e0 Hin. unfold keepP. rewrite rstr_app, (rstr_key k Hk). right. destruct wild.
      * simpl in Ew. destruct (prefixb route (nkey k ++ rstr (fst e0))) eqn:E; [|reflexivity].
        destruct (prefix_comparable _ _ _ E); congruence.
      * intros E. rewrite <- E in Ep. now rewrite prefixb_app in Ep.
Qed.

(* ---- the children loop ---- *)
Lemma rm_go_spec rec wild ho c0 route ks :
  Forall (fun k => key_ok (nkey k)) ks ->
  match rm_go rec wild ho c0 route ks with
  | None => forall k, In k ks -> khead k <> c0
  | Some (r, rb) =>
    exists pre k post, ks = pre ++ k :: post /\ (forall x, In x pre -> khead x <> c0) /\ khead k = c0 /\
                       r = rm_kid rec wild ho k route /\ forall k', rb k' = pre ++ k' :: post
  end.
Proof.
  induction ks as [|k ks IH]; intros Hok; simpl; [tauto|].
  inversion Hok as [|? ? Hk Hoks]; subst. destruct (head_is k c0) eqn:E.
  - exists [], k, ks. simpl. repeat split; auto. apply head_is_khead; [apply Hk | exact E].
  - specialize (IH Hoks).
    assert (Hne : khead k <> c0) by (intros E2; apply head_is_khead in E2; [congruence | apply Hk]).
    destruct (rm_go rec wild ho c0 route ks) as [[r rb]|].
    + destruct IH as (pre & k1 & post & -> & H1 & H2 & H3 & H4). exists (k :: pre), k1, post. simpl.
      repeat split; auto; [intros x [<-|Hx]; auto | intros k'; now rewrite H4].
    + intros x [<-|Hx]; auto.
Qed.

Lemma other_kid_kept x wild ho c0 r p e :
  key_ok (nkey x) -> khead x <> c0 -> In (p, e) (kid_entries x) -> keepP wild ho (c0 :: r) p.
Proof.
  intros Hk Hh Hin. apply in_kid_entries in Hin. destruct Hin as (p0 & -> & _).
  unfold keepP. right. rewrite rstr_app, (rstr_key x Hk). unfold khead in Hh.
  destruct (nkey x) as [|y s]; [destruct Hk; contradiction|]. simpl in Hh. destruct wild.
  - unfold prefixb. simpl. destruct (N.eqb_spec c0 y); [congruence | reflexivity].
  - simpl. intros E. injection E as E _. congruence.
Qed.

Lemma own_kept wild ho c0 r : keepP wild ho (c0 :: r) [].
Proof. right. destruct wild; [reflexivity | discriminate]. Qed.
