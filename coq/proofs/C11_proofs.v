(* C11_proofs.v — edit histories: what every operation does to what the tree holds. *)
From Verif Require Import lib.Base lib.Str gen.Gen model.RouteSpec model.Dispatch model.Router
     proofs.C02_proofs proofs.C01_get proofs.C01_insert proofs.C01_router.

Local Opaque TOKEN.
Local Arguments N.eqb : simpl never.

(* installing a hook (RadiDict.add_hooks = _set with hooks) never changes which
   (pattern, route) pairs the tree holds, and keeps it well-formed: nodes may be
   split or created, the routes are untouched *)
Lemma hook_install_lemma : forall root route fl hp nm root',
  wf root -> ntok route <= length fl -> set_at root route fl 0 (IHooks hp) nm = SOk root' ->
  wf root' /\ forall e, In e (paths root') <-> In e (paths root).
Proof.
  intros root route fl hp nm root' Hw Hn Hs. split.
  - eapply wf_insert; eauto.
  - intros e. rewrite (insert_paths root route fl (IHooks hp) nm root' Hw Hn Hs). simpl. tauto.
Qed.

(* ------------------------------------------------------------------ *)
(* RadiDict.remove                                                      *)
(* ------------------------------------------------------------------ *)

(* the route string a character-level pattern stands for *)
Definition rstr (p : list pc) : str := map (fun x => match x with PC c => c | PW _ => TOKEN end) p.

Lemma rstr_app a b : rstr (a ++ b) = rstr a ++ rstr b.
Proof. apply map_app. Qed.

Lemma rstr_key_pcs k : rstr (key_pcs k) = nkey k \/ True.
Proof. now right. Qed.

Lemma rstr_key k : key_ok (nkey k) -> rstr (key_pcs k) = nkey k.
Proof.
  intros Hk. unfold key_pcs. destruct (str_eqb_spec (nkey k) tok) as [->|Hn]; [reflexivity|].
  unfold rstr. rewrite map_map. apply map_id.
Qed.

Lemma rstr_fpat p : forall fl, rstr (fpat p fl) = p.
Proof.
  induction p as [|c r IH]; intros fl; simpl; [reflexivity|].
  destruct (N.eqb_spec c TOKEN) as [->|Hc].
  - destruct fl; simpl; now rewrite IH.
  - simpl. now rewrite IH.
Qed.

(* an entry survives the removal *)
Definition keepP (wild ho : bool) (route : str) (p : list pc) : Prop :=
  ho = true \/ (if wild then prefixb route (rstr p) = false else rstr p <> route).

Lemma prefixb_app_same a : forall x y, prefixb (a ++ x) (a ++ y) = prefixb x y.
Proof.
  unfold prefixb. induction a as [|c a IH]; intros x y; simpl; [reflexivity|].
  now rewrite N.eqb_refl, IH.
Qed.

Lemma prefixb_nil_l s : prefixb [] s = true.
Proof. reflexivity. Qed.

(* two prefixes of one string are comparable *)
Lemma prefix_comparable a : forall b x, prefixb a (b ++ x) = true -> prefixb a b = true \/ prefixb b a = true.
Proof.
  unfold prefixb. induction a as [|c a IH]; intros b x H; simpl; [now left|].
  destruct b as [|d b]; [now right|]. simpl in *. apply andb_true_iff in H. destruct H as [H1 H2].
  rewrite H1. simpl. rewrite N.eqb_sym, H1. simpl. eauto.
Qed.

(* prunable = nothing held, no children, no hook *)
Lemma prunable_paths n : prunable n = true -> paths n = [].
Proof. destruct n as [key [d|] nm f [h|] [|k ks]]; simpl; try discriminate; reflexivity. Qed.

Lemma tok_last_del c ks : tok_last ks -> tok_last (del_head c ks).
Proof.
  induction ks as [|k ks IH]; simpl; [auto|]. intros Hl.
  destruct (head_is k c).
  - destruct ks as [|k2 ks2]; [exact I | apply Hl].
  - destruct ks as [|k2 ks2]; [exact I|]. destruct Hl as [Hn Hl]. specialize (IH Hl).
    simpl in *. destruct (head_is k2 c).
    + destruct ks2 as [|k3 ks3]; [exact I|]. split; [exact Hn | apply Hl].
    + destruct (del_head c ks2) eqn:E.
      * split; [exact Hn | exact IH].
      * split; [exact Hn | exact IH].
Qed.

Lemma del_head_incl c ks : forall k, In k (del_head c ks) -> In k ks.
Proof.
  induction ks as [|k0 ks IH]; simpl; [tauto|]. intros k. destruct (head_is k0 c); [tauto|].
  intros [->|H]; [now left | right; auto].
Qed.

Lemma del_head_nodup c ks : NoDup (map khead ks) -> NoDup (map khead (del_head c ks)).
Proof.
  induction ks as [|k ks IH]; simpl; [auto|]. intros H. inversion H as [|? ? Hn Hd]; subst.
  destruct (head_is k c); [exact Hd|]. simpl. constructor; [|auto].
  intros Hin. apply Hn. apply in_map_iff in Hin. destruct Hin as (x & Hx & Hin).
  apply in_map_iff. exists x. split; [exact Hx | now apply (del_head_incl c ks)].
Qed.

(* deleting the child with head c: the others stay *)
Lemma del_head_spec c ks k :
  Forall (fun k => key_ok (nkey k)) ks -> NoDup (map khead ks) -> In k ks -> khead k = c ->
  forall x, In x (del_head c ks) <-> In x ks /\ x <> k.
Proof.
  induction ks as [|k0 ks IH]; intros Hok Hnd Hin Hh x; [destruct Hin|]. subst c. simpl.
  inversion Hok as [|? ? Hk0 Hoks]; subst. inversion Hnd as [|? ? Hn Hd]; subst.
  destruct (head_is k0 (khead k)) eqn:E.
  - apply head_is_khead in E; [|apply Hk0].
    assert (k0 = k).
    { destruct Hin as [->|Hin]; [reflexivity|]. exfalso. apply Hn. rewrite E. now apply in_map. }
    subst k0. split.
    + intros Hx. split; [now right|]. intros ->. apply Hn. now apply in_map.
    + intros [[->|Hx] Hne]; [contradiction | exact Hx].
  - assert (Hne0 : k0 <> k).
    { intros ->. assert (head_is k (khead k) = true) by (apply head_is_khead; [apply Hk0 | reflexivity]). congruence. }
    destruct Hin as [->|Hin]; [contradiction|]. simpl. rewrite (IH Hoks Hd Hin eq_refl x). split.
    + intros [->|[Hx Hne]]; [split; [now left | exact Hne0] | split; [now right | exact Hne]].
    + intros [[->|Hx] Hne]; [now left | right; auto].
Qed.

Lemma wf_kids_del c ks :
  kids_ok ks -> kids_ok (del_head c ks).
Proof.
  intros (H1 & H2 & H3 & H4). split; [|split; [|split]].
  - rewrite Forall_forall in *. intros x Hx. apply H1. now apply (del_head_incl c ks).
  - rewrite Forall_forall in *. intros x Hx. apply H2. now apply (del_head_incl c ks).
  - now apply del_head_nodup.
  - now apply tok_last_del.
Qed.

(* _try_merge keeps what the node contributes to its parent *)
Lemma try_merge_spec p :
  wf p -> key_ok (nkey p) ->
  wf (try_merge false p) /\ key_ok (nkey (try_merge false p)) /\
  khead (try_merge false p) = khead p /\ kid_entries (try_merge false p) = kid_entries p.
Proof.
  intros Hw Hk. destruct p as [key d nm f h kids]. unfold try_merge.
  assert (Triv : wf (Node key d nm f h kids) /\ key_ok (nkey (Node key d nm f h kids)) /\
                 khead (Node key d nm f h kids) = khead (Node key d nm f h kids) /\
                 kid_entries (Node key d nm f h kids) = kid_entries (Node key d nm f h kids))
    by (split; [exact Hw|]; split; [exact Hk|]; split; reflexivity).
  destruct kids as [|c [|c2 ks]]; try exact Triv.
  destruct d; [exact Triv|]. destruct h; [exact Triv|].
  destruct (str_eqb key tok || head_is c TOKEN) eqn:E; [exact Triv|]. clear Triv.
  apply orb_false_iff in E. destruct E as [E1 E2].
  apply wf_inv in Hw. destruct Hw as (W1 & W2 & W3 & W4).
  inversion W1 as [|? ? Hwc _]; subst. inversion W2 as [|? ? Hkc _]; subst. simpl in Hk.
  assert (Hkt : key <> tok) by (intros ->; now rewrite str_eqb_refl in E1).
  assert (Hklit : ~ In TOKEN key) by (destruct Hk as [_ [E|E]]; [contradiction | exact E]).
  assert (Hct : nkey c <> tok).
  { intros Ht. assert (head_is c TOKEN = true) by (apply head_is_khead; [apply Hkc | unfold khead; now rewrite Ht]). congruence. }
  assert (Hclit : ~ In TOKEN (nkey c)) by (destruct Hkc as [_ [E|E]]; [contradiction | exact E]).
  assert (Hml : ~ In TOKEN (key ++ nkey c)) by (rewrite in_app_iff; tauto).
  assert (Hmne : key ++ nkey c <> []) by (destruct Hk as [Hne _]; destruct key; [contradiction | discriminate]).
  split; [now apply wf_set_key|]. rewrite nkey_set_key. split; [split; auto|].
  split; [unfold khead; rewrite nkey_set_key; simpl; destruct Hk as [Hne _]; destruct key; [contradiction | reflexivity]|].
  assert (Hp : paths (Node key None nm f None [c]) = kid_entries c).
  { rewrite paths_node. simpl. unfold kids_entries. simpl. now rewrite app_nil_r. }
    unfold kid_entries at 1 2. rewrite Hp, paths_set_key. unfold kid_entries. rewrite map_pre_pre.
    rewrite (key_pcs_lit (set_key c (key ++ nkey c))) by (rewrite nkey_set_key; auto).
    rewrite (key_pcs_lit (Node key None nm f None [c])) by (simpl; auto; apply Hk).
    rewrite (key_pcs_lit c) by (auto; apply Hkc). rewrite nkey_set_key. simpl nkey. now rewrite map_app.
Qed.

(* ---- the node _match returned ---- *)
Lemma kids_entries_nonempty ks e :
  Forall (fun k => key_ok (nkey k)) ks -> In e (kids_entries ks) -> fst e <> [].
Proof.
  intros Hok Hin. destruct e as [p x]. apply in_kids_entries in Hin. destruct Hin as (k & Hk & Hin).
  rewrite Forall_forall in Hok. destruct (kid_entry_first k p x (Hok k Hk) Hin) as [[_ [p0 ->]]|[_ [p0 ->]]]; discriminate.
Qed.

Lemma rm_target_spec cut ho n :
  wf n -> cut && ho = false ->
  exists n', (rm_target cut ho n = RmKeep n' /\ prunable n' = false \/
              rm_target cut ho n = RmPrune n' /\ prunable n' = true) /\
             wf n' /\ nkey n' = nkey n /\ nflt n' = nflt n /\
             forall e, In e (paths n') <-> In e (paths n) /\ (ho = true \/ (cut = false /\ fst e <> [])).
Proof.
  destruct n as [key d nm f h ks]. intros Hw Hch. apply wf_inv in Hw. destruct Hw as (W1 & W2 & W3 & W4).
  unfold rm_target.
  assert (Hfin : forall h' ks1 (Hks1 : ks1 = (if cut then [] else ks)),
            exists n', ((if prunable (Node key None [] f h' ks1) then RmPrune (Node key None [] f h' ks1)
                         else RmKeep (Node key None [] f h' ks1)) = RmKeep n' /\ prunable n' = false \/
                        (if prunable (Node key None [] f h' ks1) then RmPrune (Node key None [] f h' ks1)
                         else RmKeep (Node key None [] f h' ks1)) = RmPrune n' /\ prunable n' = true) /\
                       n' = Node key None [] f h' ks1).
  { intros h' ks1 _. exists (Node key None [] f h' ks1). split; [|reflexivity].
    destruct (prunable (Node key None [] f h' ks1)) eqn:E; [right | left]; auto. }
  assert (Hwf1 : forall h' ks1, ks1 = (if cut then [] else ks) -> wf (Node key None [] f h' ks1)).
  { intros h' ks1 ->. destruct cut; constructor; auto; constructor. }
  destruct ho.
  - (* hooks only *)
    destruct cut; [discriminate|]. destruct d as [x|].
    + exists (Node key (Some x) nm f None ks). split; [left; split; reflexivity|].
      split; [now constructor|]. repeat split; auto; tauto.
    + destruct (Hfin None ks eq_refl) as (n' & Hn' & ->). exists (Node key None [] f None ks).
      split; [exact Hn'|]. split; [now apply Hwf1|]. repeat split; auto; try tauto;
        rewrite !paths_node in *; simpl in *; tauto.
  - destruct (Hfin h (if cut then [] else ks) eq_refl) as (n' & Hn' & ->).
    exists (Node key None [] f h (if cut then [] else ks)). split; [exact Hn'|].
    split; [now apply Hwf1|]. split; [reflexivity|]. split; [reflexivity|].
    intros e. rewrite !paths_node. simpl app. destruct cut.
    + simpl. split; [intros [] | intros (_ & [E|[E _]]); discriminate].
    + split.
      * intros Hin. split; [apply in_or_app; now right|]. right. split; [reflexivity|].
        eapply kids_entries_nonempty; eauto.
      * intros (Hin & [E|[_ Hne]]); [discriminate|]. apply in_app_or in Hin. destruct Hin as [Hin|Hin]; [|exact Hin].
        destruct d; [|destruct Hin]. destruct Hin as [<-|[]]. now elim Hne.
Qed.

(* ---- one child ---- *)
Definition rmk_ok (k : node) (wild ho : bool) (route : str) (r : rmres) : Prop :=
  match r with
  | RmNone => forall e0, In e0 (paths k) -> keepP wild ho route (key_pcs k ++ fst e0)
  | RmKeep k' =>
    wf k' /\ key_ok (nkey k') /\ khead k' = khead k /\
    forall e, In e (kid_entries k') <->
              exists e0, In e0 (paths k) /\ keepP wild ho route (key_pcs k ++ fst e0) /\ e = pre (key_pcs k) e0
  | RmPrune k' =>
    wf k' /\ nkey k' <> [] /\ khead k' = khead k /\ prunable k' = true /\
    forall e0, In e0 (paths k) -> ~ keepP wild ho route (key_pcs k ++ fst e0)
  end.

(* the statement for a node seen from its parent: [route] is what is left of
   the pattern below this node's key *)
Definition rmn_ok (k : node) (wild ho : bool) (route : str) (r : rmres) : Prop :=
  match r with
  | RmNone => forall e0, In e0 (paths k) -> keepP wild ho route (fst e0)
  | RmKeep k' =>
    wf k' /\ key_ok (nkey k') /\ khead k' = khead k /\
    forall e, In e (kid_entries k') <->
              exists e0, In e0 (paths k) /\ keepP wild ho route (fst e0) /\ e = pre (key_pcs k) e0
  | RmPrune k' =>
    wf k' /\ nkey k' <> [] /\ khead k' = khead k /\ prunable k' = true /\
    forall e0, In e0 (paths k) -> ~ keepP wild ho route (fst e0)
  end.

Lemma keepP_shift k wild ho r p0 :
  key_ok (nkey k) ->
  (keepP wild ho (nkey k ++ r) (key_pcs k ++ p0) <-> keepP wild ho r p0).
Proof.
  intros Hk. unfold keepP. rewrite rstr_app, (rstr_key k Hk). destruct wild.
  - now rewrite prefixb_app_same.
  - split; intros [H|H]; auto; right; intros E; apply H; [now rewrite E | now apply app_inv_head in E].
Qed.

Lemma rm_kid_ok rec k wild ho c0 r :
  wf k -> key_ok (nkey k) -> khead k = c0 -> wild && ho = false ->
  (forall route', rmn_ok k wild ho route' (rec k route')) ->
  rmk_ok k wild ho (c0 :: r) (rm_kid rec wild ho k (c0 :: r)).
Proof.
  intros Hw Hk Hh Hwh IH. unfold rm_kid. set (route := c0 :: r).
  destruct (prefixb (nkey k) route) eqn:Ep.
  - pose proof (prefixb_split _ _ Ep) as Hs. specialize (IH (skipn (length (nkey k)) route)).
    destruct (rec k (skipn (length (nkey k)) route)) as [|k'|k']; simpl in *.
    + intros e0 Hin. rewrite Hs. apply keepP_shift; auto.
    + destruct IH as (A & B & C & D). split; [exact A|]. split; [exact B|]. split; [exact C|].
      intros e. split.
      * intros He. apply D in He. destruct He as (e0 & H1 & H2 & H3). exists e0. split; [exact H1|].
        split; [rewrite Hs; now apply keepP_shift | exact H3].
      * intros (e0 & H1 & H2 & H3). apply D. exists e0. split; [exact H1|]. split; [|exact H3].
        rewrite Hs in H2. now apply keepP_shift in H2.
    + destruct IH as (A & B & C & D & E). split; [exact A|]. split; [exact B|]. split; [exact C|].
      split; [exact D|].
      intros e0 Hin Hkeep. apply (E e0 Hin). rewrite Hs in Hkeep. now apply keepP_shift in Hkeep.
  - destruct (wild && prefixb route (nkey k)) eqn:Ew.
    + (* prefix removal: the pattern ends inside this key *)
      apply andb_true_iff in Ew. destruct Ew as [-> Epk]. simpl in Hwh. subst ho.
      destruct (rm_target_spec true false k Hw eq_refl) as (k' & Hr & A & B & C & D).
      assert (Hall : forall e0, In e0 (paths k) -> ~ keepP true false route (key_pcs k ++ fst e0)).
      { intros e0 _ [E|E]; [discriminate|]. rewrite rstr_app, (rstr_key k Hk) in E.
        apply prefixb_spec in Epk. destruct Epk as [t Ht]. rewrite Ht, <- app_assoc in E.
        now rewrite prefixb_app in E. }
      destruct Hr as [[-> Hp]|[-> Hp]]; simpl.
      * split; [exact A|]. split; [now rewrite B|]. split; [unfold khead; now rewrite B|].
        intros e. split.
        -- intros He. destruct e as [pe xe]. apply in_kid_entries in He. destruct He as (p0 & -> & Hp0). apply D in Hp0.
           destruct Hp0 as (_ & [E|[E _]]); discriminate.
        -- intros (e0 & H1 & H2 & _). exfalso. eapply Hall; eauto.
      * split; [exact A|]. split; [rewrite B; apply Hk|]. split; [unfold khead; now rewrite B|].
        split; [exact Hp | exact Hall].
    + (* mismatch: nothing below is touched *)
      simpl. intros e0 Hin. unfold keepP. rewrite rstr_app, (rstr_key k Hk). right. destruct wild.
      * cbn [andb] in Ew. destruct (prefixb route (nkey k ++ rstr (fst e0))) eqn:E; [|reflexivity].
        destruct (prefix_comparable _ _ _ E) as [E2|E2]; rewrite E2 in *; discriminate.
      * intros E. rewrite <- E in Ep. now rewrite prefixb_app in Ep.
Qed.

(* ---- the children loop ---- *)
Lemma rm_go_spec rec wild ho c0 route ks :
  Forall (fun k => key_ok (nkey k)) ks ->
  match rm_go rec wild ho c0 route ks with
  | None => forall k, In k ks -> khead k <> c0
  | Some (r, rb) =>
    exists pre k post, ks = pre ++ k :: post /\ (forall x, In x pre -> khead x <> c0) /\ khead k = c0 /\
                       r = rm_kid rec wild ho k route /\ forall k', rb k' = pre ++ k' :: post
  end.
Proof.
  induction ks as [|k ks IH]; intros Hok; simpl; [tauto|].
  inversion Hok as [|? ? Hk Hoks]; subst. destruct (head_is k c0) eqn:E.
  - exists [], k, ks. simpl. repeat split; auto. apply head_is_khead; [apply Hk | exact E].
  - specialize (IH Hoks).
    assert (Hne : khead k <> c0) by (intros E2; apply head_is_khead in E2; [congruence | apply Hk]).
    destruct (rm_go rec wild ho c0 route ks) as [[r rb]|].
    + destruct IH as (pre & k1 & post & -> & H1 & H2 & H3 & H4). exists (k :: pre), k1, post. simpl.
      repeat split; auto; [intros x [<-|Hx]; auto | intros k'; now rewrite H4].
    + intros x [<-|Hx]; auto.
Qed.

Lemma other_kid_kept x wild ho c0 r p e :
  key_ok (nkey x) -> khead x <> c0 -> In (p, e) (kid_entries x) -> keepP wild ho (c0 :: r) p.
Proof.
  intros Hk Hh Hin. apply in_kid_entries in Hin. destruct Hin as (p0 & -> & _).
  unfold keepP. right. rewrite rstr_app, (rstr_key x Hk). unfold khead in Hh.
  destruct (nkey x) as [|y s]; [destruct Hk; contradiction|]. simpl in Hh. destruct wild.
  - unfold prefixb. simpl. destruct (N.eqb_spec c0 y); [congruence | reflexivity].
  - simpl. intros E. injection E as E _. congruence.
Qed.

Lemma own_kept wild ho c0 r : keepP wild ho (c0 :: r) [].
Proof. right. destruct wild; [reflexivity | discriminate]. Qed.

(* ---- a node after its children have been processed ---- *)
Definition kept (wild ho : bool) (route : str) (es' es : list entry) : Prop :=
  forall e, In e es' <-> In e es /\ keepP wild ho route (fst e).

Lemma kids_entries_split pre k post :
  forall e, In e (kids_entries (pre ++ k :: post)) <->
            In e (kids_entries pre) \/ In e (kid_entries k) \/ In e (kids_entries post).
Proof. intros e. rewrite kids_entries_app, kids_entries_cons, !in_app_iff. tauto. Qed.

Lemma kids_ok_replace pre k k' post :
  kids_ok (pre ++ k :: post) -> wf k' -> key_ok (nkey k') -> khead k' = khead k ->
  kids_ok (pre ++ k' :: post).
Proof.
  intros (H1 & H2 & H3 & H4) Hw Hk Hh.
  assert (Hm : map khead (pre ++ k :: post) = map khead (pre ++ k' :: post))
    by (rewrite !map_app; simpl; now rewrite Hh).
  split; [|split; [|split]].
  - apply Forall_app in H1. destruct H1 as [A B]. inversion B; subst. apply Forall_app. split; auto.
  - apply Forall_app in H2. destruct H2 as [A B]. inversion B; subst. apply Forall_app. split; auto.
  - now rewrite <- Hm.
  - eapply tok_last_heads; eauto.
Qed.

Lemma node_rm key d nm f h kids wild ho c0 r rec :
  wf (Node key d nm f h kids) -> wild && ho = false ->
  (forall k, In k kids -> khead k = c0 -> rmk_ok k wild ho (c0 :: r) (rm_kid rec wild ho k (c0 :: r))) ->
  let n := Node key d nm f h kids in
  match rm_go rec wild ho c0 (c0 :: r) kids with
  | None | Some (RmNone, _) => forall e0, In e0 (paths n) -> keepP wild ho (c0 :: r) (fst e0)
  | Some (RmKeep k', rb) =>
    wf (Node key d nm f h (rb k')) /\ kept wild ho (c0 :: r) (paths (Node key d nm f h (rb k'))) (paths n)
  | Some (RmPrune k', _) =>
    let n0 := Node key d nm f h (match nkey k' with c :: _ => del_head c kids | [] => kids end) in
    wf n0 /\ kept wild ho (c0 :: r) (paths n0) (paths n)
  end.
Proof.
  intros Hw Hwh Hkid n. pose proof (wf_inv _ _ _ _ _ _ Hw) as (W1 & W2 & W3 & W4).
  pose proof (rm_go_spec rec wild ho c0 (c0 :: r) kids W2) as Hgo.
  assert (Hown : forall e0, In e0 (match d with Some x => [([], (x, nm))] | None => [] end) ->
                            keepP wild ho (c0 :: r) (fst e0)).
  { intros e0 Hin. destruct d; [|destruct Hin]. destruct Hin as [<-|[]]. apply own_kept. }
  assert (Hothers : forall ks, (forall x, In x ks -> In x kids /\ khead x <> c0) ->
                               forall e0, In e0 (kids_entries ks) -> keepP wild ho (c0 :: r) (fst e0)).
  { intros ks Hks [p x0] Hin. apply in_kids_entries in Hin. destruct Hin as (x & Hx & Hin).
    destruct (Hks x Hx) as (Hxk & Hxh). rewrite Forall_forall in W2.
    eapply other_kid_kept; eauto. }
  destruct (rm_go rec wild ho c0 (c0 :: r) kids) as [[res rb]|].
  - destruct Hgo as (pre & k & post & Hsplit & Hpre & Hkh & -> & Hrb).
    assert (Hkin : In k kids) by (rewrite Hsplit; apply in_or_app; right; now left).
    specialize (Hkid k Hkin Hkh).
    assert (Hpost : forall x, In x post -> khead x <> c0).
    { intros x Hx E. rewrite Hsplit, map_app in W3. simpl in W3. apply NoDup_remove_2 in W3.
      apply W3. apply in_or_app. right. rewrite Hkh, <- E. now apply in_map. }
    assert (Hpre_k : forall e0, In e0 (kids_entries pre) -> keepP wild ho (c0 :: r) (fst e0)).
    { apply Hothers. intros x Hx. split; [rewrite Hsplit; apply in_or_app; now left | now apply Hpre]. }
    assert (Hpost_k : forall e0, In e0 (kids_entries post) -> keepP wild ho (c0 :: r) (fst e0)).
    { apply Hothers. intros x Hx. split; [rewrite Hsplit; apply in_or_app; right; now right | now apply Hpost]. }
    assert (Hk_entries : forall e, In e (kid_entries k) <-> exists e0, In e0 (paths k) /\ e = C01_get.pre (key_pcs k) e0).
    { intros e. unfold kid_entries. rewrite in_map_iff. split; intros (e0 & A & B); exists e0; auto. }
    destruct (rm_kid rec wild ho k (c0 :: r)) as [|k'|k']; simpl in Hkid.
    + (* nothing below was touched *)
      intros e0 Hin. unfold n in Hin. rewrite paths_node in Hin. apply in_app_or in Hin.
      destruct Hin as [Hin|Hin]; [now apply Hown|]. rewrite Hsplit in Hin. apply kids_entries_split in Hin.
      destruct Hin as [Hin|[Hin|Hin]]; [now apply Hpre_k | | now apply Hpost_k].
      apply Hk_entries in Hin. destruct Hin as (e1 & A & ->). simpl. now apply Hkid.
    + destruct Hkid as (A & B & C & D). rewrite Hrb. split.
      * destruct (kids_ok_replace pre k k' post) as (K1 & K2 & K3 & K4); auto.
        { rewrite <- Hsplit. repeat split; auto. }
        now constructor.
      * intros e. unfold n. rewrite !paths_node, !in_app_iff, Hsplit.
        rewrite (kids_entries_split pre k' post e), (kids_entries_split pre k post e). rewrite (D e). split.
        -- intros [H|[H|[H|H]]].
           ++ split; [now left | now apply Hown].
           ++ split; [right; now left | now apply Hpre_k].
           ++ destruct H as (e0 & H1 & H2 & ->). split; [|exact H2]. right. right. left.
              apply Hk_entries. eauto.
           ++ split; [right; right; now right | now apply Hpost_k].
        -- intros ([H|[H|[H|H]]] & Hkeep); auto.
           right. right. left. apply Hk_entries in H. destruct H as (e0 & H1 & ->). eauto.
    + destruct Hkid as (A & B & C & D & E).
      assert (Hhd : match nkey k' with c :: _ => del_head c kids | [] => kids end = del_head (khead k) kids).
      { unfold khead in C. destruct (nkey k') as [|c s]; [contradiction|]. simpl in C. now rewrite C. }
      rewrite Hhd.
      assert (Hdel : forall x, In x (del_head (khead k) kids) <-> In x kids /\ x <> k)
        by (apply del_head_spec; auto).
      split.
      * destruct (wf_kids_del (khead k) kids) as (K1 & K2 & K3 & K4); [repeat split; auto|]. now constructor.
      * intros e. unfold n. rewrite !paths_node, !in_app_iff. split.
        -- intros [H|H]; [split; [now left | now apply Hown]|].
           destruct e as [p x0]. apply in_kids_entries in H. destruct H as (x & Hx & H). apply Hdel in Hx.
           destruct Hx as (Hxk & Hne). split; [right; apply in_kids_entries; eauto|].
           simpl. rewrite Forall_forall in W2. eapply other_kid_kept; eauto.
           intros Eh. apply Hne. rewrite Hsplit in Hxk. apply in_app_or in Hxk.
           destruct Hxk as [Hxk|[Hxk|Hxk]]; [exfalso; now apply (Hpre x) | now symmetry | exfalso; now apply (Hpost x)].
        -- intros ([H|H] & Hkeep); [now left|]. right. destruct e as [p x0]. apply in_kids_entries in H.
           destruct H as (x & Hx & H). apply in_kids_entries. exists x. split; [|exact H]. apply Hdel.
           split; [exact Hx|]. intros ->. apply Hk_entries in H. destruct H as (e0 & H1 & H2).
           apply (E e0 H1). injection H2 as -> _. exact Hkeep.
  - intros e0 Hin. unfold n in Hin. rewrite paths_node in Hin. apply in_app_or in Hin.
    destruct Hin as [Hin|Hin]; [now apply Hown|]. revert Hin. apply Hothers. intros x Hx. split; auto.
Qed.

Lemma keepP_nil_iff wild ho p : keepP wild ho [] p <-> (ho = true \/ (wild = false /\ p <> [])).
Proof.
  unfold keepP. destruct wild; simpl.
  - split; intros [H|H]; auto; [discriminate | destruct H; discriminate].
  - split; intros [H|H]; auto; right.
    + split; [reflexivity|]. intros ->. now apply H.
    + destruct H as [_ H]. intros E. apply H. destruct p; [reflexivity | discriminate].
Qed.

(* a node seen from its parent *)
Lemma rm_at_kid_ok : forall k, wf k -> key_ok (nkey k) -> forall wild ho, wild && ho = false ->
  forall route, rmn_ok k wild ho route (rm_at false wild ho k route).
Proof.
  induction k as [key d nm f h kids IH] using node_ind'. intros Hw Hk wild ho Hwh route.
  pose proof (wf_inv _ _ _ _ _ _ Hw) as (W1 & W2 & W3 & W4).
  destruct route as [|c0 r].
  - (* the target *)
    cbn [rm_at]. destruct (rm_target_spec wild ho _ Hw Hwh) as (n' & Hr & A & B & C & D).
    assert (Hkp : key_pcs n' = key_pcs (Node key d nm f h kids)) by (now apply kid_entries_same_key).
    assert (D' : forall e, In e (paths n') <-> In e (paths (Node key d nm f h kids)) /\ keepP wild ho [] (fst e)).
    { intros e. rewrite D, keepP_nil_iff. tauto. }
    destruct Hr as [[-> Hp]|[-> Hp]]; simpl.
    + split; [exact A|]. split; [now rewrite B|]. split; [unfold khead; now rewrite B|].
      intros e. unfold kid_entries. rewrite Hkp, in_map_iff. split.
      * intros (e0 & <- & H). apply D' in H. destruct H. eauto.
      * intros (e0 & H1 & H2 & ->). exists e0. split; [reflexivity|]. apply D'. auto.
    + split; [exact A|]. split; [rewrite B; apply Hk|]. split; [unfold khead; now rewrite B|].
      split; [exact Hp|]. intros e0 Hin Hkeep.
      assert (In e0 (paths n')) by (apply D'; auto). rewrite (prunable_paths _ Hp) in H. destruct H.
  - cbn [rm_at].
    assert (Hkid : forall k, In k kids -> khead k = c0 ->
                     rmk_ok k wild ho (c0 :: r) (rm_kid (fun k r => rm_at false wild ho k r) wild ho k (c0 :: r))).
    { intros k Hkin Hh. rewrite Forall_forall in IH, W1, W2. apply rm_kid_ok; auto;
      intros route'; apply IH; auto. }
    pose proof (node_rm key d nm f h kids wild ho c0 r _ Hw Hwh Hkid) as Hn. cbv zeta in Hn.
    destruct (rm_go _ wild ho c0 (c0 :: r) kids) as [[[|k'|k'] rb]|]; cbv beta iota zeta.
    + exact Hn.
    + destruct Hn as (A & B). cbn [rmn_ok]. split; [exact A|]. split; [exact Hk|]. split; [reflexivity|].
      intros e. unfold kid_entries. rewrite in_map_iff.
      assert (Hkp : key_pcs (Node key d nm f h (rb k')) = key_pcs (Node key d nm f h kids)) by reflexivity.
      rewrite Hkp. split.
      * intros (e0 & <- & H). apply B in H. destruct H. eauto.
      * intros (e0 & H1 & H2 & ->). exists e0. split; [reflexivity|]. apply B. auto.
    + destruct Hn as (A & B).
      set (n0 := Node key d nm f h (match nkey k' with c :: _ => del_head c kids | [] => kids end)) in *.
      destruct (try_merge_spec n0 A Hk) as (M1 & M2 & M3 & M4).
      assert (Hn0 : forall e, In e (kid_entries n0) <->
                exists e0, In e0 (paths (Node key d nm f h kids)) /\ keepP wild ho (c0 :: r) (fst e0) /\
                           e = C01_get.pre (key_pcs (Node key d nm f h kids)) e0).
      { intros e. unfold kid_entries. rewrite in_map_iff.
        assert (Hkp : key_pcs n0 = key_pcs (Node key d nm f h kids)) by reflexivity. rewrite Hkp. split.
        - intros (e0 & <- & H). apply B in H. destruct H. eauto.
        - intros (e0 & H1 & H2 & ->). exists e0. split; [reflexivity|]. apply B. auto. }
      destruct (prunable (try_merge false n0)) eqn:Ep; cbn [rmn_ok].
      * split; [exact M1|]. split; [apply M2|]. split; [exact M3|]. split; [exact Ep|].
        intros e0 Hin Hkeep.
        assert (Hin' : In (C01_get.pre (key_pcs (Node key d nm f h kids)) e0) (kid_entries n0)) by (apply Hn0; eauto).
        rewrite <- M4 in Hin'. unfold kid_entries in Hin'. rewrite (prunable_paths _ Ep) in Hin'. destruct Hin'.
      * split; [exact M1|]. split; [exact M2|]. split; [exact M3|]. intros e. rewrite M4. apply Hn0.
    + exact Hn.
Qed.

(* RadiDict.remove on the whole tree *)
Lemma rm_root_ok : forall root wild ho route, wf root -> wild && ho = false ->
  match rm_at true wild ho root route with
  | RmNone => forall e0, In e0 (paths root) -> keepP wild ho route (fst e0)
  | RmKeep r' | RmPrune r' => wf r' /\ kept wild ho route (paths r') (paths root)
  end.
Proof.
  intros [key d nm f h kids] wild ho route Hw Hwh.
  pose proof (wf_inv _ _ _ _ _ _ Hw) as (W1 & W2 & W3 & W4).
  destruct route as [|c0 r].
  - cbn [rm_at]. destruct (rm_target_spec wild ho _ Hw Hwh) as (n' & Hr & A & B & C & D).
    assert (D' : kept wild ho [] (paths n') (paths (Node key d nm f h kids))).
    { intros e. rewrite D, keepP_nil_iff. tauto. }
    destruct Hr as [[-> Hp]|[-> Hp]]; auto.
  - cbn [rm_at].
    assert (Hkid : forall k, In k kids -> khead k = c0 ->
                     rmk_ok k wild ho (c0 :: r) (rm_kid (fun k r => rm_at false wild ho k r) wild ho k (c0 :: r))).
    { intros k Hkin Hh. rewrite Forall_forall in W1, W2. apply rm_kid_ok; auto;
      intros route'; apply rm_at_kid_ok; auto. }
    pose proof (node_rm key d nm f h kids wild ho c0 r _ Hw Hwh Hkid) as Hn. cbv zeta in Hn.
    destruct (rm_go _ wild ho c0 (c0 :: r) kids) as [[[|k'|k'] rb]|]; cbv beta iota zeta; auto.
    assert (Hm : forall p, try_merge true p = p).
    { intros [k0 d0 n0 f0 h0 [|c [|c2 ks]]]; reflexivity. }
    rewrite Hm. destruct (prunable _); exact Hn.
Qed.

Theorem remove_lemma : forall root pattern ho exact root',
  wf root -> rd_remove root pattern ho exact = Some root' ->
  wf root' /\
  forall e, In e (paths root') <->
            In e (paths root) /\
            keepP (ends_star pattern && negb exact) ho
                  (if ends_star pattern && negb exact then removelast pattern else pattern) (fst e).
Proof.
  intros root pattern ho exact root' Hw. unfold rd_remove.
  set (wild := ends_star pattern && negb exact). set (p := if wild then removelast pattern else pattern).
  destruct (wild && ho) eqn:Ewh; [discriminate|].
  pose proof (rm_root_ok root wild ho p Hw Ewh) as H.
  destruct (rm_at true wild ho root p) as [|r'|r']; intros [= <-].
  - split; [exact Hw|]. intros e. split; [intros Hin; split; auto | tauto].
  - exact H.
  - exact H.
Qed.

(* ------------------------------------------------------------------ *)
(* every operation keeps tree, heap and routes index in step            *)
(* ------------------------------------------------------------------ *)

Lemma al_get_filter {B} (l : list (str * B)) (keep : str -> bool) k :
  al_get (filter (fun kv => keep (fst kv)) l) k = if keep k then al_get l k else None.
Proof.
  induction l as [|[k0 v0] l IH]; simpl; [now destruct (keep k)|].
  destruct (keep k0) eqn:E0; simpl.
  - destruct (str_eqb_spec k0 k) as [->|Hn]; [now rewrite E0 | exact IH].
  - destruct (str_eqb_spec k0 k) as [->|Hn]; [now rewrite IH, E0 | exact IH].
Qed.

Lemma nodup_filter_keys {B} (l : list (str * B)) (keep : str * B -> bool) :
  NoDup (map fst l) -> NoDup (map fst (filter keep l)).
Proof.
  induction l as [|[k0 v0] l IH]; simpl; intros H; [constructor|]. inversion H as [|? ? Hn Hd]; subst.
  destruct (keep (k0, v0)); simpl; [|auto]. constructor; [|auto].
  intros Hin. apply Hn. apply in_map_iff in Hin. destruct Hin as (x & Hx & Hin). apply filter_In in Hin.
  apply in_map_iff. exists x. tauto.
Qed.

(* removing index entries by a predicate on the pattern, together with the same
   removal in the tree *)
Lemma Inv_remove_keys R t' (gone : str -> bool) nmd :
  Inv R -> wf t' ->
  (forall e, In e (paths t') <-> In e (paths (tree R)) /\ gone (rstr (fst e)) = false) ->
  Inv (mkRouter t' (heap R) (filter (fun kv => negb (gone (fst kv))) (routes R)) nmd (hooks_idx R)).
Proof.
  intros [I1 I2 I3 I4] Hw Hp. constructor; simpl.
  - exact Hw.
  - intros e. rewrite Hp, I2. split.
    + intros ((p & d & rt & A & B & C) & Hg). exists p, d, rt. split; [|auto].
      rewrite (al_get_filter (routes R) (fun k => negb (gone k)) p). subst e. unfold entry_of in Hg. simpl in Hg.
      rewrite rstr_fpat in Hg. now rewrite Hg.
    + intros (p & d & rt & A & B & C). rewrite (al_get_filter (routes R) (fun k => negb (gone k)) p) in A.
      destruct (gone p) eqn:Eg; [discriminate|]. simpl in A. split; [eauto 6|].
      subst e. unfold entry_of. simpl. now rewrite rstr_fpat.
  - intros p d A. rewrite (al_get_filter (routes R) (fun k => negb (gone k)) p) in A.
    destruct (negb (gone p)); [auto | discriminate].
  - now apply nodup_filter_keys.
Qed.

Lemma al_del_filter {B} (l : list (str * B)) k :
  al_del l k = filter (fun kv => negb ((fun p => str_eqb p k) (fst kv))) l.
Proof. reflexivity. Qed.

Lemma Inv_named R nmd : Inv R -> Inv (mkRouter (tree R) (heap R) (routes R) nmd (hooks_idx R)).
Proof. intros H. apply (Inv_same_core R); auto. Qed.

Lemma keepP_exact pattern p : keepP false false pattern p <-> str_eqb (rstr p) pattern = false.
Proof.
  unfold keepP. split.
  - intros [H|H]; [discriminate|]. destruct (str_eqb_spec (rstr p) pattern); [contradiction | reflexivity].
  - intros H. right. intros E. rewrite E, str_eqb_refl in H. discriminate.
Qed.

Lemma Inv_rt_remove_pattern R pattern : Inv R -> Inv (fst (rt_remove_pattern R pattern)).
Proof.
  intros HI. unfold rt_remove_pattern.
  destruct (rd_remove (tree R) pattern false false) as [t'|] eqn:Er; [|exact HI].
  destruct (remove_lemma _ _ _ _ _ (inv_wf R HI) Er) as (Hw & Hp). rewrite andb_true_r in Hp.
  destruct (ends_star pattern) eqn:Es; simpl.
  - apply (Inv_remove_keys R t' (fun p => prefixb (removelast pattern) p)); auto.
    intros e. rewrite Hp. unfold keepP. split; intros (A & B); split; auto.
    destruct B as [B|B]; [discriminate | exact B].
  - rewrite al_del_filter. apply (Inv_remove_keys R t' (fun p => str_eqb p pattern)); auto.
    intros e. rewrite Hp, keepP_exact. tauto.
Qed.

Lemma Inv_rt_remove_name R nme : Inv R -> Inv (fst (rt_remove_name R nme)).
Proof.
  intros HI. unfold rt_remove_name. destruct (al_get (named R) nme) as [d|]; [|exact HI].
  destruct (pattern_of_rid R d) as [pattern|]; [|exact HI].
  destruct (rd_remove (tree R) pattern false true) as [t'|] eqn:Er; [|now apply Inv_named].
  destruct (remove_lemma _ _ _ _ _ (inv_wf R HI) Er) as (Hw & Hp).
  rewrite andb_false_r in Hp.
  assert (Hp' : forall e, In e (paths t') <-> In e (paths (tree R)) /\ str_eqb (rstr (fst e)) pattern = false).
  { intros e. rewrite Hp, keepP_exact. tauto. }
  destruct (al_get (routes R) pattern) as [d0|] eqn:Eg; simpl.
  - rewrite al_del_filter. apply (Inv_remove_keys R t' (fun p => str_eqb p pattern)); auto.
  - (* the index has no such pattern: nothing was held under it *)
    destruct HI as [I1 I2 I3 I4]. constructor; simpl; auto.
    intros e. rewrite Hp', I2. split; [tauto|]. intros (p & d1 & rt & A & B & C). split; [eauto 6|].
    subst e. unfold entry_of. simpl. rewrite rstr_fpat. destruct (str_eqb_spec p pattern) as [->|]; [congruence | reflexivity].
Qed.

Lemma Inv_rt_remove_obj R p0 fl : Inv R -> Inv (fst (rt_remove_obj R p0 fl)).
Proof.
  intros HI. unfold rt_remove_obj. destruct (rt_match R p0 fl) as [d|]; [|exact HI].
  destruct (pattern_of_rid R d) as [pattern|]; [|exact HI].
  destruct (rd_remove (tree R) pattern false true) as [t'|] eqn:Er; [|exact HI].
  destruct (remove_lemma _ _ _ _ _ (inv_wf R HI) Er) as (Hw & Hp).
  rewrite andb_false_r in Hp.
  assert (Hp' : forall e, In e (paths t') <-> In e (paths (tree R)) /\ str_eqb (rstr (fst e)) pattern = false).
  { intros e. rewrite Hp, keepP_exact. tauto. }
  destruct (al_get (routes R) pattern) as [d0|] eqn:Eg; simpl.
  - rewrite al_del_filter. apply (Inv_remove_keys R t' (fun p => str_eqb p pattern)); auto.
  - destruct HI as [I1 I2 I3 I4]. constructor; simpl; auto.
    intros e. rewrite Hp', I2. split; [tauto|]. intros (p & d1 & rt & A & B & C). split; [eauto 6|].
    subst e. unfold entry_of. simpl. rewrite rstr_fpat. destruct (str_eqb_spec p pattern) as [->|]; [congruence | reflexivity].
Qed.

Lemma Inv_rt_route_method R p fl ms h ow : Inv R -> Inv (fst (rt_route_method R p fl ms h ow)).
Proof.
  intros HI. unfold rt_route_method. destruct (rt_match R p fl) as [d|]; [|exact HI].
  destruct (nth_error (heap R) d) as [rt|] eqn:E; [|exact HI].
  destruct (if ow then Some _ else mt_add _ _ _); [|exact HI]. now apply Inv_heap_set.
Qed.

(* the in-place update of a hook pair changes no route and no key *)
Lemma upd_hooks_ok hp : forall n route,
  wf n -> wf (upd_hooks_at n route hp) /\ nkey (upd_hooks_at n route hp) = nkey n /\
          nflt (upd_hooks_at n route hp) = nflt n /\ paths (upd_hooks_at n route hp) = paths n.
Proof.
  induction n as [key d nm f h kids IH] using node_ind'. intros route Hw.
  pose proof (wf_inv _ _ _ _ _ _ Hw) as (W1 & W2 & W3 & W4).
  destruct route as [|c0 r]; cbn [upd_hooks_at].
  - split; [now constructor|]. auto.
  - assert (G : forall ks, Forall (fun k => forall route, wf k ->
                    wf (upd_hooks_at k route hp) /\ nkey (upd_hooks_at k route hp) = nkey k /\
                    nflt (upd_hooks_at k route hp) = nflt k /\ paths (upd_hooks_at k route hp) = paths k) ks ->
                  Forall wf ks -> Forall (fun k => key_ok (nkey k)) ks ->
                  let ks' := upd_go (fun k r => upd_hooks_at k r hp) c0 (c0 :: r) ks in
                  Forall wf ks' /\ Forall (fun k => key_ok (nkey k)) ks' /\ map khead ks' = map khead ks /\
                  kids_entries ks' = kids_entries ks).
    { induction ks as [|k ks IHks]; intros HF H1 H2; [simpl; auto|]. cbn [upd_go]. cbv zeta.
      inversion HF as [|? ? Hk HFs]; subst. inversion H1; subst. inversion H2; subst.
      destruct (head_is k c0).
      - destruct (prefixb (nkey k) (c0 :: r)).
        + destruct (Hk (skipn (length (nkey k)) (c0 :: r))) as (A & B & C & D); auto.
          split; [now constructor|]. split; [constructor; auto; now rewrite B|].
          split; [simpl; unfold khead; now rewrite B|].
          rewrite !kids_entries_cons. f_equal. unfold kid_entries. rewrite D.
          now rewrite (kid_entries_same_key k _ B C).
        + repeat split; auto.
      - destruct (IHks HFs) as (A & B & C & D); auto. split; [now constructor|]. split; [now constructor|].
        split; [simpl; now rewrite C|]. rewrite !kids_entries_cons. now rewrite D. }
    destruct (G kids IH W1 W2) as (A & B & C & D). split.
    + constructor; auto; [now rewrite C | apply (tok_last_heads kids); auto].
    + split; [reflexivity|]. split; [reflexivity|]. rewrite !paths_node. now rewrite D.
Qed.

Lemma Inv_tree_same_paths R t' nmd hk :
  Inv R -> wf t' -> (forall e, In e (paths t') <-> In e (paths (tree R))) ->
  Inv (mkRouter t' (heap R) (routes R) nmd hk).
Proof.
  intros [I1 I2 I3 I4] Hw Hp. constructor; simpl; auto. intros e. rewrite Hp. apply I2.
Qed.

Lemma Inv_rt_add_hook R pattern nm flts h partial :
  Inv R -> ntok pattern = length flts -> Inv (fst (rt_add_hook R pattern nm flts h partial)).
Proof.
  intros HI Hn. unfold rt_add_hook. destruct (rt_match_hooks R pattern) as [hp|].
  - simpl. destruct (upd_hooks_ok (install hp h partial) (tree R) pattern (inv_wf R HI)) as (A & _ & _ & D).
    apply Inv_tree_same_paths; auto. intros e. now rewrite D.
  - destruct (set_at (tree R) pattern flts 0 (IHooks (install (None, None) h partial)) nm) as [t'|e] eqn:Es; [|exact HI].
    simpl. destruct (hook_install_lemma (tree R) pattern flts (install (None, None) h partial) nm t' (inv_wf R HI)) as (A & B); [lia | exact Es|].
    now apply Inv_tree_same_paths.
Qed.

Lemma Inv_rt_remove_hook R pattern : Inv R -> Inv (fst (rt_remove_hook R pattern)).
Proof.
  intros HI. unfold rt_remove_hook. destruct (rd_remove (tree R) pattern true false) as [t'|] eqn:Er; [|exact HI].
  destruct (remove_lemma _ _ _ _ _ (inv_wf R HI) Er) as (Hw & Hp). simpl.
  apply Inv_tree_same_paths; auto. intros e. rewrite Hp. unfold keepP. tauto.
Qed.

(* histories: every operation of the router; the only guard is the one the
   code itself needs (one filter per wildcard in a rule) *)
Definition hist_cmd (c : cmd) : Prop :=
  match c with
  | CAdd _ p _ fl _ _ _ _ => ntok p = length fl
  | CAddHook p _ fl _ _ => ntok p = length fl
  | _ => True
  end.

Lemma Inv_hist_step R c : Inv R -> hist_cmd c -> Inv (fst (run_cmd R c)).
Proof.
  intros HI Hc. destruct c; simpl in *; try exact HI.
  - pose proof (Inv_rt_add R rule pattern nm flts methods h name overwrite HI Hc) as G.
    now destruct (rt_add R rule pattern nm flts methods h name overwrite).
  - pose proof (Inv_rt_remove_pattern R pattern HI) as G. now destruct (rt_remove_pattern R pattern).
  - pose proof (Inv_rt_remove_name R name HI) as G. now destruct (rt_remove_name R name).
  - pose proof (Inv_rt_add_hook R pattern nm flts h partial HI Hc) as G.
    now destruct (rt_add_hook R pattern nm flts h partial).
  - pose proof (Inv_rt_remove_hook R pattern HI) as G. now destruct (rt_remove_hook R pattern).
  - now apply Inv_rt_remove_method.
  - pose proof (Inv_rt_remove_obj R pattern flts HI) as G. now destruct (rt_remove_obj R pattern flts).
  - pose proof (Inv_rt_route_method R pattern flts ms h overwrite HI) as G.
    now destruct (rt_route_method R pattern flts ms h overwrite).
Qed.

Lemma Inv_hist cs : forall R, Inv R -> Forall hist_cmd cs -> Inv (exec_cmds R cs).
Proof.
  unfold exec_cmds. induction cs as [|c cs IH]; intros R HI Hcs; simpl; [exact HI|].
  inversion Hcs; subst. apply IH; auto. now apply Inv_hist_step.
Qed.

(* after ANY history the router resolves every path as the rule-by-rule spec
   does on the surviving routes index *)
Lemma history_route_eq_spec_lemma : forall filt (cs : list cmd) (path : str) (cds : list str),
  Forall hist_cmd cs ->
  let R := exec_cmds router0 cs in
  match spec filt (rules_of R) (strip_sep path) with
  | None => exists vs hs i, resolve filt R path cds = R404 vs hs i
  | Some (q, d, vs) =>
    exists rt hs,
      nth_error (heap R) d = Some rt /\ In (r_pattern rt, d) (routes R) /\
      q = pat_of (r_pattern rt) (r_filters rt) /\
      resolve filt R path cds =
      match dispatch_on (r_methods rt) cds with
      | DCall m (h, mn) => ROk d m h (make_params (match mn with [] => r_names rt | _ :: _ => mn end) vs) hs
      | D405 a => R405 a
      end
  end.
Proof.
  intros filt cs path cds Hcs R. apply resolve_eq_spec_lemma. apply Inv_hist; [apply Inv0 | exact Hcs].
Qed.


(* the invariant, spelled out, for every history *)
Lemma history_invariant_lemma : forall (cs : list cmd),
  Forall hist_cmd cs ->
  let R := exec_cmds router0 cs in
  wf (tree R) /\
  (forall e, In e (paths (tree R)) <->
             exists p d rt, al_get (routes R) p = Some d /\ nth_error (heap R) d = Some rt /\
                            e = (fpat p (r_filters rt), (d, r_names rt))) /\
  NoDup (map fst (routes R)).
Proof.
  intros cs Hcs R. destruct (Inv_hist cs router0 Inv0 Hcs) as [I1 I2 I3 I4]. fold R in I1, I2, I3, I4.
  split; [exact I1|]. split; [exact I2 | exact I4].
Qed.

(* non-vacuity: the witnesses of F14, F15 and F33 replayed on the model *)
Definition s_a := [97%N]. Definition s_ab := [97; 47; 98]%N. Definition s_abc := [97; 47; 98; 47; 99]%N.
Definition s_get := [71; 69; 84]%N.
Definition nofilt : fid -> str -> option (value * nat) := fun _ _ => None.

Lemma c11_nonvacuous_lemma :
  (* F14: a hook-only prefix survives the removal of the last route under it and fires again *)
  (let R := exec_cmds router0 [CAddHook s_ab [] [] 50 false; CAdd 0 s_abc [] [] [s_get] 1 None false;
                               CRemovePattern s_abc; CAdd 0 s_abc [] [] [s_get] 2 None false] in
   resolve nofilt R (47%N :: s_abc) [s_get] = ROk 1 s_get 2 [] [(3, (Some 50, None))]) /\
  (* F14: remove_hook on a hook-only node with children really removes it *)
  (let R := exec_cmds router0 [CAddHook s_ab [] [] 50 false; CAdd 0 s_abc [] [] [s_get] 1 None false;
                               CRemoveHook s_ab] in
   resolve nofilt R (47%N :: s_abc) [s_get] = ROk 0 s_get 1 [] []) /\
  (* F15: removing by one name drops the other names of the route *)
  (let R := exec_cmds router0 [CAdd 0 s_a [] [] [s_get] 1 (Some [110; 49]%N) false;
                               CAdd 0 s_a [] [] [[80; 79; 83; 84]%N] 2 (Some [110; 50]%N) false;
                               CRemoveName [110; 49]%N] in
   named R = [] /\ routes R = []) /\
  (* F33: a route whose rule ends in '*' is removed exactly when removed by name *)
  (let p_star := [112; 47; 42]%N in let p_q := [112; 47; 113]%N in
   let R := exec_cmds router0 [CAdd 0 p_q [] [] [s_get] 1 None false;
                               CAdd 1 p_star [] [] [s_get] 2 (Some [110]%N) false; CRemoveName [110]%N] in
   map fst (routes R) = [p_q] /\ resolve nofilt R (47%N :: p_q) [s_get] = ROk 0 s_get 1 [] []) /\
  (* prefix removal, pruning and merging, then a lookup *)
  (let R := exec_cmds router0 [CAdd 0 s_abc [] [] [s_get] 1 None false; CAdd 1 s_ab [] [] [s_get] 2 None false;
                               CAdd 2 s_a [] [] [s_get] 3 None false; CRemovePattern s_ab;
                               CRemovePattern [97; 47; 42]%N] in
   map fst (routes R) = [s_a] /\ resolve nofilt R (47%N :: s_a) [s_get] = ROk 2 s_get 3 [] [] /\
   exists vs hs i, resolve nofilt R (47%N :: s_abc) [s_get] = R404 vs hs i).
Proof. vm_compute. repeat split; eauto. Qed.
