(* C11_proofs.v — edit histories: what every operation does to what the tree holds. *)
From Verif Require Import lib.Base lib.Str gen.Gen model.RouteSpec model.Dispatch model.Router
     proofs.C02_proofs proofs.C01_get proofs.C01_insert proofs.C01_router.

Local Opaque TOKEN.
Local Arguments N.eqb : simpl never.

(* installing a hook (RadiDict.add_hooks = _set with hooks) never changes which
   (pattern, route) pairs the tree holds, and keeps it well-formed: nodes may be
   split or created, the routes are untouched *)
Lemma hook_install_lemma : forall root route fl hp nm root',
  wf root -> ntok route <= length fl -> set_at root route fl 0 (IHooks hp) nm = SOk root' ->
  wf root' /\ forall e, In e (paths root') <-> In e (paths root).
Proof.
  intros root route fl hp nm root' Hw Hn Hs. split.
  - eapply wf_insert; eauto.
  - intros e. rewrite (insert_paths root route fl (IHooks hp) nm root' Hw Hn Hs). simpl. tauto.
Qed.

(* ------------------------------------------------------------------ *)
(* RadiDict.remove                                                      *)
(* ------------------------------------------------------------------ *)

(* the route string a character-level pattern stands for *)
Definition rstr (p : list pc) : str := map (fun x => match x with PC c => c | PW _ => TOKEN end) p.

Lemma rstr_app a b : rstr (a ++ b) = rstr a ++ rstr b.
Proof. apply map_app. Qed.

Lemma rstr_key_pcs k : rstr (key_pcs k) = nkey k \/ True.
Proof. now right. Qed.

Lemma rstr_key k : key_ok (nkey k) -> rstr (key_pcs k) = nkey k.
Proof.
  intros Hk. unfold key_pcs. destruct (str_eqb_spec (nkey k) tok) as [->|Hn]; [reflexivity|].
  unfold rstr. rewrite map_map. apply map_id.
Qed.

Lemma rstr_fpat p : forall fl, rstr (fpat p fl) = p.
Proof.
  induction p as [|c r IH]; intros fl; simpl; [reflexivity|].
  destruct (N.eqb_spec c TOKEN) as [->|Hc].
  - destruct fl; simpl; now rewrite IH.
  - simpl. now rewrite IH.
Qed.

(* an entry survives the removal *)
Definition keepP (wild ho : bool) (route : str) (p : list pc) : Prop :=
  ho = true \/ (if wild then prefixb route (rstr p) = false else rstr p <> route).

Lemma prefixb_app_same a : forall x y, prefixb (a ++ x) (a ++ y) = prefixb x y.
Proof.
  unfold prefixb. induction a as [|c a IH]; intros x y; simpl; [reflexivity|].
  now rewrite N.eqb_refl, IH.
Qed.

Lemma prefixb_nil_l s : prefixb [] s = true.
Proof. reflexivity. Qed.

(* two prefixes of one string are comparable *)
Lemma prefix_comparable a : forall b x, prefixb a (b ++ x) = true -> prefixb a b = true \/ prefixb b a = true.
Proof.
  unfold prefixb. induction a as [|c a IH]; intros b x H; simpl; [now left|].
  destruct b as [|d b]; [now right|]. simpl in *. apply andb_true_iff in H. destruct H as [H1 H2].
  rewrite H1. simpl. rewrite N.eqb_sym, H1. simpl. eauto.
Qed.

Lemma keepP_under_key wild ho key r x :
  keepP wild ho (key ++ r) (x) <-> keepP wild ho (key ++ r) x.
Proof. tauto. Qed.

(* prunable = nothing held, no children, no hook *)
Lemma prunable_paths n : prunable n = true -> paths n = [].
Proof. destruct n as [key [d|] nm f [h|] [|k ks]]; simpl; try discriminate; reflexivity. Qed.

Lemma tok_last_del c ks : tok_last ks -> tok_last (del_head c ks).
Proof.
  induction ks as [|k ks IH]; simpl; [auto|]. intros Hl.
  destruct (head_is k c).
  - destruct ks as [|k2 ks2]; [exact I | apply Hl].
  - destruct ks as [|k2 ks2]; [exact I|]. destruct Hl as [Hn Hl]. specialize (IH Hl).
    simpl in *. destruct (head_is k2 c).
    + destruct ks2 as [|k3 ks3]; [exact I|]. split; [exact Hn | apply Hl].
    + destruct (del_head c ks2) eqn:E.
      * split; [exact Hn | exact IH].
      * split; [exact Hn | exact IH].
Qed.

Lemma del_head_incl c ks : forall k, In k (del_head c ks) -> In k ks.
Proof.
  induction ks as [|k0 ks IH]; simpl; [tauto|]. intros k. destruct (head_is k0 c); [tauto|].
  intros [->|H]; [now left | right; auto].
Qed.

Lemma del_head_nodup c ks : NoDup (map khead ks) -> NoDup (map khead (del_head c ks)).
Proof.
  induction ks as [|k ks IH]; simpl; [auto|]. intros H. inversion H as [|? ? Hn Hd]; subst.
  destruct (head_is k c); [exact Hd|]. simpl. constructor; [|auto].
  intros Hin. apply Hn. apply in_map_iff in Hin. destruct Hin as (x & Hx & Hin).
  apply in_map_iff. exists x. split; [exact Hx | now apply (del_head_incl c ks)].
Qed.

(* deleting the child with head c: the others stay *)
Lemma del_head_spec c ks k :
  Forall (fun k => key_ok (nkey k)) ks -> NoDup (map khead ks) -> In k ks -> khead k = c ->
  forall x, In x (del_head c ks) <-> In x ks /\ x <> k.
Proof.
  induction ks as [|k0 ks IH]; intros Hok Hnd Hin Hh x; [destruct Hin|]. subst c. simpl.
  inversion Hok as [|? ? Hk0 Hoks]; subst. inversion Hnd as [|? ? Hn Hd]; subst.
  destruct (head_is k0 (khead k)) eqn:E.
  - apply head_is_khead in E; [|apply Hk0].
    assert (k0 = k).
    { destruct Hin as [->|Hin]; [reflexivity|]. exfalso. apply Hn. rewrite E. now apply in_map. }
    subst k0. split.
    + intros Hx. split; [now right|]. intros ->. apply Hn. now apply in_map.
    + intros [[->|Hx] Hne]; [contradiction | exact Hx].
  - assert (Hne0 : k0 <> k).
    { intros ->. assert (head_is k (khead k) = true) by (apply head_is_khead; [apply Hk0 | reflexivity]). congruence. }
    destruct Hin as [->|Hin]; [contradiction|]. simpl. rewrite (IH Hoks Hd Hin eq_refl x). split.
    + intros [->|[Hx Hne]]; [split; [now left | exact Hne0] | split; [now right | exact Hne]].
    + intros [[->|Hx] Hne]; [now left | right; auto].
Qed.

Lemma wf_kids_del c ks :
  kids_ok ks -> kids_ok (del_head c ks).
Proof.
  intros (H1 & H2 & H3 & H4). split; [|split; [|split]].
  - rewrite Forall_forall in *. intros x Hx. apply H1. now apply (del_head_incl c ks).
  - rewrite Forall_forall in *. intros x Hx. apply H2. now apply (del_head_incl c ks).
  - now apply del_head_nodup.
  - now apply tok_last_del.
Qed.

(* _try_merge keeps what the node contributes to its parent *)
Lemma try_merge_spec p :
  wf p -> key_ok (nkey p) ->
  wf (try_merge false p) /\ key_ok (nkey (try_merge false p)) /\
  khead (try_merge false p) = khead p /\ kid_entries (try_merge false p) = kid_entries p.
Proof.
  intros Hw Hk. destruct p as [key d nm f h kids]. unfold try_merge.
  assert (Triv : wf (Node key d nm f h kids) /\ key_ok (nkey (Node key d nm f h kids)) /\
                 khead (Node key d nm f h kids) = khead (Node key d nm f h kids) /\
                 kid_entries (Node key d nm f h kids) = kid_entries (Node key d nm f h kids))
    by (split; [exact Hw|]; split; [exact Hk|]; split; reflexivity).
  destruct kids as [|c [|c2 ks]]; try exact Triv.
  destruct d; [exact Triv|]. destruct h; [exact Triv|].
  destruct (str_eqb key tok || head_is c TOKEN) eqn:E; [exact Triv|]. clear Triv.
  apply orb_false_iff in E. destruct E as [E1 E2].
  apply wf_inv in Hw. destruct Hw as (W1 & W2 & W3 & W4).
  inversion W1 as [|? ? Hwc _]; subst. inversion W2 as [|? ? Hkc _]; subst. simpl in Hk.
  assert (Hkt : key <> tok) by (intros ->; now rewrite str_eqb_refl in E1).
  assert (Hklit : ~ In TOKEN key) by (destruct Hk as [_ [E|E]]; [contradiction | exact E]).
  assert (Hct : nkey c <> tok).
  { intros Ht. assert (head_is c TOKEN = true) by (apply head_is_khead; [apply Hkc | unfold khead; now rewrite Ht]). congruence. }
  assert (Hclit : ~ In TOKEN (nkey c)) by (destruct Hkc as [_ [E|E]]; [contradiction | exact E]).
  assert (Hml : ~ In TOKEN (key ++ nkey c)) by (rewrite in_app_iff; tauto).
  assert (Hmne : key ++ nkey c <> []) by (destruct Hk as [Hne _]; destruct key; [contradiction | discriminate]).
  split; [now apply wf_set_key|]. rewrite nkey_set_key. split; [split; auto|].
  split; [unfold khead; rewrite nkey_set_key; simpl; destruct Hk as [Hne _]; destruct key; [contradiction | reflexivity]|].
  assert (Hp : paths (Node key None nm f None [c]) = kid_entries c).
  { rewrite paths_node. simpl. unfold kids_entries. simpl. now rewrite app_nil_r. }
    unfold kid_entries at 1 2. rewrite Hp, paths_set_key. unfold kid_entries. rewrite map_pre_pre.
    rewrite (key_pcs_lit (set_key c (key ++ nkey c))) by (rewrite nkey_set_key; auto).
    rewrite (key_pcs_lit (Node key None nm f None [c])) by (simpl; auto; apply Hk).
    rewrite (key_pcs_lit c) by (auto; apply Hkc). rewrite nkey_set_key. simpl nkey. now rewrite map_app.
Qed.
