(* C09_proofs.v — history independence and bounded retention for model/History.v *)
From Coq Require Import String Ascii Lia.
From Verif Require Import lib.Base lib.Str lib.Utf8 lib.Html model.Wsgi model.History.

(* ------------------------------------------------------------------ *)
(* the response is a function of the cells the request itself wrote    *)
(* ------------------------------------------------------------------ *)

Lemma serve_bad_path_fst app a b r :
  t_req a = t_req b -> t_resp a = t_resp b ->
  fst (serve_bad_path app a r) = fst (serve_bad_path app b r).
Proof. intros H1 H2. unfold serve_bad_path. cbn [fst]. now rewrite H1, H2. Qed.

Lemma serve_decoded_fst rule rule' app a b r path :
  t_req a = t_req b -> t_resp a = t_resp b ->
  fst (serve_decoded rule app a r path) = fst (serve_decoded rule' app b r path).
Proof.
  intros H1 H2. unfold serve_decoded. rewrite H1, H2.
  destruct (match t_req b with
            | Some rq => a_beh app rq (t_resp b)
            | None => (mkProg [] [] (R404 None), [])
            end) as [p raised].
  destruct (handle_from (t_resp b) p) as [[evH st] o]. reflexivity.
Qed.

(* the catch-all does not read the response object *)
Lemma serve_no_path_fst a b r : fst (serve_no_path a r) = fst (serve_no_path b r).
Proof.
  unfold serve_no_path, catchall. cbn [fst e_head e_path].
  destruct (q_head r); [reflexivity|]. destruct (utf8_encode _); reflexivity.
Qed.

Lemma history_independent app ts ts' r : fst (serve app ts r) = fst (serve app ts' r).
Proof.
  unfold serve, serve_gen. destruct (q_nopath r); [apply serve_no_path_fst|].
  destruct (decode_path (q_raw r)) as [path|].
  - apply serve_decoded_fst; reflexivity.
  - apply serve_bad_path_fst; reflexivity.
Qed.

(* hence, by induction over any history: every response is the one a fresh application gives *)
Lemma run_cons app ts r t :
  run app ts (r :: t) = (fst (serve app ts r) :: fst (run app (snd (serve app ts r)) t),
                         snd (run app (snd (serve app ts r)) t)).
Proof.
  unfold run, serve. cbn [run_gen]. destruct (serve_gen raise_shared app ts r) as [resp ts1].
  cbn [fst snd]. destruct (run_gen raise_shared app ts1 t) as [rs ts2]. reflexivity.
Qed.

Lemma history_as_fresh app : forall h ts,
  fst (run app ts h) = map (fun r => fst (serve app (ts_fresh app) r)) h.
Proof.
  induction h as [|r t IH]; intros ts; [reflexivity|].
  rewrite run_cons. cbn [fst map]. rewrite IH. f_equal. apply history_independent.
Qed.

(* the F11 variant (early return before the re-initialisation) is not history independent *)
Definition leak_app : app_static := mkApp (fun _ _ => (mkProg [] [] (R404 None), [])) (fun _ => None) 3.
Definition leak_req : request := mkReq 1 [47; 255]%N false false false (lit "'http://localhost/%C3%BF'") [] false false.
Definition leak_ts : tstate :=
  mkT (Some (mkReq 0 (lit "/login") false false false (lit "'http://localhost/login?token=secret'") [] false false))
      (mkSt 200 (lit "200 OK") [] [(lit "sid", lit "sid=secret123")]) [([], None); ([], None); ([], None)].

Lemma F11_variant_leaks :
  In (n_set_cookie, lit "sid=secret123")
     (match fst (serve_F11 leak_app leak_ts leak_req) with
      | EvStart _ hl _ :: _ => hl
      | _ => []
      end)
  /\ fst (serve_F11 leak_app leak_ts leak_req) <> fst (serve_F11 leak_app (ts_fresh leak_app) leak_req).
Proof.
  split.
  - vm_compute. right. right. left. reflexivity.
  - intros H. vm_compute in H. discriminate H.
Qed.

(* ------------------------------------------------------------------ *)
(* retention                                                           *)
(* ------------------------------------------------------------------ *)

Definition tb_ok (n : nat) (tb : list errstate) : Prop :=
  length tb = n /\ Forall (fun e => length (fst e) <= 1) tb.

Lemma set_nth_length {A} k (v : A) l : length (set_nth k v l) = length l.
Proof. revert k. induction l as [|x t IH]; intros [|k]; simpl; auto. Qed.

Lemma set_nth_Forall {A} (P : A -> Prop) k v l : P v -> Forall P l -> Forall P (set_nth k v l).
Proof.
  intros Hv. revert k. induction l as [|x t IH]; intros [|k] H; simpl; auto;
    inversion H; subst; constructor; auto.
Qed.

Lemma raise_shared_ok n id tb k : tb_ok n tb -> tb_ok n (raise_shared id tb k).
Proof.
  intros [H1 H2]. unfold raise_shared. split; [now rewrite set_nth_length|].
  apply set_nth_Forall; [simpl; lia|exact H2].
Qed.

Lemma fold_raise_ok n id raised : forall tb, tb_ok n tb -> tb_ok n (fold_left (raise_shared id) raised tb).
Proof. induction raised as [|k t IH]; intros tb H; simpl; [exact H|]. apply IH. now apply raise_shared_ok. Qed.

Lemma t_tb_bad_path app ts1 r : t_tb (snd (serve_bad_path app ts1 r)) = t_tb ts1.
Proof. reflexivity. Qed.

Lemma t_tb_decoded rule app ts1 r path :
  exists raised, t_tb (snd (serve_decoded rule app ts1 r path)) = fold_left (rule (q_id r)) raised (t_tb ts1)
    /\ raised = snd (match t_req ts1 with
                     | Some rq => a_beh app rq (t_resp ts1)
                     | None => (mkProg [] [] (R404 None), [])
                     end).
Proof.
  unfold serve_decoded.
  destruct (match t_req ts1 with
            | Some rq => a_beh app rq (t_resp ts1)
            | None => (mkProg [] [] (R404 None), [])
            end) as [p raised].
  destruct (handle_from (t_resp ts1) p) as [[evH st] o]. exists raised. split; reflexivity.
Qed.

Lemma t_req_serve rule app ts r : q_nopath r = false -> t_req (snd (serve_gen rule app ts r)) = Some r.
Proof.
  intros Hn. unfold serve_gen. rewrite Hn. destruct (decode_path (q_raw r)) as [path|]; [|reflexivity].
  unfold serve_decoded. cbn [t_req t_resp t_tb].
  destruct (a_beh app r st_init) as [p raised].
  destruct (handle_from st_init p) as [[evH st] o]. reflexivity.
Qed.

Lemma serve_tb_ok app ts r : tb_ok (a_shared app) (t_tb ts) -> tb_ok (a_shared app) (t_tb (snd (serve app ts r))).
Proof.
  intros H. unfold serve, serve_gen. destruct (q_nopath r); [exact H|].
  destruct (decode_path (q_raw r)) as [path|].
  - destruct (t_tb_decoded raise_shared app (mkT (Some r) st_init (t_tb ts)) r path) as [raised [-> _]].
    now apply fold_raise_ok.
  - exact H.
Qed.

Lemma run_tb_ok app : forall h ts, tb_ok (a_shared app) (t_tb ts) -> tb_ok (a_shared app) (t_tb (snd (run app ts h))).
Proof.
  induction h as [|r t IH]; intros ts H; [exact H|].
  rewrite run_cons. cbn [snd]. apply IH. now apply serve_tb_ok.
Qed.

Lemma fresh_tb_ok app : tb_ok (a_shared app) (t_tb (ts_fresh app)).
Proof.
  unfold ts_fresh; simpl. split; [apply repeat_length|].
  apply Forall_forall. intros l Hl. apply repeat_spec in Hl. subst. simpl. lia.
Qed.

Lemma retained_le (tb : list errstate) :
  Forall (fun e : errstate => length (fst e) <= 1) tb ->
  length (flat_map (fun e : errstate => fst e ++ match snd e with Some i => [i] | None => [] end) tb)
  <= 2 * length tb.
Proof.
  induction 1 as [|[l c] t Hl Ht IH]; simpl; [lia|]. rewrite !app_length. simpl in Hl.
  destruct c; simpl; lia.
Qed.

(* 1 (the request cell) + per shared error object: the request in its traceback and the request whose
   exception is its __context__ *)
Lemma alive_bound n ts : tb_ok n (t_tb ts) -> length (alive ts) <= 1 + 2 * n.
Proof.
  intros [H1 H2]. unfold alive. rewrite app_length.
  match goal with
  | |- context [length (flat_map ?f ?l)] =>
      assert (G : length (flat_map f l) <= 2 * n) by (rewrite <- H1; exact (retained_le _ H2))
  end.
  destruct (t_req ts) as [r|]; cbn [length]; lia.
Qed.

Lemma retention_bounded app h :
  length (alive (snd (run app (ts_fresh app) h))) <= 1 + 2 * a_shared app.
Proof. apply alive_bound, run_tb_ok, fresh_tb_ok. Qed.

(* the stronger form, for applications whose shared errors are only ever raised from inside an except
   block (every raise site of body_mixin.py except _get_body_string and the multipart branch of POST):
   then the context owner is the traceback owner *)
Definition ctx_tb_ok (tb : list errstate) : Prop :=
  Forall (fun e : errstate => match snd e with Some i => fst e = [i] | None => fst e = [] end) tb.

Lemma raise_inside_ctx id tb k : ctx_tb_ok tb -> ctx_tb_ok (raise_shared id tb (k, true)).
Proof.
  intros H. unfold raise_shared, ctx_tb_ok. apply set_nth_Forall; [reflexivity|exact H].
Qed.

(* and what is alive belongs to the last request or to the last request that made a shared error raise *)
Lemma run_snoc_state app r : forall h ts,
  snd (run app ts (h ++ [r])) = snd (serve app (snd (run app ts h)) r).
Proof.
  induction h as [|x t IH]; intros ts; cbn [List.app]; rewrite run_cons; cbn [snd].
  - reflexivity.
  - rewrite IH. rewrite (run_cons app ts x t). reflexivity.
Qed.

Lemma alive_req_last app h r :
  q_nopath r = false -> t_req (snd (run app (ts_fresh app) (h ++ [r]))) = Some r.
Proof. intros Hn. rewrite run_snoc_state. now apply (t_req_serve raise_shared). Qed.

(* a request without PATH_INFO does not reach request.__init__: the cells (and everything else) stay *)
Lemma no_path_keeps_state app h r :
  q_nopath r = true -> snd (run app (ts_fresh app) (h ++ [r])) = snd (run app (ts_fresh app) h).
Proof. intros Hn. rewrite run_snoc_state. unfold serve, serve_gen. now rewrite Hn. Qed.

(* the F12 variant: the chain of a shared error grows with every request that raises it *)
Definition grow_app : app_static := mkApp (fun _ _ => (mkProg [] [] (R404 None), [(0, true)])) (fun _ => None) 1.
Definition grow_req (i : nat) : request := mkReq i [47]%N false false false [] [] false false.

Lemma decode_slash : decode_path [47]%N = Some [47]%N.
Proof. reflexivity. Qed.

Lemma F12_step ts i :
  t_tb (snd (serve_F12 grow_app ts (grow_req i))) = raise_shared_F12 i (t_tb ts) (0, true).
Proof.
  unfold serve_F12, serve_gen. cbn [q_raw q_nopath grow_req]. rewrite decode_slash.
  destruct (t_tb_decoded raise_shared_F12 grow_app (mkT (Some (grow_req i)) st_init (t_tb ts)) (grow_req i) [47]%N)
    as [raised [-> ->]]. reflexivity.
Qed.

Lemma run_F12_cons app ts r t :
  snd (run_F12 app ts (r :: t)) = snd (run_F12 app (snd (serve_F12 app ts r)) t).
Proof.
  unfold run_F12, serve_F12. cbn [run_gen]. destruct (serve_gen raise_shared_F12 app ts r) as [resp ts1].
  cbn [fst snd]. destruct (run_gen raise_shared_F12 app ts1 t) as [rs ts2]. reflexivity.
Qed.

Lemma F12_grows : forall ids ts l c,
  t_tb ts = [(l, c)] ->
  exists c', t_tb (snd (run_F12 grow_app ts (map grow_req ids))) = [(rev ids ++ l, c')].
Proof.
  induction ids as [|i t IH]; intros ts l c H; [exists c; exact H|].
  cbn [map]. rewrite run_F12_cons.
  destruct (IH (snd (serve_F12 grow_app ts (grow_req i))) (i :: l) (Some i)) as [c' E].
  - rewrite F12_step, H. reflexivity.
  - exists c'. rewrite E. simpl. rewrite <- app_assoc. reflexivity.
Qed.

Lemma F12_variant_unbounded n :
  exists h, length h = n /\ n <= length (alive (snd (run_F12 grow_app (ts_fresh grow_app) h))).
Proof.
  exists (map grow_req (seq 0 n)). split; [now rewrite map_length, seq_length|].
  unfold alive. destruct (F12_grows (seq 0 n) (ts_fresh grow_app) [] None eq_refl) as [c' ->].
  rewrite app_length. simpl. rewrite !app_length, rev_length, seq_length. lia.
Qed.
