(* C03_proofs.v — lemmas about model/Wsgi.v behind the theorems of props/C03.v *)
From Coq Require Import String Ascii Lia ZifyBool.
From Verif Require Import lib.Base lib.Str lib.Utf8 lib.Html lib.PyIntParse model.Wsgi.
From Verif Require gen.Gen.

(* ------------------------------------------------------------------ *)
(* event classification                                                *)
(* ------------------------------------------------------------------ *)
Definition is_start (e : event) : bool := match e with EvStart _ _ _ => true | _ => false end.
Definition is_close (e : event) : bool := match e with EvClose _ => true | _ => false end.
Definition is_hookB (e : event) : bool := match e with EvHookB _ => true | _ => false end.
Definition is_hookA (e : event) : bool := match e with EvHookA _ => true | _ => false end.
Definition count {A} (f : A -> bool) (l : list A) : nat := length (filter f l).

Lemma count_app {A} (f : A -> bool) a b : count f (a ++ b) = count f a + count f b.
Proof. unfold count. rewrite filter_app, app_length. reflexivity. Qed.

Lemma count_zero {A} (f : A -> bool) l : (forall x, In x l -> f x = false) -> count f l = 0.
Proof.
  unfold count. induction l as [|x l IH]; intros H; simpl; [reflexivity|].
  rewrite (H x (or_introl eq_refl)). apply IH. intros y Hy. apply H. now right.
Qed.

(* events produced before the response starts *)
Definition pre_event (e : event) : bool :=
  match e with
  | EvHookB _ | EvRouted | EvRouteHook _ | EvHandler | EvHookA _ => true
  | _ => false
  end.

Lemma run_hooks_events tag hs st ev st' x :
  run_hooks tag hs st = (ev, st', x) -> exists idx, ev = map tag idx.
Proof.
  revert st ev st' x. induction hs as [|[i h] t IH]; intros st ev st' x H; simpl in H.
  - inversion H; subst. exists []. reflexivity.
  - destruct (run_prog h st) as [st1 [o|e]] eqn:Hp.
    + destruct (run_hooks tag t st1) as [[ev2 st2] x2] eqn:Hr.
      inversion H; subst. destruct (IH _ _ _ _ Hr) as [idx ->]. exists (i :: idx). reflexivity.
    + inversion H; subst. exists [i]. reflexivity.
Qed.

Lemma forallb_map_tag (f : event -> bool) (tag : nat -> event) idx :
  (forall i, f (tag i) = true) -> forallb f (map tag idx) = true.
Proof. intros H. induction idx; simpl; [reflexivity|]. now rewrite H, IHidx. Qed.

(* the no-body test read from the source covers HEAD-independent: every 1xx, 204, 304 *)
Lemma nobody_spec c : (100 <= c < 200 \/ c = 204 \/ c = 304)%Z -> nobody c = true.
Proof.
  intros H. unfold nobody, Gen.nobody_codes, Gen.nobody_ranges. cbn [existsb fst snd]. lia.
Qed.

Section WithApp.
Variable env : cenv.
Variable eh : Z -> option (resp -> ehres).

Lemma route_and_call_pre rt st ev st' r :
  route_and_call rt st = (ev, st', r) -> forallb pre_event ev = true.
Proof.
  unfold route_and_call. destruct rt as [[h|]|allow|rh h|j].
  - destruct (run_prog h st) as [st1 r1]. intros H; inversion H; subst. reflexivity.
  - intros H; inversion H; subst. reflexivity.
  - intros H; inversion H; subst. reflexivity.
  - destruct (run_hooks EvRouteHook (indexed rh) st) as [[ev1 st1] [x|]] eqn:Hr.
    + intros H; inversion H; subst. destruct (run_hooks_events _ _ _ _ _ _ Hr) as [idx ->].
      simpl. now apply forallb_map_tag.
    + destruct (run_prog h st1) as [st2 r2]. intros H; inversion H; subst.
      destruct (run_hooks_events _ _ _ _ _ _ Hr) as [idx ->].
      simpl. rewrite forallb_app. rewrite forallb_map_tag by reflexivity. reflexivity.
  - intros H; inversion H; subst. reflexivity.
Qed.

Lemma handle_pre p ev st o : handle p = (ev, st, o) -> forallb pre_event ev = true.
Proof.
  unfold handle, handle_from.
  destruct (run_hooks EvHookB (indexed (p_before p)) st_init) as [[evB st1] xB] eqn:HB.
  destruct (match xB with Some x => ([], st1, inr x) | None => route_and_call (p_routing p) st1 end)
    as [[evM st2] resM] eqn:HM.
  destruct (run_hooks EvHookA (after_call_list p) st2) as [[evA st3] xA] eqn:HA.
  intros H; inversion H; subst ev.
  destruct (run_hooks_events _ _ _ _ _ _ HB) as [ib ->].
  destruct (run_hooks_events _ _ _ _ _ _ HA) as [ia ->].
  rewrite !forallb_app, !forallb_map_tag by reflexivity. simpl.
  destruct xB as [x|].
  - inversion HM; subst. reflexivity.
  - rewrite (route_and_call_pre _ _ _ _ _ HM). reflexivity.
Qed.

Lemma pre_not (f : event -> bool) ev :
  (forall e, pre_event e = true -> f e = false) -> forallb pre_event ev = true -> count f ev = 0.
Proof.
  intros Hf H. apply count_zero. intros x Hx. apply Hf.
  rewrite forallb_forall in H. now apply H.
Qed.

Lemma pre_no_start e : pre_event e = true -> is_start e = false.
Proof. destruct e; simpl; congruence. Qed.
Lemma pre_no_close e : pre_event e = true -> is_close e = false.
Proof. destruct e; simpl; congruence. Qed.

Lemma close_events_no_start w : count is_start (close_events w) = 0.
Proof. destruct w as [| id [|] c | m f r [id|] |]; reflexivity. Qed.

Lemma consume_no_start w st : count is_start (consume w st) = 0.
Proof.
  destruct w as [cs | id hc content | m f r cl |]; simpl.
  - reflexivity.
  - destruct hc; reflexivity.
  - destruct (iter_rest m st r) as [c raised]. destruct raised, cl; reflexivity.
  - reflexivity.
Qed.

(* ------------------------------------------------------------------ *)
(* termination of the casting loop                                     *)
(* ------------------------------------------------------------------ *)

Lemma step_body_str_no_cont s st : forall o' st', step_body env eh (OStr s) st <> SCont o' st'.
Proof.
  intros o' st'. unfold step_body. destruct (falsy (OStr s)); [discriminate|].
  destruct (encode st s); [unfold done_bytes|]; discriminate.
Qed.

Lemma step_guard_no_cont cnt o st : 1000 < cnt -> forall o' st', step env eh cnt o st <> SCont o' st'.
Proof.
  intros Hc o' st'. unfold step.
  destruct (Nat.ltb_spec 1000 cnt) as [_|H]; [|lia].
  destruct (default_eh env err_too_many (apply err_too_many st)) as [[p st2]|]; [|discriminate].
  apply step_body_str_no_cont.
Qed.

Lemma cast_fuel_enough fuel : forall cnt o st,
  1 <= fuel -> 1002 <= fuel + cnt -> cast env eh fuel cnt o st <> COutOfFuel.
Proof.
  induction fuel as [|f IH]; intros cnt o st H1 H; [lia|].
  cbn [cast]. destruct (step env eh cnt o st) as [o' st'|w st' b|] eqn:Hs; try discriminate.
  destruct f as [|f'].
  - exfalso. apply (step_guard_no_cont cnt o st) with (o' := o') (st' := st'); [lia|exact Hs].
  - apply IH; lia.
Qed.

Lemma cast_terminates o st : cast env eh cast_fuel 1 o st <> COutOfFuel.
Proof. apply cast_fuel_enough; unfold cast_fuel; lia. Qed.

Lemma wsgi_terminates p : wsgi env eh p <> WsOutOfFuel.
Proof.
  unfold wsgi, wsgi_tail, wsgi_tail_gen. destruct (handle p) as [[evH st] o].
  destruct (cast env eh cast_fuel 1 o st) as [w st' b| |] eqn:Hc.
  - destruct (is_escape w); [discriminate|].
    destruct (if nobody (s_code st') || e_head env then (close_events w, WList []) else ([], w)) as [evC w'].
    destruct (headerlist st'); [discriminate|].
    unfold catchall. destruct (e_head env); [discriminate|].
    destruct (utf8_encode (critical_page (e_path env))); discriminate.
  - unfold catchall. destruct (e_head env); [discriminate|].
    destruct (utf8_encode (critical_page (e_path env))); discriminate.
  - exfalso. exact (cast_terminates o st Hc).
Qed.

(* ------------------------------------------------------------------ *)
(* the shape of what Ombott.wsgi does                                  *)
(* ------------------------------------------------------------------ *)

Definition suppress (st : rstate) : bool := nobody (s_code st) || e_head env.
Definition ev_catchall : event := EvStart l_catchall catchall_headers true.

Inductive wsgi_case (p : program) : wsgi_res -> Prop :=
| WC_normal evH st0 o w0 st wrote hl :
    handle p = (evH, st0, o) ->
    cast env eh cast_fuel 1 o st0 = CDone w0 st wrote ->
    headerlist st = Some hl ->
    wsgi_case p (WsOk (evH ++ (if suppress st then close_events w0 else []) ++ [EvStart (s_line st) hl false])
                      (if suppress st then WList [] else w0) st wrote)
| WC_catch_cast evH st0 o :
    handle p = (evH, st0, o) ->
    cast env eh cast_fuel 1 o st0 = CRaise ->
    wsgi_case p (catchall env evH st0)
| WC_catch_headers evH st0 o w0 st wrote :
    handle p = (evH, st0, o) ->
    cast env eh cast_fuel 1 o st0 = CDone w0 st wrote ->
    headerlist st = None ->
    wsgi_case p (catchall env (evH ++ (if suppress st then close_events w0 else [])) st)
| WC_passed evH st0 o w0 st wrote :
    (* _cast did not return: KeyboardInterrupt / SystemExit / MemoryError / a non-Exception goes to the server *)
    handle p = (evH, st0, o) ->
    cast env eh cast_fuel 1 o st0 = CDone w0 st wrote ->
    is_escape w0 = true ->
    wsgi_case p (WsPassed evH).

Lemma wsgi_cases p : wsgi_case p (wsgi env eh p).
Proof.
  unfold wsgi, wsgi_tail, wsgi_tail_gen. destruct (handle p) as [[evH st0] o] eqn:Hh.
  destruct (cast env eh cast_fuel 1 o st0) as [w0 st wrote| |] eqn:Hc.
  - destruct (is_escape w0) eqn:He; [eapply WC_passed; eassumption|].
    fold (suppress st). destruct (headerlist st) as [hl|] eqn:Hl.
    + pose proof (WC_normal p _ _ _ _ _ _ _ Hh Hc Hl) as H.
      destruct (suppress st); exact H.
    + pose proof (WC_catch_headers p _ _ _ _ _ _ Hh Hc Hl) as H.
      destruct (suppress st); exact H.
  - eapply WC_catch_cast; eassumption.
  - exfalso. exact (cast_terminates o st0 Hc).
Qed.

Lemma catchall_cases ev st :
  (e_head env = true /\ catchall env ev st = WsOk (ev ++ [ev_catchall]) (WList []) st false)
  \/ (e_head env = false /\ exists b, utf8_encode (critical_page (e_path env)) = Some b
                                    /\ catchall env ev st = WsOk (ev ++ [ev_catchall]) (WList [b]) st false)
  \/ (e_head env = false /\ utf8_encode (critical_page (e_path env)) = None
                          /\ catchall env ev st = WsEscaped (ev ++ [ev_catchall])).
Proof.
  unfold catchall, ev_catchall. destruct (e_head env); [left; auto|].
  destruct (utf8_encode (critical_page (e_path env))) as [b|].
  - right; left. split; [reflexivity|]. exists b. auto.
  - right; right. auto.
Qed.

(* the events of a request, whatever the outcome *)
Definition all_events (r : wsgi_res) : list event :=
  match r with
  | WsOk ev w st _ => ev ++ consume w st
  | WsEscaped ev => ev
  | WsPassed ev => ev
  | WsOutOfFuel => []
  end.

Lemma trace_all_events p : trace env eh p = Some (all_events (wsgi env eh p)).
Proof.
  unfold trace. pose proof (wsgi_terminates p) as H.
  destruct (wsgi env eh p); try reflexivity. congruence.
Qed.

Lemma count_close_events_start w : count is_start (close_events w) = 0.
Proof. apply close_events_no_start. Qed.

Lemma count_start_catchall ev st :
  count is_start ev = 0 -> count is_start (all_events (catchall env ev st)) = 1.
Proof.
  intros H0.
  destruct (catchall_cases ev st) as [[_ ->]|[[_ [b [_ ->]]]|[_ [_ ->]]]]; cbn [all_events];
    rewrite ?count_app, H0; reflexivity.
Qed.

Definition passed (r : wsgi_res) : bool := match r with WsPassed _ => true | _ => false end.

Lemma catchall_not_passed ev st : passed (catchall env ev st) = false.
Proof. unfold catchall. destruct (e_head env); [reflexivity|]. destruct (utf8_encode _); reflexivity. Qed.

(* exactly one start_response — unless an exception that the framework lets through on purpose
   (KeyboardInterrupt, SystemExit, MemoryError, a non-Exception) went to the server: then none *)
Lemma one_start_response p :
  count is_start (all_events (wsgi env eh p)) = if passed (wsgi env eh p) then 0 else 1.
Proof.
  destruct (wsgi_cases p) as [evH st0 o w0 st wrote hl Hh Hc Hl | evH st0 o Hh Hc | evH st0 o w0 st wrote Hh Hc Hl
                             | evH st0 o w0 st wrote Hh Hc He];
    rewrite ?catchall_not_passed; cbn [passed].
  - cbn [all_events]. rewrite !count_app.
    rewrite (pre_not is_start evH pre_no_start (handle_pre _ _ _ _ Hh)).
    rewrite consume_no_start.
    destruct (suppress st); rewrite ?close_events_no_start; reflexivity.
  - apply count_start_catchall. exact (pre_not is_start evH pre_no_start (handle_pre _ _ _ _ Hh)).
  - apply count_start_catchall. rewrite count_app.
    rewrite (pre_not is_start evH pre_no_start (handle_pre _ _ _ _ Hh)).
    destruct (suppress st); rewrite ?close_events_no_start; reflexivity.
  - cbn [all_events]. exact (pre_not is_start evH pre_no_start (handle_pre _ _ _ _ Hh)).
Qed.


(* ------------------------------------------------------------------ *)
(* no body for HEAD, 1xx, 204, 304                                     *)
(* ------------------------------------------------------------------ *)

Lemma pre_not_in ev e : forallb pre_event ev = true -> pre_event e = false -> ~ In e ev.
Proof.
  intros H He Hin. rewrite forallb_forall in H. specialize (H e Hin). congruence.
Qed.

Lemma close_events_only_close w e : In e (close_events w) -> is_close e = true.
Proof.
  destruct w as [| id [|] c | m f r [id|] |]; simpl; intros H; try contradiction;
    destruct H as [<-|[]]; reflexivity.
Qed.

Lemma no_body_head p ev w st b :
  wsgi env eh p = WsOk ev w st b -> e_head env = true -> w = WList [].
Proof.
  intros H Hh.
  destruct (wsgi_cases p) as [evH st0 o w0 st1 wrote hl _ _ _ | evH st0 o _ _ | evH st0 o w0 st1 wrote _ _ _
                             | evH st0 o w0 st1 wrote _ _ _]; [| | |discriminate H].
  - inversion H; subst. unfold suppress. rewrite Hh, orb_true_r. reflexivity.
  - destruct (catchall_cases evH st0) as [[_ E]|[[E _]|[E _]]]; congruence.
  - destruct (catchall_cases (evH ++ (if suppress st1 then close_events w0 else [])) st1) as [[_ E]|[[E _]|[E _]]];
      congruence.
Qed.

Lemma not_normal_start_in ev evC line hl :
  forallb pre_event ev = true -> (forall e, In e evC -> is_close e = true) ->
  ~ In (EvStart line hl false) (ev ++ evC ++ [ev_catchall]).
Proof.
  intros Hp Hc Hin. apply in_app_or in Hin. destruct Hin as [Hin|Hin].
  - exact (pre_not_in _ (EvStart line hl false) Hp eq_refl Hin).
  - apply in_app_or in Hin. destruct Hin as [Hin|[Hin|[]]].
    + specialize (Hc _ Hin). discriminate.
    + discriminate.
Qed.

Lemma no_body_status p ev w st b line hl :
  wsgi env eh p = WsOk ev w st b -> In (EvStart line hl false) ev -> nobody (s_code st) = true ->
  w = WList [] /\ line = s_line st.
Proof.
  intros H Hin Hn.
  destruct (wsgi_cases p) as [evH st0 o w0 st1 wrote hl1 Hh _ _ | evH st0 o Hh _ | evH st0 o w0 st1 wrote Hh _ _
                             | evH st0 o w0 st1 wrote _ _ _]; [| | |discriminate H].
  - inversion H; subst. unfold suppress. rewrite Hn. simpl. split; [reflexivity|].
    apply in_app_or in Hin. destruct Hin as [Hin|Hin].
    + exfalso. exact (pre_not_in _ (EvStart line hl false) (handle_pre _ _ _ _ Hh) eq_refl Hin).
    + apply in_app_or in Hin. destruct Hin as [Hin|[Hin|[]]].
      * unfold suppress in Hin. rewrite Hn in Hin. simpl in Hin.
        apply close_events_only_close in Hin. discriminate.
      * inversion Hin; reflexivity.
  - exfalso.
    destruct (catchall_cases evH st0) as [[_ E]|[[_ [b0 [_ E]]]|[_ [_ E]]]]; rewrite E in H; inversion H; subst.
    + apply (not_normal_start_in evH [] line hl (handle_pre _ _ _ _ Hh)); [intros ? []|exact Hin].
    + apply (not_normal_start_in evH [] line hl (handle_pre _ _ _ _ Hh)); [intros ? []|exact Hin].
  - exfalso.
    assert (Hc : forall e, In e (if suppress st1 then close_events w0 else []) -> is_close e = true).
    { destruct (suppress st1); [apply close_events_only_close|intros ? []]. }
    destruct (catchall_cases (evH ++ (if suppress st1 then close_events w0 else [])) st1)
      as [[_ E]|[[_ [b0 [_ E]]]|[_ [_ E]]]]; rewrite E in H; inversion H; subst;
      rewrite <- app_assoc in Hin;
      exact (not_normal_start_in evH _ line hl (handle_pre _ _ _ _ Hh) Hc Hin).
Qed.

Lemma consume_nobody st : consume (WList []) st = [EvBody []].
Proof. reflexivity. Qed.

(* ------------------------------------------------------------------ *)
(* close at most once / exactly once                                   *)
(* ------------------------------------------------------------------ *)

Definition closer (w : wret) : option nat :=
  match w with
  | WWrap id true _ => Some id
  | WIter _ _ _ (Some id) => Some id
  | _ => None
  end.
Definition is_close_of (id : nat) (e : event) : bool :=
  match e with EvClose i => Nat.eqb i id | _ => false end.

Lemma close_events_closer w :
  close_events w = match closer w with Some id => [EvClose id] | None => [] end.
Proof. destruct w as [| id [|] c | m f r [id|] |]; reflexivity. Qed.

Lemma consume_closes (f : event -> bool) w st :
  f EvIterRaise = false -> (forall c, f (EvBody c) = false) ->
  count f (consume w st) = count f (match closer w with Some id => [EvClose id] | None => [] end).
Proof.
  intros H1 H2. destruct w as [cs | id hc content | m fi r cl |]; simpl.
  - unfold count. simpl. now rewrite H2.
  - unfold count. simpl. rewrite H2. destruct hc; reflexivity.
  - destruct (iter_rest m st r) as [c raised]. unfold count. simpl. rewrite H2.
    destruct raised; simpl; rewrite ?H1; destruct cl; reflexivity.
  - reflexivity.
Qed.

Lemma count_closer_le (w : wret) :
  count is_close (match closer w with Some id => [EvClose id] | None => [] end) <= 1.
Proof. destruct (closer w); simpl; unfold count; simpl; lia. Qed.

Lemma count_catchall_close ev st :
  count is_close (all_events (catchall env ev st)) = count is_close ev.
Proof.
  destruct (catchall_cases ev st) as [[_ ->]|[[_ [b [_ ->]]]|[_ [_ ->]]]]; cbn [all_events];
    rewrite ?count_app; unfold count at 2; simpl; unfold count; simpl; lia.
Qed.

Lemma close_at_most_once p : count is_close (all_events (wsgi env eh p)) <= 1.
Proof.
  destruct (wsgi_cases p) as [evH st0 o w0 st wrote hl Hh Hc Hl | evH st0 o Hh Hc | evH st0 o w0 st wrote Hh Hc Hl
                             | evH st0 o w0 st wrote Hh Hc He];
    [| | |cbn [all_events]; rewrite (pre_not is_close evH pre_no_close (handle_pre _ _ _ _ Hh)); lia].
  - cbn [all_events]. rewrite !count_app.
    rewrite (pre_not is_close evH pre_no_close (handle_pre _ _ _ _ Hh)).
    destruct (suppress st).
    + rewrite close_events_closer. pose proof (count_closer_le w0). unfold count at 2 3. simpl. lia.
    + rewrite (consume_closes is_close) by reflexivity. pose proof (count_closer_le w0).
      unfold count at 1 2. simpl. lia.
  - rewrite count_catchall_close.
    rewrite (pre_not is_close evH pre_no_close (handle_pre _ _ _ _ Hh)). lia.
  - rewrite count_catchall_close, count_app.
    rewrite (pre_not is_close evH pre_no_close (handle_pre _ _ _ _ Hh)).
    destruct (suppress st).
    + rewrite close_events_closer. pose proof (count_closer_le w0). lia.
    + unfold count. simpl. lia.
Qed.

Lemma pre_no_close_of id e : pre_event e = true -> is_close_of id e = false.
Proof. destruct e; simpl; congruence. Qed.

(* the object that became the response body is closed exactly once: by the
   framework when the body is suppressed, otherwise by the server *)
Lemma close_exactly_once p evH st0 o w0 st wrote id :
  handle p = (evH, st0, o) -> cast env eh cast_fuel 1 o st0 = CDone w0 st wrote ->
  headerlist st <> None -> closer w0 = Some id ->
  count (is_close_of id) (all_events (wsgi env eh p)) = 1.
Proof.
  intros Hh Hc Hl Hid. unfold wsgi, wsgi_tail, wsgi_tail_gen. rewrite Hh, Hc.
  assert (He : is_escape w0 = false) by (destruct w0; try reflexivity; discriminate Hid).
  rewrite He.
  destruct (headerlist st) as [hl|]; [clear Hl|congruence].
  fold (suppress st). destruct (suppress st); cbn [all_events]; rewrite !count_app;
    rewrite (pre_not (is_close_of id) evH (pre_no_close_of id) (handle_pre _ _ _ _ Hh)).
  - rewrite close_events_closer, Hid. unfold count. simpl. rewrite Nat.eqb_refl. reflexivity.
  - rewrite (consume_closes (is_close_of id)) by reflexivity. rewrite Hid.
    unfold count. simpl. rewrite Nat.eqb_refl. reflexivity.
Qed.

(* config.catchall = False: either the request never reaches the except clause and the outcome
   is the same, or the exception leaves wsgi() and start_response was not called at all *)
Lemma wsgi_nocatch_cases p :
  wsgi_nocatch env eh p = wsgi env eh p
  \/ exists ev, wsgi_nocatch env eh p = WsEscaped ev /\ count is_start ev = 0.
Proof.
  unfold wsgi_nocatch, wsgi, wsgi_tail_nocatch, wsgi_tail, wsgi_tail_gen.
  destruct (handle p) as [[evH st0] o] eqn:Hh.
  pose proof (pre_not is_start evH pre_no_start (handle_pre _ _ _ _ Hh)) as H0.
  destruct (cast env eh cast_fuel 1 o st0) as [w0 st wrote| |].
  - destruct (is_escape w0); [left; reflexivity|].
    destruct (if nobody (s_code st) || e_head env then (close_events w0, WList []) else ([], w0)) as [evC w'] eqn:E.
    destruct (headerlist st); [left; reflexivity|]. right. eexists. split; [reflexivity|].
    rewrite count_app, H0. destruct (nobody (s_code st) || e_head env); inversion E; subst;
      [apply close_events_no_start|reflexivity].
  - right. eexists. split; [reflexivity|exact H0].
  - left. reflexivity.
Qed.

End WithApp.

(* ------------------------------------------------------------------ *)
(* well-formed programs and the invariant of the response object       *)
(* ------------------------------------------------------------------ *)

(* first non-empty item of an iterable, as _cast's peek loop finds it *)
Fixpoint first_real (l : list item) : option (out * list item) :=
  match l with
  | IYield o :: rest => if falsy o then first_real rest else Some (o, rest)
  | _ => None
  end.

Section WF.
(* what the application's code is assumed to respect; each theorem instantiates
   the predicates it needs and leaves the others trivially true *)
Variable Pst : Z -> str -> Prop.       (* a (status code, status line) pair left by the status setter *)
Variable Pn : str -> Prop.             (* header names *)
Variable Pv : str -> Prop.             (* header values and cookie renderings *)
Variable Ptail : list item -> Prop.    (* the items after the first chunk of a bytes iterable *)
Variable Pesc : Prop.                  (* raising an exception that the except clauses let through (KeyboardInterrupt, ...) *)

Definition hs_ok (h : hdrs) : Prop := Forall (fun kv => Pn (fst kv) /\ Forall Pv (snd kv)) h.
Definition cs_ok (j : jar) : Prop := Forall (fun kv => Pv (snd kv)) j.

Fixpoint wf_out (o : out) : Prop :=
  match o with
  | OHttp _ r => wf_resp r
  | OIter _ _ items _ =>
      match first_real items with Some (OBytes _, rest) => Ptail rest | _ => True end
      /\ (fix go (l : list item) : Prop :=
            match l with [] => True | i :: t => wf_item i /\ go t end) items
  | OEscape _ => Pesc
  | _ => True
  end
with wf_item (i : item) : Prop :=
  match i with
  | IYield o => wf_out o
  | IRaiseHttp _ r => wf_resp r
  | IRaiseExc _ => True
  | IRaiseEsc _ => Pesc
  end
with wf_resp (r : resp) : Prop :=
  match r with
  | mkResp c l hs cs body _ _ _ _ => Pst c l /\ hs_ok hs /\ cs_ok cs /\ wf_out body
  end.

Definition wf_items (l : list item) : Prop := Forall wf_item l.

Lemma wf_items_go l :
  (fix go (l : list item) : Prop := match l with [] => True | i :: t => wf_item i /\ go t end) l <-> wf_items l.
Proof.
  unfold wf_items. induction l as [|i t IH]; simpl.
  - split; [constructor|trivial].
  - rewrite IH. split; [intros [A B]; now constructor|intros H; inversion H; auto].
Qed.

Definition wf_mut (m : mut) : Prop :=
  match m with
  | MStatus c l => Pst c l
  | MSetHeader n v | MAddHeader n v => Pn n /\ Pv v
  | MSetCookie _ v => Pv v
  | MHook _ | MDelHeader _ | MClearHeaders | MEnv _ _ => True
  end.
Definition wf_hres (h : hres) : Prop :=
  match h with HRet o => wf_out o | HRaiseHttp _ r => wf_resp r | HRaiseExc _ => True | HRaiseEsc _ => Pesc end.
Definition wf_hprog (h : hprog) : Prop := Forall wf_mut (h_muts h) /\ wf_hres (h_res h).
Definition wf_routing (rt : routing) : Prop :=
  match rt with
  | R404 None => True
  | R404 (Some h) => wf_hprog h
  | R405 allow => Pv allow
  | ROk rh h => Forall wf_hprog rh /\ wf_hprog h
  | RRaise _ => True
  end.
Definition wf_program (p : program) : Prop :=
  Forall wf_hprog (p_before p) /\ Forall wf_hprog (p_after p) /\ wf_routing (p_routing p).

Definition st_ok (st : rstate) : Prop := Pst (s_code st) (s_line st) /\ hs_ok (s_hs st) /\ cs_ok (s_cs st).

(* what the framework itself writes must be acceptable too *)
Hypothesis Pst_200 : Pst 200 (lit "200 OK").
Hypothesis Pst_500 : Pst 500 l500.
Hypothesis Pst_404 : Pst 404 (lit "404 Not Found").
Hypothesis Pst_405 : Pst 405 (lit "405 Method Not Allowed").
Hypothesis Pn_cl : Pn n_content_length.
Hypothesis Pn_ct : Pn n_content_type.
Hypothesis Pn_allow : Pn (lit "Allow").
Hypothesis Pv_dec : forall n, Pv (dec_str_of_nat n).
Hypothesis Pv_json : Pv v_app_json.

Lemma hs_ok_set k v h : Pn k -> Pv v -> hs_ok h -> hs_ok (h_set k v h).
Proof.
  intros Hk Hv. unfold hs_ok. induction h as [|[k' vs] t IH]; intros H; simpl.
  - constructor; [split; [exact Hk|now constructor]|constructor].
  - inversion H as [|? ? [Hk' Hvs] Ht]; subst. destruct (str_eqb k k').
    + constructor; [split; [exact Hk'|now constructor]|exact Ht].
    + constructor; [split; assumption|apply IH; exact Ht].
Qed.

Lemma hs_ok_append k v h : Pn k -> Pv v -> hs_ok h -> hs_ok (h_append k v h).
Proof.
  intros Hk Hv. unfold hs_ok. induction h as [|[k' vs] t IH]; intros H; simpl.
  - constructor; [split; [exact Hk|now constructor]|constructor].
  - inversion H as [|? ? [Hk' Hvs] Ht]; subst. destruct (str_eqb k k').
    + constructor; [split; [exact Hk'|]|exact Ht]. simpl in *.
      apply Forall_app. split; [exact Hvs|now constructor].
    + constructor; [split; assumption|apply IH; exact Ht].
Qed.

Lemma hs_ok_setdefault k v h : Pn k -> Pv v -> hs_ok h -> hs_ok (h_setdefault k v h).
Proof.
  intros Hk Hv H. unfold h_setdefault. destruct (h_mem k h); [exact H|].
  unfold hs_ok. apply Forall_app. split; [exact H|].
  constructor; [split; [exact Hk|now constructor]|constructor].
Qed.

Lemma cs_ok_set k v j : Pv v -> cs_ok j -> cs_ok (j_set k v j).
Proof.
  intros Hv. unfold cs_ok. induction j as [|[k' v'] t IH]; intros H; simpl.
  - now constructor.
  - inversion H; subst. destruct (str_eqb k k'); constructor; auto.
Qed.

Lemma st_ok_init : st_ok st_init.
Proof. unfold st_ok, st_init; simpl. repeat split; [exact Pst_200|constructor|constructor]. Qed.

Lemma st_ok_apply r st : wf_resp r -> st_ok st -> st_ok (apply r st).
Proof.
  destruct r as [c l hs cs body bt bj ej tb]. intros [H1 [H2 [H3 _]]] [S1 [S2 S3]].
  unfold st_ok, apply; simpl. repeat split; try assumption.
  destruct cs; assumption.
Qed.

Lemma st_ok_mut m st : wf_mut m -> st_ok st -> st_ok (apply_mut m st).
Proof.
  intros Hm [S1 [S2 S3]]. destruct m as [c l|n v|n v|n v|e|n| |im v]; simpl in *; unfold st_ok; simpl.
  - auto.
  - destruct Hm. repeat split; auto using hs_ok_set.
  - destruct Hm. repeat split; auto using hs_ok_append.
  - repeat split; auto using cs_ok_set.
  - auto.
  - repeat split; auto. unfold hs_ok in *. apply Forall_forall. intros x Hx. apply filter_In in Hx.
    rewrite Forall_forall in S2. apply S2. tauto.
  - repeat split; auto. constructor.
  - auto.
Qed.

Lemma st_ok_muts ms : forall st, Forall wf_mut ms -> st_ok st -> st_ok (apply_muts ms st).
Proof.
  unfold apply_muts. induction ms as [|m t IH]; intros st H S; simpl; [exact S|].
  inversion H; subst. apply IH; [assumption|]. now apply st_ok_mut.
Qed.

Definition wf_res (r : out + exn) : Prop :=
  match r with
  | inl o => wf_out o
  | inr (XHttp _ x) => wf_resp x
  | inr (XExc _) => True
  | inr (XEsc _) => Pesc
  end.
Definition wf_xopt (x : option exn) : Prop :=
  match x with Some (XHttp _ r) => wf_resp r | Some (XEsc _) => Pesc | _ => True end.

Lemma run_prog_ok h st : wf_hprog h -> st_ok st -> st_ok (fst (run_prog h st)) /\ wf_res (snd (run_prog h st)).
Proof.
  intros [Hm Hr] S. unfold run_prog. pose proof (st_ok_muts _ _ Hm S) as S1.
  destruct (h_res h); simpl in *; auto.
Qed.

Lemma run_hooks_ok tag hs : forall st ev st' x,
  Forall (fun ih => wf_hprog (snd ih)) hs -> st_ok st ->
  run_hooks tag hs st = (ev, st', x) -> st_ok st' /\ wf_xopt x.
Proof.
  induction hs as [|[i h] t IH]; intros st ev st' x Hw S H; simpl in H.
  - inversion H; subst. split; [exact S|exact I].
  - inversion Hw as [|? ? Hh Ht]; subst. simpl in Hh.
    destruct (run_prog_ok h st Hh S) as [S1 R1].
    destruct (run_prog h st) as [st1 [o|e]]; simpl in *.
    + destruct (run_hooks tag t st1) as [[ev2 st2] x2] eqn:Hr. inversion H; subst.
      eapply IH; eassumption.
    + inversion H; subst. split; [exact S1|]. destruct e; exact R1.
Qed.

Lemma indexed_ok {A} (P : A -> Prop) (l : list A) : Forall P l -> Forall (fun ih => P (snd ih)) (indexed l).
Proof.
  unfold indexed. generalize 0. induction l as [|a t IH]; intros n H; simpl; [constructor|].
  inversion H; subst. constructor; [assumption|]. apply IH. assumption.
Qed.

Lemma wf_err_fw c l text ej tb hs : Pst c l -> hs_ok hs -> wf_resp (mk_err c l text ej tb hs).
Proof. intros H1 H2. unfold mk_err; simpl. repeat split; try assumption. constructor. Qed.

Lemma wf_err404 : wf_resp err404.
Proof. apply wf_err_fw; [exact Pst_404|constructor]. Qed.
Lemma wf_err405 allow : Pv allow -> wf_resp (err405 allow).
Proof.
  intros H. apply wf_err_fw; [exact Pst_405|].
  constructor; [split; [exact Pn_allow|now constructor]|constructor].
Qed.
Lemma wf_err500 text ej tb : wf_resp (mk_err 500 l500 text ej tb []).
Proof. apply wf_err_fw; [exact Pst_500|constructor]. Qed.

Lemma wf_handle500 j : wf_out (OHttp true (err_handle500 j)).
Proof. change (wf_resp (mk_err 500 l500 (lit "Internal Server Error") j true [])). apply wf_err500. Qed.
Lemma wf_unhandled j : wf_out (OHttp true (err_unhandled j)).
Proof. change (wf_resp (mk_err 500 l500 (lit "Unhandled exception") j true [])). apply wf_err500. Qed.
Lemma wf_unsupported ty : wf_out (OHttp true (err_unsupported ty)).
Proof.
  change (wf_resp (mk_err 500 l500 (lit "Unsupported response type: " ++ ty) ejson_none false [])).
  apply wf_err500.
Qed.
Lemma wf_too_many : wf_resp err_too_many.
Proof. apply wf_err500. Qed.

Lemma route_and_call_ok rt st ev st' r :
  wf_routing rt -> st_ok st -> route_and_call rt st = (ev, st', r) -> st_ok st' /\ wf_res r.
Proof.
  unfold route_and_call. destruct rt as [[h|]|allow|rh h|j]; simpl; intros Hw S H.
  - destruct (run_prog_ok h st Hw S) as [S1 R1]. destruct (run_prog h st) as [st1 r1].
    inversion H; subst. auto.
  - inversion H; subst. split; [exact S|exact wf_err404].
  - inversion H; subst. split; [exact S|now apply wf_err405].
  - destruct Hw as [Hrh Hh].
    destruct (run_hooks EvRouteHook (indexed rh) st) as [[ev1 st1] x] eqn:Hr.
    destruct (run_hooks_ok _ _ _ _ _ _ (indexed_ok _ _ Hrh) S Hr) as [S1 X1].
    destruct x as [x|].
    + inversion H; subst. split; [exact S1|]. destruct x; exact X1.
    + destruct (run_prog_ok h st1 Hh S1) as [S2 R2]. destruct (run_prog h st1) as [st2 r2].
      inversion H; subst. auto.
  - inversion H; subst. split; [exact S|exact I].
Qed.

Lemma Forall_rev' {A} (P : A -> Prop) l : Forall P l -> Forall P (rev l).
Proof. intros H. apply Forall_forall. intros x Hx. rewrite Forall_forall in H. apply H. now apply in_rev. Qed.

Lemma remove_first_Forall (P : nat * hprog -> Prop) j l : Forall P l -> Forall P (remove_first j l).
Proof.
  induction l as [|[i h] t IH]; intros H; simpl; [constructor|].
  inversion H; subst. destruct (Nat.eqb i j); [assumption|]. constructor; auto.
Qed.

Lemma after_call_list_ok p :
  Forall wf_hprog (p_after p) -> Forall (fun ih => wf_hprog (snd ih)) (after_call_list p).
Proof.
  intros Ha. unfold after_call_list.
  assert (H0 : Forall (fun ih : nat * hprog => wf_hprog (snd ih)) (rev (indexed (p_after p))))
    by (apply Forall_rev', indexed_ok; exact Ha).
  revert H0. generalize (rev (indexed (p_after p))).
  generalize (edits_of (ran_prefix (p_before p)
                        ++ (if all_ret (p_before p) then routing_progs (p_routing p) else []))).
  intros es. induction es as [|e t IH]; intros l Hl; simpl; [exact Hl|].
  apply IH. destruct e as [[|] j|[|] j]; simpl; try exact Hl.
  - now apply remove_first_Forall.
  - constructor; [|exact Hl]. simpl. split; [constructor|exact I].
Qed.

Lemma handle_ok p ev st o : wf_program p -> handle p = (ev, st, o) -> st_ok st /\ wf_out o.
Proof.
  intros [Hb [Ha Hr]]. unfold handle, handle_from.
  destruct (run_hooks EvHookB (indexed (p_before p)) st_init) as [[evB st1] xB] eqn:HB.
  destruct (run_hooks_ok _ _ _ _ _ _ (indexed_ok _ _ Hb) st_ok_init HB) as [S1 X1].
  destruct (match xB with Some x => ([], st1, inr x) | None => route_and_call (p_routing p) st1 end)
    as [[evM st2] resM] eqn:HM.
  assert (S2 : st_ok st2 /\ wf_res resM).
  { destruct xB as [x|].
    - inversion HM; subst. split; [exact S1|]. destruct x; exact X1.
    - eapply route_and_call_ok; eassumption. }
  destruct S2 as [S2 R2].
  destruct (run_hooks EvHookA (after_call_list p) st2) as [[evA st3] xA] eqn:HA.
  destruct (run_hooks_ok _ _ _ _ _ _ (after_call_list_ok p Ha) S2 HA) as [S3 X3].
  intros H. inversion H; subst. split; [exact S3|].
  destruct xA as [[e r|j|b]|].
  - exact X3.
  - apply wf_handle500.
  - exact X3.
  - destruct resM as [o'|[e r|j|b]]; [exact R2|exact R2|apply wf_handle500|exact R2].
Qed.

(* ---- the casting loop preserves the invariant ---- *)
Variable env : cenv.
Variable eh : Z -> option (resp -> ehres).
(* custom error handlers return well-formed values when given well-formed errors *)
Hypothesis eh_wf : forall c h r o, eh c = Some h -> wf_resp r -> h r = ERet o -> wf_out o.
(* ... and raise such exceptions only where the program may *)
Hypothesis eh_esc : forall c h r, eh c = Some h -> wf_resp r -> h r = ERaise false -> Pesc.
Hypothesis Ptail_nil : Ptail [].

Definition w_ok (w : wret) : Prop :=
  match w with WIter MBytes _ rest _ => Ptail rest | WEscape => Pesc | _ => True end.

Definition step_inv (sr : step_res) : Prop :=
  match sr with
  | SCont o' st' => wf_out o' /\ st_ok st'
  | SDone w st' _ => st_ok st' /\ w_ok w
  | SRaise => True
  end.

Lemma st_ok_hs st h : st_ok st -> hs_ok h -> st_ok (st_hs st h).
Proof. intros [S1 [S2 S3]] H. unfold st_ok, st_hs; simpl. auto. Qed.

Lemma default_eh_ok r st pg st' : st_ok st -> default_eh env r st = Some (pg, st') -> st_ok st'.
Proof.
  intros S. unfold default_eh. destruct (e_json env).
  - destruct (r_bjson r); [|discriminate]. intros H; inversion H; subst.
    apply st_ok_hs; [exact S|]. apply hs_ok_set; [exact Pn_ct|exact Pv_json|apply S].
  - destruct (html_page r (e_url env)); [|discriminate]. intros H; inversion H; subst. exact S.
Qed.

Lemma first_real_falsy o rest : falsy o = true -> first_real (IYield o :: rest) = first_real rest.
Proof. intros H. simpl. now rewrite H. Qed.

Lemma peek_ok items close st :
  wf_items items ->
  match first_real items with Some (OBytes _, rest) => Ptail rest | _ => True end ->
  st_ok st -> step_inv (peek items close st).
Proof.
  intros Hw Ht S. induction items as [|i rest IH]; cbn [peek].
  - split; [exact I|exact S].
  - inversion Hw as [|? ? Hi Hrest]; subst. destruct i as [o|e r|j|b].
    + destruct (falsy o) eqn:Hf.
      * apply IH; [exact Hrest|]. rewrite first_real_falsy in Ht by exact Hf. exact Ht.
      * simpl in Ht. rewrite Hf in Ht.
        destruct o as [|s|b|e r|id hc hi c ty|id hc its ty|ty ej|b0]; cbv beta iota.
        -- discriminate Hf.
        -- destruct (encode st s); [split; [exact S|exact I]|exact I].
        -- split; [exact S|exact Ht].
        -- split; [exact Hi|exact S].
        -- split; [apply wf_unsupported|exact S].
        -- split; [apply wf_unsupported|exact S].
        -- split; [apply wf_unsupported|exact S].
        -- split; [apply wf_unsupported|exact S].
    + split; [exact Hi|exact S].
    + split; [apply wf_unhandled|exact S].
    + split; [exact Hi|exact S].
Qed.

Lemma done_bytes_ok b st : st_ok st -> step_inv (done_bytes b st).
Proof.
  intros S. unfold done_bytes. simpl. split; [|exact I].
  apply st_ok_hs; [exact S|]. apply hs_ok_setdefault; [exact Pn_cl|apply Pv_dec|apply S].
Qed.

Lemma step_body_ok o st : wf_out o -> st_ok st -> step_inv (step_body env eh o st).
Proof.
  intros Hw S. unfold step_body. destruct (falsy o) eqn:Hf.
  - split; [|exact I]. apply st_ok_hs; [exact S|].
    apply hs_ok_setdefault; [exact Pn_cl| |apply S].
    change (lit "0") with (dec_str_of_nat 0). apply Pv_dec.
  - destruct o as [|s|b|e r|id hc hi c ty|id hc its ty|ty ej|b0]; cbv beta iota.
    + exact I.
    + destruct (encode st s); [apply done_bytes_ok; exact S|exact I].
    + apply done_bytes_ok; exact S.
    + assert (Hr : wf_resp r) by exact Hw.
      pose proof (st_ok_apply r st Hr S) as S1.
      destruct e; cbv beta iota.
      * destruct (eh (r_code r)) as [h|] eqn:He.
        -- destruct (h r) as [o'|[|]] eqn:Hh; [|exact I|split; [exact S1|eapply eh_esc; eassumption]].
           split; [eapply eh_wf; eassumption|exact S1].
        -- destruct (default_eh env r (apply r st)) as [[pg st2]|] eqn:Hd; [|exact I].
           split; [exact I|eapply default_eh_ok; eassumption].
      * split; [|exact S1]. destruct r as [c l hs cs body bt bj ej tb]. cbn [r_body].
        exact (proj2 (proj2 (proj2 Hr))).
    + destruct (e_fw env); [split; [exact S|exact I]|].
      destruct (hc || negb hi); [split; [exact S|exact I]|].
      apply peek_ok; [| |exact S].
      * unfold file_items. destruct c; [constructor|]. constructor; [exact I|constructor].
      * unfold file_items. destruct c; [exact I|]. exact Ptail_nil.
    + destruct Hw as [Ht Hits]. apply wf_items_go in Hits.
      apply peek_ok; assumption.
    + split; [apply wf_unhandled|exact S].
    + destruct b0; [exact I|split; [exact S|exact Hw]].
Qed.

Lemma step_ok cnt o st : wf_out o -> st_ok st -> step_inv (step env eh cnt o st).
Proof.
  intros Hw S. unfold step. destruct (Nat.ltb 1000 cnt); [|now apply step_body_ok].
  pose proof (st_ok_apply _ st wf_too_many S) as S1.
  destruct (default_eh env err_too_many (apply err_too_many st)) as [[pg st2]|] eqn:Hd; [|exact I].
  apply step_body_ok; [exact I|]. eapply default_eh_ok; eassumption.
Qed.

Lemma cast_ok fuel : forall cnt o st, wf_out o -> st_ok st ->
  match cast env eh fuel cnt o st with CDone w st' _ => st_ok st' /\ w_ok w | _ => True end.
Proof.
  induction fuel as [|f IH]; intros cnt o st Hw S; cbn [cast]; [exact I|].
  pose proof (step_ok cnt o st Hw S) as H.
  destruct (step env eh cnt o st) as [o' st'|w st' b|]; simpl in H.
  - apply IH; tauto.
  - exact H.
  - exact I.
Qed.

(* the response object at the time start_response is called, and the returned object *)
Lemma wsgi_invariant p evH st0 o w0 st wrote :
  wf_program p -> handle p = (evH, st0, o) -> cast env eh cast_fuel 1 o st0 = CDone w0 st wrote ->
  st_ok st /\ w_ok w0.
Proof.
  intros Hp Hh Hc. destruct (handle_ok p evH st0 o Hp Hh) as [S0 W0].
  pose proof (cast_ok cast_fuel 1 o st0 W0 S0) as H. rewrite Hc in H. exact H.
Qed.

End WF.
