(* C01_parse_rule.v — Route.parse_rule on printed rules: the result depends only
   on the ABSTRACT rule (literal text, wildcard names, filter names and
   arguments, selectors), not on the syntax flavour it is written in. *)
From Verif Require Import lib.Base lib.Str lib.PyIntDec model.RuleParser model.ParseRule
     proofs.C01_parser.

(* an abstract wildcard: optional name, optional (filter, optional args), optional selector *)
Record aw := mkAw { aw_name : option str; aw_flt : option (str * option str); aw_sel : option str }.

Definition abs_of_seg (sg : seg) : str + aw :=
  match sg with
  | SLit s => inl s
  | SPar fl name flt args sel =>
    inr (match fl with
         | FColon => mkAw (match name with [] => None | _ => Some name end) None None
         | FPlain _ => mkAw (Some name) None None
         | FNameFlt _ | FNameDot _ => mkAw (Some name) (Some (flt, None)) None
         | FNameFltArgs _ => mkAw (Some name) (Some (flt, Some args)) None
         | FNameDotParen _ => mkAw (Some name) (Some (flt, Some args)) sel
         | FBottle _ => mkAw None (Some (flt, None)) None
         | FBottleArgs _ | FBottleParen _ => mkAw None (Some (flt, Some args)) None
         | FFltParen _ => mkAw None (Some (flt, Some args)) sel
         end)
  end.

(* the item the parser yields for an abstract segment followed by literal [nxt]
   (the path filter takes the following literal text as its arguments) *)
Definition item_of_abs (a : str + aw) (nxt : str) : item :=
  match a with
  | inl s => mkItem (Some s) None None None None
  | inr w =>
    match aw_flt w with
    | None => mkItem None (aw_name w) None None (aw_sel w)
    | Some (flt, args) =>
      mkItem None (aw_name w) (Some flt)
             (if str_eqb flt path_name then Some nxt else args) (aw_sel w)
    end
  end.

Definition next_lit (l : list (str + aw)) : str :=
  match l with inl s :: _ => s | _ => [] end.

Fixpoint items_abs (l : list (str + aw)) : list item :=
  match l with [] => [] | a :: r => item_of_abs a (next_lit r) :: items_abs r end.

Lemma following_lit_abs r : following_lit r = next_lit (map abs_of_seg r).
Proof. destruct r as [|[s|fl name flt args sel] r]; reflexivity. Qed.

Lemma item_of_is_abs sg r : item_of sg r = item_of_abs (abs_of_seg sg) (following_lit r).
Proof.
  destruct sg as [s|fl name flt args sel]; [reflexivity|].
  destruct fl as [|d|d|d|d|d|d|d|d|d]; cbn [item_of abs_of_seg item_of_abs aw_flt aw_name aw_sel];
    try reflexivity.
Qed.

Lemma items_of_is_abs l : items_of l = items_abs (map abs_of_seg l).
Proof.
  induction l as [|sg r IH]; [reflexivity|].
  cbn [items_of map items_abs]. rewrite item_of_is_abs, following_lit_abs, IH. reflexivity.
Qed.

Section Flavours.
Variable wordc : N -> bool.
Hypothesis wordc_delims :
  forall c, In c [ch_slash; ch_gt; ch_rbrace; ch_dot; ch_colon; ch_lpar] -> wordc c = false.

(* what Route.parse_rule returns for a printed well-formed rule *)
Theorem parse_rule_print l :
  segs_ok wordc l ->
  parse_rule wordc (ch_slash :: print l)
  = inr (fold_items (items_abs (map abs_of_seg l)) 0 (mkParsed [] [] [] [])).
Proof.
  intros Hok. unfold parse_rule. change (N.eqb ch_slash ch_slash) with true. cbn iota.
  rewrite (parse_print wordc wordc_delims l Hok), items_of_is_abs. reflexivity.
Qed.

(* flavour independence *)
Theorem parse_rule_flavour_independent l l' :
  segs_ok wordc l -> segs_ok wordc l' ->
  map abs_of_seg l = map abs_of_seg l' ->
  parse_rule wordc (ch_slash :: print l) = parse_rule wordc (ch_slash :: print l').
Proof.
  intros H H' E. rewrite (parse_rule_print l H), (parse_rule_print l' H'), E. reflexivity.
Qed.

End Flavours.

(* non-vacuity: <id:int> / {id.int} / <id.int()>-free spellings of one abstract rule *)
Definition rule_a : list seg :=
  [SLit [117; 47]%N; SPar (FNameFlt DLt) [105; 100]%N [105; 110; 116]%N [] None; SLit [47]%N;
   SPar (FPlain DBrace) [110]%N [] [] None].
Definition rule_b : list seg :=
  [SLit [117; 47]%N; SPar (FNameDot DBrace) [105; 100]%N [105; 110; 116]%N [] None; SLit [47]%N;
   SPar FColon [110]%N [] [] None].

Lemma rules_ab_ok : segs_ok ascii_wordc rule_a /\ segs_ok ascii_wordc rule_b
                    /\ map abs_of_seg rule_a = map abs_of_seg rule_b /\ print rule_a <> print rule_b.
Proof. vm_compute. intuition discriminate. Qed.
