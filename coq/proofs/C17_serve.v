(* C17_serve.v — _file_iter_range delivers exactly the slice in bounded chunks
   (fuel suffices), and static_file's responses are consistent with it. *)
From Verif Require Import lib.Base lib.ListX lib.Str lib.PyIntParse model.Static model.Range
     proofs.C17_range.
From Coq Require Import ZifyBool.
Local Open Scope Z_scope.

Definition chunk_ok (maxread : Z) (c : list N) : Prop :=
  (0 < length c)%nat /\ Z.of_nat (length c) <= maxread.

Lemma firstn_len_le {A} n (l : list A) : (length (firstn n l) <= n)%nat.
Proof. rewrite firstn_length. lia. Qed.

Lemma is_nil_length {A} (l : list A) : is_nil l = true <-> length l = 0%nat.
Proof. destruct l; simpl; split; congruence. Qed.

(* loop invariant: [part] is the read just made at position pos0 *)
Lemma iter_loop_spec : forall fuel file pos0 bl mr,
  0 < mr -> 0 <= bl -> (length (skipn pos0 file) < fuel)%nat ->
  let part := firstn (Z.to_nat (Z.min bl mr)) (skipn pos0 file) in
  exists cs, iter_loop fuel file (pos0 + length part) bl mr part = IterOk cs
             /\ concat cs = firstn (Z.to_nat bl) (skipn pos0 file)
             /\ Forall (chunk_ok mr) cs.
Proof.
  induction fuel as [|f IH]; intros file pos0 bl mr Hmr Hbl Hfuel part; [lia|].
  cbn [iter_loop].
  set (rest := skipn pos0 file) in *.
  destruct ((0 <? bl) && negb (is_nil part)) eqn:C.
  - (* yield part, read again *)
    apply andb_true_iff in C as [C1 C2]. apply Z.ltb_lt in C1.
    assert (Hpl : (0 < length part)%nat).
    { destruct part; [discriminate|simpl; lia]. }
    assert (Hple : (length part <= Z.to_nat (Z.min bl mr))%nat) by apply firstn_len_le.
    remember (bl - Z.of_nat (length part)) as bl' eqn:Ebl'.
    assert (Hbl' : 0 <= bl') by lia.
    unfold fread.
    destruct (Z.ltb_spec (Z.min bl' mr) (-1)); [lia|].
    destruct (Z.eqb_spec (Z.min bl' mr) (-1)); [lia|].
    assert (Hrest : skipn (pos0 + length part) file = skipn (length part) rest).
    { unfold rest. now rewrite skipn_skipn. }
    assert (Hlen : (length (skipn (pos0 + length part) file) < f)%nat).
    { assert (length part <= length rest)%nat by (unfold part; rewrite firstn_length; lia).
      rewrite Hrest, skipn_length. lia. }
    destruct (IH file (pos0 + length part)%nat bl' mr Hmr Hbl' Hlen) as (cs & E & Hc & Hf).
    rewrite E. cbn [cons_chunk]. exists (part :: cs). split; [reflexivity|]. split.
    + cbn [concat]. rewrite Hc, Hrest.
      set (k := Z.to_nat (Z.min bl mr)) in *.
      destruct (Nat.le_gt_cases k (length rest)) as [Hk|Hk].
      * assert (Hpk : length part = k) by (unfold part; rewrite firstn_length; lia).
        replace (Z.to_nat bl') with (Z.to_nat bl - k)%nat by lia.
        rewrite Hpk. unfold part. apply firstn_firstn_skipn. lia.
      * assert (Hp : part = rest) by (unfold part; apply firstn_all2; lia).
        rewrite Hp, skipn_all, firstn_nil, app_nil_r.
        symmetry. apply firstn_all2. lia.
    + constructor; [|exact Hf]. split; [exact Hpl|]. lia.
  - (* loop ends *)
    exists []. split; [reflexivity|]. split; [|constructor].
    cbn [concat]. apply andb_false_iff in C as [C|C].
    + apply Z.ltb_ge in C. replace bl with 0 by lia. reflexivity.
    + apply negb_false_iff, is_nil_length in C.
      unfold part in C. rewrite firstn_length in C.
      destruct (Z.ltb_spec 0 bl) as [Hpos|]; [|replace bl with 0 by lia; reflexivity].
      assert (length rest = 0%nat) by lia.
      destruct rest; [now rewrite firstn_nil|discriminate].
Qed.

(* _file_iter_range on a legal call: exactly file[offset : offset+n], in
   non-empty chunks of at most maxread bytes; the fuel of the model suffices *)
Lemma file_iter_range_spec : forall file offset n maxread,
  0 <= offset -> 0 <= n -> 0 < maxread ->
  exists cs, file_iter_range file offset n maxread = IterOk cs
             /\ concat cs = slice file (Z.to_nat offset) (Z.to_nat (offset + n))
             /\ Forall (chunk_ok maxread) cs.
Proof.
  intros file offset n mr Ho Hn Hmr. unfold file_iter_range, fread.
  destruct (Z.ltb_spec offset 0); [lia|].
  destruct (Z.ltb_spec (Z.min n mr) (-1)); [lia|].
  destruct (Z.eqb_spec (Z.min n mr) (-1)); [lia|].
  assert (Hf : (length (skipn (Z.to_nat offset) file) < S (length file))%nat)
    by (rewrite skipn_length; lia).
  destruct (iter_loop_spec (S (length file)) file (Z.to_nat offset) n mr Hmr Hn Hf) as (cs & E & Hc & Hb).
  exists cs. split; [exact E|]. split; [|exact Hb].
  rewrite Hc. unfold slice. f_equal. lia.
Qed.

(* ------------------------------------------------------------------ *)
(* static_file after the path checks                                   *)
(* ------------------------------------------------------------------ *)
Section Serve.
Variable pint : str -> option Z.
Variable parse_date : str -> option Z.

Definition not_modified (mtime : Z) (ims_hdr : option str) : bool :=
  match ims_value parse_date ims_hdr with Some t => mtime <=? t | None => false end.

Definition range_given (range_hdr : option str) : option str :=
  match range_hdr with Some h => if is_nil h then None else Some h | None => None end.

Lemma sf_serve_cases file mtime ims_hdr head range_hdr mr :
  sf_serve pint parse_date file mtime ims_hdr head range_hdr mr =
  let clen := Z.of_nat (length file) in
  if not_modified mtime ims_hdr then
    mkResp 304 (Some (dec_of_Z clen)) None false true true false BText
  else match range_given range_hdr with
       | None => mkResp 200 (Some (dec_of_Z clen)) None true true false (negb head)
                        (if head then BText else BFile)
       | Some h =>
         match get_first_range pint h clen with
         | None => mkResp 416 None None false false false (negb head) BText
         | Some (s, e) => mkResp 206 (Some (dec_of_Z (e - s))) (Some (content_range s e clen))
                                 true true false (negb head)
                                 (if head then BText else BIter (file_iter_range file s (e - s) mr))
         end
       end.
Proof.
  unfold sf_serve, not_modified, range_given.
  destruct (ims_value parse_date ims_hdr) as [t|]; [destruct (mtime <=? t)|];
    try reflexivity; destruct range_hdr as [h|]; try reflexivity; destruct (is_nil h); reflexivity.
Qed.

(* 206: Content-Range, Content-Length and the delivered bytes describe the same
   slice [s, e) with 0 <= s < e <= len; chunks are bounded; fuel suffices *)
Lemma consistent_206_lemma :
  forall file mtime ims_hdr range_hdr maxread h,
    0 < maxread ->
    not_modified mtime ims_hdr = false ->
    range_given range_hdr = Some h ->
    let len := Z.of_nat (length file) in
    let r := sf_serve pint parse_date file mtime ims_hdr false range_hdr maxread in
    match get_first_range pint h len with
    | None => r_status r = 416 /\ body_bytes file (r_body r) = []
    | Some (s, e) =>
      0 <= s /\ s < e /\ e <= len
      /\ r_status r = 206
      /\ r_crange r = Some (content_range s e len)
      /\ r_clen r = Some (dec_of_Z (e - s))
      /\ exists cs, r_body r = BIter (IterOk cs)
                    /\ concat cs = slice file (Z.to_nat s) (Z.to_nat e)
                    /\ Z.of_nat (length (concat cs)) = e - s
                    /\ Forall (chunk_ok maxread) cs
    end.
Proof.
  intros file mtime ims_hdr range_hdr mr h Hmr Hnm Hrg len r.
  unfold r. rewrite sf_serve_cases. cbv zeta. rewrite Hnm, Hrg. fold len.
  destruct (get_first_range pint h len) as [[s e]|] eqn:G; [|split; reflexivity].
  destruct (range_sound_lemma _ _ _ _ _ G) as (H0 & H1 & H2).
  repeat (split; [assumption || reflexivity|]).
  cbn [r_body].
  destruct (file_iter_range_spec file s (e - s) mr) as (cs & E & Hc & Hb); try lia.
  exists cs. rewrite E. replace (s + (e - s)) with e in Hc by lia.
  repeat split; try assumption.
  rewrite Hc. unfold slice. rewrite firstn_length, skipn_length. unfold len in H2. lia.
Qed.

(* 200: no (or an empty) Range header: the whole file, its true length *)
Lemma whole_200_lemma :
  forall file mtime ims_hdr range_hdr maxread,
    not_modified mtime ims_hdr = false ->
    range_given range_hdr = None ->
    let r := sf_serve pint parse_date file mtime ims_hdr false range_hdr maxread in
    r_status r = 200 /\ r_clen r = Some (dec_of_Z (Z.of_nat (length file))) /\ r_crange r = None
    /\ r_body r = BFile /\ body_bytes file (r_body r) = file.
Proof.
  intros file mtime ims_hdr range_hdr mr Hnm Hrg r. unfold r.
  rewrite sf_serve_cases. cbv zeta. rewrite Hnm, Hrg. repeat split.
Qed.

(* conditional requests *)
Lemma conditional_lemma :
  forall file mtime ims_hdr head range_hdr maxread,
    let r := sf_serve pint parse_date file mtime ims_hdr head range_hdr maxread in
    (forall t, ims_value parse_date ims_hdr = Some t -> mtime <= t ->
       r_status r = 304 /\ r_body r = BText /\ body_bytes file (r_body r) = [] /\ r_opened r = false
       /\ r_crange r = None)
    /\ ((ims_value parse_date ims_hdr = None \/ exists t, ims_value parse_date ims_hdr = Some t /\ t < mtime) ->
       r_status r = 200 \/ r_status r = 206 \/ r_status r = 416).
Proof.
  intros file mtime ims_hdr head range_hdr mr r. unfold r. rewrite sf_serve_cases. cbv zeta.
  unfold not_modified. split.
  - intros t Ht Hle. rewrite Ht. destruct (Z.leb_spec mtime t); [|lia]. repeat split.
  - intros H.
    assert (E : match ims_value parse_date ims_hdr with Some t => mtime <=? t | None => false end = false).
    { destruct H as [->|(t & -> & Hlt)]; [reflexivity|]. apply Z.leb_gt. exact Hlt. }
    rewrite E. destruct (range_given range_hdr) as [h|]; [|now left].
    destruct (get_first_range pint h _) as [[s e]|]; cbn [r_status]; auto.
Qed.

(* an absent or empty If-Modified-Since header never calls parse_date and never gives 304 *)
Lemma ims_absent_lemma :
  forall ims_hdr, ims_hdr = None \/ ims_hdr = Some [] -> ims_value parse_date ims_hdr = None.
Proof. intros ims_hdr [->| ->]; reflexivity. Qed.

(* HEAD: the same status and headers as GET, no body, the file is not opened *)
Lemma head_lemma :
  forall file mtime ims_hdr range_hdr maxread,
    let g := sf_serve pint parse_date file mtime ims_hdr false range_hdr maxread in
    let h := sf_serve pint parse_date file mtime ims_hdr true range_hdr maxread in
    r_status h = r_status g /\ r_clen h = r_clen g /\ r_crange h = r_crange g
    /\ r_accept h = r_accept g /\ r_lastmod h = r_lastmod g /\ r_date h = r_date g
    /\ r_body h = BText /\ body_bytes file (r_body h) = [] /\ r_opened h = false.
Proof.
  intros file mtime ims_hdr range_hdr mr g h. unfold g, h. rewrite !sf_serve_cases. cbv zeta.
  destruct (not_modified mtime ims_hdr); [repeat split|].
  destruct (range_given range_hdr) as [hd|]; [|repeat split].
  destruct (get_first_range pint hd _) as [[s e]|]; repeat split.
Qed.
End Serve.

(* ------------------------------------------------------------------ *)
(* presentation headers (static_file l.86-98)                          *)
(* ------------------------------------------------------------------ *)
Lemma basename_aux_nosep : forall p acc,
  contains_char N.eqb SEP acc = false -> contains_char N.eqb SEP (basename_aux p acc) = false.
Proof.
  induction p as [|c p IH]; intros acc Ha; cbn [basename_aux]; [exact Ha|].
  destruct (N.eqb c SEP) eqn:E; [apply IH; reflexivity|].
  apply IH. unfold contains_char in *. rewrite existsb_app, Ha. cbn [existsb]. now rewrite E.
Qed.

(* whatever is accepted as Content-Encoding / Content-Type / Content-Disposition
   is free of CR, LF and NUL (otherwise the call raises ValueError), and the
   file name offered for download is a base name: it contains no '/' *)
Lemma present_lemma :
  forall filename guess mimetype charset download e t d,
    sf_present filename guess mimetype charset download = Some (e, t, d) ->
    (forall v, e = Some v \/ t = Some v \/ d = Some v -> has_ctl v = false)
    /\ match download with
       | DNo => d = None
       | DTrue => d = Some (s_attach ++ basename filename ++ [34%N])
                  /\ contains_char N.eqb SEP (basename filename) = false
       | DName n => d = Some (s_attach ++ basename n ++ [34%N])
                    /\ contains_char N.eqb SEP (basename n) = false
       end.
Proof.
  intros filename guess mimetype charset download e t d. unfold sf_present. cbv zeta.
  destruct (bad_hval (snd (present_mime guess mimetype))
            || bad_hval (present_ctype (fst (present_mime guess mimetype)) charset)
            || bad_hval (present_cdisp filename download)) eqn:C; [discriminate|].
  intros [= <- <- <-]. apply orb_false_iff in C as [C Cd]. apply orb_false_iff in C as [Ce Ct].
  split.
  - intros v [H|[H|H]]; [rewrite H in Ce; exact Ce | rewrite H in Ct; exact Ct | rewrite H in Cd; exact Cd].
  - destruct download; [reflexivity| |]; (split; [reflexivity|apply basename_aux_nosep; reflexivity]).
Qed.
