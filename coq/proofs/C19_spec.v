(* C19_spec.v — the SPEC side of C19 (definitions only, no proofs):
   what Route.url is supposed to compute, written by recursion over the rule's
   segments with no index bookkeeping, and the side conditions of the
   theorems. *)
From Verif Require Import lib.Base lib.Str lib.PyIntDec model.RouteSpec model.RouteUrl.
Local Open Scope N_scope.

(* literal chunks of a rule never contain the wildcard marker *)
Definition lit_ok (s : str) : bool := negb (existsb (fun c => c =? CR) s).

Definition lits_ok (p : pat) : bool :=
  forallb (fun sg => match sg with Lit s => lit_ok s | Wild _ => true end) p.

Fixpoint nwild (p : pat) : nat :=
  match p with
  | [] => 0
  | Lit _ :: r => nwild r
  | Wild _ :: r => S (nwild r)
  end.

(* the literal text between here and the next wildcard *)
Fixpoint next_lit (p : pat) : str :=
  match p with
  | Lit s :: r => s ++ next_lit r
  | _ => []
  end.

(* the rule with its wildcards filled by the given texts, literals verbatim
   and in order *)
Fixpoint fill (p : pat) (texts : list str) : str :=
  match p with
  | [] => []
  | Lit s :: r => s ++ fill r texts
  | Wild _ :: r => match texts with
                   | t :: ts => t ++ fill r ts
                   | [] => fill r []
                   end
  end.

(* text accumulated so far; None = some piece is not a str, ''.join will raise *)
Definition push (acc : option str) (v : pyval) : option str :=
  match acc, v with
  | Some t, PStr s => Some (t ++ s)
  | _, _ => None
  end.

Definition finish (acc : option str) : ures :=
  match acc with
  | Some t => UOk t
  | None => UTypeError
  end.

Section Spec.
Variable kind : fid -> fkind.
Variable rx : fid -> str -> option nat.
Variable fconv : str -> str.
Variable kw : list (str * pyval).

(* the argument of one wildcard: anonymous ones are positional *)
Definition fetch (name : str) (args : list pyval) : ures + (pyval * list pyval) :=
  if is_anon name then
    match args with
    | v :: args' => inr (v, args')
    | [] => inl UIndexError
    end
  else
    match kw_get kw name with
    | Some v => inr (v, args)
    | None => inl UKeyError
    end.

Definition format (f : option fid) (v : pyval) : ures + pyval :=
  match f with
  | Some k =>
    match f_out_of (kind k) with
    | Some fm => match apply_fmt fm v with
                 | UOk s => inr (PStr s)
                 | e => inl e
                 end
    | None => inr v
    end
  | None => inr v
  end.

Definition check (f : option fid) (prt : pyval) (la : str) : option ures :=
  match f with
  | Some k => validate kind rx fconv k prt la
  | None => None
  end.

Fixpoint spec_go (p : pat) (names : list str) (args : list pyval) (acc : option str) : ures :=
  match p with
  | [] => finish acc
  | Lit s :: r => spec_go r names args (push acc (PStr s))
  | Wild f :: r =>
    match names with
    | [] => UIndexError
    | n :: names' =>
      match fetch n args with
      | inl e => e
      | inr (v, args') =>
        match format f v with
        | inl e => e
        | inr prt =>
          match check f prt (next_lit r) with
          | Some e => e
          | None => spec_go r names' args' (push acc prt)
          end
        end
      end
    end
  end.

(* Route.url as a function of the rule *)
Definition url_spec (p : pat) (names : list str) (args : list pyval) : ures :=
  match names with
  | [] => UOk (pattern_of p)
  | _ => spec_go p names args (Some [])
  end.

(* ---- side conditions for the round-trip theorems ---- *)

(* every filter of the rule has the identity formatter (re, path) *)
Definition identity_fmt (p : pat) : bool :=
  forallb (fun sg => match sg with
                     | Wild (Some k) => match f_out_of (kind k) with None => true | Some _ => false end
                     | _ => true
                     end) p.

(* the builder's assertions on the values [vs] of the wildcards of [p]:
   each filtered value, standing in front of the literal text that follows it,
   is matched by its own filter with a positive length *)
Fixpoint validates (p : pat) (vs : list value) : bool :=
  match p with
  | [] => true
  | Lit _ :: r => validates r vs
  | Wild f :: r =>
    match vs with
    | [] => true
    | v :: vs' =>
      match f with
      | Some k => match handler kind rx fconv k (v ++ next_lit r) with
                  | Some (_, S _) => validates r vs'
                  | _ => false
                  end
      | None => validates r vs'
      end
    end
  end.

End Spec.

(* a Python str: code points only (the value tags are above 0x10FFFF) *)
Definition valid_str (s : str) : Prop := Forall (fun c => c < TAG_INT) s.

(* names of a rule: one per wildcard, the named ones pairwise distinct *)
Definition named (names : list str) : list str := filter (fun n => negb (is_anon n)) names.
Definition names_ok (p : pat) (names : list str) : Prop :=
  length names = nwild p /\ NoDup (named names).

(* rules whose wildcards are plain or int-filtered *)
Definition int_or_plain (kind : fid -> fkind) (p : pat) : bool :=
  forallb (fun sg => match sg with
                     | Wild (Some k) => match kind k with KInt => true | _ => false end
                     | _ => true
                     end) p.

(* the rule, seen through its empty literal chunks, begins with an int wildcard *)
Fixpoint int_head (kind : fid -> fkind) (p : pat) : bool :=
  match p with
  | Lit [] :: r => int_head kind r
  | Wild (Some k) :: _ => match kind k with KInt => true | _ => false end
  | _ => false
  end.

(* no int wildcard is directly followed by another int wildcard *)
Fixpoint no_adjacent_int (kind : fid -> fkind) (p : pat) : bool :=
  match p with
  | [] => true
  | Wild (Some k) :: r =>
    match kind k with
    | KInt => negb (int_head kind r) && no_adjacent_int kind r
    | _ => no_adjacent_int kind r
    end
  | _ :: r => no_adjacent_int kind r
  end.
