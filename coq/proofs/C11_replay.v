(* C11_replay.v — (b) rebuilding the tree from the surviving indexes: inserting
   the surviving routes (index order) and then the surviving hooks into an
   empty tree is accepted at every step and yields a tree that holds exactly
   the same routes and hooks; hence the rebuilt router answers like the edited
   one. *)
From Coq Require Import Sorting.Sorted.
From Verif Require Import lib.Base lib.Str gen.Gen model.RouteSpec model.Dispatch model.Router
     proofs.C02_proofs proofs.C01_get proofs.C01_insert proofs.C01_router proofs.C11_proofs proofs.C11_hooks
     proofs.C11_fresh proofs.C11_more.

Local Opaque TOKEN.
Local Arguments N.eqb : simpl never.

(* ------------------------------------------------------------------ *)
(* all patterns a tree holds (routes and hooks)                          *)
(* ------------------------------------------------------------------ *)
Definition apats (n : node) : list (list pc) := map fst (paths n) ++ map fst (hpaths n).

Lemma in_apats n a : In a (apats n) <-> (exists x, In (a, x) (paths n)) \/ (exists hp, In (a, hp) (hpaths n)).
Proof.
  unfold apats. rewrite in_app_iff, !in_map_iff. split.
  - intros [([p x] & <- & H)|([p x] & <- & H)]; [left | right]; eauto.
  - intros [(x & H)|(x & H)]; [left; exists (a, x) | right; exists (a, x)]; auto.
Qed.

(* a held pattern is empty (this node) or goes through a child *)
Lemma apats_node key d nm f h kids a :
  In a (apats (Node key d nm f h kids)) ->
  a = [] \/ exists k a0, In k kids /\ a = key_pcs k ++ a0 /\ In a0 (apats k).
Proof.
  intros Ha. apply in_apats in Ha. destruct Ha as [(x & H)|(hp & H)].
  - rewrite paths_node in H. apply in_app_or in H. destruct H as [H|H].
    + left. destruct d; [|destruct H]. destruct H as [H|[]]. now injection H.
    + right. apply kid_of_entry in H. destruct H as (k & a0 & Hk & -> & H0). exists k, a0.
      split; [exact Hk|]. split; [reflexivity|]. apply in_apats. left. eauto.
  - rewrite hpaths_node in H. apply in_app_or in H. destruct H as [H|H].
    + left. destruct h; [|destruct H]. destruct H as [H|[]]. now injection H.
    + right. apply hkid_of_entry in H. destruct H as (k & [a0 hp0] & Hk & E & H0). unfold hpre in E. simpl in E.
      injection E as -> ->. exists k, a0. split; [exact Hk|]. split; [reflexivity|]. apply in_apats. right. eauto.
Qed.

Lemma pprefix_nil p : pprefix [] p.
Proof. now exists p. Qed.

Lemma pprefix_cons_inv x t y p : pprefix (x :: t) (y :: p) -> x = y /\ pprefix t p.
Proof. intros [u H]. simpl in H. injection H as -> ->. split; [reflexivity | now exists u]. Qed.

(* a prefix of kp ++ a0 ends inside kp or goes beyond it *)
Lemma pprefix_app_split t kp a0 :
  pprefix t (kp ++ a0) -> pprefix t kp \/ exists t0, t = kp ++ t0 /\ pprefix t0 a0.
Proof.
  revert t. induction kp as [|x kp IH]; intros t H; simpl in *.
  - right. exists t. auto.
  - destruct t as [|y t]; [left; apply pprefix_nil|]. apply pprefix_cons_inv in H. destruct H as [-> H].
    destruct (IH t H) as [[u Hu]|(t0 & -> & H0)].
    + left. exists u. simpl. now rewrite Hu.
    + right. exists t0. auto.
Qed.

Lemma key_pcs_nonempty k : key_ok (nkey k) -> key_pcs k <> [].
Proof.
  intros [Hne _]. unfold key_pcs. destruct (str_eqb (nkey k) tok); [discriminate|].
  destruct (nkey k); [contradiction | discriminate].
Qed.

Lemma rstr_nil_inv p : rstr p = [] -> p = [].
Proof. destruct p; [reflexivity | discriminate]. Qed.

(* general compatibility: inside one well-formed tree, a pattern prefix of one
   held pattern whose route string is a prefix of another held pattern's route
   string is a pattern prefix of that one too (one wildcard child per node) *)
Lemma compat_gen : forall n, wf n -> forall a b t,
  In a (apats n) -> In b (apats n) -> pprefix t a -> prefixb (rstr t) (rstr b) = true -> pprefix t b.
Proof.
  induction n as [key d nm f h kids IH] using node_ind'. intros Hw a b t Ha Hb Hta Hpre.
  pose proof (wf_inv _ _ _ _ _ _ Hw) as (W1 & W2 & W3 & W4).
  destruct t as [|x t]; [apply pprefix_nil|].
  apply apats_node in Ha. destruct Ha as [->|(ka & a0 & Hka & -> & Ha0)].
  { destruct Hta as [u Hu]. discriminate. }
  apply apats_node in Hb. destruct Hb as [->|(kb & b0 & Hkb & -> & Hb0)].
  { simpl in Hpre. discriminate. }
  rewrite Forall_forall in IH, W1, W2. pose proof (W2 ka Hka) as Ka. pose proof (W2 kb Hkb) as Kb.
  assert (Hh : khead ka = khead kb).
  { (* first route character of t = first of ka's key = first of kb's key *)
    destruct Hta as [u Hu]. rewrite rstr_app, (rstr_key kb Kb) in Hpre.
    assert (E1 : hd 0%N (rstr (x :: t)) = khead ka).
    { apply (f_equal rstr) in Hu. rewrite !rstr_app, (rstr_key ka Ka) in Hu. unfold khead.
      destruct Ka as [Kne _]. destruct (nkey ka); [contradiction|]. simpl in Hu. simpl. now injection Hu. }
    assert (E2 : hd 0%N (rstr (x :: t)) = khead kb).
    { unfold khead. destruct Kb as [Kne _]. destruct (nkey kb); [contradiction|]. simpl in Hpre |- *.
      unfold prefixb in Hpre. simpl in Hpre. apply andb_true_iff in Hpre. destruct Hpre as [E _].
      now apply N.eqb_eq in E. }
    congruence. }
  assert (ka = kb) by (eapply same_head_same_kid; eauto). subst kb.
  destruct (pprefix_app_split _ _ _ Hta) as [Hin|(t0 & E & Ht0)].
  - destruct Hin as [u Hu]. exists (u ++ b0). now rewrite Hu, app_assoc.
  - rewrite E. apply pprefix_app. rewrite E, !rstr_app, prefixb_app_same in Hpre.
    eapply (IH ka Hka (W1 ka Hka) a0 b0 t0); eauto.
Qed.

(* ------------------------------------------------------------------ *)
(* the patterns of the wildcard nodes of a tree                          *)
(* ------------------------------------------------------------------ *)
Fixpoint tokpats (n : node) : list (list pc) :=
  match n with
  | Node _ _ _ _ _ ks =>
    flat_map (fun k => (if str_eqb (nkey k) tok then [key_pcs k] else [])
                       ++ map (app (key_pcs k)) (tokpats k)) ks
  end.

Definition ktok (k : node) : list (list pc) :=
  (if str_eqb (nkey k) tok then [key_pcs k] else []) ++ map (app (key_pcs k)) (tokpats k).

Lemma tokpats_node key d nm f h ks : tokpats (Node key d nm f h ks) = flat_map ktok ks.
Proof. reflexivity. Qed.

Lemma in_ktok k t :
  In t (ktok k) <-> (nkey k = tok /\ t = key_pcs k) \/ exists t0, In t0 (tokpats k) /\ t = key_pcs k ++ t0.
Proof.
  unfold ktok. rewrite in_app_iff, in_map_iff. split.
  - intros [H|(t0 & <- & H)]; [left | right; eauto].
    destruct (str_eqb_spec (nkey k) tok); [|destruct H]. destruct H as [<-|[]]. auto.
  - intros [(E & ->)|(t0 & H & ->)]; [left | right; eauto].
    rewrite E, str_eqb_refl. now left.
Qed.

(* where _match reports a filter mismatch there is a wildcard node on the way
   whose pattern is not a prefix of the pattern looked for *)
Lemma mfilter_witness : forall n, wf n -> forall route fl pidx,
  ntok route + pidx <= length fl ->
  tmatch n route fl pidx = MMis MFilter ->
  exists t, In t (tokpats n) /\ prefixb (rstr t) route = true /\ ~ pprefix t (fpat route (skipn pidx fl)).
Proof.
  induction n as [key d nm f h kids IH] using node_ind'. intros Hw route fl pidx Hn Hm.
  pose proof (wf_inv _ _ _ _ _ _ Hw) as (W1 & W2 & W3 & W4).
  destruct route as [|c0 r]; [discriminate|]. cbn [tmatch] in Hm. rewrite tokpats_node.
  assert (G : forall ks, incl ks kids ->
              tm_go (fun k r p => tmatch k r fl p) fl c0 (c0 :: r) pidx ks = MMis MFilter ->
              exists t, In t (flat_map ktok ks) /\ prefixb (rstr t) (c0 :: r) = true /\
                        ~ pprefix t (fpat (c0 :: r) (skipn pidx fl))).
  { induction ks as [|k ks IHks]; intros Hincl; [simpl; discriminate|]. cbn [tm_go].
    assert (Hk : In k kids) by (apply Hincl; now left).
    rewrite Forall_forall in IH, W1, W2. pose proof (W2 k Hk) as Kk.
    destruct (head_is k c0).
    - unfold tm_kid. destruct (prefixb (nkey k) (c0 :: r)) eqn:Ep; [|discriminate].
      pose proof (prefixb_split _ _ Ep) as Hs.
      destruct (str_eqb_spec (nkey k) tok) as [Et|Et].
      + (* wildcard child *)
        assert (Hc0 : c0 = TOKEN).
        { rewrite Et in Ep. apply prefixb_spec in Ep. destruct Ep as [r' Er']. unfold tok in Er'.
          simpl in Er'. now injection Er'. }
        subst c0. assert (Hnt : ntok (TOKEN :: r) = S (ntok r)) by (simpl; now rewrite N.eqb_refl).
        rewrite Hnt in Hn. unfold filter_check.
        destruct fl as [|g0 gs] eqn:Efl; [simpl in Hn; lia|]. rewrite <- Efl in *.
        destruct (nth_error fl pidx) as [g|] eqn:Enth.
        2:{ apply nth_error_None in Enth. lia. }
        assert (Hfp : fpat (TOKEN :: r) (skipn pidx fl) = PW g :: fpat r (skipn (S pidx) fl)).
        { rewrite (nth_error_skipn fl pidx g Enth). simpl. now rewrite N.eqb_refl. }
        destruct (ofid_eqb (nflt k) g) eqn:Eof.
        * apply ofid_eqb_eq in Eof. intros Hm'. simpl in Hm'.
          destruct (IH k Hk (W1 k Hk) r fl (S pidx) ltac:(lia) Hm') as (t0 & A & B & C).
          exists (key_pcs k ++ t0). split; [|split].
          -- simpl. apply in_or_app. left. apply in_ktok. right. eauto.
          -- rewrite rstr_app, (rstr_key k Kk), Et. unfold tok. simpl. unfold prefixb. simpl.
             rewrite N.eqb_refl. exact B.
          -- rewrite Hfp, key_pcs_tok by exact Et. rewrite Eof. simpl. intros Hp.
             apply pprefix_cons_inv in Hp. destruct Hp as [_ Hp]. contradiction.
        * intros _. exists (key_pcs k). split; [|split].
          -- simpl. apply in_or_app. left. apply in_ktok. left. auto.
          -- rewrite (rstr_key k Kk), Et. apply prefixb_spec. exists r. reflexivity.
          -- rewrite Hfp, key_pcs_tok by exact Et. intros Hp. apply pprefix_cons_inv in Hp.
             destruct Hp as [E _]. injection E as E. rewrite E, ofid_eqb_refl in Eof. discriminate.
      + (* literal child *)
        assert (Hlit : ~ In TOKEN (nkey k)) by (destruct Kk as [_ [E|E]]; [contradiction | exact E]).
        intros Hm'.
        destruct (IH k Hk (W1 k Hk) (skipn (length (nkey k)) (c0 :: r)) fl pidx) as (t0 & A & B & C); auto.
        { rewrite <- (ntok_lit (nkey k)) by exact Hlit. now rewrite <- Hs. }
        exists (key_pcs k ++ t0). split; [|split].
        * simpl. apply in_or_app. left. apply in_ktok. right. eauto.
        * rewrite rstr_app, (rstr_key k Kk). rewrite Hs. now rewrite prefixb_app_same.
        * rewrite Hs, fpat_lit, key_pcs_lit by (auto; apply Kk). intros Hp. apply (proj1 (pprefix_app _ _ _)) in Hp. contradiction.
    - intros Hm'. destruct (IHks (fun x Hx => Hincl x (or_intror Hx)) Hm') as (t & A & B & C).
      exists t. split; [simpl; apply in_or_app; now right | auto]. }
  apply (G kids (incl_refl _) Hm).
Qed.

(* ------------------------------------------------------------------ *)
(* the shape of _set's PARTIAL case (node split)                         *)
(* ------------------------------------------------------------------ *)
Lemma set_kid_partial rec k c0 r fl pidx it nm :
  head_is k c0 = true -> wf k -> key_ok (nkey k) -> prefixb (nkey k) (c0 :: r) = false ->
  exists A B rest,
    nkey k = A ++ B /\ A <> [] /\ B <> [] /\ ~ In TOKEN A /\ ~ In TOKEN B /\ c0 :: r = A ++ rest /\
    (forall c1 rt, rest = c1 :: rt -> c1 <> hd 0%N B) /\
    set_kid rec fl it nm k (c0 :: r) pidx =
    match rest with
    | [] => match apply_item (Node A None [] None None [set_key k B]) it nm with
            | SOk p => inl p
            | SErr e => inr e
            end
    | _ :: _ => match make_route [set_key k B] rest (skipn pidx fl) it nm with
                | inl pk => inl (Node A None [] None None pk)
                | inr e => inr e
                end
    end.
Proof.
  intros Hh Hw Hk Ep. set (route := c0 :: r) in *.
  assert (Hkh : khead k = c0) by (apply head_is_khead; [apply Hk | exact Hh]).
  assert (Ht : nkey k <> tok).
  { intros Ht. assert (Hc : c0 = TOKEN) by (rewrite <- Hkh; unfold khead; now rewrite Ht).
    assert (E : prefixb (nkey k) route = true)
      by (rewrite Ht; apply prefixb_spec; exists r; unfold route; now rewrite Hc). congruence. }
  assert (Hlit : ~ In TOKEN (nkey k)) by (destruct Hk as [_ [E|E]]; [contradiction | exact E]).
  unfold set_kid. fold route. rewrite Ep.
  destruct (nkey k) as [|x key_t] eqn:Ekey; [destruct Hk; contradiction|].
  assert (Hx : x = c0) by (unfold khead in Hkh; rewrite Ekey in Hkh; exact Hkh). subst x.
  assert (Hc0 : c0 <> TOKEN) by (intros E; apply Hlit; now left).
  destruct (upto_tok_split route) as (tail & Hroute & Hupnt & Htail).
  set (up := upto_tok route) in *.
  assert (Hup : up = c0 :: upto_tok r).
  { unfold up, route. simpl. destruct (N.eqb_spec c0 TOKEN); [contradiction | reflexivity]. }
  set (si := cpl (c0 :: key_t) up).
  assert (Hsi_pos : 0 < si) by (unfold si; rewrite Hup; apply cpl_pos).
  assert (Hsi_le : si <= length (c0 :: key_t)) by apply cpl_le_l.
  assert (Hsi_up : si <= length up) by apply cpl_le_r.
  assert (Hsi_lt : si < length (c0 :: key_t)).
  { destruct (Nat.eq_dec si (length (c0 :: key_t))) as [E|E]; [|lia]. exfalso.
    apply cpl_full in E. assert (prefixb up route = true) by (apply prefixb_spec; eauto).
    rewrite (prefixb_trans _ _ _ E H) in Ep. discriminate. }
  set (A := firstn si (c0 :: key_t)). set (B := skipn si (c0 :: key_t)).
  assert (HAB : c0 :: key_t = A ++ B) by (symmetry; apply firstn_skipn).
  assert (HAnt : ~ In TOKEN A) by (apply not_in_firstn; exact Hlit).
  assert (HBnt : ~ In TOKEN B) by (apply not_in_skipn; exact Hlit).
  assert (HAne : A <> []).
  { unfold A. destruct si; [lia|]. discriminate. }
  assert (HBne : B <> []).
  { unfold B. intros E. apply (f_equal (@length N)) in E. rewrite skipn_length in E.
    change (length (@nil N)) with 0 in E. lia. }
  assert (HAroute : firstn si route = A).
  { unfold A, si. rewrite cpl_firstn. rewrite Hroute at 1. rewrite firstn_app.
    replace (cpl (c0 :: key_t) up - length up) with 0 by (fold si; lia). simpl. now rewrite app_nil_r. }
  assert (Hroute2 : route = A ++ skipn si route) by (rewrite <- HAroute; symmetry; apply firstn_skipn).
  exists A, B, (skipn si route). split; [exact HAB|]. split; [exact HAne|]. split; [exact HBne|].
  split; [exact HAnt|]. split; [exact HBnt|]. split; [exact Hroute2|]. split.
  - intros c1 rt Erest.
    assert (Hsk : skipn si route = skipn si up ++ tail).
    { rewrite Hroute at 1. rewrite skipn_app. replace (si - length up) with 0 by lia. reflexivity. }
    rewrite Erest in Hsk. destruct B as [|b0 Bt] eqn:EB; [contradiction|]. simpl.
    destruct (skipn si up) as [|y b'] eqn:Eup.
    + simpl in Hsk. destruct Htail as [->|[t ->]]; [discriminate|]. injection Hsk as -> _.
      intros E. apply HBnt. left. now symmetry.
    + simpl in Hsk. injection Hsk as -> _. intros E. symmetry in E. revert E.
      apply (cpl_max (c0 :: key_t) up b0 Bt y b'); [exact EB | exact Eup].
  - fold si. fold B. destruct B as [|b0 Bt] eqn:EB; [contradiction|]. fold A. reflexivity.
Qed.

(* ---- the wildcard nodes _make_route creates lie on the new pattern ---- *)
Lemma chain_tok ps : forall fl it nm c,
  Forall piece_ok ps -> pn ps <= length fl -> chain ps fl it nm = CNode c ->
  forall t, In t (ktok c) -> pprefix t (ppat ps fl).
Proof.
  induction ps as [|p ps IH]; intros fl it nm c Hok Hn Hc; [discriminate|].
  inversion Hok as [|? ? Hp Hps]; subst. destruct p as [s|].
  - destruct Hp as [Hs Hnt]. cbn [chain] in Hc.
    destruct (chain ps fl it nm) as [| |c'] eqn:Ec; [|discriminate|].
    + injection Hc as <-. intros t Ht. apply in_ktok in Ht. rewrite nkey_leaf in Ht.
      destruct Ht as [(E & _)|(t0 & Ht0 & _)].
      * exfalso. apply Hnt. rewrite E. now left.
      * destruct it; destruct Ht0.
    + injection Hc as <-. intros t Ht. apply in_ktok in Ht. simpl nkey in Ht.
      destruct Ht as [(E & _)|(t0 & Ht0 & ->)]; [exfalso; apply Hnt; rewrite E; now left|].
      rewrite tokpats_node in Ht0. simpl in Ht0. rewrite app_nil_r in Ht0.
      rewrite key_pcs_lit by (simpl; auto). simpl nkey. cbn [ppat]. apply pprefix_app.
      eapply IH; eauto.
  - cbn [chain] in Hc. destruct fl as [|f fs]; [discriminate|]. simpl in Hn.
    destruct (chain ps fs it nm) as [| |c'] eqn:Ec; [|discriminate|].
    + injection Hc as <-. intros t Ht. apply in_ktok in Ht.
      destruct Ht as [(_ & ->)|(t0 & Ht0 & _)].
      * rewrite key_pcs_tok by apply nkey_leaf. rewrite nflt_leaf. cbn [ppat]. now exists (ppat ps fs).
      * destruct it; destruct Ht0.
    + injection Hc as <-. intros t Ht. apply in_ktok in Ht.
      destruct Ht as [(_ & ->)|(t0 & Ht0 & ->)].
      * rewrite key_pcs_tok by reflexivity. cbn [ppat]. now exists (ppat ps fs).
      * rewrite tokpats_node in Ht0. simpl in Ht0. rewrite app_nil_r in Ht0.
        rewrite key_pcs_tok by reflexivity. simpl nflt. cbn [ppat].
        change (PW f :: ppat ps fs) with ([PW f] ++ ppat ps fs). apply pprefix_app. eapply IH; eauto. lia.
Qed.

Lemma make_route_tok ks route fl it nm ks' :
  route <> [] -> ntok route <= length fl -> make_route ks route fl it nm = inl ks' ->
  forall t, In t (flat_map ktok ks') -> In t (flat_map ktok ks) \/ pprefix t (fpat route fl).
Proof.
  intros Hne Hn. unfold make_route.
  destruct (pieces_spec route fl Hne) as (Hp & Hf & Hpn & Hpne & Hph).
  destruct (chain (pieces route) fl it nm) as [| |c] eqn:Ec; [intros [= <-]; auto | discriminate|].
  unfold mount. destruct (str_eqb (nkey c) tok).
  - destruct (last_is_tok ks); [discriminate|]. intros [= <-] t Ht. rewrite flat_map_app in Ht.
    apply in_app_or in Ht. destruct Ht as [Ht|Ht]; [now left|]. right. simpl in Ht. rewrite app_nil_r in Ht.
    rewrite <- Hp. eapply chain_tok; eauto. lia.
  - intros [= <-] t Ht. simpl in Ht. apply in_app_or in Ht. destruct Ht as [Ht|Ht]; [|now left]. right.
    rewrite <- Hp. eapply chain_tok; eauto. lia.
Qed.

Lemma make_route_total ks route fl it nm :
  kids_ok ks -> route <> [] -> ntok route <= length fl -> ~ In (hd 0%N route) (map khead ks) ->
  exists ks', make_route ks route fl it nm = inl ks'.
Proof.
  intros A B C D. destruct (make_route_spec ks route fl it nm A B C D) as (ks' & E & _). eauto.
Qed.

(* ------------------------------------------------------------------ *)
(* _set is accepted unless _match objects                               *)
(* ------------------------------------------------------------------ *)
Definition occupied (it : item) (n0 : node) : Prop :=
  match it with IData _ => ndata n0 <> None | IHooks _ => nhooks n0 <> None end.

Definition errcond (it : item) (e : serr) (m : mres) : Prop :=
  (e = EFilter /\ m = MMis MFilter) \/ (e = ERegistered /\ exists n0, m = MExact n0 /\ occupied it n0).

Definition set_res_ok (n : node) (route : str) (fl : list (option fid)) (pidx : nat) (it : item) (r : sres) : Prop :=
  match r with
  | SOk n' => forall t, In t (tokpats n') -> In t (tokpats n) \/ pprefix t (fpat route (skipn pidx fl))
  | SErr e => errcond it e (tmatch n route fl pidx)
  end.

Lemma tokpats_set_key k s : tokpats (set_key k s) = tokpats k.
Proof. now destruct k. Qed.

Lemma set_at_acc : forall n, wf n -> forall route fl pidx it nm,
  ntok route + pidx <= length fl -> set_res_ok n route fl pidx it (set_at n route fl pidx it nm).
Proof.
  induction n as [key d nm0 f h kids IH] using node_ind'. intros Hw route fl pidx it nm Hn.
  pose proof (wf_inv _ _ _ _ _ _ Hw) as (W1 & W2 & W3 & W4).
  destruct route as [|c0 r].
  - (* the exact node *)
    cbn [set_at]. unfold apply_item. destruct it as [d'|h'].
    + destruct d as [x|]; simpl.
      * right. split; [reflexivity|]. eexists. split; [reflexivity|]. simpl. discriminate.
      * intros t Ht. now left.
    + destruct h as [x|]; simpl.
      * right. split; [reflexivity|]. eexists. split; [reflexivity|]. simpl. discriminate.
      * intros t Ht. now left.
  - cbn [set_at]. set (P := fpat (c0 :: r) (skipn pidx fl)).
    set (rec := fun k r p => set_at k r fl p it nm).
    (* one child *)
    assert (K : forall k, In k kids -> head_is k c0 = true ->
                match set_kid rec fl it nm k (c0 :: r) pidx with
                | inl k' => forall t, In t (ktok k') -> In t (ktok k) \/ pprefix t P
                | inr e => errcond it e (tm_kid (fun k r p => tmatch k r fl p) fl k (c0 :: r) pidx)
                end).
    { intros k Hk Hh. rewrite Forall_forall in IH, W1, W2. pose proof (W2 k Hk) as Kk. pose proof (W1 k Hk) as Wk.
      destruct (prefixb (nkey k) (c0 :: r)) eqn:Ep.
      - (* descend *)
        pose proof (prefixb_split _ _ Ep) as Hs.
        unfold set_kid, tm_kid. rewrite Ep.
        assert (Hdesc : forall route' pidx', ntok route' + pidx' <= length fl ->
                          P = key_pcs k ++ fpat route' (skipn pidx' fl) ->
                          match (match rec k route' pidx' with SOk k' => inl k' | SErr e => inr e end) with
                          | inl k' => forall t, In t (ktok k') -> In t (ktok k) \/ pprefix t P
                          | inr e => errcond it e (tmatch k route' fl pidx')
                          end).
        { intros route' pidx' Hn' HP. pose proof (IH k Hk Wk route' fl pidx' it nm Hn') as Hr.
          unfold rec. destruct (set_at k route' fl pidx' it nm) as [k1|e] eqn:Es; [|exact Hr].
          destruct (set_at_ok k route' fl pidx' it nm k1 Wk Hn' Es) as (_ & Hk1 & Hf1 & _).
          intros t Ht. apply in_ktok in Ht. rewrite Hk1, (kid_entries_same_key k k1 Hk1 Hf1) in Ht.
          destruct Ht as [(E & ->)|(t0 & Ht0 & ->)].
          - left. apply in_ktok. left. auto.
          - destruct (Hr t0 Ht0) as [Hin|Hp].
            + left. apply in_ktok. right. eauto.
            + right. rewrite HP. now apply pprefix_app. }
        destruct (str_eqb_spec (nkey k) tok) as [Et|Et].
        + assert (Hc0 : c0 = TOKEN).
          { rewrite Et in Ep. apply prefixb_spec in Ep. destruct Ep as [r' Er']. unfold tok in Er'.
            simpl in Er'. now injection Er'. }
          subst c0. assert (Hnt : ntok (TOKEN :: r) = S (ntok r)) by (simpl; now rewrite N.eqb_refl).
          rewrite Hnt in Hn.
          assert (Hfc : filter_check fl pidx k = match nth_error fl pidx with
                                                 | None => Some MIndex
                                                 | Some f0 => if ofid_eqb (nflt k) f0 then None else Some MFilter
                                                 end).
          { unfold filter_check. destruct fl; [simpl in Hn; lia | reflexivity]. }
          rewrite Hfc.
          destruct (nth_error fl pidx) as [g|] eqn:Enth.
          2:{ apply nth_error_None in Enth. lia. }
          destruct (ofid_eqb (nflt k) g) eqn:Eof.
          * apply ofid_eqb_eq in Eof. apply (Hdesc (skipn 1 (TOKEN :: r)) (S pidx)); [simpl; lia|].
            unfold P. rewrite (nth_error_skipn fl pidx g Enth), key_pcs_tok by exact Et. simpl.
            now rewrite N.eqb_refl, Eof.
          * left. auto.
        + assert (Hlit : ~ In TOKEN (nkey k)) by (destruct Kk as [_ [E|E]]; [contradiction | exact E]).
          apply (Hdesc (skipn (length (nkey k)) (c0 :: r)) pidx).
          * rewrite <- (ntok_lit (nkey k)) by exact Hlit. now rewrite <- Hs.
          * unfold P. rewrite Hs at 1. rewrite fpat_lit, key_pcs_lit by (auto; apply Kk). reflexivity.
      - (* split *)
        destruct (set_kid_partial rec k c0 r fl pidx it nm Hh Wk Kk Ep)
          as (A & B & rest & HAB & HAne & HBne & HAnt & HBnt & Hroute & Hhd & ->).
        set (old := set_key k B).
        assert (Hkp : key_pcs k = map PC A ++ map PC B).
        { rewrite key_pcs_lit; [now rewrite HAB, map_app | apply Kk|].
          rewrite HAB, in_app_iff. tauto. }
        assert (Hold : forall t, In t (ktok old) -> exists t0, In t0 (tokpats k) /\ t = map PC B ++ t0).
        { intros t Ht. apply in_ktok in Ht. unfold old in Ht. rewrite nkey_set_key, tokpats_set_key in Ht.
          destruct Ht as [(E & _)|(t0 & Ht0 & ->)]; [exfalso; apply HBnt; rewrite E; now left|].
          exists t0. split; [exact Ht0|]. rewrite key_pcs_lit by (rewrite nkey_set_key; auto).
          now rewrite nkey_set_key. }
        assert (Hwold : wf old) by (apply wf_set_key; exact Wk).
        assert (Hkold : key_ok (nkey old)) by (unfold old; rewrite nkey_set_key; split; auto).
        destruct rest as [|c1 rt].
        + assert (Hap : exists p, apply_item (Node A None [] None None [old]) it nm = SOk p /\
                                  nkey p = A /\ nkids p = [old]).
          { destruct it; simpl; eexists; split; reflexivity || (split; reflexivity). }
          destruct Hap as (p & -> & Hpk & Hpks). intros t Ht. apply in_ktok in Ht. rewrite Hpk in Ht.
          destruct Ht as [(E & _)|(t0 & Ht0 & ->)]; [exfalso; apply HAnt; rewrite E; now left|].
          destruct p as [pk pd pn pf ph pks]. simpl in Hpk, Hpks. subst pk pks.
          rewrite tokpats_node in Ht0. simpl in Ht0. rewrite app_nil_r in Ht0.
          destruct (Hold t0 Ht0) as (t1 & Ht1 & ->). left. apply in_ktok. right. exists t1. split; [exact Ht1|].
          rewrite key_pcs_lit by (simpl; auto). simpl nkey. now rewrite Hkp, app_assoc.
        + assert (Hnt : ntok (c1 :: rt) = ntok (c0 :: r)) by (rewrite Hroute; now rewrite ntok_lit).
          destruct (make_route_total [old] (c1 :: rt) (skipn pidx fl) it nm) as (pk & Hmk).
          * split; [now constructor|]. split; [now constructor|]. split; [|exact I].
            simpl. constructor; [intros [] | constructor].
          * discriminate.
          * rewrite skipn_length. lia.
          * simpl. unfold khead, old. rewrite nkey_set_key. intros [E|[]]. apply (Hhd c1 rt eq_refl). now symmetry.
          * rewrite Hmk. intros t Ht. apply in_ktok in Ht. simpl nkey in Ht.
            destruct Ht as [(E & _)|(t0 & Ht0 & ->)]; [exfalso; apply HAnt; rewrite E; now left|].
            rewrite tokpats_node in Ht0. rewrite key_pcs_lit by (simpl; auto). simpl nkey.
            destruct (make_route_tok [old] (c1 :: rt) (skipn pidx fl) it nm pk) with (t := t0) as [Hin|Hp]; auto.
            -- discriminate.
            -- rewrite skipn_length. lia.
            -- simpl in Hin. rewrite app_nil_r in Hin. destruct (Hold t0 Hin) as (t1 & Ht1 & ->).
               left. apply in_ktok. right. exists t1. split; [exact Ht1|]. now rewrite Hkp, app_assoc.
            -- right. unfold P. rewrite Hroute, fpat_lit by exact HAnt. now apply pprefix_app. }
    (* the children loop *)
    assert (G : forall ks, incl ks kids ->
                match set_go rec fl it nm c0 (c0 :: r) pidx ks with
                | None => forall k, In k ks -> head_is k c0 = false
                | Some (inl ks') => forall t, In t (flat_map ktok ks') -> In t (flat_map ktok ks) \/ pprefix t P
                | Some (inr e) => errcond it e (tm_go (fun k r p => tmatch k r fl p) fl c0 (c0 :: r) pidx ks)
                end).
    { induction ks as [|k ks IHks]; intros Hincl; cbn [set_go tm_go]; [intros k []|].
      assert (Hk : In k kids) by (apply Hincl; now left).
      destruct (head_is k c0) eqn:Eh.
      - pose proof (K k Hk Eh) as HK. destruct (set_kid rec fl it nm k (c0 :: r) pidx) as [k'|e]; [|exact HK].
        intros t Ht. simpl in Ht. apply in_app_or in Ht. destruct Ht as [Ht|Ht].
        + destruct (HK t Ht) as [H1|H1]; [left; simpl; apply in_or_app; now left | now right].
        + left. simpl. apply in_or_app. now right.
      - specialize (IHks (fun x Hx => Hincl x (or_intror Hx))).
        destruct (set_go rec fl it nm c0 (c0 :: r) pidx ks) as [[ks'|e]|].
        + intros t Ht. simpl in Ht. apply in_app_or in Ht. destruct Ht as [Ht|Ht].
          * left. simpl. apply in_or_app. now left.
          * destruct (IHks t Ht) as [H1|H1]; [left; simpl; apply in_or_app; now right | now right].
        + exact IHks.
        + intros x [<-|Hx]; [exact Eh | now apply IHks]. }
    pose proof (G kids (incl_refl _)) as HG. cbn [tmatch]. fold rec.
    destruct (set_go rec fl it nm c0 (c0 :: r) pidx kids) as [[kids'|e]|].
    + cbn [set_res_ok]. intros t Ht. rewrite tokpats_node in *. apply HG. exact Ht.
    + exact HG.
    + destruct (make_route_total kids (c0 :: r) (skipn pidx fl) it nm) as (kids' & Hmk).
      * repeat split; auto.
      * discriminate.
      * rewrite skipn_length. lia.
      * simpl. intros Hin. apply in_map_iff in Hin. destruct Hin as (x & Hx & Hin).
        rewrite Forall_forall in W2. assert (head_is x c0 = true) by (apply head_is_khead; [apply W2; auto | exact Hx]).
        rewrite (HG x Hin) in H. discriminate.
      * rewrite Hmk. cbn [set_res_ok]. intros t Ht. rewrite tokpats_node in *.
        eapply make_route_tok; eauto; [discriminate | rewrite skipn_length; lia].
Qed.

(* ------------------------------------------------------------------ *)
(* helper facts                                                         *)
(* ------------------------------------------------------------------ *)
Definition hfilters (q : list pc) : list (option fid) :=
  flat_map (fun x => match x with PW f => [f] | PC _ => [] end) q.

Definition pc_ok (q : list pc) : Prop := forall c, In (PC c) q -> c <> TOKEN.

Lemma fpat_rstr q : pc_ok q -> fpat (rstr q) (hfilters q) = q /\ ntok (rstr q) = length (hfilters q).
Proof.
  induction q as [|x q IH]; intros Hok; simpl; [auto|].
  assert (Hok' : pc_ok q) by (intros c Hc; apply Hok; now right).
  destruct (IH Hok') as (A & B). destruct x as [c|f]; simpl.
  - assert (Hc : c <> TOKEN) by (apply Hok; now left).
    destruct (N.eqb_spec c TOKEN); [contradiction|]. now rewrite A, B.
  - rewrite N.eqb_refl. simpl. now rewrite A, B.
Qed.

Lemma pc_ok_app a b : pc_ok a -> pc_ok b -> pc_ok (a ++ b).
Proof. intros Ha Hb c Hc. apply in_app_or in Hc. destruct Hc; auto. Qed.

Lemma pc_ok_key k : key_ok (nkey k) -> pc_ok (key_pcs k).
Proof.
  intros Hk c Hc. unfold key_pcs in Hc. destruct (str_eqb_spec (nkey k) tok) as [E|E].
  - destruct Hc as [Hc|[]]. discriminate.
  - destruct Hk as [_ [Ht|Hn]]; [contradiction|]. apply in_map_iff in Hc. destruct Hc as (x & Hx & Hin).
    injection Hx as <-. intros ->. contradiction.
Qed.

Lemma apats_pc_ok : forall n, wf n -> forall a, In a (apats n) -> pc_ok a.
Proof.
  induction n as [key d nm f h kids IH] using node_ind'. intros Hw a Ha.
  pose proof (wf_inv _ _ _ _ _ _ Hw) as (W1 & W2 & W3 & W4).
  apply apats_node in Ha. destruct Ha as [->|(k & a0 & Hk & -> & Ha0)]; [intros c []|].
  rewrite Forall_forall in IH, W1, W2. apply pc_ok_app; [apply pc_ok_key; auto | eapply IH; eauto].
Qed.

Lemma NoDup_app_intro {A} (a b : list A) :
  NoDup a -> NoDup b -> (forall x, In x a -> In x b -> False) -> NoDup (a ++ b).
Proof.
  induction a as [|x a IH]; intros Ha Hb Hd; simpl; [exact Hb|]. inversion Ha; subst. constructor.
  - rewrite in_app_iff. intros [H|H]; [contradiction | apply (Hd x); [now left | exact H]].
  - apply IH; auto. intros y Hy. apply Hd. now right.
Qed.

(* hook entries of a well-formed tree have pairwise different route strings *)
Lemma hpaths_rstr_nodup : forall n, wf n -> NoDup (map (fun e : hentry => rstr (fst e)) (hpaths n)).
Proof.
  induction n as [key d nm f h kids IH] using node_ind'. intros Hw.
  pose proof (wf_inv _ _ _ _ _ _ Hw) as (W1 & W2 & W3 & W4). rewrite hpaths_node, map_app.
  assert (Hk : NoDup (map (fun e : hentry => rstr (fst e)) (hkids_entries kids)) /\
               forall e, In e (hkids_entries kids) -> exists k, In k kids /\ hd 0%N (rstr (fst e)) = khead k /\ rstr (fst e) <> []).
  { clear W4 Hw. revert IH W1 W2 W3. induction kids as [|k ks IHks]; intros IH W1 W2 W3;
      [split; [constructor | intros e []]|].
    inversion IH as [|? ? IHk IHs]; subst. inversion W1 as [|? ? Wk Ws]; subst.
    inversion W2 as [|? ? Kk Ks]; subst. inversion W3 as [|? ? Hn Hd]; subst.
    destruct (IHks IHs Ws Ks Hd) as (A & B).
    assert (Hthis : forall e, In e (hkid_entries k) -> hd 0%N (rstr (fst e)) = khead k /\ rstr (fst e) <> []).
    { intros e He. apply in_hkid_entries in He. destruct He as (e0 & _ & ->). simpl.
      rewrite rstr_app, (rstr_key k Kk). unfold khead. destruct Kk as [Kne _].
      destruct (nkey k); [contradiction|]. simpl. split; [reflexivity | discriminate]. }
    split.
    - rewrite hkids_entries_cons, map_app. apply NoDup_app_intro.
      + unfold hkid_entries. rewrite map_map. simpl.
        assert (E : map (fun x : hentry => rstr (key_pcs k ++ fst x)) (hpaths k)
                    = map (app (nkey k)) (map (fun e : hentry => rstr (fst e)) (hpaths k))).
        { rewrite map_map. apply map_ext. intros e. now rewrite rstr_app, (rstr_key k Kk). }
        rewrite E. apply FinFun.Injective_map_NoDup; [intros x y; apply app_inv_head | now apply IHk].
      + exact A.
      + intros s H1 H2. apply in_map_iff in H1. destruct H1 as (e1 & <- & He1).
        apply in_map_iff in H2. destruct H2 as (e2 & E2 & He2).
        destruct (Hthis e1 He1) as (F1 & _). destruct (B e2 He2) as (k2 & Hk2 & F2 & _).
        apply Hn. rewrite <- F1, <- E2, F2. now apply in_map.
    - intros e He. rewrite hkids_entries_cons in He. apply in_app_or in He. destruct He as [He|He].
      + exists k. split; [now left|]. now apply Hthis.
      + destruct (B e He) as (k2 & Hk2 & F). exists k2. split; [now right | exact F]. }
  destruct Hk as (A & B). apply NoDup_app_intro; [|exact A|].
  - destruct h; simpl; [constructor; [intros [] | constructor] | constructor].
  - intros s H1 H2. destruct h; [|destruct H1]. destruct H1 as [<-|[]]. apply in_map_iff in H2.
    destruct H2 as (e & E & He). destruct (B e He) as (_ & _ & _ & Hne). simpl in E. congruence.
Qed.

(* filter checks can only stop _match, never change where it goes *)
Lemma tmatch_nofilter : forall n route fl pidx n0,
  tmatch n route fl pidx = MExact n0 -> forall pidx', tmatch n route [] pidx' = MExact n0.
Proof.
  induction n as [key d nm f h kids IH] using node_ind'. intros route fl pidx n0 Hm pidx'.
  destruct route as [|c0 r]; [exact Hm|]. cbn [tmatch] in *.
  revert Hm. induction kids as [|k ks IHks]; cbn [tm_go]; [discriminate|].
  inversion IH as [|? ? Hk Hks]; subst. destruct (head_is k c0); [|now apply IHks].
  unfold tm_kid. destruct (prefixb (nkey k) (c0 :: r)); [|discriminate].
  destruct (str_eqb (nkey k) tok).
  - destruct (filter_check fl pidx k); [discriminate|]. simpl. intros Hm. eapply Hk; eauto.
  - intros Hm. eapply Hk; eauto.
Qed.

(* ------------------------------------------------------------------ *)
(* rebuilding the tree from the surviving indexes                        *)
(* ------------------------------------------------------------------ *)
Definition ins_route (R : router) (t : option node) (pd : str * rid) : option node :=
  match t, nth_error (heap R) (snd pd) with
  | Some t0, Some rt =>
    match set_at t0 (fst pd) (r_filters rt) 0 (IData (snd pd)) (r_names rt) with
    | SOk t' => Some t'
    | SErr _ => None
    end
  | _, _ => None
  end.

Definition ins_hook (t : option node) (e : hentry) : option node :=
  match t with
  | Some t0 =>
    match set_at t0 (rstr (fst e)) (hfilters (fst e)) 0 (IHooks (snd e)) [] with
    | SOk t' => Some t'
    | SErr _ => None
    end
  | None => None
  end.

(* the empty tree + the surviving routes in index order + the surviving hooks *)
Definition rebuild_tree (R : router) : option node :=
  fold_left ins_hook (hpaths (tree R)) (fold_left (ins_route R) (routes R) (Some root0)).

(* the freshly built router: same Route objects and indexes, tree built anew *)
Definition rebuild (R : router) : option router :=
  match rebuild_tree R with
  | Some t => Some (mkRouter t (heap R) (routes R) (named R) (hooks_idx R))
  | None => None
  end.

(* the invariant of the rebuilding loop *)
Record RB (R : router) (T : node) (Sd : list entry) (Sh : list hentry) : Prop := {
  rb_wf : wf T;
  rb_paths : forall e, In e (paths T) <-> In e Sd;
  rb_hpaths : forall e, In e (hpaths T) <-> In e Sh;
  rb_sub_d : forall e, In e Sd -> In e (paths (tree R));
  rb_sub_h : forall e, In e Sh -> In e (hpaths (tree R));
  rb_tok : forall t, In t (tokpats T) -> exists a, In a (apats T) /\ pprefix t a
}.

Lemma RB_apats_sub R T Sd Sh a : RB R T Sd Sh -> In a (apats T) -> In a (apats (tree R)).
Proof.
  intros H Ha. apply in_apats in Ha. apply in_apats. destruct Ha as [(x & Hx)|(x & Hx)]; [left | right]; exists x.
  - apply (rb_sub_d R T Sd Sh H). now apply (rb_paths R T Sd Sh H).
  - apply (rb_sub_h R T Sd Sh H). now apply (rb_hpaths R T Sd Sh H).
Qed.

(* no filter mismatch can occur when inserting a pattern the edited tree holds *)
Lemma RB_no_mfilter R T Sd Sh route fl :
  wf (tree R) -> RB R T Sd Sh -> ntok route <= length fl ->
  In (fpat route fl) (apats (tree R)) ->
  tmatch T route fl 0 <> MMis MFilter.
Proof.
  intros HwR HRB Hn HP Hm.
  destruct (mfilter_witness T (rb_wf R T Sd Sh HRB) route fl 0 ltac:(lia) Hm) as (t & A & B & C).
  destruct (rb_tok R T Sd Sh HRB t A) as (a & Ha & Hta).
  apply C. simpl. eapply (compat_gen (tree R) HwR a (fpat route fl) t); eauto.
  - eapply RB_apats_sub; eauto.
  - now rewrite rstr_fpat.
Qed.

Lemma RB_tok_step R T T' Sd Sh route fl it nm (e : list pc) :
  RB R T Sd Sh -> ntok route <= length fl -> set_at T route fl 0 it nm = SOk T' ->
  e = fpat route fl -> In e (apats T') -> (forall a, In a (apats T) -> In a (apats T')) ->
  forall t, In t (tokpats T') -> exists a, In a (apats T') /\ pprefix t a.
Proof.
  intros HRB Hn Hs -> He Hmono t Ht.
  pose proof (set_at_acc T (rb_wf R T Sd Sh HRB) route fl 0 it nm ltac:(lia)) as Hacc. rewrite Hs in Hacc.
  destruct (Hacc t Ht) as [Hin|Hp].
  - destruct (rb_tok R T Sd Sh HRB t Hin) as (a & Ha & Hta). exists a. split; [now apply Hmono | exact Hta].
  - simpl in Hp. eauto.
Qed.

Lemma RB_route_step R T Sd Sh p d rt :
  Inv R -> RB R T Sd Sh ->
  al_get (routes R) p = Some d -> nth_error (heap R) d = Some rt ->
  (forall e, In e Sd -> rstr (fst e) <> p) ->
  exists T', set_at T p (r_filters rt) 0 (IData d) (r_names rt) = SOk T' /\
             RB R T' (entry_of p d rt :: Sd) Sh.
Proof.
  intros HI HRB Hg Hh Hnew. pose proof (rb_wf R T Sd Sh HRB) as HwT.
  destruct (inv_routes R HI p d Hg) as (rt1 & B1 & B2 & B3). assert (rt1 = rt) by congruence. subst rt1.
  assert (HinR : In (entry_of p d rt) (paths (tree R))) by (apply (inv_paths R HI); exists p, d, rt; auto).
  pose proof (set_at_acc T HwT p (r_filters rt) 0 (IData d) (r_names rt) ltac:(lia)) as Hacc.
  destruct (set_at T p (r_filters rt) 0 (IData d) (r_names rt)) as [T'|e] eqn:Es.
  - exists T'. split; [reflexivity|].
    pose proof (insert_paths T p (r_filters rt) (IData d) (r_names rt) T' HwT ltac:(lia) Es) as Hp.
    pose proof (insert_hpaths T p (r_filters rt) (IData d) (r_names rt) T' HwT ltac:(lia) Es) as Hhp.
    simpl in Hp, Hhp.
    assert (Hpaths : forall e, In e (paths T') <-> In e (entry_of p d rt :: Sd)).
    { intros e. rewrite Hp. simpl. rewrite (rb_paths R T Sd Sh HRB e). unfold pre, entry_of. simpl.
      rewrite app_nil_r. tauto. }
    assert (Hhpaths : forall e, In e (hpaths T') <-> In e Sh).
    { intros e. rewrite Hhp. rewrite (rb_hpaths R T Sd Sh HRB e). tauto. }
    constructor; auto.
    + eapply wf_insert; eauto. lia.
    + intros e [<-|He]; [exact HinR | now apply (rb_sub_d R T Sd Sh HRB)].
    + apply (rb_sub_h R T Sd Sh HRB).
    + eapply (RB_tok_step R T T' Sd Sh p (r_filters rt)); eauto; [lia | |].
      * apply in_apats. left. exists (d, r_names rt). apply Hpaths. now left.
      * intros a Ha. apply in_apats in Ha. apply in_apats. destruct Ha as [(x & Hx)|(x & Hx)]; [left | right]; exists x.
        -- apply Hpaths. right. now apply (rb_paths R T Sd Sh HRB).
        -- apply Hhpaths. now apply (rb_hpaths R T Sd Sh HRB).
  - exfalso. destruct Hacc as [(-> & Hm)|(-> & n0 & Hm & Hocc)].
    + eapply (RB_no_mfilter R T Sd Sh p (r_filters rt)); eauto; [exact (inv_wf R HI) | lia|].
      apply in_apats. left. exists (d, r_names rt). exact HinR.
    + simpl in Hocc. destruct (ndata n0) as [d0|] eqn:Ed; [|contradiction].
      assert (Hin : In (fpat p (skipn 0 (r_filters rt)), (d0, nnames n0)) (paths T))
        by (apply (tmatch_sound T HwT p (r_filters rt) 0 n0 d0); auto; lia).
      simpl in Hin. apply (rb_paths R T Sd Sh HRB) in Hin. apply (Hnew _ Hin). simpl. apply rstr_fpat.
Qed.

Lemma RB_hook_step R T Sd Sh q hp :
  Inv R -> RB R T Sd Sh -> In (q, hp) (hpaths (tree R)) ->
  (forall e, In e Sh -> rstr (fst e) <> rstr q) ->
  exists T', set_at T (rstr q) (hfilters q) 0 (IHooks hp) [] = SOk T' /\ RB R T' Sd ((q, hp) :: Sh).
Proof.
  intros HI HRB HinR Hnew. pose proof (rb_wf R T Sd Sh HRB) as HwT. pose proof (inv_wf R HI) as HwR.
  assert (Hqa : In q (apats (tree R))) by (apply in_apats; right; eauto).
  destruct (fpat_rstr q (apats_pc_ok (tree R) HwR q Hqa)) as (Hfq & Hnq).
  pose proof (set_at_acc T HwT (rstr q) (hfilters q) 0 (IHooks hp) [] ltac:(lia)) as Hacc.
  destruct (set_at T (rstr q) (hfilters q) 0 (IHooks hp) []) as [T'|e] eqn:Es.
  - exists T'. split; [reflexivity|].
    pose proof (insert_paths T (rstr q) (hfilters q) (IHooks hp) [] T' HwT ltac:(lia) Es) as Hp.
    pose proof (insert_hpaths T (rstr q) (hfilters q) (IHooks hp) [] T' HwT ltac:(lia) Es) as Hhp.
    simpl in Hp, Hhp. rewrite Hfq in Hhp.
    assert (Hpaths : forall e, In e (paths T') <-> In e Sd).
    { intros e. rewrite Hp. rewrite (rb_paths R T Sd Sh HRB e). tauto. }
    assert (Hhpaths : forall e, In e (hpaths T') <-> In e ((q, hp) :: Sh)).
    { intros e. rewrite Hhp. simpl. rewrite (rb_hpaths R T Sd Sh HRB e). unfold hpre. simpl.
      rewrite app_nil_r. tauto. }
    constructor; auto.
    + apply (wf_insert T (rstr q) (hfilters q) (IHooks hp) [] T' HwT); [lia | exact Es].
    + apply (rb_sub_d R T Sd Sh HRB).
    + intros e [<-|He]; [exact HinR | now apply (rb_sub_h R T Sd Sh HRB)].
    + eapply (RB_tok_step R T T' Sd Sh (rstr q) (hfilters q)); eauto; [lia | |].
      * rewrite Hfq. apply in_apats. right. exists hp. apply Hhpaths. now left.
      * intros a Ha. apply in_apats in Ha. apply in_apats. destruct Ha as [(x & Hx)|(x & Hx)]; [left | right]; exists x.
        -- apply Hpaths. now apply (rb_paths R T Sd Sh HRB).
        -- apply Hhpaths. right. now apply (rb_hpaths R T Sd Sh HRB).
  - exfalso. destruct Hacc as [(-> & Hm)|(-> & n0 & Hm & Hocc)].
    + eapply (RB_no_mfilter R T Sd Sh (rstr q) (hfilters q)); eauto; [lia|]. now rewrite Hfq.
    + simpl in Hocc. destruct (nhooks n0) as [hp0|] eqn:Eh; [|contradiction].
      pose proof (tmatch_nofilter T _ _ _ _ Hm 0) as Hm0.
      destruct (tmatch_sound_h T (rstr q) 0 n0 hp0 (Forall_nil _) HwT Hm0 Eh) as (q' & Hq' & Hin').
      apply (rb_hpaths R T Sd Sh HRB) in Hin'. apply (Hnew _ Hin'). exact Hq'.
Qed.

Lemma RB0 R : RB R root0 [] [].
Proof.
  constructor; simpl; try tauto; try (constructor; constructor); try (intros t []).
Qed.

Lemma RB_fold_routes R : Inv R -> forall l pre T Sd,
  routes R = pre ++ l -> RB R T Sd [] ->
  (forall e, In e Sd -> In (rstr (fst e)) (map fst pre)) ->
  (forall p d, In (p, d) pre -> exists rt, nth_error (heap R) d = Some rt /\ In (entry_of p d rt) Sd) ->
  exists T' Sd', fold_left (ins_route R) l (Some T) = Some T' /\ RB R T' Sd' [] /\
                 forall p d, In (p, d) (routes R) -> exists rt, nth_error (heap R) d = Some rt /\ In (entry_of p d rt) Sd'.
Proof.
  intros HI. induction l as [|[p d] l IH]; intros pre T Sd Hsplit HRB Hkeys Hall.
  - exists T, Sd. split; [reflexivity|]. split; [exact HRB|]. rewrite app_nil_r in Hsplit. now rewrite Hsplit.
  - pose proof (inv_nodup R HI) as Hnd.
    assert (Hg : al_get (routes R) p = Some d).
    { apply al_in_get; [exact Hnd|]. rewrite Hsplit. apply in_or_app. right. now left. }
    destruct (inv_routes R HI p d Hg) as (rt & Hh & _).
    assert (Hp : ~ In p (map fst pre)).
    { rewrite Hsplit, map_app in Hnd. simpl in Hnd. apply NoDup_remove_2 in Hnd. intros H. apply Hnd.
      apply in_or_app. now left. }
    destruct (RB_route_step R T Sd [] p d rt HI HRB Hg Hh) as (T1 & Hs & HRB1).
    { intros e He E. apply Hp. rewrite <- E. now apply Hkeys. }
    assert (E : ins_route R (Some T) (p, d) = Some T1) by (unfold ins_route; simpl; now rewrite Hh, Hs).
    cbn [fold_left]. rewrite E.
    apply (IH (pre ++ [(p, d)]) T1 (entry_of p d rt :: Sd)); auto.
    + now rewrite <- app_assoc.
    + intros e [<-|He]; rewrite map_app, in_app_iff.
      * right. simpl. left. unfold entry_of. simpl. now rewrite rstr_fpat.
      * left. now apply Hkeys.
    + intros p0 d0 Hin. apply in_app_or in Hin. destruct Hin as [Hin|[Hin|[]]].
      * destruct (Hall p0 d0 Hin) as (rt0 & A & B). exists rt0. split; [exact A | now right].
      * injection Hin as <- <-. exists rt. split; [exact Hh | now left].
Qed.

Lemma RB_fold_hooks R : Inv R -> forall l pre T Sd Sh,
  hpaths (tree R) = pre ++ l -> RB R T Sd Sh ->
  (forall e, In e Sh <-> In e pre) ->
  exists T' Sh', fold_left ins_hook l (Some T) = Some T' /\ RB R T' Sd Sh' /\
                 forall e, In e Sh' <-> In e (hpaths (tree R)).
Proof.
  intros HI. induction l as [|[q hp] l IH]; intros pre T Sd Sh Hsplit HRB Hsh.
  - exists T, Sh. split; [reflexivity|]. split; [exact HRB|]. rewrite app_nil_r in Hsplit. now rewrite Hsplit.
  - pose proof (hpaths_rstr_nodup (tree R) (inv_wf R HI)) as Hnd.
    assert (HinR : In (q, hp) (hpaths (tree R))) by (rewrite Hsplit; apply in_or_app; right; now left).
    destruct (RB_hook_step R T Sd Sh q hp HI HRB HinR) as (T1 & Hs & HRB1).
    { intros e He E. apply Hsh in He. rewrite Hsplit, map_app in Hnd. simpl in Hnd. apply NoDup_remove_2 in Hnd.
      apply Hnd. apply in_or_app. left. rewrite <- E. apply in_map_iff. exists e. auto. }
    assert (E : ins_hook (Some T) (q, hp) = Some T1) by (unfold ins_hook; simpl; now rewrite Hs).
    cbn [fold_left]. rewrite E.
    apply (IH (pre ++ [(q, hp)]) T1 Sd ((q, hp) :: Sh)); auto.
    + now rewrite <- app_assoc.
    + intros e. simpl. rewrite in_app_iff, (Hsh e). simpl. tauto.
Qed.

(* the freshly built router exists, and tree, heap and indexes are in step *)
Theorem rebuild_ok : forall R, Inv R -> HInv R ->
  exists F, rebuild R = Some F /\ Inv F /\ HInv F /\
            heap F = heap R /\ routes F = routes R /\ named F = named R /\ hooks_idx F = hooks_idx R.
Proof.
  intros R HI HH.
  destruct (RB_fold_routes R HI (routes R) [] root0 [] eq_refl (RB0 R)) as (T1 & Sd & F1 & HRB1 & Hall);
    [intros e [] | intros p d [] |].
  destruct (RB_fold_hooks R HI (hpaths (tree R)) [] T1 Sd [] eq_refl HRB1) as (T2 & Sh & F2 & HRB2 & Hsh);
    [tauto|].
  unfold rebuild, rebuild_tree. rewrite F1, F2. eexists. split; [reflexivity|].
  assert (Hpaths : forall e, In e (paths T2) <-> In e (paths (tree R))).
  { intros e. rewrite (rb_paths R T2 Sd Sh HRB2 e). split; [apply (rb_sub_d R T2 Sd Sh HRB2)|].
    intros Hin. apply (inv_paths R HI) in Hin. destruct Hin as (p & d & rt & A & B & ->).
    destruct (Hall p d (al_get_in _ _ _ A)) as (rt' & B' & Hin). assert (rt' = rt) by congruence. now subst. }
  assert (Hhpaths : forall e, In e (hpaths T2) <-> In e (hpaths (tree R))).
  { intros e. rewrite (rb_hpaths R T2 Sd Sh HRB2 e). apply Hsh. }
  split; [|split; [|repeat split]].
  - destruct HI as [I1 I2 I3 I4]. constructor; simpl; auto.
    + exact (rb_wf R T2 Sd Sh HRB2).
    + intros e. rewrite Hpaths. apply I2.
  - unfold HInv. simpl. apply (HI_same (tree R)); [exact Hhpaths | exact HH].
Qed.

(* ------------------------------------------------------------------ *)
(* the router after any admissible history equals the freshly built one  *)
(* ------------------------------------------------------------------ *)
Theorem history_eq_fresh_lemma : forall (cs : list cmd),
  admissible router0 cs ->
  let R := exec_cmds router0 cs in
  exists F,
    rebuild R = Some F /\
    (* the indexes and the Route objects are the same by construction: listing, router[name] *)
    heap F = heap R /\ routes F = routes R /\ named F = named R /\ hooks_idx F = hooks_idx R /\
    (* every request is answered identically: 404 / 405+Allow / rule, method, handler, kwargs, hooks *)
    (forall filt path cds, answer R (resolve filt R path cds) = answer F (resolve filt F path cds)) /\
    (* router[{rule}] *)
    (forall p fl, ntok p = length fl -> rt_match F p fl = rt_match R p fl).
Proof.
  intros cs Hcs R. destruct (Inv_HInv_adm cs router0 Inv0 HInv0 Hcs) as (HI & HH). fold R in HI, HH.
  destruct (rebuild_ok R HI HH) as (F & Hr & HIF & HHF & E1 & E2 & E3 & E4).
  exists F. split; [exact Hr|]. split; [exact E1|]. split; [exact E2|]. split; [exact E3|]. split; [exact E4|]. split.
  - intros filt path cds. apply same_survivors_inv; try assumption;
      [unfold content; now rewrite E1, E2 | now rewrite E4].
  - intros p fl Hn.
    destruct (rt_match F p fl) as [d|] eqn:EF.
    + apply (by_rule_inv_lemma F p fl d HIF Hn) in EF. rewrite E1, E2 in EF. symmetry.
      now apply (by_rule_inv_lemma R p fl d HI Hn).
    + destruct (rt_match R p fl) as [d|] eqn:ER; [|reflexivity].
      apply (by_rule_inv_lemma R p fl d HI Hn) in ER. rewrite <- E1, <- E2 in ER.
      apply (by_rule_inv_lemma F p fl d HIF Hn) in ER. congruence.
Qed.

(* non-vacuity: add a/b/c, hook a/b, remove that hook, hook a: the edited tree
   is  a -> /b -> /c  (the emptied node "/b" is never merged); the rebuilt tree is
   a -> /b/c.  The shapes differ, the answers do not. *)
Lemma eq_fresh_nonvacuous_lemma :
  let cs := [CAdd 0 s_abc [] [] [s_get] 1 None false; CAddHook s_ab [] [] 50 false; CRemoveHook s_ab;
             CAddHook s_a [] [] 51 false] in
  let R := exec_cmds router0 cs in
  admissible router0 cs /\
  exists F, rebuild R = Some F /\ tree F <> tree R /\
            answer R (resolve nofilt R (47%N :: s_abc) [s_get]) = AOk 0 s_get 1 [] [(1, (Some 51, None))] /\
            answer F (resolve nofilt F (47%N :: s_abc) [s_get]) = AOk 0 s_get 1 [] [(1, (Some 51, None))].
Proof.
  cbv zeta. split.
  - apply noprefix_admissible. repeat constructor.
  - vm_compute. eexists. split; [reflexivity|]. split; [discriminate|]. split; reflexivity.
Qed.
